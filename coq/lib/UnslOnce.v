(* "A schema violation discards exactly the offending top-level object": for EVERY unslicer semantics (lib/Unsl.v), from a
   receiver at top level, the tokens of ONE top-level sequence -- an OPEN, tokens that keep the nesting depth positive, and the
   token that brings it back to zero -- produce EXACTLY ONE root event: either the object is delivered (one UDeliver, no
   UViolation) or it is reported (one UViolation, no UDeliver) -- unless the connection is abandoned.
   Root events are identified by hypotheses R1-R4 (the root unslicer is the one that delivers and the one whose reportViolation
   emits UViolation; no other unslicer emits either).  The proof is a potential argument: with
     psi c = 1 iff only the root is on the stack, no index phase is pending and discardCount > 0  ("already reported"),
   every token of the sequence satisfies  #root-events + psi before = psi after + [the depth is back at zero].
   It needs the two repairs of banana.py (CLOSE / ABORT in the index phase): the translated flags hd_close_fatal and
   hd_abort_in_index are used as they are generated. *)
From Coq Require Import ZArith List Bool Lia.
Import ListNotations.
Require Import Verif.lib.PyLite Verif.gen.BananaGen Verif.gen.RecvGen Verif.lib.Token Verif.lib.Recv Verif.lib.RecvProofs Verif.lib.Unsl Verif.lib.UnslProofs.
Local Open Scope Z_scope.

Definition rootev (e : uevent) : bool := match e with UDeliver _ | UViolation => true | _ => false end.
Definition nroot (es : list uevent) : Z := Z.of_nat (List.length (filter rootev es)).
Definition ndeliver (es : list uevent) : Z := Z.of_nat (List.length (filter (fun e => match e with UDeliver _ => true | _ => false end) es)).
Definition nviolation (es : list uevent) : Z := Z.of_nat (List.length (filter (fun e => match e with UViolation => true | _ => false end) es)).

Lemma nroot_app a b : nroot (a ++ b) = nroot a + nroot b.
Proof. unfold nroot. rewrite filter_app, app_length. lia. Qed.

Lemma nroot_split es : nroot es = ndeliver es + nviolation es.
Proof.
  unfold nroot, ndeliver, nviolation. induction es as [|e es IH]; [reflexivity|]. cbn [filter].
  destruct e; cbn [rootev List.length]; lia.
Qed.

(* exactly one root event = one delivery and no violation, or one violation and no delivery *)
Lemma one_root_event es : nroot es = 1 -> (ndeliver es = 1 /\ nviolation es = 0) \/ (ndeliver es = 0 /\ nviolation es = 1).
Proof. rewrite nroot_split. unfold ndeliver, nviolation. lia. Qed.

Section Once.
Variable fr : Type.
Variable u_check : fr -> Z -> Z -> oc unit.
Variable u_opener_check : list fr -> Z -> Z -> list (list Z) -> oc unit.
Variable u_do_open : list fr -> list (list Z) -> oc (option fr).
Variable u_start : fr -> Z -> oc fr.
Variable u_child : fr -> uval -> list uevent * oc fr.
Variable u_close : fr -> oc uval.
Variable u_finish : fr -> oc unit.
Variable u_report : fr -> option (list uevent).
Variable is_root : fr -> bool.

Hypothesis R1 : forall f, is_root f = true -> u_report f = Some [UViolation].
Hypothesis R2 : forall f es, is_root f = false -> u_report f = Some es -> nroot es = 0.
Hypothesis R3 : forall f v, is_root f = true -> exists f', u_child f v = ([UDeliver v], OOk f') /\ is_root f' = true.
Hypothesis R4 : forall f v es r, is_root f = false -> u_child f v = (es, r) -> nroot es = 0 /\ (forall f', r = OOk f' -> is_root f' = false).
Hypothesis R5 : forall st ot ch, u_do_open st ot = OOk (Some ch) -> is_root ch = false.
Hypothesis R6 : forall ch n ch', is_root ch = false -> u_start ch n = OOk ch' -> is_root ch' = false.

Notation uctx := (uctx fr).
Notation ufr := (ufr fr).
Notation uhv_loop := (uhv_loop fr u_finish u_report).
Notation uhandle_violation := (uhandle_violation fr u_finish u_report).
Notation uhandle_token := (uhandle_token fr u_child u_finish u_report).
Notation uhandle_close := (uhandle_close fr u_child u_close u_finish u_report).
Notation uhandle_open := (uhandle_open fr u_do_open u_start u_finish u_report).
Notation udeliver := (udeliver fr u_do_open u_start u_child u_finish u_report).
Notation utaste := (utaste fr u_check u_opener_check).
Notation ubegin_body := (ubegin_body fr u_check u_opener_check u_finish u_report).
Notation ustep_nobody_hr := (ustep_nobody_hr fr u_check u_opener_check u_do_open u_start u_child u_close u_finish u_report).
Notation utok_apply := (utok_apply fr u_check u_opener_check u_do_open u_start u_child u_close u_finish u_report).
Notation uapply_all := (uapply_all fr u_check u_opener_check u_do_open u_start u_child u_close u_finish u_report).
Notation depth := (uopen_depth fr).

(* the root is at the bottom, and it is the only root *)
Definition rooted (st : list ufr) : Prop :=
  exists pre r, st = pre ++ [r] /\ is_root (uf_st fr r) = true /\ uf_open fr r = None /\ Forall (fun f => is_root (uf_st fr f) = false) pre.

Definition len1 (st : list ufr) : Z := if (List.length st =? 1)%nat then 1 else 0.

Lemma rooted_nonempty st : rooted st -> (1 <= List.length st)%nat.
Proof. intros (pre & r & -> & _). rewrite app_length. cbn. lia. Qed.

Lemma rooted_cons top rest : rooted (top :: rest) ->
  (rest = [] /\ is_root (uf_st fr top) = true /\ uf_open fr top = None) \/ (is_root (uf_st fr top) = false /\ rooted rest).
Proof.
  intros (pre & r & E & Hr & Ho & F). destruct pre as [|p pre]; cbn in E; inversion E; subst.
  - left. auto.
  - right. inversion F; subst. split; [assumption|]. exists pre, r. auto.
Qed.

Lemma rooted_push f st : rooted st -> is_root (uf_st fr f) = false -> rooted (f :: st).
Proof. intros (pre & r & -> & H1 & H2 & F) Hf. exists (f :: pre), r. split; [reflexivity|]. split; [exact H1|]. split; [exact H2|]. constructor; assumption. Qed.

Lemma rooted_single r : is_root (uf_st fr r) = true -> uf_open fr r = None -> rooted [r].
Proof. intros H1 H2. exists [], r. split; [reflexivity|]. split; [exact H1|]. split; [exact H2|constructor]. Qed.

(* handleViolation: the failure is a root event exactly when it travels down to the root *)
Lemma hv_loop_count : forall st d ic st' d' es, rooted st -> uhv_loop st d ic = HvOk fr st' d' es ->
  rooted st' /\ nroot es = len1 st' /\ d <= d'.
Proof.
  induction st as [|top rest IH]; intros d ic st' d' es R E; [pose proof (rooted_nonempty _ R) as HL; cbn in HL; lia|].
  cbn [Unsl.uhv_loop] in E. destruct (rooted_cons _ _ R) as [(-> & Hr & Ho)|(Hn & Rr)].
  - rewrite (R1 _ Hr) in E. inversion E; subst. split; [exact R|]. split; [reflexivity|lia].
  - destruct (u_report (uf_st fr top)) as [es0|] eqn:ER.
    + inversion E; subst. split; [exact R|]. split; [|lia]. rewrite (R2 _ _ Hn ER). unfold len1.
      pose proof (rooted_nonempty _ Rr). cbn [List.length]. destruct (Nat.eqb_spec (S (List.length rest)) 1); [lia|reflexivity].
    + assert (E' : uhv_loop rest (if ic then d else d + 1) false = HvOk fr st' d' es).
      { destruct (u_finish (uf_st fr top)); try discriminate; (destruct rest; [pose proof (rooted_nonempty _ Rr) as HL; cbn in HL; lia|exact E]). }
      destruct (IH _ _ _ _ _ Rr E') as (R' & N & D). split; [exact R'|]. split; [exact N|]. destruct ic; lia.
Qed.

Definition hr_count (r : uhr fr) (P : uctx -> list uevent -> Prop) : Prop := match r with UOk _ c es => P c es | UFatal _ _ => True end.

Lemma hv_count c io ic : rooted (u_stack fr c) ->
  hr_count (uhandle_violation c io ic) (fun c' es => rooted (u_stack fr c') /\ nroot es = len1 (u_stack fr c') /\ u_inOpen fr c' = u_inOpen fr c /\
                                                     u_discard fr c <= u_discard fr c').
Proof.
  intros R. unfold Unsl.uhandle_violation. destruct (uhv_loop _ _ _) as [st' d' es|] eqn:E; [|exact I].
  destruct (hv_loop_count _ _ _ _ _ _ R E) as (R' & N & D). cbn [hr_count uw_stack u_stack u_inOpen u_discard]. repeat split; auto. destruct io; lia.
Qed.

Lemma hr_count_upre es r P : hr_count r (fun c' es' => P c' (es ++ es')) -> hr_count (upre fr es r) P.
Proof. destruct r; cbn; auto. Qed.

Lemma hr_count_imp r (P Q : uctx -> list uevent -> Prop) : (forall c es, P c es -> Q c es) -> hr_count r P -> hr_count r Q.
Proof. destruct r; cbn; auto. Qed.

Lemma token_count c v : rooted (u_stack fr c) ->
  hr_count (uhandle_token c v) (fun c' es => rooted (u_stack fr c') /\ nroot es = len1 (u_stack fr c') /\ u_inOpen fr c' = u_inOpen fr c /\
                                             u_discard fr c <= u_discard fr c').
Proof.
  intros R. unfold Unsl.uhandle_token. destruct (u_stack fr c) as [|top rest] eqn:Es; [exact I|].
  destruct (rooted_cons _ _ R) as [(-> & Hr & Ho)|(Hn & Rr)].
  - destruct (R3 (uf_st fr top) v Hr) as (f' & -> & Hr'). cbn [hr_count uw_stack u_stack u_inOpen u_discard].
    split; [apply rooted_single; [exact Hr'|exact Ho]|]. repeat split; try reflexivity; lia.
  - destruct (u_child (uf_st fr top) v) as [es0 r] eqn:EC. destruct (R4 _ _ _ _ Hn EC) as (N0 & Hf).
    destruct r as [f'| | |k]; try exact I.
    + cbn [hr_count uw_stack u_stack u_inOpen u_discard]. split; [apply rooted_push; [exact Rr|cbn; apply Hf; reflexivity]|].
      split; [|split; [reflexivity|lia]]. rewrite N0. unfold len1. pose proof (rooted_nonempty _ Rr). cbn [List.length].
      destruct (Nat.eqb_spec (S (List.length rest)) 1); [lia|reflexivity].
    + apply hr_count_upre. assert (Rc : rooted (u_stack fr c)) by (rewrite Es; exact R).
      eapply hr_count_imp; [|apply (hv_count c false false Rc)]. intros c' es (A & B & C & D). rewrite nroot_app, N0. auto.
Qed.

Lemma opt_is_some' o n : opt_is o n = true -> o <> None.
Proof. destruct o; [discriminate|]. cbn. discriminate. Qed.

Lemma close_count c n : rooted (u_stack fr c) ->
  hr_count (uhandle_close c n) (fun c' es => rooted (u_stack fr c') /\ nroot es = len1 (u_stack fr c') /\ u_inOpen fr c' = u_inOpen fr c /\
                                             u_discard fr c <= u_discard fr c').
Proof.
  intros R. unfold Unsl.uhandle_close. destruct (u_stack fr c) as [|top rest] eqn:Es; [exact I|].
  destruct (opt_is (uf_open fr top) n) eqn:EO; [|exact I]. cbn [negb].
  assert (Rc : rooted (u_stack fr c)) by (rewrite Es; exact R).
  destruct (rooted_cons _ _ R) as [(_ & _ & Ho)|(Hn & Rr)]; [exfalso; apply (opt_is_some' _ _ EO); exact Ho|].
  destruct (u_close (uf_st fr top)); try exact I; try apply (hv_count c false true Rc).
  destruct (u_finish (uf_st fr top)); try exact I; try apply (hv_count c false true Rc).
  apply (token_count (uw_stack fr c (u_discard fr c) rest)). exact Rr.
Qed.

(* handleOpen (an index token): a root event only if the OPEN is rejected all the way down to the root *)
Lemma open_count c v : rooted (u_stack fr c) -> u_inOpen fr c = true ->
  hr_count (uhandle_open c v) (fun c' es => rooted (u_stack fr c') /\ u_discard fr c <= u_discard fr c' /\
                                            ((u_inOpen fr c' = true /\ nroot es = 0 /\ u_discard fr c' = u_discard fr c) \/
                                             (u_inOpen fr c' = false /\ nroot es = len1 (u_stack fr c')))).
Proof.
  intros R IO. unfold Unsl.uhandle_open. cbv zeta. destruct v; try exact I. destruct (negb _); [exact I|].
  destruct (u_stack fr c) as [|top rest] eqn:Es; [exact I|].
  destruct (u_do_open (map (uf_st fr) (top :: rest)) (u_opentype fr c ++ [b])) as [[child|]| | |] eqn:ED; try exact I.
  - pose proof (R5 _ _ _ ED) as Hc.
    destruct (u_start child (u_inbObj fr c)) as [child'| | |] eqn:ES; try exact I.
    + cbn [hr_count uw_stack uw_inOpen uw_opentype u_stack u_inOpen u_discard]. split; [apply rooted_push; [exact R|cbn; apply (R6 _ _ _ Hc ES)]|].
      split; [lia|]. right. split; [reflexivity|]. unfold len1. pose proof (rooted_nonempty _ R). cbn [List.length] in *.
      destruct (Nat.eqb_spec (S (S (List.length rest))) 1); [lia|reflexivity].
    + eapply hr_count_imp; [|apply hv_count; cbn [uw_stack u_stack]; apply rooted_push; [exact R|exact Hc]].
      intros c' es (A & B & C & D). cbn [uw_stack uw_inOpen uw_opentype u_inOpen u_discard] in *. split; [exact A|]. split; [exact D|]. right. auto.
  - cbn [hr_count uw_opentype u_stack u_inOpen u_discard]. rewrite Es. split; [exact R|]. split; [lia|]. left. auto.
  - eapply hr_count_imp; [|apply hv_count; cbn [uw_inOpen uw_opentype u_stack]; rewrite Es; exact R].
    intros c' es (A & B & C & D). cbn [uw_inOpen uw_opentype u_inOpen u_discard] in *. split; [exact A|]. split; [lia|]. right. auto.
Qed.


(* ---- the invariant and the potential ---- *)
Hypothesis H_child : forall f v es f', u_child f v = (es, OOk f') -> absorbs fr u_report f -> absorbs fr u_report f'.
Hypothesis H_close : forall f, (u_close f = OViol \/ (exists v, u_close f = OOk v /\ u_finish f = OViol)) -> u_report f = None.

Definition RI (c : uctx) : Prop :=
  0 <= u_discard fr c /\ rooted (u_stack fr c) /\ (u_inOpen fr c = true -> u_discard fr c = 0).

Definition psi (c : uctx) : Z :=
  if (List.length (u_stack fr c) =? 1)%nat && negb (u_inOpen fr c) && (0 <? u_discard fr c) then 1 else 0.

Definition G (c : uctx) : Z := if u_inOpen fr c then 0 else len1 (u_stack fr c).

Lemma rooted_ubottom st : rooted st -> ubottom fr u_report st.
Proof. intros (pre & r & -> & Hr & Ho & _). exists pre, r. split; [reflexivity|]. split; [exact Ho|]. unfold absorbs. rewrite (R1 _ Hr). discriminate. Qed.

Lemma RI_wfc c : RI c -> uwfc fr u_report c.
Proof. intros (A & B & _). split; [exact A|apply rooted_ubottom; exact B]. Qed.

Lemma G_spec c : RI c -> G c = psi c + (if depth c =? 0 then 1 else 0).
Proof.
  intros (Hd & R & Hio). pose proof (rooted_nonempty _ R) as L. unfold G, psi, len1, uopen_depth.
  destruct (u_inOpen fr c) eqn:IO.
  - rewrite andb_false_r. cbn [negb andb]. destruct (Z.eqb_spec (u_discard fr c + (Z.of_nat (List.length (u_stack fr c)) - 1) + 1) 0); lia.
  - cbn [negb]. rewrite andb_true_r. destruct (Nat.eqb_spec (List.length (u_stack fr c)) 1) as [E|E]; cbn [andb].
    + rewrite E. destruct (Z.ltb_spec 0 (u_discard fr c)); destruct (Z.eqb_spec (u_discard fr c + (Z.of_nat 1 - 1) + 0) 0); lia.
    + destruct (Z.eqb_spec (u_discard fr c + (Z.of_nat (List.length (u_stack fr c)) - 1) + 0) 0); lia.
Qed.

Lemma psi_discarding c : RI c -> 0 < u_discard fr c -> u_inOpen fr c = false /\ psi c = len1 (u_stack fr c).
Proof.
  intros (Hd & R & Hio) D. assert (IO : u_inOpen fr c = false) by (destruct (u_inOpen fr c); [specialize (Hio eq_refl); lia|reflexivity]).
  split; [exact IO|]. unfold psi, len1. rewrite IO. cbn [negb]. destruct (Z.ltb_spec 0 (u_discard fr c)); [|lia].
  rewrite !andb_true_r. reflexivity.
Qed.

Lemma psi_zero c : u_discard fr c = 0 -> psi c = 0.
Proof. intros D. unfold psi. rewrite D. cbn [Z.ltb Z.compare]. rewrite andb_false_r. reflexivity. Qed.

Lemma close_flag io d : hd_close_fatal io d = false -> 0 <= d -> (io = true -> 0 < d).
Proof. unfold hd_close_fatal. intros H Hd ->. destruct (Z.eqb_spec d 0); cbn in H; [discriminate|lia]. Qed.

(* deliver (accepted token, nothing being discarded) *)
Lemma deliver_count c v : RI c -> u_discard fr c = 0 ->
  hr_count (udeliver c v) (fun c' es => RI c' /\ nroot es = G c').
Proof.
  intros (Hd & R & Hio) D0. unfold Unsl.udeliver. destruct (u_inOpen fr c) eqn:IO.
  - eapply hr_count_imp; [|apply (open_count c v R IO)]. intros c' es (A & B & [(I1 & N & D)|(I1 & N)]); unfold RI, G; rewrite I1.
    + split; [split; [lia|split; [exact A|intros _; lia]]|exact N].
    + split; [split; [lia|split; [exact A|discriminate]]|exact N].
  - eapply hr_count_imp; [|apply (token_count c v R)]. intros c' es (A & N & I1 & D). rewrite IO in I1. unfold RI, G. rewrite I1.
    split; [split; [lia|split; [exact A|discriminate]]|exact N].
Qed.

(* a violation handled where the token is rejected: afterwards no index phase is pending *)
Lemma hv_count_closed c io : RI c ->
  hr_count (match uhandle_violation c io false with UOk _ c' es => UOk fr (uw_inOpen fr c' false) es | UFatal _ es => UFatal fr es end)
           (fun c' es => RI c' /\ nroot es = G c' /\ u_inOpen fr c' = false).
Proof.
  intros (Hd & R & Hio). pose proof (hv_count c io false R) as H. destruct (uhandle_violation c io false) as [c1 es1|]; [|exact I].
  cbn [hr_count] in *. destruct H as (A & N & _ & D). unfold RI, G, uw_inOpen. cbn [u_inOpen u_stack u_discard].
  split; [split; [lia|split; [exact A|discriminate]]|]. split; [exact N|reflexivity].
Qed.

Theorem tok_count c ty hdr body : RI c -> hd_abort_in_index = true -> (0 < depth c \/ ty = tok_OPEN) ->
  hr_count (utok_apply c ty hdr body) (fun c' es => RI c' /\ nroot es + psi c = G c').
Proof.
  intros HRI FA PRE. assert (HRI' := HRI). destruct HRI' as (Hd & R & Hio).
  unfold Unsl.utok_apply. destruct (has_body ty) eqn:HB.
  - (* STRING / LONGINT / LONGNEG / FLOAT *)
    unfold Unsl.ubegin_body. destruct (Z.ltb_spec 0 (u_discard fr c)) as [D|D].
    + cbn [hr_count]. destruct (psi_discarding c HRI D) as (IO & P). split; [exact HRI|]. unfold G. rewrite IO, P. cbn [nroot filter List.length Z.of_nat]. lia.
    + assert (D0 : u_discard fr c = 0) by lia. rewrite (psi_zero c D0).
      destruct (utaste c (u_inOpen fr c) ty hdr); try exact I.
      * eapply hr_count_imp; [|apply (deliver_count c _ HRI D0)]. intros c' es (A & N). split; [exact A|lia].
      * pose proof (hv_count_closed c (u_inOpen fr c) HRI) as H. destruct (uhandle_violation c (u_inOpen fr c) false); [|exact I].
        cbn [hr_count] in *. destruct H as (A & N & _). split; [exact A|lia].
  - (* tokens without a body *)
    unfold Unsl.ustep_nobody_hr. destruct ((ty =? tok_OPEN) && u_inOpen fr c) eqn:EOF_; [exact I|].
    set (c1 := if ty =? tok_OPEN then _ else c).
    assert (S1 : u_stack fr c1 = u_stack fr c /\ u_discard fr c1 = u_discard fr c) by (unfold c1; destruct (ty =? tok_OPEN); auto).
    destruct S1 as (St1 & Di1).
    (* the taste *)
    match goal with |- hr_count (match ?A with TsFatal _ _ => _ | TsGo _ _ _ _ => _ end) _ => set (T := A) end.
    assert (HT : match T with
                 | TsFatal _ _ => True
                 | TsGo _ c2 es rej =>
                   (c2 = c1 /\ es = [] /\ rej = (0 <? u_discard fr c)) \/
                   (rej = true /\ u_discard fr c = 0 /\ RI c2 /\ nroot es = G c2 /\ u_inOpen fr c2 = false /\ existsb (Z.eqb ty) hd_exempt = false)
                 end).
    { subst T. destruct ((0 <? u_discard fr c) || existsb (Z.eqb ty) hd_exempt) eqn:EX; [left; auto|].
      apply orb_false_iff in EX as [EX1 EX2]. apply Z.ltb_ge in EX1. assert (D0 : u_discard fr c = 0) by lia.
      destruct (utaste c1 (u_inOpen fr c) ty hdr); try exact I.
      - left. rewrite D0. auto.
      - assert (R1' : RI c1).
        { unfold RI. rewrite St1, Di1. split; [exact Hd|]. split; [exact R|]. intros _. exact D0. }
        pose proof (hv_count_closed c1 (u_inOpen fr c1) R1') as H. destruct (uhandle_violation c1 (u_inOpen fr c1) false); [|exact I].
        cbn [hr_count] in H. right. destruct H as (A & N & IO2). auto 10. }
    clearbody T. destruct T as [esf|c2 es2 rej]; [exact I|].
    destruct (ty =? tok_OPEN) eqn:EO.
    { (* OPEN *)
      cbn [andb] in EOF_. destruct HT as [(-> & -> & ->)|(-> & D0 & RI2 & N & IO2 & _)].
      - unfold c1. destruct (Z.ltb_spec 0 (u_discard fr c)) as [D|D].
        + cbn [u_inOpen hr_count uw_inOpen uw_stack u_discard u_stack]. destruct (psi_discarding c HRI D) as (IO & P).
          unfold RI, G. cbn [u_inOpen u_stack u_discard uw_inOpen uw_stack uw_opentype]. split; [split; [lia|split; [exact R|discriminate]]|].
          rewrite P. cbn [nroot filter List.length Z.of_nat]. lia.
        + cbn [hr_count uw_opentype uw_inOpen u_discard u_stack u_inOpen]. assert (D0 : u_discard fr c = 0) by lia.
          unfold RI, G. cbn [u_inOpen u_stack u_discard uw_inOpen uw_stack uw_opentype]. rewrite (psi_zero c D0).
          split; [split; [lia|split; [exact R|intros _; exact D0]]|]. cbn [nroot filter List.length Z.of_nat]. lia.
      - cbn [u_inOpen]. rewrite IO2. cbn [hr_count]. destruct RI2 as (A2 & B2 & C2). unfold RI, G in *. cbn [u_inOpen u_stack u_discard].
        rewrite IO2 in *. rewrite (psi_zero c D0). split; [split; [exact A2|split; [exact B2|discriminate]]|lia]. }
    assert (C1 : c1 = c) by (unfold c1; reflexivity).
    destruct PRE as [PRE|PRE]; [|subst ty; discriminate].
    (* the three ways past the taste *)
    assert (CASES : (c2 = c /\ es2 = [] /\ rej = false /\ u_discard fr c = 0) \/ (c2 = c /\ es2 = [] /\ rej = true /\ 0 < u_discard fr c) \/
                    (rej = true /\ u_discard fr c = 0 /\ RI c2 /\ nroot es2 = G c2 /\ existsb (Z.eqb ty) hd_exempt = false)).
    { rewrite C1 in HT. destruct HT as [(-> & -> & ->)|(-> & D0 & RI2 & N & _ & EXF)]; [|auto 10].
      destruct (Z.ltb_spec 0 (u_discard fr c)); [right; left; auto|left; repeat split; auto; lia]. }
    clear HT.
    assert (DROP : (c2 = c /\ es2 = [] /\ rej = true /\ 0 < u_discard fr c) \/
                   (rej = true /\ u_discard fr c = 0 /\ RI c2 /\ nroot es2 = G c2 /\ existsb (Z.eqb ty) hd_exempt = false) ->
                   RI c2 /\ nroot es2 + psi c = G c2).
    { intros [(-> & -> & _ & D)|(_ & D0 & RI2 & N & _)].
      - destruct (psi_discarding c HRI D) as (IO & P). split; [exact HRI|]. unfold G. rewrite IO, P. cbn [nroot filter List.length Z.of_nat]. lia.
      - rewrite (psi_zero c D0). split; [exact RI2|lia]. }
    assert (DELIV : forall v, c2 = c -> es2 = [] -> u_discard fr c = 0 -> hr_count (upre fr es2 (udeliver c2 v)) (fun c' es => RI c' /\ nroot es + psi c = G c')).
    { intros v -> -> D0. apply hr_count_upre. eapply hr_count_imp; [|apply (deliver_count c v HRI D0)].
      intros c' es (A & N). rewrite (psi_zero c D0). split; [exact A|cbn [app]; lia]. }
    assert (INSIDE : psi c = G c) by (rewrite (G_spec c HRI); destruct (Z.eqb_spec (depth c) 0); lia).
    assert (OBJ : forall v, hr_count (if rej then UOk fr c2 es2 else upre fr es2 (udeliver c2 v)) (fun c' es => RI c' /\ nroot es + psi c = G c')).
    { intros v. destruct CASES as [(E1 & E2 & -> & D0)|[(E1 & E2 & -> & D)|(-> & D0 & RI2 & N & EXF)]].
      - apply (DELIV v E1 E2 D0).
      - cbn [hr_count]. apply DROP. left. auto.
      - cbn [hr_count]. apply DROP. right. auto 10. }
    destruct (ty =? tok_CLOSE) eqn:EC.
    { apply Z.eqb_eq in EC. destruct (hd_close_fatal (u_inOpen fr c2) (u_discard fr c2)) eqn:CF; [exact I|].
      destruct CASES as [(-> & -> & -> & D0)|[(-> & -> & -> & D)|(_ & _ & _ & _ & EXF)]]; [| |rewrite EC in EXF; vm_compute in EXF; discriminate].
      - destruct (Z.ltb_spec 0 (u_discard fr c)); [lia|]. apply hr_count_upre. cbn [app].
        assert (IO : u_inOpen fr c = false).
        { destruct (u_inOpen fr c) eqn:IO; [|reflexivity]. pose proof (close_flag _ _ CF Hd eq_refl). lia. }
        eapply hr_count_imp; [|apply (close_count c hdr R)]. intros c' es (A & N & I1 & D). rewrite IO in I1.
        unfold RI, G. rewrite I1, (psi_zero c D0). split; [split; [lia|split; [exact A|discriminate]]|lia].
      - destruct (Z.ltb_spec 0 (u_discard fr c)); [|lia]. cbn [hr_count uw_stack u_stack u_inOpen u_discard].
        destruct (psi_discarding c HRI D) as (IO & P). unfold RI, G. cbn [u_inOpen u_stack u_discard uw_stack]. rewrite IO, P.
        split; [split; [lia|split; [exact R|discriminate]]|]. cbn [nroot filter List.length Z.of_nat]. lia. }
    destruct (ty =? tok_ABORT) eqn:EA.
    { apply Z.eqb_eq in EA. rewrite FA.
      destruct CASES as [(-> & -> & -> & D0)|[(E1 & E2 & -> & D)|(_ & _ & _ & _ & EXF)]]; [| |rewrite EA in EXF; vm_compute in EXF; discriminate].
      - apply hr_count_upre. cbn [app]. pose proof (hv_count_closed c (u_inOpen fr c) HRI) as H.
        destruct (uhandle_violation c (u_inOpen fr c) false); [|exact I]. cbn [hr_count] in *. destruct H as (A & N & _).
        rewrite (psi_zero c D0). split; [exact A|lia].
      - cbn [hr_count]. apply DROP. left. auto. }
    destruct (ty =? tok_INT); [apply OBJ|].
    destruct (ty =? tok_NEG); [apply OBJ|].
    destruct (ty =? tok_VOCAB). { destruct (uvocab_get (u_vocab fr c2) hdr); [apply OBJ|exact I]. }
    destruct (ty =? tok_PING) eqn:EP.
    { apply Z.eqb_eq in EP. cbn [hr_count].
      destruct CASES as [(-> & -> & _ & D0)|[(-> & -> & _ & D)|(_ & _ & _ & _ & EXF)]]; [| |rewrite EP in EXF; vm_compute in EXF; discriminate];
        (split; [exact HRI|cbn [app nroot filter rootev List.length Z.of_nat]; lia]). }
    destruct (ty =? tok_PONG) eqn:EQ; [|exact I].
    apply Z.eqb_eq in EQ. cbn [hr_count].
    destruct CASES as [(-> & -> & _ & D0)|[(-> & -> & _ & D)|(_ & _ & _ & _ & EXF)]]; [| |rewrite EQ in EXF; vm_compute in EXF; discriminate];
      (split; [exact HRI|cbn [nroot filter List.length Z.of_nat]; lia]).
Qed.


Lemma psi_depth0 c : RI c -> depth c = 0 -> psi c = 0 /\ uat_top fr c.
Proof.
  intros (Hd & R & Hio) D. pose proof (rooted_nonempty _ R) as L. unfold uopen_depth in D.
  destruct (u_inOpen fr c) eqn:IO; [lia|]. assert (D0 : u_discard fr c = 0) by lia.
  split; [apply psi_zero; exact D0|]. split; [exact D0|]. split; [exact IO|lia].
Qed.

(* the tokens that follow the OPEN of a sequence opened at depth k: the depth stays positive until the last one brings it to 0 *)
Fixpoint inside (k : Z) (ts : list (Z * Z * list Z)) : Prop :=
  match ts with
  | [] => False
  | (ty, _, _) :: r => match r with
                       | [] => k + utok_delta ty = 0
                       | _ :: _ => 0 < k + utok_delta ty /\ inside (k + utok_delta ty) r
                       end
  end.

Lemma tok_depth c ty hdr body c' es : RI c -> utok_apply c ty hdr body = UOk fr c' es -> depth c' = depth c + utok_delta ty.
Proof.
  intros HRI E.
  destruct (utok_apply_moved fr u_check u_opener_check u_do_open u_start u_child u_close u_finish u_report H_child H_close
              c ty hdr body c' es (RI_wfc c HRI) E) as (_ & _ & D & _). exact D.
Qed.

Lemma seq_count : forall ts c k, RI c -> hd_abort_in_index = true -> depth c = k -> 0 < k -> inside k ts ->
  hr_count (uapply_all c ts) (fun c' es => RI c' /\ depth c' = 0 /\ nroot es + psi c = 1).
Proof.
  induction ts as [|[[ty hdr] body] ts IH]; intros c k HRI FA Dk Kp IN; [destruct IN|].
  cbn [Unsl.uapply_all]. assert (PRE : 0 < depth c) by lia. pose proof (tok_count c ty hdr body HRI FA (or_introl PRE)) as TC.
  destruct (utok_apply c ty hdr body) as [c1 es1|] eqn:E1; [|exact I]. cbn [hr_count] in TC. destruct TC as (RI1 & N1).
  pose proof (tok_depth _ _ _ _ _ _ HRI E1) as D1. apply hr_count_upre.
  destruct ts as [|t' r].
  - cbn [inside] in IN. cbn [Unsl.uapply_all hr_count]. rewrite app_nil_r.
    assert (D10 : depth c1 = 0) by lia. destruct (psi_depth0 c1 RI1 D10) as (P1 & _).
    rewrite (G_spec c1 RI1), P1, D10 in N1. cbn in N1. split; [exact RI1|]. split; [exact D10|lia].
  - cbn [inside] in IN. destruct IN as (Kp' & IN').
    assert (Dk1 : depth c1 = k + utok_delta ty) by lia. specialize (IH c1 (k + utok_delta ty) RI1 FA Dk1 Kp' IN').
    eapply hr_count_imp; [|exact IH]. intros c' es (A & B & C). split; [exact A|]. split; [exact B|].
    rewrite nroot_app. rewrite (G_spec c1 RI1) in N1. destruct (Z.eqb_spec (depth c1) 0); lia.
Qed.

(* THE THEOREM.  From a receiver at top level, the tokens of one top-level sequence (OPEN ... balancing CLOSE, depth positive in
   between) either abandon the connection or produce exactly one root event -- the object is delivered, or it is reported as
   violated, never both, never twice -- and leave the receiver at top level. *)
Theorem unsl_exactly_one c h b body : hd_abort_in_index = true -> uat_top fr c -> RI c -> inside 1 body ->
  hr_count (uapply_all c ((tok_OPEN, h, b) :: body)) (fun c' es => nroot es = 1 /\ uat_top fr c' /\ RI c').
Proof.
  intros FA T HRI IN. cbn [Unsl.uapply_all].
  pose proof (tok_count c tok_OPEN h b HRI FA (or_intror eq_refl)) as TC.
  destruct (utok_apply c tok_OPEN h b) as [c1 es1|] eqn:E1; [|exact I]. cbn [hr_count] in TC. destruct TC as (RI1 & N1).
  pose proof (tok_depth _ _ _ _ _ _ HRI E1) as D1. change (utok_delta tok_OPEN) with 1 in D1.
  assert (D0 : depth c = 0) by (destruct T as (A & B & C); unfold uopen_depth; rewrite A, B, C; reflexivity).
  destruct (psi_depth0 c HRI D0) as (P0 & _).
  assert (D11 : depth c1 = 1) by lia. assert (P01 : 0 < 1) by lia.
  apply hr_count_upre. eapply hr_count_imp; [|apply (seq_count body c1 1 RI1 FA D11 P01 IN)].
  intros c' es (A & B & C). destruct (psi_depth0 c' A B) as (_ & T'). split; [|auto].
  rewrite nroot_app. rewrite (G_spec c1 RI1) in N1. destruct (Z.eqb_spec (depth c1) 0); lia.
Qed.

(* ---- "decoding of the following objects is unaffected", the root's own state: the root frame changes only when the root
   receives a child, i.e. only by a delivery.  Hence after a top-level object that was VIOLATED (reported, not delivered) the
   unslicer stack -- the root frame alone -- is exactly what it was before the object. ---- *)
Fixpoint ubot (st : list ufr) : option ufr :=
  match st with [] => None | f :: rest => match rest with [] => Some f | _ :: _ => ubot rest end end.

Lemma ubot_cons f rest : rest <> [] -> ubot (f :: rest) = ubot rest.
Proof. destruct rest; [intros H; exfalso; apply H; reflexivity|reflexivity]. Qed.

Lemma rooted_ne st : rooted st -> st <> [].
Proof. intros R E. pose proof (rooted_nonempty _ R) as L. rewrite E in L. cbn in L. lia. Qed.

Lemma ndeliver_app a b : ndeliver (a ++ b) = ndeliver a + ndeliver b.
Proof. unfold ndeliver. rewrite filter_app, app_length. lia. Qed.

Lemma ndeliver_nonneg a : 0 <= ndeliver a.
Proof. unfold ndeliver. lia. Qed.

Definition kr (b : option ufr) (r : uhr fr) : Prop :=
  match r with UOk _ c' es => ndeliver es = 0 -> ubot (u_stack fr c') = b | UFatal _ _ => True end.

Lemma kr_upre b es r : kr b r -> kr b (upre fr es r).
Proof.
  destruct r as [c' es'|]; cbn; [|auto]. intros H N. rewrite ndeliver_app in N.
  pose proof (ndeliver_nonneg es). pose proof (ndeliver_nonneg es'). apply H. lia.
Qed.

Lemma hv_loop_bot : forall st d ic st' d' es, uhv_loop st d ic = HvOk fr st' d' es -> ubot st' = ubot st.
Proof.
  induction st as [|top rest IH]; intros d ic st' d' es E; cbn [Unsl.uhv_loop] in E; [discriminate|].
  destruct (u_report (uf_st fr top)); [inversion E; subst; reflexivity|].
  assert (E' : exists r rest', rest = r :: rest' /\ uhv_loop rest (if ic then d else d + 1) false = HvOk fr st' d' es).
  { destruct (u_finish (uf_st fr top)); try discriminate; (destruct rest as [|r rest']; [discriminate|exists r, rest'; auto]). }
  destruct E' as (r & rest' & -> & E'). rewrite (IH _ _ _ _ _ E'). reflexivity.
Qed.

Lemma hv_bot c io ic : kr (ubot (u_stack fr c)) (uhandle_violation c io ic).
Proof.
  unfold Unsl.uhandle_violation. destruct (uhv_loop _ _ _) as [st' d' es|] eqn:E; [|exact I].
  cbn [kr uw_stack u_stack]. intros _. apply (hv_loop_bot _ _ _ _ _ _ E).
Qed.

Lemma token_bot c v : rooted (u_stack fr c) -> kr (ubot (u_stack fr c)) (uhandle_token c v).
Proof.
  intros R. unfold Unsl.uhandle_token. destruct (u_stack fr c) as [|top rest] eqn:Es; [exact I|].
  destruct (rooted_cons _ _ R) as [(-> & Hr & Ho)|(Hn & Rr)].
  - destruct (R3 (uf_st fr top) v Hr) as (f' & -> & Hr'). cbn [kr]. intros N. cbv in N. discriminate.
  - destruct (u_child (uf_st fr top) v) as [es0 r] eqn:EC.
    destruct r as [f'| | |k]; try exact I.
    + cbn [kr uw_stack u_stack]. intros _. rewrite !(ubot_cons _ rest (rooted_ne _ Rr)). reflexivity.
    + apply kr_upre. pose proof (hv_bot c false false) as H. rewrite Es in H. exact H.
Qed.

Lemma close_bot c n : rooted (u_stack fr c) -> kr (ubot (u_stack fr c)) (uhandle_close c n).
Proof.
  intros R. unfold Unsl.uhandle_close. destruct (u_stack fr c) as [|top rest] eqn:Es; [exact I|].
  destruct (opt_is (uf_open fr top) n) eqn:EO; [|exact I]. cbn [negb].
  destruct (rooted_cons _ _ R) as [(_ & _ & Ho)|(Hn & Rr)]; [exfalso; apply (opt_is_some' _ _ EO); exact Ho|].
  pose proof (hv_bot c false true) as HV. rewrite Es in HV.
  destruct (u_close (uf_st fr top)); try exact I; try exact HV.
  destruct (u_finish (uf_st fr top)); try exact I; try exact HV.
  pose proof (token_bot (uw_stack fr c (u_discard fr c) rest) a) as H. cbn [uw_stack u_stack] in H.
  rewrite (ubot_cons top rest (rooted_ne _ Rr)). apply H. exact Rr.
Qed.

Lemma open_bot c v : u_stack fr c <> [] -> kr (ubot (u_stack fr c)) (uhandle_open c v).
Proof.
  intros NE. unfold Unsl.uhandle_open. cbv zeta. destruct v; try exact I. destruct (negb _); [exact I|].
  destruct (u_stack fr c) as [|top rest] eqn:Es; [exact I|].
  destruct (u_do_open (map (uf_st fr) (top :: rest)) (u_opentype fr c ++ [b])) as [[child|]| | |]; try exact I.
  - destruct (u_start child (u_inbObj fr c)) as [child'| | |]; try exact I.
    + cbn [kr uw_stack uw_inOpen uw_opentype u_stack]. intros _. try rewrite Es. apply ubot_cons. discriminate.
    + match goal with |- kr _ (uhandle_violation ?C _ _) => pose proof (hv_bot C false false) as H end.
      cbn [uw_stack uw_inOpen uw_opentype u_stack] in H. try rewrite Es in H. rewrite ubot_cons in H by discriminate. exact H.
  - cbn [kr uw_opentype u_stack]. intros _. try rewrite Es. reflexivity.
  - match goal with |- kr _ (uhandle_violation ?C _ _) => pose proof (hv_bot C true false) as H end.
    cbn [uw_inOpen uw_opentype u_stack] in H. try rewrite Es in H. exact H.
Qed.

Lemma deliver_bot c v : rooted (u_stack fr c) -> kr (ubot (u_stack fr c)) (udeliver c v).
Proof. intros R. unfold Unsl.udeliver. destruct (u_inOpen fr c); [apply open_bot; apply rooted_ne; exact R|apply token_bot; exact R]. Qed.

Lemma hv_closed_bot c io : rooted (u_stack fr c) ->
  match uhandle_violation c io false with
  | UOk _ c' es => ubot (u_stack fr (uw_inOpen fr c' false)) = ubot (u_stack fr c) /\ rooted (u_stack fr (uw_inOpen fr c' false))
  | UFatal _ _ => True
  end.
Proof.
  intros R. pose proof (hv_count c io false R) as H1. unfold Unsl.uhandle_violation in *.
  destruct (uhv_loop _ _ _) as [st' d' es|] eqn:E; [|exact I]. cbn [hr_count uw_stack uw_inOpen u_stack] in *.
  split; [apply (hv_loop_bot _ _ _ _ _ _ E)|apply H1].
Qed.

Theorem tok_bot c ty hdr body : rooted (u_stack fr c) -> kr (ubot (u_stack fr c)) (utok_apply c ty hdr body).
Proof.
  intros R. unfold Unsl.utok_apply. destruct (has_body ty).
  - unfold Unsl.ubegin_body. destruct (0 <? u_discard fr c); [cbn; auto|].
    destruct (utaste c (u_inOpen fr c) ty hdr); try exact I; [apply deliver_bot; exact R|].
    pose proof (hv_closed_bot c (u_inOpen fr c) R) as H. destruct (uhandle_violation c (u_inOpen fr c) false); [|exact I].
    cbn [kr]. intros _. apply H.
  - unfold Unsl.ustep_nobody_hr. destruct ((ty =? tok_OPEN) && u_inOpen fr c); [exact I|].
    set (c1 := if ty =? tok_OPEN then _ else c).
    assert (St1 : u_stack fr c1 = u_stack fr c) by (unfold c1; destruct (ty =? tok_OPEN); reflexivity).
    match goal with |- kr _ (match ?A with TsFatal _ _ => _ | TsGo _ _ _ _ => _ end) => set (T := A) end.
    assert (HT : match T with TsFatal _ _ => True
                 | TsGo _ c2 _ _ => ubot (u_stack fr c2) = ubot (u_stack fr c) /\ rooted (u_stack fr c2) end).
    { subst T. destruct (_ || _); [rewrite St1; auto|].
      destruct (utaste c1 (u_inOpen fr c) ty hdr); try exact I; [rewrite St1; auto|].
      assert (R1' : rooted (u_stack fr c1)) by (rewrite St1; exact R).
      pose proof (hv_closed_bot c1 (u_inOpen fr c1) R1') as H. destruct (uhandle_violation c1 (u_inOpen fr c1) false); [|exact I].
      rewrite St1 in H. exact H. }
    clearbody T. destruct T as [esf|c2 es2 rej]; [exact I|]. destruct HT as (B2 & Rt2).
    assert (SAME : kr (ubot (u_stack fr c)) (UOk fr c2 es2)) by (cbn; auto).
    assert (DEL : forall v, kr (ubot (u_stack fr c)) (upre fr es2 (udeliver c2 v))).
    { intros v. apply kr_upre. rewrite <- B2. apply deliver_bot. exact Rt2. }
    destruct (ty =? tok_OPEN). { destruct rej; [destruct (u_inOpen fr _)|]; cbn [kr uw_inOpen uw_stack uw_opentype u_stack]; auto. }
    destruct (ty =? tok_CLOSE).
    { destruct (hd_close_fatal _ _); [exact I|]. destruct (0 <? _); [cbn [kr uw_stack u_stack]; auto|].
      apply kr_upre. rewrite <- B2. apply close_bot. exact Rt2. }
    destruct (ty =? tok_ABORT).
    { destruct rej; [exact SAME|]. destruct hd_abort_in_index; apply kr_upre.
      - pose proof (hv_closed_bot c2 (u_inOpen fr c2) Rt2) as H. destruct (uhandle_violation c2 (u_inOpen fr c2) false); [|exact I].
        cbn [kr]. intros _. rewrite <- B2. apply H.
      - rewrite <- B2. apply hv_bot. }
    destruct (ty =? tok_INT). { destruct rej; [exact SAME|apply DEL]. }
    destruct (ty =? tok_NEG). { destruct rej; [exact SAME|apply DEL]. }
    destruct (ty =? tok_VOCAB). { destruct (uvocab_get _ _); [|exact I]. destruct rej; [exact SAME|apply DEL]. }
    destruct (ty =? tok_PING). { cbn [kr]. auto. }
    destruct (ty =? tok_PONG); [exact SAME|exact I].
Qed.

Lemma seq_bot : forall ts c k, RI c -> hd_abort_in_index = true -> depth c = k -> 0 < k -> inside k ts ->
  kr (ubot (u_stack fr c)) (uapply_all c ts).
Proof.
  induction ts as [|[[ty hdr] body] ts IH]; intros c k HRI FA Dk Kp IN; [destruct IN|].
  cbn [Unsl.uapply_all]. assert (PRE : 0 < depth c) by lia. pose proof (tok_count c ty hdr body HRI FA (or_introl PRE)) as TC.
  assert (R : rooted (u_stack fr c)) by (destruct HRI as (_ & R & _); exact R).
  pose proof (tok_bot c ty hdr body R) as TB.
  destruct (utok_apply c ty hdr body) as [c1 es1|] eqn:E1; [|exact I]. cbn [hr_count] in TC. destruct TC as (RI1 & N1).
  pose proof (tok_depth _ _ _ _ _ _ HRI E1) as D1. cbn [kr] in TB.
  destruct ts as [|t' r].
  - cbn [Unsl.uapply_all upre kr]. rewrite app_nil_r. exact TB.
  - cbn [inside] in IN. destruct IN as (Kp' & IN').
    assert (Dk1 : depth c1 = k + utok_delta ty) by lia. specialize (IH c1 (k + utok_delta ty) RI1 FA Dk1 Kp' IN').
    destruct (uapply_all c1 (t' :: r)) as [c' es|]; [|exact I]. cbn [upre kr] in *. intros N. rewrite ndeliver_app in N.
    pose proof (ndeliver_nonneg es1). pose proof (ndeliver_nonneg es). rewrite IH by lia. apply TB. lia.
Qed.

(* THE THEOREM: one top-level sequence that ends in a reported violation leaves the unslicer stack (the root frame) exactly as it was *)
Theorem unsl_violated_object_keeps_root c h b body : hd_abort_in_index = true -> uat_top fr c -> RI c -> inside 1 body ->
  hr_count (uapply_all c ((tok_OPEN, h, b) :: body)) (fun c' es => nviolation es = 1 -> u_stack fr c' = u_stack fr c).
Proof.
  intros FA T HRI IN. pose proof (unsl_exactly_one c h b body FA T HRI IN) as EX.
  cbn [Unsl.uapply_all] in *.
  pose proof (tok_count c tok_OPEN h b HRI FA (or_intror eq_refl)) as TC.
  assert (R : rooted (u_stack fr c)) by (destruct HRI as (_ & R & _); exact R).
  pose proof (tok_bot c tok_OPEN h b R) as TB.
  destruct (utok_apply c tok_OPEN h b) as [c1 es1|] eqn:E1; [|exact I]. cbn [hr_count] in TC. destruct TC as (RI1 & N1).
  pose proof (tok_depth _ _ _ _ _ _ HRI E1) as D1. change (utok_delta tok_OPEN) with 1 in D1.
  assert (D0 : depth c = 0) by (destruct T as (A & B & C); unfold uopen_depth; rewrite A, B, C; reflexivity).
  assert (D11 : depth c1 = 1) by lia. assert (P01 : 0 < 1) by lia.
  pose proof (seq_bot body c1 1 RI1 FA D11 P01 IN) as SB.
  destruct (uapply_all c1 body) as [c' es|]; [|exact I]. cbn [upre hr_count kr] in *.
  destruct EX as (NR & T' & _). intros NV.
  assert (ND : ndeliver (es1 ++ es) = 0) by (rewrite nroot_split in NR; lia).
  rewrite ndeliver_app in ND. pose proof (ndeliver_nonneg es1). pose proof (ndeliver_nonneg es).
  assert (BE : ubot (u_stack fr c') = ubot (u_stack fr c)) by (rewrite SB by lia; apply TB; lia).
  destruct T as (_ & _ & L), T' as (_ & _ & L').
  destruct (u_stack fr c) as [|r0 [|? ?]]; try discriminate. destruct (u_stack fr c') as [|r1 [|? ?]]; try discriminate.
  cbn in BE. inversion BE. reflexivity.
Qed.

End Once.
