(* Regex.v -- executable model of the part of Python's `re` (sre) used by foolscap's FURL and
   connection-hint patterns: a backtracking matcher in continuation-passing style that follows
   sre's search order (greedy repeats, leftmost alternative first, leftmost start position first)
   and counts its steps.  Strings are lists of code points.  Definitions only; proofs are in
   RegexProofs.v.  The patterns themselves are generated (gen/FurlGen.v). *)
From Coq Require Import ZArith NArith List Bool.
Import ListNotations.
Local Open Scope Z_scope.

(* ---- character sets: [a-z...] / [^...] / literal / not-literal / `.` (= [^\n]) / \d (ranges) *)
Record cset := CS { cs_neg : bool; cs_ranges : list (Z * Z) }.

Definition in_range (x : Z) (r : Z * Z) : bool := (fst r <=? x) && (x <=? snd r).
Definition in_ranges (rs : list (Z * Z)) (x : Z) : bool := existsb (in_range x) rs.
Definition in_cset (cs : cset) (x : Z) : bool :=
  if cs_neg cs then negb (in_ranges (cs_ranges cs) x) else in_ranges (cs_ranges cs) x.

(* ---- regular expressions *)
Inductive re :=
| Eps
| Chr (cs : cset)                                 (* one character of a set *)
| Cat (a b : re)
| Alt (a b : re)                                  (* ordered: a is tried first *)
| Star (cs : cset) (lo : nat) (hi : option nat)   (* greedy cs{lo,hi}; hi = None: unbounded *)
| Rep (r : re) (lo hi : nat)                      (* greedy r{lo,hi}, body never matches "" *)
| Grp (i : nat) (r : re)                          (* capture group i *)
| Eol.                                            (* `$`: at the end or before a final newline *)

Inductive method := MSearch | MMatch.
Record pattern := { p_anch : bool;                (* pattern starts with `^` *)
                    p_body : re;
                    p_groups : nat }.

(* captures: group number -> (suffix at which the group started, suffix at which it ended);
   the most recent binding is first *)
Definition caps := list (nat * (list Z * list Z)).
Definition out := (option caps * N)%type.         (* result, number of matcher steps *)
Definition K := list Z -> caps -> out.            (* continuation *)

Definition tick (o : out) : out := (fst o, (snd o + 1)%N).
Definition fail1 : out := (None, 1%N).
Definition orelse (o1 : out) (f : unit -> out) : out :=
  match o1 with
  | (Some c, n) => (Some c, n)
  | (None, n) => let o2 := f tt in (fst o2, (n + snd o2)%N)
  end.

Definition stop (lo : nat) (k : K) (s : list Z) (c : caps) : out :=
  match lo with O => tick (k s c) | S _ => fail1 end.

Definition hi_open (hi : option nat) : bool := match hi with Some O => false | _ => true end.

(* greedy repeat of a single-character matcher: take as many as possible (at most hi), then
   give characters back one at a time while the continuation fails (not below lo) *)
Fixpoint star (cs : cset) (lo : nat) (hi : option nat) (s : list Z) (c : caps) (k : K) {struct s} : out :=
  match s with
  | x :: s' =>
      if hi_open hi && in_cset cs x
      then orelse (tick (star cs (pred lo) (option_map pred hi) s' c k)) (fun _ => stop lo k s c)
      else stop lo k s c
  | [] => stop lo k s c
  end.

(* greedy bounded repeat of a general body *)
Fixpoint rep (mr : list Z -> caps -> K -> out) (lo hi : nat) (s : list Z) (c : caps) (k : K) {struct hi} : out :=
  match hi with
  | O => k s c
  | S hi' =>
      match lo with
      | O => orelse (tick (mr s c (fun s' c' => rep mr O hi' s' c' k))) (fun _ => k s c)
      | S lo' => tick (mr s c (fun s' c' => rep mr lo' hi' s' c' k))
      end
  end.

Definition at_eol (s : list Z) : bool :=
  match s with [] => true | [x] => x =? 10 | _ => false end.

Fixpoint m (r : re) (s : list Z) (c : caps) (k : K) {struct r} : out :=
  match r with
  | Eps => k s c
  | Chr cs => match s with
              | x :: s' => if in_cset cs x then tick (k s' c) else fail1
              | [] => fail1
              end
  | Cat a b => m a s c (fun s' c' => m b s' c' k)
  | Alt a b => orelse (tick (m a s c k)) (fun _ => m b s c k)
  | Star cs lo hi => star cs lo hi s c k
  | Rep r lo hi => rep (m r) lo hi s c k
  | Grp i r => m r s c (fun s' c' => k s' ((i, (s, s')) :: c'))
  | Eol => if at_eol s then tick (k s c) else fail1
  end.

Definition accept : K := fun _ c => (Some c, 1%N).

(* group 0 is the whole match *)
Definition m_top (r : re) (s : list Z) : out := m (Grp 0 r) s [] accept.

Fixpoint search_from (r : re) (s : list Z) {struct s} : out :=
  orelse (tick (m_top r s))
         (fun _ => match s with [] => (None, 0%N) | _ :: s' => search_from r s' end).

(* pattern.search(s) / pattern.match(s).  A pattern that starts with `^` can only match at
   position 0 (no MULTILINE), which is also the only position sre tries. *)
Definition re_run (p : pattern) (meth : method) (s : list Z) : out :=
  match meth with
  | MMatch => m_top (p_body p) s
  | MSearch => if p_anch p then m_top (p_body p) s else search_from (p_body p) s
  end.

Definition re_apply (p : pattern) (meth : method) (s : list Z) : option caps := fst (re_run p meth s).
Definition re_steps (p : pattern) (meth : method) (s : list Z) : N := snd (re_run p meth s).

(* ---- reading captures *)
Fixpoint cap_get (i : nat) (c : caps) : option (list Z * list Z) :=
  match c with
  | [] => None
  | (j, v) :: c' => if Nat.eqb i j then Some v else cap_get i c'
  end.

Definition content (v : list Z * list Z) : list Z :=
  firstn (List.length (fst v) - List.length (snd v)) (fst v).

Definition group (i : nat) (c : caps) : option (list Z) := option_map content (cap_get i c).
Definition group_or_nil (i : nat) (c : caps) : list Z := match group i c with Some g => g | None => [] end.

(* mo.span(i) relative to a subject of length n; (-1,-1) for an unset group *)
Definition span (n : Z) (i : nat) (c : caps) : Z * Z :=
  match cap_get i c with
  | Some (a, b) => (n - Z.of_nat (List.length a), n - Z.of_nat (List.length b))
  | None => (-1, -1)
  end.

Definition spans (p : pattern) (meth : method) (s : list Z) : option (list (Z * Z)) :=
  match re_apply p meth s with
  | None => None
  | Some c => Some (map (fun i => span (Z.of_nat (List.length s)) i c) (seq 0 (S (p_groups p))))
  end.

(* ------------------------------------------------------------------------------------------
   Static cost analysis.  A continuation is summarised by
     sa, sb : its cost on a subject suffix s is at most  sa * |s| + sb
     sq C   : if Some q: its cost is at most q whenever the suffix starts with a character of C
   `an r sk` computes such a summary for "r followed by a continuation summarised by sk", or
   None when it cannot show that every unbounded repeat is followed by something that fails
   (or finishes) in bounded time on each character the repeat itself accepts -- the situation
   in which a backtracking matcher re-scans.  Soundness: RegexProofs.an_sound. *)
Record summ := { sa : N; sb : N; sq : cset -> option N }.

Definition mk (a b : N) (q : cset -> option N) : summ :=
  {| sa := a; sb := b;
     sq := fun C => match q C with
                    | Some v => Some v
                    | None => if (a =? 0)%N then Some b else None
                    end |}.

Definition range_disj (r1 r2 : Z * Z) : bool := (snd r1 <? fst r2) || (snd r2 <? fst r1).
Definition range_sub (r1 r2 : Z * Z) : bool := (fst r2 <=? fst r1) && (snd r1 <=? snd r2).
(* every range of `inner` lies inside one range of `outer` *)
Definition ranges_sub (inner outer : list (Z * Z)) : bool :=
  forallb (fun r => existsb (range_sub r) outer) inner.

(* no code point belongs to both sets (sufficient test) *)
Definition disj (C D : cset) : bool :=
  match cs_neg C, cs_neg D with
  | false, false => forallb (fun r1 => forallb (range_disj r1) (cs_ranges D)) (cs_ranges C)
  | true, false => ranges_sub (cs_ranges D) (cs_ranges C)
  | false, true => ranges_sub (cs_ranges C) (cs_ranges D)
  | true, true => false
  end.

Definition opt_add (o : option N) (d : N) : option N := option_map (fun v => (v + d)%N) o.
Definition opt_add2 (o1 o2 : option N) (d : N) : option N :=
  match o1, o2 with Some x, Some y => Some (x + y + d)%N | _, _ => None end.

Fixpoint rep_an (anr : summ -> option summ) (lo hi : nat) (sk : summ) {struct hi} : option summ :=
  match hi with
  | O => Some sk
  | S hi' =>
      match rep_an anr (pred lo) hi' sk with
      | None => None
      | Some srest =>
          match anr srest with
          | None => None
          | Some sbody =>
              match lo with
              | O => Some (mk (sa sbody + sa sk) (sb sbody + sb sk + 1)
                              (fun C => opt_add2 (sq sbody C) (sq sk C) 1))
              | S _ => Some (mk (sa sbody) (sb sbody + 1) (fun C => opt_add (sq sbody C) 1))
              end
          end
      end
  end.

Definition hfac (hi : nat) : N := N.of_nat (S hi).

Fixpoint an (r : re) (sk : summ) {struct r} : option summ :=
  match r with
  | Eps => Some sk
  | Chr cs => Some (mk (sa sk) (sb sk + 1) (fun C => if disj C cs then Some 1%N else None))
  | Cat a b => match an b sk with Some s2 => an a s2 | None => None end
  | Alt a b =>
      match an a sk, an b sk with
      | Some s1, Some s2 => Some (mk (sa s1 + sa s2) (sb s1 + sb s2 + 1) (fun C => opt_add2 (sq s1 C) (sq s2 C) 1))
      | _, _ => None
      end
  | Star cs lo None =>
      match sq sk cs with
      | None => None
      | Some q0 =>
          Some (mk (N.max (sa sk) (q0 + 2)) (sb sk + 2)
                   (fun C => if disj C cs
                             then match lo with O => opt_add (sq sk C) 1 | S _ => Some 1%N end
                             else None))
      end
  | Star cs lo (Some hi) =>
      Some (mk (hfac hi * sa sk) (hfac hi * (sb sk + 2))
               (fun C => if disj C cs
                         then match lo with O => opt_add (sq sk C) 1 | S _ => Some 1%N end
                         else None))
  | Rep r lo hi => rep_an (an r) lo hi sk
  | Grp _ r => an r sk
  | Eol => Some (mk (sa sk) (sb sk + 1) (fun _ => Some (sa sk + sb sk + 1)%N))
  end.

Definition accept_summ : summ := mk 0 1 (fun _ => Some 1%N).

(* K such that one match attempt costs at most K * (|s| + 1) steps, if the analysis succeeds *)
Definition attempt_bound (r : re) : option N :=
  match an (Grp 0 r) accept_summ with
  | Some sm => Some (N.max (sa sm) (sb sm))
  | None => None
  end.

(* linear bound for pattern.search / .match when only position 0 is tried *)
Definition linear_bound (p : pattern) (meth : method) : option N :=
  match meth, p_anch p with
  | MSearch, false => None
  | _, _ => attempt_bound (p_body p)
  end.
