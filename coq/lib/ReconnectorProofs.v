(* C16 -- proofs about lib/Reconnector.v + gen/ReconnectorGen.v (the translated methods). *)
From Coq Require Import ZArith QArith Qminmax Qround List Bool Arith Lia Lqa.
Import ListNotations.
Require Import Verif.lib.ReconnectorBase Verif.gen.ReconnectorGen Verif.lib.Reconnector.
Local Open Scope Q_scope.

(* symbolic execution of the translated methods *)
Ltac unfold_methods :=
  unfold step, m_startConnecting, m_stopConnecting, m_reset, m__connected, m__failed, m__disconnected,
         m__timer_expired, m__retry, m__connect, dec_inflight, dec_watching, halve_timer, user_callback,
         seq, cond, ret, set_active, set_stopped, set_tub, set_delay, set_info, timer_clear, timer_cancel,
         timer_reset, call_later, get_reference, add_callbacks, watch, remove_from_tub, timer_truthy.
Ltac exec := unfold_methods; unfold_methods; cbn [active stopped tub delay timer inflight watching leaked info fst snd app negb pred uops_act].

Lemma run_app : forall a b s,
  run s (a ++ b) = let (s1, o1) := run s a in let (s2, o2) := run s1 b in (s2, o1 ++ o2).
Proof.
  induction a as [|e a IH]; intros b s; cbn [run app].
  - destruct (run s b); reflexivity.
  - destruct (step s e) as [s1 o1]. rewrite IH.
    destruct (run s1 a) as [s2 o2]. destruct (run s2 b) as [s3 o3]. now rewrite app_assoc.
Qed.

Lemma permitted_app : forall a b s, permitted s (a ++ b) -> permitted s a /\ permitted (fst (run s a)) b.
Proof.
  induction a as [|e a IH]; intros b s H; cbn [app permitted run] in *.
  - split; [exact I | exact H].
  - destruct H as [He H]. destruct (step s e) as [s1 o1] eqn:E. cbn [fst] in *.
    destruct (IH b s1 H) as [H1 H2]. destruct (run s1 a) as [s2 o2]. cbn [fst] in *. repeat split; assumption.
Qed.

Lemma permittedb_ok : forall evs s, permittedb s evs = true -> permitted s evs.
Proof.
  induction evs as [|e r IH]; intros s H; cbn [permitted permittedb] in *; [exact I|].
  apply andb_true_iff in H. destruct H as [H1 H2]. split; [exact H1 | apply IH, H2].
Qed.

(* ------------------------------------------------------------------ 0. calls from inside the user callback *)

(* an event whose user callback does not call back into the Reconnector *)
Definition simple (e : event) : Prop := match e with AttemptOk (_ :: _) => False | _ => True end.

Lemma uops_run : forall u s, uops_act u s = run s (map uop_event u).
Proof.
  induction u as [|o u IH]; intros s; [reflexivity|].
  destruct o; cbn [uops_act map run uop_event step]; unfold seq.
  - destruct (m_stopConnecting s) as [s1 o1]. rewrite IH. reflexivity.
  - destruct (m_reset s) as [s1 o1]. rewrite IH. reflexivity.
Qed.

(* the callback is the last thing _connected does: whatever it calls behaves as if called right after
   _connected returned; and it only runs if the Reconnector was active *)
Lemma ok_reentrant : forall s u,
  step s (AttemptOk u) =
  if active s
  then (let (s1, o1) := step s (AttemptOk []) in
        let (s2, o2) := run s1 (map uop_event u) in (s2, o1 ++ o2))
  else step s (AttemptOk []).
Proof.
  intros [a sp t d tm i w l inf] u. cbn [active]. destruct a; exec; [|reflexivity].
  rewrite uops_run. unfold ret. cbn [app]. destruct (run _ (map uop_event u)) as [s2 o2]. cbn [app]. rewrite ?app_nil_r. reflexivity.
Qed.

Section Lift.
  Context (P : st -> Prop) (O : out -> Prop) (guard : st -> event -> Prop).
  Hypothesis g_stop : forall s, guard s Stop.
  Hypothesis g_reset : forall s, guard s Reset.
  Hypothesis g_ok : forall s u, guard s (AttemptOk u) -> guard s (AttemptOk []).
  Hypothesis step0 : forall s e, simple e -> P s -> guard s e ->
                                P (fst (step s e)) /\ Forall O (snd (step s e)).

  Lemma lift_uops : forall u s, P s ->
    P (fst (run s (map uop_event u))) /\ Forall O (snd (run s (map uop_event u))).
  Proof.
    induction u as [|o u IH]; intros s HP; cbn [map run]; [split; [exact HP | constructor]|].
    assert (H : P (fst (step s (uop_event o))) /\ Forall O (snd (step s (uop_event o)))).
    { destruct o; apply step0; cbn; auto. }
    destruct H as [H1 H2]. destruct (step s (uop_event o)) as [s1 o1]. cbn [fst snd] in *.
    destruct (IH s1 H1) as [H3 H4]. destruct (run s1 (map uop_event u)) as [s2 o2]. cbn [fst snd] in *.
    split; [exact H3 | apply Forall_app; split; assumption].
  Qed.

  Lemma lift_step : forall s e, P s -> guard s e -> P (fst (step s e)) /\ Forall O (snd (step s e)).
  Proof.
    intros s e HP HG. destruct e as [|u| | | | | |]; try (apply step0; [exact I | assumption | assumption]).
    rewrite ok_reentrant. pose proof (step0 s (AttemptOk []) I HP (g_ok s u HG)) as [H1 H2].
    destruct (active s); [|split; assumption].
    destruct (step s (AttemptOk [])) as [s1 o1]. cbn [fst snd] in *.
    destruct (lift_uops u s1 H1) as [H3 H4]. destruct (run s1 (map uop_event u)) as [s2 o2]. cbn [fst snd] in *.
    split; [exact H3 | apply Forall_app; split; assumption].
  Qed.
End Lift.

(* ------------------------------------------------------------------ 1. exactly one activity *)

Definition info_agrees (s : st) : Prop :=
  match info s with
  | IUnstarted => False
  | IConnecting => inflight s = 1%nat
  | IConnected => watching s = 1%nat
  | IWaiting => timer_count s = 1%nat
  end.

Definition Inv (s : st) : Prop :=
  leaked s = 0%nat /\
  (active s = true ->
     stopped s = false /\ tub s = true /\ (inflight s + watching s + timer_count s = 1)%nat /\ info_agrees s) /\
  (active s = false -> timer s = None /\ (inflight s + watching s <= 1)%nat) /\
  (tub s = false -> inflight s = 0%nat /\ watching s = 0%nat /\ active s = false) /\
  (stopped s = false -> tub s = true -> active s = true).

Lemma inv_init : Inv init_state.
Proof. unfold Inv, info_agrees; cbn. repeat split; try discriminate; auto. Qed.

Lemma inv_step0 : forall s e, simple e -> Inv s -> enabled s e = true -> Inv (fst (step s e)).
Proof.
  intros [a sp t d tm i w l inf] e Hsimple (Hl & Ha & Hna & Ht & Hs) He.
  cbn [active stopped tub delay timer inflight watching leaked info timer_count] in *. subst l.
  destruct e; cbn [enabled active stopped tub delay timer inflight watching leaked info] in He; exec.
  - (* Start *) destruct t; [discriminate|]. destruct (Ht eq_refl) as (-> & -> & ->).
    destruct (Hna eq_refl) as (-> & _).
    destruct sp; exec; unfold Inv, info_agrees; cbn; repeat split; try discriminate; auto.
  - (* AttemptOk *) destruct u as [|? ?]; [|destruct Hsimple]. exec.
    apply Nat.ltb_lt in He. destruct i as [|i]; [lia|]. cbn [pred].
    destruct a; exec.
    + destruct (Ha eq_refl) as (-> & -> & Hc & _). unfold timer_count in Hc. cbn in Hc.
      destruct tm; [lia|]. assert (i = 0%nat) by lia. assert (w = 0%nat) by lia. subst.
      unfold Inv, info_agrees; cbn; repeat split; try discriminate; auto.
    + destruct (Hna eq_refl) as (-> & Hc).
      unfold Inv, info_agrees; cbn; repeat split; try discriminate; auto; try lia;
        try (destruct (Ht eq_refl) as (? & ? & ?); first [lia | assumption | discriminate]).
  - (* AttemptFail *) apply Nat.ltb_lt in He. destruct i as [|i]; [lia|]. cbn [pred].
    destruct a; exec.
    + destruct (Ha eq_refl) as (-> & -> & Hc & _). unfold timer_count in Hc. cbn in Hc.
      destruct tm; [lia|]. assert (i = 0%nat) by lia. assert (w = 0%nat) by lia. subst.
      destruct (q_truthy jitter); exec;
        unfold Inv, info_agrees; cbn; repeat split; try discriminate; auto.
    + destruct (Hna eq_refl) as (-> & Hc).
      unfold Inv, info_agrees; cbn; repeat split; try discriminate; auto; try lia;
        try (destruct (Ht eq_refl) as (? & ? & ?); first [lia | assumption | discriminate]).
  - (* Lost *) apply Nat.ltb_lt in He. destruct w as [|w]; [lia|]. cbn [pred].
    destruct a; exec.
    + destruct (Ha eq_refl) as (-> & -> & Hc & _). unfold timer_count in Hc. cbn in Hc.
      destruct tm; [lia|]. assert (i = 0%nat) by lia. assert (w = 0%nat) by lia. subst.
      unfold Inv, info_agrees; cbn; repeat split; try discriminate; auto.
    + destruct (Hna eq_refl) as (-> & Hc).
      unfold Inv, info_agrees; cbn; repeat split; try discriminate; auto; try lia;
        try (destruct (Ht eq_refl) as (? & ? & ?); first [lia | assumption | discriminate]).
  - (* TimerExpired *) destruct tm as [q|]; [|discriminate].
    destruct a; [|destruct (Hna eq_refl); discriminate].
    destruct (Ha eq_refl) as (-> & -> & Hc & _). unfold timer_count in Hc. cbn in Hc.
    assert (i = 0%nat) by lia. assert (w = 0%nat) by lia. subst.
    unfold Inv, info_agrees; cbn; repeat split; try discriminate; auto.
  - (* Elapse *) destruct tm as [q|]; [|discriminate].
    destruct a; [|destruct (Hna eq_refl); discriminate].
    destruct (Ha eq_refl) as (-> & -> & Hc & Hi).
    unfold Inv, info_agrees in *; cbn in *; repeat split; try discriminate; auto.
  - (* Reset *) destruct tm as [q|]; exec.
    + destruct a; [|destruct (Hna eq_refl); discriminate].
      destruct (Ha eq_refl) as (-> & -> & Hc & Hi).
      unfold Inv, info_agrees in *; cbn in *; repeat split; try discriminate; auto.
    + unfold Inv, info_agrees in *; cbn in *; repeat split; auto; try (apply Ha; assumption);
        try (apply Hna; assumption); try (apply Ht; assumption).
  - (* Stop *)
    assert (Hc : (i + w <= 1)%nat).
    { destruct a; [destruct (Ha eq_refl) as (_ & _ & Hc & _); lia | destruct (Hna eq_refl); assumption]. }
    destruct tm as [q|]; exec; destruct t; exec;
      unfold Inv, info_agrees; cbn; repeat split; try discriminate; auto;
      try (destruct (Ht eq_refl) as (? & ? & ?); first [lia | assumption | discriminate]).
Qed.

Lemma inv_step : forall s e, Inv s -> enabled s e = true -> Inv (fst (step s e)).
Proof.
  intros s e HI He.
  apply (lift_step Inv (fun _ => True) (fun s e => enabled s e = true)); try assumption; try reflexivity.
  - intros s0 u H; exact H.
  - intros s0 e0 S0 I0 E0. split; [apply inv_step0; assumption | apply Forall_forall; intros; exact I].
Qed.

Lemma inv_run : forall evs s, Inv s -> permitted s evs -> Inv (fst (run s evs)).
Proof.
  induction evs as [|e r IH]; intros s HI HP; cbn [run permitted] in *; [exact HI|].
  destruct HP as [He HP]. pose proof (inv_step s e HI He) as H1.
  destruct (step s e) as [s1 o1]. cbn [fst] in *. specialize (IH s1 H1 HP).
  destruct (run s1 r) as [s2 o2]. exact IH.
Qed.

Theorem one_activity : forall evs,
  permitted init_state evs ->
  let s := fst (run init_state evs) in
  leaked s = 0%nat /\
  (active s = true -> (inflight s + watching s + timer_count s = 1)%nat /\ info_agrees s) /\
  (active s = false -> timer s = None).
Proof.
  intros evs HP s. destruct (inv_run evs init_state inv_init HP) as (Hl & Ha & Hna & _).
  fold s in Hl, Ha, Hna. split; [exact Hl|]. split.
  - intros E. destruct (Ha E) as (_ & _ & H1 & H2). split; assumption.
  - intros E. apply (Hna E).
Qed.

(* started and not stopped  <->  _active *)
Theorem active_iff_started_not_stopped : forall evs,
  permitted init_state evs ->
  let s := fst (run init_state evs) in
  active s = true <-> (tub s = true /\ stopped s = false).
Proof.
  intros evs HP s. destruct (inv_run evs init_state inv_init HP) as (_ & Ha & _ & _ & Hs). fold s in Ha, Hs.
  split.
  - intros E. destruct (Ha E) as (H1 & H2 & _). split; assumption.
  - intros [H1 H2]. apply Hs; assumption.
Qed.

(* ------------------------------------------------------------------ 2. silence after stopConnecting *)

Definition Stopped (s : st) : Prop := stopped s = true /\ active s = false /\ timer s = None.

Lemma stop_stops : forall s, Stopped (fst (step s Stop)) /\ Forall (fun o => silent o = true) (snd (step s Stop)).
Proof.
  intros [a sp t d tm i w l inf]. exec. destruct tm; exec; destruct t; exec; unfold Stopped; cbn;
    repeat split; auto; repeat constructor.
Qed.

(* every event that can happen (a timer cannot expire: there is none) *)
Lemma stopped_step0 : forall s e, simple e -> Stopped s -> enabled s e = true ->
  Stopped (fst (step s e)) /\ Forall (fun o => silent o = true) (snd (step s e)) /\ leaked (fst (step s e)) = leaked s.
Proof.
  intros [a sp t d tm i w l inf] e Hsimple (H1 & H2 & H3) He. cbn in H1, H2, H3. subst.
  destruct e as [|u| | | | | |]; [|destruct u as [|? ?]; [|destruct Hsimple]|..];
    cbn in He; try discriminate; exec; try destruct t; exec; unfold Stopped; cbn;
    repeat split; auto; repeat constructor.
Qed.

Lemma stopped_step : forall s e, Stopped s -> enabled s e = true ->
  Stopped (fst (step s e)) /\ Forall (fun o => silent o = true) (snd (step s e)) /\ leaked (fst (step s e)) = leaked s.
Proof.
  intros s e HS He.
  destruct (lift_step (fun x => Stopped x /\ leaked x = leaked s) (fun o => silent o = true)
                      (fun s e => enabled s e = true)) with (s := s) (e := e) as [[A B] C];
    try reflexivity; try assumption; try (split; [assumption | reflexivity]).
  - intros s0 u H; exact H.
  - intros s0 e0 S0 [I0 L0] E0. destruct (stopped_step0 s0 e0 S0 I0 E0) as (X & Y & Z).
    split; [split; [exact X | congruence] | exact Y].
  - split; [exact A | split; [exact C | exact B]].
Qed.

Lemma stopped_run : forall evs s, Stopped s -> permitted s evs ->
  Stopped (fst (run s evs)) /\ Forall (fun o => silent o = true) (snd (run s evs)) /\ leaked (fst (run s evs)) = leaked s.
Proof.
  induction evs as [|e r IH]; intros s H HP; cbn [run permitted] in *.
  - split; [exact H | split; [constructor | reflexivity]].
  - destruct HP as [He HP]. destruct (stopped_step s e H He) as (H1 & H2 & H2').
    destruct (step s e) as [s1 o1]. cbn [fst snd] in *.
    destruct (IH s1 H1 HP) as (H3 & H4 & H4'). destruct (run s1 r) as [s2 o2]. cbn [fst snd] in *.
    split; [exact H3 | split; [apply Forall_app; split; assumption | congruence]].
Qed.

Theorem silent_after_stop : forall evs1 evs2,
  permitted init_state (evs1 ++ Stop :: evs2) ->
  let s1 := fst (run init_state (evs1 ++ [Stop])) in
  let r := run s1 evs2 in
  Forall (fun o => silent o = true) (snd r) /\ active (fst r) = false /\ timer (fst r) = None /\ leaked (fst r) = 0%nat.
Proof.
  intros evs1 evs2 HP s1 r.
  replace (evs1 ++ Stop :: evs2) with ((evs1 ++ [Stop]) ++ evs2) in HP by (rewrite <- app_assoc; reflexivity).
  destruct (permitted_app _ _ _ HP) as [HP1 HP2]. fold s1 in HP2.
  assert (HS : Stopped s1).
  { unfold s1. rewrite run_app. destruct (run init_state evs1) as [s0 o0]. cbn [run].
    pose proof (stop_stops s0) as [H _]. destruct (step s0 Stop) as [s' o']. cbn [fst] in *. exact H. }
  destruct (stopped_run evs2 s1 HS HP2) as ((H1 & H2 & H3) & H4 & H5). fold r in H1, H2, H3, H4, H5.
  destruct (inv_run _ init_state inv_init HP1) as (HL & _). fold s1 in HL.
  repeat split; try assumption. congruence.
Qed.

(* ------------------------------------------------------------------ 3. delays stay in range *)

Lemma c_initial : 0 <= initialDelay /\ initialDelay <= maxDelay.
Proof. split; apply Qle_bool_imp_le; vm_compute; reflexivity. Qed.
Lemma c_factor : 0 <= factor. Proof. apply Qle_bool_imp_le; vm_compute; reflexivity. Qed.
Lemma c_jitter : 0 <= jitter. Proof. apply Qle_bool_imp_le; vm_compute; reflexivity. Qed.
Lemma c_max : 0 <= maxDelay. Proof. apply Qle_bool_imp_le; vm_compute; reflexivity. Qed.

Lemma Qmult_le_l_weak : forall x y z, 0 <= z -> x <= y -> z * x <= z * y.
Proof.
  intros x y z Hz H. rewrite (Qmult_comm z x), (Qmult_comm z y). apply Qmult_le_compat_r; assumption.
Qed.

Lemma in_range_small : forall Zmax q, 0 <= Zmax -> 0 <= q -> q <= maxDelay -> in_range Zmax q.
Proof.
  intros Zmax q HZ H0 H1. split; [exact H0|]. unfold delay_bound.
  pose proof c_jitter. pose proof c_max.
  assert (0 <= jitter * Zmax) by (apply Qmult_le_0_compat; assumption).
  assert (maxDelay * 1 <= maxDelay * (1 + jitter * Zmax)).
  { apply Qmult_le_l_weak; [assumption | lra]. }
  lra.
Qed.

Lemma jitter_in_range : forall Zmax z mu,
  0 <= Zmax -> Zmax * jitter <= 1 -> - Zmax <= z -> z <= Zmax -> 0 <= mu -> mu <= maxDelay ->
  in_range Zmax (normalvariate z mu (mu * jitter)).
Proof.
  intros Zmax z mu HZ HJ Hz1 Hz2 Hm0 Hm1. unfold in_range, normalvariate, delay_bound.
  rewrite Qred_correct. pose proof c_jitter as Hj. pose proof c_max as HM.
  assert (E : mu + z * (mu * jitter) == mu * (1 + z * jitter)) by ring. rewrite E.
  assert (A : z * jitter <= Zmax * jitter) by (apply Qmult_le_compat_r; assumption).
  assert (B : - Zmax * jitter <= z * jitter) by (apply Qmult_le_compat_r; assumption).
  assert (C : 0 <= 1 + z * jitter) by lra.
  split.
  - apply Qmult_le_0_compat; assumption.
  - apply Qle_trans with (mu * (1 + jitter * Zmax)).
    + apply Qmult_le_l_weak; [assumption | lra].
    + apply Qmult_le_compat_r; [assumption | lra].
Qed.

Definition RInv (Zmax : Q) (s : st) : Prop :=
  in_range Zmax (delay s) /\ match timer s with Some d => in_range Zmax d | None => True end.

Lemma rinv_init : forall Zmax, 0 <= Zmax -> RInv Zmax init_state.
Proof.
  intros Zmax HZ. unfold RInv. cbn. split; [|exact I].
  destruct c_initial. apply in_range_small; assumption.
Qed.

Lemma mu_ok : forall Zmax d, in_range Zmax d -> 0 <= Qmin (d * factor) maxDelay /\ Qmin (d * factor) maxDelay <= maxDelay.
Proof.
  intros Zmax d [H0 _]. split.
  - apply Q.min_glb; [apply Qmult_le_0_compat; [assumption | apply c_factor] | apply c_max].
  - apply Q.le_min_r.
Qed.

Lemma rinv_step0 : forall Zmax s e,
  0 <= Zmax -> Zmax * jitter <= 1 -> simple e -> RInv Zmax s -> z_bounded Zmax e ->
  RInv Zmax (fst (step s e)) /\ Forall (out_in_range Zmax) (snd (step s e)).
Proof.
  intros Zmax [a sp t d tm i w l inf] e HZ HJ Hsimple [Hd Ht] Hz. cbn [delay timer] in Hd, Ht.
  assert (Hini : in_range Zmax initialDelay) by (destruct c_initial; apply in_range_small; assumption).
  destruct e; exec.
  - (* Start *) destruct sp; exec; unfold RInv; cbn; (split; [split; assumption | repeat constructor]).
  - (* AttemptOk *) destruct u as [|? ?]; [|destruct Hsimple]. exec.
    destruct a; exec; unfold RInv; cbn; (split; [split; assumption | repeat constructor]).
  - (* AttemptFail *) cbn [z_bounded] in Hz. destruct Hz as [Hz1 Hz2].
    destruct (mu_ok Zmax d Hd) as [M0 M1].
    pose proof (jitter_in_range Zmax z _ HZ HJ Hz1 Hz2 M0 M1) as R.
    pose proof (in_range_small Zmax _ HZ M0 M1) as R'.
    (* written so that it does not matter where the _active guards sit *)
    destruct a; exec; destruct (q_truthy jitter); exec; unfold RInv; cbn [fst snd delay timer]; split;
      try (split; first [assumption | exact R | exact R' | exact I]);
      first [constructor; [first [exact R | exact R'] | constructor] | constructor].
  - (* Lost *) destruct a; exec; unfold RInv; cbn.
    + split; [split; exact Hini | constructor; [exact Hini | constructor]].
    + split; [split; assumption | repeat constructor].
  - (* TimerExpired *) unfold RInv; cbn. split; [split; [assumption | exact I] | repeat constructor].
  - (* Elapse *) unfold RInv; cbn [fst snd delay timer]. split; [|constructor]. split; [assumption|].
    destruct tm as [q|]; [|exact I]. destruct Ht as [T0 T1]. unfold in_range. rewrite Qred_correct. split; lra.
  - (* Reset *)
    assert (R1 : in_range Zmax (1 # 1)).
    { apply in_range_small; [assumption | |]; apply Qle_bool_imp_le; vm_compute; reflexivity. }
    destruct tm as [q|]; exec; unfold RInv; cbn.
    + split; [split; assumption | constructor; [exact R1 | constructor]].
    + split; [split; [assumption | exact I] | repeat constructor].
  - (* Stop *) destruct tm as [q|]; exec; destruct t; exec; unfold RInv; cbn;
      (split; [split; [assumption | exact I] | repeat constructor]).
Qed.

Lemma rinv_step : forall Zmax s e,
  0 <= Zmax -> Zmax * jitter <= 1 -> RInv Zmax s -> z_bounded Zmax e ->
  RInv Zmax (fst (step s e)) /\ Forall (out_in_range Zmax) (snd (step s e)).
Proof.
  intros Zmax s e HZ HJ HR Hz.
  apply (lift_step (RInv Zmax) (out_in_range Zmax) (fun _ e => z_bounded Zmax e)); try assumption;
    try (intros; exact I).
  intros s0 e0 S0 R0 Z0. apply rinv_step0; assumption.
Qed.

Theorem delay_range : forall Zmax evs,
  0 <= Zmax -> Zmax * jitter <= 1 -> Forall (z_bounded Zmax) evs ->
  let r := run init_state evs in
  in_range Zmax (delay (fst r)) /\
  (forall d, timer (fst r) = Some d -> in_range Zmax d) /\
  Forall (out_in_range Zmax) (snd r).
Proof.
  intros Zmax evs HZ HJ HB.
  assert (G : forall evs s, RInv Zmax s -> Forall (z_bounded Zmax) evs ->
              RInv Zmax (fst (run s evs)) /\ Forall (out_in_range Zmax) (snd (run s evs))).
  { clear evs HB. induction evs as [|e r IH]; intros s HR HB; cbn [run].
    - split; [exact HR | constructor].
    - inversion HB as [|? ? Hz HB']; subst.
      destruct (rinv_step Zmax s e HZ HJ HR Hz) as [H1 H2].
      destruct (step s e) as [s1 o1]. cbn [fst snd] in *.
      destruct (IH s1 H1 HB') as [H3 H4]. destruct (run s1 r) as [s2 o2]. cbn [fst snd] in *.
      split; [exact H3 | apply Forall_app; split; assumption]. }
  destruct (G evs init_state (rinv_init Zmax HZ) HB) as [[H1 H2] H3]. cbn zeta.
  split; [exact H1|]. split; [|exact H3].
  intros d E. rewrite E in H2. exact H2.
Qed.

(* the hypothesis on the draws is necessary: a draw below -1/jitter gives a negative delay *)
Theorem negative_delay_possible :
  exists z d, permitted init_state [Start; AttemptFail z] /\
              timer (fst (run init_state [Start; AttemptFail z])) = Some d /\ d < 0.
Proof.
  exists (-(9)), (Qred (Qmin (initialDelay * factor) maxDelay + -(9) * (Qmin (initialDelay * factor) maxDelay * jitter))).
  split; [apply permittedb_ok; vm_compute; reflexivity|]. split; [vm_compute; reflexivity|].
  vm_compute. reflexivity.
Qed.

(* ------------------------------------------------------------------ 4. the backoff restarts after a success *)

Definition jittered (z mu : Q) : Q := if q_truthy jitter then normalvariate z mu (mu * jitter) else mu.

Lemma lost_restarts : forall s, active s = true ->
  snd (step s Lost) = [OSetTimer initialDelay] /\
  delay (fst (step s Lost)) = initialDelay /\ timer (fst (step s Lost)) = Some initialDelay.
Proof.
  intros [a sp t d tm i w l inf] H. cbn in H. subst. exec. repeat split.
Qed.

Lemma step_lost_active : forall sp t d i w l inf,
  step (mkSt true sp t d None i w l inf) Lost =
  (mkSt true sp t initialDelay (Some initialDelay) i (pred w) l IWaiting, [OSetTimer initialDelay]).
Proof. intros. reflexivity. Qed.

Lemma step_timer_expired : forall a sp t d q i w l inf,
  step (mkSt a sp t d (Some q) i w l inf) TimerExpired = (mkSt a sp t d None (S i) w l IConnecting, [OGetRef]).
Proof. intros. reflexivity. Qed.

Lemma step_fail_active : forall z sp t d i w l inf,
  step (mkSt true sp t d None i w l inf) (AttemptFail z) =
  (mkSt true sp t (jittered z (Qmin (d * factor) maxDelay)) (Some (jittered z (Qmin (d * factor) maxDelay)))
        (pred i) w l IWaiting, [OSetTimer (jittered z (Qmin (d * factor) maxDelay))]).
Proof. intros. unfold jittered. exec. destruct (q_truthy jitter); reflexivity. Qed.

Lemma first_failure_after_loss : forall s z, active s = true -> watching s = 1%nat -> inflight s = 0%nat -> timer s = None ->
  let r := run s [Lost; TimerExpired; AttemptFail z] in
  timer (fst r) = Some (jittered z (Qmin (initialDelay * factor) maxDelay)) /\
  snd r = [OSetTimer initialDelay; OGetRef; OSetTimer (jittered z (Qmin (initialDelay * factor) maxDelay))].
Proof.
  intros [a sp t d tm i w l inf] z H1 H2 H3 H4. cbn [active watching inflight timer] in H1, H2, H3, H4. subst.
  cbv zeta. cbn [run]. rewrite step_lost_active. cbn [pred]. rewrite step_timer_expired. rewrite step_fail_active.
  split; reflexivity.
Qed.

Lemma step_ok : forall a sp t d tm i w l inf,
  step (mkSt a sp t d tm (S i) w l inf) (AttemptOk []) =
  if a then (mkSt true sp t d tm i (S w) l IConnected, [OWatch; OCallback])
  else (mkSt false sp t d tm i w l inf, []).
Proof. intros. destruct a; reflexivity. Qed.

Theorem backoff_restarts : forall evs z,
  permitted init_state (evs ++ [AttemptOk []]) ->
  let s := fst (run init_state (evs ++ [AttemptOk []])) in
  active s = true ->
  enabled s Lost = true /\
  let r := run s [Lost; TimerExpired; AttemptFail z] in
  permitted s [Lost; TimerExpired; AttemptFail z] /\
  snd r = [OSetTimer initialDelay; OGetRef; OSetTimer (jittered z (Qmin (initialDelay * factor) maxDelay))] /\
  timer (fst r) = Some (jittered z (Qmin (initialDelay * factor) maxDelay)).
Proof.
  intros evs z HP s.
  destruct (permitted_app _ _ _ HP) as [HP1 HP2]. cbn [permitted] in HP2. destruct HP2 as [He _].
  pose proof (inv_run _ init_state inv_init HP1) as HI0.
  assert (Es : s = fst (step (fst (run init_state evs)) (AttemptOk []))).
  { unfold s. rewrite run_app. destruct (run init_state evs) as [s0 o0]. cbn [run fst].
    destruct (step s0 (AttemptOk [])) as [s1 o1]. reflexivity. }
  clearbody s. subst s.
  destruct (fst (run init_state evs)) as [a sp t d tm i w l inf].
  cbn [enabled inflight] in He. apply Nat.ltb_lt in He. destruct i as [|i]; [lia|].
  rewrite step_ok. destruct a; cbn [fst active]; [|discriminate]. intros _.
  destruct HI0 as (HL & A & _). cbn [active stopped tub timer inflight watching leaked timer_count] in A, HL.
  destruct (A eq_refl) as (_ & _ & Hc & _). destruct tm; cbn in Hc; [lia|].
  assert (i = 0%nat) by lia. assert (w = 0%nat) by lia. subst.
  split; [reflexivity|]. cbv zeta.
  split; [|apply and_comm; apply first_failure_after_loss; reflexivity].
  cbn [permitted]. rewrite step_lost_active. cbn [fst pred]. rewrite step_timer_expired. cbn [fst].
  repeat split; reflexivity.
Qed.

(* ------------------------------------------------------------------ 5. keeps retrying while active *)

Theorem keeps_retrying : forall evs,
  permitted init_state evs ->
  let s := fst (run init_state evs) in
  active s = true ->
  (* one of the three is pending, and each of them leads to the next attempt: *)
  (enabled s (AttemptOk []) = true \/ enabled s Lost = true \/ enabled s TimerExpired = true) /\
  (forall z, enabled s (AttemptFail z) = true ->
     exists d, snd (step s (AttemptFail z)) = [OSetTimer d] /\ timer (fst (step s (AttemptFail z))) = Some d
               /\ active (fst (step s (AttemptFail z))) = true) /\
  (enabled s Lost = true ->
     snd (step s Lost) = [OSetTimer initialDelay] /\ active (fst (step s Lost)) = true) /\
  (enabled s TimerExpired = true ->
     snd (step s TimerExpired) = [OGetRef] /\ inflight (fst (step s TimerExpired)) = 1%nat
     /\ active (fst (step s TimerExpired)) = true).
Proof.
  intros evs HP s Ha. destruct (inv_run evs init_state inv_init HP) as (_ & A & _). fold s in A.
  destruct (A Ha) as (_ & _ & Hc & _). clear A.
  destruct s as [a sp t d tm i w l inf]. cbn in Ha. subst a.
  cbn [inflight watching timer timer_count] in Hc. split; [|split; [|split]].
  - cbn [enabled inflight watching]. unfold timer_truthy. cbn [timer].
    destruct i; [destruct w; [destruct tm; [auto | cbn in Hc; lia] | auto] | auto].
  - intros z _. exec. destruct (q_truthy jitter); exec; eexists; repeat split.
  - intros _. exec. split; reflexivity.
  - intros He. cbn [enabled] in He. unfold timer_truthy in He. cbn [timer] in He.
    destruct tm; [|discriminate]. cbn in Hc. exec. repeat split. lia.
Qed.


(* ------------------------------------------------------------------ 6. the environment, derived from the outputs
   What the Tub / a RemoteReference / the reactor hold for the Reconnector is determined by what the translated methods
   DID (getReference called, watcher registered, callLater, cancel) and by which of those have fired since -- not by the
   counters of the model state.  The ledger below is computed from the outputs and the events alone; the theorem says
   it always equals the counters, so `enabled` (a Deferred / watcher / timer can only fire if there is one) is exactly
   "the translated methods created it and it has neither fired nor been cancelled". *)
Local Open Scope Z_scope.
Definition ledger := (Z * Z * Z)%type.     (* Deferreds of getReference not yet fired, watchers not yet fired, pending DelayedCalls *)
Definition led_out (v : ledger) (o : out) : ledger :=
  match v with (d, w, t) =>
    match o with
    | OGetRef => (d + 1, w, t)
    | OWatch => (d, w + 1, t)
    | OSetTimer _ => (d, w, t + 1)
    | OCancelTimer => (d, w, t - 1)
    | _ => v
    end end.
Definition led_event (v : ledger) (e : event) : ledger :=
  match v with (d, w, t) =>
    match e with
    | AttemptOk _ | AttemptFail _ => (d - 1, w, t)
    | Lost => (d, w - 1, t)
    | TimerExpired => (d, w, t - 1)
    | _ => v
    end end.
Fixpoint led_run (s : st) (v : ledger) (evs : list event) : ledger :=
  match evs with
  | [] => v
  | e :: r => let (s1, o1) := step s e in led_run s1 (fold_left led_out o1 (led_event v e)) r
  end.
Definition led_ok (s : st) (v : ledger) : Prop :=
  v = (Z.of_nat (inflight s), Z.of_nat (watching s), Z.of_nat (timer_count s + leaked s)).

Lemma led_uops : forall u s v, led_ok s v ->
  led_ok (fst (run s (map uop_event u))) (fold_left led_out (snd (run s (map uop_event u))) v).
Proof.
  induction u as [|o u IH]; intros s v H; cbn [map run fst snd fold_left]; [exact H|].
  assert (H1 : led_ok (fst (step s (uop_event o))) (fold_left led_out (snd (step s (uop_event o))) v)).
  { unfold led_ok in *. subst v. destruct s as [a sp t d tm i w l inf]. destruct o; cbn [uop_event]; exec;
      destruct tm; exec; try destruct t; exec; cbn [fold_left led_out timer_count inflight watching leaked timer]; f_equal; try f_equal; lia. }
  destruct (step s (uop_event o)) as [s1 o1]. cbn [fst snd] in *. specialize (IH s1 _ H1).
  destruct (run s1 (map uop_event u)) as [s2 o2]. cbn [fst snd] in *. rewrite fold_left_app. exact IH.
Qed.

Lemma led_step : forall s e v, enabled s e = true -> led_ok s v ->
  led_ok (fst (step s e)) (fold_left led_out (snd (step s e)) (led_event v e)).
Proof.
  intros s e v EN H. destruct e as [|u|z| | | | |].
  - unfold led_ok in *. subst v. destruct s as [a sp t d tm i w l inf]. exec. destruct sp; exec;
      cbn [fold_left led_out led_event timer_count inflight watching leaked timer]; destruct tm; cbn [timer_count timer]; f_equal; try f_equal; lia.
  - rewrite ok_reentrant.
    assert (H0 : led_ok (fst (step s (AttemptOk []))) (fold_left led_out (snd (step s (AttemptOk []))) (led_event v (AttemptOk u)))).
    { unfold led_ok in *. subst v. destruct s as [a sp t d tm i w l inf]. cbn [enabled inflight] in EN. apply Nat.ltb_lt in EN.
      destruct i as [|i]; [lia|]. exec. destruct a; exec;
        cbn [fold_left led_out led_event timer_count inflight watching leaked timer]; destruct tm; cbn [timer_count timer]; f_equal; try f_equal; lia. }
    destruct (active s); [|exact H0].
    destruct (step s (AttemptOk [])) as [s1 o1]. cbn [fst snd] in *.
    pose proof (led_uops u s1 _ H0) as H2. destruct (run s1 (map uop_event u)) as [s2 o2]. cbn [fst snd] in *.
    rewrite fold_left_app. exact H2.
  - unfold led_ok in *. subst v. destruct s as [a sp t d tm i w l inf]. cbn [enabled inflight] in EN. apply Nat.ltb_lt in EN.
    destruct i as [|i]; [lia|]. exec. destruct a; exec; try destruct (q_truthy jitter); exec;
      cbn [fold_left led_out led_event timer_count inflight watching leaked timer]; destruct tm; cbn [timer_count timer]; f_equal; try f_equal; lia.
  - unfold led_ok in *. subst v. destruct s as [a sp t d tm i w l inf]. cbn [enabled watching] in EN. apply Nat.ltb_lt in EN.
    destruct w as [|w]; [lia|]. exec. destruct a; exec;
      cbn [fold_left led_out led_event timer_count inflight watching leaked timer]; destruct tm; cbn [timer_count timer]; f_equal; try f_equal; lia.
  - unfold led_ok in *. subst v. destruct s as [a sp t d tm i w l inf]. cbn [enabled] in EN. unfold timer_truthy in EN. cbn [timer] in EN.
    destruct tm; [|discriminate]. exec. cbn [fold_left led_out led_event timer_count inflight watching leaked timer]. f_equal; try f_equal; lia.
  - unfold led_ok in *. subst v. destruct s as [a sp t d tm i w l inf]. exec. cbn [fold_left led_event].
    destruct tm; cbn [timer_count timer inflight watching leaked]; reflexivity.
  - pose proof (led_uops [UReset] s v H) as X. cbn [map uop_event run] in X. destruct (step s Reset) as [s1 o1].
    cbn [fst snd] in *. rewrite app_nil_r in X. destruct v as [[? ?] ?]. exact X.
  - pose proof (led_uops [UStop] s v H) as X. cbn [map uop_event run] in X. destruct (step s Stop) as [s1 o1].
    cbn [fst snd] in *. rewrite app_nil_r in X. destruct v as [[? ?] ?]. exact X.
Qed.

Theorem ledger_agrees : forall evs s v, led_ok s v -> permitted s evs -> led_ok (fst (run s evs)) (led_run s v evs).
Proof.
  induction evs as [|e r IH]; intros s v H HP; cbn [run led_run permitted] in *; [exact H|].
  destruct HP as [He HP]. pose proof (led_step s e v He H) as H1.
  destruct (step s e) as [s1 o1]. cbn [fst snd] in *. specialize (IH s1 _ H1 HP). destruct (run s1 r). exact IH.
Qed.

(* an event of the environment is enabled iff the ledger -- what the methods created minus what fired or was cancelled --
   holds such a thing *)
Theorem enabled_is_ledger : forall evs, permitted init_state evs ->
  let s := fst (run init_state evs) in
  match led_run init_state (0, 0, 0) evs with (d, w, t) =>
    (forall u, enabled s (AttemptOk u) = true <-> 0 < d) /\ (forall z, enabled s (AttemptFail z) = true <-> 0 < d) /\
    (enabled s Lost = true <-> 0 < w) /\ (enabled s TimerExpired = true <-> 0 < t) /\
    d = Z.of_nat (inflight s) /\ w = Z.of_nat (watching s) /\ t = Z.of_nat (timer_count s)
  end.
Proof.
  intros evs HP s. assert (H0 : led_ok init_state (0, 0, 0)) by reflexivity.
  pose proof (ledger_agrees evs init_state _ H0 HP) as H. fold s in H.
  destruct (one_activity evs HP) as (HL & _). fold s in HL.
  destruct (led_run init_state (0, 0, 0) evs) as [[d w] t]. unfold led_ok in H. inversion H; subst. rewrite HL, Nat.add_0_r.
  assert (G : forall n, (0 <? n)%nat = true <-> 0 < Z.of_nat n) by (intros n; rewrite Nat.ltb_lt; lia).
  split; [intros u; cbn [enabled]; apply G|].
  split; [intros z; cbn [enabled]; apply G|].
  split; [cbn [enabled]; apply G|].
  split; [|split; [reflexivity | split; reflexivity]].
  cbn [enabled]. unfold timer_truthy, timer_count. destruct (timer s); split; intros X; try reflexivity; try discriminate; cbn in *; lia.
Qed.

Example ex_ledger : led_run init_state (0, 0, 0) [Start; AttemptFail (1 # 2); TimerExpired; AttemptOk [UReset]; Lost; Stop] = (0, 0, 0)
  /\ led_run init_state (0, 0, 0) [Start; AttemptFail (1 # 2)] = (0, 0, 1).
Proof. vm_compute. split; reflexivity. Qed.

Local Close Scope Z_scope.
Local Open Scope Q_scope.

(* ------------------------------------------------------------------ non-vacuity of the hypotheses *)

Example ex_permitted :
  permitted init_state [Start; AttemptFail (1 # 2); TimerExpired; AttemptFail (-(8)); Elapse; Reset; TimerExpired;
                        AttemptOk [UReset]; Lost; TimerExpired; Stop; AttemptOk [UStop]; Reset].
Proof. apply permittedb_ok. vm_compute. reflexivity. Qed.

Example ex_active :
  active (fst (run init_state [Start; AttemptFail (1 # 2); TimerExpired; AttemptFail (-(8)); Elapse])) = true
  /\ timer_count (fst (run init_state [Start; AttemptFail (1 # 2); TimerExpired; AttemptFail (-(8)); Elapse])) = 1%nat.
Proof. vm_compute. split; reflexivity. Qed.

Example ex_zmax : 0 <= 8 /\ 8 * jitter <= 1 /\ z_bounded 8 (AttemptFail (-(8))) /\ ~ (9 * jitter <= 1).
Proof.
  split; [apply Qle_bool_imp_le; vm_compute; reflexivity|].
  split; [apply Qle_bool_imp_le; vm_compute; reflexivity|].
  split; [split; apply Qle_bool_imp_le; vm_compute; reflexivity|].
  intros H. apply Qle_bool_iff in H. vm_compute in H. discriminate.
Qed.

Example ex_backoff_premise :
  permitted init_state ([Start; AttemptFail 2; TimerExpired; AttemptFail 2; TimerExpired] ++ [AttemptOk []]) /\
  active (fst (run init_state ([Start; AttemptFail 2; TimerExpired; AttemptFail 2; TimerExpired] ++ [AttemptOk []]))) = true.
Proof. split; [apply permittedb_ok; vm_compute; reflexivity | vm_compute; reflexivity]. Qed.

(* regression witness of the repaired defect (commit 6967c1e): stopConnecting while queued, then the Tub starts *)
Example ex_stop_before_start :
  permitted init_state [Stop; Start; Reset; Stop] /\
  snd (run init_state [Stop; Start; Reset; Stop]) = [ORemove; ORemove] /\
  active (fst (run init_state [Stop; Start])) = false /\ inflight (fst (run init_state [Stop; Start])) = 0%nat.
Proof. split; [apply permittedb_ok; vm_compute; reflexivity | vm_compute; repeat split; reflexivity]. Qed.

(* pb.py calls startConnecting from exactly two places (connectTo on a running Tub, startService for queued ones) *)
Example ex_start_sites : tub_start_sites = 2%nat.
Proof. reflexivity. Qed.
