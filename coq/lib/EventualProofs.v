(* C17: THE TIE of the queue model.  The translated code of eventual.py in its environment (lib/Eventual.v: run_g)
   and the reference machine (lib/EventualSpec.v: run good_cfg) are the same function of the program: same trace,
   same state after every prefix (run_bridge).  The theorems proved about the reference machine
   (lib/EventualSpecProofs.v) are then restated about the translated code.

   The proofs look at the translated methods only through what they DO: straight-line statements are executed by
   computation on a symbolic state; the body of the batch loop is used only through "it invokes the entry and
   swallows whatever it raises", the observer loop only through its condition and "its body pops the head of the
   live list and fires it" (extensional side conditions, closed by computation).  A rewrite of eventual.py that
   changes what a method does makes one of these side conditions false and this file stops compiling. *)
From Coq Require Import ZArith List Bool Lia.
Import ListNotations.
Require Import Verif.lib.EventualBase Verif.gen.EventualGen Verif.lib.EventualSpec Verif.lib.EventualSpecProofs
  Verif.lib.Eventual.
Local Open Scope Z_scope.

(* ---- eventually() / flushEventualQueue(), as translated *)
Lemma eventually_bridge (E : qenv) s w :
  exists w', m_eventually E s w = (w', [], FNorm) /\ to_q w' = enq1 good_cfg (to_q w) s.
Proof.
  unfold m_eventually, m_append, seqa, cond, ret, p_events_append, p_arm_timer, t_timer, enq1, to_q, upd_events.
  cbn [good_cfg c_pos c_arms events flushers timer sched in_turn].
  destruct (w_timer w) eqn:T; destruct (w_sched w) eqn:Sd; cbn [negb andb orb app];
    eexists; (split; [reflexivity|]); cbn [w_events w_flushers w_timer w_sched w_in_turn];
    rewrite ?T, ?Sd; reflexivity.
Qed.

Lemma flush_bridge (E : qenv) d w :
  (flush_idle good_cfg (to_q w) = true /\ m_flushEventualQueue E d w = (w, [], FRet RFired)) \/
  (flush_idle good_cfg (to_q w) = false /\
   exists w', m_flushEventualQueue E d w = (w', [], FRet RUnfired) /\
              to_q w' = set_flushers (to_q w) (flushers (to_q w) ++ [d])).
Proof.
  cbv beta iota zeta delta [m_flushEventualQueue m_flush seqa cond ret ret_with p_new_deferred p_observers_append
    t_events t_in_turn flush_idle to_q upd_flushers set_flushers good_cfg c_guard events flushers timer sched in_turn].
  destruct (is_nil (w_events w)) eqn:En; destruct (w_in_turn w) eqn:Ei; cbv beta iota zeta delta [negb andb app].
  - right. split; [reflexivity|]. eexists. split; [reflexivity|]. cbn. rewrite Ei. reflexivity.
  - left. split; reflexivity.
  - right. split; [reflexivity|]. eexists. split; [reflexivity|]. cbn. rewrite Ei. reflexivity.
  - right. split; [reflexivity|]. eexists. split; [reflexivity|]. cbn. rewrite Ei. reflexivity.
Qed.

(* fireEventually(v) is eventually(d.callback, v) for a new Deferred d, which it returns unfired *)
Lemma fire_eventually_is_eventually (E : qenv) s w :
  exists w', m_fireEventually E s w = (w', [], FRet RUnfired) /\ m_eventually E s w = (w', [], FNorm).
Proof.
  destruct (eventually_bridge E s w) as (w' & A & _). exists w'. split; [|exact A].
  unfold m_fireEventually, seqa, p_new_deferred, ret, ret_with. rewrite A. reflexivity.
Qed.

(* ---- actions *)
Lemma run_list_bridge ctx l :
  Forall (fun a => forall w, let '(w', t) := do_act_g ctx w a in do_act good_cfg ctx (to_q w) a = (to_q w', t)) l ->
  forall w, let '(w', t) := run_list_g (do_act_g ctx) l w in run_list (do_act good_cfg ctx) l (to_q w) = (to_q w', t).
Proof.
  induction l as [|a l IH]; intros H w; cbn [run_list_g run_list]; [reflexivity|].
  inversion H as [|x y Ha Hl]; subst. specialize (Ha w).
  destruct (do_act_g ctx w a) as [w1 t1]. rewrite Ha. specialize (IH Hl w1).
  destruct (run_list_g (do_act_g ctx) l w1) as [w2 t2].
  change ((fix go (l0 : list act) (st0 : qstate) {struct l0} : qstate * list ev :=
             match l0 with
             | [] => (st0, [])
             | a0 :: l' => let '(st1, t0) := do_act good_cfg ctx st0 a0 in let '(st2, t3) := go l' st1 in (st2, t0 ++ t3)
             end) l (to_q w1)) with (run_list (do_act good_cfg ctx) l (to_q w1)).
  rewrite IH. reflexivity.
Qed.

Lemma do_act_bridge a : forall ctx w,
  let '(w', t) := do_act_g ctx w a in do_act good_cfg ctx (to_q w) a = (to_q w', t).
Proof.
  induction a as [s IHs|fid cb IHcb] using act_nested_ind; intros ctx w.
  - destruct s as [i acts k]. cbn [do_act_g].
    match goal with |- context [m_eventually ?E ?s ?w] => destruct (eventually_bridge E s w) as (w' & A & B); rewrite A end.
    cbn [escape_evs app]. cbn [do_act good_cfg c_append_runs sid]. rewrite B. reflexivity.
  - cbn [do_act_g]. rewrite do_act_unfold.
    match goal with |- context [m_flushEventualQueue ?E ?d ?w] =>
      destruct (flush_bridge E d w) as [(I & A)|(I & w' & A & B)]; rewrite A, I end.
    + assert (H := run_list_bridge ctx cb). unfold run_acts.
      assert (Hf : Forall (fun a => forall w, let '(w', t) := do_act_g ctx w a in do_act good_cfg ctx (to_q w) a = (to_q w', t)) cb).
      { eapply Forall_impl; [|exact IHcb]. intros a Ha. apply Ha. }
      specialize (H Hf w). destruct (run_list_g (do_act_g ctx) cb w) as [w'' t']. rewrite H. reflexivity.
    + cbn [app]. rewrite B. reflexivity.
Qed.

Lemma run_acts_bridge ctx l w :
  let '(w', t) := run_acts_g ctx w l in run_acts good_cfg ctx (to_q w) l = (to_q w', t).
Proof.
  unfold run_acts_g, run_acts. apply run_list_bridge. apply Forall_forall. intros a _ w1. apply do_act_bridge.
Qed.

(* ---- the batch loop: any body that invokes the entry and swallows what it raises *)
Definition swallows (body : script -> list script -> qact) : Prop :=
  forall x rest w, body x rest w =
    (let '(w1, t1, f1) := call_g x rest w in (w1, t1, match f1 with FRet r => FRet r | _ => FNorm end)).

Lemma for_list_bridge body : swallows body -> forall batch w,
  let '(w1, t1, f1) := for_list body batch w in
  run_batch good_cfg (to_q w) batch = (to_q w1, t1, true) /\ f1 = FNorm.
Proof.
  intros Hb. induction batch as [|s rest IH]; intros w; cbn [for_list run_batch].
  - split; reflexivity.
  - rewrite Hb. unfold call_g. pose proof (run_acts_bridge (Some rest) (sacts s) w) as A.
    destruct (run_acts_g (Some rest) w (sacts s)) as [w1 t1]. rewrite A.
    specialize (IH w1). destruct (for_list body rest w1) as [[w2 t2] f2]. destruct IH as [IH ->].
    cbn [good_cfg c_catch catches]. rewrite IH. unfold raise_evs.
    destruct (sraises s); cbn [app]; split; try reflexivity; rewrite <- ?app_assoc; reflexivity.
Qed.

(* ---- the observer loop: condition "observers registered and nothing queued", body "pop the head and fire it" *)
Definition pops_and_fires (body : qact) : Prop := forall w, body w = p_pop0_callback fire_g w.
Definition obs_cond (c : qw -> bool) : Prop :=
  forall w, c w = negb (is_nil (w_flushers w)) && is_nil (w_events w).

Lemma while_bridge c body : obs_cond c -> pops_and_fires body -> forall n w,
  let '(w1, t1, f1) := while_fuel n c body w in
  fire_while good_cfg n (to_q w) = (to_q w1, t1) /\ f1 = FNorm.
Proof.
  intros Hc Hb. induction n as [|n IH]; intros w; cbn [while_fuel fire_while].
  - split; reflexivity.
  - rewrite Hc, Hb. unfold p_pop0_callback. cbn [to_q flushers events].
    destruct (w_flushers w) as [|[f cb] rest] eqn:Fl; cbn [is_nil negb andb]; [split; reflexivity|].
    destruct (is_nil (w_events w)) eqn:En; [|split; reflexivity].
    unfold fire_g, notify. cbn [fst snd].
    pose proof (run_acts_bridge None cb (upd_flushers w rest)) as A.
    destruct (run_acts_g None (upd_flushers w rest) cb) as [w1 t1].
    assert (Hq : to_q (upd_flushers w rest) = set_flushers (to_q w) rest) by reflexivity.
    rewrite Hq in A. cbn [to_q] in A.
    change (set_flushers {| events := w_events w; flushers := w_flushers w; timer := w_timer w; sched := w_sched w;
                            in_turn := w_in_turn w |} rest) with (set_flushers (to_q w) rest).
    rewrite A. specialize (IH w1). destruct (while_fuel n c body w1) as [[w2 t2] f2]. destruct IH as [IH ->].
    rewrite IH. rewrite Hq. split; reflexivity.
Qed.

(* ---- one reactor turn *)
Ltac close_ext :=
  intros x0 rest0 wx; cbv beta delta [seqa try_catch ret p_log_err e_call env_turn]; cbn beta iota;
  destruct (call_g x0 rest0 wx) as [[wy ty] [|ry|iy ky]]; cbn [catches app]; rewrite ?app_nil_r; reflexivity.

Lemma turn_bridge w : let '(w', t) := turn_g w in turn good_cfg (to_q w) = (to_q w', t).
Proof.
  unfold turn_g, turn. cbn [to_q sched]. destruct (w_sched w) eqn:Sc; cbn [negb]; [|reflexivity].
  unfold m__turn.
  (* the straight-line prefix, by computation *)
  cbv beta delta [seqa p_timer_none p_swap_events p_set_in_turn p_for_loc p_while] iota.
  cbn [w_events w_flushers w_timer w_sched w_in_turn w_loc w_obs w_user].
  match goal with |- context [for_list ?body ?batch ?w1] =>
    assert (Hb : swallows body) by (unfold swallows; close_ext);
    pose proof (for_list_bridge body Hb batch w1) as A; destruct (for_list body batch w1) as [[w2 t2] f2] end.
  destruct A as [A ->]. unfold to_q. cbn [good_cfg c_clears c_marks c_order events flushers timer sched in_turn].
  unfold to_q in A. cbn [w_events w_flushers w_timer w_sched w_in_turn] in A. rewrite A.
  cbn [w_events w_flushers w_timer w_sched w_in_turn w_loc w_obs w_user].
  match goal with |- context [while_fuel ?n ?c ?body ?w3] =>
    assert (Hc : obs_cond c) by (unfold obs_cond, t_observers, t_events; intros; cbn beta; rewrite negb_involutive; reflexivity);
    assert (Hp : pops_and_fires body) by (unfold pops_and_fires, env_turn, e_fire; intros; cbv beta delta [seqa ret]; cbn beta iota;
      match goal with |- context [p_pop0_callback ?f ?x] => destruct (p_pop0_callback f x) as [[? ?] [|?|? ?]] end; rewrite ?app_nil_r; reflexivity);
    pose proof (while_bridge c body Hc Hp n w3) as B; destruct (while_fuel n c body w3) as [[w4 t4] f4] end.
  destruct B as [B ->]. unfold fire. cbn [good_cfg c_fire flushers].
  unfold to_q in B. cbn [w_events w_flushers w_timer w_sched w_in_turn env_turn e_fuel] in B.
  cbn [events flushers timer sched in_turn]. rewrite B. cbv beta iota zeta delta [ret]. cbn [app escape_evs].
  rewrite ?app_nil_r. reflexivity.
Qed.

Lemma step_bridge w o : let '(w', t) := step_g w o in step good_cfg (to_q w) o = (to_q w', t).
Proof. destruct o as [a|]; cbn [step_g step]; [apply do_act_bridge|apply turn_bridge]. Qed.

(* THE TIE: for every program, the translated code in its environment and the reference machine produce the same
   trace and reach the same state *)
Theorem run_bridge ops : forall w,
  let '(w', t) := run_g w ops in run good_cfg (to_q w) ops = (to_q w', t).
Proof.
  induction ops as [|o ops IH]; intros w; cbn [run_g run]; [reflexivity|].
  pose proof (step_bridge w o) as A. destruct (step_g w o) as [w1 t1]. rewrite A.
  specialize (IH w1). destruct (run_g w1 ops) as [w2 t2]. rewrite IH. reflexivity.
Qed.

Lemma run_g_spec ops w t : run_g w0 ops = (w, t) -> run good_cfg q0 ops = (to_q w, t).
Proof. intros H. pose proof (run_bridge ops w0) as A. rewrite H in A. exact A. Qed.

(* ======================= property theorems, about the translated code ======================= *)

(* the translated eventually() only stores the entry and arms the reactor: it produces no event of its own and does
   not use its environment -- in particular it never invokes the entry -- whatever the environment is *)
Theorem ev_never_sync_code : forall (E : qenv) s w,
  (exists w', m_eventually E s w = (w', [], FNorm)) /\
  forall ctx, snd (do_act_g ctx w (AEnq s)) = [Sub (sid s)] /\
  forall l, rans (snd (run_acts_g ctx w l)) = [].
Proof.
  intros E s w. split; [destruct (eventually_bridge E s w) as (w' & A & _); eauto|].
  intros ctx. split.
  - pose proof (do_act_bridge (AEnq s) ctx w) as A. destruct (do_act_g ctx w (AEnq s)) as [w' t].
    cbn [snd]. pose proof (EventualSpecProofs.ev_never_sync ctx (to_q w) s) as [B _]. rewrite A in B. exact B.
  - intros l. pose proof (run_acts_bridge ctx l w) as A. destruct (run_acts_g ctx w l) as [w' t]. cbn [snd].
    pose proof (EventualSpecProofs.ev_never_sync ctx (to_q w) s) as [_ B]. specialize (B l). rewrite A in B. exact B.
Qed.

(* ... which is a fact about THIS translation: an append() that also contains the call statement is translated to
   code that runs the entry inside eventually() *)
Definition m_append_sync {C F U : Type} (E : env C F U) (x : C) : EventualBase.act C F U :=
  seqa (p_events_append x) (seqa (e_call_now E x) (seqa (cond (fun w => negb (t_timer w)) (seqa p_arm_timer ret) ret) ret)).
Lemma ev_never_sync_needs_translation :
  exists (E : qenv) s w, In (Ran (sid s)) (snd (fst (m_append_sync E s w))).
Proof.
  exists (env_out (fun s w => (w, [Ran (sid s)], FNorm))), (Sc 1 [] RNo), w0. cbn. auto.
Qed.

Theorem ev_fifo_code : forall ops w t,
  run_g w0 ops = (w, t) -> subs t = rans t ++ map sid (w_events w).
Proof. intros ops w t H. apply run_g_spec in H. apply (EventualSpecProofs.ev_fifo _ _ _ H). Qed.

Corollary ev_exactly_once_code : forall ops w t,
  run_g w0 ops = (w, t) -> w_events w = [] -> rans t = subs t.
Proof. intros ops w t H He. apply run_g_spec in H. apply (EventualSpecProofs.ev_exactly_once _ _ _ H He). Qed.

Theorem ev_isolation_code : forall ops w t w' t',
  run_g w0 ops = (w, t) -> turn_g w = (w', t') ->
  rans t' = map sid (w_events w) /\ map sid (w_events w') = subs t'.
Proof.
  intros ops w t w' t' H Ht. apply run_g_spec in H. pose proof (turn_bridge w) as A. rewrite Ht in A.
  apply (EventualSpecProofs.ev_isolation _ _ _ _ _ H A).
Qed.

Theorem ev_scheduled_code : forall ops w t,
  run_g w0 ops = (w, t) ->
  (w_events w <> [] -> w_sched w = true) /\ (w_flushers w <> [] -> w_sched w = true) /\ w_in_turn w = false.
Proof. intros ops w t H. apply run_g_spec in H. apply (EventualSpecProofs.ev_scheduled _ _ _ H). Qed.

Theorem ev_flush_code : forall ops w t,
  run_g w0 ops = (w, t) -> Forall flush_ok t.
Proof. intros ops w t H. apply run_g_spec in H. apply (EventualSpecProofs.ev_flush _ _ _ H). Qed.

Theorem ev_flush_accounting_code : forall ops w t,
  run_g w0 ops = (w, t) ->
  fdeferred t = fpopped t ++ map fst (w_flushers w) /\ ffired t = fanswered t.
Proof. intros ops w t H. apply run_g_spec in H. apply (EventualSpecProofs.ev_flush_accounting _ _ _ H). Qed.

Theorem ev_flush_drained_code : forall ops w t,
  run_g w0 ops = (w, t) -> w_events w = [] ->
  w_flushers w = [] /\ fdeferred t = fpopped t.
Proof. intros ops w t H He. apply run_g_spec in H. apply (EventualSpecProofs.ev_flush_drained _ _ _ H He). Qed.

Theorem ev_flush_sync_iff_code : forall ops w t fid cb,
  run_g w0 ops = (w, t) ->
  (w_events w = [] -> exists t', snd (do_act_g None w (AFlush fid cb)) = FlushReq fid false :: FlushFired fid 0%nat false :: t') /\
  (w_events w <> [] -> exists w', do_act_g None w (AFlush fid cb) = (w', [FlushReq fid true]) /\
                                  w_flushers w' = w_flushers w ++ [(fid, cb)] /\ w_events w' = w_events w).
Proof.
  intros ops w t fid cb H. apply run_g_spec in H.
  destruct (EventualSpecProofs.ev_flush_sync_iff _ _ _ fid cb H) as [A B].
  pose proof (do_act_bridge (AFlush fid cb) None w) as D. destruct (do_act_g None w (AFlush fid cb)) as [w' t'] eqn:E.
  split.
  - intros He. destruct (A He) as (t'' & A'). rewrite D in A'. exists t''. exact A'.
  - intros He. specialize (B He). rewrite D in B.
    pose proof (f_equal snd B) as B2. pose proof (f_equal (fun r => flushers (fst r)) B) as F1.
    pose proof (f_equal (fun r => events (fst r)) B) as F2. cbn [fst snd to_q set_flushers flushers events] in B2, F1, F2.
    exists w'. split; [rewrite B2; reflexivity|]. split; [exact F1|exact F2].
Qed.

(* the iteration bound the environment gives the translated observer loop never cuts it short: when the loop of the
   model stops, the loop condition of the code is false *)
Theorem observer_loop_complete : forall c body n w,
  obs_cond c -> pops_and_fires body -> (obs_weight (w_flushers w) <= n)%nat ->
  let w1 := fst (fst (while_fuel n c body w)) in c w1 = false.
Proof.
  intros c body n w Hc Hb Hn. pose proof (while_bridge c body Hc Hb n w) as A.
  destruct (while_fuel n c body w) as [[w1 t1] f1]. destruct A as [A _]. cbn [fst].
  pose proof (fire_while_complete good_cfg n (to_q w) Hn) as B. rewrite A in B. cbn [fst] in B.
  rewrite Hc. destruct B as [B|B].
  - change (flushers (to_q w1)) with (w_flushers w1) in B. rewrite B. reflexivity.
  - change (events (to_q w1)) with (w_events w1) in B. destruct (w_events w1); [contradiction|].
    cbn [is_nil]. apply andb_false_r.
Qed.

(* non-vacuity: the translated code on a program with re-entrant enqueueing, a raising callable, nested flush callbacks *)
Example ev_gen_example :
  let ops := [OAct (AEnq (Sc 1 [AEnq (Sc 3 [] RNo); AFlush 8 [AEnq (Sc 4 [] RBase); AFlush 11 []]] RExc)); OAct (AFlush 9 []);
              OAct (AEnq (Sc 2 [] RNo)); OTurn; OTurn; OTurn; OAct (AFlush 10 [AFlush 12 []])] in
  snd (run_g w0 ops) = snd (run good_cfg q0 ops) /\
  rans (snd (run_g w0 ops)) = [1; 2; 3; 4] /\ ffired (snd (run_g w0 ops)) = [9; 8; 11; 10; 12].
Proof. vm_compute. repeat split; reflexivity. Qed.

(* ---- names kept for lib/OrderEventual.v (C04): the reference machine with the shape of the current code (src_cfg);
   by run_bridge these are statements about the translated code *)
Lemma src_is_good : src_cfg = good_cfg.
Proof. reflexivity. Qed.
Theorem ev_fifo : forall ops st t,
  EventualSpec.run src_cfg q0 ops = (st, t) -> subs t = rans t ++ map sid (events st).
Proof. exact EventualSpecProofs.ev_fifo. Qed.
Theorem ev_isolation : forall ops st t st' t',
  EventualSpec.run src_cfg q0 ops = (st, t) -> EventualSpec.turn src_cfg st = (st', t') ->
  rans t' = map sid (events st) /\ map sid (events st') = subs t'.
Proof. exact EventualSpecProofs.ev_isolation. Qed.
