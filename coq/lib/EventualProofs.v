(* C17: theorems about the eventual-send queue model (lib/Eventual.v) instantiated with the
   shape facts read from the source (src_cfg). *)
From Coq Require Import ZArith List Bool Lia.
Import ListNotations.
Require Import Verif.gen.EventualGen Verif.lib.Eventual.
Local Open Scope Z_scope.

Definition good_cfg : evcfg := {|
  c_pos := Tail; c_arms := true; c_clears := true; c_order := Forward; c_catch := CatchAll;
  c_fire := FireWhileEmpty; c_marks := true; c_guard := FlushWhenIdle |}.

(* THE TIE: the facts read from the source are the ones the proofs below rely on.  An edit of
   eventual.py that changes one of them changes gen/EventualGen.v and this lemma fails. *)
Lemma src_is_good : src_cfg = good_cfg.
Proof. reflexivity. Qed.

Definition ids (l : list script) : list Z := map sid l.

Lemma subs_app a b : subs (a ++ b) = subs a ++ subs b.
Proof. induction a as [|e a IH]; [reflexivity|]. destruct e; cbn [app subs]; rewrite ?IH; reflexivity. Qed.
Lemma rans_app a b : rans (a ++ b) = rans a ++ rans b.
Proof. induction a as [|e a IH]; [reflexivity|]. destruct e; cbn [app rans]; rewrite ?IH; reflexivity. Qed.

Lemma ids_app a b : ids (a ++ b) = ids a ++ ids b.
Proof. apply map_app. Qed.

(* between operations: the timer flag mirrors the reactor, and pending work is always scheduled *)
Definition wfq (st : qstate) : Prop :=
  timer st = sched st /\ (events st <> [] -> sched st = true).

Definition noflushfired (t : list ev) : Prop :=
  Forall (fun e => match e with FlushFired _ _ _ => False | _ => True end) t.

(* ---- eventually(s) and the notification of a flush observer *)
Lemma subs_map_sub l : subs (map (fun s => Sub (sid s)) l) = ids l.
Proof. induction l as [|x l IH]; [reflexivity|]. cbn [map subs ids]. rewrite IH. reflexivity. Qed.
Lemma rans_map_sub l : rans (map (fun s => Sub (sid s)) l) = [].
Proof. induction l as [|x l IH]; [reflexivity|]. cbn [map rans]. exact IH. Qed.

Lemma enq1_good st s :
  ids (events (enq1 good_cfg st s)) = ids (events st) ++ [sid s] /\
  in_turn (enq1 good_cfg st s) = in_turn st /\ flushers (enq1 good_cfg st s) = flushers st /\
  (wfq st -> wfq (enq1 good_cfg st s)) /\ (sched st = true -> sched (enq1 good_cfg st s) = true).
Proof.
  unfold enq1. cbn [good_cfg c_pos c_arms events in_turn flushers timer sched].
  split; [rewrite ids_app; reflexivity|]. split; [reflexivity|]. split; [reflexivity|]. split.
  - intros [H1 H2]. unfold wfq; cbn [timer sched events]. rewrite H1, andb_true_r.
    split; [reflexivity|]. intros _. destruct (sched st); reflexivity.
  - intros ->. reflexivity.
Qed.

Lemma enq_all_good cb : forall st,
  ids (events (fold_left (enq1 good_cfg) cb st)) = ids (events st) ++ ids cb /\
  in_turn (fold_left (enq1 good_cfg) cb st) = in_turn st /\
  flushers (fold_left (enq1 good_cfg) cb st) = flushers st /\
  (wfq st -> wfq (fold_left (enq1 good_cfg) cb st)) /\
  (sched st = true -> sched (fold_left (enq1 good_cfg) cb st) = true).
Proof.
  induction cb as [|s cb IH]; intros st; cbn [fold_left ids map].
  - rewrite app_nil_r. split; [reflexivity|]. split; [reflexivity|]. split; [reflexivity|]. split; auto.
  - destruct (enq1_good st s) as (A1 & A2 & A3 & A4 & A5).
    destruct (IH (enq1 good_cfg st s)) as (B1 & B2 & B3 & B4 & B5).
    rewrite B1, A1, B2, A2, B3, A3, <- app_assoc. cbn [app ids map].
    split; [reflexivity|]. split; [reflexivity|]. split; [reflexivity|]. split; auto.
Qed.

Lemma notify_good ctx st f cb st' t :
  notify good_cfg ctx st f cb = (st', t) ->
  rans t = [] /\ ids (events st') = ids (events st) ++ subs t /\ in_turn st' = in_turn st /\
  flushers st' = flushers st /\ (wfq st -> wfq st') /\ (sched st = true -> sched st' = true) /\
  (ctx = None -> events st = [] -> Forall flush_ok t).
Proof.
  unfold notify. intros H; injection H as <- <-.
  destruct (enq_all_good cb st) as (B1 & B2 & B3 & B4 & B5).
  cbn [rans subs]. rewrite rans_map_sub, subs_map_sub.
  split; [reflexivity|]. split; [exact B1|]. split; [exact B2|]. split; [exact B3|]. split; [exact B4|].
  split; [exact B5|]. intros -> He. rewrite He. constructor; [cbn; split; reflexivity|].
  apply Forall_forall. intros e Hin. apply in_map_iff in Hin as (x & <- & _). exact I.
Qed.

(* ---- one action *)
Lemma do_act_good ctx st a st' t :
  do_act good_cfg ctx st a = (st', t) ->
  rans t = [] /\ ids (events st') = ids (events st) ++ subs t /\ in_turn st' = in_turn st /\
  (wfq st -> wfq st') /\
  (in_turn st = true -> noflushfired t) /\
  (ctx = None -> Forall flush_ok t) /\
  (sched st = true -> sched st' = true).
Proof.
  destruct a as [s|fid cb]; cbn [do_act good_cfg c_guard].
  - intros H; injection H as <- <-. destruct (enq1_good st s) as (A1 & A2 & A3 & A4 & A5).
    cbn [rans subs]. split; [reflexivity|]. split; [exact A1|]. split; [exact A2|]. split; [exact A4|].
    split; [intros _; repeat constructor|]. split; [intros _; repeat constructor|]. exact A5.
  - destruct (is_nil (events st) && negb (in_turn st)) eqn:E.
    + apply andb_true_iff in E as [E1 E2]. apply negb_true_iff in E2.
      intros H. apply notify_good in H as (A1 & A2 & A3 & A4 & A5 & A6 & A7).
      split; [exact A1|]. split; [exact A2|]. split; [exact A3|]. split; [exact A5|].
      split; [intros C; congruence|]. split; [|exact A6].
      intros Hc. apply A7; [exact Hc|]. destruct (events st); [reflexivity|discriminate].
    + intros H; injection H as <- <-. cbn [set_flushers events in_turn timer sched flushers rans subs]. rewrite app_nil_r.
      split; [reflexivity|]. split; [reflexivity|]. split; [reflexivity|].
      split; [intros [H1 H2]; split; assumption|].
      split; [intros _; constructor|]. split; [intros _; constructor|]. auto.
Qed.

Lemma run_acts_good ctx l : forall st st' t,
  run_acts good_cfg ctx st l = (st', t) ->
  rans t = [] /\ ids (events st') = ids (events st) ++ subs t /\ in_turn st' = in_turn st /\
  (wfq st -> wfq st') /\
  (in_turn st = true -> noflushfired t) /\
  (ctx = None -> Forall flush_ok t).
Proof.
  induction l as [|a l IH]; intros st st' t; cbn [run_acts].
  - intros H; inversion H; subst. cbn [rans subs]. rewrite app_nil_r.
    split; [reflexivity|]. split; [reflexivity|]. split; [reflexivity|]. split; [auto|].
    split; intros; constructor.
  - destruct (do_act good_cfg ctx st a) as [st1 t1] eqn:E1.
    destruct (run_acts good_cfg ctx st1 l) as [st2 t2] eqn:E2.
    intros H; inversion H; subst; clear H.
    apply do_act_good in E1 as (A1 & A2 & A3 & A4 & A5 & A6 & _).
    apply IH in E2 as (B1 & B2 & B3 & B4 & B5 & B6).
    rewrite rans_app, subs_app, A1, B1, B2, A2, B3, A3, app_assoc.
    split; [reflexivity|]. split; [reflexivity|]. split; [reflexivity|].
    split; [auto|]. split.
    + intros Hi. apply Forall_app. split; [apply A5; exact Hi|]. apply B5. congruence.
    + intros Hc. apply Forall_app. split; [apply A6; exact Hc|apply B6; exact Hc].
Qed.

(* ---- the batch loop *)
Lemma run_batch_good batch : forall st st' t ok,
  run_batch good_cfg st batch = (st', t, ok) ->
  ok = true /\ rans t = ids batch /\ ids (events st') = ids (events st) ++ subs t /\
  in_turn st' = in_turn st /\ (wfq st -> wfq st') /\ (in_turn st = true -> noflushfired t).
Proof.
  induction batch as [|s rest IH]; intros st st' t ok; cbn [run_batch].
  - intros H; inversion H; subst. cbn [rans subs ids map]. rewrite app_nil_r.
    repeat (split; [first [reflexivity | auto]|]). intros; constructor.
  - destruct (run_acts good_cfg (Some rest) st (sacts s)) as [st1 t1] eqn:E1.
    apply run_acts_good in E1 as (A1 & A2 & A3 & A4 & A5 & _).
    unfold catches. cbn [c_catch good_cfg].
    destruct (run_batch good_cfg st1 rest) as [[st2 t2] ok2] eqn:E2.
    apply IH in E2 as (B0 & B1 & B2 & B3 & B4 & B5).
    destruct (sraises s); intros H; inversion H; subst; clear H;
      cbn [rans subs ids map]; rewrite ?rans_app, ?subs_app; cbn [rans subs];
      rewrite A1, B1, B2, A2, B3, A3, app_assoc; cbn [app ids];
      (split; [reflexivity|]); (split; [reflexivity|]); (split; [reflexivity|]); (split; [reflexivity|]);
      (split; [auto|]); intros Hi; assert (N1 := A5 Hi); (assert (N2 : noflushfired t2) by (apply B5; congruence));
      unfold noflushfired in *; (constructor; [exact I|]); apply Forall_app; (split; [exact N1|]);
      first [exact N2 | constructor; [exact I | exact N2]].
Qed.

(* ---- one reactor turn *)
(* between operations no batch is running and every registered flush observer will be served *)
Definition wft (st : qstate) : Prop :=
  wfq st /\ in_turn st = false /\ (flushers st <> [] -> sched st = true).

Lemma fire_while_good fl : forall st st' t,
  fire_while good_cfg fl st = (st', t) -> wfq st -> in_turn st = false ->
  wft st' /\ Forall flush_ok t /\ rans t = [] /\ ids (events st') = ids (events st) ++ subs t.
Proof.
  induction fl as [|[f cb] rest IH]; intros st st' t; cbn [fire_while].
  - intros H W Hi; injection H as <- <-. cbn [rans subs]. rewrite app_nil_r.
    split; [|split; [constructor|split; reflexivity]].
    split; [exact W|]. split; [exact Hi|]. intros C; exfalso; apply C; reflexivity.
  - destruct (is_nil (events st)) eqn:En.
    + destruct (notify good_cfg None st f cb) as [st1 t1] eqn:E1.
      destruct (fire_while good_cfg rest st1) as [st2 t2] eqn:E2.
      intros H W Hi; injection H as <- <-.
      apply notify_good in E1 as (A1 & A2 & A3 & A4 & A5 & A6 & A7).
      apply IH in E2 as (B1 & B2 & B3 & B4); [|auto|congruence].
      split; [exact B1|]. split.
      { apply Forall_app; split; [|exact B2]. apply A7; [reflexivity|]. destruct (events st); [reflexivity|discriminate]. }
      rewrite rans_app, subs_app, A1, B3, B4, A2, app_assoc. split; reflexivity.
    + intros H W Hi; injection H as <- <-. cbn [rans subs]. rewrite app_nil_r.
      split; [|split; [constructor|split; reflexivity]].
      destruct W as [W1 W2]. split; [split; assumption|]. split; [exact Hi|].
      cbn [set_flushers sched events]. intros _. apply W2. intros C; rewrite C in En; discriminate.
Qed.

Lemma turn_good st st' t :
  turn good_cfg st = (st', t) -> wft st ->
  wft st' /\ Forall flush_ok t /\
  ids (events st) ++ subs t = rans t ++ ids (events st') /\
  firstn (List.length (events st)) (rans t) = ids (events st) /\
  exists t1 t2, t = t1 ++ t2 /\ rans t1 = ids (events st) /\ rans t2 = [].
Proof.
  unfold turn. intros H [[W1 W2] [Hi W3]].
  destruct (sched st) eqn:Es; cbn [negb] in H.
  - cbn [good_cfg c_clears c_marks c_order] in H.
    match type of H with context [run_batch good_cfg ?s0 ?b] =>
      destruct (run_batch good_cfg s0 b) as [[st1 t1] ok] eqn:E; set (st0 := s0) in * end.
    apply run_batch_good in E as (B0 & B1 & B2 & B3 & B4 & B5). subst ok.
    assert (W0 : wfq st0) by (split; [reflexivity|]; intros C; exfalso; apply C; reflexivity).
    specialize (B4 W0). specialize (B5 eq_refl). cbn [st0 events in_turn ids map app] in B2, B3.
    assert (Hnf : Forall flush_ok t1).
    { eapply Forall_impl; [|exact B5]. intros e; destruct e; cbn; tauto. }
    unfold fire in H. cbn [good_cfg c_fire flushers] in H.
    match type of H with context [fire_while good_cfg ?fl ?s2] =>
      destruct (fire_while good_cfg fl s2) as [st2 t2] eqn:E2 end.
    injection H as <- <-.
    apply fire_while_good in E2 as (C1 & C2 & C3 & C4); [|exact B4|reflexivity].
    cbn [events] in C4.
    split; [exact C1|]. split; [apply Forall_app; split; assumption|].
    rewrite subs_app, rans_app, C3, app_nil_r, B1, C4, B2.
    split; [rewrite app_assoc; reflexivity|]. split.
    + unfold ids. rewrite <- (map_length sid (events st)). apply firstn_all.
    + exists t1, t2. auto.
  - injection H as <- <-.
    assert (He : events st = []).
    { destruct (events st) eqn:E; [reflexivity|]. assert (false = true) by (apply W2; discriminate). discriminate. }
    split; [unfold wft, wfq; rewrite Es; auto|]. split; [constructor|].
    rewrite He. cbn. split; [reflexivity|]. split; [reflexivity|]. exists [], []. auto.
Qed.

Lemma act_top_good st a st' t :
  do_act good_cfg None st a = (st', t) -> wft st ->
  wft st' /\ Forall flush_ok t /\ ids (events st) ++ subs t = rans t ++ ids (events st').
Proof.
  intros H (W & Hi & W3). pose proof H as H0.
  apply do_act_good in H as (A1 & A2 & A3 & A4 & A5 & A6 & A7).
  specialize (A4 W). specialize (A6 eq_refl). rewrite A1, A2. cbn [app].
  split; [|split; [exact A6|reflexivity]].
  split; [exact A4|]. split; [congruence|].
  destruct a as [s|fid cb]; cbn [do_act good_cfg c_guard] in H0.
  - injection H0 as <- _. destruct (enq1_good st s) as (_ & _ & F & _ & _). rewrite F. intros Hf. apply A7. auto.
  - rewrite Hi in H0. cbn [negb] in H0. rewrite andb_true_r in H0.
    destruct (is_nil (events st)) eqn:En.
    + apply notify_good in H0 as (_ & _ & _ & F & _ & _ & _). rewrite F. intros Hf. apply A7. auto.
    + injection H0 as <- _. cbn [set_flushers flushers sched]. intros _. destruct W as [_ W2]. apply W2.
      intros C; rewrite C in En; discriminate.
Qed.

Lemma step_good st o st' t :
  step good_cfg st o = (st', t) -> wft st ->
  wft st' /\ Forall flush_ok t /\ ids (events st) ++ subs t = rans t ++ ids (events st').
Proof.
  destruct o as [a|]; cbn [step]; intros H W.
  - eapply act_top_good; eassumption.
  - apply turn_good in H as (A & B & C & _); auto.
Qed.

Lemma run_good ops : forall st st' t,
  run good_cfg st ops = (st', t) -> wft st ->
  wft st' /\ Forall flush_ok t /\ ids (events st) ++ subs t = rans t ++ ids (events st').
Proof.
  induction ops as [|o ops IH]; intros st st' t; cbn [run].
  - intros H W; inversion H; subst. cbn. rewrite app_nil_r. split; [exact W|]. split; [constructor|reflexivity].
  - destruct (step good_cfg st o) as [st1 t1] eqn:E1. destruct (run good_cfg st1 ops) as [st2 t2] eqn:E2.
    intros H W; inversion H; subst; clear H.
    apply step_good in E1 as (A1 & A2 & A3); [|exact W].
    apply IH in E2 as (B1 & B2 & B3); [|exact A1].
    split; [exact B1|]. split; [apply Forall_app; split; assumption|].
    rewrite subs_app, rans_app, app_assoc, A3, <- !app_assoc, B3. reflexivity.
Qed.

Lemma wft_q0 : wft q0.
Proof. split; [split; [reflexivity|intros C; exfalso; apply C; reflexivity]|]. split; [reflexivity|]. intros C; exfalso; apply C; reflexivity. Qed.

(* ======================= property theorems ======================= *)

(* eventually(f) only records f: nothing runs, whatever the state and whoever calls it
   (top level or a callable of the running batch) *)
Theorem ev_never_sync : forall ctx st s,
  snd (do_act src_cfg ctx st (AEnq s)) = [Sub (sid s)] /\
  forall l, rans (snd (run_acts src_cfg ctx st l)) = [].
Proof.
  rewrite src_is_good. intros ctx st s. split; [reflexivity|].
  intros l. destruct (run_acts good_cfg ctx st l) as [st' t] eqn:E. apply run_acts_good in E. apply E.
Qed.

(* run order = submission order: at any moment the callables submitted so far (at top level or
   re-entrantly) are, in order, those already run followed by those still queued *)
Theorem ev_fifo : forall ops st t,
  run src_cfg q0 ops = (st, t) -> subs t = rans t ++ map sid (events st).
Proof.
  rewrite src_is_good. intros ops st t H. apply run_good in H as (_ & _ & H); [|exact wft_q0]. exact H.
Qed.

Corollary ev_exactly_once : forall ops st t,
  run src_cfg q0 ops = (st, t) -> events st = [] -> rans t = subs t.
Proof. intros ops st t H He. apply ev_fifo in H. rewrite He, app_nil_r in H. auto. Qed.

(* one turn runs exactly the callables queued when it started, in order, whether or not some
   of them raise; what they (or the flush callbacks served at the end of the turn) enqueue is
   left for a later turn *)
Theorem ev_isolation : forall ops st t st' t',
  run src_cfg q0 ops = (st, t) -> turn src_cfg st = (st', t') ->
  rans t' = map sid (events st) /\ map sid (events st') = subs t'.
Proof.
  rewrite src_is_good. intros ops st t st' t' H Ht.
  apply run_good in H as (W & _ & _); [|exact wft_q0].
  apply turn_good in Ht as (_ & _ & A & _ & (t1 & t2 & -> & B1 & B2)); [|exact W].
  rewrite rans_app, B1, B2, app_nil_r in *. split; [reflexivity|].
  apply app_inv_head in A. auto.
Qed.

(* work that is queued always has a reactor call pending, and so has a registered flush observer *)
Theorem ev_scheduled : forall ops st t,
  run src_cfg q0 ops = (st, t) ->
  (events st <> [] -> sched st = true) /\ (flushers st <> [] -> sched st = true) /\ in_turn st = false.
Proof.
  rewrite src_is_good. intros ops st t H. apply run_good in H as (((_ & W2) & Hi & W3) & _ & _); [|exact wft_q0].
  auto.
Qed.

(* the flush notification fires only when nothing is queued and no callable of a batch is running *)
Theorem ev_flush : forall ops st t,
  run src_cfg q0 ops = (st, t) -> Forall flush_ok t.
Proof.
  rewrite src_is_good. intros ops st t H. apply run_good in H as (_ & H & _); [|exact wft_q0]. exact H.
Qed.

(* D11, for the record: the guard `if not self._events` of the earlier code admits a notification
   while a later callable of the same batch has not run *)
Definition d11_witness : list op :=
  [OAct (AEnq (Sc 1 [AFlush 7 []] RNo)); OAct (AEnq (Sc 2 [] RNo)); OTurn].

Lemma ev_flush_old_guard_refuted :
  exists ops st t, run old_cfg q0 ops = (st, t) /\ In (FlushFired 7 1%nat true) t.
Proof. exists d11_witness. eexists. eexists. split; [vm_compute; reflexivity|]. cbn. auto. Qed.

Example d11_witness_now :
  snd (run src_cfg q0 d11_witness) = [Sub 1; Sub 2; Ran 1; Ran 2; FlushFired 7 0%nat false].
Proof. vm_compute. reflexivity. Qed.

(* the second repair, for the record: with `if not self._events: fire every observer` a later observer is
   notified although the callback of an earlier one has just enqueued work *)
Definition d17_witness : list op :=
  [OAct (AEnq (Sc 1 [] RNo)); OAct (AFlush 7 [Sc 2 [] RNo]); OAct (AFlush 8 []); OTurn].

Lemma ev_flush_old_loop_refuted :
  exists ops st t, run old2_cfg q0 ops = (st, t) /\ In (FlushFired 8 1%nat false) t.
Proof. exists d17_witness. eexists. eexists. split; [vm_compute; reflexivity|]. cbn. tauto. Qed.

Example d17_witness_now :
  snd (run src_cfg q0 (d17_witness ++ [OTurn])) =
  [Sub 1; Ran 1; FlushFired 7 0%nat false; Sub 2; Ran 2; FlushFired 8 0%nat false].
Proof. vm_compute. reflexivity. Qed.

(* non-vacuity: a program with re-entrant enqueueing, a raising callable and flushes *)
Example ev_example :
  let ops := [OAct (AEnq (Sc 1 [AEnq (Sc 3 [] RNo); AFlush 8 [Sc 4 [] RBase]] RExc)); OAct (AFlush 9 []);
              OAct (AEnq (Sc 2 [] RNo)); OTurn; OTurn; OTurn; OAct (AFlush 10 [])] in
  snd (run src_cfg q0 ops) =
    [Sub 1; Sub 2; Ran 1; Sub 3; Raised 1; Ran 2; Ran 3; FlushFired 9 0%nat false; FlushFired 8 0%nat false; Sub 4;
     Ran 4; Raised 4; FlushFired 10 0%nat false]
  /\ events (fst (run src_cfg q0 ops)) = [].
Proof. vm_compute. split; reflexivity. Qed.

(* `except Exception:` (seeded change C17-r2s1), for the record: a callable that raises a BaseException which is not
   an Exception ends the turn, and the callables queued behind it never run *)
Lemma ev_isolation_exc_only_refuted :
  let ops := [OAct (AEnq (Sc 1 [] RNo)); OAct (AEnq (Sc 2 [] RBase)); OAct (AEnq (Sc 3 [] RNo)); OTurn; OTurn] in
  rans (snd (run exc_only_cfg q0 ops)) = [1; 2] /\ in_turn (fst (run exc_only_cfg q0 ops)) = true.
Proof. vm_compute. split; reflexivity. Qed.

Example ev_isolation_base_now :
  let ops := [OAct (AEnq (Sc 1 [] RNo)); OAct (AEnq (Sc 2 [] RBase)); OAct (AEnq (Sc 3 [] RNo)); OTurn; OTurn] in
  snd (run src_cfg q0 ops) = [Sub 1; Sub 2; Sub 3; Ran 1; Ran 2; Raised 2; Ran 3].
Proof. vm_compute. reflexivity. Qed.
