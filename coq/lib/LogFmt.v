(* C18: executable model of log.format_message ("rendering an event to text never raises") over a universe of event
   dicts as a viewer may see them: keys that are text, utf-8 bytes, undecodable bytes or something else; values that
   are text, bytes (decodable or not), argument tuples / lists, or objects whose str() / repr() work or raise.
   Whether the key normalisation (ensure_dict_str_keys) runs outside the try and what the two `except` clauses select
   are TRANSLATED facts (gen/LogJsonGen.v); the try body and the fallback are matched literally by the generator.
   `pct` = "the % operator succeeds on the chosen format string and arguments" (an input: both outcomes are covered).
   Definitions only. *)
From Coq Require Import ZArith List Bool Lia.
Import ListNotations.
Require Import Verif.lib.PyLite Verif.gen.LogJsonGen Verif.lib.LogJson.
Local Open Scope Z_scope.

Inductive fkey := FKText (s : Z) | FKBytes (s : Z) (utf8 : bool) | FKOther.
Inductive fval := FVText (s : Z) | FVBytes (s : Z) (utf8 : bool) | FVArgs | FVObj (repr_ok : bool).

Definition N_format : Z := 1.
Definition N_message : Z := 2.
Definition N_args : Z := 3.

(* what the text is made of *)
Inductive fmsg := MText (s : Z) | MDecoded (s : Z) | MRepr | MUnprintable | MNoMessage.
Inductive fout := Formatted | Fallback (m : fmsg).

(* six.ensure_str on a key: text stays, utf-8 bytes are decoded (same name), anything else raises *)
Definition ensure_key (k : fkey) : res Z :=
  match k with
  | FKText s => Ok s
  | FKBytes s true => Ok s
  | FKBytes _ false => Raise EValueError          (* UnicodeDecodeError is a ValueError *)
  | FKOther => Raise ETypeError
  end.

Definition ensure_keys (e : list (fkey * fval)) : res (list (Z * fval)) :=
  map_res (fun kv : fkey * fval => match ensure_key (fst kv) with Ok s => Ok (s, snd kv) | Raise x => Raise x end) e.

(* the reader's dict: the last binding of a name wins *)
Fixpoint dget (s : Z) (e : list (Z * fval)) : option fval :=
  match e with
  | [] => None
  | (k, v) :: t => match dget s t with Some v' => Some v' | None => if s =? k then Some v else None end
  end.

Definition ensure_str_v (v : fval) : res unit :=
  match v with
  | FVText _ => Ok tt
  | FVBytes _ true => Ok tt
  | FVBytes _ false => Raise EValueError
  | _ => Raise ETypeError
  end.

Definition percent (pct : bool) : res fout := if pct then Ok Formatted else Raise EOther.

(* the body of the try *)
Definition try_part (pct : bool) (e : list (Z * fval)) : res fout :=
  match dget N_format e with
  | Some f => bind (ensure_str_v f) (fun _ => percent pct)
  | None =>
    match dget N_args e with
    | Some _ => match dget N_message e with
                | None => Raise EOther                                   (* assert "message" in e *)
                | Some m => bind (ensure_str_v m) (fun _ => percent pct)
                end
    | None =>
      match dget N_message e with
      | Some m => match m with
                  | FVText _ | FVBytes _ _ => bind (ensure_str_v m) (fun _ => Ok Formatted)
                  | _ => Raise EOther                                    (* assert isinstance(.., (bytes, str)) *)
                  end
      | None => Ok Formatted
      end
    end
  end.

(* the fallback: e.get('message', ..) / repr of a non-text message / decode with errors='replace' *)
Definition fallback_msg (e : list (Z * fval)) : fmsg :=
  match dget N_message e with
  | None => MNoMessage
  | Some (FVText s) => MText s
  | Some (FVBytes s _) => MDecoded s
  | Some FVArgs => MRepr
  | Some (FVObj ok) => if ok then MRepr else if catches fmt_inner_catch EOther then MUnprintable else MRepr
  end.

(* does the fallback itself raise?  only a failing repr(), and only if the inner `except` does not select it *)
Definition fallback_raises (e : list (Z * fval)) : bool :=
  match dget N_message e with
  | Some (FVObj false) => negb (catches fmt_inner_catch EOther)
  | _ => false
  end.

Definition guarded (pct : bool) (e : list (Z * fval)) : res fout :=
  match try_part pct e with
  | Ok o => Ok o
  | Raise x => if catches fmt_outer_catch x
               then (if fallback_raises e then Raise EOther else Ok (Fallback (fallback_msg e)))
               else Raise x
  end.

(* the fallback of a repaired tree (keys normalised inside the try) sees the original dict: text keys only *)
Definition raw_keys (e : list (fkey * fval)) : list (Z * fval) :=
  flat_map (fun kv : fkey * fval => match fst kv with FKText s => [(s, snd kv)] | _ => [] end) e.

Definition format_message (pct : bool) (e : list (fkey * fval)) : res fout :=
  match ensure_keys e with
  | Ok e' => guarded pct e'
  | Raise x =>
    if fmt_keys_outside_try then Raise x
    else if catches fmt_outer_catch x
         then (if fallback_raises (raw_keys e) then Raise EOther else Ok (Fallback (fallback_msg (raw_keys e))))
         else Raise x
  end.

Definition key_textlike (k : fkey) : bool := match k with FKText _ | FKBytes _ true => true | _ => false end.
Definition keys_textlike (e : list (fkey * fval)) : Prop := Forall (fun kv => key_textlike (fst kv) = true) e.
