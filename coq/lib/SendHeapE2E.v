(* C01 end to end over HEAPS: sender machine (slicer stack + reference tables) -> vocabulary abbreviation -> bytes ->
   any packetisation -> C07's tokenizer -> expansion -> receiver machine -> graph; the receiver's graph is isomorphic to
   the sender's: both have the same canonical term. *)
From Coq Require Import ZArith List String Bool Lia.
Import ListNotations.
Require Import Verif.lib.PyLite Verif.gen.BananaGen Verif.gen.SlicersGen Verif.lib.Token Verif.lib.TokenProofs
        Verif.lib.Obj Verif.lib.ObjProofs Verif.lib.ObjDefer Verif.lib.ObjDeferProofs Verif.lib.ObjChunks Verif.lib.ObjCanon
        Verif.lib.SendHeap Verif.lib.SendHeapProofs.
Local Open Scope Z_scope.

Lemma slice_list_no_err : forall ts n, forallb no_err (slice_list n ts) = true.
Proof. induction ts as [|t r IH]; intros n; [reflexivity|]. rewrite slice_list_cons, forallb_app, slice_no_err, IH. reflexivity. Qed.
Lemma slice_list_no_vocab : forall ts n, forallb no_vocab (slice_list n ts) = true.
Proof. induction ts as [|t r IH]; intros n; [reflexivity|]. rewrite slice_list_cons, forallb_app, slice_no_vocab, IH. reflexivity. Qed.
Lemma envocab_no_err tbl ts : forallb no_err ts = true -> forallb no_err (envocab tbl ts) = true.
Proof.
  induction ts as [|t r IH]; intros H; [reflexivity|]. cbn [forallb] in H. apply andb_true_iff in H as [H1 H2].
  cbn [envocab map forallb]. fold (envocab tbl r). rewrite (IH H2), andb_true_r.
  destruct t; try exact H1; try reflexivity. cbn [envocab1]. destruct (vfind bs tbl); reflexivity.
Qed.

(* the receiver's graph (rh, rv) and the sender's heap value(s) have the same canonical terms *)
Definition iso_to_sender (os : list obj) (n : Z) (rh : heap) (rv : list value) : Prop :=
  canon_list (size_list os) rh n rv = Some (os, n + opens_list os).

Lemma canon_list_inverts scoped n os v : wf_list_wide scoped [] [] n os = Some v ->
  canon_list (size_list os) (heap_list n os) n (vals_list n os) = Some (os, n + opens_list os).
Proof.
  intros W. apply (canon_list_inv os).
  - apply Forall_forall. intros x _. apply canon_inv.
  - apply (refs_lt_list_wf os (proj2 (Forall_forall _ _) (fun x _ => refs_below x)) false scoped [] [] n v W). intros k H. discriminate.
  - intros k nd E. exact E.
  - lia.
Qed.

(* FOR EVERY heap (any sharing, cycles, nested scopes), queue of top-level objects, vocabulary table with distinct indices
   and packetisation of the bytes: what the sender MACHINE emits is decoded, expanded and rebuilt by the receiver into a
   graph isomorphic to the sender's.  Side conditions: the canonical descent terminates (no cycle through pass-by-copy
   objects only), the canonical terms pass the guard (dict / Copyable shapes; not the known-defective region) and the
   tokens fit the wire format. *)
Theorem heap_end_to_end h scoped n q fuel os v fuel' toks tbl bs cs :
  canon_of fuel h scoped n q = Some os -> wf_list_wide scoped [] [] n os = Some v ->
  send_heap fuel' h scoped n q = Some toks ->
  NoDup (map snd tbl) -> forallb wf_token (envocab tbl toks) = true -> encode_stream (envocab tbl toks) = Ok bs ->
  List.concat cs = bs ->
  exists toks' rh rv, devocab tbl (tokens_of_chunks cs) = Some toks' /\ unslice scoped n toks' = Some (rh, rv) /\
                      iso_to_sender os n rh rv.
Proof.
  intros C W S ND WT E CC. subst bs.
  pose proof (send_heap_unique _ _ _ _ _ _ _ _ S C) as T. subst toks.
  exists (slice_list n os), (heap_list n os), (vals_list n os).
  rewrite (chunks_decode cs (envocab tbl (slice_list n os))).
  - split; [apply vocab_transparent; [exact ND|apply slice_list_no_vocab]|].
    split; [apply (slice_unslice_list_wide _ _ _ _ W)|apply (canon_list_inverts _ _ _ _ W)].
  - apply stream_roundtrip; assumption.
  - apply envocab_no_err. apply slice_list_no_err.
Qed.

(* the same through the Deferred-level receiver (partial correctness) *)
Theorem heap_end_to_end_deferred h scoped n q fuel os v fuel' toks tbl bs cs toks' r :
  canon_of fuel h scoped n q = Some os -> wf_list_wide scoped [] [] n os = Some v ->
  send_heap fuel' h scoped n q = Some toks ->
  NoDup (map snd tbl) -> forallb wf_token (envocab tbl toks) = true -> encode_stream (envocab tbl toks) = Ok bs ->
  List.concat cs = bs ->
  devocab tbl (tokens_of_chunks cs) = Some toks' -> dunslice scoped n toks' = Some r ->
  iso_to_sender os n (fst r) (snd r).
Proof.
  intros C W S ND WT E CC DV D. subst bs.
  pose proof (send_heap_unique _ _ _ _ _ _ _ _ S C) as T. subst toks.
  rewrite (chunks_decode cs (envocab tbl (slice_list n os))) in DV;
    [|apply stream_roundtrip; assumption|apply envocab_no_err; apply slice_list_no_err].
  rewrite (vocab_transparent tbl _ ND (slice_list_no_vocab os n)) in DV. inversion DV; subst toks'.
  rewrite (deferred_sound_list _ _ _ _ _ W D). cbn [fst snd]. apply (canon_list_inverts _ _ _ _ W).
Qed.

(* non-vacuity: L = [1]; T = (L, L); root = [T, L, T] in a storage Banana; heap ids are arbitrary *)
Example ex_heap :
  let h := [(70, {| sn_kind := CList; sn_items := [SObj 50; SObj 60; SObj 50] |});
            (50, {| sn_kind := CTuple; sn_items := [SObj 60; SObj 60] |});
            (60, {| sn_kind := CList; sn_items := [SInt 1; SObj 70] |})] in
  canon_of 10 h true 0 [SObj 70] = Some [OList [OTuple [OList [OInt 1; ORef 0]; ORef 2]; ORef 2; ORef 1]] /\
  send_heap 100 h true 0 [SObj 70] = Some (slice_list 0 [OList [OTuple [OList [OInt 1; ORef 0]; ORef 2]; ORef 2; ORef 1]]) /\
  wf_list_wide true [] [] 0 [OList [OTuple [OList [OInt 1; ORef 0]; ORef 2]; ORef 2; ORef 1]] = Some [2; 1; 0].
Proof. vm_compute. repeat split; reflexivity. Qed.
