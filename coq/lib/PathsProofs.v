(* C19 -- theorems about the path model: what FilePath.child (+ the parent() guard) lets through. *)
From Coq Require Import NArith List Bool Arith Lia.
Import ListNotations.
Require Import Verif.lib.UploadShape Verif.lib.Paths.
Local Open Scope N_scope.

(* ---------- strings ---------- *)
Lemma str_eqb_refl : forall s, str_eqb s s = true.
Proof. induction s as [|c s IH]; cbn [str_eqb]; [reflexivity|]. rewrite N.eqb_refl, IH. reflexivity. Qed.

Lemma str_eqb_eq : forall a b, str_eqb a b = true -> a = b.
Proof.
  induction a as [|x a IH]; destruct b as [|y b]; cbn [str_eqb]; intros H; try discriminate; [reflexivity|].
  apply andb_prop in H. destruct H as [H1 H2]. apply N.eqb_eq in H1. subst. f_equal. apply IH. exact H2.
Qed.

Lemma str_eqb_neq : forall a b, a <> b -> str_eqb a b = false.
Proof. intros a b H. destruct (str_eqb a b) eqn:E; [|reflexivity]. apply str_eqb_eq in E. contradiction. Qed.

Lemma prefixb_app : forall a b, prefixb a (a ++ b) = true.
Proof. induction a as [|x a IH]; intros b; cbn [prefixb app]; [reflexivity|]. rewrite N.eqb_refl, IH. reflexivity. Qed.

Lemma prefixb_refl : forall a, prefixb a a = true.
Proof. intros a. rewrite <- (app_nil_r a) at 2. apply prefixb_app. Qed.

Lemma prefixb_length : forall a b, prefixb a b = true -> (List.length a <= List.length b)%nat.
Proof.
  induction a as [|x a IH]; intros b H; cbn [List.length]; [lia|].
  destruct b as [|y b]; cbn [prefixb] in H; [discriminate|]. apply andb_prop in H. destruct H as [_ H].
  apply IH in H. cbn [List.length]. lia.
Qed.

(* ---------- components ---------- *)
Definition nosep (c : str) : Prop := has_sep c = false.

Lemma goodb_parts : forall c, goodb c = true ->
  is_nil c = false /\ has_sep c = false /\ is_dot c = false /\ is_dotdot c = false.
Proof.
  intros c H. unfold goodb in H.
  apply andb_prop in H. destruct H as [H H4]. apply andb_prop in H. destruct H as [H H3].
  apply andb_prop in H. destruct H as [H1 H2].
  apply negb_true_iff in H1, H2, H3, H4. auto.
Qed.

Lemma goodb_intro : forall c, is_nil c = false -> has_sep c = false -> is_dot c = false -> is_dotdot c = false -> goodb c = true.
Proof. intros c H1 H2 H3 H4. unfold goodb. rewrite H1, H2, H3, H4. reflexivity. Qed.

Lemma has_sep_app : forall a b, has_sep (a ++ b) = has_sep a || has_sep b.
Proof. intros. unfold has_sep. apply existsb_app. Qed.

Lemma has_sep_cons : forall c s, has_sep (c :: s) = is_sep c || has_sep s.
Proof. reflexivity. Qed.

(* ---------- split ---------- *)
Lemma split_nonnil : forall s, split s <> [].
Proof.
  induction s as [|c s IH]; cbn [split]; [discriminate|].
  destruct (is_sep c); [discriminate|]. destruct (split s); discriminate.
Qed.

Lemma split_app_sep : forall a b, split (a ++ sep :: b) = split a ++ split b.
Proof.
  induction a as [|c a IH]; intros b.
  - cbn [app split]. change (is_sep sep) with true. cbn. reflexivity.
  - cbn [app split]. destruct (is_sep c) eqn:E.
    + rewrite IH. reflexivity.
    + rewrite IH. destruct (split a) as [|h t] eqn:Ea; [exfalso; eapply split_nonnil; eauto|]. reflexivity.
Qed.

Lemma split_nosep : forall c, has_sep c = false -> split c = [c].
Proof.
  induction c as [|x c IH]; intros H; [reflexivity|].
  rewrite has_sep_cons in H. apply orb_false_iff in H. destruct H as [H1 H2].
  cbn [split]. rewrite H1, (IH H2). reflexivity.
Qed.

Lemma split_comp_path_of : forall cs c, has_sep c = false -> forallb goodb cs = true ->
  split (c ++ path_of cs) = c :: cs.
Proof.
  induction cs as [|c' cs IH]; intros c Hc Hcs.
  - cbn [path_of]. rewrite app_nil_r. apply split_nosep. exact Hc.
  - cbn [path_of]. cbn [forallb] in Hcs. apply andb_prop in Hcs. destruct Hcs as [Hg Hcs].
    rewrite split_app_sep, (split_nosep c Hc). cbn [app]. f_equal. apply IH; [|exact Hcs].
    apply goodb_parts in Hg. tauto.
Qed.

Lemma split_path_of : forall cs, forallb goodb cs = true -> split (path_of cs) = [] :: cs.
Proof.
  intros cs H. destruct cs as [|c cs]; [reflexivity|].
  cbn [path_of]. cbn [split]. change (is_sep sep) with true. cbn [forallb] in H. apply andb_prop in H. destruct H as [Hg H].
  f_equal. apply split_comp_path_of; [|exact H]. apply goodb_parts in Hg. tauto.
Qed.

Lemma path_of_app : forall a b, path_of (a ++ b) = path_of a ++ path_of b.
Proof. induction a as [|c a IH]; intros b; cbn [app path_of]; [reflexivity|]. rewrite IH, app_assoc. reflexivity. Qed.

Lemma sep_join : forall cs, cs <> [] -> sep :: join_sep cs = path_of cs.
Proof.
  induction cs as [|c cs IH]; intros H; [contradiction|].
  destruct cs as [|c' cs].
  - cbn. rewrite app_nil_r. reflexivity.
  - cbn [join_sep path_of]. cbn [join_sep path_of] in IH. rewrite <- IH; [reflexivity|discriminate].
Qed.

(* ---------- the normpath loop ---------- *)
Lemma norm_go_good : forall cs init stack rest, forallb goodb cs = true ->
  norm_go init stack (cs ++ rest) = norm_go init (rev cs ++ stack) rest.
Proof.
  induction cs as [|c cs IH]; intros init stack rest H; [reflexivity|].
  cbn [forallb] in H. apply andb_prop in H. destruct H as [Hg H].
  apply goodb_parts in Hg. destruct Hg as (H1 & _ & H3 & H4).
  cbn [app norm_go]. rewrite H1, H3, H4. cbn [orb negb].
  rewrite IH by exact H. cbn [rev]. rewrite <- app_assoc. reflexivity.
Qed.

(* a well-formed directory path: "/c1/.../cn", n >= 1, every ci a good component *)
Definition wf_comps (comps : list str) : Prop := comps <> [] /\ forallb goodb comps = true.
Definition wf_base (base : str) : Prop := exists comps, wf_comps comps /\ base = path_of comps.

Lemma wf_head : forall comps, wf_comps comps ->
  exists a c1 cs, comps = (a :: c1) :: cs /\ is_sep a = false.
Proof.
  intros comps [Hn Hg]. destruct comps as [|c cs]; [contradiction|].
  cbn [forallb] in Hg. apply andb_prop in Hg. destruct Hg as [Hg _]. apply goodb_parts in Hg.
  destruct Hg as (H1 & H2 & _). destruct c as [|a c1]; [discriminate|].
  rewrite has_sep_cons in H2. apply orb_false_iff in H2. exists a, c1, cs. tauto.
Qed.

Lemma wf_last : forall comps, wf_comps comps ->
  exists cs cl, comps = cs ++ [cl] /\ goodb cl = true /\ forallb goodb cs = true.
Proof.
  intros comps [Hn Hg]. destruct (exists_last Hn) as (cs & cl & E). subst comps.
  rewrite forallb_app in Hg. apply andb_prop in Hg. destruct Hg as [Hcs Hcl]. cbn [forallb] in Hcl.
  rewrite andb_true_r in Hcl. eauto.
Qed.

Lemma initial_slashes_base : forall comps rest, wf_comps comps -> initial_slashes (path_of comps ++ rest) = 1%nat.
Proof.
  intros comps rest H. destruct (wf_head comps H) as (a & c1 & cs & E & Ha). subst comps.
  cbn [path_of app initial_slashes]. change (is_sep sep) with true. cbn match. rewrite Ha. reflexivity.
Qed.

Lemma norm_comps_base : forall comps x, wf_comps comps -> has_sep x = false ->
  norm_go true [] (split (path_of comps ++ sep :: x)) = norm_go true (rev comps) [x].
Proof.
  intros comps x [Hn Hg] Hx.
  rewrite split_app_sep, (split_path_of comps Hg), (split_nosep x Hx).
  cbn [app norm_go is_nil orb]. rewrite norm_go_good by exact Hg. rewrite app_nil_r. reflexivity.
Qed.

Lemma normpath_unfold_base : forall comps x, wf_comps comps -> has_sep x = false ->
  normpath (path_of comps ++ sep :: x) =
    let r := sep :: join_sep (norm_go true (rev comps) [x]) in r.
Proof.
  intros comps x H Hx. unfold normpath.
  destruct (wf_head comps H) as (a & c1 & cs & E & Ha).
  assert (Hnil : is_nil (path_of comps ++ sep :: x) = false) by (subst comps; reflexivity).
  rewrite Hnil. cbv zeta. rewrite (initial_slashes_base comps _ H). change (negb (Nat.eqb 1 0)) with true.
  rewrite (norm_comps_base comps x H Hx). reflexivity.
Qed.

(* the three behaviours of normpath(base + "/" + x) for a separator-free x *)
Lemma normpath_base_skip : forall comps x, wf_comps comps -> has_sep x = false ->
  is_nil x || is_dot x = true -> normpath (path_of comps ++ sep :: x) = path_of comps.
Proof.
  intros comps x H Hx Hs. rewrite (normpath_unfold_base comps x H Hx). cbn zeta.
  cbn [norm_go]. rewrite Hs. rewrite rev_involutive. apply sep_join. apply H.
Qed.

Lemma normpath_base_good : forall comps x, wf_comps comps -> goodb x = true ->
  normpath (path_of comps ++ sep :: x) = path_of comps ++ sep :: x.
Proof.
  intros comps x H Hg. pose proof (goodb_parts x Hg) as (H1 & H2 & H3 & H4).
  rewrite (normpath_unfold_base comps x H H2). cbn zeta.
  cbn [norm_go]. rewrite H1, H3, H4. cbn [orb negb]. cbn [rev]. rewrite rev_involutive.
  rewrite sep_join by (destruct comps; discriminate).
  rewrite path_of_app. cbn [path_of]. rewrite app_nil_r. reflexivity.
Qed.

Lemma normpath_base_dotdot : forall cs cl x, wf_comps (cs ++ [cl]) -> is_dotdot x = true ->
  normpath (path_of (cs ++ [cl]) ++ sep :: x) = sep :: join_sep cs.
Proof.
  intros cs cl x H Hd.
  assert (Ex : x = [dot; dot]) by (apply str_eqb_eq; exact Hd). subst x.
  rewrite (normpath_unfold_base _ _ H) by reflexivity. cbn zeta.
  destruct (wf_last _ H) as (cs' & cl' & E & Hcl & Hcs). apply app_inj_tail in E. destruct E; subst cs' cl'.
  rewrite rev_app_distr. cbn [rev app].
  apply goodb_parts in Hcl. destruct Hcl as (_ & _ & _ & Hdd).
  cbn [norm_go]. change (is_nil [dot; dot]) with false. change (is_dot [dot; dot]) with false.
  change (is_dotdot [dot; dot]) with true. rewrite Hdd. cbn [orb negb andb]. rewrite rev_involutive. reflexivity.
Qed.

(* ---------- join / abspath ---------- *)
Lemma last_nosep : forall c, c <> [] -> has_sep c = false -> is_sep (last c 0) = false.
Proof.
  induction c as [|x c IH]; intros Hn H; [contradiction|].
  rewrite has_sep_cons in H. apply orb_false_iff in H. destruct H as [H1 H2].
  destruct c as [|y c]; [exact H1|]. change (last (x :: y :: c) 0) with (last (y :: c) 0). apply IH; [discriminate|exact H2].
Qed.

Lemma last_app_nonnil : forall (a b : str) d, b <> [] -> last (a ++ b) d = last b d.
Proof.
  induction a as [|x a IH]; intros b d H; [reflexivity|].
  cbn [app]. destruct (a ++ b) eqn:E.
  - apply app_eq_nil in E. destruct E. contradiction.
  - rewrite <- E. cbn [last]. rewrite E. rewrite <- E. apply IH. exact H.
Qed.

Lemma base_not_ends_with_sep : forall comps, wf_comps comps -> ends_with_sep (path_of comps) = false.
Proof.
  intros comps H. destruct (wf_last _ H) as (cs & cl & E & Hcl & _). subst comps.
  apply goodb_parts in Hcl. destruct Hcl as (H1 & H2 & _).
  unfold ends_with_sep. rewrite path_of_app. cbn [path_of]. rewrite app_nil_r.
  assert (Hn : cl <> []) by (destruct cl; [discriminate|discriminate]).
  rewrite last_app_nonnil by discriminate.
  change (sep :: cl) with ([sep] ++ cl). rewrite last_app_nonnil by exact Hn. apply last_nosep; assumption.
Qed.

Lemma join_base : forall comps x, wf_comps comps -> has_sep x = false ->
  join (path_of comps) x = path_of comps ++ sep :: x.
Proof.
  intros comps x H Hx. unfold join.
  assert (Ha : isabs x = false).
  { destruct x as [|c x]; [reflexivity|]. rewrite has_sep_cons in Hx. apply orb_false_iff in Hx. apply Hx. }
  rewrite Ha, (base_not_ends_with_sep comps H).
  destruct (wf_head comps H) as (a & c1 & cs & E & _). subst comps. reflexivity.
Qed.

Lemma abspath_base : forall cwd comps rest, wf_comps comps -> abspath cwd (path_of comps ++ rest) = normpath (path_of comps ++ rest).
Proof.
  intros cwd comps rest H. unfold abspath.
  destruct (wf_head comps H) as (a & c1 & cs & E & _). subst comps. reflexivity.
Qed.

Lemma path_of_length_app : forall cs cl, goodb cl = true ->
  (List.length (sep :: join_sep cs) < List.length (path_of (cs ++ [cl])))%nat.
Proof.
  intros cs cl Hg. apply goodb_parts in Hg. destruct Hg as (H1 & _).
  destruct cl as [|a cl]; [discriminate|].
  rewrite path_of_app. cbn [path_of]. rewrite app_nil_r, app_length.
  destruct cs as [|c cs].
  - cbn. lia.
  - rewrite sep_join by discriminate. cbn [List.length]. lia.
Qed.

(* ---------- FilePath.child ---------- *)
(* child either refuses, or returns the directory itself (name normalises to "."), or base/<one good component>,
   that component being normpath(name) *)
Theorem child_spec : forall cwd base name p, wf_base base -> child cwd base name = Some p ->
  (p = base /\ goodb (normpath name) = false) \/
  (goodb (normpath name) = true /\ p = base ++ sep :: normpath name).
Proof.
  intros cwd base name p (comps & Hwf & Eb) H. subst base. unfold child in H.
  set (norm := normpath name) in *.
  destruct (has_sep norm) eqn:Hs; [discriminate|].
  rewrite (join_base comps norm Hwf Hs), (abspath_base cwd comps _ Hwf) in H.
  destruct (is_nil norm || is_dot norm) eqn:Hskip.
  - rewrite (normpath_base_skip comps norm Hwf Hs Hskip), prefixb_refl in H. injection H as <-.
    left. split; [reflexivity|]. unfold goodb. apply orb_true_iff in Hskip. destruct Hskip as [E|E]; rewrite E; cbn; [reflexivity|].
    rewrite andb_false_r. reflexivity.
  - apply orb_false_iff in Hskip. destruct Hskip as [Hn Hd].
    destruct (is_dotdot norm) eqn:Hdd.
    + exfalso. destruct (wf_last _ Hwf) as (cs & cl & E & Hcl & _). subst comps.
      rewrite (normpath_base_dotdot cs cl norm Hwf Hdd) in H.
      destruct (prefixb (path_of (cs ++ [cl])) (sep :: join_sep cs)) eqn:Hp; [|discriminate].
      apply prefixb_length in Hp. pose proof (path_of_length_app cs cl Hcl). lia.
    + assert (Hg : goodb norm = true) by (apply goodb_intro; assumption).
      rewrite (normpath_base_good comps norm Hwf Hg), prefixb_app in H. injection H as <-.
      right. split; [exact Hg|reflexivity].
Qed.

(* ---------- dirname / basename ---------- *)
Lemma dropwhile_app_all : forall f a b, forallb f a = true -> dropwhile f (a ++ b) = dropwhile f b.
Proof.
  induction a as [|x a IH]; intros b H; [reflexivity|].
  cbn [forallb] in H. apply andb_prop in H. destruct H as [H1 H2]. cbn [app dropwhile]. rewrite H1. apply IH. exact H2.
Qed.

Lemma takewhile_app_all : forall f a x b, forallb f a = true -> f x = false -> takewhile f (a ++ x :: b) = a.
Proof.
  induction a as [|y a IH]; intros x b H Hx.
  - cbn [app takewhile]. rewrite Hx. reflexivity.
  - cbn [forallb] in H. apply andb_prop in H. destruct H as [H1 H2]. cbn [app takewhile]. rewrite H1. f_equal. apply IH; assumption.
Qed.

Lemma nosep_forallb_rev : forall c, has_sep c = false -> forallb (fun x => negb (is_sep x)) (rev c) = true.
Proof.
  intros c H. apply forallb_forall. intros x Hin. apply in_rev in Hin.
  destruct (is_sep x) eqn:E; [|reflexivity]. exfalso.
  assert (has_sep c = true) by (apply existsb_exists; eauto). congruence.
Qed.

Lemma basename_app : forall x c, has_sep c = false -> basename (x ++ sep :: c) = c.
Proof.
  intros x c H. unfold basename. rewrite rev_app_distr. cbn [rev]. rewrite <- app_assoc. cbn [app].
  rewrite takewhile_app_all; [apply rev_involutive|apply nosep_forallb_rev; exact H|reflexivity].
Qed.

Lemma dirname_head : forall x c, has_sep c = false ->
  dirname (x ++ sep :: c) =
    if forallb is_sep (x ++ [sep]) then x ++ [sep] else rev (dropwhile is_sep (rev (x ++ [sep]))).
Proof.
  intros x c H. unfold dirname. rewrite rev_app_distr. cbn [rev]. rewrite <- app_assoc. cbn [app].
  rewrite dropwhile_app_all by (apply nosep_forallb_rev; exact H).
  cbn [dropwhile]. change (negb (is_sep sep)) with false. cbn match.
  cbn [rev]. rewrite rev_involutive. reflexivity.
Qed.

Lemma dirname_base_child : forall comps c, wf_comps comps -> has_sep c = false ->
  dirname (path_of comps ++ sep :: c) = path_of comps.
Proof.
  intros comps c H Hc. rewrite (dirname_head _ c Hc).
  destruct (wf_head comps H) as (a & c1 & cs & E & Ha).
  assert (Hf : forallb is_sep (path_of comps ++ [sep]) = false).
  { subst comps. cbn [path_of app forallb]. rewrite Ha. rewrite andb_false_r. reflexivity. }
  rewrite Hf. rewrite rev_app_distr. cbn [rev app dropwhile]. change (is_sep sep) with true. cbn match.
  pose proof (base_not_ends_with_sep comps H) as He. unfold ends_with_sep in He.
  assert (Hn : path_of comps <> []) by (subst comps; discriminate).
  destruct (exists_last Hn) as (pre & l & El). rewrite El in *.
  rewrite last_app_nonnil in He by discriminate. cbn [last] in He.
  rewrite rev_app_distr. cbn [rev app dropwhile]. rewrite He.
  change (l :: rev pre) with (rev [l] ++ rev pre). rewrite <- rev_app_distr. apply rev_involutive.
Qed.

Lemma dirname_base_itself : forall comps, wf_comps comps -> str_eqb (dirname (path_of comps)) (path_of comps) = false.
Proof.
  intros comps H. destruct (wf_last _ H) as (cs & cl & E & Hcl & Hcs). subst comps.
  pose proof (goodb_parts cl Hcl) as (H1 & H2 & _).
  apply str_eqb_neq. intros Heq.
  assert (Hlen : List.length (dirname (path_of (cs ++ [cl]))) = List.length (path_of (cs ++ [cl]))) by (rewrite Heq; reflexivity).
  pose proof (path_of_length_app cs cl Hcl) as Hlt.
  rewrite path_of_app in Hlen. cbn [path_of] in Hlen. rewrite app_nil_r in Hlen.
  destruct cs as [|c0 cs].
  - cbn [path_of app] in Hlen. change (sep :: cl) with ([] ++ sep :: cl) in Hlen at 1.
    rewrite (dirname_head [] cl H2) in Hlen. cbn in Hlen. destruct cl; [discriminate|]. cbn in Hlen. lia.
  - assert (Hw : wf_comps (c0 :: cs)) by (split; [discriminate|exact Hcs]).
    rewrite (dirname_base_child (c0 :: cs) cl Hw H2) in Hlen.
    rewrite path_of_app in Hlt. cbn [path_of] in Hlt. rewrite app_nil_r in Hlt.
    rewrite sep_join in Hlt by discriminate. rewrite app_length in *. cbn [List.length] in *. lia.
Qed.

(* ---------- child + parent() guard ---------- *)
(* directly inside base: base + "/" + one good component *)
Definition inside (base q : str) : Prop := exists c, goodb c = true /\ q = base ++ sep :: c.

Theorem guarded_spec : forall cwd base name p, wf_base base ->
  guarded GuardParentEq cwd base name = Some p ->
  goodb (normpath name) = true /\ p = base ++ sep :: normpath name /\
  dirname p = base /\ basename p = normpath name.
Proof.
  intros cwd base name p Hb H. unfold guarded in H.
  destruct (child cwd base name) as [q|] eqn:Hc; [|discriminate].
  destruct (child_spec cwd base name q Hb Hc) as [[Eq _]|[Hg Eq]]; destruct Hb as (comps & Hwf & Eb); subst base q.
  - rewrite (dirname_base_itself comps Hwf) in H. discriminate.
  - pose proof (goodb_parts _ Hg) as (_ & Hs & _).
    rewrite (dirname_base_child comps _ Hwf Hs), str_eqb_refl in H. injection H as <-.
    split; [exact Hg|]. split; [reflexivity|]. split; [apply dirname_base_child; assumption|apply basename_app; exact Hs].
Qed.

Corollary guarded_inside : forall cwd base name p, wf_base base ->
  guarded GuardParentEq cwd base name = Some p -> inside base p.
Proof. intros cwd base name p Hb H. destruct (guarded_spec _ _ _ _ Hb H) as (Hg & E & _). exists (normpath name). auto. Qed.

(* without the guard the directory itself gets through (D13 and its twins) *)
Theorem unguarded_lets_directory_through : forall cwd base, wf_base base -> guarded NoGuard cwd base [] = Some base.
Proof.
  intros cwd base (comps & Hwf & Eb). subst base. unfold guarded, child.
  change (normpath []) with [dot]. change (has_sep [dot]) with false. cbn match.
  rewrite (join_base comps [dot] Hwf) by reflexivity. rewrite (abspath_base cwd comps _ Hwf).
  rewrite (normpath_base_skip comps [dot] Hwf) by reflexivity. rewrite prefixb_refl. reflexivity.
Qed.

(* honest names are not refused, and land under their own name *)
Lemma normpath_good : forall c, goodb c = true -> normpath c = c.
Proof.
  intros c Hg. pose proof (goodb_parts c Hg) as (H1 & H2 & H3 & H4). unfold normpath. rewrite H1.
  destruct c as [|a c]; [discriminate|]. rewrite has_sep_cons in H2. apply orb_false_iff in H2. destruct H2 as [Ha H2].
  assert (Hi : initial_slashes (a :: c) = 0%nat) by (cbn [initial_slashes]; rewrite Ha; reflexivity).
  rewrite Hi. rewrite split_nosep by (rewrite has_sep_cons, Ha, H2; reflexivity).
  cbn [norm_go]. rewrite H1, H3, H4. cbn. reflexivity.
Qed.

Theorem guarded_accepts_good : forall g cwd base c, wf_base base -> goodb c = true ->
  guarded g cwd base c = Some (base ++ sep :: c).
Proof.
  intros g cwd base c (comps & Hwf & Eb) Hg. subst base. unfold guarded, child. rewrite (normpath_good c Hg).
  pose proof (goodb_parts c Hg) as (_ & Hs & _). rewrite Hs.
  rewrite (join_base comps c Hwf Hs), (abspath_base cwd comps _ Hwf), (normpath_base_good comps c Hwf Hg), prefixb_app.
  destruct g; [|reflexivity]. rewrite (dirname_base_child comps c Hwf Hs), str_eqb_refl. reflexivity.
Qed.

(* a good component stays good when an extension without separator (length >= 2) is appended *)
Lemma goodb_ext : forall c ext, goodb c = true -> has_sep ext = false -> (2 <= List.length ext)%nat -> goodb (c ++ ext) = true.
Proof.
  intros c ext Hg Hs Hl. pose proof (goodb_parts c Hg) as (H1 & H2 & _).
  destruct c as [|a c]; [discriminate|].
  destruct ext as [|e1 [|e2 ext]]; cbn [List.length] in Hl; try lia.
  apply goodb_intro.
  - reflexivity.
  - rewrite has_sep_app, H2, Hs. reflexivity.
  - unfold is_dot. cbn [app str_eqb]. destruct c; cbn [app str_eqb]; rewrite ?andb_false_r; reflexivity.
  - unfold is_dotdot. cbn [app str_eqb]. destruct c as [|b c]; cbn [app str_eqb]; rewrite ?andb_false_r; [reflexivity|].
    destruct c; cbn [app str_eqb]; rewrite ?andb_false_r; reflexivity.
Qed.

Lemma inside_ext : forall base p ext, inside base p -> has_sep ext = false -> (2 <= List.length ext)%nat -> inside base (p ++ ext).
Proof.
  intros base p ext (c & Hg & E) Hs Hl. subst p. exists (c ++ ext). split; [apply goodb_ext; assumption|].
  rewrite <- app_assoc. reflexivity.
Qed.

Lemma ext_neq : forall (p ext : str), ext <> [] -> p ++ ext <> p.
Proof.
  intros p ext Hn E. assert (H : List.length (p ++ ext) = List.length p) by (rewrite E; reflexivity).
  rewrite app_length in H. destruct ext; [contradiction|]. cbn [List.length] in H. lia.
Qed.

(* non-vacuity *)
Example wf_example : wf_base [47; 115; 114; 118; 47; 117; 112].   (* "/srv/up" *)
Proof. exists [[115; 114; 118]; [117; 112]]. split; [split; [discriminate|reflexivity]|reflexivity]. Qed.
Example child_examples :
  let base := [47; 115; 114; 118; 47; 117; 112] in
  guarded GuardParentEq [47] base [97; 47; 46; 46; 47; 98] = Some (base ++ [47; 98]) /\      (* "a/../b" -> base/b *)
  guarded GuardParentEq [47] base [] = None /\ guarded GuardParentEq [47] base [46] = None /\
  guarded GuardParentEq [47] base [46; 46] = None /\ guarded GuardParentEq [47] base [97; 47; 98] = None /\
  guarded NoGuard [47] base [97; 47; 46; 46] = Some base.
Proof. vm_compute. repeat split. Qed.
