(* C06, second layer.  No proofs in this file.

   Part T: the dispatcher for inbound calls ASSEMBLED FROM THE TRANSLATED SOURCE (gen/ReachDispGen.v: getMyReferenceByCLID,
   CallUnslicer.receiveChild stages 1 and 2, Broker._doCall, Referenceable.doRemoteCall, YourReferenceUnslicer.receiveClose,
   Broker.remote_decref -- each a Gallina term produced statement by statement from the Python body on every run).
   lib/ReachDeepProofs.v proves  step_T = step  for all inputs (on states whose tables are well-kinded, which all
   reachable states are), so the theorems of props/C06.v about lib/Reach.v are theorems about the translated code.

   Part X: what Part T and lib/Reach.v leave out of an inbound call: my-reference and their-reference ARGUMENTS, the
   values the entered method receives, the per-connection table of proxies (Broker.yourReferenceByCLID) and the dial
   requests a gift makes the Tub issue. *)
From Coq Require Import ZArith List String Bool Lia Ascii NArith.
Import ListNotations.
Require Import Verif.lib.PyLite Verif.gen.ReachGen Verif.gen.ReachDispGen Verif.lib.Reach.
Local Open Scope Z_scope.

(* ------------------------------------------------------------------ Part T *)
Definition tok_of (m : mname) : mtoken := match m with MStr s => TokStr s | MBad => TokBad end.

(* An exception raised while the call sequence is being PARSED (receiveChild / receiveClose run inside Banana.handleData):
   a Violation fails that request (reportViolation -> callFailed), anything else drops the connection.
   An exception raised by _doCall runs inside the delivery's Deferred chain: the request fails. *)
Definition parse_refusal (e : exn) : outcome := match e with EViolation => Reject | _ => Aborted end.
Definition arg_refusal (e : exn) : refusal := match e with EViolation => RejectR | _ => AbortR end.

Definition target_iface (w : world) (t : target) : option (list string) :=
  match t with TBroker => Some broker_methods | TObj o => o_iface (w_obj w o) end.
(* callable(obj): a bound method / function, or an instance whose class defines __call__ *)
Definition is_callable_T (w : world) (t : target) : bool :=
  match t with
  | TBroker => false
  | TObj o => match o_kind (w_obj w o) with KCallable => true | KObj => mem_str "__call__" (o_attrs (w_obj w o)) end
  end.
(* ipb.IRemotelyCallable(obj): Referenceables provide it; bound methods have no adapter (TypeError) *)
Definition adaptable_T (w : world) (t : target) : bool :=
  match t with TBroker => true | TObj o => match o_kind (w_obj w o) with KObj => true | KCallable => false end end.

Fixpoint do_args_T (copy : list (string * Z)) (ex : list (Z * (Z * Z))) (args : list arg) (inst : list Z) : argres :=
  match args with
  | [] => ArgsOk inst
  | a :: r =>
    match a with
    | AInt _ | ABytes _ => do_args_T copy ex r inst
    | AYourRef k =>
      if (k <? 0) && negb yourref_accepts_neg then ArgsFail inst AbortR      (* checkToken: NEG is a BananaError *)
      else match gen_yourref_close (gen_get_my_reference ex) (Some k) with
           | XOk _ => do_args_T copy ex r inst
           | XRaise e => ArgsFail inst (arg_refusal e)
           end
    | ACopyable n =>
      match sget n copy with
      | Some c => do_args_T copy ex r (inst ++ [c])
      | None => ArgsFail inst copyable_unknown
      end
    | AOpen t => if mem_type [t] open_types then do_args_T copy ex r inst else ArgsFail inst open_unknown
    end
  end.

(* what the action _doCall decided on finally enters *)
Definition perform (w : world) (r : xres (target * action)) : outcome :=
  match r with
  | XRaise _ => Reject
  | XOk (TBroker, _) => Reject                       (* clid 0 is dispatched by broker_call, never here *)
  | XOk (TObj o, ACallObject) =>
    match o_kind (w_obj w o) with KCallable => Enter (ECallable o) | KObj => Enter (EObj o "__call__") end
  | XOk (TObj o, ADoRemoteCall m) =>
    match gen_doremotecall (o_attrs (w_obj w o)) m with XOk a => Enter (EObj o a) | XRaise _ => Reject end
  end.

Definition obj_call_T (w : world) (copy : list (string * Z)) (cn : conn) (clid : Z) (m : mname) (args : list arg)
  : list Z * outcome :=
  match gen_stage1 (gen_get_my_reference (c_exports cn)) (target_iface w) clid with
  | XRaise e => ([], parse_refusal e)
  | XOk (objID, obj, interface, _) =>
    (* application callables carry no methodSchema; the interfaces of the fixture are unconstrained (schemas: C02) *)
    match gen_stage2 objID interface (tok_of m) broker_require_schema None with
    | XRaise e => ([], parse_refusal e)
    | XOk (_, methodname, schema) =>
      match do_args_T copy (c_exports cn) args [] with
      | ArgsFail inst r => (inst, refuse r)
      | ArgsOk inst => (inst, perform w (gen_docall obj methodname schema true (is_callable_T w) (adaptable_T w)))
      end
    end
  end.

(* Broker.myReferenceByPUID as it is determined by myReferenceByCLID (both hold the same trackers; puid = the object) *)
Definition puid_table (ex : list (Z * (Z * Z))) : list (Z * (Z * Z)) := map (fun e => (fst (snd e), snd e)) ex.
Definition decref_T (cn : conn) (k n : Z) : conn :=
  match gen_remote_decref tracker_decref (c_exports cn) (puid_table (c_exports cn)) k n with
  | XOk (byclid, _) => {| c_alive := c_alive cn; c_exports := byclid; c_next := c_next cn |}
  | XRaise _ => cn
  end.

(* Tub._assignName / Tub.getReferenceForName, translated (the harness's Tubs have location hints) *)
Definition assign_name_T (st : state) (o : Z) (pref sw : string) : state :=
  match gen_assign_name true (s_n2r st) (s_r2n st) o pref sw with
  | XOk (_, n2r, r2n) => set_names st n2r r2n
  | XRaise _ => st
  end.
Definition found_name_T (w : world) (st : state) (n : string) : option (Z * state) :=
  match gen_get_reference_for_name (s_n2r st) (s_r2n st) (s_h st) n with
  | XOk (o, n2r, r2n) => Some (o, set_names st n2r r2n)
  | XRaise _ => None
  end.

Definition step_T (w : world) (st : state) (e : event) : state * result :=
  match e with
  | Register n o sw => (assign_name_T st o n sw, res0 Local)
  | Msg c req clid m args =>
    let cn := get_conn st c in
    if negb (c_alive cn) then (st, res0 Dead)
    else if clid =? broker_clid then
      let '(out, fx) := broker_call m args in
      match fx with
      | FxDecref k n => (set_conn st c (decref_T cn k n), res0 out)
      | FxLookup nm =>
        match found_name_T w st nm with
        | None => (st, res0 out)
        | Some (o, st0) =>
          if req =? 0 then (st0, res0 out)
          else let '(st', sent) := grant w st0 c o "" in (st', {| r_inst := []; r_out := out; r_sent := sent |})
        end
      | _ => step w st e
      end
    else
      let '(inst, out) := obj_call_T (eff w (s_decl st)) (s_copy st) cn clid m args in
      (match out with Aborted => set_conn st c (drop_conn cn) | _ => st end,
       {| r_inst := inst; r_out := out; r_sent := [] |})
  | _ => step w st e
  end.

Fixpoint run_T (w : world) (st : state) (h : list event) : state * list result :=
  match h with
  | [] => (st, [])
  | e :: r => let '(st1, x) := step_T w st e in let '(st2, xs) := run_T w st1 r in (st2, x :: xs)
  end.

(* tables are well-kinded: negative ids denote callables, positive ids Referenceables *)
Definition kinds_ok (w : world) (cn : conn) : Prop :=
  forall k o rc, In (k, (o, rc)) (c_exports cn) ->
    (k < 0 -> o_kind (w_obj w o) = KCallable) /\ (0 <= k -> o_kind (w_obj w o) = KObj).

(* ------------------------------------------------------------------ Part X *)
Inductive gifturl :=
| UForeign                                     (* a FURL of some other Tub *)
| UOwn (n : string).                           (* a FURL of THIS Tub, name n *)
Inductive xarg :=
| XA (a : arg)
| XMyRef (k : Z)                               (* (my-reference k): the PEER's object number k (any integer) *)
| XTheirRef (g : Z) (u : gifturl) (ok : bool). (* (their-reference g url); ok: the dial it causes succeeds (environment) *)

(* what the entered method receives in that argument position *)
Inductive argval :=
| VData                                        (* plain data *)
| VBrokerSelf                                  (* (your-reference 0): the Broker object of this connection *)
| VLocal (o : Z)                               (* a local object: only from a your-reference this connection resolves *)
| VCopy (cls : Z)                              (* a fresh instance of a registered pass-by-copy class *)
| VProxy (k : Z)                               (* a RemoteReference of THIS connection's Broker for the peer's object k *)
| VGift.                                       (* the RemoteReference the dial produced (never a local object) *)

Record xacc := { x_inst : list Z; x_argv : list argval; x_yours : list Z; x_dial : list (Z * gifturl); x_gifts_ok : bool }.
Definition xacc0 : xacc := {| x_inst := []; x_argv := []; x_yours := []; x_dial := []; x_gifts_ok := true |}.
Inductive xargres := XArgsOk (a : xacc) | XArgsFail (a : xacc) (r : refusal).

Definition val_of (ex : list (Z * (Z * Z))) (a : arg) (inst : list Z) : argval :=
  match a with
  | AInt _ | ABytes _ | AOpen _ => VData
  | AYourRef k => if k =? broker_clid then VBrokerSelf else match zget k ex with Some (o, _) => VLocal o | None => VData end
  | ACopyable _ => match inst with c :: _ => VCopy c | [] => VData end
  end.

(* arguments are unsliced left to right.  A my-reference never fails: Broker.getTrackerForYourReference finds or creates a
   RemoteReferenceTracker in this connection's yourReferenceByCLID.  A their-reference never fails while it is parsed: it makes
   the Tub dial (Tub.getReference(url)) when gifts are accepted, and the delivery waits for the result. *)
Fixpoint xdo_args (accept_gifts : bool) (copy : list (string * Z)) (ex : list (Z * (Z * Z))) (xs : list xarg) (acc : xacc) : xargres :=
  match xs with
  | [] => XArgsOk acc
  | XA a :: r =>
    match do_args_T copy ex [a] [] with
    | ArgsOk i => xdo_args accept_gifts copy ex r
                    {| x_inst := x_inst acc ++ i; x_argv := x_argv acc ++ [val_of ex a i]; x_yours := x_yours acc;
                       x_dial := x_dial acc; x_gifts_ok := x_gifts_ok acc |}
    | ArgsFail i rf => XArgsFail {| x_inst := x_inst acc ++ i; x_argv := x_argv acc; x_yours := x_yours acc;
                                    x_dial := x_dial acc; x_gifts_ok := x_gifts_ok acc |} rf
    end
  | XMyRef k :: r =>
    xdo_args accept_gifts copy ex r
      {| x_inst := x_inst acc; x_argv := x_argv acc ++ [VProxy k]; x_yours := x_yours acc ++ [k];
         x_dial := x_dial acc; x_gifts_ok := x_gifts_ok acc |}
  | XTheirRef g u ok :: r =>
    xdo_args accept_gifts copy ex r
      {| x_inst := x_inst acc; x_argv := x_argv acc ++ [VGift]; x_yours := x_yours acc;
         x_dial := if accept_gifts then x_dial acc ++ [(g, u)] else x_dial acc;
         x_gifts_ok := x_gifts_ok acc && accept_gifts && ok |}
  end.

Definition strip (xs : list xarg) : list arg :=
  flat_map (fun x => match x with XA a => [a] | _ => [] end) xs.

Record xresult := { xr_core : result;
                    xr_argv : list argval;             (* what the entered method received (empty unless something was entered) *)
                    xr_yours : list Z;                 (* proxies found-or-created in this connection's yourReferenceByCLID *)
                    xr_dial : list (Z * gifturl) }.    (* Tub.getReference calls made on behalf of this message *)

(* an inbound call to an application object (clid <> 0) with arbitrary arguments *)
Definition xobj_call (accept_gifts : bool) (w : world) (copy : list (string * Z)) (cn : conn) (clid : Z) (m : mname) (xs : list xarg)
  : xresult :=
  let core := fun inst out => {| r_inst := inst; r_out := out; r_sent := [] |} in
  match gen_stage1 (gen_get_my_reference (c_exports cn)) (target_iface w) clid with
  | XRaise e => {| xr_core := core [] (parse_refusal e); xr_argv := []; xr_yours := []; xr_dial := [] |}
  | XOk (objID, obj, interface, _) =>
    match gen_stage2 objID interface (tok_of m) broker_require_schema None with
    | XRaise e => {| xr_core := core [] (parse_refusal e); xr_argv := []; xr_yours := []; xr_dial := [] |}
    | XOk (_, methodname, schema) =>
      match xdo_args accept_gifts copy (c_exports cn) xs xacc0 with
      | XArgsFail a r => {| xr_core := core (x_inst a) (refuse r); xr_argv := []; xr_yours := x_yours a; xr_dial := x_dial a |}
      | XArgsOk a =>
        if x_gifts_ok a
        then let out := perform w (gen_docall obj methodname schema true (is_callable_T w) (adaptable_T w)) in
             {| xr_core := core (x_inst a) out; xr_argv := match out with Enter _ => x_argv a | _ => [] end;
                xr_yours := x_yours a; xr_dial := x_dial a |}
        else (* a gift that cannot be resolved flunks the delivery when it reaches the head of the queue: nothing is entered *)
             {| xr_core := core (x_inst a) Reject; xr_argv := []; xr_yours := x_yours a; xr_dial := x_dial a |}
      end
    end
  end.

(* the whole-connection state of Part X: the core state plus each connection's proxy table *)
Record xstate := { xs_core : state; xs_yours_a : list Z; xs_yours_b : list Z; xs_accept_gifts : bool }.
Definition get_yours (x : xstate) (c : cid) : list Z := match c with CA => xs_yours_a x | CB => xs_yours_b x end.
Definition set_yours (x : xstate) (c : cid) (l : list Z) : xstate :=
  match c with
  | CA => {| xs_core := xs_core x; xs_yours_a := l; xs_yours_b := xs_yours_b x; xs_accept_gifts := xs_accept_gifts x |}
  | CB => {| xs_core := xs_core x; xs_yours_a := xs_yours_a x; xs_yours_b := l; xs_accept_gifts := xs_accept_gifts x |}
  end.
Definition xinit (accept_gifts : bool) : xstate :=
  {| xs_core := init; xs_yours_a := []; xs_yours_b := []; xs_accept_gifts := accept_gifts |}.
Fixpoint add_all (l : list Z) (s : list Z) : list Z :=
  match l with [] => s | k :: r => add_all r (if existsb (Z.eqb k) s then s else s ++ [k]) end.

Inductive xevent :=
| XE (e : event)                                                   (* every event of the core model *)
| XMsg (c : cid) (req clid : Z) (m : mname) (xs : list xarg).        (* a call to clid <> 0 with arbitrary arguments *)

Definition is_core (a : xarg) : bool := match a with XA _ => true | _ => false end.
Definition xres0 (o : outcome) : xresult := {| xr_core := res0 o; xr_argv := []; xr_yours := []; xr_dial := [] |}.

Definition xstep_core (w : world) (x : xstate) (e0 : event) : xstate * xresult :=
  let '(st', r) := step_T w (xs_core x) e0 in
  let x' := {| xs_core := st'; xs_yours_a := xs_yours_a x; xs_yours_b := xs_yours_b x; xs_accept_gifts := xs_accept_gifts x |} in
  (* a connection that goes away loses its proxy table with everything else (Broker.finish) *)
  (match on_conn e0 with
   | Some c => if c_alive (get_conn st' c) then x' else set_yours x' c []
   | None => x'
   end, {| xr_core := r; xr_argv := []; xr_yours := []; xr_dial := [] |}).

Definition xstep (w : world) (x : xstate) (e : xevent) : xstate * xresult :=
  match e with
  | XE e0 => xstep_core w x e0
  | XMsg c req clid m xs =>
    let st := xs_core x in
    let cn := get_conn st c in
    if negb (c_alive cn) then (x, xres0 Dead)
    else if clid =? broker_clid then
      (* RIBroker's argument schema (byte strings and ints) refuses every reference argument when its OPEN arrives *)
      if forallb is_core xs then xstep_core w x (Msg c req clid m (strip xs)) else (x, xres0 Reject)
    else
      let r := xobj_call (xs_accept_gifts x) (eff w (s_decl st)) (s_copy st) cn clid m xs in
      match r_out (xr_core r) with
      | Aborted => (set_yours {| xs_core := set_conn st c (drop_conn cn); xs_yours_a := xs_yours_a x; xs_yours_b := xs_yours_b x;
                                 xs_accept_gifts := xs_accept_gifts x |} c [], r)
      | _ => (set_yours x c (add_all (xr_yours r) (get_yours x c)), r)
      end
  end.

Fixpoint xrun (w : world) (x : xstate) (h : list xevent) : xstate * list xresult :=
  match h with
  | [] => (x, [])
  | e :: r => let '(x1, y) := xstep w x e in let '(x2, ys) := xrun w x1 r in (x2, y :: ys)
  end.
