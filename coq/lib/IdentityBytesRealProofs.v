(* C05: the byte-level theorems for the REAL checks (lib/IdentityBytesReal.v), and non-vacuity Examples. *)
From Coq Require Import ZArith List String Bool Lia.
Import ListNotations.
Require Import Verif.lib.PyLite Verif.gen.NegotiateGen Verif.lib.Negotiate Verif.lib.NegotiateProofs Verif.lib.NegBytes
               Verif.gen.IdentityGen Verif.lib.NegSplit Verif.lib.Identity Verif.lib.IdentityProofs Verif.lib.IdentityBytes
               Verif.lib.IdentityBytesProofs Verif.lib.NegCodec Verif.gen.NegCodecGen Verif.lib.NegWire Verif.lib.IdentityBytesReal.
Local Open Scope Z_scope.

Section RealProofs.
Variable cert : Type.
Variable tubid_of : cert -> list Z.
Variable hf : Z -> list Z.
Variable me : endpoint.
Variable redirect : list Z -> bool.

Notation recv := (real_recv_all hf me cert tubid_of redirect).

Theorem real_attach_proven r my tgt p chunks k :
  In k (b_attached (recv r my tgt p chunks)) -> exists crt, leaf p = Some crt /\ tubid_of crt = k /\ (r = Client -> k = tgt).
Proof. unfold real_recv_all. apply bytes_attach_proven. Qed.

Theorem real_no_attach_before_identity r my tgt p chunks :
  b_attached (recv r my tgt p chunks) <> [] ->
  exists hdr d ver t m, parseLines hdr = Ok d /\ dget d error_key = None /\ eval_hello_wire me d = Ok ver /\ forced_chk d = Ok tt /\
                        handle_hello cert tubid_of r my tgt p (dget d hello_key_tubid_written) = Accept t m.
Proof.
  intros H. unfold real_recv_all in H. apply bytes_no_attach_before_identity in H.
  destruct H as (hdr & d & t & m & Hp & He & Hpre & Hh).
  unfold real_has_error in He. destruct (dget d error_key) eqn:Ee; [discriminate He|].
  unfold real_pre_chk, bind in Hpre. destruct (eval_hello_wire me d) as [ver|w] eqn:Ev; [|discriminate Hpre].
  exists hdr, d, ver, t, m. unfold real_claimed, claimed_id in Hh. auto.
Qed.

Theorem real_at_most_one_attach r my tgt p chunks :
  (List.length (b_attached (recv r my tgt p chunks)) <= 1)%nat /\
  (b_phase (recv r my tgt p chunks) <> RP PhBanana -> b_attached (recv r my tgt p chunks) = []).
Proof. unfold real_recv_all. apply bytes_at_most_one_attach. Qed.

(* a listener registers a key only on a connection whose GET named this very Tub (plaintext_server_requested: the translated
   statements of handlePLAINTEXTServer up to the lookup; server_lookup: the session model's listener lookup) *)
Theorem real_listener_attach_needs_get my tgt p chunks :
  b_attached (recv Server my tgt p chunks) <> [] ->
  exists hdr, plaintext_server_requested real_decode hdr = Ok my /\ server_lookup my my = Ok tt /\ my <> [].
Proof. unfold real_recv_all. apply bytes_listener_attach_needs_get. Qed.

End RealProofs.

(* ------------------------------------------------------------------ non-vacuity, on the real checks *)
Definition exb_tubid (c : Z) : list Z := if c =? 2 then [98; 98] else if c =? 3 then [99; 99] else [].
Definition exb_recv (my : list Z) := real_recv_all (fun _ => []) (class_endpoint my 0 1) Z exb_tubid (fun _ => false).
Definition exb_get : list Z := [71; 69; 84; 32; 47; 105; 100; 47; 122; 122; 32; 72; 84; 84; 80; 47; 49; 46; 49; 13; 10; 85; 112; 103; 114; 97; 100; 101; 58; 32; 84; 76; 83; 47; 49; 46; 48; 13; 10; 13; 10].
Definition exb_get_other : list Z := [71; 69; 84; 32; 47; 105; 100; 47; 121; 121; 32; 72; 84; 84; 80; 47; 49; 46; 49; 13; 10; 13; 10].
Definition exb_hello_bb : list Z := [98; 97; 110; 97; 110; 97; 45; 110; 101; 103; 111; 116; 105; 97; 116; 105; 111; 110; 45; 114; 97; 110; 103; 101; 58; 32; 51; 32; 51; 13; 10; 109; 121; 45; 116; 117; 98; 45; 105; 100; 58; 32; 98; 98; 13; 10; 13; 10].
Definition exb_hello_cc : list Z := [98; 97; 110; 97; 110; 97; 45; 110; 101; 103; 111; 116; 105; 97; 116; 105; 111; 110; 45; 114; 97; 110; 103; 101; 58; 32; 51; 32; 51; 13; 10; 109; 121; 45; 116; 117; 98; 45; 105; 100; 58; 32; 99; 99; 13; 10; 13; 10].
Definition exb_hello_bb_unicode : list Z := [98; 97; 110; 97; 110; 97; 45; 110; 101; 103; 111; 116; 105; 97; 116; 105; 111; 110; 45; 114; 97; 110; 103; 101; 58; 32; 51; 32; 51; 13; 10; 120; 45; 110; 111; 116; 101; 58; 32; 104; 195; 169; 108; 108; 111; 32; 240; 159; 152; 128; 13; 10; 109; 121; 45; 116; 117; 98; 45; 105; 100; 58; 32; 98; 98; 13; 10; 13; 10].
Definition exb_hello_bb_overlong : list Z := [98; 97; 110; 97; 110; 97; 45; 110; 101; 103; 111; 116; 105; 97; 116; 105; 111; 110; 45; 114; 97; 110; 103; 101; 58; 32; 51; 32; 51; 13; 10; 120; 45; 110; 111; 116; 101; 58; 32; 192; 175; 13; 10; 109; 121; 45; 116; 117; 98; 45; 105; 100; 58; 32; 98; 98; 13; 10; 13; 10].
Definition exb_101 : list Z := [72; 84; 84; 80; 47; 49; 46; 49; 32; 49; 48; 49; 32; 83; 119; 105; 116; 99; 104; 105; 110; 103; 32; 80; 114; 111; 116; 111; 99; 111; 108; 115; 13; 10; 85; 112; 103; 114; 97; 100; 101; 58; 32; 84; 76; 83; 47; 49; 46; 48; 13; 10; 13; 10].
Definition exb_decision : list Z := [98; 97; 110; 97; 110; 97; 45; 100; 101; 99; 105; 115; 105; 111; 110; 45; 118; 101; 114; 115; 105; 111; 110; 58; 32; 51; 13; 10; 13; 10].

(* a listener "zz" (decides: "zz" > "bb"): GET, then the hello of the peer that authenticated as bb, cut in the middle of a block *)
Example exb_listener_attaches :
  b_attached (exb_recv [122; 122] Server [122; 122] [] {| leaf := Some 2; extras := [] |}
                       [firstn 10 exb_get; skipn 10 exb_get ++ firstn 7 exb_hello_bb; skipn 7 exb_hello_bb]) = [[98; 98]].
Proof. vm_compute. reflexivity. Qed.

(* header values may be any well-formed UTF-8; an overlong encoding makes parseLines raise *)
Example exb_listener_unicode :
  b_attached (exb_recv [122; 122] Server [122; 122] [] {| leaf := Some 2; extras := [] |} [exb_get; exb_hello_bb_unicode]) = [[98; 98]] /\
  b_fail (exb_recv [122; 122] Server [122; 122] [] {| leaf := Some 2; extras := [] |} [exb_get; exb_hello_bb_overlong]) = Some "UnicodeDecodeError"%string.
Proof. vm_compute. split; reflexivity. Qed.

(* the same bytes from a peer that authenticated as cc: refused, and a decision block sent afterwards changes nothing *)
Example exb_listener_refuses_impostor :
  let st := exb_recv [122; 122] Server [122; 122] [] {| leaf := Some 3; extras := [] |} [exb_get ++ exb_hello_bb; exb_decision] in
  b_attached st = [] /\ b_their st = None /\ b_phase st = RP PhEncrypted /\ b_fail st = Some "NegotiationError"%string.
Proof. vm_compute. repeat split; reflexivity. Qed.

(* a refusal does not end the object's life: a GET for another Tub is refused in the plaintext phase (phase unchanged), the peer
   carries on with a correct GET and a proven hello; after a rejected hello (claims cc, proved bb) a proven one is still accepted *)
Example exb_listener_second_get :
  let st := exb_recv [122; 122] Server [122; 122] [] {| leaf := Some 2; extras := [] |} [exb_get_other; exb_get; exb_hello_cc; exb_hello_bb] in
  b_attached st = [[98; 98]] /\ b_fail st = Some "BananaError"%string /\
  b_phase (exb_recv [122; 122] Server [122; 122] [] {| leaf := Some 2; extras := [] |} [exb_get_other]) = RPlaintext.
Proof. vm_compute. repeat split; reflexivity. Qed.

(* a dialling Tub "aa" (does not decide: "aa" < "bb") attaches only when the decision arrives, under the dialled id *)
Example exb_client_waits_for_decision :
  b_attached (exb_recv [97; 97] Client [97; 97] [98; 98] {| leaf := Some 2; extras := [] |} [exb_101; exb_hello_bb]) = [] /\
  b_attached (exb_recv [97; 97] Client [97; 97] [98; 98] {| leaf := Some 2; extras := [] |} [exb_101; exb_hello_bb; exb_decision]) = [[98; 98]].
Proof. vm_compute. split; reflexivity. Qed.

(* ... and never when the peer proved an identity other than the dialled one *)
Example exb_client_wrong_tub :
  b_attached (exb_recv [97; 97] Client [97; 97] [98; 98] {| leaf := Some 3; extras := [] |} [exb_101; exb_hello_cc; exb_decision]) = [].
Proof. vm_compute. reflexivity. Qed.

(* the plaintext guard is not opaque: the GET for "zz" yields the id "zz", on which the session model's lookup succeeds at the
   listener "zz"; the GET for "yy" is refused there, by the guard and by server_lookup alike; after the first the object has left
   the PLAINTEXT phase, after the second it has not *)
Example exb_guard_is_lookup :
  plaintext_server_requested real_decode (firstn 37 exb_get) = Ok [122; 122] /\
  plaintext_server_guard real_decode [122; 122] (fun _ => false) (firstn 37 exb_get) = Ok tt /\ server_lookup [122; 122] [122; 122] = Ok tt /\
  plaintext_server_requested real_decode (firstn 19 exb_get_other) = Ok [121; 121] /\
  plaintext_server_guard real_decode [122; 122] (fun _ => false) (firstn 19 exb_get_other) = Exc "NegotiationError" /\
  server_lookup [121; 121] [122; 122] = Exc "NegotiationError" /\
  b_phase (exb_recv [122; 122] Server [122; 122] [] {| leaf := Some 2; extras := [] |} [exb_get]) = RP PhEncrypted.
Proof. vm_compute. repeat split; reflexivity. Qed.
