(* C19 -- executable model of the path functions the file services rely on (model only, no proofs).

   Strings are lists of character codes (N); '/' = 47, '.' = 46.  Modelled, not verified (checked against the
   real functions by the correspondence on every run): CPython 3.12 posixpath.normpath / join / abspath /
   dirname / basename and Twisted's FilePath.child / parent / siblingExtension. *)
From Coq Require Import NArith List Bool.
Import ListNotations.
Require Import Verif.lib.UploadShape.
Local Open Scope N_scope.

Definition str := list N.
Definition sep : N := 47.
Definition dot : N := 46.
Definition is_sep (c : N) : bool := N.eqb c sep.
Definition is_nil {A} (l : list A) : bool := match l with [] => true | _ => false end.

Fixpoint str_eqb (a b : str) : bool :=
  match a, b with
  | [], [] => true
  | x :: a', y :: b' => N.eqb x y && str_eqb a' b'
  | _, _ => false
  end.

Fixpoint prefixb (a b : str) : bool :=          (* b.startswith(a) *)
  match a, b with
  | [], _ => true
  | x :: a', y :: b' => N.eqb x y && prefixb a' b'
  | _ :: _, [] => false
  end.

Definition has_sep (s : str) : bool := existsb is_sep s.

(* s.split("/") *)
Fixpoint split (s : str) : list str :=
  match s with
  | [] => [[]]
  | c :: r => if is_sep c then [] :: split r
              else match split r with h :: t => (c :: h) :: t | [] => [[c]] end
  end.

(* "/".join(cs) *)
Fixpoint join_sep (cs : list str) : str :=
  match cs with
  | [] => []
  | c :: r => match r with [] => c | _ => c ++ sep :: join_sep r end
  end.

Definition is_dot (c : str) : bool := str_eqb c [dot].
Definition is_dotdot (c : str) : bool := str_eqb c [dot; dot].

(* a path component that names an entry of a directory: non-empty, no separator, neither "." nor ".." *)
Definition goodb (c : str) : bool := negb (is_nil c) && negb (has_sep c) && negb (is_dot c) && negb (is_dotdot c).

(* the loop of posixpath.normpath; `stack` is new_comps reversed *)
Fixpoint norm_go (init : bool) (stack : list str) (cs : list str) : list str :=
  match cs with
  | [] => rev stack
  | c :: r =>
    if is_nil c || is_dot c then norm_go init stack r
    else if negb (is_dotdot c) || (negb init && is_nil stack)
            || match stack with t :: _ => is_dotdot t | [] => false end
         then norm_go init (c :: stack) r
         else match stack with [] => norm_go init [] r | _ :: s => norm_go init s r end
  end.

Definition initial_slashes (p : str) : nat :=
  match p with
  | a :: rest =>
    if is_sep a then
      match rest with
      | b :: rest2 => if is_sep b then match rest2 with c :: _ => if is_sep c then 1%nat else 2%nat | [] => 2%nat end
                      else 1%nat
      | [] => 1%nat
      end
    else 0%nat
  | [] => 0%nat
  end.

Definition normpath (p : str) : str :=
  if is_nil p then [dot] else
  let i := initial_slashes p in
  let comps := norm_go (negb (Nat.eqb i 0)) [] (split p) in
  let r := repeat sep i ++ join_sep comps in
  if is_nil r then [dot] else r.

Definition isabs (p : str) : bool := match p with c :: _ => is_sep c | [] => false end.
Definition ends_with_sep (p : str) : bool := is_sep (last p 0).

(* posixpath.join(a, b) *)
Definition join (a b : str) : str :=
  if isabs b then b
  else if is_nil a || ends_with_sep a then a ++ b
  else a ++ sep :: b.

Definition abspath (cwd p : str) : str := normpath (if isabs p then p else join cwd p).

Fixpoint dropwhile (f : N -> bool) (s : str) : str :=
  match s with [] => [] | c :: r => if f c then dropwhile f r else s end.
Fixpoint takewhile (f : N -> bool) (s : str) : str :=
  match s with [] => [] | c :: r => if f c then c :: takewhile f r else [] end.

(* posixpath.dirname / basename *)
Definition dirname (p : str) : str :=
  let head := rev (dropwhile (fun c => negb (is_sep c)) (rev p)) in
  if forallb is_sep head then head else rev (dropwhile is_sep (rev head)).
Definition basename (p : str) : str := rev (takewhile (fun c => negb (is_sep c)) (rev p)).

(* twisted.python.filepath.FilePath(base).child(name).path  (POSIX branch);  None = InsecurePath *)
Definition child (cwd base name : str) : option str :=
  let norm := normpath name in
  if has_sep norm then None else
  let np := abspath cwd (join base norm) in
  if prefixb base np then Some np else None.

(* child(name) followed, or not, by `if child.parent() != dir: raise` *)
Definition guarded (g : guardk) (cwd base name : str) : option str :=
  match child cwd base name with
  | None => None
  | Some p => match g with
              | NoGuard => Some p
              | GuardParentEq => if str_eqb (dirname p) base then Some p else None
              end
  end.

(* the absolute path made of the given components: "/c1/c2/..." *)
Fixpoint path_of (comps : list str) : str :=
  match comps with [] => [] | c :: r => sep :: c ++ path_of r end.
