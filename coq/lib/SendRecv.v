(* C10: the stream written by the sending machine of lib/Send.v, handed to the receive model of C07 (lib/BananaRecv.v: the
   transcription of Banana.handleData / handleOpen / handleToken / handleClose / handleViolation -- discardCount, inOpen,
   receiveStack, objectCounter -- not a stand-in).  Model part: how the abstract tokens of Send.v become wire tokens. *)
From Coq Require Import ZArith List Bool.
Import ListNotations.
Require Import Verif.lib.PyLite Verif.gen.SendGen Verif.lib.Send Verif.gen.BananaGen.
Require Verif.lib.Recv Verif.lib.BananaRecv.
Local Open Scope Z_scope.

Definition wtok := (Z * Z * list Z)%type.      (* type byte, header value, body: the token format of BananaRecv.tok_apply *)

(* what a primitive token of the sender may be on the wire: anything but OPEN and CLOSE (those are written only by
   pushSlicer / popSlicer).  `pay` chooses the wire token for every primitive: any choice is allowed, so the
   theorems hold for all token values, types and sizes -- and for every reaction of the receiving unslicers to them *)
Definition is_payload (t : wtok) : bool := let '(ty, _, _) := t in negb (ty =? tok_OPEN) && negb (ty =? tok_CLOSE).

Definition enc (pay : Z -> wtok) (t : tok) : wtok :=
  match t with
  | TOpen n => (tok_OPEN, n, [])
  | TClose n => (tok_CLOSE, n, [])
  | TAbort n => (tok_ABORT, n, [])
  | TData z => pay z
  end.

(* signed nesting change and number of OPENs of an abstract token list *)
Fixpoint zdep (ts : list tok) : Z :=
  match ts with [] => 0 | TOpen _ :: r => 1 + zdep r | TClose _ :: r => -1 + zdep r | _ :: r => zdep r end.

Fixpoint nopens (ts : list tok) : Z :=
  match ts with [] => 0 | TOpen _ :: r => 1 + nopens r | _ :: r => nopens r end.

(* the receiver of C07 after everything the sender has written so far *)
Definition received (mode : Z) (voc : list (Z * list Z)) (pay : Z -> wtok) (s : sstate) : BananaRecv.hr :=
  BananaRecv.apply_all (BananaRecv.ctx0 mode voc) (map (enc pay) (out s)).
