(* C18: executable model of the JSON side of foolscap's log files (logging/flogfile.py):
     json.dumps(obj, cls=ExtendedEncoder)   -> dumps true      (CPython's encoder + ExtendedEncoder.default)
     _make_jsonable                         -> mj
     _last_resort                           -> lr
     serialize_to_json_utf8                 -> serialize        (the try / except chain)
     serialize_wrapper / serialize_header   -> wrap / header
     get_events                             -> the value json.loads returns for a line IS the jv produced here
   over a universe of Python values: None / bool / int / float / text / opaque objects (bytes, sets, instances whose
   repr works, raises, or raises an exception that cannot be repr'd, Failures) / list / tuple / dict with keys of any
   kind / containers that contain themselves (PBack id = the enclosing container with that id) / very deep nesting
   (PDeep n x = x inside n one-element lists).
   Which container types _make_jsonable descends into, which key types it keeps, whether it looks for cycles, which
   scalars _last_resort keeps, its integer bound and depth, and WHICH exception classes the two `except` clauses of
   serialize_to_json_utf8 select are TRANSLATED facts (gen/LogJsonGen.v) that this model interprets.
   CPython's part (modelled, compared by the correspondence, not verified): json refuses keys other than
   str/int/float/bool/None (TypeError), containers that contain themselves (ValueError), integers too large to print
   (ValueError) and nesting beyond its recursion budget (RecursionError); the budgets are parameters (lims).
   Definitions only. *)
From Coq Require Import ZArith List Bool Lia.
Import ListNotations.
Require Import Verif.lib.PyLite Verif.gen.LogJsonGen.
Local Open Scope Z_scope.

(* ---------------------------------------------------------------- values *)
Inductive fixedstr :=
  FAt | FMessage | FRepr | FExcRepr | FStr | FTraceback          (* keys of the replacement records *)
| FFailure | FUnJSONable | FUnreprable | FReallyUnreprable       (* their "@" values *)
| FText                                                          (* an explanatory text *)
| FKeyPlace | FUnreprKey | FValPlace.                            (* "<key>", "<unreprable key>", "<value that could not ..>" *)

(* what repr() does with an opaque object *)
Inductive okind := OFailure | OReprOk | OReprRaises | OReallyBad | OBytes.   (* OBytes: a bytes object (its repr works) *)

Inductive pkey :=
| KStr (s : Z) | KInt (z : Z) | KFloat (f : Z) | KBool (b : bool) | KNone
| KBytes (s : Z) | KTuple (s : Z) | KObj (s : Z) | KBadRepr (s : Z)      (* hashable non-JSON keys; s names the object *)
| KReprOf (s : Z)                                                        (* the text repr(<key object s>) *)
| KFixed (c : fixedstr).

Inductive pv :=
| PNone | PBool (b : bool) | PInt (z : Z) | PFloat (f : Z) | PStr (s : Z) | PFixed (c : fixedstr)
| POpaque (k : okind) (s : Z)
| PList (id : Z) (l : list pv) | PTuple (id : Z) (l : list pv) | PDict (id : Z) (kv : list (pkey * pv))
| PBack (id : Z)
| PDeep (n : Z) (x : pv).

(* what json.loads returns for the line that was written *)
Inductive derived := DRepr | DExcRepr | DStrOf | DTraceback.

Inductive jv :=
| JNull | JBool (b : bool) | JInt (z : Z) | JFloat (f : Z) | JStr (s : Z) | JFixed (c : fixedstr)
| JDerived (d : derived) (s : Z)
| JList (l : list jv) | JObj (kv : list (pkey * jv)) | JDeep (n : Z) (j : jv).

Inductive exn := ETypeError | EValueError | ERecursionError | EOther.    (* EOther: a RuntimeError out of a __repr__ *)

Inductive res (A : Type) := Ok (a : A) | Raise (e : exn).
Arguments Ok {A} a.
Arguments Raise {A} e.

Definition bind {A B} (r : res A) (f : A -> res B) : res B := match r with Ok a => f a | Raise e => Raise e end.

Definition map_res {A B} (f : A -> res B) : list A -> res (list B) :=
  fix go (l : list A) : res (list B) :=
    match l with
    | [] => Ok []
    | x :: t => match f x with
                | Raise e => Raise e
                | Ok y => match go t with Raise e => Raise e | Ok ys => Ok (y :: ys) end
                end
    end.

(* CPython's budgets: nesting the C encoder accepts, nesting a recursive Python function survives, printable integers *)
Record lims := mkLims { l_json_depth : Z; l_py_depth : Z; l_int_bound : Z }.

(* CPython 3.12 as measured: the C encoder takes > 1100 levels and fails at 2000, a recursive Python function fails
   before 1000 frames, integers print up to 4300 digits: 10^4300 = 2^14284.3; the cheap term 2^14284 stands for it (the
   correspondence uses integers below 2^71 or above 2^14289) *)
Definition cpython : lims := mkLims 1500 800 (Z.shiftl 1 14284).

(* ---------------------------------------------------------------- isinstance *)
Definition vtype_eqb (a b : vtype) : bool :=
  match a, b with
  | TStr, TStr | TInt, TInt | TFloat, TFloat | TBool, TBool | TNone, TNone | TBytes, TBytes | TList, TList
  | TTuple, TTuple | TDict, TDict | TOther, TOther => true
  | _, _ => false
  end.

(* bool is a subclass of int *)
Definition isinst (t : vtype) (tys : list vtype) : bool :=
  existsb (fun ty => vtype_eqb t ty || (vtype_eqb t TBool && vtype_eqb ty TInt)) tys.

Definition vtype_of (o : pv) : vtype :=
  match o with
  | PNone => TNone | PBool _ => TBool | PInt _ => TInt | PFloat _ => TFloat | PStr _ => TStr | PFixed _ => TStr
  | POpaque OBytes _ => TBytes | POpaque _ _ => TOther | PList _ _ => TList | PTuple _ _ => TTuple | PDict _ _ => TDict | PBack _ => TOther
  | PDeep _ _ => TList
  end.

Definition ktype_of (k : pkey) : vtype :=
  match k with
  | KStr _ => TStr | KInt _ => TInt | KFloat _ => TFloat | KBool _ => TBool | KNone => TNone | KBytes _ => TBytes
  | KTuple _ => TTuple | KObj _ => TOther | KBadRepr _ => TOther | KReprOf _ => TStr | KFixed _ => TStr
  end.

Definition memZ (x : Z) (l : list Z) : bool := existsb (Z.eqb x) l.

(* ---------------------------------------------------------------- json.dumps *)
Definition printable (L : lims) (z : Z) : bool := Z.abs z <? l_int_bound L.

Definition json_key (L : lims) (k : pkey) : res pkey :=
  match k with
  | KStr _ | KFloat _ | KBool _ | KNone | KReprOf _ | KFixed _ => Ok k
  | KInt z => if printable L z then Ok k else Raise EValueError
  | KBytes _ | KTuple _ | KObj _ | KBadRepr _ => Raise ETypeError         (* default= is not consulted for keys *)
  end.

(* ExtendedEncoder.default *)
Definition enc_default (k : okind) (s : Z) : jv :=
  match k with
  | OFailure => JObj [(KFixed FAt, JFixed FFailure); (KFixed FStr, JDerived DStrOf s); (KFixed FRepr, JDerived DRepr s);
                      (KFixed FTraceback, JDerived DTraceback s)]
  | OReprOk | OBytes => JObj [(KFixed FAt, JFixed FUnJSONable); (KFixed FMessage, JFixed FText); (KFixed FRepr, JDerived DRepr s)]
  | OReprRaises => JObj [(KFixed FAt, JFixed FUnreprable); (KFixed FMessage, JFixed FText); (KFixed FExcRepr, JDerived DExcRepr s)]
  | OReallyBad => JObj [(KFixed FAt, JFixed FReallyUnreprable); (KFixed FMessage, JFixed FText)]
  end.

(* ext = true: cls=ExtendedEncoder; ext = false: the plain encoder (an unknown object is a TypeError).
   mk = ids of the enclosing containers (json's `markers`), d = nesting so far. *)
Fixpoint dumps (L : lims) (ext : bool) (mk : list Z) (d : Z) (o : pv) {struct o} : res jv :=
  match o with
  | PNone => Ok JNull
  | PBool b => Ok (JBool b)
  | PInt z => if printable L z then Ok (JInt z) else Raise EValueError
  | PFloat f => Ok (JFloat f)
  | PStr s => Ok (JStr s)
  | PFixed c => Ok (JFixed c)
  | POpaque k s => if ext then Ok (enc_default k s) else Raise ETypeError
  | PList id l | PTuple id l =>
    if l_json_depth L <=? d then Raise ERecursionError
    else match map_res (dumps L ext (id :: mk) (d + 1)) l with Ok js => Ok (JList js) | Raise e => Raise e end
  | PDict id kv =>
    if l_json_depth L <=? d then Raise ERecursionError
    else match map_res (fun e : pkey * pv =>
                          match e with
                          | (k, v) => match json_key L k with
                                      | Raise x => Raise x
                                      | Ok k' => match dumps L ext (id :: mk) (d + 1) v with
                                                 | Ok j => Ok (k', j)
                                                 | Raise x => Raise x
                                                 end
                                      end
                          end) kv with
         | Ok js => Ok (JObj js)
         | Raise e => Raise e
         end
  | PBack id => if memZ id mk then Raise EValueError else Ok JNull
  | PDeep n x =>
    if l_json_depth L <? d + n then Raise ERecursionError
    else match dumps L ext mk (d + n) x with Ok j => Ok (JDeep n j) | Raise e => Raise e end
  end.

(* ---------------------------------------------------------------- _make_jsonable *)
Definition self_record : pv := PDict (-1) [(KFixed FAt, PFixed FUnJSONable); (KFixed FMessage, PFixed FText)].

Definition key_reprable (k : pkey) : option Z :=
  match k with
  | KBytes s | KTuple s | KObj s => Some s
  | _ => None
  end.

Definition key_sid (k : pkey) : Z :=
  match k with KStr s | KFloat s | KBytes s | KTuple s | KObj s | KBadRepr s | KReprOf s => s | _ => 0 end.

Definition mj_key (k : pkey) : res pkey :=
  if isinst (ktype_of k) mj_key_keep then Ok k
  else match k with
       | KBadRepr _ => if mj_key_repr_guarded then Ok (KFixed FUnreprKey) else Raise EOther
       | _ => Ok (KReprOf (key_sid k))
       end.

(* entering a container: the cycle test, then one more Python frame *)
Definition mj_enter {A} (L : lims) (id : Z) (seen : list Z) (d : Z) (cyc : A) (k : unit -> res A) : res A :=
  if mj_cycle_check && memZ id seen then Ok cyc
  else if l_py_depth L <=? d then Raise ERecursionError
  else k tt.

Fixpoint mj (L : lims) (seen : list Z) (d : Z) (o : pv) {struct o} : res pv :=
  match o with
  | PList id l =>
    if isinst TList mj_container_types
    then mj_enter L id seen d self_record
           (fun _ => match map_res (mj L (id :: seen) (d + 1)) l with Ok l' => Ok (PList id l') | Raise e => Raise e end)
    else Ok o
  | PTuple id l =>
    if isinst TTuple mj_container_types
    then mj_enter L id seen d self_record
           (fun _ => match map_res (mj L (id :: seen) (d + 1)) l with Ok l' => Ok (PList id l') | Raise e => Raise e end)
    else Ok o
  | PDict id kv =>
    if isinst TDict mj_container_types
    then mj_enter L id seen d self_record
           (fun _ => match map_res (fun e : pkey * pv =>
                                      match e with
                                      | (k, v) => match mj_key k with
                                                  | Raise x => Raise x
                                                  | Ok k' => match mj L (id :: seen) (d + 1) v with
                                                             | Ok v' => Ok (k', v')
                                                             | Raise x => Raise x
                                                             end
                                                  end
                                      end) kv with
                     | Ok kv' => Ok (PDict id kv')
                     | Raise e => Raise e
                     end)
    else Ok o
  | PBack id =>
    (* the container `id` itself: found in _seen when the test exists; without the test the recursion never ends *)
    if memZ id seen then (if mj_cycle_check then Ok self_record else Raise ERecursionError) else Ok PNone
  | PDeep n x =>
    if isinst TList mj_container_types
    then if l_py_depth L <? d + n then Raise ERecursionError
         else match mj L seen (d + n) x with Ok x' => Ok (PDeep n x') | Raise e => Raise e end
    else Ok o
  | _ => Ok o
  end.

(* ---------------------------------------------------------------- _last_resort *)
Fixpoint eget (id : Z) (env : list (Z * pv)) : option pv :=
  match env with [] => None | (i, c) :: t => if id =? i then Some c else eget id t end.

Definition resolve (env : list (Z * pv)) (o : pv) : pv :=
  match o with PBack id => match eget id env with Some c => c | None => PNone end | _ => o end.

Definition lr_int_ok (o : pv) : bool :=
  match o with
  | PInt z => match lr_int_bound with Some b => Z.abs z <? b | None => true end
  | PBool _ => true
  | _ => false
  end.

Definition lr_key (k : pkey) : pkey := if vtype_eqb (ktype_of k) TStr then k else KFixed FKeyPlace.

Fixpoint lr (depth : nat) (env : list (Z * pv)) (o : pv) {struct depth} : pv :=
  let o' := resolve env o in
  if isinst (vtype_of o') lr_scalar_types then o'
  else if lr_int_ok o' then o'
  else match o', depth with
       | PDict id kv, S dd => PDict id (map (fun e : pkey * pv => (lr_key (fst e), lr dd ((id, o') :: env) (snd e))) kv)
       | _, _ => PFixed FValPlace
       end.

(* ---------------------------------------------------------------- serialize_to_json_utf8 *)
Definition class_catches (c : exnclass) (e : exn) : bool :=
  match c, e with
  | CAll, _ => true
  | CTypeError, ETypeError => true
  | CValueError, EValueError => true
  | CRecursionError, ERecursionError => true
  | CRuntimeError, ERecursionError => true          (* RecursionError is a RuntimeError *)
  | CRuntimeError, EOther => true
  | _, _ => false
  end.

Definition catches (cs : list exnclass) (e : exn) : bool := existsb (fun c => class_catches c e) cs.

Definition stage1 (L : lims) (o : pv) : res jv := dumps L true [] 0 o.
Definition stage2 (L : lims) (o : pv) : res jv := bind (mj L [] 0 o) (dumps L true [] 0).
Definition stage3 (L : lims) (o : pv) : res jv := dumps L false [] 0 (lr (Z.to_nat lr_default_depth) [] o).

(* -> (value read back from the line, stage that produced it) or the exception that escapes *)
Definition serialize_st (L : lims) (o : pv) : res (jv * Z) :=
  match stage1 L o with
  | Ok j => Ok (j, 1)
  | Raise e1 =>
    if (2 <=? ser_stages) && catches ser_catch1 e1 then
      match stage2 L o with
      | Ok j => Ok (j, 2)
      | Raise e2 =>
        if (3 <=? ser_stages) && catches ser_catch2 e2 then
          match stage3 L o with Ok j => Ok (j, 3) | Raise e3 => Raise e3 end
        else Raise e2
      end
    else Raise e1
  end.

Definition serialize (L : lims) (o : pv) : res jv :=
  match serialize_st L o with Ok (j, _) => Ok j | Raise e => Raise e end.

(* ---------------------------------------------------------------- wrappers, fields, files *)
(* names of the text keys that matter (ids of the harness's string table) *)
Definition K_from : Z := 1.
Definition K_rx_time : Z := 2.
Definition K_d : Z := 3.
Definition K_header : Z := 4.
Definition K_type : Z := 5.
Definition K_trigger : Z := 6.
Definition K_num : Z := 7.
Definition K_level : Z := 8.
Definition K_message : Z := 9.

Definition WRAP_ID : Z := -2.
Definition HDR_ID : Z := -3.
Definition HDR2_ID : Z := -4.

(* serialize_wrapper(f, ev, from_, rx_time) *)
Definition wrap (from rx ev : pv) : pv := PDict WRAP_ID [(KStr K_from, from); (KStr K_rx_time, rx); (KStr K_d, ev)].

(* serialize_header(f, type, trigger=ev, **more) *)
Definition header (ty ev : pv) (more : list (pkey * pv)) : pv :=
  PDict HDR_ID [(KStr K_header, PDict HDR2_ID ((KStr K_type, ty) :: (KStr K_trigger, ev) :: more))].

Definition key_is (s : Z) (k : pkey) : bool := match k with KStr s' => s =? s' | _ => false end.

Fixpoint pfield (s : Z) (kv : list (pkey * pv)) : option pv :=
  match kv with [] => None | (k, v) :: t => if key_is s k then Some v else pfield s t end.

Fixpoint jfield_l (s : Z) (kv : list (pkey * jv)) : option jv :=
  match kv with [] => None | (k, v) :: t => if key_is s k then Some v else jfield_l s t end.

Definition jfield (s : Z) (j : jv) : option jv := match j with JObj kv => jfield_l s kv | _ => None end.

Definition text_keys {V} (kv : list (pkey * V)) : Prop := Forall (fun e => exists s, fst e = KStr s) kv.

(* what a reader learns about an event: (num, level, message) *)
Definition view3 (j : jv) : option jv * option jv * option jv := (jfield K_num j, jfield K_level j, jfield K_message j).

(* an event as the logger builds it: a dict of text keys holding an integer number, an integer level, a text message *)
Definition mk_event (id n l m : Z) (more : list (pkey * pv)) : pv :=
  PDict id ((KStr K_num, PInt n) :: (KStr K_level, PInt l) :: (KStr K_message, PStr m) :: more).

(* the lines of a file written with serialize_wrapper, as get_events yields them; None = a write raised *)
Fixpoint write_lines (L : lims) (from rx : pv) (evs : list pv) : option (list jv) :=
  match evs with
  | [] => Some []
  | e :: t => match serialize L (wrap from rx e), write_lines L from rx t with
              | Ok j, Some js => Some (j :: js)
              | _, _ => None
              end
  end.

Definition event_of_line (j : jv) : option jv := jfield K_d j.
