(* C10: FailureSlicer.getStateToCopy (call.py) as TRANSLATED into gen/FailureGen.v (get_state_src, on the translated `truncate`),
   and the model of the FailureConstraint that the receiving ErrorUnslicer enforces, with the limits read from the source. *)
From Coq Require Import ZArith List String Bool.
Import ListNotations.
Require Import Verif.lib.PyLite Verif.lib.Utf8 Verif.gen.FailureGen.
Local Open Scope Z_scope.

(* text, exc, fstate, encode_text, trunc_field, map_res, render_safe / render_str and get_state_src -- FailureSlicer.getStateToCopy
   executed symbolically statement by statement -- are GENERATED (gen/FailureGen.v). *)

(* if len(tb) > 1900: tb = tb[:700] + marker + tb[-1200:]     (characters): the specification's name for the elision step *)
Definition elide (tb : text) : text :=
  if Z.of_nat (List.length tb) >? elide_threshold
  then py_slice tb None (Some elide_head) ++ elide_marker ++ py_slice tb (Some (- elide_tail)) None
  else tb.

(* state['value'] = str(obj.value)  or  reflect.safe_str(obj.value), whichever the source uses *)
Definition render (e : exc) : res text := if value_rendering_is_safe then render_safe e else render_str e.

(* what getStateToCopy needs of the exception's CLASS: reflect.qual(obj.type) and obj.parents (reflect.qual of every class of the
   MRO) both return -- false for a class, or an ancestor, whose __module__ is not a string: qual raises TypeError, unguarded *)
Definition nameable (x : exc) : bool :=
  match e_type x, e_parents x with Ok _, Ok _ => true | _, _ => false end.

(* the model of getStateToCopy IS the translated function *)
Definition get_state (unsafe : bool) (e : exc) : res fstate := get_state_src unsafe e.

(* ---- the receiving side: ByteStringConstraint(n) = the STRING token's size test (Constraint.checkToken)
        and the object test (ByteStringConstraint.checkObject), both with the operator read from the source *)
Definition rejects (op : cmpop) (n lim : Z) : bool :=
  match op with
  | CmpGt => n >? lim | CmpGe => n >=? lim | CmpLt => n <? lim | CmpLe => n <=? lim
  | CmpEq => n =? lim | CmpNe => negb (n =? lim)
  end.

Definition blen (b : list Z) : Z := Z.of_nat (List.length b).

Definition bytestring_ok (lim : Z) (b : list Z) : bool :=
  negb (rejects token_size_rejects (blen b) lim) && negb (rejects bytestring_object_rejects (blen b) lim).

Definition failure_constraint_ok (s : fstate) : bool :=
  bytestring_ok fc_limit_type (s_type s) && bytestring_ok fc_limit_value (s_value s)
  && bytestring_ok fc_limit_traceback (s_traceback s) && forallb (bytestring_ok fc_limit_parents) (s_parents s)
  && match fc_parents_maxlen with None => true | Some m => Z.of_nat (List.length (s_parents s)) <=? m end.

(* a bytes value travels as a STRING token of its length or -- on a connection with a negotiated vocabulary table, when it
   is exactly one of the table's words -- as a VOCAB token, which the taster must accept (no size: it is checked as an
   object after expansion).  `vocab b` = "b is sent as VOCAB": any table is allowed. *)
Definition bytestring_ok_enc (vocab : list Z -> bool) (lim : Z) (b : list Z) : bool :=
  (if vocab b then bytestring_taster_accepts_vocab else negb (rejects token_size_rejects (blen b) lim))
  && negb (rejects bytestring_object_rejects (blen b) lim).

Definition failure_constraint_ok_enc (vocab : list Z -> bool) (s : fstate) : bool :=
  bytestring_ok_enc vocab fc_limit_type (s_type s) && bytestring_ok_enc vocab fc_limit_value (s_value s)
  && bytestring_ok_enc vocab fc_limit_traceback (s_traceback s) && forallb (bytestring_ok_enc vocab fc_limit_parents) (s_parents s)
  && match fc_parents_maxlen with None => true | Some m => Z.of_nat (List.length (s_parents s)) <=? m end.

(* ---- what the caller's Deferred gets (ErrorUnslicer.receiveClose + CopiedFailure.setCopyableState) *)
Inductive delivered :=
| Copied (s : fstate)              (* a CopiedFailure: type / value / traceback / parents as sent *)
| Wrapped (s : fstate).            (* Failure(RemoteException(CopiedFailure)) *)

(* f.check(RemoteException) on a received CopiedFailure: answered from its .parents strings *)
Definition claims_remote_exception (s : fstate) : bool := existsb (list_eqb remote_exception_name) (s_parents s).

(* wrap_remote_failure: unconditional, or (if the source says so) passing through a failure whose remote class already is
   RemoteException *)
Definition wrap (s : fstate) : delivered :=
  if wrap_is_unconditional then Wrapped s else if claims_remote_exception s then Copied s else Wrapped s.

Definition deliver (expose : bool) (s : fstate) : delivered :=
  if Bool.eqb expose wrap_when_expose_is then wrap s else Copied s.

Definition dots : list Z := [46; 46].

(* ---- what the caller can ask the delivered failure: Failure.check(C) / trap(C) compare reflect.qual(C) with the strings
   of f.parents.  A CopiedFailure carries the transmitted parents (setCopyableState); the wrapper made by
   wrap_remote_failure is a fresh local Failure(RemoteException(..)) whose parents are RemoteException's own ancestry. *)
Definition check_names (d : delivered) : list (list Z) :=
  match d with Copied s => s_parents s | Wrapped _ => remote_exception_parents end.

Definition delivered_check (d : delivered) (name : list Z) : bool := existsb (list_eqb name) (check_names d).

(* the class the caller sees first: f.type of what the Deferred got (name on the wire / RemoteException) *)
Definition delivered_type (d : delivered) : list Z :=
  match d with Copied s => s_type s | Wrapped _ => remote_exception_name end.

(* the whole path of one remote exception: callee's getStateToCopy -> (wire, FailureConstraint) -> caller's delivery *)
Definition report (unsafe expose : bool) (e : exc) : res delivered :=
  match get_state unsafe e with
  | Exc t => Exc t
  | Ok s => if failure_constraint_ok s then Ok (deliver expose s) else Exc "Violation"%string
  end.
