(* C03 -- the caller's RECEIVE path, from bytes to the pending-request table:
   Banana.dataReceived/handleData (the generic tokenizer lib/Recv.v: buffering, 64-byte header cap, skipping of
   rejected bodies) + the token clauses of handleData, handleOpen / handleToken / handleClose / handleViolation of
   banana.py + PBRootUnslicer, AnswerUnslicer and ErrorUnslicer of call.py, acting on the request state of lib/Requests.v.

   What the unslicers BELOW an answer / error (the result object, the Failure copyable) and the result constraint decide
   is NOT fixed here: it is the oracle (taste, after) -- for every token it may accept, raise a Violation or raise a
   BananaError.  Every theorem of AnswerRecvProofs.v is proved for EVERY oracle.  The harness instantiates the oracle with
   the taster tables of the real constraints (`concrete oracle`, at the end of this file) for the correspondence.

   Model only; proofs are in AnswerRecvProofs.v. *)
From Coq Require Import ZArith List Bool Lia.
Import ListNotations.
Require Import Verif.lib.PyLite Verif.gen.BananaGen Verif.lib.Token Verif.lib.Recv.
Require Import Verif.gen.RequestsGen Verif.lib.Requests.
Local Open Scope Z_scope.

Inductive ck := CkOk | CkViol | CkBanana.                 (* checkToken / openerCheckToken: accept, Violation, BananaError *)
Inductive dres := DOk | DMore | DViol | DBanana | DLate.  (* delivery: accepted / doOpen wants another index token /
                                                             Violation / BananaError (or any other exception) /
                                                             CLOSE of an answer whose result is not ready yet (gift) *)

(* what is on Banana.receiveStack above the RootUnslicer *)
Inductive utop :=
| URoot
| UWantId (err : bool) (oc : Z)                                  (* Answer (err=false) / ErrorUnslicer, request is None *)
| UBody (err : bool) (h : nat) (have : bool) (oc : Z) (kids : list Z)
                                                                 (* ... self.request = the PendingRequest with handle h;
                                                                    have = haveResults / gotFailure; oc = its openCount;
                                                                    kids = openCounts of the child unslicers above it *)
| UOther (oc : Z) (kids : list Z).                               (* another top-level unslicer (call) *)

Inductive val := VInt (z : Z) | VStr (b : list Z) | VOpaque.

Definition body_val (ty : Z) (body : list Z) : val :=
  if ty =? tok_STRING then VStr body
  else if ty =? tok_LONGINT then VInt (be256 body 0)
  else if ty =? tok_LONGNEG then VInt (- be256 body 0)
  else VOpaque.

Fixpoint vocab_get (v : list (Z * list Z)) (i : Z) : option (list Z) :=
  match v with [] => None | (k, w) :: r => if k =? i then Some w else vocab_get r i end.

Section AnswerRecv.
Variable C : Type.                                                   (* state of the oracle *)
Variable taste : C -> utop -> bool -> Z -> Z -> ck.                  (* oracle, position, inOpen, type byte, header *)
Variable after : C -> utop -> bool -> Z -> Z -> list Z -> dres * C.  (* ... and the body of the complete token *)

Record actx := mkA {
  a_st : st;                 (* the calling Broker's request state (lib/Requests.v) *)
  a_disc : Z;                (* Banana.discardCount *)
  a_inopen : bool;           (* Banana.inOpen *)
  a_first : bool;            (* no index token of the current OPEN seen yet (len(self.opentype) == 0) *)
  a_inbopen : Z;             (* Banana.inboundOpenCount *)
  a_top : utop;
  a_cs : C;
  a_vocab : list (Z * list Z);
  a_dead : bool              (* an exception escaped handleData: connectionAbandoned *)
}.

Definition set_st (c : actx) (s : st) := mkA s (a_disc c) (a_inopen c) (a_first c) (a_inbopen c) (a_top c) (a_cs c) (a_vocab c) (a_dead c).
Definition set_disc (c : actx) (d : Z) := mkA (a_st c) d (a_inopen c) (a_first c) (a_inbopen c) (a_top c) (a_cs c) (a_vocab c) (a_dead c).
Definition set_inopen (c : actx) (b : bool) := mkA (a_st c) (a_disc c) b (a_first c) (a_inbopen c) (a_top c) (a_cs c) (a_vocab c) (a_dead c).
Definition set_first (c : actx) (b : bool) := mkA (a_st c) (a_disc c) (a_inopen c) b (a_inbopen c) (a_top c) (a_cs c) (a_vocab c) (a_dead c).
Definition set_inbopen (c : actx) (n : Z) := mkA (a_st c) (a_disc c) (a_inopen c) (a_first c) n (a_top c) (a_cs c) (a_vocab c) (a_dead c).
Definition set_top (c : actx) (t : utop) := mkA (a_st c) (a_disc c) (a_inopen c) (a_first c) (a_inbopen c) t (a_cs c) (a_vocab c) (a_dead c).
Definition set_cs (c : actx) (x : C) := mkA (a_st c) (a_disc c) (a_inopen c) (a_first c) (a_inbopen c) (a_top c) x (a_vocab c) (a_dead c).
Definition set_dead (c : actx) := mkA (a_st c) (a_disc c) (a_inopen c) (a_first c) (a_inbopen c) (a_top c) (a_cs c) (a_vocab c) true.

(* the ONLY way the request state changes: the listed operations of lib/Requests.v are applied, in order *)
Definition emit (c : actx) (es : list op) : actx * list op := (set_st c (run_from (a_st c) es), es).

Definition fatal (c : actx) : actx * list op := (set_dead c, []).

(* Answer/ErrorUnslicer.reportViolation (translated: report_kind) *)
Definition report_emits (err : bool) (h : nat) : list op :=
  match (if err then error_reportViolation else answer_reportViolation) with
  | ReportFailsBound => [Fail h OViolation]
  | ReportIgnores => []
  end.

(* Banana.handleViolation: everything above the root gives up (reportViolation returns the failure), the root absorbs *)
Definition violation (c : actx) (inOpenFlag inClose : bool) : actx * list op :=
  let d := a_disc c + (if inOpenFlag then 1 else 0) in
  let dec := if inClose then 1 else 0 in
  match a_top c with
  | URoot => (set_disc c d, [])
  | UWantId _ _ => (set_top (set_disc c (d + 1 - dec)) URoot, [])
  | UBody err h _ _ kids => emit (set_top (set_disc c (d + lenZ kids + 1 - dec)) URoot) (report_emits err h)
  | UOther _ kids => (set_top (set_disc c (d + lenZ kids + 1 - dec)) URoot, [])
  end.

Definition push_kid (t : utop) (oc : Z) : utop :=
  match t with
  | UBody e h hv o kids => UBody e h hv o (oc :: kids)
  | UOther o kids => UOther o (oc :: kids)
  | t => t
  end.

(* handleOpen for an index token whose unslicer is decided by the oracle *)
Definition oracle_open (c : actx) (ty hdr : Z) (body : list Z) : actx * list op :=
  let '(r, cs') := after (a_cs c) (a_top c) true ty hdr body in
  let c2 := set_cs c cs' in
  match r with
  | DMore => (c2, [])
  | DViol => violation (set_inopen c2 false) true false
  | DBanana => fatal c2
  | DOk | DLate =>
    match a_top c with
    | URoot => (set_top (set_inopen c2 false) (UOther (a_inbopen c) []), [])
    | UWantId _ _ => fatal c2
    | t => (set_top (set_inopen c2 false) (push_kid t (a_inbopen c)), [])
    end
  end.

(* handleOpen; PBTopRegistry (translated: answer_opentype, error_opentype) maps the first index token at top level *)
Definition handle_open (c : actx) (ty hdr : Z) (body : list Z) (v : val) : actx * list op :=
  let first := a_first c in
  let c1 := set_first c false in
  match a_top c, v with
  | URoot, VStr b =>
    if first && list_eqb b answer_opentype then (set_top (set_inopen c1 false) (UWantId false (a_inbopen c)), [])
    else if first && list_eqb b error_opentype then (set_top (set_inopen c1 false) (UWantId true (a_inbopen c)), [])
    else oracle_open c1 ty hdr body
  | _, _ => oracle_open c1 ty hdr body
  end.

(* handleToken: top.receiveChild(obj) *)
Definition handle_token (c : actx) (ty hdr : Z) (body : list Z) (v : val) : actx * list op :=
  match a_top c with
  | URoot => (c, [])
  | UWantId err oc =>
    match v with
    | VInt rid =>
      match tbl_find rid (table (a_st c)) with          (* Broker.getRequest *)
      | Some h => (set_top c (UBody err h false oc []), [])
      | None => violation c false false                  (* KeyError -> Violation; self.request stays None *)
      end
    | _ => fatal c
    end
  | UBody err h _ oc [] => (set_top c (UBody err h true oc []), [])
  | _ =>
    let '(r, cs') := after (a_cs c) (a_top c) false ty hdr body in
    let c2 := set_cs c cs' in
    match r with
    | DViol => violation c2 false false
    | DBanana => fatal c2
    | _ => (c2, [])
    end
  end.

Definition deliver (c : actx) (ty hdr : Z) (body : list Z) (v : val) : actx * list op :=
  if a_inopen c then handle_open c ty hdr body v else handle_token c ty hdr body v.

(* handleClose *)
Definition handle_close (c : actx) (count : Z) : actx * list op :=
  match a_top c with
  | URoot => fatal c                                     (* lost sync *)
  | UWantId _ _ => fatal c                               (* lost sync / "Answer didn't include an answer" / AttributeError *)
  | UBody err h have oc [] =>
    if negb (oc =? count) then fatal c
    else if negb have then fatal c
    else if err then emit (set_top c URoot) [Fail h ORemoteError]
    else let '(r, cs') := after (a_cs c) (a_top c) false tok_CLOSE count [] in
         let c2 := set_top (set_cs c cs') URoot in
         match r with DLate => (c2, []) | _ => emit c2 [Complete h] end
  | UBody err h have oc (k :: kids) =>
    if negb (k =? count) then fatal c
    else let '(r, cs') := after (a_cs c) (a_top c) false tok_CLOSE count [] in
         let c2 := set_cs c cs' in
         match r with
         | DViol => violation c2 false true
         | DBanana => fatal c2
         | _ => (set_top c2 (UBody err h (match kids with [] => true | _ => have end) oc kids), [])
         end
  | UOther oc kids =>
    if negb ((match kids with [] => oc | k :: _ => k end) =? count) then fatal c
    else let '(r, cs') := after (a_cs c) (a_top c) false tok_CLOSE count [] in
         let c2 := set_cs c cs' in
         match r with
         | DViol => violation c2 false true
         | DBanana => fatal c2
         | _ => (set_top c2 (match kids with [] => URoot | _ :: kids' => UOther oc kids' end), [])
         end
  end.

(* top.checkToken / top.openerCheckToken *)
Definition taste_of (c : actx) (wasInOpen : bool) (ty hdr : Z) : ck :=
  if wasInOpen then taste (a_cs c) (a_top c) true ty hdr
  else match a_top c with
       | URoot => if ty =? tok_OPEN then CkOk else CkBanana           (* PBRootUnslicer.checkToken *)
       | UWantId _ _ => if ty =? tok_INT then CkOk else CkBanana      (* "request ID must be an INT" *)
       | UBody _ _ true _ [] => CkBanana                              (* "stop sending me stuff!" *)
       | _ => taste (a_cs c) (a_top c) false ty hdr
       end.

(* an ABORT that is not being ignored: "raise Violation('ABORT received')" *)
Definition abort_violation (c : actx) : actx * list op :=
  if abort_in_index_phase_abandons_sequence
  then let r := violation c (a_inopen c) false in (set_inopen (fst r) false, snd r)
  else violation c false false.

(* the clauses of handleData for a token without a body, after the taste *)
Definition clauses (c2 : actx) (es : list op) (rejected : bool) (ty hdr : Z) : actx * list op :=
  let cont (r : actx * list op) := (fst r, es ++ snd r) in
  if ty =? tok_OPEN then
    let c3 := set_inbopen c2 hdr in
    if rejected then (if a_inopen c3 then (set_inopen (set_disc c3 (a_disc c3 + 1)) false, es) else (c3, es))
    else (set_first (set_inopen c3 true) true, es)
  else if ty =? tok_CLOSE then
    (* translated: close_in_index_phase_is_fatal -- "CLOSE token in the index phase of an OPEN sequence" *)
    if close_in_index_phase_is_fatal && a_inopen c2 && negb (0 <? a_disc c2) then (set_dead c2, es)
    else if 0 <? a_disc c2 then (set_disc c2 (a_disc c2 - 1), es) else cont (handle_close c2 hdr)
  else if ty =? tok_ABORT then
    (* translated: abort_in_index_phase_abandons_sequence -- handleViolation(.., inOpen=self.inOpen); self.inOpen = False *)
    (if rejected then (c2, es) else cont (abort_violation c2))
  else if ty =? tok_INT then (if rejected then (c2, es) else cont (deliver c2 ty hdr [] (VInt hdr)))
  else if ty =? tok_NEG then (if rejected then (c2, es) else cont (deliver c2 ty hdr [] (VInt (- hdr))))
  else if ty =? tok_VOCAB then
    match vocab_get (a_vocab c2) hdr with
    | None => (set_dead c2, es)                                       (* KeyError, even while discarding *)
    | Some w => if rejected then (c2, es) else cont (deliver c2 ty hdr w (VStr w))
    end
  else if (ty =? tok_PING) || (ty =? tok_PONG) then (c2, es)
  else (set_dead c2, es).                                             (* LIST / invalid type byte *)

Definition step_nobody_a (c : actx) (ty hdr : Z) : actx * list op :=
  if a_dead c then (c, [])
  else if (ty =? tok_OPEN) && a_inopen c then fatal c                 (* "OPEN token followed by OPEN" *)
  else
    let wasInOpen := a_inopen c in
    let rejected0 := 0 <? a_disc c in
    let c1 := if ty =? tok_OPEN then set_inopen c true else c in
    let exempt := (ty =? tok_PING) || (ty =? tok_PONG) || (ty =? tok_ABORT) || (ty =? tok_CLOSE) in
    if rejected0 || exempt then clauses c1 [] rejected0 ty hdr
    else match taste_of c1 wasInOpen ty hdr with
         | CkOk => clauses c1 [] false ty hdr
         | CkBanana => fatal c1
         | CkViol => let '(c', es) := violation c1 (a_inopen c1) false in clauses (set_inopen c' false) es true ty hdr
         end.

Definition begin_body_a (c : actx) (ty hdr : Z) : bres actx op :=
  if a_dead c then BReject c []
  else if 0 <? a_disc c then BReject c []
  else match taste_of c (a_inopen c) ty hdr with
       | CkOk => BAccept
       | CkBanana => BReject (set_dead c) []
       | CkViol => let '(c', es) := violation c (a_inopen c) false in BReject (set_inopen c' false) es
       end.

Definition finish_body_a (c : actx) (ty hdr : Z) (body : list Z) : actx * list op :=
  deliver c ty hdr body (body_val ty body).

Definition to_h (r : actx * list op) : hres2 actx op := HCont (fst r) (snd r).

Definition afeed := Recv.feed actx op begin_body_a (fun c ty hdr body => to_h (finish_body_a c ty hdr body))
                              (fun c ty hdr => to_h (step_nobody_a c ty hdr)) [] [] (fun _ => []).
Definition afeed_all := Recv.feed_all actx op begin_body_a (fun c ty hdr body => to_h (finish_body_a c ty hdr body))
                              (fun c ty hdr => to_h (step_nobody_a c ty hdr)) [] [] (fun _ => []).

Definition ctx0 (s : st) (cs : C) (voc : list (Z * list Z)) : actx := mkA s 0 false false 0 URoot cs voc false.

(* ---- the calling Broker as a whole: operations of lib/Requests.v interleaved with chunks of received bytes ---- *)
Inductive jop := JOp (x : op) | JData (chunk : list Z).

Definition japply (s : rstate actx) (x : op) : rstate actx :=
  Recv.mk (set_st (r_ctx s) (step (a_st (r_ctx s)) x)) (r_buf s) (r_skip s) (r_dead s).

Definition jstep (s : rstate actx) (j : jop) : rstate actx * list op :=
  match j with
  | JOp x => (japply s x, [x])
  | JData ch => afeed s ch
  end.

Fixpoint jrun (s : rstate actx) (js : list jop) {struct js} : rstate actx * list op :=
  match js with
  | [] => (s, [])
  | j :: r => let '(s1, e1) := jstep s j in let '(s2, e2) := jrun s1 r in (s2, e1 ++ e2)
  end.

Definition jinit (cs : C) (voc : list (Z * list Z)) : rstate actx := Recv.init (ctx0 Requests.init cs voc).
Definition jst (s : rstate actx) : st := a_st (r_ctx s).
(* no further byte will be looked at *)
Definition jdead (s : rstate actx) : bool := r_dead s || a_dead (r_ctx s).

(* snapshots for the correspondence: the request state after every item *)
Fixpoint jsnaps (s : rstate actx) (js : list jop) {struct js} : list (st * bool) :=
  match js with
  | [] => []
  | j :: r => let s1 := fst (jstep s j) in (jst s1, jdead s1) :: jsnaps s1 r
  end.

End AnswerRecv.

Arguments a_st {C}. Arguments a_disc {C}. Arguments a_inopen {C}. Arguments a_top {C}. Arguments a_cs {C}.
Arguments a_dead {C}. Arguments a_first {C}. Arguments a_inbopen {C}. Arguments a_vocab {C}.

(* ------------------------------------------------------------------------------------------------------------
   The concrete oracle used by the correspondence: result constraints given by the taster tables read from the
   real constraint objects (Constraint.checkToken is modelled: type byte not in the table -> Violation; size above the
   limit -> Violation), PBRootUnslicer.openerCheckToken for index tokens, children below an unconstrained answer and
   below an error accept everything a well-behaved peer sends. *)
Definition taster := list (Z * option Z).                 (* type byte -> None (no limit) | Some limit *)
Record coracle := { co_tasters : list (option taster);   (* per handle: None = no result constraint *)
                    co_max_index : Z;                    (* RootUnslicer.maxIndexLength *)
                    co_copyable : list Z;                 (* "copyable": doOpen waits for a second index token ... *)
                    co_max_copyable : Z;                  (* ... whose length is limited by the longest registered name *)
                    co_second : bool;                     (* state: the next index token is that second one *)
                    co_known : list (list Z);             (* the one-token opentypes of the real open registries *)
                    co_copyables : list (list Z) }.       (* the names in the real CopyableRegistry *)
Definition co_set_second (o : coracle) (b : bool) : coracle :=
  {| co_tasters := co_tasters o; co_max_index := co_max_index o; co_copyable := co_copyable o;
     co_max_copyable := co_max_copyable o; co_second := b; co_known := co_known o; co_copyables := co_copyables o |}.

Fixpoint taster_get (t : taster) (ty : Z) : option (option Z) :=
  match t with [] => None | (k, l) :: r => if k =? ty then Some l else taster_get r ty end.

Definition check_taster (t : taster) (ty size : Z) : ck :=
  match taster_get t ty with
  | None => CkViol
  | Some None => CkOk
  | Some (Some limit) => if limit <? size then CkViol else CkOk
  end.

Definition failure_taster : taster := [(tok_OPEN, None)].

Definition c_taste (o : coracle) (t : utop) (inOpen : bool) (ty size : Z) : ck :=
  if inOpen then
    (if ty =? tok_STRING then (if (if co_second o then co_max_copyable o else co_max_index o) <? size then CkViol else CkOk)
     else if ty =? tok_VOCAB then CkOk else CkViol)
  else match t with
       | UBody false h false _ [] =>
         match nth_error (co_tasters o) h with
         | Some (Some tb) => check_taster tb ty size
         | _ => CkOk
         end
       | UBody true _ false _ [] => check_taster failure_taster ty size
       | _ => CkOk
       end.

Definition c_after (o : coracle) (t : utop) (inOpen : bool) (ty hdr : Z) (body : list Z) : dres * coracle :=
  if inOpen then
    match t with
    | URoot | UOther _ _ => (DViol, co_set_second o false)     (* no further top-level opentype / inbound calls: not in the streams *)
    | _ =>
      if co_second o then ((if existsb (list_eqb body) (co_copyables o) then DOk else DViol), co_set_second o false)
      else if list_eqb body (co_copyable o) then (DMore, co_set_second o true)
      else ((if existsb (list_eqb body) (co_known o) then DOk else DViol), o)
    end
  else (DOk, o).
