(* The Banana-level receive logic of banana.py -- the part of handleData between the header scan and the token
   clauses (discardCount / inOpen / rejected bookkeeping, the taste), handleOpen, handleToken, handleClose,
   handleViolation and dataReceived's catch-all -- written ONCE over an ABSTRACT unslicer semantics:
   every IUnslicer callback is a parameter that returns  ok | Violation | BananaError | any other exception.
   It is an instance of the generic tokenizer lib/Recv.v, so chunk independence holds for it whatever the
   unslicers do; lib/UnslProofs.v proves the discard / resynchronisation / numbering / no-escape theorems for
   EVERY unslicer semantics.  Instances: lib/PolUnsl.v (the policy unslicers of harness/c07_impl.py) and
   lib/StdUnsl.v (the standard unslicers of slicers/*.py under a constraint tree of lib/Schema.v).
   Which exceptions dataReceived catches comes from gen/RecvGen.v (translated on every run).  Model only. *)
From Coq Require Import ZArith List Bool Lia.
Import ListNotations.
Require Import Verif.lib.PyLite Verif.gen.BananaGen Verif.gen.RecvGen Verif.lib.Token Verif.lib.Recv.
Local Open Scope Z_scope.

(* objects handed upwards: primitives, and whatever an unslicer's receiveClose returns (tag + data + members) *)
Inductive uval := UInt (z : Z) | UFloat (b : list Z) | UStr (b : list Z) | UNode (tag : Z) (data : list Z) (items : list uval).

Inductive uevent :=
| UDeliver (v : uval)           (* Banana.receivedObject *)
| UViolation                    (* the root's reportViolation absorbed a failure: one top-level object is lost *)
| UPong (n : Z)
| UErrorSent | ULose            (* sendError: ERROR token written; transport.loseConnection *)
| URecvErr (code : Z)           (* reportReceiveError(kind) *)
| UEscaped (code : Z)           (* an exception that dataReceived's handler does NOT catch leaves dataReceived *)
| UUnmodelled.                  (* the model abstains *)

(* outcome of one unslicer callback.  Exception kinds as in gen/RecvGen.v: 0 BananaError .. 9 other Exception *)
Inductive oc (A : Type) := OOk (a : A) | OViol | OBanana | OExc (code : Z).
Arguments OOk {A} a.
Arguments OViol {A}.
Arguments OBanana {A}.
Arguments OExc {A} code.

(* dataReceived's `except` clause: send ERROR, mark the connection abandoned, report -- if the exception is caught at all *)
(* ABSTENTION is a third outcome, neither "ok" nor "the connection is abandoned": an unslicer semantics that does not model some
   behaviour of the real unslicers answers OExc 97 / OExc 98 (reserved: no Python exception has these codes), and the receive logic
   itself abstains on a non-ASCII index token.  Every abstention ends the MODEL's run with the marker event UUnmodelled and nothing
   else -- no ERROR, no loseConnection is claimed -- so `uabstains` below separates it from a real abandonment, and every theorem
   about an instance that can abstain says explicitly that it claims nothing about such a run. *)
Definition abstain_code (k : Z) : bool := (k =? 97) || (k =? 98).

Definition ufatal (code : Z) : list uevent :=
  if abstain_code code then [UUnmodelled]
  else if dr_caught code then [UErrorSent; ULose; URecvErr (if code =? 0 then 0 else if code =? 1 then 1 else 2)] else [UEscaped code].

Definition is_unmodelled (e : uevent) : bool := match e with UUnmodelled => true | _ => false end.
Definition abstained (es : list uevent) : bool := existsb is_unmodelled es.

Section Unsl.
Variable fr : Type.                                                   (* the state of one unslicer *)
Variable u_check : fr -> Z -> Z -> oc unit.                           (* top.checkToken(typebyte, size) *)
Variable u_opener_check : list fr -> Z -> Z -> list (list Z) -> oc unit.   (* top.openerCheckToken(typebyte, size, opentype); stack top first *)
Variable u_do_open : list fr -> list (list Z) -> oc (option fr).      (* top.doOpen(opentype): None = wants another index token *)
Variable u_start : fr -> Z -> oc fr.                                  (* child.start(objectCount) *)
Variable u_child : fr -> uval -> list uevent * oc fr.                 (* top.receiveChild(obj) *)
Variable u_close : fr -> oc uval.                                     (* top.receiveClose() *)
Variable u_finish : fr -> oc unit.                                    (* top.finish() *)
Variable u_report : fr -> option (list uevent).                       (* top.reportViolation(f): Some = absorbed *)

Record ufr := { uf_open : option Z; uf_st : fr }.                     (* .openCount (None on the root) and the unslicer *)

Record uctx := {
  u_discard : Z; u_inOpen : bool; u_opentype : list (list Z); u_stack : list ufr;
  u_objctr : Z; u_inbObj : Z; u_inbOpen : Z; u_vocab : list (Z * list Z) }.

Definition uw_stack (c : uctx) (d : Z) (st : list ufr) : uctx :=
  {| u_discard := d; u_inOpen := u_inOpen c; u_opentype := u_opentype c; u_stack := st; u_objctr := u_objctr c;
     u_inbObj := u_inbObj c; u_inbOpen := u_inbOpen c; u_vocab := u_vocab c |}.
Definition uw_inOpen (c : uctx) (b : bool) : uctx :=
  {| u_discard := u_discard c; u_inOpen := b; u_opentype := u_opentype c; u_stack := u_stack c; u_objctr := u_objctr c;
     u_inbObj := u_inbObj c; u_inbOpen := u_inbOpen c; u_vocab := u_vocab c |}.
Definition uw_opentype (c : uctx) (o : list (list Z)) : uctx :=
  {| u_discard := u_discard c; u_inOpen := u_inOpen c; u_opentype := o; u_stack := u_stack c; u_objctr := u_objctr c;
     u_inbObj := u_inbObj c; u_inbOpen := u_inbOpen c; u_vocab := u_vocab c |}.

Definition uctx0 (root : fr) (voc : list (Z * list Z)) : uctx :=
  {| u_discard := 0; u_inOpen := false; u_opentype := []; u_stack := [{| uf_open := None; uf_st := root |}];
     u_objctr := 0; u_inbObj := 0; u_inbOpen := 0; u_vocab := voc |}.

Inductive uhr := UOk (c : uctx) (es : list uevent) | UFatal (es : list uevent).

(* the three-way reading of a result *)
Inductive uhr3 := U3Ok (c : uctx) (es : list uevent) | U3Abandoned (es : list uevent) | U3Abstains.
Definition uview (r : uhr) : uhr3 :=
  match r with UOk c es => U3Ok c es | UFatal es => if abstained es then U3Abstains else U3Abandoned es end.
Definition uabstains (r : uhr) : bool := match r with UOk _ _ => false | UFatal es => abstained es end.

Definition upre (es : list uevent) (r : uhr) : uhr :=
  match r with UOk c es' => UOk c (es ++ es') | UFatal es' => UFatal (es ++ es') end.

(* ---- handleViolation ---- *)
Inductive hvres := HvOk (st : list ufr) (d : Z) (es : list uevent) | HvFatal (es : list uevent).

(* the while loop: ask the top to report; if it hands the failure back it is popped (counted unless inClose),
   finish()ed (a Violation there is swallowed), and its parent is asked; an empty stack is a BananaError *)
Fixpoint uhv_loop (st : list ufr) (d : Z) (inClose : bool) : hvres :=
  match st with
  | [] => HvFatal (ufatal 6)
  | top :: rest =>
    match u_report (uf_st top) with
    | Some es => HvOk st d es
    | None =>
      let d' := if inClose then d else d + 1 in
      match u_finish (uf_st top) with
      | OBanana => HvFatal (ufatal 0)
      | OExc k => HvFatal (ufatal k)
      | _ => match rest with
             | [] => HvFatal (ufatal 0)                 (* "you killed the RootUnslicer" *)
             | _ => uhv_loop rest d' false
             end
      end
    end
  end.

Definition uhandle_violation (c : uctx) (inOpenFlag inClose : bool) : uhr :=
  let d := if inOpenFlag then u_discard c + 1 else u_discard c in
  match uhv_loop (u_stack c) d inClose with
  | HvFatal es => UFatal es
  | HvOk st' d' es => UOk (uw_stack c d' st') es
  end.

(* ---- handleToken ---- *)
Definition uhandle_token (c : uctx) (v : uval) : uhr :=
  match u_stack c with
  | [] => UFatal (ufatal 6)
  | top :: rest =>
    let '(es, r) := u_child (uf_st top) v in
    match r with
    | OOk f' => UOk (uw_stack c (u_discard c) ({| uf_open := uf_open top; uf_st := f' |} :: rest)) es
    | OViol => upre es (uhandle_violation c false false)
    | OBanana => UFatal (es ++ ufatal 0)
    | OExc k => UFatal (es ++ ufatal k)
    end
  end.

(* ---- handleClose ---- *)
Definition opt_is (o : option Z) (n : Z) : bool := match o with Some m => m =? n | None => false end.

Definition uhandle_close (c : uctx) (count : Z) : uhr :=
  match u_stack c with
  | [] => UFatal (ufatal 6)
  | top :: rest =>
    if negb (opt_is (uf_open top) count) then UFatal (ufatal 0)          (* lost sync (the root's openCount is None) *)
    else match u_close (uf_st top) with
         | OViol => uhandle_violation c false true
         | OBanana => UFatal (ufatal 0)
         | OExc k => UFatal (ufatal k)
         | OOk obj =>
           match u_finish (uf_st top) with
           | OViol => uhandle_violation c false true
           | OBanana => UFatal (ufatal 0)
           | OExc k => UFatal (ufatal k)
           | OOk _ => uhandle_token (uw_stack c (u_discard c) rest) obj
           end
         end
  end.

(* ---- handleOpen ---- *)
Definition uascii (b : list Z) : bool := forallb (fun x => (0 <=? x) && (x <? 128)) b.

Definition uhandle_open (c : uctx) (v : uval) : uhr :=
  match v with
  | UStr b =>
    if negb (uascii b) then UFatal [UUnmodelled]
    else
    let ot := u_opentype c ++ [b] in
    let c1 := uw_opentype c ot in
    match u_stack c with
    | [] => UFatal (ufatal 6)
    | _ :: _ =>
      match u_do_open (map uf_st (u_stack c)) ot with
      | OOk None => UOk c1 []                                           (* wants more index tokens: inOpen stays set *)
      | OViol => uhandle_violation (uw_inOpen c1 false) true false
      | OBanana => UFatal (ufatal 0)
      | OExc k => UFatal (ufatal k)
      | OOk (Some child) =>
        let push (f : fr) := uw_stack (uw_inOpen c1 false) (u_discard c) ({| uf_open := Some (u_inbOpen c); uf_st := f |} :: u_stack c) in
        match u_start child (u_inbObj c) with
        | OOk child' => UOk (push child') []
        | OViol => uhandle_violation (push child) false false
        | OBanana => UFatal (ufatal 0)
        | OExc k => UFatal (ufatal k)
        end
      end
    end
  | _ => UFatal (ufatal 2)         (* six.ensure_str(<not bytes>) raises TypeError *)
  end.

Definition udeliver (c : uctx) (v : uval) : uhr := if u_inOpen c then uhandle_open c v else uhandle_token c v.

(* ---- the taste (try: top.checkToken / top.openerCheckToken   except Violation: ...) ---- *)
Definition utaste (c : uctx) (wasInOpen : bool) (ty hdr : Z) : oc unit :=
  match u_stack c with
  | [] => OExc 6
  | top :: _ => if wasInOpen then u_opener_check (map uf_st (u_stack c)) ty hdr (u_opentype c) else u_check (uf_st top) ty hdr
  end.

Definition uto_generic (r : uhr) : hres2 uctx uevent := match r with UOk c es => HCont c es | UFatal es => HFatal es end.

Definition ubegin_body (c : uctx) (ty hdr : Z) : bres uctx uevent :=
  if 0 <? u_discard c then BReject c []
  else match utaste c (u_inOpen c) ty hdr with
       | OOk _ => BAccept
       | OBanana => BFatal (ufatal 0)
       | OExc k => BFatal (ufatal k)
       | OViol =>
         match uhandle_violation c (u_inOpen c) false with
         | UOk c' es => BReject (uw_inOpen c' false) es
         | UFatal es => BFatal es
         end
       end.

Definition ubody_val (ty : Z) (body : list Z) : uval :=
  if ty =? tok_STRING then UStr body
  else if ty =? tok_FLOAT then UFloat body
  else if ty =? tok_LONGINT then UInt (be256 body 0)
  else UInt (- be256 body 0).

Definition ufinish_body (c : uctx) (ty hdr : Z) (body : list Z) : hres2 uctx uevent :=
  uto_generic (udeliver c (ubody_val ty body)).

Fixpoint uvocab_get (v : list (Z * list Z)) (i : Z) : option (list Z) :=
  match v with [] => None | (k, w) :: r => if k =? i then Some w else uvocab_get r i end.

Inductive tasted := TsFatal (es : list uevent) | TsGo (c : uctx) (es : list uevent) (rejected : bool).

(* every type byte without a body, except ERROR *)
Definition ustep_nobody_hr (c : uctx) (ty hdr : Z) : uhr :=
  let rejected0 := 0 <? u_discard c in
  let wasInOpen := u_inOpen c in
  if (ty =? tok_OPEN) && u_inOpen c then UFatal (ufatal 0)              (* OPEN token followed by OPEN *)
  else
  let c1 := if ty =? tok_OPEN then
              {| u_discard := u_discard c; u_inOpen := true; u_opentype := u_opentype c; u_stack := u_stack c;
                 u_objctr := u_objctr c + 1; u_inbObj := u_objctr c; u_inbOpen := u_inbOpen c; u_vocab := u_vocab c |}
            else c in
  let exempt := existsb (Z.eqb ty) hd_exempt in
  let t : tasted :=
    if rejected0 || exempt then TsGo c1 [] rejected0
    else match utaste c1 wasInOpen ty hdr with
         | OOk _ => TsGo c1 [] false
         | OBanana => TsFatal (ufatal 0)
         | OExc k => TsFatal (ufatal k)
         | OViol => match uhandle_violation c1 (u_inOpen c1) false with
                    | UOk c' es => TsGo (uw_inOpen c' false) es true
                    | UFatal es => TsFatal es
                    end
         end in
  match t with
  | TsFatal es => UFatal es
  | TsGo c2 es rejected =>
    if ty =? tok_OPEN then
      let c3 := {| u_discard := u_discard c2; u_inOpen := u_inOpen c2; u_opentype := u_opentype c2; u_stack := u_stack c2;
                   u_objctr := u_objctr c2; u_inbObj := u_inbObj c2; u_inbOpen := hdr; u_vocab := u_vocab c2 |} in
      if rejected then
        if u_inOpen c3 then UOk (uw_inOpen (uw_stack c3 (u_discard c3 + 1) (u_stack c3)) false) es
        else UOk c3 es
      else UOk (uw_opentype (uw_inOpen c3 true) []) es
    else if ty =? tok_CLOSE then
      if hd_close_fatal (u_inOpen c2) (u_discard c2) then UFatal (es ++ ufatal 0)     (* CLOSE token in the index phase of an OPEN sequence *)
      else if 0 <? u_discard c2 then UOk (uw_stack c2 (u_discard c2 - 1) (u_stack c2)) es
      else upre es (uhandle_close c2 hdr)
    else if ty =? tok_ABORT then
      if rejected then UOk c2 es
      else if hd_abort_in_index then
        upre es (match uhandle_violation c2 (u_inOpen c2) false with
                 | UOk c' es' => UOk (uw_inOpen c' false) es' | UFatal es' => UFatal es' end)
      else upre es (uhandle_violation c2 false false)
    else if ty =? tok_INT then (if rejected then UOk c2 es else upre es (udeliver c2 (UInt hdr)))
    else if ty =? tok_NEG then (if rejected then UOk c2 es else upre es (udeliver c2 (UInt (- hdr))))
    else if ty =? tok_VOCAB then
      match uvocab_get (u_vocab c2) hdr with
      | None => UFatal (es ++ ufatal 1)                                 (* KeyError, even while discarding *)
      | Some w => if rejected then UOk c2 es else upre es (udeliver c2 (UStr w))
      end
    else if ty =? tok_PING then UOk c2 (es ++ [UPong hdr])
    else if ty =? tok_PONG then UOk c2 es
    else UFatal (es ++ ufatal 0)                                        (* LIST / invalid type byte *)
  end.

Definition ustep_nobody (c : uctx) (ty hdr : Z) : hres2 uctx uevent := uto_generic (ustep_nobody_hr c ty hdr).

(* the complete receiver: Banana.dataReceived *)
Definition ufeed := feed uctx uevent ubegin_body ufinish_body ustep_nobody (ufatal 0) (ufatal 0) (fun _ => [ULose]).
Definition ufeed_all := feed_all uctx uevent ubegin_body ufinish_body ustep_nobody (ufatal 0) (ufatal 0) (fun _ => [ULose]).
Definition urun := run uctx uevent ubegin_body ufinish_body ustep_nobody (ufatal 0) (ufatal 0) (fun _ => [ULose]).

(* ---- token-level view ---- *)
Definition utok_apply (c : uctx) (ty hdr : Z) (body : list Z) : uhr :=
  if has_body ty then
    match ubegin_body c ty hdr with
    | BAccept => udeliver c (ubody_val ty body)
    | BReject c' es => UOk c' es
    | BFatal es => UFatal es
    end
  else ustep_nobody_hr c ty hdr.

Definition uopen_depth (c : uctx) : Z :=
  u_discard c + (Z.of_nat (List.length (u_stack c)) - 1) + (if u_inOpen c then 1 else 0).

Definition utok_delta (ty : Z) : Z := if ty =? tok_OPEN then 1 else if ty =? tok_CLOSE then -1 else 0.

Definition uat_top (c : uctx) : Prop := u_discard c = 0 /\ u_inOpen c = false /\ List.length (u_stack c) = 1%nat.

Fixpoint uapply_all (c : uctx) (ts : list (Z * Z * list Z)) : uhr :=
  match ts with
  | [] => UOk c []
  | (ty, hdr, body) :: r =>
    match utok_apply c ty hdr body with
    | UFatal es => UFatal es
    | UOk c' es => upre es (uapply_all c' r)
    end
  end.

(* ---- flattening for the correspondence check ---- *)
Definition usnapshot (s : rstate uctx) : list Z :=
  [lenZ (r_buf s); r_skip s; u_discard (r_ctx s); Z.of_nat (List.length (u_stack (r_ctx s)));
   (if u_inOpen (r_ctx s) then 1 else 0); (if r_dead s then 1 else 0)].

End Unsl.

Fixpoint uval_code (v : uval) : list Z :=
  match v with
  | UInt z => [1; z]
  | UFloat b => 2 :: Z.of_nat (List.length b) :: b
  | UStr b => 3 :: Z.of_nat (List.length b) :: b
  | UNode t d items => 4 :: t :: Z.of_nat (List.length d) :: d ++ Z.of_nat (List.length items) :: flat_map uval_code items
  end.

Definition uevent_code (e : uevent) : list Z :=
  match e with
  | UDeliver v => 10 :: uval_code v
  | UViolation => [11]
  | UPong n => [18; n]
  | UErrorSent => [19]
  | ULose => [20]
  | URecvErr c => [21; c]
  | UEscaped c => [98; c]
  | UUnmodelled => [99]
  end.
