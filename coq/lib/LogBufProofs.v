From Coq Require Import ZArith List Bool Lia.
Import ListNotations.
Require Import Verif.lib.PyLite Verif.gen.LogBufGen Verif.lib.LogBuf.
Local Open Scope Z_scope.
Lemma stub : True. Proof. exact I. Qed.
