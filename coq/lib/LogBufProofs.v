(* C18: lemmas and theorems about lib/LogBuf.v (model) over gen/LogBufGen.v (translated constants / shape facts).
   The proofs unfold the translated values (trim_cmp, trim_pop, add_event_stages, sub_accept_cmp, ...): an edit of the
   source that changes one of them changes the generated file and these proofs are re-checked against it. *)
From Coq Require Import ZArith List Bool Lia Sorting.Permutation Sorting.Sorted.
Import ListNotations.
Require Import Verif.lib.PyLite Verif.gen.LogBufGen Verif.lib.LogBuf.
Local Open Scope Z_scope.

(* ================================================================== A. event numbers *)

Lemma next_num_spec seq : next_num seq = (seq + 1, seq + 1).
Proof. reflexivity. Qed.

Lemma init_seq_val : init_seq = -1.
Proof. reflexivity. Qed.

Lemma msg_inner_seq c s e : s_seq (fst (fst (msg_inner c s e))) = s_seq s.
Proof. unfold msg_inner. destruct (cmpZ _ _ _); reflexivity. Qed.

Lemma msg_inner_sizes c s e : s_sizes (fst (fst (msg_inner c s e))) = s_sizes s.
Proof. unfold msg_inner. destruct (cmpZ _ _ _); reflexivity. Qed.

Lemma fallback_seq c s num id rp k : s_seq (fst (fallback c s num id rp k)) = s_seq s.
Proof.
  unfold fallback. destruct rp; [|reflexivity].
  pose proof (msg_inner_seq c s (mkEv num FAC_INTERNAL fallback_level true (fallback_id id) k)) as H.
  destruct (msg_inner c s _) as [[s2 r] n2]. exact H.
Qed.

Lemma fallback_sizes c s num id rp k : s_sizes (fst (fallback c s num id rp k)) = s_sizes s.
Proof.
  unfold fallback. destruct rp; [|reflexivity].
  pose proof (msg_inner_sizes c s (mkEv num FAC_INTERNAL fallback_level true (fallback_id id) k)) as H.
  destruct (msg_inner c s _) as [[s2 r] n2]. exact H.
Qed.

Lemma end_of_call_seq s n : s_seq (end_of_call s n) = s_seq s.
Proof. reflexivity. Qed.

Definition ret_of (s : st) (o : op) : option Z :=
  match o with
  | Msg (Some n) _ _ _ _ _ => Some (fst n)
  | Msg None _ _ _ _ _ => Some (s_seq s + 1)
  | MsgBad _ _ => Some (s_seq s + 1)
  | _ => None
  end.

Lemma step_ret c s o : snd (step c s o) = ret_of s o.
Proof.
  destruct o as [numo fac lvl okf rp id | rp id | f l n | f l | ]; cbn [step ret_of].
  - destruct numo as [n|]; cbn [next_num];
      [ set (s0 := mkSt (s_seq s) _ _ _ _) | rewrite next_num_spec; set (s0 := mkSt (s_seq s + 1) _ _ _ _) ];
      destruct (msg_inner c s0 _) as [[s1 r] n1]; destruct r; unfold msg_catch_all;
      try (destruct (fallback c s1 _ id rp _) as [s2 n2]); reflexivity.
  - rewrite next_num_spec. unfold msg_catch_all. destruct (fallback c _ _ id rp _) as [s2 n2]. reflexivity.
  - reflexivity.
  - reflexivity.
  - destruct (i_rep (s_inc s)) as [r|]; [destruct (r_timer r)|]; reflexivity.
Qed.

Lemma step_seq c s o : s_seq (fst (step c s o)) = if is_auto o then s_seq s + 1 else s_seq s.
Proof.
  destruct o as [numo fac lvl okf rp id | rp id | f l n | f l | ]; cbn [step is_auto].
  - destruct numo as [n|].
    + set (s0 := mkSt (s_seq s) _ _ _ _).
      pose proof (msg_inner_seq c s0 (mkEv (fst n) fac lvl okf id (snd n))) as H1.
      destruct (msg_inner c s0 _) as [[s1 r] n1]. cbn [fst] in H1. unfold s0 in H1; cbn [s_seq] in H1. destruct r; unfold msg_catch_all.
      * pose proof (fallback_seq c s1 (fst n) id rp (snd n)) as H2. cbn [kind_of]. destruct (fallback c s1 (fst n) id rp (snd n)) as [s2 n2]. cbn [fst] in *.
        rewrite end_of_call_seq. congruence.
      * cbn [fst]. rewrite end_of_call_seq. exact H1.
    + rewrite next_num_spec. set (s0 := mkSt (s_seq s + 1) _ _ _ _).
      pose proof (msg_inner_seq c s0 (mkEv (s_seq s + 1) fac lvl okf id NumInt)) as H1.
      destruct (msg_inner c s0 _) as [[s1 r] n1]. cbn [fst] in H1. unfold s0 in H1; cbn [s_seq] in H1. destruct r; unfold msg_catch_all.
      * pose proof (fallback_seq c s1 (s_seq s + 1) id rp NumInt) as H2. cbn [kind_of]. destruct (fallback c s1 _ id rp _) as [s2 n2]. cbn [fst] in *.
        rewrite end_of_call_seq. congruence.
      * cbn [fst]. rewrite end_of_call_seq. exact H1.
  - rewrite next_num_spec. unfold msg_catch_all.
    pose proof (fallback_seq c (mkSt (s_seq s + 1) (s_sizes s) (s_thr s) (s_bufs s) (s_inc s)) (s_seq s + 1) id rp NumInt) as H2.
    destruct (fallback c _ _ id rp _) as [s2 n2]. cbn [fst] in *. rewrite end_of_call_seq. exact H2.
  - reflexivity.
  - reflexivity.
  - destruct (i_rep (s_inc s)) as [r|]; [destruct (r_timer r)|]; reflexivity.
Qed.

(* msg() always returns a number to its caller: no exception escapes (model: result type; code: measured by the oracle) *)
Theorem msg_total c s o : is_call o = true -> exists n, snd (step c s o) = Some n.
Proof.
  intros H. rewrite step_ret. destruct o as [[n|] ? ? ? ? ? | ? ? | | | ]; cbn in *; try discriminate; eauto.
Qed.

(* the numbers handed out by the logger itself *)
Fixpoint autos (ops : list op) (rs : list (option Z)) : list Z :=
  match ops, rs with
  | o :: t, Some n :: rt => if is_auto o then n :: autos t rt else autos t rt
  | o :: t, None :: rt => autos t rt
  | _, _ => []
  end.

Fixpoint zrange (a : Z) (n : nat) : list Z := match n with O => [] | S k => a :: zrange (a + 1) k end.

Definition count_auto (ops : list op) : nat := List.length (filter is_auto ops).

Lemma autos_exact c ops : forall s, autos ops (snd (run c s ops)) = zrange (s_seq s + 1) (count_auto ops).
Proof.
  induction ops as [|o t IH]; intros s; [reflexivity|].
  cbn [run]. pose proof (step_ret c s o) as Hr. pose proof (step_seq c s o) as Hs.
  destruct (step c s o) as [s1 r]. cbn [fst snd] in *. specialize (IH s1).
  destruct (run c s1 t) as [s2 rs]. cbn [snd] in *. subst r.
  unfold count_auto in *. cbn [filter autos].
  destruct o as [[n|] ? ? ? ? ? | ? ? | | | ]; cbn [ret_of is_auto] in *; cbn [List.length zrange];
    rewrite IH, Hs; reflexivity.
Qed.

Lemma zrange_lower a n : Forall (fun x => a <= x) (zrange a n).
Proof.
  revert a; induction n as [|n IH]; intros a; cbn [zrange]; constructor; [lia|].
  eapply Forall_impl; [|apply (IH (a + 1))]. cbn. intros; lia.
Qed.

Lemma zrange_sorted a n : StronglySorted Z.lt (zrange a n).
Proof.
  revert a; induction n as [|n IH]; intros a; cbn [zrange]; constructor; [apply IH|].
  eapply Forall_impl; [|apply (zrange_lower (a + 1) n)]. cbn. intros; lia.
Qed.

Theorem numbers_strictly_increase c ops s :
  StronglySorted Z.lt (autos ops (snd (run c s ops))) /\ Forall (fun n => s_seq s < n) (autos ops (snd (run c s ops))).
Proof.
  rewrite autos_exact. split; [apply zrange_sorted|].
  eapply Forall_impl; [|apply zrange_lower]. cbn. intros; lia.
Qed.

(* ================================================================== B. history buffers *)

Lemma aget_aset_same {V} k (v : V) l : aget k (aset k v l) = Some v.
Proof.
  induction l as [|[k' v'] t IH]; cbn [aset aget]; [rewrite Z.eqb_refl; reflexivity|].
  destruct (k =? k') eqn:E; cbn [aget]; rewrite E; [reflexivity | exact IH].
Qed.

Lemma aget_aset_other {V} k k' (v : V) l : k <> k' -> aget k' (aset k v l) = aget k' l.
Proof.
  intros Hne. induction l as [|[k2 v2] t IH]; cbn [aset aget].
  - destruct (k' =? k) eqn:E; [apply Z.eqb_eq in E; congruence | reflexivity].
  - destruct (k =? k2) eqn:E; cbn [aget].
    + apply Z.eqb_eq in E; subst k2. destruct (k' =? k) eqn:E2; [apply Z.eqb_eq in E2; congruence | reflexivity].
    + destruct (k' =? k2); [reflexivity | exact IH].
Qed.

Lemma buf_get_set_same b f l q : buf_get (buf_set b f l q) f l = q.
Proof. unfold buf_get, buf_set, dict_of. rewrite aget_aset_same, aget_aset_same. reflexivity. Qed.

Lemma buf_get_set_other b f l q f' l' : (f, l) <> (f', l') -> buf_get (buf_set b f l q) f' l' = buf_get b f' l'.
Proof.
  intros Hne. unfold buf_get, buf_set, dict_of.
  destruct (Z.eq_dec f f') as [->|Hf].
  - rewrite aget_aset_same. rewrite aget_aset_other; [reflexivity | congruence].
  - rewrite aget_aset_other by exact Hf. reflexivity.
Qed.

(* the trimming loop of add_event:  while len(buffer) > sizelimit: buffer.popleft() *)
Lemma trim_loop_spec fuel : forall q limit, (List.length q < fuel)%nat ->
  exists q' r, trim_loop fuel q limit = Some (q', r) /\
    (exists k, q' = skipn k q) /\
    (r = false -> Z.of_nat (List.length q') <= limit) /\
    (r = true -> q' = [] /\ limit < 0).
Proof.
  induction fuel as [|fuel IH]; intros q limit Hf; [lia|].
  cbn [trim_loop]. unfold trim_cmp, cmpZ.
  destruct (limit <? Z.of_nat (List.length q)) eqn:E.
  - unfold trim_pop. destruct q as [|x t]; cbn [pop].
    + exists [], true. split; [reflexivity|]. split; [exists 0%nat; reflexivity|]. split; [discriminate|].
      intros _. apply Z.ltb_lt in E. cbn in E. split; [reflexivity | lia].
    + cbn [List.length] in Hf. destruct (IH t limit ltac:(lia)) as (q' & r & H1 & (k & H2) & H3 & H4).
      exists q', r. split; [exact H1|]. split; [exists (S k); exact H2|]. split; assumption.
  - exists q, false. split; [reflexivity|]. split; [exists 0%nat; reflexivity|]. split; [|discriminate].
    intros _. apply Z.ltb_ge in E. exact E.
Qed.

Lemma trim_spec q limit :
  exists q' r, trim q limit = Some (q', r) /\
    (exists k, q' = skipn k q) /\
    (r = false -> Z.of_nat (List.length q') <= limit) /\
    (r = true -> q' = [] /\ limit < 0).
Proof. unfold trim, trim_kind. apply trim_loop_spec. lia. Qed.

Lemma skipn_length_le {A} k (q : list A) : (List.length (skipn k q) <= List.length q)%nat.
Proof. rewrite skipn_length. lia. Qed.

Definition key (e : event) : Z * Z := (e_fac e, e_lvl e).

(* what add_event does, stage by stage in the translated order *)
Lemma add_event_unfold c sz b i e :
  exists q' r, trim (buf_get b (e_fac e) (e_lvl e) ++ [e]) (limit_of sz (e_fac e) (e_lvl e)) = Some (q', r) /\
    (exists k, q' = skipn k (buf_get b (e_fac e) (e_lvl e) ++ [e])) /\
    (r = false -> Z.of_nat (List.length q') <= limit_of sz (e_fac e) (e_lvl e)) /\
    (r = true -> q' = [] /\ limit_of sz (e_fac e) (e_lvl e) < 0) /\
    let b' := buf_set (buf_set b (e_fac e) (e_lvl e) (buf_get b (e_fac e) (e_lvl e) ++ [e])) (e_fac e) (e_lvl e) q' in
    add_event c sz b i e =
      if r then mkAe b' i true (is_some (i_rep i))
      else mkAe b' (fst (qualifier_stage c b' i e)) (snd (qualifier_stage c b' i e)) (is_some (i_rep i)).
Proof.
  destruct (trim_spec (buf_get b (e_fac e) (e_lvl e) ++ [e]) (limit_of sz (e_fac e) (e_lvl e))) as (q' & r & H1 & H2 & H3 & H4).
  exists q', r. split; [exact H1|]. split; [exact H2|]. split; [exact H3|]. split; [exact H4|].
  unfold add_event, add_event_stages.
  cbn [fold_left add_stage_step x_raised x_bufs x_inc x_notified].
  rewrite buf_get_set_same. rewrite H1. cbn [x_raised x_bufs x_inc x_notified].
  destruct r; [reflexivity|].
  cbn [add_stage_step x_raised x_bufs x_inc x_notified].
  destruct (qualifier_stage c _ i e) as [i' raised]. reflexivity.
Qed.

Definition bufs_le (M : Z) (b : bufs_t) : Prop := forall f l, Z.of_nat (List.length (buf_get b f l)) <= M.
Definition sizes_le (M : Z) (sz : sizes_t) : Prop := forall f l, limit_of sz f l <= M.

Lemma buf_get_nil f l : buf_get [] f l = [].
Proof. reflexivity. Qed.

Lemma add_event_x_bufs c sz b i e :
  exists q', x_bufs (add_event c sz b i e) =
             buf_set (buf_set b (e_fac e) (e_lvl e) (buf_get b (e_fac e) (e_lvl e) ++ [e])) (e_fac e) (e_lvl e) q' /\
    (exists k, q' = skipn k (buf_get b (e_fac e) (e_lvl e) ++ [e])) /\
    (0 <= limit_of sz (e_fac e) (e_lvl e) -> Z.of_nat (List.length q') <= limit_of sz (e_fac e) (e_lvl e)) /\
    (limit_of sz (e_fac e) (e_lvl e) < 0 -> q' = []).
Proof.
  destruct (add_event_unfold c sz b i e) as (q' & r & H1 & H2 & H3 & H4 & H5).
  exists q'. split.
  - cbv zeta in H5. rewrite H5. destruct r; reflexivity.
  - split; [exact H2|]. split.
    + intros Hl. destruct r; [destruct (H4 eq_refl); lia | apply H3; reflexivity].
    + intros Hl. destruct r; [apply H4; reflexivity|]. specialize (H3 eq_refl). lia.
Qed.

Lemma buf_get_after_sets b f l q1 q2 f' l' :
  buf_get (buf_set (buf_set b f l q1) f l q2) f' l' = if Z.eqb f f' && Z.eqb l l' then q2 else buf_get b f' l'.
Proof.
  destruct (Z.eqb_spec f f') as [->|Hf]; [destruct (Z.eqb_spec l l') as [->|Hl]|]; cbn [andb].
  - apply buf_get_set_same.
  - rewrite !buf_get_set_other by congruence. reflexivity.
  - rewrite !buf_get_set_other by congruence. reflexivity.
Qed.

(* immediately after an event on (facility, level) that buffer respects its limit and holds the most recent events *)
Theorem after_event_within_limit c sz b i e :
  0 <= limit_of sz (e_fac e) (e_lvl e) ->
  let q := buf_get (x_bufs (add_event c sz b i e)) (e_fac e) (e_lvl e) in
  Z.of_nat (List.length q) <= limit_of sz (e_fac e) (e_lvl e) /\
  (exists k, q = skipn k (buf_get b (e_fac e) (e_lvl e) ++ [e])) /\
  (forall f l, (f, l) <> (e_fac e, e_lvl e) -> buf_get (x_bufs (add_event c sz b i e)) f l = buf_get b f l).
Proof.
  intros Hl. cbv zeta. destruct (add_event_x_bufs c sz b i e) as (q' & -> & Hk & Hle & _).
  rewrite buf_get_after_sets, !Z.eqb_refl. cbn [andb]. split; [apply Hle; exact Hl|]. split; [exact Hk|].
  intros f l Hne. rewrite buf_get_after_sets.
  destruct (Z.eqb_spec (e_fac e) f) as [<-|]; [destruct (Z.eqb_spec (e_lvl e) l) as [<-|]|]; cbn [andb]; congruence.
Qed.

Lemma add_event_bufs_le M c sz b i e :
  0 <= M -> sizes_le M sz -> bufs_le M b -> bufs_le M (x_bufs (add_event c sz b i e)).
Proof.
  intros HM Hs Hb f l. destruct (add_event_x_bufs c sz b i e) as (q' & -> & Hk & Hle & Hneg).
  rewrite buf_get_after_sets. destruct (Z.eqb (e_fac e) f && Z.eqb (e_lvl e) l); [|apply Hb].
  destruct (Z_lt_le_dec (limit_of sz (e_fac e) (e_lvl e)) 0) as [Hn|Hp].
  - rewrite (Hneg Hn). cbn. exact HM.
  - specialize (Hle Hp). specialize (Hs (e_fac e) (e_lvl e)). lia.
Qed.

Lemma msg_inner_bufs_le M c s e :
  0 <= M -> sizes_le M (s_sizes s) -> bufs_le M (s_bufs s) -> bufs_le M (s_bufs (fst (fst (msg_inner c s e)))).
Proof.
  intros HM Hs Hb. unfold msg_inner. destruct (cmpZ _ _ _); cbn [fst s_bufs]; [exact Hb|].
  apply add_event_bufs_le; assumption.
Qed.

Lemma fallback_bufs_le M c s num id rp k :
  0 <= M -> sizes_le M (s_sizes s) -> bufs_le M (s_bufs s) -> bufs_le M (s_bufs (fst (fallback c s num id rp k))).
Proof.
  intros HM Hs Hb. unfold fallback. destruct rp; [|exact Hb].
  pose proof (msg_inner_bufs_le M c s (mkEv num FAC_INTERNAL fallback_level true (fallback_id id) k) HM Hs Hb) as H.
  destruct (msg_inner c s _) as [[s2 r] n2]. exact H.
Qed.

Definition op_limit_le (M : Z) (o : op) : Prop := match o with SetSize _ _ n => n <= M | _ => True end.

Lemma limit_of_sset f l n sz f' l' :
  limit_of (sset f l n sz) f' l' = if Z.eqb f' f && Z.eqb l' l then n else limit_of sz f' l'.
Proof. unfold limit_of, sset. cbn [sget]. destruct (Z.eqb f' f && Z.eqb l' l); reflexivity. Qed.

Lemma step_bounded M c s o :
  0 <= M -> op_limit_le M o -> sizes_le M (s_sizes s) -> bufs_le M (s_bufs s) ->
  sizes_le M (s_sizes (fst (step c s o))) /\ bufs_le M (s_bufs (fst (step c s o))).
Proof.
  intros HM Ho Hs Hb.
  destruct o as [numo fac lvl okf rp id | rp id | f l n | f l | ]; cbn [step].
  - set (nn := match numo with Some n => (fst n, s_seq s) | None => next_num (s_seq s) end).
    destruct nn as [num seq']. set (s0 := mkSt seq' _ _ _ _).
    pose proof (msg_inner_bufs_le M c s0 (mkEv num fac lvl okf id (kind_of numo)) HM Hs Hb) as H1.
    pose proof (msg_inner_sizes c s0 (mkEv num fac lvl okf id (kind_of numo))) as H1s.
    destruct (msg_inner c s0 _) as [[s1 r] n1]. cbn [fst] in *.
    assert (Hs1 : sizes_le M (s_sizes s1)) by (rewrite H1s; exact Hs).
    destruct r; unfold msg_catch_all.
    + pose proof (fallback_bufs_le M c s1 num id rp (kind_of numo) HM Hs1 H1) as H2.
      pose proof (fallback_sizes c s1 num id rp (kind_of numo)) as H2s.
      destruct (fallback c s1 num id rp _) as [s2 n2]. cbn [fst] in *.
      unfold end_of_call, with_inc; cbn [s_sizes s_bufs]. split; [rewrite H2s; exact Hs1 | exact H2].
    + cbn [fst]. unfold end_of_call, with_inc; cbn [s_sizes s_bufs]. split; assumption.
  - rewrite next_num_spec. unfold msg_catch_all. set (s0 := mkSt _ _ _ _ _).
    pose proof (fallback_bufs_le M c s0 (s_seq s + 1) id rp NumInt HM Hs Hb) as H2.
    pose proof (fallback_sizes c s0 (s_seq s + 1) id rp NumInt) as H2s.
    destruct (fallback c s0 _ id rp _) as [s2 n2]. cbn [fst] in *.
    unfold end_of_call, with_inc; cbn [s_sizes s_bufs]. split; [rewrite H2s; exact Hs | exact H2].
  - cbn [fst s_sizes s_bufs]. split; [|exact Hb]. intros f' l'. rewrite limit_of_sset.
    destruct (Z.eqb f' f && Z.eqb l' l); [exact Ho | apply Hs].
  - cbn [fst s_sizes s_bufs]. split; assumption.
  - destruct (i_rep (s_inc s)) as [r|]; [destruct (r_timer r)|]; cbn [fst with_inc s_sizes s_bufs]; split; assumption.
Qed.

(* memory stays bounded over ANY history: no buffer ever holds more than the largest configured limit *)
Theorem buffers_bounded M c ops : forall s,
  0 <= M -> Forall (op_limit_le M) ops -> sizes_le M (s_sizes s) -> bufs_le M (s_bufs s) ->
  bufs_le M (s_bufs (fst (run c s ops))).
Proof.
  induction ops as [|o t IH]; intros s HM Ho Hs Hb; [exact Hb|].
  cbn [run]. inversion Ho as [|? ? Ho1 Ho2]; subst.
  destruct (step_bounded M c s o HM Ho1 Hs Hb) as [Hs1 Hb1].
  destruct (step c s o) as [s1 r]. cbn [fst] in *.
  specialize (IH s1 HM Ho2 Hs1 Hb1). destruct (run c s1 t) as [s2 rs]. exact IH.
Qed.

Lemma run_bounded M c ops : forall s,
  0 <= M -> Forall (op_limit_le M) ops -> sizes_le M (s_sizes s) -> bufs_le M (s_bufs s) ->
  sizes_le M (s_sizes (fst (run c s ops))) /\ bufs_le M (s_bufs (fst (run c s ops))).
Proof.
  induction ops as [|o t IH]; intros s HM Ho Hs Hb; [split; assumption|].
  cbn [run]. inversion Ho as [|? ? Ho1 Ho2]; subst.
  destruct (step_bounded M c s o HM Ho1 Hs Hb) as [Hs1 Hb1].
  destruct (step c s o) as [s1 r]. cbn [fst] in *.
  specialize (IH s1 HM Ho2 Hs1 Hb1). destruct (run c s1 t) as [s2 rs]. exact IH.
Qed.

(* ... also when the incident handling starts or stops failing (or the reporter kind changes) in mid-history *)
Theorem buffers_bounded_segs M segs : forall s,
  0 <= M -> Forall (fun cs => Forall (op_limit_le M) (snd cs)) segs -> sizes_le M (s_sizes s) -> bufs_le M (s_bufs s) ->
  bufs_le M (s_bufs (run_segs s segs)).
Proof.
  induction segs as [|[c ops] t IH]; intros s HM Ho Hs Hb; [exact Hb|].
  cbn [run_segs]. inversion Ho as [|? ? Ho1 Ho2]; subst. cbn [snd] in Ho1.
  destruct (run_bounded M c ops s HM Ho1 Hs Hb) as [Hs1 Hb1]. apply IH; assumption.
Qed.

Lemma init_sizes_le M : DEFAULT_SIZELIMIT <= M -> sizes_le M (s_sizes init).
Proof. intros H f l. exact H. Qed.

Lemma init_bufs_le M : 0 <= M -> bufs_le M (s_bufs init).
Proof. intros H f l. exact H. Qed.

Corollary buffers_bounded_from_init M c ops :
  DEFAULT_SIZELIMIT <= M -> Forall (op_limit_le M) ops -> bufs_le M (s_bufs (fst (run c init ops))).
Proof.
  intros HM Ho. assert (0 <= M) by (unfold DEFAULT_SIZELIMIT in HM; lia).
  apply buffers_bounded; [assumption | exact Ho | apply init_sizes_le; exact HM | apply init_bufs_le; assumption].
Qed.

Corollary buffers_bounded_segs_from_init M segs :
  DEFAULT_SIZELIMIT <= M -> Forall (fun cs => Forall (op_limit_le M) (snd cs)) segs ->
  forall f l, Z.of_nat (List.length (buf_get (s_bufs (run_segs init segs)) f l)) <= M.
Proof.
  intros H1 H2. assert (0 <= M) by (unfold DEFAULT_SIZELIMIT in H1; lia).
  apply buffers_bounded_segs; [assumption | exact H2 | apply init_sizes_le; exact H1 | apply init_bufs_le; assumption].
Qed.

(* ================================================================== C. Subscription *)

Inductive subseq {A} : list A -> list A -> Prop :=
| ss_nil m : subseq [] m
| ss_cons x l m : subseq l m -> subseq (x :: l) (x :: m)
| ss_skip x l m : subseq l m -> subseq l (x :: m).

Lemma subseq_refl {A} (l : list A) : subseq l l.
Proof. induction l; constructor; assumption. Qed.

Lemma subseq_snoc_both {A} (l m : list A) e : subseq l m -> subseq (l ++ [e]) (m ++ [e]).
Proof.
  induction 1 as [m | x l m H IH | x l m H IH]; cbn [app].
  - induction m as [|y m IH]; cbn [app]; [apply ss_cons, ss_nil | apply ss_skip, IH].
  - apply ss_cons, IH.
  - apply ss_skip, IH.
Qed.

Lemma subseq_snoc_skip {A} (l m : list A) e : subseq l m -> subseq l (m ++ [e]).
Proof. induction 1; cbn [app]; constructor; assumption. Qed.

Lemma subseq_app_l {A} (a b : list A) : forall m, subseq (a ++ b) m -> subseq a m.
Proof.
  induction a as [|x a IH]; intros m H; [constructor|].
  cbn [app] in H. remember (x :: a ++ b) as l eqn:El. induction H as [m | y l m H IHs | y l m H IHs].
  - discriminate.
  - inversion El; subst. apply ss_cons, IH, H.
  - apply ss_skip, IHs, El.
Qed.

Lemma subseq_length {A} (l m : list A) : subseq l m -> (List.length l <= List.length m)%nat.
Proof. induction 1; cbn [List.length]; lia. Qed.

Lemma drain_spec maxfl fuel : forall q infl outst dl,
  let '(q', infl', outst', dl') := drain fuel maxfl q infl outst dl in
  dl' ++ q' = dl ++ q /\ infl' - infl = outst' - outst /\ infl <= infl' /\ (infl <= maxfl -> infl' <= maxfl) /\
  (List.length q' <= List.length q)%nat.
Proof.
  induction fuel as [|fuel IH]; intros q infl outst dl; cbn [drain].
  - repeat split; lia.
  - unfold sub_pop. destruct q as [|x t]; cbn [spop].
    + repeat split; lia.
    + unfold sub_room_cmp, cmpZ, sub_inflight_inc. destruct (0 <? maxfl - infl) eqn:E.
      * specialize (IH t (infl + 1) (outst + 1) (dl ++ [x])).
        destruct (drain fuel maxfl t (infl + 1) (outst + 1) (dl ++ [x])) as [[[q' infl'] outst'] dl'].
        destruct IH as (H1 & H2 & H3 & H4 & H5). apply Z.ltb_lt in E.
        split; [rewrite H1, <- app_assoc; reflexivity|]. cbn [List.length]. repeat split; try lia.
      * repeat split; lia.
Qed.

Definition sub_inv (maxq maxfl : Z) (s : sub) : Prop :=
  Z.of_nat (List.length (q_queue s)) <= maxq /\
  0 <= q_outstanding s /\ q_outstanding s <= q_inflight s /\ q_inflight s <= maxfl /\
  subseq (q_delivered s ++ q_queue s) (q_emitted s).

Lemma sub_step_inv maxq maxfl s o : 0 <= maxq -> sub_inv maxq maxfl s -> sub_inv maxq maxfl (sub_step maxq maxfl s o).
Proof.
  intros Hq (H1 & H2 & H3 & H4 & H5). destruct o as [e | | | ]; cbn [sub_step].
  - destruct (q_subscribed s); [|repeat split; assumption].
    unfold sub_inv, sub_accept_cmp, cmpZ. cbn [q_queue q_inflight q_outstanding q_delivered q_emitted].
    destruct (Z.of_nat (List.length (q_queue s)) <? maxq) eqn:E.
    + apply Z.ltb_lt in E. rewrite app_length. cbn [List.length].
      split; [lia|]. split; [lia|]. split; [lia|]. split; [lia|].
      rewrite app_assoc. apply subseq_snoc_both. exact H5.
    + split; [lia|]. split; [lia|]. split; [lia|]. split; [lia|]. apply subseq_snoc_skip. exact H5.
  - destruct (q_marked s); [|repeat split; assumption].
    pose proof (drain_spec maxfl (List.length (q_queue s)) (q_queue s) (q_inflight s) (q_outstanding s) (q_delivered s)) as D.
    destruct (drain _ maxfl (q_queue s) (q_inflight s) (q_outstanding s) (q_delivered s)) as [[[q' infl'] outst'] dl'].
    destruct D as (D1 & D2 & D3 & D4 & D5).
    unfold sub_inv. cbn [q_queue q_inflight q_outstanding q_delivered q_emitted].
    split; [lia|]. split; [lia|]. split; [lia|]. split; [apply D4; exact H4|]. rewrite D1. exact H5.
  - destruct (0 <? q_outstanding s) eqn:E; [|repeat split; assumption]. apply Z.ltb_lt in E.
    unfold sub_inv, sub_inflight_dec. cbn [q_queue q_inflight q_outstanding q_delivered q_emitted].
    repeat split; try lia; assumption.
  - destruct (0 <? q_outstanding s) eqn:E; [|repeat split; assumption]. apply Z.ltb_lt in E.
    unfold sub_inv. cbn [q_queue q_inflight q_outstanding q_delivered q_emitted].
    repeat split; try lia; assumption.
Qed.

Lemma sub_run_inv maxq maxfl ops : forall s, 0 <= maxq -> sub_inv maxq maxfl s ->
  sub_inv maxq maxfl (fold_left (sub_step maxq maxfl) ops s).
Proof.
  induction ops as [|o t IH]; intros s Hq Hi; [exact Hi|]. cbn [fold_left]. apply IH; [exact Hq|].
  apply sub_step_inv; assumption.
Qed.

Lemma sub_init_inv maxq maxfl : 0 <= maxq -> 0 <= maxfl -> sub_inv maxq maxfl sub_init.
Proof. intros; unfold sub_inv, sub_init; cbn. repeat split; try lia. constructor. Qed.

(* for every schedule of sends, queue turns, acknowledgements and failures of a slow subscriber *)
Theorem subscriber_bounded maxq maxfl ops : 0 <= maxq -> 0 <= maxfl ->
  let s := sub_run maxq maxfl ops in
  Z.of_nat (List.length (q_queue s)) <= maxq /\ 0 <= q_inflight s <= maxfl /\
  subseq (q_delivered s) (q_emitted s) /\ subseq (q_delivered s ++ q_queue s) (q_emitted s).
Proof.
  intros Hq Hf. cbv zeta. unfold sub_run.
  destruct (sub_run_inv maxq maxfl ops sub_init Hq (sub_init_inv maxq maxfl Hq Hf)) as (H1 & H2 & H3 & H4 & H5).
  split; [exact H1|]. split; [lia|]. split; [eapply subseq_app_l; exact H5 | exact H5].
Qed.


(* ================================================================== B'. membership in the buffers *)
Lemma aget_in {V} (k : Z) (l : list (Z * V)) v : aget k l = Some v -> exists k', In (k', v) l.
Proof.
  induction l as [|[k' v'] t IH]; intros Hv; [discriminate|]. cbn [aget] in Hv.
  destruct (k =? k'); [inversion Hv; subst; exists k'; left; reflexivity|].
  destruct (IH Hv) as [k2 Hk2]. exists k2. right. exact Hk2.
Qed.

Lemma aset_in {V} (k : Z) (v : V) l k' v' : In (k', v') (aset k v l) -> v' = v \/ In (k', v') l.
Proof.
  induction l as [|[k0 v0] t IH]; cbn [aset].
  - intros [H|[]]. inversion H; left; reflexivity.
  - destruct (k =? k0).
    + intros [H|H]; [inversion H; left; reflexivity | right; right; exact H].
    + intros [H|H]; [right; left; exact H|]. destruct (IH H) as [ -> |H']; [left; reflexivity | right; right; exact H'].
Qed.

Lemma buf_get_in_all b f l x : In x (buf_get b f l) -> In x (all_buffered b).
Proof.
  unfold buf_get, dict_of, all_buffered. destruct (aget f b) as [d|] eqn:E1; [|intros []].
  destruct (aget l d) as [q|] eqn:E2; [|intros []]. intros Hx.
  destruct (aget_in _ _ _ E1) as [kf Hf]. destruct (aget_in _ _ _ E2) as [kl Hl].
  apply in_flat_map. exists (kf, d). split; [exact Hf|]. cbn [snd]. apply in_flat_map. exists (kl, q). split; assumption.
Qed.

Lemma all_buffered_buf_set b f l q x : In x (all_buffered (buf_set b f l q)) -> In x q \/ In x (all_buffered b).
Proof.
  unfold all_buffered, buf_set. intros H. apply in_flat_map in H. destruct H as ([kf d] & Hd & Hx). cbn [snd] in Hx.
  destruct (aset_in _ _ _ _ _ Hd) as [ -> |Hd'].
  - apply in_flat_map in Hx. destruct Hx as ([kl q'] & Hq & Hx). cbn [snd] in Hx.
    destruct (aset_in _ _ _ _ _ Hq) as [ -> |Hq']; [left; exact Hx|]. right.
    unfold dict_of in Hq'. destruct (aget f b) as [d0|] eqn:E; [|destruct Hq'].
    destruct (aget_in _ _ _ E) as [k0 H0]. apply in_flat_map. exists (k0, d0). split; [exact H0|].
    cbn [snd]. apply in_flat_map. exists (kl, q'). split; assumption.
  - right. apply in_flat_map. exists (kf, d). split; assumption.
Qed.

Lemma skipn_in {A} k (l : list A) x : In x (skipn k l) -> In x l.
Proof. revert l. induction k as [|k IH]; intros l H; [exact H|]. destruct l; [destruct H|]. right. apply IH. exact H. Qed.

Lemma add_event_bufs_in c sz b i e x : In x (all_buffered (x_bufs (add_event c sz b i e))) -> In x (all_buffered b) \/ x = e.
Proof.
  destruct (add_event_x_bufs c sz b i e) as (q' & -> & (k & ->) & _). intros H.
  assert (G : In x (buf_get b (e_fac e) (e_lvl e) ++ [e]) -> In x (all_buffered b) \/ x = e).
  { intros Hx. apply in_app_or in Hx. destruct Hx as [Hx|[ <- |[]]]; [left; eapply buf_get_in_all; exact Hx | right; reflexivity]. }
  apply all_buffered_buf_set in H. destruct H as [H|H]; [apply G; eapply skipn_in; exact H|].
  apply all_buffered_buf_set in H. destruct H as [H|H]; [apply G; exact H | left; exact H].
Qed.

Lemma msg_inner_bufs_in c s e x :
  In x (all_buffered (s_bufs (fst (fst (msg_inner c s e))))) -> In x (all_buffered (s_bufs s)) \/ x = e.
Proof.
  unfold msg_inner. destruct (cmpZ threshold_drop_cmp (e_lvl e) (threshold_of (s_thr s) (e_fac e))); cbn [fst s_bufs];
    [left; assumption | apply add_event_bufs_in].
Qed.


(* ================================================================== D. incidents *)

Lemma insert_perm k e l : Permutation (insert_by_key k e l) (e :: l).
Proof.
  induction l as [|x t IH]; cbn [insert_by_key]; [apply Permutation_refl|].
  destruct (key_of k e <=? key_of k x); [apply Permutation_refl|].
  eapply perm_trans; [apply perm_skip, IH | apply perm_swap].
Qed.

Lemma sort_with_perm k l : Permutation (sort_with k l) l.
Proof.
  induction l as [|x t IH]; cbn [sort_with fold_right]; [constructor|].
  eapply perm_trans; [apply insert_perm | apply perm_skip, IH].
Qed.

Lemma sort_perm l : Permutation (sort_by_num l) l.
Proof. apply sort_with_perm. Qed.

Lemma sort_in l x : In x (sort_by_num l) <-> In x l.
Proof. split; apply Permutation_in; [apply sort_perm | apply Permutation_sym, sort_perm]. Qed.

(* the order a sort establishes: by KEY.  Under the translated key an integer number is its own key and every other
   object has the key d (= -1): integer-numbered events come out in number order (int_num_le, sort_sorted_ints), the
   others sit where -1 sits, in buffer order among themselves (sort_stable_odd) *)
Definition key_le (k : numkey) (a b : event) : Prop := key_of k a <= key_of k b.
Definition num_le : event -> event -> Prop := key_le incident_sort_key.
Definition int_num_le (a b : event) : Prop := is_int a = true -> is_int b = true -> e_num a <= e_num b.

Lemma insert_sorted k e l : StronglySorted (key_le k) l -> StronglySorted (key_le k) (insert_by_key k e l).
Proof.
  induction 1 as [|x t Hs IH Hx]; cbn [insert_by_key]; [repeat constructor|].
  destruct (key_of k e <=? key_of k x) eqn:E.
  - apply Z.leb_le in E. constructor; [constructor; assumption|]. constructor; [exact E|].
    eapply Forall_impl; [|exact Hx]. unfold key_le. intros; lia.
  - apply Z.leb_gt in E. constructor; [exact IH|].
    eapply Permutation_Forall; [apply Permutation_sym, insert_perm|]. constructor; [unfold key_le; lia | exact Hx].
Qed.

Lemma sort_with_sorted k l : StronglySorted (key_le k) (sort_with k l).
Proof. induction l as [|x t IH]; cbn [sort_with fold_right]; [constructor | apply insert_sorted, IH]. Qed.

Lemma sort_sorted l : StronglySorted num_le (sort_by_num l).
Proof. apply sort_with_sorted. Qed.

Lemma sorted_weaken {A} (R S : A -> A -> Prop) l : (forall a b, R a b -> S a b) -> StronglySorted R l -> StronglySorted S l.
Proof.
  intros HRS. induction 1 as [|x t Hs IH Hx]; constructor; [exact IH|]. eapply Forall_impl; [|exact Hx]. apply HRS.
Qed.

Lemma key_le_ints d a b : key_le (KeyIntElse d) a b -> int_num_le a b.
Proof. unfold key_le, key_of, int_num_le. intros H Ha Hb. rewrite Ha, Hb in H. exact H. Qed.

Lemma sort_sorted_ints l : StronglySorted int_num_le (sort_by_num l).
Proof. eapply sorted_weaken; [|apply sort_sorted]. unfold num_le, incident_sort_key. apply key_le_ints. Qed.

(* stability: the events whose keys are equal keep their order; in particular the non-integer ones *)
Lemma insert_filter_odd d e l :
  filter (fun x => negb (is_int x)) (insert_by_key (KeyIntElse d) e l) =
  filter (fun x => negb (is_int x)) (e :: l) \/ is_int e = true.
Proof.
  destruct (is_int e) eqn:Ee; [right; reflexivity|left].
  induction l as [|x t IH]; cbn [insert_by_key]; [reflexivity|].
  destruct (key_of (KeyIntElse d) e <=? key_of (KeyIntElse d) x) eqn:E; [reflexivity|].
  cbn [filter] in *. rewrite Ee in *. cbn [negb] in *.
  destruct (is_int x) eqn:Ex; cbn [negb]; [exact IH|].
  exfalso. unfold key_of in E. rewrite Ee, Ex in E. rewrite Z.leb_refl in E. discriminate.
Qed.

Lemma insert_filter_int d e l : is_int e = true ->
  filter (fun x => negb (is_int x)) (insert_by_key (KeyIntElse d) e l) = filter (fun x => negb (is_int x)) l.
Proof.
  intros Ee. induction l as [|x t IH]; cbn [insert_by_key filter]; [rewrite Ee; reflexivity|].
  destruct (key_of (KeyIntElse d) e <=? key_of (KeyIntElse d) x); cbn [filter]; [rewrite Ee; reflexivity|].
  rewrite IH. reflexivity.
Qed.

Lemma sort_stable_odd l : filter (fun x => negb (is_int x)) (sort_by_num l) = filter (fun x => negb (is_int x)) l.
Proof.
  unfold sort_by_num, incident_sort_key.
  induction l as [|x t IH]; cbn [sort_with fold_right]; [reflexivity|].
  destruct (is_int x) eqn:Ex.
  - rewrite insert_filter_int by exact Ex. fold (sort_with (KeyIntElse (-1)) t). rewrite IH. cbn [filter]. rewrite Ex. reflexivity.
  - destruct (insert_filter_odd (-1) x (fold_right (insert_by_key (KeyIntElse (-1))) [] t)) as [H|H]; [|congruence].
    rewrite H. cbn [filter]. rewrite Ex. cbn [negb]. f_equal. exact IH.
Qed.

Lemma write_all_ok l : forallb enc l = true -> write_all l = (l, true).
Proof.
  induction l as [|e t IH]; cbn [forallb write_all]; [reflexivity|].
  intros H. apply andb_true_iff in H as [H1 H2]. rewrite H1, (IH H2). reflexivity.
Qed.

Lemma forallb_perm {A} (p : A -> bool) l m : Permutation l m -> forallb p l = true -> forallb p m = true.
Proof.
  intros P H. apply forallb_forall. intros x Hx. rewrite forallb_forall in H. apply H.
  eapply Permutation_in; [apply Permutation_sym, P | exact Hx].
Qed.

(* no buffered event's number is an object on which isinstance(.., int) raises: the exact condition under which the
   translated sort key is total (sort_raises (KeyIntElse d) l = existsb is_hostile l) *)
Definition nohost (b : bufs_t) : Prop := existsb is_hostile (all_buffered b) = false.

Lemma nohost_in b : nohost b <-> (forall x, In x (all_buffered b) -> is_hostile x = false).
Proof.
  unfold nohost. split.
  - intros H x Hx. destruct (is_hostile x) eqn:E; [|reflexivity].
    assert (existsb is_hostile (all_buffered b) = true) by (apply existsb_exists; exists x; split; assumption). congruence.
  - intros H. destruct (existsb is_hostile (all_buffered b)) eqn:E; [|reflexivity].
    apply existsb_exists in E. destruct E as (x & Hx & Hh). rewrite (H x Hx) in Hh. discriminate.
Qed.

Lemma sort_total b : nohost b -> sort_raises incident_sort_key (all_buffered b) = false.
Proof. intros H. exact H. Qed.

(* incident_declared when the sort does not raise and the trigger and everything buffered can be encoded *)
Lemma incident_stages_ok c b trig :
  nohost b -> enc trig = true -> forallb enc (all_buffered b) = true ->
  fold_left (inc_stage_step c b trig) incident_stages (mkAcc [] false false false false) =
  mkAcc (sort_by_num (all_buffered b)) (c_trailing c) (c_trailing c) (negb (c_trailing c)) false.
Proof.
  intros Hh Ht Hb.
  assert (W : write_all (sort_by_num (all_buffered b)) = (sort_by_num (all_buffered b), true)).
  { apply write_all_ok. eapply forallb_perm; [apply Permutation_sym, sort_perm | exact Hb]. }
  pose proof (sort_total b Hh) as Hs.
  unfold incident_stages. cbn [fold_left]. unfold inc_stage_step.
  destruct (c_trailing c) eqn:Ec;
    repeat (first [ rewrite Ht | rewrite Hs | rewrite W | progress cbn [negb app a_failed a_lines a_registered a_timer a_finished] ]);
    reflexivity.
Qed.

Lemma incident_declared_ok c b i trig :
  nohost b -> enc trig = true -> forallb enc (all_buffered b) = true ->
  incident_declared c b i trig =
    if c_trailing c
    then (mkInc (Some (mkRep trig (sort_by_num (all_buffered b)) TRAILING_EVENT_LIMIT true)) (i_zombie i) (i_declared i)
                (i_recorded i) (i_files i) (i_junk i), false)
    else (publish (mkRep trig (sort_by_num (all_buffered b)) TRAILING_EVENT_LIMIT false) i, false).
Proof.
  intros Hh Ht Hb. unfold incident_declared. rewrite (incident_stages_ok c b trig Hh Ht Hb).
  destruct (c_trailing c); cbn [negb a_failed a_lines a_registered a_timer a_finished]; reflexivity.
Qed.

Lemma enc_total e : enc e = true.
Proof. reflexivity. Qed.

Lemma forallb_enc_total l : forallb enc l = true.
Proof. apply forallb_forall. intros; apply enc_total. Qed.

(* ... and when it does raise (a buffered event whose number makes isinstance raise): the header is written, a trailing
   reporter is already subscribed, then events.sort raises: incident_declared raises, NOTHING is published; the
   NonTrailing reporter's two files are abandoned for ever (i_junk + 1), the trailing one stays registered without a
   timer (stuck: it never finishes and swallows every later trigger) *)
Lemma incident_declared_lost c b i trig :
  existsb is_hostile (all_buffered b) = true ->
  incident_declared c b i trig =
    if c_trailing c
    then (mkInc (Some (mkRep trig [] TRAILING_EVENT_LIMIT false)) true (i_declared i) (i_recorded i) (i_files i) (i_junk i), true)
    else (mkInc None true (i_declared i) (i_recorded i) (i_files i) (i_junk i + 1), true).
Proof.
  intros Hh. unfold incident_declared, incident_stages. cbn [fold_left]. unfold inc_stage_step.
  assert (Hs : sort_raises incident_sort_key (all_buffered b) = true) by exact Hh.
  destruct (c_trailing c) eqn:Ec;
    repeat (first [ rewrite (enc_total trig) | rewrite Hs | progress cbn [negb app a_failed a_lines a_registered a_timer a_finished] ]);
    reflexivity.
Qed.

Lemma incident_declared_never_fails c b i trig : nohost b ->
  snd (incident_declared c b i trig) = false /\ i_junk (fst (incident_declared c b i trig)) = i_junk i /\
  i_zombie (fst (incident_declared c b i trig)) = i_zombie i.
Proof.
  intros Hh. rewrite (incident_declared_ok c b i trig Hh (enc_total _) (forallb_enc_total _)).
  destruct (c_trailing c); cbn; repeat split; reflexivity.
Qed.

Lemma declare_incident_junk c b i e : nohost b -> i_junk (fst (declare_incident c b i e)) = i_junk i.
Proof.
  intros Hh. unfold declare_incident. destruct (one_reporter_at_a_time && (is_some (i_rep i) || i_zombie i)); [reflexivity|].
  destruct (c_fault c); try reflexivity;
    match goal with |- context [incident_declared c b ?i1 e] =>
      destruct (incident_declared_never_fails c b i1 e Hh) as (A & B & C) end; exact B.
Qed.

Lemma qualifier_stage_junk c b i e : nohost b -> i_junk (fst (qualifier_stage c b i e)) = i_junk i.
Proof.
  intros Hh. unfold qualifier_stage. destruct (c_qual c && _); [|reflexivity].
  destruct (c_fault c) eqn:F; try reflexivity; apply declare_incident_junk; exact Hh.
Qed.

(* ---- the trailing events *)
Lemma trailing_event_step i r ev :
  i_rep i = Some r -> 1 <= r_remaining r ->
  trailing_event i ev =
    mkInc (Some (mkRep (r_trigger r) (if enc ev then r_lines r ++ [ev] else r_lines r) (r_remaining r - 1) (r_timer r)))
          (i_zombie i) (i_declared i) (i_recorded i) (i_files i) (i_junk i).
Proof.
  intros Hr Hl. unfold trailing_event. rewrite Hr. unfold trailing_cmp, trailing_decrement, cmpZ.
  destruct (0 <=? r_remaining r - 1) eqn:E; [reflexivity | apply Z.leb_gt in E; lia].
Qed.

Lemma trailing_fold evs : forall i r,
  i_rep i = Some r -> Z.of_nat (List.length evs) <= r_remaining r ->
  fold_left trailing_event evs i =
    mkInc (Some (mkRep (r_trigger r) (r_lines r ++ filter enc evs) (r_remaining r - Z.of_nat (List.length evs)) (r_timer r)))
          (i_zombie i) (i_declared i) (i_recorded i) (i_files i) (i_junk i).
Proof.
  induction evs as [|ev t IH]; intros i r Hr Hl.
  - cbn [fold_left filter List.length]. rewrite app_nil_r. change (Z.of_nat 0) with 0. rewrite Z.sub_0_r.
    destruct i as [rep z d rc fl j]; cbn in *. subst rep. destruct r; reflexivity.
  - cbn [fold_left]. cbn [List.length] in Hl.
    rewrite (trailing_event_step i r ev Hr) by lia.
    erewrite IH; [|reflexivity|cbn [r_remaining]; lia].
    cbn [r_trigger r_lines r_remaining r_timer i_zombie i_declared i_recorded i_files i_junk filter].
    assert (R : r_remaining r - 1 - Z.of_nat (List.length t) = r_remaining r - Z.of_nat (List.length (ev :: t)))
      by (cbn [List.length]; lia).
    rewrite R. destruct (enc ev); [rewrite <- app_assoc|]; reflexivity.
Qed.

Lemma trailing_event_junk i ev : i_junk (trailing_event i ev) = i_junk i /\ i_zombie (trailing_event i ev) = i_zombie i.
Proof.
  unfold trailing_event. destruct (i_rep i) as [r|]; [|split; reflexivity].
  destruct (cmpZ trailing_cmp _ 0); split; reflexivity.
Qed.

Lemma trailing_fold_junk evs : forall i, i_junk (fold_left trailing_event evs i) = i_junk i.
Proof.
  induction evs as [|ev t IH]; intros i; [reflexivity|]. cbn [fold_left]. rewrite IH. apply trailing_event_junk.
Qed.

(* the 101st trailing event ends the recording and publishes the file *)
Lemma trailing_limit_publishes i r ev :
  i_rep i = Some r -> r_remaining r = 0 ->
  trailing_event i ev = publish (mkRep (r_trigger r) (r_lines r) (-1) (r_timer r)) i.
Proof. intros Hr H0. unfold trailing_event. rewrite Hr, H0. reflexivity. Qed.

(* ---- one unrepresentable event is harmless: full strength in e_ok on the current tree (serialize_total = true).
   EXACT guard in the numbers: no event in the buffers at the moment of the snapshot has a number on which
   isinstance(.., int) raises (nohost; NumOdd numbers -- 'x', None, 1.5, a list, an object -- are INSIDE the guard since
   7a22019).  incident_lost_when_sort_raises below is the other side of the guard. *)
Theorem incident_recorded c sz b i e :
  c_fault c = NoFault -> c_qual c = true -> incident_level <= e_lvl e -> i_rep i = None -> i_zombie i = false ->
  0 <= limit_of sz (e_fac e) (e_lvl e) ->
  let a := add_event c sz b i e in
  nohost (x_bufs a) ->
  x_raised a = false /\
  (c_trailing c = false ->
     i_files (x_inc a) = i_files i ++ [e :: sort_by_num (all_buffered (x_bufs a))] /\
     i_recorded (x_inc a) = i_recorded i + 1 /\ i_junk (x_inc a) = i_junk i /\ i_rep (x_inc a) = None) /\
  (c_trailing c = true ->
     i_rep (x_inc a) = Some (mkRep e (sort_by_num (all_buffered (x_bufs a))) TRAILING_EVENT_LIMIT true) /\
     i_junk (x_inc a) = i_junk i).
Proof.
  intros Hf Hq Hl Hr Hz Hlim. cbv zeta.
  destruct (add_event_unfold c sz b i e) as (q' & r & H1 & H2 & H3 & H4 & H5). cbv zeta in H5.
  destruct r; [destruct (H4 eq_refl); lia|].
  rewrite H5. unfold qualifier_stage. rewrite Hq, Hf. unfold incident_cmp, cmpZ. cbn [andb].
  destruct (incident_level <=? e_lvl e) eqn:E; [|apply Z.leb_gt in E; lia].
  set (b' := buf_set _ _ _ q'). cbn [x_bufs]. intros Hh.
  unfold declare_incident. rewrite Hr, Hz, Hf. unfold one_reporter_at_a_time. cbn [is_some orb andb].
  rewrite (incident_declared_ok c b' _ e Hh (enc_total _) (forallb_enc_total _)).
  destruct (c_trailing c); cbn [fst snd x_raised x_inc x_bufs].
  - split; [reflexivity|]. split; [discriminate|]. intros _. cbn. split; reflexivity.
  - split; [reflexivity|]. split; [|discriminate]. intros _. cbn. repeat split; reflexivity.
Qed.

(* the same, valid whatever serialize_to_json_utf8 looks like, for histories whose buffered events can be encoded *)
Theorem incident_recorded_guarded c sz b i e :
  c_fault c = NoFault -> c_qual c = true -> incident_level <= e_lvl e -> i_rep i = None -> i_zombie i = false ->
  0 <= limit_of sz (e_fac e) (e_lvl e) ->
  let a := add_event c sz b i e in
  nohost (x_bufs a) -> enc e = true -> forallb enc (all_buffered (x_bufs a)) = true ->
  x_raised a = false /\
  (c_trailing c = false -> i_files (x_inc a) = i_files i ++ [e :: sort_by_num (all_buffered (x_bufs a))]) /\
  (c_trailing c = true ->
     i_rep (x_inc a) = Some (mkRep e (sort_by_num (all_buffered (x_bufs a))) TRAILING_EVENT_LIMIT true)).
Proof.
  intros Hf Hq Hl Hr Hz Hlim. cbv zeta.
  destruct (add_event_unfold c sz b i e) as (q' & r & H1 & H2 & H3 & H4 & H5). cbv zeta in H5.
  destruct r; [destruct (H4 eq_refl); lia|].
  rewrite H5. unfold qualifier_stage. rewrite Hq, Hf. unfold incident_cmp, cmpZ. cbn [andb].
  destruct (incident_level <=? e_lvl e) eqn:E; [|apply Z.leb_gt in E; lia].
  set (b' := buf_set _ _ _ q'). cbn [x_bufs]. intros Hh He Hb.
  unfold declare_incident. rewrite Hr, Hz, Hf. unfold one_reporter_at_a_time. cbn [is_some orb andb].
  rewrite (incident_declared_ok c b' _ e Hh He Hb).
  destruct (c_trailing c); cbn [fst snd x_raised x_inc x_bufs].
  - split; [reflexivity|]. split; [discriminate|]. intros _. reflexivity.
  - split; [reflexivity|]. split; [|discriminate]. intros _. reflexivity.
Qed.

(* OUTSIDE the guard (the real code does this; oracle witness: num = an object whose __class__ property raises): one
   buffered event on whose number isinstance(.., int) raises makes events.sort raise inside incident_declared: _msg
   raises (msg's catch-all turns that into an internal-error event), no file is published, the NonTrailing reporter's
   .flog / .flog.bz2.tmp are abandoned, the trailing reporter stays subscribed for ever *)
Theorem incident_lost_when_sort_raises c sz b i e :
  c_fault c = NoFault -> c_qual c = true -> incident_level <= e_lvl e -> i_rep i = None -> i_zombie i = false ->
  0 <= limit_of sz (e_fac e) (e_lvl e) ->
  let a := add_event c sz b i e in
  existsb is_hostile (all_buffered (x_bufs a)) = true ->
  x_raised a = true /\ i_files (x_inc a) = i_files i /\ i_recorded (x_inc a) = i_recorded i /\
  (c_trailing c = false -> i_junk (x_inc a) = i_junk i + 1 /\ i_rep (x_inc a) = None) /\
  (c_trailing c = true -> i_rep (x_inc a) = Some (mkRep e [] TRAILING_EVENT_LIMIT false)).
Proof.
  intros Hf Hq Hl Hr Hz Hlim. cbv zeta.
  destruct (add_event_unfold c sz b i e) as (q' & r & H1 & H2 & H3 & H4 & H5). cbv zeta in H5.
  destruct r; [destruct (H4 eq_refl); lia|].
  rewrite H5. unfold qualifier_stage. rewrite Hq, Hf. unfold incident_cmp, cmpZ. cbn [andb].
  destruct (incident_level <=? e_lvl e) eqn:E; [|apply Z.leb_gt in E; lia].
  set (b' := buf_set _ _ _ q'). cbn [x_bufs]. intros Hh.
  unfold declare_incident. rewrite Hr, Hz, Hf. unfold one_reporter_at_a_time. cbn [is_some orb andb].
  rewrite (incident_declared_lost c b' _ e Hh).
  destruct (c_trailing c); cbn [fst snd x_raised x_inc x_bufs i_files i_recorded i_junk i_rep].
  - split; [reflexivity|]. split; [reflexivity|]. split; [reflexivity|]. split; [discriminate|]. intros _. reflexivity.
  - split; [reflexivity|]. split; [reflexivity|]. split; [reflexivity|]. split; [|discriminate]. intros _. split; reflexivity.
Qed.

(* the trigger itself is part of what was buffered (unless its buffer is configured to hold nothing) *)
Lemma trigger_buffered c sz b i e :
  1 <= limit_of sz (e_fac e) (e_lvl e) -> In e (buf_get (x_bufs (add_event c sz b i e)) (e_fac e) (e_lvl e)).
Proof.
  intros Hl. destruct (add_event_unfold c sz b i e) as (q' & r & H1 & (k & H2) & H3 & H4 & H5). cbv zeta in H5.
  assert (Hb : x_bufs (add_event c sz b i e) =
               buf_set (buf_set b (e_fac e) (e_lvl e) (buf_get b (e_fac e) (e_lvl e) ++ [e])) (e_fac e) (e_lvl e) q').
  { rewrite H5. destruct r; reflexivity. }
  rewrite Hb, buf_get_set_same.
  (* q' is a suffix of old ++ [e]; it is non-empty unless trimming emptied it, which needs limit < 1 *)
  unfold trim, trim_kind in H1.
  assert (G : forall fuel q, trim_loop fuel (q ++ [e]) (limit_of sz (e_fac e) (e_lvl e)) = Some (q', r) -> In e q').
  { induction fuel as [|fuel IH]; intros q Hq; [discriminate|].
    cbn [trim_loop] in Hq. unfold trim_cmp, cmpZ, trim_pop in Hq.
    destruct (limit_of sz (e_fac e) (e_lvl e) <? Z.of_nat (List.length (q ++ [e]))) eqn:E.
    - destruct q as [|x t]; cbn [app pop] in Hq.
      + cbn in E. apply Z.ltb_lt in E. lia.
      + apply (IH t). exact Hq.
    - inversion Hq; subst. apply in_or_app. right. left. reflexivity. }
  eapply G. exact H1.
Qed.

(* ---- nothing is ever abandoned: over ANY history no incident is left as .flog/.bz2.tmp, and no reporter is left
        referenced-but-dead between calls *)
Lemma nohost_add_event c sz b i e : nohost b -> is_hostile e = false -> nohost (x_bufs (add_event c sz b i e)).
Proof.
  rewrite !nohost_in. intros Hb He x Hx.
  destruct (add_event_bufs_in c sz b i e x Hx) as [H| -> ]; [apply Hb; exact H | exact He].
Qed.

Lemma add_event_junk c sz b i e : nohost b -> is_hostile e = false -> i_junk (x_inc (add_event c sz b i e)) = i_junk i.
Proof.
  intros Hb He. pose proof (nohost_add_event c sz b i e Hb He) as Hn.
  destruct (add_event_unfold c sz b i e) as (q' & r & H1 & H2 & H3 & H4 & H5). cbv zeta in H5. rewrite H5 in Hn |- *.
  destruct r; [reflexivity|]. cbn [x_inc x_bufs] in *. apply qualifier_stage_junk. exact Hn.
Qed.

Lemma msg_inner_junk c s e : nohost (s_bufs s) -> is_hostile e = false ->
  i_junk (s_inc (fst (fst (msg_inner c s e)))) = i_junk (s_inc s) /\ nohost (s_bufs (fst (fst (msg_inner c s e)))).
Proof.
  intros Hb He. unfold msg_inner. destruct (cmpZ _ _ _); cbn [fst s_inc s_bufs]; [split; [reflexivity | exact Hb]|].
  split; [apply add_event_junk; assumption | apply nohost_add_event; assumption].
Qed.

Lemma fallback_junk c s num id rp k : nohost (s_bufs s) -> k <> NumHostile ->
  i_junk (s_inc (fst (fallback c s num id rp k))) = i_junk (s_inc s) /\ nohost (s_bufs (fst (fallback c s num id rp k))).
Proof.
  intros Hb Hk. unfold fallback. destruct rp; [|split; [reflexivity | exact Hb]].
  assert (He : is_hostile (mkEv num FAC_INTERNAL fallback_level true (fallback_id id) k) = false)
    by (unfold is_hostile; cbn [e_numk]; destruct k; try reflexivity; congruence).
  pose proof (msg_inner_junk c s _ Hb He) as H.
  destruct (msg_inner c s _) as [[s2 r] n2]. exact H.
Qed.

Lemma end_of_call_junk s n : i_junk (s_inc (end_of_call s n)) = i_junk (s_inc s).
Proof. unfold end_of_call, with_inc. cbn [s_inc i_junk]. apply trailing_fold_junk. Qed.

Lemma kind_of_not_hostile numo fac lvl okf rp id : op_not_hostile (Msg numo fac lvl okf rp id) -> kind_of numo <> NumHostile.
Proof. destruct numo as [[n k]|]; cbn [op_not_hostile kind_of snd]; [destruct k; intros H; try discriminate; destruct H | discriminate]. Qed.

Lemma step_junk c s o : op_not_hostile o -> nohost (s_bufs s) ->
  i_junk (s_inc (fst (step c s o))) = i_junk (s_inc s) /\ nohost (s_bufs (fst (step c s o))).
Proof.
  intros Ho Hb.
  destruct o as [numo fac lvl okf rp id | rp id | f l n | f l | ]; cbn [step].
  - pose proof (kind_of_not_hostile numo fac lvl okf rp id Ho) as Hk.
    set (nn := match numo with Some n => (fst n, s_seq s) | None => next_num (s_seq s) end).
    destruct nn as [num seq']. set (s0 := mkSt seq' _ _ _ _).
    assert (He : is_hostile (mkEv num fac lvl okf id (kind_of numo)) = false)
      by (unfold is_hostile; cbn [e_numk]; destruct (kind_of numo); try reflexivity; congruence).
    pose proof (msg_inner_junk c s0 (mkEv num fac lvl okf id (kind_of numo)) Hb He) as [H1 N1].
    destruct (msg_inner c s0 _) as [[s1 r] n1]. cbn [fst] in H1, N1. unfold s0 in H1; cbn [s_inc] in H1.
    destruct r; unfold msg_catch_all.
    + pose proof (fallback_junk c s1 num id rp (kind_of numo) N1 Hk) as [H2 N2].
      destruct (fallback c s1 num id rp _) as [s2 n2]. cbn [fst] in *.
      rewrite end_of_call_junk. split; [congruence | exact N2].
    + cbn [fst]. rewrite end_of_call_junk. split; [exact H1 | exact N1].
  - rewrite next_num_spec. unfold msg_catch_all. set (s0 := mkSt _ _ _ _ _).
    assert (Hk : NumInt <> NumHostile) by discriminate.
    pose proof (fallback_junk c s0 (s_seq s + 1) id rp NumInt Hb Hk) as [H2 N2].
    destruct (fallback c s0 _ id rp _) as [s2 n2]. cbn [fst] in *.
    rewrite end_of_call_junk. split; [exact H2 | exact N2].
  - split; [reflexivity | exact Hb].
  - split; [reflexivity | exact Hb].
  - destruct (i_rep (s_inc s)) as [r|]; [destruct (r_timer r)|]; (split; [reflexivity | exact Hb]).
Qed.

(* over any history in which no call passes a num= on which isinstance(.., int) raises *)
Theorem nothing_abandoned c ops : forall s, Forall op_not_hostile ops -> nohost (s_bufs s) ->
  i_junk (s_inc (fst (run c s ops))) = i_junk (s_inc s).
Proof.
  induction ops as [|o t IH]; intros s Ho Hb; [reflexivity|]. inversion Ho; subst. cbn [run].
  pose proof (step_junk c s o H1 Hb) as [H N]. destruct (step c s o) as [s1 r]. cbn [fst] in H, N.
  specialize (IH s1 H2 N). destruct (run c s1 t) as [s2 rs]. cbn [fst] in *. congruence.
Qed.

Lemma nohost_init : nohost (s_bufs init).
Proof. reflexivity. Qed.

Theorem nothing_abandoned_from_init c ops : Forall op_not_hostile ops -> i_junk (s_inc (fst (run c init ops))) = 0.
Proof. intros H. rewrite (nothing_abandoned c ops init H nohost_init). reflexivity. Qed.

(* a recording in progress always has its timer: it ends after TRAILING_DELAY at the latest *)
Definition rep_timed (i : inc_st) : Prop := match i_rep i with Some r => r_timer r = true | None => True end.

Lemma timer_publishes c s r :
  i_rep (s_inc s) = Some r -> r_timer r = true ->
  i_files (s_inc (fst (step c s Timer))) = i_files (s_inc s) ++ [r_trigger r :: r_lines r] /\
  i_recorded (s_inc (fst (step c s Timer))) = i_recorded (s_inc s) + 1 /\ i_rep (s_inc (fst (step c s Timer))) = None.
Proof. intros Hr Ht. cbn [step]. rewrite Hr, Ht. cbn. repeat split; reflexivity. Qed.

(* ================================================================== non-vacuity *)
Definition ev_ids (l : list event) : list Z := map e_id l.

(* numbers: three logger-numbered calls (one of them failing inside _msg) interleaved with a caller-numbered one *)
Example ex_numbers :
  snd (run (mkCfg true true NoFault) init [Msg None 0 20 true true 0; Msg (Some (7, NumInt)) 0 20 true true 1; MsgBad false 2; Msg None 2 30 false true 3])
  = [Some 0; Some 7; Some 1; Some 2].
Proof. vm_compute. reflexivity. Qed.

(* bounds: limit 2 on (None, 20): the two most recent events stay; lowering a limit does not trim by itself *)
Example ex_bounded :
  let s := fst (run (mkCfg false false NoFault) init [SetSize 0 20 2; Msg None 0 20 true true 0; Msg None 0 20 true true 1; Msg None 0 20 true true 2;
                                              SetSize 0 20 1]) in
  ev_ids (buf_get (s_bufs s) 0 20) = [1; 2] /\ limit_of (s_sizes s) 0 20 = 1.
Proof. vm_compute. split; reflexivity. Qed.

(* a negative limit: popleft on the empty deque raises inside _msg, the caller still gets its number, and the
   internal-error event is logged instead *)
Example ex_negative_limit :
  let '(s, r) := run (mkCfg false false NoFault) init [SetSize 0 20 (-1); Msg None 0 20 true true 0] in
  r = [None; Some 0] /\ ev_ids (all_buffered (s_bufs s)) = [-1].
Proof. vm_compute. split; reflexivity. Qed.

(* subscriber: queue limit 2, one in flight: 5 sends, the queue overflows and events 3, 4 are dropped; order kept *)
Example ex_subscriber :
  let s := sub_run 2 1 [Send 0; Send 1; Turn; Send 2; Send 3; Send 4; Ack; Turn; Ack; Turn] in
  q_delivered s = [0; 1; 2] /\ q_queue s = [] /\ q_emitted s = [0; 1; 2; 3; 4] /\ q_inflight s = 1.
Proof. vm_compute. repeat split; reflexivity. Qed.

(* incident with an event the plain encoder rejects (e_ok = false) in the history AND as trailing event: recorded *)
Example ex_incident_trailing :
  let s := fst (run (mkCfg true true NoFault) init [Msg None 0 20 false true 0; Msg None 2 20 true true 1; Msg None 0 30 true true 2;
                                            Msg None 0 20 false false 3; Msg None 0 20 true true 4; Timer]) in
  map ev_ids (i_files (s_inc s)) = [[2; 0; 1; 2; 3; 4]] /\ i_recorded (s_inc s) = 1 /\ i_declared (s_inc s) = 1 /\
  i_junk (s_inc s) = 0 /\ i_rep (s_inc s) = None.
Proof. vm_compute. repeat split; reflexivity. Qed.

Example ex_incident_nontrailing_then_later :
  let s := fst (run (mkCfg true false NoFault) init [Msg None 0 20 false true 0; Msg None 0 30 false true 1; Msg None 2 40 true true 2]) in
  map ev_ids (i_files (s_inc s)) = [[1; 0; 1]; [2; 0; 1; 2]] /\ i_recorded (s_inc s) = 2.
Proof. vm_compute. split; reflexivity. Qed.

(* the hypotheses of incident_recorded are met by a non-trivial state *)
Example ex_incident_recorded_hyps :
  let s := fst (run (mkCfg true true NoFault) init [Msg None 0 20 false true 0; Msg None 2 20 true true 1]) in
  i_rep (s_inc s) = None /\ i_zombie (s_inc s) = false /\ 0 <= limit_of (s_sizes s) 0 30 /\ incident_level <= 35.
Proof. vm_compute. repeat split; try reflexivity; discriminate. Qed.

(* failing incident handling (logdir gone: incident_declared raises for every trigger): limit 2 on (None, 30), five
   triggering events: msg still returns 0..4, the buffer holds the last two, the internal-error buffer holds its own *)
Example ex_fault_bounded :
  let '(s, r) := run (mkCfg true true ReporterRaises) init
                     [SetSize 0 30 2; Msg None 0 30 true true 0; Msg None 0 30 true true 1; Msg None 0 30 true true 2;
                      Msg None 0 30 true true 3; Msg None 0 30 true true 4] in
  r = [None; Some 0; Some 1; Some 2; Some 3; Some 4] /\ ev_ids (buf_get (s_bufs s) 0 30) = [3; 4] /\
  ev_ids (buf_get (s_bufs s) 1 30) = [-1; -2; -3; -4; -5] /\ i_declared (s_inc s) = 10 /\ i_recorded (s_inc s) = 0 /\
  i_junk (s_inc s) = 0.
Proof. vm_compute. repeat split; reflexivity. Qed.

Example ex_fault_qualifier_bounded :
  let s := fst (run (mkCfg true false QualifierRaises) init
                    [SetSize 0 35 1; Msg None 0 35 true true 0; Msg None 0 35 true true 1; Msg None 0 35 true true 2]) in
  ev_ids (buf_get (s_bufs s) 0 35) = [2] /\ i_declared (s_inc s) = 0.
Proof. vm_compute. split; reflexivity. Qed.

(* non-integer numbers (finding of the second strangers' review, fixed in 7a22019; oracle/incident-lost-noninteger-num).
   msg('a', num='x'); msg('b'); msg('trigger', level=BAD); msg('later', level=BAD): both incidents are recorded, each
   file holds the odd event (first: its key is -1) and everything else buffered *)
Definition odd_history (k : numkind) : list op :=
  [Msg (Some (900, k)) 0 20 true true 0; Msg None 0 20 true true 1; Msg None 0 40 true true 2; Msg None 0 40 true true 3].

Example ex_odd_num_recorded :
  let s := fst (run (mkCfg true false NoFault) init (odd_history NumOdd)) in
  map ev_ids (i_files (s_inc s)) = [[2; 0; 1; 2]; [3; 0; 1; 2; 3]] /\ i_recorded (s_inc s) = 2 /\ i_junk (s_inc s) = 0 /\
  snd (run (mkCfg true false NoFault) init (odd_history NumOdd)) = [Some 900; Some 0; Some 1; Some 2].
Proof. vm_compute. repeat split; reflexivity. Qed.

Example ex_odd_num_recorded_trailing :
  let s := fst (run (mkCfg true true NoFault) init (odd_history NumOdd ++ [Timer])) in
  map ev_ids (i_files (s_inc s)) = [[2; 0; 1; 2; 3]] /\ i_recorded (s_inc s) = 1 /\ i_junk (s_inc s) = 0 /\ i_rep (s_inc s) = None.
Proof. vm_compute. repeat split; reflexivity. Qed.

(* the same history with a number on which isinstance(.., int) raises: OUTSIDE the guard of incident_recorded /
   nothing_abandoned, and the real code does lose both incidents (replayed by the oracle: num = an object whose
   __class__ property raises; reported as oracle/incident-lost-hostile-num) *)
Example ex_hostile_num_lost :
  let s := fst (run (mkCfg true false NoFault) init (odd_history NumHostile)) in
  i_files (s_inc s) = [] /\ i_recorded (s_inc s) = 0 /\ i_declared (s_inc s) = 4 /\ i_junk (s_inc s) = 2.
Proof. vm_compute. repeat split; reflexivity. Qed.

Example ex_hostile_num_stuck_trailing :
  let s := fst (run (mkCfg true true NoFault) init (odd_history NumHostile ++ [Timer])) in
  i_files (s_inc s) = [] /\ i_recorded (s_inc s) = 0 /\ i_declared (s_inc s) = 3 /\ is_some (i_rep (s_inc s)) = true.
Proof. vm_compute. repeat split; reflexivity. Qed.

Theorem nothing_abandoned_refuted_hostile : exists c ops, i_junk (s_inc (fst (run c init ops))) <> 0.
Proof. exists (mkCfg true false NoFault), (odd_history NumHostile). vm_compute. discriminate. Qed.

(* the sort key before 7a22019 (`lambda a: a['num']`): were it back, a plain non-integer number would do the same.
   General: the raw key raises on every list of two or more events one of which is not integer-numbered ... *)
Lemma raw_key_raises l : (2 <= List.length l)%nat -> forallb is_int l = false -> sort_raises KeyRaw l = true.
Proof.
  intros H1 H2. unfold sort_raises. rewrite H2. cbn [negb]. rewrite andb_true_r. apply Z.leb_le. lia.
Qed.

(* ... and as a regression statement about the logger model (first [..|..]: provable whichever key is translated) *)
Theorem raw_sort_key_loses_incidents : incident_sort_key = KeyRaw ->
  let s := fst (run (mkCfg true false NoFault) init (odd_history NumOdd)) in
  i_files (s_inc s) = [] /\ i_recorded (s_inc s) = 0 /\ i_junk (s_inc s) = 2.
Proof. intros H. vm_compute in H. first [discriminate H | vm_compute; repeat split; reflexivity]. Qed.

(* ================================================================== E. catch-up subscriptions, written files *)
Lemma sort_catchup_perm l : Permutation (sort_catchup l) l.
Proof. apply sort_with_perm. Qed.

Lemma sort_catchup_sorted l : StronglySorted (key_le catchup_sort_key) (sort_catchup l) /\ StronglySorted int_num_le (sort_catchup l).
Proof.
  split; [apply sort_with_sorted|]. eapply sorted_weaken; [|apply sort_with_sorted]. unfold catchup_sort_key. apply key_le_ints.
Qed.

(* EXACT guard: no buffered number makes isinstance(.., int) raise (nohost b).  Then the batch is everything buffered, in
   key order: integer numbers in number order, every other number where -1 sits *)
Theorem subscriber_bounded_after_catchup maxq maxfl catch_up b ops : 0 <= maxq -> 0 <= maxfl ->
  let '(s0, direct, raised) := sub_subscribe catch_up b in
  let s := fold_left (sub_step maxq maxfl) ops s0 in
  q_queue s0 = [] /\ q_inflight s0 = 0 /\
  (catch_up = true -> nohost b ->
     raised = false /\ Permutation direct (all_buffered b) /\ StronglySorted (key_le catchup_sort_key) direct /\
     StronglySorted int_num_le direct) /\
  Z.of_nat (List.length (q_queue s)) <= maxq /\ 0 <= q_inflight s <= maxfl /\
  subseq (q_delivered s ++ q_queue s) (q_emitted s).
Proof.
  intros Hq Hf. unfold sub_subscribe, catchup.
  assert (G : let s := fold_left (sub_step maxq maxfl) ops sub_init in
              Z.of_nat (List.length (q_queue s)) <= maxq /\ 0 <= q_inflight s <= maxfl /\
              subseq (q_delivered s ++ q_queue s) (q_emitted s)).
  { destruct (subscriber_bounded maxq maxfl ops Hq Hf) as (H1 & H2 & _ & H4). unfold sub_run in *. cbv zeta in *.
    split; [exact H1|]. split; [exact H2 | exact H4]. }
  cbv zeta in G.
  destruct (catch_up && sort_raises catchup_sort_key (all_buffered b)) eqn:E.
  - split; [reflexivity|]. split; [reflexivity|]. split; [|exact G].
    intros -> Hh. cbn [andb] in E. unfold nohost in Hh. unfold catchup_sort_key, sort_raises in E. congruence.
  - split; [reflexivity|]. split; [reflexivity|]. split; [|exact G].
    intros -> _. split; [reflexivity|]. split; [apply sort_catchup_perm|]. apply sort_catchup_sorted.
Qed.

(* OUTSIDE the guard: the subscriber is handed no catch-up batch at all (subscribe raises after registering send()) *)
Theorem catchup_lost_when_sort_raises b :
  existsb is_hostile (all_buffered b) = true -> sub_subscribe true b = (sub_init, [], true).
Proof. intros H. unfold sub_subscribe, catchup, catchup_sort_key, sort_raises. rewrite H. reflexivity. Qed.

Theorem filter_reads_back above strip final_bz2 inplace recs :
  filter_run above strip final_bz2 inplace recs = Some (filter (filter_keep above strip) recs).
Proof. unfold filter_run, read_back, write_codec, filter_codec_from. destruct final_bz2; reflexivity. Qed.

Theorem logfile_reads_back name_bz2 recs : logfile_written name_bz2 recs = Some recs.
Proof. unfold logfile_written, read_back, write_codec, logfile_codec_from. destruct name_bz2; reflexivity. Qed.

Lemma filter_keep_above a strip r : fr_header r = false -> strip = false ->
  filter_keep (Some a) strip r = true <-> a <= fr_lvl r.
Proof.
  intros Hh ->. unfold filter_keep, filter_above_drop_cmp, cmpZ. rewrite Hh. cbn [orb andb negb].
  rewrite andb_true_r. destruct (fr_lvl r <? a) eqn:E; cbn [negb];
    [apply Z.ltb_lt in E | apply Z.ltb_ge in E]; split; intros; try discriminate; try lia; reflexivity.
Qed.

(* had the compressor been chosen from the name that is opened, an in-place filter of a .bz2 file would be unreadable *)
Example ex_opened_name_unreadable :
  read_back true (write_codec OpenedName true true) [1; 2; 3] = None /\
  read_back true (write_codec FinalName true true) [1; 2; 3] = Some [1; 2; 3].
Proof. split; reflexivity. Qed.

Example ex_filter :
  filter_run (Some 23) true true true
    [mkFrec true 0 false 0; mkFrec false 20 false 1; mkFrec false 23 false 2; mkFrec false 30 true 3; mkFrec false 40 false 4]
  = Some [mkFrec true 0 false 0; mkFrec false 23 false 2; mkFrec false 40 false 4].
Proof. reflexivity. Qed.

(* ================================================================== F. triggers at every point of an incident's life *)
Lemma window_inactive closing : window_active closing = false.
Proof. reflexivity. Qed.

(* a trigger emitted while no reporter is recording -- in particular between stop_recording and finished_recording of
   the previous one (f_closing arbitrary) -- starts an incident of its own *)
Theorem trigger_in_window_recorded c f fac lvl ok rp id :
  c_fault c = NoFault -> c_qual c = true -> i_rep (s_inc (f_s f)) = None ->
  incident_level <= lvl -> cmpZ threshold_drop_cmp lvl (threshold_of (s_thr (f_s f)) fac) = false ->
  0 <= limit_of (s_sizes (f_s f)) fac lvl -> nohost (s_bufs (f_s f)) ->
  let e := mkEv (s_seq (f_s f) + 1) fac lvl ok id NumInt in
  let '(f', r, n) := fcall c f (Msg None fac lvl ok rp id) in
  r = Some (e_num e) /\ f_closing f' = f_closing f /\ n = [] /\
  (c_trailing c = true -> exists lines, i_rep (s_inc (f_s f')) = Some (mkRep e lines TRAILING_EVENT_LIMIT true)) /\
  (c_trailing c = false -> exists lines, i_files (s_inc (f_s f')) = i_files (s_inc (f_s f)) ++ [e :: lines]).
Proof.
  intros Hf Hq Hr Hl Hthr Hlim Hnh. cbv zeta.
  unfold fcall. rewrite window_inactive.
  destruct f as [s closing]. cbn [f_s f_closing] in *.
  unfold call_nt. cbn [set_zombie with_inc s_seq s_sizes s_thr s_bufs s_inc]. rewrite next_num_spec.
  unfold msg_inner. change (kind_of None) with NumInt. cbn [s_thr s_sizes s_bufs s_inc s_seq e_lvl e_fac]. rewrite Hthr.
  set (i0 := mkInc (i_rep (s_inc s)) false (i_declared (s_inc s)) (i_recorded (s_inc s)) (i_files (s_inc s)) (i_junk (s_inc s))).
  set (e := mkEv (s_seq s + 1) fac lvl ok id NumInt).
  assert (Hr0 : i_rep i0 = None) by exact Hr.
  assert (Hn0 : nohost (x_bufs (add_event c (s_sizes s) (s_bufs s) i0 e))) by (apply nohost_add_event; [exact Hnh | reflexivity]).
  destruct (incident_recorded c (s_sizes s) (s_bufs s) i0 e Hf Hq Hl Hr0 eq_refl Hlim Hn0) as (Hx & Hnt & Htr).
  set (a := add_event c (s_sizes s) (s_bufs s) i0 e) in *.
  assert (Hn : x_notified a = false).
  { subst a. destruct (add_event_unfold c (s_sizes s) (s_bufs s) i0 e) as (q' & r & _ & _ & _ & _ & H5). cbv zeta in H5.
    rewrite H5. rewrite Hr0. destruct r; reflexivity. }
  rewrite Hx, Hn. cbn [tag map app fst snd f_s f_closing set_zombie with_inc s_inc i_rep i_files].
  split; [reflexivity|]. split; [reflexivity|]. split; [reflexivity|]. split.
  - intros Ht. destruct (Htr Ht) as (H1 & _). eexists. exact H1.
  - intros Ht. destruct (Hnt Ht) as (H1 & _). eexists. exact H1.
Qed.

(* the timer only stops the recording; the file is published by the next finish *)
Lemma timer_stop_spec s closing r :
  i_rep (s_inc s) = Some r -> r_timer r = true ->
  timer_stop (mkFine s closing) (Some (e_id (r_trigger r))) =
    mkFine (with_inc s (mkInc None (i_zombie (s_inc s)) (i_declared (s_inc s)) (i_recorded (s_inc s)) (i_files (s_inc s))
                              (i_junk (s_inc s)))) (closing ++ [r]).
Proof. intros Hr Ht. unfold timer_stop. cbn [f_s f_closing]. rewrite Hr, Ht, Z.eqb_refl. reflexivity. Qed.

Definition trig (cid lvl : Z) : op := Msg None 0 lvl true true cid.
Definition quiet (cid : Z) : op := Msg None 0 20 true true cid.
Fixpoint quiets (from : Z) (n : nat) : list op := match n with O => [] | S k => quiet from :: quiets (from + 1) k end.

(* second trigger in the instant of the trailing timer, after it; and an observer reacting, inside the batch in which
   the 100-event quota ended the recording, to a later event of that batch: both get an incident of their own *)
Example ex_trigger_after_timer :
  let f := fst (iterations (mkCfg true true NoFault) fine_init
                  [ICalls [quiet 0; trig 1 30; quiet 2] None; ITimer [] [trig 3 35]; ITimer [] []; ITimer [] []]) in
  map ev_ids (i_files (s_inc (f_s f))) = [[1; 0; 1; 2]; [3; 0; 1; 2; 3]] /\ i_recorded (s_inc (f_s f)) = 2.
Proof. vm_compute. split; reflexivity. Qed.

Example ex_trigger_after_quota :
  let f := fst (iterations (mkCfg true true NoFault) fine_init
                  [ICalls (trig 0 30 :: quiets 1 103) (Some (101%nat, trig 200 35)); ITimer [] []; ITimer [] []]) in
  i_recorded (s_inc (f_s f)) = 2 /\ in_some_file (s_inc (f_s f)) 200 = true /\ in_some_file (s_inc (f_s f)) 0 = true /\
  map (fun l => List.length l) (i_files (s_inc (f_s f))) = [102%nat; 103%nat].
Proof. vm_compute. repeat split; reflexivity. Qed.

(* a trigger-level event emitted WHILE a reporter is recording does not start an incident (declare_incident hands it to
   new_trigger, the documented overlap hook, a no-op): it is an ordinary trailing event of the running incident *)
Lemma absorbed_by_running_incident c b i e r :
  i_rep i = Some r ->
  declare_incident c b i e = (mkInc (i_rep i) (i_zombie i) (i_declared i + 1) (i_recorded i) (i_files i) (i_junk i), false).
Proof. intros Hr. unfold declare_incident, one_reporter_at_a_time. rewrite Hr. reflexivity. Qed.

(* ... and therefore subject to the reporter's documented limits: it is dropped when it is the 101st event after the first
   trigger, and when the trailing timer stops the recording before the eventual queue delivers it (both by design; the
   harness counts such events as absorbed_triggers_dropped_by_limits, and replays these two histories on the real code) *)
Theorem absorbed_trigger_subject_to_limits :
  (exists its, let f := fst (iterations (mkCfg true true NoFault) fine_init its) in
               f_closing f = [] /\ i_rep (s_inc (f_s f)) = None /\ i_declared (s_inc (f_s f)) = 2 /\
               i_recorded (s_inc (f_s f)) = 1 /\ in_some_file (s_inc (f_s f)) 101 = false) /\
  (exists its, let f := fst (iterations (mkCfg true true NoFault) fine_init its) in
               f_closing f = [] /\ i_rep (s_inc (f_s f)) = None /\ i_declared (s_inc (f_s f)) = 2 /\
               i_recorded (s_inc (f_s f)) = 1 /\ in_some_file (s_inc (f_s f)) 1 = false).
Proof.
  split.
  - exists ([ICalls [trig 0 30] None] ++ map (fun o => ICalls [o] None) (quiets 1 100) ++
            [ICalls [trig 101 30] None; ICalls [quiet 102] None; ITimer [] []; ITimer [] []]).
    vm_compute. repeat split; reflexivity.
  - exists [ICalls [trig 0 30] None; ITimer [trig 1 30] []; ITimer [] []; ITimer [] []].
    vm_compute. repeat split; reflexivity.
Qed.

(* ================================================================== G. the statements of props/C18.v at the real limits *)
Lemma real_limits_nonneg : 0 <= MAX_QUEUE_SIZE /\ 0 <= MAX_IN_FLIGHT.
Proof. unfold MAX_QUEUE_SIZE, MAX_IN_FLIGHT. split; discriminate. Qed.

Theorem subscriber_bounded_real ops :
  let s := sub_run MAX_QUEUE_SIZE MAX_IN_FLIGHT ops in
  Z.of_nat (List.length (q_queue s)) <= MAX_QUEUE_SIZE /\ 0 <= q_inflight s <= MAX_IN_FLIGHT /\
  subseq (q_delivered s) (q_emitted s) /\ subseq (q_delivered s ++ q_queue s) (q_emitted s).
Proof. destruct real_limits_nonneg. apply subscriber_bounded; assumption. Qed.

Theorem subscriber_bounded_after_catchup_real catch_up b ops :
  let '(s0, direct, raised) := sub_subscribe catch_up b in
  let s := fold_left (sub_step MAX_QUEUE_SIZE MAX_IN_FLIGHT) ops s0 in
  q_queue s0 = [] /\ q_inflight s0 = 0 /\
  (catch_up = true -> nohost b ->
     raised = false /\ Permutation direct (all_buffered b) /\ StronglySorted (key_le catchup_sort_key) direct /\
     StronglySorted int_num_le direct) /\
  Z.of_nat (List.length (q_queue s)) <= MAX_QUEUE_SIZE /\ 0 <= q_inflight s <= MAX_IN_FLIGHT /\
  subseq (q_delivered s ++ q_queue s) (q_emitted s).
Proof. destruct real_limits_nonneg. apply subscriber_bounded_after_catchup; assumption. Qed.

(* the lines of an incident file: a permutation of what was buffered, ordered by the translated key; the events with
   integer numbers in number order; the others (key -1) in the order the buffers hold them *)
Theorem incident_complete l :
  (forall x, In x (sort_by_num l) <-> In x l) /\ StronglySorted num_le (sort_by_num l) /\
  StronglySorted int_num_le (sort_by_num l) /\
  filter (fun x => negb (is_int x)) (sort_by_num l) = filter (fun x => negb (is_int x)) l.
Proof.
  split; [intros x; apply sort_in|]. split; [apply sort_sorted|]. split; [apply sort_sorted_ints | apply sort_stable_odd].
Qed.
