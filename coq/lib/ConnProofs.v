(* C08 / C09: theorems about lib/Conn.v (both directions of one connection; what a lost connection forgets). *)
From Coq Require Import ZArith List Bool Lia Arith.
Import ListNotations.
Require Import Verif.lib.PyLite Verif.gen.RefsGen Verif.lib.Refs Verif.lib.RefsProofs Verif.lib.Conn.
Local Open Scope Z_scope.

Lemma finish_clears_gifts_spec : finish_clears_myGifts = true /\ finish_clears_myGiftsByGiftID = true /\ finish_drops_undelivered_calls = true.
Proof. repeat split; reflexivity. Qed.

(* ------------------------------------------------------------------ *)
(* how one step of the two-party model moves its two queues *)
Lemma local_queues_grow s o :
  is_local o = true ->
  (List.length (ch_oh s) <= List.length (ch_oh (fst (step s o))))%nat /\ (List.length (ch_ho s) <= List.length (ch_ho (fst (step s o))))%nat.
Proof.
  intros L. unfold step. destruct (lost s); [cbn [fst]; lia|]. destruct o; try discriminate; cbn [fst].
  - unfold do_send. destruct (find_obj _ _); rewrite send_spec; cbn [fst ch_oh ch_ho]; rewrite app_length; cbn; lia.
  - unfold do_drop. destruct (find_proxy _ _); cbn [fst ch_oh ch_ho]; lia.
  - unfold do_reflost. destruct (h_pend (hd s)); [cbn [fst]; lia|]. destruct (nth_error _ _) as [t|]; [|cbn [fst]; lia].
    destruct (t_proxy t); [cbn [fst ch_oh ch_ho]; lia|]. destruct (handleRefLost_assign (t_recv t)) as [c0 r0].
    destruct (handleRefLost_skip c0); cbn [fst ch_oh ch_ho]; [lia|]. rewrite app_length; cbn; lia.
  - unfold do_home. destruct (find_proxy _ _); [|cbn [fst]; lia]. destruct (nth_error _ _); cbn [fst ch_oh ch_ho]; [|lia].
    rewrite app_length; cbn; lia.
Qed.

Lemma recv_oh_queues s m r : Inv s -> lost s = false -> ch_oh s = m :: r ->
  ch_oh (fst (step s RecvOH)) = r /\ ch_ho (fst (step s RecvOH)) = ch_ho s.
Proof.
  intros I Hl Hch. unfold step. rewrite Hl. unfold do_recv_oh. rewrite Hch. destruct m as [c [|] w|rid]; cbn [fst ch_oh ch_ho]; auto.
  rewrite do_myref_eq. unfold myref_core. destruct (myref_nth s c w I) as (t & Ht & _). rewrite Ht.
  destruct (get_ref t (h_nextpid (hd s))) as [[t' p] np]. cbn [fst ch_oh ch_ho]. auto.
Qed.

Lemma recv_ho_queues s m r : lost s = false -> ch_ho s = m :: r ->
  ch_ho (fst (step s RecvHO)) = r /\ (List.length (ch_oh s) <= List.length (ch_oh (fst (step s RecvHO))))%nat.
Proof.
  intros Hl Hch. unfold step. rewrite Hl. unfold do_recv_ho. rewrite Hch. destruct m as [c n rid|c k]; cbn [fst ch_oh ch_ho]; [|auto].
  destruct (find_clid _ _) as [e|]; [|cbn [fst ch_oh ch_ho]; rewrite app_length; cbn; split; [reflexivity | lia]].
  destruct (decref n (oe_rc e)) as [[done v]|]; cbn [fst ch_oh ch_ho]; [rewrite app_length; cbn; split; [reflexivity | lia] | split; [reflexivity | lia]].
Qed.

Lemma cnt_inst_app i l1 l2 : cnt_inst i (l1 ++ l2) = (cnt_inst i l1 + cnt_inst i l2)%nat.
Proof. induction l1 as [|a l IH]; cbn [app cnt_inst]; [reflexivity | rewrite IH; lia]. Qed.
Lemma cnt_inst_repeat i j n : cnt_inst i (repeat j n) = match i, j with IA, IA | IB, IB => n | _, _ => O end.
Proof. induction n as [|n IH]; cbn [repeat cnt_inst]; [destruct i, j; reflexivity | rewrite IH; destruct i, j; lia]. Qed.

(* ------------------------------------------------------------------ *)
(* the invariant of the connection *)
Definition reachR (d : state) : Prop := exists ops, d = run init ops.

Definition qinv (b : btabs) : Prop :=
  (forall rid, In rid (b_active b) -> rid <> 0 /\ (In rid (b_inq b) \/ In rid (b_running b))) /\
  (forall id, In id (b_giftids b) <-> In id (b_gifts b)).

Record SInv (s : sym) : Prop := {
  si_ra : reachR (dA s);
  si_rb : reachR (dB s);
  si_lost : lost (dB s) = lost (dA s);
  (* the tag lists are a merge of the instances' queues: a delivery always finds its message *)
  si_ab_a : cnt_inst IA (tAB s) = List.length (ch_oh (dA s));
  si_ab_b : cnt_inst IB (tAB s) = List.length (ch_ho (dB s));
  si_ba_a : cnt_inst IA (tBA s) = List.length (ch_ho (dA s));
  si_ba_b : cnt_inst IB (tBA s) = List.length (ch_oh (dB s));
  si_xa : qinv (xA s);
  si_xb : qinv (xB s)
}.

Lemma reachR_step d o : reachR d -> reachR (fst (step d o)).
Proof. intros (ops & ->). exists (ops ++ [o]). rewrite run_app. reflexivity. Qed.
Lemma reachR_Inv d : reachR d -> Inv d.
Proof. intros (ops & ->). apply Inv_reachable. Qed.

Lemma memZ_In x l : memZ x l = true <-> In x l.
Proof. unfold memZ. rewrite existsb_exists. split; [intros (y & H & E); apply Z.eqb_eq in E; subst; exact H | intros H; exists x; split; [exact H | apply Z.eqb_refl]]. Qed.
Lemma In_delZ x y l : In y (delZ x l) <-> In y l /\ y <> x.
Proof. unfold delZ. rewrite filter_In, Bool.negb_true_iff, Z.eqb_neq. tauto. Qed.

Lemma qinv_step b q : qinv b -> qinv (qstep b q).
Proof.
  intros Q0. pose proof Q0 as [H1 H2]. destruct q; cbn [qstep].
  - destruct (negb (rid =? 0) && memZ rid (b_active b)) eqn:E; [exact Q0|]. split; cbn [b_active b_inq b_running b_gifts b_giftids]; [|exact H2].
    intros r Hr. destruct (rid =? 0) eqn:E0.
    + destruct (H1 r Hr) as [A [B|B]]; (split; [exact A|]); [left; apply in_or_app; left; exact B | right; exact B].
    + apply Z.eqb_neq in E0. destruct Hr as [<-|Hr]; [split; [exact E0 | left; apply in_or_app; right; left; reflexivity]|].
      destruct (H1 r Hr) as [A [B|B]]; (split; [exact A|]); [left; apply in_or_app; left; exact B | right; exact B].
  - destruct (b_inq b) as [|rid r] eqn:Eq; [exact Q0|]. clear Q0. split; cbn [b_active b_inq b_running b_gifts b_giftids]; [|exact H2].
    intros x Hx. destruct (H1 x Hx) as [A [B|B]]; (split; [exact A|]).
    + destruct B as [<-|B]; [|left; exact B]. right. apply Z.eqb_neq in A. rewrite A. left; reflexivity.
    + right. destruct (rid =? 0); [exact B | right; exact B].
  - destruct (memZ rid (b_running b)) eqn:E; [|exact Q0]. split; cbn [b_active b_inq b_running b_gifts b_giftids]; [|exact H2].
    intros x Hx. apply In_delZ in Hx as [Hx Ne]. destruct (H1 x Hx) as [A [B|B]]; (split; [exact A|]); [left; exact B|].
    right. apply In_delZ. auto.
  - destruct (memZ id (b_gifts b)) eqn:E; [exact Q0|]. split; cbn [b_active b_inq b_running b_gifts b_giftids]; [exact H1|].
    intros x. cbn [In]. rewrite H2. tauto.
  - split; cbn [b_active b_inq b_running b_gifts b_giftids]; [exact H1|]. intros x. rewrite !In_delZ, H2. tauto.
Qed.

Lemma qinv_finish b : qinv b -> qinv (qfinish b).
Proof.
  intros [H1 H2]. unfold qfinish. destruct finish_clears_gifts_spec as (-> & -> & ->). split; cbn [b_active b_inq b_running b_gifts b_giftids].
  - intros r Hr. apply filter_In in Hr as [Hr Hn]. apply Bool.negb_true_iff in Hn.
    destruct (H1 r Hr) as [A [B|B]]; (split; [exact A|]); [|right; exact B].
    apply memZ_In in B. congruence.
  - intros x. cbn. tauto.
Qed.

Lemma SInv_init : SInv sinit.
Proof.
  constructor; cbn; auto; try (exists []; reflexivity); split; cbn; try tauto; intros; tauto.
Qed.

Lemma lost_local d o : is_local o = true -> lost (fst (step d o)) = lost d.
Proof.
  intros L. destruct (lost d) eqn:Hl; [rewrite step_lost_id by exact Hl; exact Hl|].
  apply lost_preserved; [exact Hl | destruct o; discriminate].
Qed.

Theorem SInv_step s o : SInv s -> SInv (sstep s o).
Proof.
  intros I. unfold sstep. destruct (lost (dA s)) eqn:Hl; [exact I|].
  assert (HlB : lost (dB s) = false) by (rewrite (si_lost s I); exact Hl).
  destruct o.
  - (* local action of IA *)
    destruct (is_local o) eqn:L; [|exact I]. destruct (local_queues_grow (dA s) o L) as [G1 G2].
    constructor; cbn [dA dB tAB tBA xA xB]; try apply I.
    + apply reachR_step, I.
    + rewrite lost_local by exact L. apply I.
    + unfold grow. rewrite cnt_inst_app, cnt_inst_repeat, (si_ab_a s I). lia.
    + unfold grow. rewrite cnt_inst_app, cnt_inst_repeat, (si_ab_b s I). lia.
    + unfold grow. rewrite cnt_inst_app, cnt_inst_repeat, (si_ba_a s I). lia.
    + unfold grow. rewrite cnt_inst_app, cnt_inst_repeat, (si_ba_b s I). lia.
  - destruct (is_local o) eqn:L; [|exact I]. destruct (local_queues_grow (dB s) o L) as [G1 G2].
    constructor; cbn [dA dB tAB tBA xA xB]; try apply I.
    + apply reachR_step, I.
    + rewrite lost_local by exact L. apply I.
    + unfold grow. rewrite cnt_inst_app, cnt_inst_repeat, (si_ab_a s I). lia.
    + unfold grow. rewrite cnt_inst_app, cnt_inst_repeat, (si_ab_b s I). lia.
    + unfold grow. rewrite cnt_inst_app, cnt_inst_repeat, (si_ba_a s I). lia.
    + unfold grow. rewrite cnt_inst_app, cnt_inst_repeat, (si_ba_b s I). lia.
  - (* delivery A -> B *)
    destruct (tAB s) as [|[|] r] eqn:Et; [exact I | |].
    + pose proof (si_ab_a s I) as C. rewrite Et in C. cbn [cnt_inst] in C.
      destruct (ch_oh (dA s)) as [|m q] eqn:Hch; [cbn in C; lia|].
      destruct (recv_oh_queues (dA s) m q (reachR_Inv _ (si_ra s I)) Hl Hch) as [Q1 Q2].
      constructor; cbn [dA dB tAB tBA xA xB]; try apply I.
      * apply reachR_step, I.
      * rewrite (lost_preserved (dA s) RecvOH Hl) by discriminate. exact HlB.
      * rewrite Q1. cbn in C. lia.
      * pose proof (si_ab_b s I) as D. rewrite Et in D. cbn [cnt_inst] in D. lia.
      * rewrite Q2. apply I.
    + pose proof (si_ab_b s I) as C. rewrite Et in C. cbn [cnt_inst] in C.
      destruct (ch_ho (dB s)) as [|m q] eqn:Hch; [cbn in C; lia|].
      destruct (recv_ho_queues (dB s) m q HlB Hch) as [Q1 Q2].
      constructor; cbn [dA dB tAB tBA xA xB]; try apply I.
      * apply reachR_step, I.
      * rewrite (lost_preserved (dB s) RecvHO HlB) by discriminate. symmetry; exact Hl.
      * pose proof (si_ab_a s I) as D. rewrite Et in D. cbn [cnt_inst] in D. lia.
      * rewrite Q1. cbn in C. lia.
      * unfold grow. rewrite cnt_inst_app, cnt_inst_repeat, (si_ba_a s I). lia.
      * unfold grow. rewrite cnt_inst_app, cnt_inst_repeat, (si_ba_b s I). lia.
  - (* delivery B -> A *)
    destruct (tBA s) as [|[|] r] eqn:Et; [exact I | |].
    + pose proof (si_ba_a s I) as C. rewrite Et in C. cbn [cnt_inst] in C.
      destruct (ch_ho (dA s)) as [|m q] eqn:Hch; [cbn in C; lia|].
      destruct (recv_ho_queues (dA s) m q Hl Hch) as [Q1 Q2].
      constructor; cbn [dA dB tAB tBA xA xB]; try apply I.
      * apply reachR_step, I.
      * rewrite (lost_preserved (dA s) RecvHO Hl) by discriminate. exact HlB.
      * unfold grow. rewrite cnt_inst_app, cnt_inst_repeat, (si_ab_a s I). lia.
      * unfold grow. rewrite cnt_inst_app, cnt_inst_repeat, (si_ab_b s I). lia.
      * rewrite Q1. cbn in C. lia.
      * pose proof (si_ba_b s I) as D. rewrite Et in D. cbn [cnt_inst] in D. lia.
    + pose proof (si_ba_b s I) as C. rewrite Et in C. cbn [cnt_inst] in C.
      destruct (ch_oh (dB s)) as [|m q] eqn:Hch; [cbn in C; lia|].
      destruct (recv_oh_queues (dB s) m q (reachR_Inv _ (si_rb s I)) HlB Hch) as [Q1 Q2].
      constructor; cbn [dA dB tAB tBA xA xB]; try apply I.
      * apply reachR_step, I.
      * rewrite (lost_preserved (dB s) RecvOH HlB) by discriminate. symmetry; exact Hl.
      * rewrite Q2. apply I.
      * pose proof (si_ba_a s I) as D. rewrite Et in D. cbn [cnt_inst] in D. lia.
      * rewrite Q1. cbn in C. lia.
  - constructor; cbn [dA dB tAB tBA xA xB]; try apply I. apply qinv_step, I.
  - constructor; cbn [dA dB tAB tBA xA xB]; try apply I. apply qinv_step, I.
  - (* loss *)
    assert (EA : forall d, lost d = false -> ch_oh (fst (step d ConnLost)) = [] /\ ch_ho (fst (step d ConnLost)) = [] /\ lost (fst (step d ConnLost)) = true).
    { intros d Hd. unfold step. rewrite Hd. cbn. auto. }
    destruct (EA _ Hl) as (A1 & A2 & A3). destruct (EA _ HlB) as (B1 & B2 & B3).
    constructor; cbn [dA dB tAB tBA xA xB]; try (apply reachR_step; apply I); try (apply qinv_finish; apply I).
    + congruence.
    + rewrite A1. reflexivity.
    + rewrite B2. reflexivity.
    + rewrite A2. reflexivity.
    + rewrite B1. reflexivity.
Qed.

Theorem SInv_run ops : forall s, SInv s -> SInv (srun s ops).
Proof. induction ops as [|o r IH]; intros s I; cbn [srun]; [exact I | apply IH, SInv_step, I]. Qed.

Corollary SInv_reachable ops : SInv (srun sinit ops).
Proof. apply SInv_run, SInv_init. Qed.

(* ------------------------------------------------------------------ *)
(* product theorem: whatever the two directions do at once over the shared FIFOs, each direction is a history of the
   one-direction model -- so every theorem of props/C08.v / C09.v about `run init ops` holds for it *)
Theorem directions_independent ops :
  let s := srun sinit ops in
  (exists opsA, dA s = run init opsA) /\ (exists opsB, dB s = run init opsB) /\ lost (dA s) = lost (dB s).
Proof. intros s. pose proof (SInv_reachable ops) as I. fold s in I. split; [apply I|]. split; [apply I|]. symmetry. apply I. Qed.

(* the shared FIFOs: the tag lists are exactly a merge of the two instances' queues *)
Theorem fifo_is_a_merge ops :
  let s := srun sinit ops in
  cnt_inst IA (tAB s) = List.length (ch_oh (dA s)) /\ cnt_inst IB (tAB s) = List.length (ch_ho (dB s)) /\
  cnt_inst IA (tBA s) = List.length (ch_ho (dA s)) /\ cnt_inst IB (tBA s) = List.length (ch_oh (dB s)).
Proof. intros s. pose proof (SInv_reachable ops) as I. fold s in I. repeat split; apply I. Qed.

(* C09 per direction, both at once *)
Theorem sym_count_invariant ops c :
  let s := srun sinit ops in
  (rc (o_tab (ow (dA s))) c = recv_sum (h_trk (hd (dA s))) c + inflight (ch_oh (dA s)) c + decs (ch_ho (dA s)) c + cnt (leaked (dA s)) c) /\
  (rc (o_tab (ow (dB s))) c = recv_sum (h_trk (hd (dB s))) c + inflight (ch_oh (dB s)) c + decs (ch_ho (dB s)) c + cnt (leaked (dB s)) c).
Proof.
  intros s. destruct (directions_independent ops) as ((oa & Ea) & (ob & Eb) & _). fold s in Ea, Eb. rewrite Ea, Eb.
  split; apply count_invariant.
Qed.

Theorem sym_no_reuse ops :
  let s := srun sinit ops in
  NoDup (map fst (o_alloc (ow (dA s)))) /\ NoDup (map oe_clid (o_tab (ow (dA s)))) /\
  NoDup (map fst (o_alloc (ow (dB s)))) /\ NoDup (map oe_clid (o_tab (ow (dB s)))).
Proof.
  intros s. destruct (directions_independent ops) as ((oa & Ea) & (ob & Eb) & _). fold s in Ea, Eb. rewrite Ea, Eb.
  destruct (no_reuse oa) as (A1 & A2 & _). destruct (no_reuse ob) as (B1 & B2 & _). auto.
Qed.

(* "when the connection is lost both sides forget everything": both export tables, both import tables, all four queues,
   the gift tables, the calls that were parsed but never run with their activeLocalCalls entries -- and it stays that way *)
Definition forgotten (d : state) : Prop := lost d = true /\ o_tab (ow d) = [] /\ h_tab (hd d) = [] /\ ch_oh d = [] /\ ch_ho d = [].
Definition qforgotten (b : btabs) : Prop :=
  b_gifts b = [] /\ b_giftids b = [] /\ b_inq b = [] /\ forall rid, In rid (b_active b) -> In rid (b_running b).

Lemma sstep_lost_id s o : lost (dA s) = true -> sstep s o = s.
Proof. intros H. unfold sstep. rewrite H. reflexivity. Qed.
Lemma srun_lost_id ops s : lost (dA s) = true -> srun s ops = s.
Proof. induction ops as [|o r IH]; cbn [srun]; [reflexivity|]. intros H. rewrite sstep_lost_id by exact H. apply IH, H. Qed.

Lemma sstep_lost_only_by_SLost s o : lost (dA s) = false -> lost (dA (sstep s o)) = true -> o = SLost.
Proof.
  intros E0 H. unfold sstep in H. rewrite E0 in H. destruct o; try reflexivity; exfalso.
  - destruct (is_local o) eqn:L; cbv zeta in H; cbn [dA] in H; [rewrite lost_local in H by exact L|]; congruence.
  - destruct (is_local o) eqn:L; cbv zeta in H; cbn [dA] in H; congruence.
  - destruct (tAB s) as [|[|] q]; cbv zeta in H; cbn [dA] in H; try congruence.
    rewrite (lost_preserved (dA s) RecvOH E0) in H by discriminate. discriminate.
  - destruct (tBA s) as [|[|] q]; cbv zeta in H; cbn [dA] in H; try congruence.
    rewrite (lost_preserved (dA s) RecvHO E0) in H by discriminate. discriminate.
  - cbn [dA] in H. congruence.
  - cbn [dA] in H. congruence.
Qed.

Theorem sym_loss_forgets ops1 ops2 :
  let s := srun sinit (ops1 ++ SLost :: ops2) in
  forgotten (dA s) /\ forgotten (dB s) /\ tAB s = [] /\ tBA s = [] /\ qforgotten (xA s) /\ qforgotten (xB s).
Proof.
  cbv zeta. assert (App : forall a b s0, srun s0 (a ++ b) = srun (srun s0 a) b).
  { induction a as [|o r IH]; intros b s0; cbn [app srun]; [reflexivity | apply IH]. }
  rewrite App. cbn [srun]. set (s1 := srun sinit ops1).
  pose proof (SInv_reachable ops1) as I. fold s1 in I.
  assert (F : forall d, reachR d -> forgotten (fst (step d ConnLost))).
  { intros d (ops & ->). pose proof (loss_forgets ops []) as L. cbv zeta in L. rewrite run_app in L. cbn [run] in L. exact L. }
  assert (Q : forall b, qinv b -> qforgotten (qfinish b)).
  { intros b [H1 _]. unfold qfinish, qforgotten. destruct finish_clears_gifts_spec as (-> & -> & ->). cbn [b_active b_inq b_running b_gifts b_giftids].
    repeat split; auto. intros r Hr. apply filter_In in Hr as [Hr Hn]. apply Bool.negb_true_iff in Hn.
    destruct (H1 r Hr) as [_ [B|B]]; [apply memZ_In in B; congruence | exact B]. }
  destruct (lost (dA s1)) eqn:Hl.
  - (* already lost before: the state is the one an earlier SLost left; trace back *)
    rewrite sstep_lost_id by exact Hl. rewrite srun_lost_id by exact Hl.
    (* an earlier loss: find it *)
    clear App. revert Hl. subst s1. clear I.
    assert (G : forall ops s0, SInv s0 -> (lost (dA s0) = true ->
                forgotten (dA s0) /\ forgotten (dB s0) /\ tAB s0 = [] /\ tBA s0 = [] /\ qforgotten (xA s0) /\ qforgotten (xB s0)) ->
                lost (dA (srun s0 ops)) = true ->
                let s := srun s0 ops in forgotten (dA s) /\ forgotten (dB s) /\ tAB s = [] /\ tBA s = [] /\ qforgotten (xA s) /\ qforgotten (xB s)).
    { induction ops as [|o r IH]; intros s0 I0 H0 Hl; cbn [srun] in *; [apply H0; exact Hl|].
      apply IH; [apply SInv_step; exact I0 | | exact Hl].
      intros Hl1. destruct (lost (dA s0)) eqn:E0; [rewrite sstep_lost_id by exact E0; apply H0; reflexivity|].
      (* the step that lost the connection is SLost *)
      assert (o = SLost) by (eapply sstep_lost_only_by_SLost; eauto). subst o.
      unfold sstep. rewrite E0. cbn [dA dB tAB tBA xA xB].
      split; [apply F, I0|]. split; [apply F, I0|]. split; [reflexivity|]. split; [reflexivity|]. split; apply Q; apply I0. }
    intros Hl. apply (G ops1 sinit SInv_init); [cbn; discriminate | exact Hl].
  - assert (E : sstep s1 SLost = {| dA := fst (step (dA s1) ConnLost); dB := fst (step (dB s1) ConnLost); tAB := []; tBA := [];
                                    xA := qfinish (xA s1); xB := qfinish (xB s1) |}) by (unfold sstep; rewrite Hl; reflexivity).
    rewrite E. rewrite srun_lost_id by (cbn [dA]; apply lost_after_connlost). cbn [dA dB tAB tBA xA xB].
    split; [apply F, I|]. split; [apply F, I|]. split; [reflexivity|]. split; [reflexivity|]. split; apply Q; apply I.
Qed.

(* non-vacuity: references flow both ways at once, releases cross, calls are queued, gifts registered; then the loss *)
Example both_directions_example :
  let s := srun sinit [ActA (Send 1 false); ActB (Send 5 false); DeliverBA; DeliverAB; ActA (DropProxy 0); ActA HandleRefLost;
                       ActB (Send 5 false); ActB (DropProxy 0); ActB HandleRefLost; AuxA (QCall 7); AuxA (QCall 0); AuxA QRun;
                       AuxA (QCall 9); AuxB (QGift 3)] in
  tAB s = [IB] /\ tBA s = [IA; IB] /\ List.length (ch_ho (dA s)) = 1%nat /\ List.length (ch_ho (dB s)) = 1%nat /\
  b_inq (xA s) = [0; 9] /\ b_active (xA s) = [9; 7] /\ b_gifts (xB s) = [3] /\
  let s' := sstep s SLost in b_active (xA s') = [7] /\ b_inq (xA s') = [] /\ b_gifts (xB s') = [] /\ o_tab (ow (dA s')) = [] /\ h_tab (hd (dB s')) = [].
Proof. vm_compute. repeat split. Qed.
