(* C18: re-entrant logging.  A call of msg() may, while it runs, cause further calls of msg(): from an immediate
   observer, from an application observer's synchronous part, from a __str__ / __repr__ of one of its arguments (str() of
   the message in _msg, %r of args / kwargs when the internal-error event is built).  msg() takes its number from the
   counter BEFORE anything else (first statement of msg, matched by the generator; Count.next translated through PyLite),
   so a call tree is numbered in the order in which the calls START, whatever happens inside.
   call = one msg() call with the calls made from inside it, in order; explicit = the caller passed num=. *)
From Coq Require Import ZArith List Bool Lia.
Import ListNotations.
Require Import Verif.lib.PyLite Verif.gen.LogBufGen Verif.lib.LogBuf.
Local Open Scope Z_scope.

Inductive call := Call (explicit : option Z) (inner : list call).

(* -> (counter afterwards, value returned by this call, values returned by the calls of the tree in the order they START) *)
Fixpoint rcall (seq : Z) (c : call) {struct c} : Z * Z * list Z :=
  match c with
  | Call ex inner =>
    let '(num, seq1) := match ex with Some n => (n, seq) | None => next_num seq end in
    let '(seq2, rets) :=
      (fix go (seq : Z) (l : list call) {struct l} : Z * list Z :=
         match l with
         | [] => (seq, [])
         | x :: t => let '(s1, _, r1) := rcall seq x in let '(s2, r2) := go s1 t in (s2, r1 ++ r2)
         end) seq1 inner in
    (seq2, num, num :: rets)
  end.

Fixpoint rcalls (seq : Z) (l : list call) : Z * list Z :=
  match l with
  | [] => (seq, [])
  | x :: t => let '(s1, _, r1) := rcall seq x in let '(s2, r2) := rcalls s1 t in (s2, r1 ++ r2)
  end.

Fixpoint size (c : call) : nat :=
  match c with Call _ inner => S ((fix go (l : list call) : nat := match l with [] => O | x :: t => (size x + go t)%nat end) inner) end.

Fixpoint sizes (l : list call) : nat := match l with [] => O | x :: t => (size x + sizes t)%nat end.

Fixpoint all_auto (c : call) : bool :=
  match c with
  | Call ex inner => match ex with None => true | Some _ => false end &&
                     (fix go (l : list call) : bool := match l with [] => true | x :: t => all_auto x && go t end) inner
  end.

Fixpoint alls_auto (l : list call) : bool := match l with [] => true | x :: t => all_auto x && alls_auto t end.
