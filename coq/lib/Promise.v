(* C17: executable model of foolscap/promise.py (Promise._send/_sendOnly/_wait_for_resolution/
   _resolve/_resolve2/_break/_deliver/_deliver_queued_messages, makePromise, send, sendOnly, when)
   on top of a FIFO of eventual-sends, and of observer.OneShotObserverList.

   Parametrised by the shape facts read from promise.py ([src_pcfg], from gen/EventualGen.v).
   Promises are numbered in creation order; a message carries an identity, the scripted behaviour
   of the target's method (return a value / raise / return a promise / ... / the target has no
   such method) and the promise for its result.  No proofs here. *)
From Coq Require Import ZArith List Bool.
Import ListNotations.
Require Import Verif.gen.EventualGen.
Local Open Scope Z_scope.

Inductive pst := SEventual | SChained | SNear | SBroken.

Definition pst_code (s : pst) : Z :=
  match s with SEventual => EVENTUAL | SChained => CHAINED | SNear => NEAR | SBroken => BROKEN end.

Record pcfg := {
  pc_break_assigns : bool;     (* _break ends with `self._state = BROKEN` (not `==`) *)
  pc_break_guard : bool;       (* _break refuses a BROKEN promise *)
  pc_resolve_guarded : bool;   (* _resolve refuses unless EVENTUAL *)
  pc_sets_near : bool;         (* _resolve2 ends with self._state = NEAR *)
  pc_queue_on : pst -> bool;   (* states in which _send/_sendOnly queue the message *)
  pc_wait_on : pst -> bool;    (* states in which _wait_for_resolution registers a watcher *)
  pc_pending_pos : endpos;     (* where a queued message is put *)
  pc_drain_order : iterorder;  (* order in which _deliver_queued_messages walks _pendingMethods *)
  pc_watch_order : iterorder;  (* ... and _watchers *)
  pc_codes_distinct : bool     (* the four state constants are pairwise different *)
}.

Definition mem_code (l : list Z) (s : pst) : bool := existsb (Z.eqb (pst_code s)) l.

(* the `in (..)` tests tabulated over the four states, so that [src_pcfg] is a closed value *)
Definition tab (f : pst -> bool) : pst -> bool :=
  let a := f SEventual in let b := f SChained in let c := f SNear in let d := f SBroken in
  fun s => match s with SEventual => a | SChained => b | SNear => c | SBroken => d end.

Definition codes_distinct : bool :=
  negb (EVENTUAL =? CHAINED) && negb (EVENTUAL =? NEAR) && negb (EVENTUAL =? BROKEN) &&
  negb (CHAINED =? NEAR) && negb (CHAINED =? BROKEN) && negb (NEAR =? BROKEN).

Definition src_pcfg : pcfg := {|
  pc_break_assigns := match pr_break_state_stmt with Assign => true | Compare => false end;
  pc_break_guard := pr_break_guards_rebreak;
  pc_resolve_guarded := pr_resolve_guarded;
  pc_sets_near := pr_resolve_sets_near;
  pc_queue_on := tab (mem_code pr_queue_states);
  pc_wait_on := tab (mem_code pr_wait_states);
  pc_pending_pos := pr_pending_pos;
  pc_drain_order := pr_drain_order;
  pc_watch_order := pr_watch_order;
  pc_codes_distinct := codes_distinct |}.

Definition pending_state (s : pst) : bool := match s with SEventual | SChained => true | _ => false end.

(* promise.py before commit "Promise._break really enters the BROKEN state" (D10) *)
Definition d10_pcfg : pcfg := {|
  pc_break_assigns := false; pc_break_guard := true; pc_resolve_guarded := true; pc_sets_near := true;
  pc_queue_on := pending_state; pc_wait_on := pending_state; pc_pending_pos := Tail;
  pc_drain_order := Forward; pc_watch_order := Forward; pc_codes_distinct := true |}.

Inductive outcome := Val (v : Z) | Fail (f : Z).
Inductive beh := BRet (v : Z) | BRaise (f : Z) | BRetP (q : nat)
  | BSendRet (q : nat) (m : Z) (v : Z)    (* the method itself does sendOnly(promise q).m(..) [message m], then returns v *)
  | BRetD                                 (* the method returns a Deferred (one per message, identified by the message id);
                                             the program fires it -- before or after the delivery -- with PFire *)
  | BNoMeth.                              (* the target has no method of that name: getattr(self._target, methname) in
                                             _deliverOneMethod raises AttributeError inside maybeDeferred -- nothing is invoked,
                                             the resolver of the result promise gets that Failure *)
(* the code the harness gives a Failure whose exception is not one of its own (canon_outcome): the AttributeError *)
Definition attr_error : Z := (-1)%Z.
Definition invocable (b : beh) : bool := match b with BNoMeth => false | _ => true end.
Inductive resolution := RVal (v : Z) | RFail (f : Z) | RProm (q : nat).
(* the Deferred a method returned / will return: still waited for by the resolver of the message's result promise
   (d.addBoth(resolver) in _deliver), fired before the method returned it, or fired and consumed *)
Inductive dst := DWait (r : option nat) | DFired (x : resolution) | DDone.
Record msg := { mid : Z; mbeh : beh; mres : option nat }.
Inductive watcher := W (w : Z) | Chain (p : nat).

Record promise := {
  pstate : pst;                 (* _state *)
  ptarget : option outcome;     (* _target, once set *)
  plive : bool;                 (* _pendingMethods / _watchers still exist *)
  ppending : list msg;          (* _pendingMethods *)
  pwatch : list watcher         (* _watchers: Deferreds of when(), or the link of a chained promise *)
}.

Inductive task :=
| TDeliver (p : nat) (m : msg)                        (* eventually(self._deliver, ...) *)
| TCallback (p : nat) (wt : watcher) (o : outcome).   (* eventually(d.callback, self._target) *)

Inductive pev :=
| ESent (p : nat) (m : Z)                       (* send / sendOnly accepted message m for p *)
| EDelivered (p : nat) (m : Z) (o : outcome)    (* _deliver ran: method invoked on value / resolver given the failure *)
| EDeliveredNM (p : nat) (m : Z) (o : outcome)  (* _deliver ran, message m was taken from the queue and handed to the value o
                                                   of p, which has no such method: nothing invoked ([BNoMeth]) *)
| EWhen (p : nat) (w : Z)                       (* when(p) / p._then / p._except registered observer w *)
| EChained (p q : nat)                          (* p was resolved with the promise q (accepted: p was EVENTUAL) *)
| EObserved (p : nat) (w : Z) (o : outcome)     (* observer w of p was told o *)
| ERefused (p : nat) (top : bool)               (* UsageError (top: raised to the caller of the operation) *)
| ECrash (p : nat) (top : bool).                (* AttributeError: the promise's lists are gone *)

Record ps := { tbl : nat -> option promise; next : nat; queue : list task; defs : list (Z * dst) }.

Definition ps0 : ps := {| tbl := fun _ => None; next := 0; queue := []; defs := [] |}.

Definition dget (l : list (Z * dst)) (m : Z) : option dst :=
  match find (fun x => Z.eqb (fst x) m) l with Some x => Some (snd x) | None => None end.
Definition set_def (s : ps) (m : Z) (d : dst) : ps :=
  {| tbl := tbl s; next := next s; queue := queue s; defs := (m, d) :: defs s |}.

Definition fresh : promise :=
  {| pstate := SEventual; ptarget := None; plive := true; ppending := []; pwatch := [] |}.

Definition upd (t : nat -> option promise) (p : nat) (pr : promise) : nat -> option promise :=
  fun i => if Nat.eqb i p then Some pr else t i.

Definition setp (s : ps) (p : nat) (pr : promise) : ps :=
  {| tbl := upd (tbl s) p pr; next := next s; queue := queue s; defs := defs s |}.

Definition enq (s : ps) (ts : list task) : ps :=
  {| tbl := tbl s; next := next s; queue := queue s ++ ts; defs := defs s |}.

Definition alloc (s : ps) : ps * nat :=
  ({| tbl := upd (tbl s) (next s) fresh; next := S (next s); queue := queue s; defs := defs s |}, next s).

Definition ord {A} (o : iterorder) (l : list A) : list A := match o with Forward => l | Backward => rev l end.
Definition put {A} (p : endpos) (l : list A) (x : A) : list A := match p with Tail => l ++ [x] | Head => x :: l end.

Definition drain_tasks (c : pcfg) (p : nat) (pr : promise) (o : outcome) : list task :=
  map (TDeliver p) (ord (pc_drain_order c) (ppending pr)) ++
  map (fun wt => TCallback p wt o) (ord (pc_watch_order c) (pwatch pr)).

Definition is_broken (s : pst) : bool := match s with SBroken => true | _ => false end.
Definition is_eventual (s : pst) : bool := match s with SEventual => true | _ => false end.

(* _resolve2 with an immediate value (Val) or a Failure (Fail: _break) *)
Definition resolve2 (c : pcfg) (top : bool) (s : ps) (p : nat) (o : outcome) : ps * list pev :=
  match tbl s p with
  | None => (s, [])
  | Some pr =>
      if (match o with Fail _ => pc_break_guard c && is_broken (pstate pr) | Val _ => false end)
      then (s, [ERefused p top])
      else if negb (plive pr)
      then (* the lists are gone: `self._target = ..` is executed, then AttributeError.  (A link firing on a promise
              that is already NEAR/BROKEN is recorded as a crash that leaves it alone; the harness checks on every
              run that _resolve2 is never entered in those states.) *)
        if pending_state (pstate pr)
        then (setp s p {| pstate := pstate pr; ptarget := Some o; plive := false; ppending := []; pwatch := [] |},
              [ECrash p top])
        else (s, [ECrash p top])
      else
        let st' := match o with
                   | Val _ => if pc_sets_near c then SNear else pstate pr
                   | Fail _ => if pc_break_assigns c then SBroken else pstate pr
                   end in
        (enq (setp s p {| pstate := st'; ptarget := Some o; plive := false; ppending := []; pwatch := [] |})
             (drain_tasks c p pr o), [])
  end.

(* when(q).addBoth(p._resolve2) *)
Definition chain_to (c : pcfg) (top : bool) (s : ps) (p q : nat) : ps * list pev :=
  match tbl s q with
  | None => (s, [])
  | Some qr =>
      if pc_wait_on c (pstate qr) then
        if plive qr
        then (setp s q {| pstate := pstate qr; ptarget := ptarget qr; plive := true; ppending := ppending qr;
                          pwatch := pwatch qr ++ [Chain p] |}, [])
        else (s, [ECrash q top])
      else match ptarget qr with
           | Some o => resolve2 c top s p o
           | None => (s, [ECrash q top])
           end
  end.

(* p._resolve(x) *)
Definition resolve_call (c : pcfg) (top : bool) (s : ps) (p : nat) (x : resolution) : ps * list pev :=
  match tbl s p with
  | None => (s, [])
  | Some pr =>
      if pc_resolve_guarded c && negb (is_eventual (pstate pr)) then (s, [ERefused p top])
      else match x with
           | RVal v => resolve2 c top s p (Val v)
           | RFail f => resolve2 c top s p (Fail f)
           | RProm q =>
               match tbl s q with
               | None => (s, [])
               | Some _ =>
                   let '(s1, e) := chain_to c top (setp s p {| pstate := SChained; ptarget := ptarget pr; plive := plive pr;
                                                                ppending := ppending pr; pwatch := pwatch pr |}) p q in
                   (s1, EChained p q :: e)
               end
           end
  end.

(* p._send / p._sendOnly *)
Definition send_op (c : pcfg) (s : ps) (p : nat) (m : Z) (b : beh) (want_result : bool) : ps * list pev :=
  match tbl s p with
  | None => (s, [])
  | Some pr =>
      let '(s1, r) := if want_result then (let '(s1, r) := alloc s in (s1, Some r)) else (s, None) in
      let mm := {| mid := m; mbeh := b; mres := r |} in
      if pc_queue_on c (pstate pr) then
        if plive pr
        then (setp s1 p {| pstate := pstate pr; ptarget := ptarget pr; plive := true;
                           ppending := put (pc_pending_pos c) (ppending pr) mm; pwatch := pwatch pr |}, [ESent p m])
        else (s1, [ECrash p true])
      else (enq s1 [TDeliver p mm], [ESent p m])
  end.

(* when(p) / p._then / p._except *)
Definition when_op (c : pcfg) (s : ps) (p : nat) (w : Z) : ps * list pev :=
  match tbl s p with
  | None => (s, [])
  | Some pr =>
      if pc_wait_on c (pstate pr) then
        if plive pr
        then (setp s p {| pstate := pstate pr; ptarget := ptarget pr; plive := true; ppending := ppending pr;
                          pwatch := pwatch pr ++ [W w] |}, [EWhen p w])
        else (s, [ECrash p true])
      else match ptarget pr with
           | Some o => (s, [EWhen p w; EObserved p w o])
           | None => (s, [ECrash p true])
           end
  end.

Definition resolver (c : pcfg) (s : ps) (r : option nat) (x : resolution) : ps * list pev :=
  match r with None => (s, []) | Some r => resolve_call c false s r x end.

(* the method of message m runs on a value: a re-entrant send happens first, inside the call *)
Definition meth_send (c : pcfg) (s : ps) (m : msg) : ps * list pev :=
  match mbeh m with
  | BSendRet q m2 _ => send_op c s q m2 (BRet 0) false
  | _ => (s, [])
  end.

(* ... then it returns: what the resolver of the result promise is called with now (None: the method returned a
   Deferred that has not fired yet: d.addBoth(resolver) waits).  nx = number of promises when the method started *)
Definition meth_result (nx : nat) (s0 : ps) (m : msg) : ps * option resolution :=
  match mbeh m with
  | BRet x => (s0, Some (RVal x))
  | BRaise f => (s0, Some (RFail f))
  | BRetP q => (s0, Some (if Nat.ltb q nx then RProm q else RVal 0))
  | BSendRet _ _ x => (s0, Some (RVal x))
  | BRetD => match dget (defs s0) (mid m) with
             | None => (set_def s0 (mid m) (DWait (mres m)), None)
             | Some (DFired x) => (set_def s0 (mid m) DDone, Some x)
             | Some _ => (s0, None)
             end
  | BNoMeth => (s0, Some (RFail attr_error))
  end.

(* the report of a hand-over to a value: a method was invoked, or there was none to invoke *)
Definition dev (p : nat) (m : msg) (o : outcome) : pev :=
  if invocable (mbeh m) then EDelivered p (mid m) o else EDeliveredNM p (mid m) o.

Definition resolver_opt (c : pcfg) (s : ps) (r : option nat) (x : option resolution) : ps * list pev :=
  match x with Some x => resolver c s r x | None => (s, []) end.

Definition run_task (c : pcfg) (s : ps) (t : task) : ps * list pev :=
  match t with
  | TDeliver p m =>
      match tbl s p with
      | None => (s, [])
      | Some pr =>
          match ptarget pr with
          | None => (s, [ECrash p false])
          | Some (Fail f) =>
              let '(s1, e) := resolver c s (mres m) (RFail f) in (s1, EDelivered p (mid m) (Fail f) :: e)
          | Some (Val v) =>
              let '(s0, e0) := meth_send c s m in
              let '(s0', x) := meth_result (next s) s0 m in
              let '(s1, e) := resolver_opt c s0' (mres m) x in
              (s1, dev p m (Val v) :: e0 ++ e)
          end
      end
  | TCallback p (W w) o => (s, [EObserved p w o])
  | TCallback p (Chain p') o => resolve2 c false s p' o
  end.

Definition run_one (c : pcfg) (s : ps) : ps * list pev :=
  match queue s with
  | [] => (s, [])
  | t :: q' => run_task c {| tbl := tbl s; next := next s; queue := q'; defs := defs s |} t
  end.

Fixpoint run_n (c : pcfg) (n : nat) (s : ps) : ps * list pev :=
  match n with
  | O => (s, [])
  | S n' => let '(s1, t1) := run_one c s in let '(s2, t2) := run_n c n' s1 in (s2, t1 ++ t2)
  end.

(* one reactor turn: the tasks queued at its start run, in order; what they queue waits *)
Definition pturn (c : pcfg) (s : ps) : ps * list pev := run_n c (List.length (queue s)) s.

(* d.callback(x) on the Deferred of message m.  Not returned by the method yet: it is remembered as fired.  Returned and
   waited for: the resolver runs now, inside the Deferred (a UsageError stays in the Deferred: top = false).  Fired
   before: AlreadyCalledError in Twisted; the harness never does it, the model ignores it. *)
Definition fire_def (c : pcfg) (s : ps) (m : Z) (x : resolution) : ps * list pev :=
  if (match x with RProm q => negb (Nat.ltb q (next s)) | _ => false end) then (s, []) else
  match dget (defs s) m with
  | None => (set_def s m (DFired x), [])
  | Some (DWait r) => resolver c (set_def s m DDone) r x
  | Some _ => (s, [])
  end.

Inductive pop :=
| PNew
| PSend (p : nat) (m : Z) (b : beh)
| PSendOnly (p : nat) (m : Z) (b : beh)
| PWhen (p : nat) (w : Z)
| PResolve (p : nat) (x : resolution)
| PFire (m : Z) (x : resolution)       (* the program fires the Deferred of message m: d.callback(value / Failure / promise) *)
| PTurn.

Definition pstep (c : pcfg) (s : ps) (o : pop) : ps * list pev :=
  match o with
  | PNew => (fst (alloc s), [])
  | PSend p m b => send_op c s p m b true
  | PSendOnly p m b => send_op c s p m b false
  | PWhen p w => when_op c s p w
  | PResolve p (RProm q) => if Nat.ltb q (next s) then resolve_call c true s p (RProm q) else (s, [])
  | PResolve p x => resolve_call c true s p x
  | PFire m x => fire_def c s m x
  | PTurn => pturn c s
  end.

Fixpoint prun (c : pcfg) (s : ps) (ops : list pop) : ps * list pev :=
  match ops with
  | [] => (s, [])
  | o :: ops' => let '(s1, t1) := pstep c s o in let '(s2, t2) := prun c s1 ops' in (s2, t1 ++ t2)
  end.

(* ---- projections used by the theorems *)
Fixpoint sent_to (p : nat) (t : list pev) : list Z :=
  match t with
  | [] => []
  | ESent p' m :: t' => if Nat.eqb p' p then m :: sent_to p t' else sent_to p t'
  | _ :: t' => sent_to p t'
  end.
Fixpoint delivered_to (p : nat) (t : list pev) : list Z :=
  match t with
  | [] => []
  | EDelivered p' m _ :: t' => if Nat.eqb p' p then m :: delivered_to p t' else delivered_to p t'
  | EDeliveredNM p' m _ :: t' => if Nat.eqb p' p then m :: delivered_to p t' else delivered_to p t'
  | _ :: t' => delivered_to p t'
  end.
Fixpoint queued_for (p : nat) (q : list task) : list Z :=
  match q with
  | [] => []
  | TDeliver p' m :: q' => if Nat.eqb p' p then mid m :: queued_for p q' else queued_for p q'
  | _ :: q' => queued_for p q'
  end.
Definition pending_of (s : ps) (p : nat) : list Z :=
  match tbl s p with Some pr => map mid (ppending pr) | None => [] end.

(* observers: registered / told / whose callback is scheduled / still waiting in _watchers *)
Fixpoint whens (p : nat) (t : list pev) : list Z :=
  match t with
  | [] => []
  | EWhen p' w :: t' => if Nat.eqb p' p then w :: whens p t' else whens p t'
  | _ :: t' => whens p t'
  end.
Fixpoint observed (p : nat) (t : list pev) : list Z :=
  match t with
  | [] => []
  | EObserved p' w _ :: t' => if Nat.eqb p' p then w :: observed p t' else observed p t'
  | _ :: t' => observed p t'
  end.
Fixpoint cb_for (p : nat) (q : list task) : list Z :=
  match q with
  | [] => []
  | TCallback p' (W w) _ :: q' => if Nat.eqb p' p then w :: cb_for p q' else cb_for p q'
  | _ :: q' => cb_for p q'
  end.
Fixpoint wids (l : list watcher) : list Z :=
  match l with [] => [] | W w :: l' => w :: wids l' | Chain _ :: l' => wids l' end.
Definition watching (s : ps) (p : nat) : list Z :=
  match tbl s p with Some pr => wids (pwatch pr) | None => [] end.

(* chain links: how often `Chain p` (the pending call of p._resolve2) occurs in a watcher list / among the scheduled
   callbacks / in all the watcher lists of the first n promises *)
Fixpoint cnt (p : nat) (l : list watcher) : nat :=
  match l with
  | [] => O
  | Chain p' :: l' => (if Nat.eqb p' p then 1 else 0) + cnt p l'
  | W _ :: l' => cnt p l'
  end.
Fixpoint cnt_q (p : nat) (q : list task) : nat :=
  match q with
  | [] => O
  | TCallback _ (Chain p') _ :: q' => (if Nat.eqb p' p then 1 else 0) + cnt_q p q'
  | _ :: q' => cnt_q p q'
  end.
Definition watch_of (o : option promise) : list watcher := match o with Some pr => pwatch pr | None => [] end.
Fixpoint cnt_tbl (p : nat) (t : nat -> option promise) (n : nat) : nat :=
  match n with O => O | S k => cnt_tbl p t k + cnt p (watch_of (t k)) end.
Definition nlinks (p : nat) (s : ps) : nat := cnt_tbl p (tbl s) (next s) + cnt_q p (queue s).
Definition is_chained (s : pst) : bool := match s with SChained => true | _ => false end.
(* the number of links a promise must have: one while CHAINED, none otherwise *)
Definition want_links (s : ps) (p : nat) : nat :=
  match tbl s p with Some pr => if is_chained (pstate pr) then 1%nat else O | None => O end.

(* the outcome an event reports about promise p, if it reports one *)
Definition outcome_of (p : nat) (e : pev) : option outcome :=
  match e with
  | EDelivered p' _ o => if Nat.eqb p' p then Some o else None
  | EDeliveredNM p' _ o => if Nat.eqb p' p then Some o else None
  | EObserved p' _ o => if Nat.eqb p' p then Some o else None
  | _ => None
  end.

(* ---- encoding for the correspondence check *)
Definition enc_pev (e : pev) : list Z :=
  match e with
  | ESent p m => [1; Z.of_nat p; m]
  | EDelivered p m (Val v) => [2; Z.of_nat p; m; v]
  | EDelivered _ _ (Fail _) => []                (* not observable: nothing is invoked *)
  | EDeliveredNM _ _ _ => []                     (* not observable: nothing is invoked (the target has no such method) *)
  | EWhen _ _ => []                              (* bookkeeping of the model: the call itself *)
  | EChained _ _ => []
  | EObserved p w (Val v) => [3; Z.of_nat p; w; 0; v]
  | EObserved p w (Fail f) => [3; Z.of_nat p; w; 1; f]
  | ERefused p true => [4; Z.of_nat p]
  | ERefused _ false => []                       (* swallowed by the Deferred / the queue *)
  | ECrash p true => [5; Z.of_nat p]
  | ECrash _ false => []
  end.

Definition enc_promise (o : option promise) : list Z :=
  match o with
  | None => [9; 0; 0]
  | Some pr =>
      (match pstate pr with SEventual => 0 | SChained => 1 | SNear => 2 | SBroken => 3 end) ::
      match ptarget pr with None => [0; 0] | Some (Val v) => [1; v] | Some (Fail f) => [2; f] end
  end.

Definition prun_enc (ops : list pop) : list Z * list Z :=
  let '(s, t) := prun src_pcfg ps0 ops in
  (flat_map enc_pev t,
   Z.of_nat (List.length (queue s)) :: flat_map (fun i => enc_promise (tbl s i)) (seq 0 (next s))).

(* ======================= observer.OneShotObserverList ======================= *)
Record oso := { o_fired : option Z; o_watchers : list Z }.
Inductive oso_op := OWhenFired (w : Z) | OFire (r : Z).
Inductive oso_out := OEventually (w : Z) (r : Z) | OAssert | OCrash.   (* eventually(w.callback, r) / AssertionError / AttributeError *)

Definition oso_step (s : oso) (o : oso_op) : oso * list oso_out :=
  match o with
  | OWhenFired w =>
      match o_fired s with
      | Some r => (s, [OEventually w r])          (* fireEventually(self._result) *)
      | None => ({| o_fired := None; o_watchers := o_watchers s ++ [w] |}, [])
      end
  | OFire r =>
      match o_fired s with
      | Some _ => if ob_fire_asserts_unfired then (s, [OAssert])
                  else ({| o_fired := Some r; o_watchers := [] |}, [OCrash])   (* _result overwritten, then `self._watchers` is gone *)
      | None => ({| o_fired := Some r; o_watchers := [] |}, map (fun w => OEventually w r) (o_watchers s))
      end
  end.

Fixpoint oso_run (s : oso) (ops : list oso_op) : oso * list oso_out :=
  match ops with
  | [] => (s, [])
  | o :: ops' => let '(s1, t1) := oso_step s o in let '(s2, t2) := oso_run s1 ops' in (s2, t1 ++ t2)
  end.

Definition oso0 : oso := {| o_fired := None; o_watchers := [] |}.
