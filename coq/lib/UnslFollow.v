(* "decoding of the following objects is unaffected", for every unslicer semantics (lib/Unsl.v):
   (1) once the root has absorbed a violation inside an object, the receiver is back at top level exactly at the end of that
       object, with the stack untouched and nothing but PONGs emitted;
   (2) what the receiver does with ANY following tokens depends only on discardCount, the index-phase flag, the unslicer stack,
       the object counter and the vocabulary: the scratch fields of a finished index phase (opentype, inboundObjectCount,
       inboundOpenCount) are never read before they are overwritten.  Two receivers that agree on the former produce the same
       events for every token sequence. *)
From Coq Require Import ZArith List Bool Lia.
Import ListNotations.
Require Import Verif.lib.PyLite Verif.gen.BananaGen Verif.gen.RecvGen Verif.lib.Token Verif.lib.Recv Verif.lib.RecvProofs Verif.lib.Unsl Verif.lib.UnslProofs.
Local Open Scope Z_scope.

Section Follow.
Variable fr : Type.
Variable u_check : fr -> Z -> Z -> oc unit.
Variable u_opener_check : list fr -> Z -> Z -> list (list Z) -> oc unit.
Variable u_do_open : list fr -> list (list Z) -> oc (option fr).
Variable u_start : fr -> Z -> oc fr.
Variable u_child : fr -> uval -> list uevent * oc fr.
Variable u_close : fr -> oc uval.
Variable u_finish : fr -> oc unit.
Variable u_report : fr -> option (list uevent).

Notation uctx := (uctx fr).
Notation uhandle_violation := (uhandle_violation fr u_finish u_report).
Notation uhandle_token := (uhandle_token fr u_child u_finish u_report).
Notation uhandle_close := (uhandle_close fr u_child u_close u_finish u_report).
Notation udeliver := (udeliver fr u_do_open u_start u_child u_finish u_report).
Notation ubegin_body := (ubegin_body fr u_check u_opener_check u_finish u_report).
Notation ustep_nobody_hr := (ustep_nobody_hr fr u_check u_opener_check u_do_open u_start u_child u_close u_finish u_report).
Notation utok_apply := (utok_apply fr u_check u_opener_check u_do_open u_start u_child u_close u_finish u_report).
Notation uapply_all := (uapply_all fr u_check u_opener_check u_do_open u_start u_child u_close u_finish u_report).

(* (1) *)
Theorem unsl_rejected_object_ends_at_top ts c c' es :
  List.length (u_stack fr c) = 1%nat -> u_inOpen fr c = false -> stays_discarding (u_discard fr c) ts -> u_discard fr c + udelta_sum ts = 0 ->
  uapply_all c ts = UOk fr c' es ->
  uat_top fr c' /\ u_stack fr c' = u_stack fr c /\ u_vocab fr c' = u_vocab fr c /\ only_pongs es.
Proof.
  intros L IO K Z E.
  destruct (unsl_discard_silent fr u_check u_opener_check u_do_open u_start u_child u_close u_finish u_report ts c c' es IO K E) as (S & I & D & V & P).
  split; [split; [lia|split; [exact I|rewrite S; exact L]]|auto].
Qed.

(* a PING anywhere is answered by exactly one PONG carrying the same number and changes nothing at all *)
Theorem unsl_ping_exact c n : In tok_PING hd_exempt -> utok_apply c tok_PING n [] = UOk fr c [UPong n].
Proof.
  intros HE. unfold Unsl.utok_apply. change (has_body tok_PING) with false. cbv iota.
  unfold Unsl.ustep_nobody_hr. change (tok_PING =? tok_OPEN) with false. cbn [andb].
  assert (X : existsb (Z.eqb tok_PING) hd_exempt = true) by (apply existsb_exists; exists tok_PING; split; [exact HE|apply Z.eqb_refl]).
  rewrite X, orb_true_r.
  change (tok_PING =? tok_CLOSE) with false. change (tok_PING =? tok_ABORT) with false.
  change (tok_PING =? tok_INT) with false. change (tok_PING =? tok_NEG) with false. change (tok_PING =? tok_VOCAB) with false.
  change (tok_PING =? tok_PING) with true. cbv iota. reflexivity.
Qed.

(* the CLOSE count is checked: a CLOSE whose number is not the number of the OPEN that created the innermost unslicer (the root
   has none) is "lost sync" -- the connection is abandoned, nothing is closed.  (Kills the mutant of opt_is that ignores the count.) *)
Theorem unsl_close_count_checked c n top rest : u_stack fr c = top :: rest -> uf_open fr top <> Some n ->
  uhandle_close c n = UFatal fr (ufatal 0).
Proof.
  intros Es NE. unfold Unsl.uhandle_close. rewrite Es.
  assert (X : opt_is (uf_open fr top) n = false).
  { unfold opt_is. destruct (uf_open fr top) as [m|]; [|reflexivity]. destruct (Z.eqb_spec m n); [subst; exfalso; apply NE; reflexivity|reflexivity]. }
  rewrite X. reflexivity.
Qed.

(* ... at token level: nothing being discarded, no index phase pending *)
Theorem unsl_close_token_count_checked c n top rest : existsb (Z.eqb tok_CLOSE) hd_exempt = true ->
  u_discard fr c = 0 -> u_inOpen fr c = false -> u_stack fr c = top :: rest -> uf_open fr top <> Some n ->
  utok_apply c tok_CLOSE n [] = UFatal fr (ufatal 0).
Proof.
  intros HE D IO Es NE. unfold Unsl.utok_apply. change (has_body tok_CLOSE) with false. cbv iota.
  unfold Unsl.ustep_nobody_hr. change (tok_CLOSE =? tok_OPEN) with false. cbn [andb]. rewrite HE, orb_true_r.
  change (tok_CLOSE =? tok_CLOSE) with true. cbv iota. rewrite IO, D. unfold hd_close_fatal. cbn [andb Z.ltb Z.compare].
  rewrite (unsl_close_count_checked c n top rest Es NE). reflexivity.
Qed.

(* and the matching CLOSE is not "lost sync": it reaches receiveClose *)
Theorem unsl_close_matching c n top rest : u_stack fr c = top :: rest -> uf_open fr top = Some n ->
  uhandle_close c n =
  match u_close (uf_st fr top) with
  | OViol => uhandle_violation c false true
  | OBanana => UFatal fr (ufatal 0)
  | OExc k => UFatal fr (ufatal k)
  | OOk obj => match u_finish (uf_st fr top) with
               | OViol => uhandle_violation c false true
               | OBanana => UFatal fr (ufatal 0)
               | OExc k => UFatal fr (ufatal k)
               | OOk _ => uhandle_token (uw_stack fr c (u_discard fr c) rest) obj
               end
  end.
Proof. intros Es EO. unfold Unsl.uhandle_close. rewrite Es, EO. unfold opt_is. rewrite Z.eqb_refl. reflexivity. Qed.

(* (2) *)
Definition set3 (c : uctx) (o : list (list Z)) (a b : Z) : uctx :=
  {| u_discard := u_discard fr c; u_inOpen := u_inOpen fr c; u_opentype := o; u_stack := u_stack fr c; u_objctr := u_objctr fr c;
     u_inbObj := a; u_inbOpen := b; u_vocab := u_vocab fr c |}.

Definition same_but_scratch (c1 c2 : uctx) : Prop :=
  u_discard fr c1 = u_discard fr c2 /\ u_inOpen fr c1 = u_inOpen fr c2 /\ u_stack fr c1 = u_stack fr c2 /\
  u_objctr fr c1 = u_objctr fr c2 /\ u_vocab fr c1 = u_vocab fr c2 /\
  (u_inOpen fr c1 = true -> u_opentype fr c1 = u_opentype fr c2 /\ u_inbObj fr c1 = u_inbObj fr c2 /\ u_inbOpen fr c1 = u_inbOpen fr c2).

Definition hr_rel (r1 r2 : uhr fr) : Prop :=
  match r1, r2 with
  | UOk _ c1 e1, UOk _ c2 e2 => e1 = e2 /\ same_but_scratch c1 c2
  | UFatal _ e1, UFatal _ e2 => e1 = e2
  | _, _ => False
  end.

Definition hr_map (g : uctx -> uctx) (r : uhr fr) : uhr fr := match r with UOk _ c es => UOk fr (g c) es | UFatal _ es => UFatal fr es end.

Lemma sbs_refl c : same_but_scratch c c.
Proof. unfold same_but_scratch. auto 10. Qed.

Lemma sbs_set3 c o a b : u_inOpen fr c = false -> same_but_scratch c (set3 c o a b).
Proof. intros H. unfold same_but_scratch, set3. cbn [u_discard u_inOpen u_stack u_objctr u_vocab u_opentype u_inbObj u_inbOpen]. do 5 (split; [reflexivity|]). intros K. rewrite H in K. discriminate. Qed.

Lemma hr_rel_refl r : hr_rel r r.
Proof. destruct r; cbn; auto using sbs_refl. Qed.

Lemma sbs_eq c1 c2 : same_but_scratch c1 c2 -> u_inOpen fr c1 = true -> c1 = c2.
Proof.
  intros (A & B & C & D & E & F) H. destruct (F H) as (G1 & G2 & G3). destruct c1, c2. cbn in *. subst. reflexivity.
Qed.

Lemma sbs_is_set3 c1 c2 : same_but_scratch c1 c2 -> c2 = set3 c1 (u_opentype fr c2) (u_inbObj fr c2) (u_inbOpen fr c2).
Proof. intros (A & B & C & D & E & F). destruct c1, c2. unfold set3. cbn in *. subst. reflexivity. Qed.

(* the handlers that never look at the scratch fields commute with overwriting them *)
Lemma hv_set3 c o a b io ic : uhandle_violation (set3 c o a b) io ic = hr_map (fun x => set3 x o a b) (uhandle_violation c io ic).
Proof. unfold Unsl.uhandle_violation. cbn [set3 u_stack u_discard]. destruct (uhv_loop _ _ _ _ _ _); reflexivity. Qed.

Lemma upre_map es g r : upre fr es (hr_map g r) = hr_map g (upre fr es r).
Proof. destruct r; reflexivity. Qed.

Lemma token_set3 c o a b v : uhandle_token (set3 c o a b) v = hr_map (fun x => set3 x o a b) (uhandle_token c v).
Proof.
  unfold Unsl.uhandle_token. cbn [set3 u_stack u_discard]. destruct (u_stack fr c) as [|top rest]; [reflexivity|].
  destruct (u_child (uf_st fr top) v) as [es r]. destruct r; try reflexivity.
  change (Unsl.uhandle_violation fr u_finish u_report (set3 c o a b) false false) with (uhandle_violation (set3 c o a b) false false).
  rewrite hv_set3, upre_map. reflexivity.
Qed.

Lemma close_set3 c o a b n : uhandle_close (set3 c o a b) n = hr_map (fun x => set3 x o a b) (uhandle_close c n).
Proof.
  unfold Unsl.uhandle_close. cbn [set3 u_stack u_discard]. destruct (u_stack fr c) as [|top rest]; [reflexivity|].
  destruct (negb _); [reflexivity|].
  destruct (u_close (uf_st fr top)); try reflexivity; try apply hv_set3.
  destruct (u_finish (uf_st fr top)); try reflexivity; try apply hv_set3.
  apply (token_set3 (uw_stack fr c (u_discard fr c) rest)).
Qed.

Lemma hr_map_rel r o a b : (match r with UOk _ c _ => u_inOpen fr c = false | UFatal _ _ => True end) -> hr_rel r (hr_map (fun x => set3 x o a b) r).
Proof. destruct r; cbn; intros H; auto using sbs_set3. Qed.

Lemma hv_inopen c io ic : match uhandle_violation c io ic with UOk _ c' _ => u_inOpen fr c' = u_inOpen fr c | UFatal _ _ => True end.
Proof. unfold Unsl.uhandle_violation. destruct (uhv_loop _ _ _ _ _ _); [reflexivity|exact I]. Qed.

Lemma token_inopen c v : match uhandle_token c v with UOk _ c' _ => u_inOpen fr c' = u_inOpen fr c | UFatal _ _ => True end.
Proof.
  unfold Unsl.uhandle_token. destruct (u_stack fr c) as [|top rest]; [exact I|]. destruct (u_child _ v) as [es r]. destruct r; try exact I; [reflexivity|].
  pose proof (hv_inopen c false false) as H. destruct (uhandle_violation c false false); exact H.
Qed.

Lemma close_inopen c n : match uhandle_close c n with UOk _ c' _ => u_inOpen fr c' = u_inOpen fr c | UFatal _ _ => True end.
Proof.
  unfold Unsl.uhandle_close. destruct (u_stack fr c) as [|top rest]; [exact I|]. destruct (negb _); [exact I|].
  destruct (u_close _); try exact I; try apply hv_inopen. destruct (u_finish _); try exact I; try apply hv_inopen.
  apply (token_inopen (uw_stack fr c (u_discard fr c) rest)).
Qed.

Lemma upre_rel es r1 r2 : hr_rel r1 r2 -> hr_rel (upre fr es r1) (upre fr es r2).
Proof. destruct r1, r2; cbn; intros H; try contradiction; [destruct H as [-> H]; auto|subst; reflexivity]. Qed.

(* one token, index phase not pending: the scratch fields do not matter *)
Lemma tok_apply_set3 c o a b ty hdr body : u_inOpen fr c = false ->
  hr_rel (utok_apply c ty hdr body) (utok_apply (set3 c o a b) ty hdr body).
Proof.
  intros IO. unfold Unsl.utok_apply. destruct (has_body ty).
  - unfold Unsl.ubegin_body. cbn [set3 u_discard u_inOpen]. destruct (0 <? u_discard fr c); [cbn; split; [reflexivity|apply sbs_set3; exact IO]|].
    unfold Unsl.utaste. cbn [set3 u_stack u_inOpen u_opentype]. rewrite IO. destruct (u_stack fr c) as [|top rest] eqn:Es; [cbn; reflexivity|].
    destruct (u_check (uf_st fr top) ty hdr); try (cbn; reflexivity).
    + unfold Unsl.udeliver. cbn [set3 u_inOpen]. rewrite IO.
      change (Unsl.uhandle_token fr u_child u_finish u_report (set3 c o a b)) with (uhandle_token (set3 c o a b)).
      rewrite token_set3. apply hr_map_rel. pose proof (token_inopen c (ubody_val ty body)) as H. destruct (uhandle_token c _); [rewrite H; exact IO|exact I].
    + change (Unsl.uhandle_violation fr u_finish u_report (set3 c o a b) false false) with (uhandle_violation (set3 c o a b) false false).
      rewrite hv_set3. destruct (uhandle_violation c false false) as [c1 es1|es1]; cbn; [|reflexivity].
      split; [reflexivity|]. apply (sbs_set3 (uw_inOpen fr c1 false)). reflexivity.
  - unfold Unsl.ustep_nobody_hr. cbn [set3 u_discard u_inOpen]. rewrite IO, andb_false_r.
    destruct (ty =? tok_OPEN) eqn:EO.
    + (* OPEN: inboundObjectCount and inboundOpenCount are overwritten; opentype is reset when the OPEN is accepted *)
      set (c1 := {| u_discard := u_discard fr c; u_inOpen := true; u_opentype := u_opentype fr c; u_stack := u_stack fr c;
                    u_objctr := u_objctr fr c + 1; u_inbObj := u_objctr fr c; u_inbOpen := u_inbOpen fr c; u_vocab := u_vocab fr c |}).
      cbn [set3 u_discard u_inOpen u_opentype u_stack u_objctr u_inbObj u_inbOpen u_vocab].
      set (c1' := {| u_discard := u_discard fr c; u_inOpen := true; u_opentype := o; u_stack := u_stack fr c;
                     u_objctr := u_objctr fr c + 1; u_inbObj := u_objctr fr c; u_inbOpen := b; u_vocab := u_vocab fr c |}).
      assert (E1 : c1' = set3 c1 o (u_objctr fr c) b) by reflexivity.
      destruct ((0 <? u_discard fr c) || existsb (Z.eqb ty) hd_exempt).
      * destruct (0 <? u_discard fr c); cbn; (split; [reflexivity|]); unfold same_but_scratch; cbn; repeat split; auto; discriminate.
      * unfold Unsl.utaste. change (u_stack fr c1) with (u_stack fr c). change (u_stack fr c1') with (u_stack fr c).
        destruct (u_stack fr c) as [|top rest] eqn:Es; [cbn; reflexivity|].
        destruct (u_check (uf_st fr top) ty hdr); try (cbn; reflexivity).
        -- cbn. split; [reflexivity|]. unfold same_but_scratch; cbn; repeat split; auto.
        -- change (u_inOpen fr c1) with true. change (u_inOpen fr c1') with true.
           change (Unsl.uhandle_violation fr u_finish u_report c1' true false) with (uhandle_violation c1' true false).
           rewrite E1, hv_set3. destruct (uhandle_violation c1 true false) as [c3 es3|es3]; cbn; [|reflexivity].
           split; [reflexivity|]. unfold same_but_scratch; cbn; repeat split; auto; discriminate.
    + (* every other token: the handlers commute with the scratch fields *)
      cbn [set3 u_discard u_inOpen u_opentype u_stack u_objctr u_inbObj u_inbOpen u_vocab].
      match goal with |- hr_rel (match ?A with TsFatal _ _ => _ | TsGo _ _ _ _ => _ end) (match ?B with TsFatal _ _ => _ | TsGo _ _ _ _ => _ end) =>
        set (T1 := A); set (T2 := B) end.
      assert (TS : match T1, T2 with
                   | TsGo _ x e r, TsGo _ y e' r' => e = e' /\ r = r' /\ y = set3 x o a b /\ u_inOpen fr x = false
                   | TsFatal _ e, TsFatal _ e' => e = e'
                   | _, _ => False
                   end).
      { subst T1 T2. destruct (_ || _); [auto|]. unfold Unsl.utaste. cbn [set3 u_stack u_inOpen]. destruct (u_stack fr c) as [|top rest]; [reflexivity|].
        destruct (u_check (uf_st fr top) ty hdr); try reflexivity; [auto|].
        change (Unsl.uhandle_violation fr u_finish u_report (set3 c o a b) (u_inOpen fr c) false) with (uhandle_violation (set3 c o a b) (u_inOpen fr c) false).
        rewrite hv_set3. destruct (uhandle_violation c (u_inOpen fr c) false); cbn; [|reflexivity]. auto. }
      clearbody T1 T2. destruct T1 as [e1|x e1 r1], T2 as [e2|y e2 r2]; try contradiction.
      { subst. cbn. reflexivity. }
      destruct TS as (-> & -> & -> & IX).
      destruct (ty =? tok_CLOSE).
      { cbn [set3 u_discard u_inOpen]. destruct (hd_close_fatal _ _); [cbn; reflexivity|]. destruct (0 <? u_discard fr x); [cbn; split; [reflexivity|apply (sbs_set3 (uw_stack fr x (u_discard fr x - 1) (u_stack fr x))); exact IX]|].
        apply upre_rel. change (Unsl.uhandle_close fr u_child u_close u_finish u_report (set3 x o a b) hdr) with (uhandle_close (set3 x o a b) hdr).
        rewrite close_set3. apply hr_map_rel. pose proof (close_inopen x hdr) as H. destruct (uhandle_close x hdr); [rewrite H; exact IX|exact I]. }
      assert (SAME : hr_rel (UOk fr x e2) (UOk fr (set3 x o a b) e2)) by (cbn; split; [reflexivity|apply sbs_set3; exact IX]).
      assert (DEL : forall v, hr_rel (upre fr e2 (udeliver x v)) (upre fr e2 (udeliver (set3 x o a b) v))).
      { intros v. apply upre_rel. unfold Unsl.udeliver. cbn [set3 u_inOpen]. rewrite IX.
        change (Unsl.uhandle_token fr u_child u_finish u_report (set3 x o a b)) with (uhandle_token (set3 x o a b)).
        rewrite token_set3. apply hr_map_rel. pose proof (token_inopen x v) as H. destruct (uhandle_token x v); [rewrite H; exact IX|exact I]. }
      destruct (ty =? tok_ABORT).
      { destruct r2; [exact SAME|]. destruct hd_abort_in_index; apply upre_rel.
        { cbn [set3 u_inOpen]. change (Unsl.uhandle_violation fr u_finish u_report (set3 x o a b) (u_inOpen fr x) false) with (uhandle_violation (set3 x o a b) (u_inOpen fr x) false).
          rewrite hv_set3. destruct (uhandle_violation x (u_inOpen fr x) false) as [c3 es3|es3]; cbn; [|reflexivity].
          split; [reflexivity|]. apply (sbs_set3 (uw_inOpen fr c3 false)). reflexivity. }
        change (Unsl.uhandle_violation fr u_finish u_report (set3 x o a b) false false) with (uhandle_violation (set3 x o a b) false false).
        rewrite hv_set3. apply hr_map_rel. pose proof (hv_inopen x false false) as H. destruct (uhandle_violation x false false); [rewrite H; exact IX|exact I]. }
      destruct (ty =? tok_INT). { destruct r2; [exact SAME|apply DEL]. }
      destruct (ty =? tok_NEG). { destruct r2; [exact SAME|apply DEL]. }
      destruct (ty =? tok_VOCAB). { cbn [set3 u_vocab]. destruct (uvocab_get (u_vocab fr x) hdr); [|cbn; reflexivity]. destruct r2; [exact SAME|apply DEL]. }
      destruct (ty =? tok_PING). { cbn. split; [reflexivity|apply sbs_set3; exact IX]. }
      destruct (ty =? tok_PONG); [exact SAME|cbn; reflexivity].
Qed.

Lemma tok_apply_rel c1 c2 ty hdr body : same_but_scratch c1 c2 -> hr_rel (utok_apply c1 ty hdr body) (utok_apply c2 ty hdr body).
Proof.
  intros S. destruct (u_inOpen fr c1) eqn:IO.
  - rewrite <- (sbs_eq c1 c2 S IO). apply hr_rel_refl.
  - rewrite (sbs_is_set3 c1 c2 S). apply tok_apply_set3. exact IO.
Qed.

(* "decoding of the following objects is unaffected": the same tokens give the same events from any two receivers that agree
   on discardCount, index-phase flag, unslicer stack, object counter and vocabulary *)
Theorem unsl_following_unaffected ts : forall c1 c2, same_but_scratch c1 c2 -> hr_rel (uapply_all c1 ts) (uapply_all c2 ts).
Proof.
  induction ts as [|[[ty hdr] body] ts IH]; intros c1 c2 S; cbn [Unsl.uapply_all].
  - cbn. auto.
  - pose proof (tok_apply_rel c1 c2 ty hdr body S) as R.
    destruct (utok_apply c1 ty hdr body) as [c1' e1|e1], (utok_apply c2 ty hdr body) as [c2' e2|e2]; cbn in R; try contradiction.
    + destruct R as [-> S']. apply upre_rel. apply IH. exact S'.
    + subst. cbn. reflexivity.
Qed.

End Follow.
