(* Wire-level Banana tokens: the sender's encoding (built from the TRANSLATED
   int2b128 / send_int / long_to_bytes of gen/BananaGen.v) and the receiver's
   one-token scanner (header of up to 64 base-128 digits, type byte, body),
   transcribed from Banana.handleData.  Model only; proofs in TokenProofs.v. *)
From Coq Require Import ZArith List String Bool Lia.
Import ListNotations.
Require Import Verif.lib.PyLite Verif.gen.BananaGen.
Local Open Scope Z_scope.

(* ---- abstract tokens, as the layers above see them ---- *)
Inductive token :=
| TInt (z : Z)                 (* INT / NEG / LONGINT / LONGNEG chosen by magnitude *)
| TFloat (b8 : list Z)         (* the 8 bytes of struct.pack("!d", x) *)
| TString (bs : list Z)
| TVocab (n : Z)
| TOpen (n : Z)
| TClose (n : Z)
| TAbort (n : Z)
| TPing (n : Z)
| TPong (n : Z)
| TError (bs : list Z).

Definition bind {A B} (r : res A) (f : A -> res B) : res B :=
  match r with Ok v => f v | Exc t => Exc t end.

(* header digits followed by the type byte *)
Definition hdr_tok (n ty : Z) (acc : list Z) : res (list Z) :=
  bind (int2b128 n acc) (fun w => Ok (w ++ [ty])).

(* sendPING/sendPONG omit the header when the number is 0 *)
Definition hdr_tok_opt (n ty : Z) (acc : list Z) : res (list Z) :=
  if n =? 0 then Ok (acc ++ [ty]) else hdr_tok n ty acc.

(* bytes appended to the transport for one token (Banana.sendToken, sendOpen, sendClose,
   sendAbort, sendPING, sendPONG, sendError) *)
Definition encode_token (t : token) (acc : list Z) : res (list Z) :=
  match t with
  | TInt z => send_int z acc
  | TFloat b8 => Ok (acc ++ [tok_FLOAT] ++ b8)
  | TString bs => bind (hdr_tok (Z.of_nat (List.length bs)) tok_STRING acc) (fun w => Ok (w ++ bs))
  | TVocab n => hdr_tok n tok_VOCAB acc
  | TOpen n => hdr_tok n tok_OPEN acc
  | TClose n => hdr_tok n tok_CLOSE acc
  | TAbort n => hdr_tok n tok_ABORT acc
  | TPing n => hdr_tok_opt n tok_PING acc
  | TPong n => hdr_tok_opt n tok_PONG acc
  | TError bs => bind (hdr_tok (Z.of_nat (List.length bs)) tok_ERROR acc) (fun w => Ok (w ++ bs))
  end.

Fixpoint encode_tokens (ts : list token) (acc : list Z) : res (list Z) :=
  match ts with
  | [] => Ok acc
  | t :: r => bind (encode_token t acc) (encode_tokens r)
  end.

(* the byte stream for a token sequence: each token is written to the transport in turn *)
Fixpoint encode_stream (ts : list token) : res (list Z) :=
  match ts with
  | [] => Ok []
  | t :: r => bind (encode_token t []) (fun b => bind (encode_stream r) (fun bs => Ok (b ++ bs)))
  end.

(* ---- the receiver's scanner ---- *)

(* header scan over at most 65 bytes: `pos` bytes below 0x80 then a byte >= 0x80.
   HBad: 65 bytes without a type byte ("token prefix is limited to 64 bytes") *)
Inductive hres := HNeed | HBad | HOk (digits : list Z) (ty : Z) (rest : list Z).

Fixpoint scan_header (room : nat) (acc : list Z) (l : list Z) {struct l} : hres :=
  match l with
  | [] => HNeed
  | b :: r =>
    if 128 <=? b then HOk (rev acc) b r
    else match room with
         | O => HBad
         | S room' => scan_header room' (b :: acc) r
         end
  end.

Fixpoint le128 (ds : list Z) : Z := match ds with [] => 0 | d :: r => d + 128 * le128 r end.

(* what kind of body follows the type byte *)
Inductive bodykind := NoBody | BodyHdr | Body8 | BadType.

Definition body_kind (ty : Z) : bodykind :=
  if (ty =? tok_STRING) || (ty =? tok_LONGINT) || (ty =? tok_LONGNEG) || (ty =? tok_ERROR) then BodyHdr
  else if ty =? tok_FLOAT then Body8
  else if (ty =? tok_INT) || (ty =? tok_NEG) || (ty =? tok_VOCAB) || (ty =? tok_OPEN) || (ty =? tok_CLOSE)
          || (ty =? tok_ABORT) || (ty =? tok_PING) || (ty =? tok_PONG) then NoBody
  else BadType.    (* LIST (0x80) and every unassigned byte: BananaError *)

Record raw := { r_ty : Z; r_hdr : Z; r_body : list Z }.

Inductive sres := SNeed | SBad | STok (t : raw) (rest : list Z).

Definition body_len (ty hdr : Z) : option Z :=
  match body_kind ty with
  | NoBody => Some 0 | BodyHdr => Some hdr | Body8 => Some 8 | BadType => None
  end.

(* scan one complete token from the front of a byte list (no schema involved) *)
Definition scan_token (l : list Z) : sres :=
  match scan_header 64 [] l with
  | HNeed => SNeed
  | HBad => SBad
  | HOk ds ty rest =>
    let hdr := le128 ds in
    match body_len ty hdr with
    | None => SBad
    | Some n =>
      if Z.of_nat (List.length rest) <? n then SNeed
      else STok {| r_ty := ty; r_hdr := hdr; r_body := firstn (Z.to_nat n) rest |} (skipn (Z.to_nat n) rest)
    end
  end.

Fixpoint be256 (bs : list Z) (acc : Z) : Z := match bs with [] => acc | b :: r => be256 r (acc * 256 + b) end.

(* the object a complete raw token denotes (handleData's per-type clauses) *)
Definition interp (t : raw) : option token :=
  let ty := r_ty t in
  if ty =? tok_INT then Some (TInt (r_hdr t))
  else if ty =? tok_NEG then Some (TInt (- r_hdr t))
  else if ty =? tok_LONGINT then Some (TInt (be256 (r_body t) 0))
  else if ty =? tok_LONGNEG then Some (TInt (- be256 (r_body t) 0))
  else if ty =? tok_FLOAT then Some (TFloat (r_body t))
  else if ty =? tok_STRING then Some (TString (r_body t))
  else if ty =? tok_VOCAB then Some (TVocab (r_hdr t))
  else if ty =? tok_OPEN then Some (TOpen (r_hdr t))
  else if ty =? tok_CLOSE then Some (TClose (r_hdr t))
  else if ty =? tok_ABORT then Some (TAbort (r_hdr t))
  else if ty =? tok_PING then Some (TPing (r_hdr t))
  else if ty =? tok_PONG then Some (TPong (r_hdr t))
  else if ty =? tok_ERROR then Some (TError (r_body t))
  else None.

(* decode a whole byte string into tokens; fuel = length + 1 suffices (every token
   consumes at least its type byte).  Result: tokens decoded, and how the scan ended. *)
Inductive ending := EndClean | EndPartial | EndBad.

Fixpoint decode_all (fuel : nat) (l : list Z) : list token * ending :=
  match fuel with
  | O => ([], EndBad)
  | S f =>
    match l with
    | [] => ([], EndClean)
    | _ =>
      match scan_token l with
      | SNeed => ([], EndPartial)
      | SBad => ([], EndBad)
      | STok t rest =>
        match interp t with
        | None => ([], EndBad)
        | Some tk => let '(ts, e) := decode_all f rest in (tk :: ts, e)
        end
      end
    end
  end.

Definition decode (l : list Z) := decode_all (S (List.length l)) l.

(* well-formed tokens: what a sender can put on the wire and a receiver can take back *)
Definition hdr_ok (n : Z) : bool := (0 <=? n) && (n <? 2 ^ 448).          (* at most 64 base-128 digits *)
Definition bytes_ok (bs : list Z) : bool := forallb (fun b => (0 <=? b) && (b <? 256)) bs.

Definition wf_token (t : token) : bool :=
  match t with
  | TInt z => Z.log2 (Z.abs z) <? 2 ^ 443     (* its byte length fits a 64-digit header: |z| < 2^(2^443) *)
  | TFloat b8 => (Nat.eqb (List.length b8) 8) && bytes_ok b8
  | TString bs | TError bs => hdr_ok (Z.of_nat (List.length bs)) && bytes_ok bs
  | TVocab n | TOpen n | TClose n | TAbort n | TPing n | TPong n => hdr_ok n
  end.
