(* Object numbering of the receiver: every OPEN token consumes one number, whether the object it opens is
   built, rejected by a taster, or dropped because an enclosing object is being discarded.  The sender numbers
   every OPEN it emits (Token/Obj models; `sendOpen` shape fact in gen/BananaGen.v), and `reference` sequences
   quote those numbers: if discarded OPENs were not counted, every reference after a violation would resolve
   to the wrong container. *)
From Coq Require Import ZArith List Bool Lia.
Import ListNotations.
Require Import Verif.lib.PyLite Verif.gen.BananaGen Verif.lib.Token Verif.lib.Recv Verif.lib.BananaRecv.
Local Open Scope Z_scope.

Ltac crush E :=
  repeat (match type of E with
          | context [match ?X with _ => _ end] => destruct X eqn:?
          | context [if ?X then _ else _] => destruct X eqn:?
          end; try discriminate);
  try (inversion E; subst; clear E).

Lemma hv_objctr c io ic c' es : handle_violation c io ic = Ok' c' es -> objctr c' = objctr c /\ inbObj c' = inbObj c.
Proof. unfold handle_violation. intros E. crush E. unfold with_stack; cbn. auto. Qed.

Lemma ht_objctr c v c' es : handle_token c v = Ok' c' es -> objctr c' = objctr c /\ inbObj c' = inbObj c.
Proof.
  unfold handle_token. intros E.
  destruct (stack c) as [|top rest]; [discriminate|].
  destruct (f_kind top =? kR); [inversion E; subst; auto|].
  destruct ((f_kind top =? kC) && (Z.of_nat (List.length (f_items top)) =? f_param top)).
  - destruct (handle_violation c false false) as [c1 es1|] eqn:EV; [|discriminate]. inversion E; subst. eapply hv_objctr; eauto.
  - inversion E; subst. unfold with_stack; cbn. auto.
Qed.

Lemma hc_objctr c n c' es : handle_close c n = Ok' c' es -> objctr c' = objctr c /\ inbObj c' = inbObj c.
Proof.
  unfold handle_close. intros E.
  destruct (stack c) as [|top rest]; [discriminate|].
  destruct (f_open top) as [oc|]; [|discriminate].
  destruct (negb (oc =? n)); [discriminate|].
  destruct (f_kind top =? kX).
  - destruct (handle_violation c false true) as [c1 es1|] eqn:EV; [|discriminate]. inversion E; subst. eapply hv_objctr; eauto.
  - destruct (f_kind top =? kF).
    + destruct (handle_violation c false true) as [c1 es1|] eqn:EV; [|discriminate]. inversion E; subst. eapply hv_objctr; eauto.
    + destruct (handle_token (with_stack c (discard c) rest) _) as [c1 es1|] eqn:ET; [|discriminate]. inversion E; subst.
      apply ht_objctr in ET. unfold with_stack in ET; cbn in ET. exact ET.
Qed.

Lemma ho_objctr c v c' es : handle_open c v = Ok' c' es -> objctr c' = objctr c /\ inbObj c' = inbObj c.
Proof.
  unfold handle_open. intros E. destruct v as [z|b|b|k items]; try discriminate.
  destruct (negb (ascii_only b)); [discriminate|].
  destruct (stack c) as [|top rest] eqn:ES; [discriminate|].
  destruct (do_open top (opentype c ++ [b])) as [| |k p].
  - inversion E; subst. unfold with_opentype; cbn. auto.
  - match type of E with context [handle_violation ?X ?A ?B] => destruct (handle_violation X A B) as [c1 es1|] eqn:EV end; [|discriminate].
    inversion E; subst. apply hv_objctr in EV. unfold with_inOpen, with_opentype in EV; cbn in EV. exact EV.
  - destruct (k =? kT).
    + match type of E with context [handle_violation ?X ?A ?B] => destruct (handle_violation X A B) as [c1 es1|] eqn:EV end; [|discriminate].
      inversion E; subst. apply hv_objctr in EV. unfold with_stack, with_inOpen, with_opentype in EV; cbn in EV. exact EV.
    + inversion E; subst. unfold with_stack, with_inOpen, with_opentype; cbn. auto.
Qed.

Lemma deliver_objctr c v c' es : deliver c v = Ok' c' es -> objctr c' = objctr c /\ inbObj c' = inbObj c.
Proof. unfold deliver. destruct (inOpen c); [apply ho_objctr|apply ht_objctr]. Qed.

Lemma begin_body_reject_objctr c ty hdr c' es : begin_body c ty hdr = BReject c' es -> objctr c' = objctr c /\ inbObj c' = inbObj c.
Proof.
  unfold begin_body. intros E. destruct (0 <? discard c); [inversion E; subst; auto|].
  destruct (taste c ty hdr); try discriminate.
  destruct (handle_violation c (inOpen c) false) as [c1 es1|] eqn:EV; [|discriminate]. inversion E; subst.
  apply hv_objctr in EV. unfold with_inOpen; cbn. exact EV.
Qed.

Definition is_open (ty : Z) : Z := if ty =? tok_OPEN then 1 else 0.

(* one token without a body: the counter advances by one exactly for OPEN, and the number given to that OPEN is the
   old counter value -- whatever the verdict on the token *)
Lemma step_objctr c ty hdr c' es : step_nobody_hr c ty hdr = Ok' c' es ->
  objctr c' = objctr c + is_open ty /\ (ty = tok_OPEN -> inbObj c' = objctr c).
Proof.
  intros E. unfold step_nobody_hr in E.
  destruct ((ty =? tok_OPEN) && inOpen c); [discriminate|].
  set (c1 := if ty =? tok_OPEN then _ else c) in E.
  assert (C1 : objctr c1 = objctr c + is_open ty /\ (ty = tok_OPEN -> inbObj c1 = objctr c)).
  { unfold c1, is_open. destruct (Z.eqb_spec ty tok_OPEN) as [Heq|Hne].
    - cbn. split; [lia|intros _; reflexivity].
    - split; [lia|intros Hc; contradiction]. }
  clearbody c1.
  match type of E with context [match ?T with Some _ => _ | None => _ end] => destruct T as [[[c2 es2] rej]|] eqn:ET end; [|discriminate].
  assert (C2 : objctr c2 = objctr c1 /\ inbObj c2 = inbObj c1).
  { destruct ((0 <? discard c) || ((ty =? tok_PING) || (ty =? tok_PONG) || (ty =? tok_ABORT) || (ty =? tok_CLOSE))).
    - inversion ET; subst. auto.
    - match type of ET with context [match ?K with CkOk => _ | CkViol => _ | CkBanana => _ end] => destruct K end; try discriminate.
      + inversion ET; subst. auto.
      + destruct (handle_violation c1 (inOpen c1) false) as [c3 es3|] eqn:EV; [|discriminate]. inversion ET; subst.
        apply hv_objctr in EV. unfold with_inOpen; cbn. exact EV. }
  destruct C1 as (C1a & C1b). destruct C2 as (C2a & C2b).
  assert (cont_ok : forall r c3 es3, (match r with Ok' c'0 es' => Ok' c'0 (es2 ++ es') | Fatal' es' => Fatal' (es2 ++ es') end) = Ok' c3 es3 ->
                    exists es4, r = Ok' c3 es4) by (intros r c3 es3 Hr; destruct r; inversion Hr; subst; eauto).
  destruct (ty =? tok_OPEN) eqn:EO.
  { apply Z.eqb_eq in EO.
    assert (K : forall c3, objctr c3 = objctr c2 -> inbObj c3 = inbObj c2 ->
                objctr c3 = objctr c + is_open ty /\ (ty = tok_OPEN -> inbObj c3 = objctr c)).
    { intros c3 H3 H4. split; [lia|]. intros Ht. rewrite H4, C2b. apply C1b. exact Ht. }
    destruct rej.
    - match type of E with context [if inOpen ?X then _ else _] => destruct (inOpen X) end; inversion E; subst c' es;
        apply K; reflexivity.
    - inversion E; subst c' es. apply K; reflexivity. }
  assert (NO : ty <> tok_OPEN) by (apply Z.eqb_neq; exact EO).
  assert (fin : forall c3, objctr c3 = objctr c2 -> objctr c3 = objctr c + is_open ty /\ (ty = tok_OPEN -> inbObj c3 = objctr c)).
  { intros c3 H3. split; [lia|intros; contradiction]. }
  destruct (ty =? tok_CLOSE).
  { destruct (inOpen c2 && (discard c2 =? 0)); [discriminate|]. destruct (0 <? discard c2).
    - inversion E; subst. apply fin. unfold with_stack; cbn. reflexivity.
    - apply cont_ok in E as (es4 & E). apply fin. apply (hc_objctr _ _ _ _ E). }
  destruct (ty =? tok_ABORT).
  { destruct rej; [inversion E; subst; apply fin; reflexivity|]. apply cont_ok in E as (es4 & E).
    destruct (handle_violation c2 (inOpen c2) false) as [c3 es3|] eqn:EV; [|discriminate]. inversion E; subst.
    apply fin. unfold with_inOpen; cbn [objctr]. apply (hv_objctr _ _ _ _ _ EV). }
  destruct (ty =? tok_INT).
  { destruct rej; [inversion E; subst; apply fin; reflexivity|]. apply cont_ok in E as (es4 & E). apply fin. apply (deliver_objctr _ _ _ _ E). }
  destruct (ty =? tok_NEG).
  { destruct rej; [inversion E; subst; apply fin; reflexivity|]. apply cont_ok in E as (es4 & E). apply fin. apply (deliver_objctr _ _ _ _ E). }
  destruct (ty =? tok_VOCAB).
  { destruct (vocab_get (vocab c2) hdr); [|discriminate].
    destruct rej; [inversion E; subst; apply fin; reflexivity|]. apply cont_ok in E as (es4 & E). apply fin. apply (deliver_objctr _ _ _ _ E). }
  destruct (ty =? tok_PING). { inversion E; subst. apply fin; reflexivity. }
  destruct (ty =? tok_PONG). { inversion E; subst. apply fin; reflexivity. }
  discriminate.
Qed.

Lemma has_body_not_open ty : has_body ty = true -> is_open ty = 0.
Proof.
  unfold has_body, is_open. intros H. destruct (Z.eqb_spec ty tok_OPEN) as [->|]; [|reflexivity].
  cbn in H. discriminate.
Qed.

Theorem tok_apply_objctr c ty hdr body c' es : tok_apply c ty hdr body = Ok' c' es ->
  objctr c' = objctr c + is_open ty /\ (ty = tok_OPEN -> inbObj c' = objctr c).
Proof.
  unfold tok_apply. intros E. destruct (has_body ty) eqn:HB.
  - rewrite (has_body_not_open ty HB), Z.add_0_r.
    assert (NO : ty <> tok_OPEN) by (intros ->; cbn in HB; discriminate).
    destruct (begin_body c ty hdr) as [|c1 es1|es1] eqn:EB; [| |discriminate].
    + split; [apply (deliver_objctr _ _ _ _ E)|intros; contradiction].
    + inversion E; subst. split; [apply (begin_body_reject_objctr _ _ _ _ _ EB)|intros; contradiction].
  - apply (step_objctr _ _ _ _ _ E).
Qed.

Fixpoint count_opens (ts : list (Z * Z * list Z)) : Z :=
  match ts with [] => 0 | (ty, _, _) :: r => is_open ty + count_opens r end.

(* after any token sequence that does not end the connection, the counter has advanced by the number of OPEN tokens in it *)
Theorem apply_all_objctr ts : forall c c' es, apply_all c ts = Ok' c' es -> objctr c' = objctr c + count_opens ts.
Proof.
  induction ts as [|[[ty hdr] body] ts IH]; intros c c' es E; cbn [apply_all count_opens] in *.
  - inversion E; subst. lia.
  - destruct (tok_apply c ty hdr body) as [c1 es1|] eqn:E1; [|discriminate].
    destruct (apply_all c1 ts) as [c2 es2|] eqn:E2; [|discriminate]. inversion E; subst.
    destruct (tok_apply_objctr _ _ _ _ _ _ E1) as (H1 & _). rewrite (IH _ _ _ E2). lia.
Qed.

(* the OPEN token that follows `pre` is given the number (objects counted at the start) + (OPENs in pre): discarded and
   rejected OPENs of `pre` count like accepted ones *)
Theorem open_number_counts_every_open pre hdr : forall c c1 es1 c2 es2,
  apply_all c pre = Ok' c1 es1 -> tok_apply c1 tok_OPEN hdr [] = Ok' c2 es2 ->
  inbObj c2 = objctr c + count_opens pre.
Proof.
  intros c c1 es1 c2 es2 E1 E2.
  destruct (tok_apply_objctr _ _ _ _ _ _ E2) as (_ & H). rewrite (H eq_refl). apply (apply_all_objctr _ _ _ _ E1).
Qed.
