(* C05: the parameters of lib/IdentityBytes.v instantiated with the REAL checks, all translated from the source:
     parse        = Negotiation.parseLines            (gen/NegCodecGen.v, C13; six.ensure_str = strict UTF-8 decoder of lib/NegCodec.v)
     has_error    = 'error' in block,  claimed_of = block.get('my-tub-id')   (keys: gen/NegCodecGen.v)
     pre_chk      = evaluateHello's range / version checks (lib/NegWire.eval_hello_wire) then `assert not forced`
     post_chk     = the decider's vocabulary decision (lib/NegWire.decide_wire); the duplicate-connection rule is C14's subject
                    and can only refuse more
     decision_chk = acceptDecision + acceptDecisionVersion1 (lib/NegWire.accept_wire)
     decode       = six.ensure_str on bytes (a str is kept as its UTF-8 bytes, as in lib/NegCodec.v)
   A `str` is its UTF-8 encoding; integer fields containing a byte >= 128 are outside NegCodec.py_int.
   Definitions only. *)
From Coq Require Import ZArith List String Bool.
Import ListNotations.
Require Import Verif.lib.PyLite Verif.gen.NegotiateGen Verif.lib.Negotiate Verif.lib.NegBytes Verif.gen.IdentityGen
               Verif.lib.NegSplit Verif.lib.Identity Verif.lib.IdentityBytes
               Verif.lib.NegCodec Verif.gen.NegCodecGen Verif.lib.NegWire.
Local Open Scope Z_scope.

Definition real_decode (b : list Z) : option (list Z) := match ensure_str b with Ok s => Some s | Exc _ => None end.

Definition real_has_error (d : list (list Z * list Z)) : bool := match dget d error_key with Some _ => true | None => false end.
Definition real_claimed (d : list (list Z * list Z)) : option (list Z) := claimed_id d.

Definition k_forced : list Z := [110;101;103;111;116;105;97;116;105;111;110;45;102;111;114;99;101;100].   (* negotiation-forced *)
Definition s_true : list Z := [116; 114; 117; 101].
(* f = offer.get('negotiation-forced'); if f and f.lower() == "true": forced = True; assert not forced *)
Definition forced_chk (d : list (list Z * list Z)) : res unit :=
  match dget d k_forced with
  | Some f => if negb (list_is_nil f) && list_eqb (bytes_lower f) s_true then Exc "AssertionError" else Ok tt
  | None => Ok tt
  end.

Section Real.
Variable hf : Z -> list Z.
Variable me : endpoint.

Definition real_pre_chk (d : list (list Z * list Z)) : res unit := bind (eval_hello_wire me d) (fun _ => forced_chk d).
Definition real_post_chk (d : list (list Z * list Z)) : res unit :=
  bind (eval_hello_wire me d) (fun ver => bind (decide_wire hf me d ver) (fun _ => Ok tt)).
Definition real_decision_chk (d : list (list Z * list Z)) : res unit := bind (accept_wire hf me d) (fun _ => Ok tt).

Definition real_recv_chunk (cert : Type) (tubid_of : cert -> list Z) (redirect : list Z -> bool) :=
  brecv_chunk cert tubid_of real_decode _ parseLines real_has_error real_claimed real_pre_chk real_post_chk real_decision_chk redirect.
Definition real_recv_all (cert : Type) (tubid_of : cert -> list Z) (redirect : list Z -> bool) :=
  brecv_all cert tubid_of real_decode _ parseLines real_has_error real_claimed real_pre_chk real_post_chk real_decision_chk redirect.
End Real.

(* this tree's Negotiation class as an endpoint: versions from the class constants, accept methods from the class body *)
Definition class_endpoint (my_id : list Z) (vocmin vocmax : Z) : endpoint :=
  {| ep_id := my_id; ep_vmin := minVersion; ep_vmax := maxVersion; ep_vocmin := vocmin; ep_vocmax := vocmax;
     ep_hash := fun i => i; ep_accepts := fun v => existsb (Z.eqb v) class_accept_versions |}.
