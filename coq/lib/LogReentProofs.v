From Coq Require Import ZArith List Bool Lia Sorting.Sorted.
Import ListNotations.
Require Import Verif.lib.PyLite Verif.gen.LogBufGen Verif.lib.LogBuf Verif.lib.LogBufProofs Verif.lib.LogReent.
Local Open Scope Z_scope.

Lemma rcall_unfold seq ex inner :
  rcall seq (Call ex inner) =
  let '(num, seq1) := match ex with Some n => (n, seq) | None => next_num seq end in
  let '(seq2, rets) := rcalls seq1 inner in (seq2, num, num :: rets).
Proof.
  cbn [rcall]. destruct (match ex with Some n => (n, seq) | None => next_num seq end) as [num seq1].
  assert (E : forall l s, (fix go (seq : Z) (l : list call) {struct l} : Z * list Z :=
         match l with
         | [] => (seq, [])
         | x :: t => let '(s1, _, r1) := rcall seq x in let '(s2, r2) := go s1 t in (s2, r1 ++ r2)
         end) s l = rcalls s l).
  { induction l as [|x t IH]; intros s; [reflexivity|]. cbn [rcalls]. destruct (rcall s x) as [[s1 n1] r1]. rewrite IH. reflexivity. }
  rewrite E. reflexivity.
Qed.

Lemma size_unfold ex inner : size (Call ex inner) = S (sizes inner).
Proof.
  cbn [size]. f_equal; try (induction inner as [|x t IH]; [reflexivity | cbn [sizes]; rewrite <- IH; reflexivity]).
Qed.

Lemma all_auto_unfold ex inner : all_auto (Call ex inner) = match ex with None => true | Some _ => false end && alls_auto inner.
Proof.
  cbn [all_auto]. f_equal; try (induction inner as [|x t IH]; [reflexivity | cbn [alls_auto]; rewrite <- IH; reflexivity]).
Qed.

Lemma zrange_app a n m : zrange a (n + m) = zrange a n ++ zrange (a + Z.of_nat n) m.
Proof.
  revert a. induction n as [|n IH]; intros a.
  - cbn [zrange Nat.add app Z.of_nat]. replace (a + 0) with a by lia. reflexivity.
  - cbn [zrange Nat.add app]. rewrite IH. replace (a + 1 + Z.of_nat n) with (a + Z.of_nat (S n)) by lia. reflexivity.
Qed.

(* induction over call trees, lists of children included *)
Lemma call_ind2 (P : call -> Prop) : (forall ex inner, Forall P inner -> P (Call ex inner)) -> forall c, P c.
Proof.
  intros H. fix IH 1. intros [ex inner]. apply H. induction inner as [|x t IHt]; constructor; [apply IH | exact IHt].
Qed.

(* a tree of logger-numbered calls: the numbers returned, in the order the calls start, are seq+1, seq+2, ...; the
   counter advances by the number of calls *)
Theorem reentrant_numbers_exact c : forall seq, all_auto c = true ->
  rcall seq c = (seq + Z.of_nat (size c), seq + 1, zrange (seq + 1) (size c)).
Proof.
  induction c as [ex inner IH] using call_ind2. intros seq Ha. rewrite all_auto_unfold in Ha.
  destruct ex as [n|]; [discriminate|]. cbn [andb] in Ha. rewrite rcall_unfold, next_num_spec, size_unfold.
  assert (L : forall l s, Forall (fun c => forall seq, all_auto c = true ->
                rcall seq c = (seq + Z.of_nat (size c), seq + 1, zrange (seq + 1) (size c))) l -> alls_auto l = true ->
              rcalls s l = (s + Z.of_nat (sizes l), zrange (s + 1) (sizes l))).
  { induction l as [|x t IHl]; intros s F A.
    - cbn [rcalls sizes zrange Z.of_nat]. replace (s + 0) with s by lia. reflexivity.
    - cbn [rcalls sizes]. inversion F; subst. cbn [alls_auto] in A. apply andb_prop in A. destruct A as [A1 A2].
      rewrite (H1 s A1). rewrite (IHl _ H2 A2). rewrite zrange_app.
      replace (s + Z.of_nat (size x) + Z.of_nat (sizes t)) with (s + Z.of_nat (size x + sizes t)) by lia.
      replace (s + Z.of_nat (size x) + 1) with (s + 1 + Z.of_nat (size x)) by lia. reflexivity. }
  rewrite (L inner (seq + 1) IH Ha). cbn [zrange].
  replace (seq + 1 + Z.of_nat (sizes inner)) with (seq + Z.of_nat (S (sizes inner))) by lia. reflexivity.
Qed.

Lemma zrange_upper n : forall a, Forall (fun x => x < a + Z.of_nat n) (zrange a n).
Proof.
  induction n as [|n IH]; intros a; cbn [zrange]; constructor; [lia|].
  eapply Forall_impl; [|apply IH]. cbn beta. intros x Hx. lia.
Qed.

(* hence: strictly increasing in the order the calls start; every call made from inside a call returns more than that
   call; whatever is called after the whole tree gets a number above everything in it (the counter) *)
Theorem reentrant_numbers_increase c seq : all_auto c = true ->
  let '(seq', ret, rets) := rcall seq c in
  StronglySorted Z.lt rets /\ Forall (fun n => seq < n <= seq') rets /\ ret = seq + 1 /\ hd 0 rets = ret.
Proof.
  intros Ha. rewrite (reentrant_numbers_exact c seq Ha).
  split; [apply zrange_sorted|]. split; [|split; [reflexivity | destruct c as [ex inner]; rewrite size_unfold; reflexivity]].
  pose proof (zrange_lower (seq + 1) (size c)) as L. pose proof (zrange_upper (size c) (seq + 1)) as U.
  rewrite Forall_forall in *. intros x Hx. specialize (L x Hx). specialize (U x Hx). cbn beta in *. lia.
Qed.

(* non-vacuity: msg A whose observer logs B (whose own observer logs C) and then D; afterwards E *)
Example ex_reentrant :
  rcalls 4 [Call None [Call None [Call None []]; Call None []]; Call None []] = (9, [5; 6; 7; 8; 9]).
Proof. vm_compute. reflexivity. Qed.
