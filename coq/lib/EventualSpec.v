(* C17: the REFERENCE SEMANTICS of foolscap/eventual.py (_SimpleCallQueue.append/_turn/flush, eventually,
   fireEventually, flushEventualQueue) as one hand-written state machine, parametrised by a record of code shapes
   (good_cfg = the shape of the current code; the others = earlier / seeded shapes, kept for the refutations).
   It is NOT tied to the source by itself any more: lib/Eventual.v runs the statement-by-statement translation of
   eventual.py (gen/EventualGen.v) and lib/EventualProofs.v proves that the translated code behaves exactly like
   this machine with good_cfg, for every program; the theorems proved about this machine in
   lib/EventualSpecProofs.v are transferred along that equality.  Callables
   are scripts: a callable has an identity, a list of actions it performs when it runs
   (eventually(s') / flushEventualQueue()), and may end by raising.  The callback attached to
   the Deferred of a flushEventualQueue() call is again an arbitrary list of actions
   (eventually(s') / flushEventualQueue() with a callback ...), nested to any depth.
   No proofs here. *)
From Coq Require Import ZArith List Bool.
Import ListNotations.
Require Import Verif.lib.EventualBase Verif.gen.EventualGen.
Local Open Scope Z_scope.

Inductive firemode := FireWhileEmpty | FireAllIfEmpty | FireAllAlways.
Inductive flushguard := FlushWhenIdle | FlushWhenNoEvents | FlushNeverSync.

Inductive script := Sc (id : Z) (acts : list act) (raises : rkind)
with act := AEnq (s : script) | AFlush (fid : Z) (cb : list act).
(* AFlush fid cb: d = flushEventualQueue(); d.addCallback(lambda _: [perform a for a in cb]) -- the callback
   performs the actions cb, which may call flushEventualQueue() again, with a callback of the same kind *)

Definition sid (s : script) : Z := match s with Sc i _ _ => i end.
Definition sacts (s : script) : list act := match s with Sc _ a _ => a end.
Definition sraises (s : script) : rkind := match s with Sc _ _ r => r end.

Record evcfg := {
  c_pos : endpos;            (* where append() puts the new entry *)
  c_arms : bool;             (* append() schedules _turn when no timer is pending *)
  c_clears : bool;           (* _turn resets self._timer before running the batch *)
  c_order : iterorder;       (* order in which _turn walks the batch *)
  c_catch : catchmode;       (* what the try/except around each call catches *)
  c_fire : firemode;         (* how _turn serves the flush observers after the batch *)
  c_marks : bool;            (* self._in_turn is True while the batch runs *)
  c_guard : flushguard;      (* when flush() returns an already-fired Deferred *)
  c_append_runs : bool       (* append() itself calls cb(..): the callable runs inside eventually() *)
}.

(* the shape of the current code *)
Definition good_cfg : evcfg := {|
  c_pos := Tail; c_arms := true; c_clears := true; c_order := Forward; c_catch := CatchAll;
  c_fire := FireWhileEmpty; c_marks := true; c_guard := FlushWhenIdle; c_append_runs := false |}.

(* the code as it was before commit "flushEventualQueue waits for the batch that is being run" *)
Definition old_cfg : evcfg := {|
  c_pos := Tail; c_arms := true; c_clears := true; c_order := Forward; c_catch := CatchAll;
  c_fire := FireAllIfEmpty; c_marks := false; c_guard := FlushWhenNoEvents; c_append_runs := false |}.

(* ... and before commit "flush observers are only notified while the eventual queue is still empty" *)
Definition old2_cfg : evcfg := {|
  c_pos := Tail; c_arms := true; c_clears := true; c_order := Forward; c_catch := CatchAll;
  c_fire := FireAllIfEmpty; c_marks := true; c_guard := FlushWhenIdle; c_append_runs := false |}.

(* `except Exception:` instead of the bare `except:` *)
Definition exc_only_cfg : evcfg := {|
  c_pos := Tail; c_arms := true; c_clears := true; c_order := Forward; c_catch := CatchException;
  c_fire := FireWhileEmpty; c_marks := true; c_guard := FlushWhenIdle; c_append_runs := false |}.

(* an append() that, besides storing the entry, calls cb(..) itself *)
Definition append_sync_cfg : evcfg := {|
  c_pos := Tail; c_arms := true; c_clears := true; c_order := Forward; c_catch := CatchAll;
  c_fire := FireWhileEmpty; c_marks := true; c_guard := FlushWhenIdle; c_append_runs := true |}.

Record qstate := {
  events : list script;      (* self._events *)
  flushers : list (Z * list act);   (* self._flushObservers, with the actions each one's callback will perform *)
  timer : bool;              (* self._timer is set *)
  sched : bool;              (* the reactor holds a pending call of _turn *)
  in_turn : bool             (* self._in_turn *)
}.

Definition q0 : qstate := {| events := []; flushers := []; timer := false; sched := false; in_turn := false |}.

(* eventually(s) *)
Definition enq1 (c : evcfg) (st : qstate) (s : script) : qstate :=
  let evs := match c_pos c with Tail => events st ++ [s] | Head => s :: events st end in
  let arm := negb (timer st) && c_arms c in
  {| events := evs; flushers := flushers st; timer := timer st || arm; sched := sched st || arm;
     in_turn := in_turn st |}.

Definition set_flushers (st : qstate) (fl : list (Z * list act)) : qstate :=
  {| events := events st; flushers := fl; timer := timer st; sched := sched st; in_turn := in_turn st |}.

(* flush(): `if not self._events and not self._in_turn: return defer.succeed(None)` *)
Definition flush_idle (c : evcfg) (st : qstate) : bool :=
  match c_guard c with
  | FlushWhenIdle => is_nil (events st) && negb (in_turn st)
  | FlushWhenNoEvents => is_nil (events st)
  | FlushNeverSync => false
  end.

(* the observation made when a flush Deferred fires.
   ctx = Some rest: a callable of the batch is running and `rest` have not started *)
Definition fired_ev (ctx : option (list script)) (st : qstate) (fid : Z) : ev :=
  FlushFired fid (List.length (match ctx with Some r => r | None => [] end) + List.length (events st))
             (match ctx with Some _ => true | None => false end).

(* perform a list of actions, threading the state; f performs one action *)
Definition run_list (f : qstate -> act -> qstate * list ev) : list act -> qstate -> qstate * list ev :=
  fix go (l : list act) (st : qstate) {struct l} : qstate * list ev :=
    match l with
    | [] => (st, [])
    | a :: l' => let '(st1, t1) := f st a in
                 let '(st2, t2) := go l' st1 in (st2, t1 ++ t2)
    end.

(* one action, performed either at top level / by the callback of a flush Deferred that _turn fires
   (ctx = None) or by a callable of the batch being run, or by a callback that fires synchronously
   inside it (ctx = Some rest, rest = the callables of the batch not started yet).
   flushEventualQueue(): when the queue is idle the Deferred comes back already fired, and the
   callback added to it runs at once, nested, right there: its actions are performed (recursively)
   before the action that follows the flush request.  Otherwise the request is appended to
   self._flushObservers together with its callback.
   eventually(s): the entry is stored (and _turn scheduled) as the facts c_pos / c_arms say.  When append() itself
   calls cb (c_append_runs), the callable RUNS AT ONCE, inside eventually(): Ran, then what its actions do (performed
   recursively, with "a callable is executing" as their context), and, if it raises, Raised and Escaped -- append() has no
   try/except, the exception reaches the caller of eventually().  The entry stays queued, so the callable runs a second time
   in its turn; that is what such code does.  Simplifications of that (never current) configuration: the entry is modelled
   as appended and armed before the call wherever the call statement stands in append(), and after an escaped exception the
   remaining actions of the enclosing callable / callback are still performed. *)
Fixpoint do_act (c : evcfg) (ctx : option (list script)) (st : qstate) (a : act) {struct a} : qstate * list ev :=
  match a with
  | AEnq s =>
      if c_append_runs c
      then match s with
           | Sc i acts k =>
               let '(st', t) := run_list (do_act c (Some (match ctx with Some r => r | None => [] end))) acts (enq1 c st s) in
               (st', Sub i :: Ran i :: t ++ match k with RNo => [] | _ => [Raised i; Escaped i] end)
           end
      else (enq1 c st s, [Sub (sid s)])
  | AFlush fid cb =>
      if flush_idle c st
      then let '(st', t) := run_list (do_act c ctx) cb st in
           (st', FlushReq fid false :: fired_ev ctx st fid :: t)
      else (set_flushers st (flushers st ++ [(fid, cb)]), [FlushReq fid true])
  end.

Definition run_acts (c : evcfg) (ctx : option (list script)) (st : qstate) (l : list act) : qstate * list ev :=
  run_list (do_act c ctx) l st.

(* a flush Deferred fires: the observation is made, then its callback performs cb *)
Definition notify (c : evcfg) (ctx : option (list script)) (st : qstate) (fid : Z) (cb : list act) : qstate * list ev :=
  let '(st', t) := run_acts c ctx st cb in (st', fired_ev ctx st fid :: t).

(* `for cb, args, kwargs in events: try: cb(..) except: log.err()`; the bool says whether
   the loop ran to its end (false: an exception left _turn) *)
Fixpoint run_batch (c : evcfg) (st : qstate) (batch : list script) : qstate * list ev * bool :=
  match batch with
  | [] => (st, [], true)
  | s :: rest =>
      let '(st1, t1) := run_acts c (Some rest) st (sacts s) in
      match sraises s with
      | RNo => let '(st2, t2, ok) := run_batch c st1 rest in (st2, Ran (sid s) :: t1 ++ t2, ok)
      | k =>
        if catches (c_catch c) k then
          let '(st2, t2, ok) := run_batch c st1 rest in (st2, Ran (sid s) :: t1 ++ Raised (sid s) :: t2, ok)
        else (st1, Ran (sid s) :: t1 ++ [Raised (sid s); Escaped (sid s)], false)
      end
  end.

(* how many flush requests a list of actions can make at most while it is performed (the requests of
   callbacks of callbacks included, and those of the scripts it enqueues: they run in a later turn under the
   current code, but at once when append() calls them) *)
Fixpoint act_flushes (a : act) : nat :=
  match a with
  | AEnq (Sc _ acts _) =>      (* counted for the configurations whose append() runs the callable at once *)
      (fix go (l : list act) : nat := match l with [] => 0%nat | x :: l' => (act_flushes x + go l')%nat end) acts
  | AFlush _ cb => S ((fix go (l : list act) : nat := match l with [] => 0%nat | x :: l' => (act_flushes x + go l')%nat end) cb)
  end.
Definition acts_flushes (l : list act) : nat := fold_right (fun a n => (act_flushes a + n)%nat) 0%nat l.
(* upper bound of the number of notifications one run of the observer loop can make: the registered
   observers plus every request their callbacks can make *)
Definition obs_weight (fl : list (Z * list act)) : nat :=
  fold_right (fun o n => (S (acts_flushes (snd o)) + n)%nat) 0%nat fl.

(* `while self._flushObservers and not self._events: self._flushObservers.pop(0).callback(None)`.
   The condition is evaluated on the LIVE list and queue before every iteration, and pop(0) removes the head
   of the live list before the callback runs: observers which a callback appends (possible as soon as the
   queue is not empty any more, or under a flush() that never answers at once) stay registered, in order, behind those
   not served yet.  `fuel` bounds the number of iterations; [fire] starts it with obs_weight (flushers st),
   which is never exhausted (EventualProofs.fire_while_complete: for every configuration the loop ends because
   its condition is false). *)
Fixpoint fire_while (c : evcfg) (fuel : nat) (st : qstate) {struct fuel} : qstate * list ev :=
  match fuel with
  | O => (st, [])
  | S fuel' =>
      match flushers st with
      | [] => (st, [])
      | (f, cb) :: rest =>
          if is_nil (events st)
          then let '(st1, t1) := notify c None (set_flushers st rest) f cb in
               let '(st2, t2) := fire_while c fuel' st1 in (st2, FlushPop f :: t1 ++ t2)
          else (st, [])
      end
  end.

(* `observers, self._flushObservers = self._flushObservers, []; for o in observers: o.callback(None)`:
   fl is the snapshot; the live list (reset to [] by the caller) collects what the callbacks register *)
Fixpoint fire_all (c : evcfg) (fl : list (Z * list act)) (st : qstate) : qstate * list ev :=
  match fl with
  | [] => (st, [])
  | (f, cb) :: rest =>
      let '(st1, t1) := notify c None st f cb in
      let '(st2, t2) := fire_all c rest st1 in (st2, FlushPop f :: t1 ++ t2)
  end.

Definition fire (c : evcfg) (st : qstate) : qstate * list ev :=
  match c_fire c with
  | FireWhileEmpty => fire_while c (obs_weight (flushers st)) st
  | FireAllIfEmpty => if is_nil (events st) then fire_all c (flushers st) (set_flushers st []) else (st, [])
  | FireAllAlways => fire_all c (flushers st) (set_flushers st [])
  end.

(* the reactor runs the pending call of _turn, if any *)
Definition turn (c : evcfg) (st : qstate) : qstate * list ev :=
  if negb (sched st) then (st, []) else
  let st0 := {| events := []; flushers := flushers st; timer := if c_clears c then false else timer st;
                sched := false; in_turn := c_marks c |} in
  let batch := match c_order c with Forward => events st | Backward => rev (events st) end in
  let '(st1, t1, ok) := run_batch c st0 batch in
  if ok then
    let '(st2, t2) := fire c {| events := events st1; flushers := flushers st1; timer := timer st1; sched := sched st1;
                                in_turn := false |} in
    (st2, t1 ++ t2)
  else (st1, t1).

Inductive op := OAct (a : act) | OTurn.

Definition step (c : evcfg) (st : qstate) (o : op) : qstate * list ev :=
  match o with OAct a => do_act c None st a | OTurn => turn c st end.

Fixpoint run (c : evcfg) (st : qstate) (ops : list op) : qstate * list ev :=
  match ops with
  | [] => (st, [])
  | o :: ops' => let '(st1, t1) := step c st o in
                 let '(st2, t2) := run c st1 ops' in (st2, t1 ++ t2)
  end.

(* projections of a trace *)
Fixpoint subs (t : list ev) : list Z :=
  match t with [] => [] | Sub i :: t' => i :: subs t' | _ :: t' => subs t' end.
Fixpoint rans (t : list ev) : list Z :=
  match t with [] => [] | Ran i :: t' => i :: rans t' | _ :: t' => rans t' end.

Definition flush_ok (e : ev) : Prop :=
  match e with FlushFired _ n r => n = 0%nat /\ r = false | _ => True end.

(* flush requests that were deferred (registered as observers), in request order *)
Fixpoint fdeferred (t : list ev) : list Z :=
  match t with [] => [] | FlushReq f d :: t' => if d then f :: fdeferred t' else fdeferred t' | _ :: t' => fdeferred t' end.
(* all flush requests *)
Fixpoint freqs (t : list ev) : list Z :=
  match t with [] => [] | FlushReq f _ :: t' => f :: freqs t' | _ :: t' => freqs t' end.
(* registered observers taken out of the list by _turn, in order *)
Fixpoint fpopped (t : list ev) : list Z :=
  match t with [] => [] | FlushPop f :: t' => f :: fpopped t' | _ :: t' => fpopped t' end.
(* the notifications, in order *)
Fixpoint ffired (t : list ev) : list Z :=
  match t with [] => [] | FlushFired f _ _ :: t' => f :: ffired t' | _ :: t' => ffired t' end.
(* what must be answered by a notification, in order: a request that finds the queue idle, a registered observer
   that is taken out of the list *)
Fixpoint fanswered (t : list ev) : list Z :=
  match t with
  | [] => []
  | FlushReq f d :: t' => if d then fanswered t' else f :: fanswered t'
  | FlushPop f :: t' => f :: fanswered t'
  | _ :: t' => fanswered t'
  end.

(* ---- encoding of traces for the correspondence check (harness/c17.py) *)
Definition enc_ev (e : ev) : list Z :=
  match e with
  | Sub i => [1; i] | Ran i => [2; i] | Raised i => [3; i] | Escaped i => [4; i]
  | FlushFired f n r => [5; f; Z.of_nat n; if r then 1 else 0]
  | FlushReq f d => [6; f; if d then 1 else 0]
  | FlushPop f => [7; f]
  end.
Definition enc_trace (t : list ev) : list Z := flat_map enc_ev t.
Definition enc_state (st : qstate) : list Z :=
  [Z.of_nat (List.length (events st)); Z.of_nat (List.length (flushers st));
   if timer st then 1 else 0; if in_turn st then 1 else 0].
Definition spec_run_enc (ops : list op) : list Z * list Z :=
  let '(st, t) := run good_cfg q0 ops in (enc_trace t, enc_state st).
