(* C13: the block splitter of Negotiation.dataReceived -- accumulate, look for CR LF CR LF, refuse
   over-long blocks -- as an executable model.  The limits are the TRANSLATED constants of
   gen/NegotiateGen.v (negotiation_header_cap, negotiation_noterm_slack).  Model only. *)
From Coq Require Import ZArith List Bool Lia.
Import ListNotations.
Require Import Verif.lib.PyLite Verif.gen.NegotiateGen.
Local Open Scope Z_scope.

Definition starts_term (l : list Z) : bool :=
  match l with a :: b :: c :: d :: _ => (a =? 13) && (b =? 10) && (c =? 13) && (d =? 10) | _ => false end.

(* bytes.find(b"\r\n\r\n"): offset of the first terminator *)
Fixpoint find_term (l : list Z) : option nat :=
  if starts_term l then Some O
  else match l with [] => None | _ :: r => option_map S (find_term r) end.

Definition cap : nat := Z.to_nat negotiation_header_cap.
Definition slack : nat := Z.to_nat negotiation_noterm_slack.

Section Split.
Variable ok : list Z -> bool.      (* does the phase handler accept this header block? (it may raise) *)

Inductive nst := NWait (buf : list Z) (k : nat) | NPass | NDead.

(* after `buffer += chunk`: extract blocks while k more are expected; once the last block has been
   handled the protocol switches to Banana and the remaining bytes are handed over *)
Fixpoint drain (fuel : nat) (buf : list Z) (k : nat) : nst * list (list Z) * list Z :=
  match k with
  | O => (NPass, [], buf)
  | S k' =>
    match fuel with
    | O => (NDead, [], [])
    | S f =>
      match find_term buf with
      | None => if (cap + slack <=? List.length buf)%nat then (NDead, [], []) else (NWait buf k, [], [])
      | Some e =>
        if (cap <? e)%nat then (NDead, [], [])
        else let hdr := firstn e buf in
             if ok hdr then let '(s, bs, p) := drain f (skipn (e + 4) buf) k' in (s, hdr :: bs, p)
             else (NDead, [hdr], [])
      end
    end
  end.

Definition nfeed (s : nst) (chunk : list Z) : nst * list (list Z) * list Z :=
  match s with
  | NWait buf k => drain (S (List.length (buf ++ chunk))) (buf ++ chunk) k
  | NPass => (NPass, [], chunk)
  | NDead => (NDead, [], [])
  end.

Fixpoint nfeed_all (s : nst) (cs : list (list Z)) : nst * list (list Z) * list Z :=
  match cs with
  | [] => (s, [], [])
  | c :: r => let '(s1, b1, p1) := nfeed s c in let '(s2, b2, p2) := nfeed_all s1 r in (s2, b1 ++ b2, p1 ++ p2)
  end.

End Split.
