(* C16 -- executable model of foolscap.reconnector.Reconnector in its environment (definitions only).

   The methods themselves are NOT written here: they are gen/ReconnectorGen.v, translated from
   reconnector.py on every run.  This file adds the environment: which method the Tub, a Deferred,
   the reactor or a RemoteReference calls for each event, and when an event can happen at all.

   Events
     Start          Tub.connectTo on a running Tub, or Tub.startService for a queued one: startConnecting(tub)
     AttemptOk u    the Deferred of an outstanding getReference fires with a RemoteReference -> _connected;
                    u = what the user's callback does to the Reconnector from inside (stopConnecting / reset,
                    re-entrantly, at the point where _connected invokes it)
     AttemptFail z  ... fails (any failure type: the code only logs differently) -> _failed; z is the
                    standard-normal draw that random.normalvariate will use
     Lost           a watched connection goes away -> _disconnected
     TimerExpired   the retry timer fires -> _timer_expired
     Elapse         half of the time until the retry timer passes (nothing is called)
     Reset / Stop   the user calls reset() / stopConnecting()

   `enabled` = "the API permits": startConnecting is called at most once per Reconnector (pb.py calls it
   in connectTo xor startService, and Tubs cannot be restarted); a Deferred / disconnect watcher / timer
   can only fire if there is one; reset and stopConnecting may be called at any time, also before Start. *)
From Coq Require Import QArith Qminmax Qround List Bool Arith.
Import ListNotations.
Require Import Verif.lib.ReconnectorBase Verif.gen.ReconnectorGen.
Local Open Scope Q_scope.

Inductive uop := UStop | UReset.

Inductive event := Start | AttemptOk (u : list uop) | AttemptFail (z : Q) | Lost | TimerExpired | Elapse | Reset | Stop.

(* what a user callback does when it calls back into the Reconnector *)
Fixpoint uops_act (u : list uop) : act :=
  match u with
  | [] => ret
  | UStop :: r => seq m_stopConnecting (uops_act r)
  | UReset :: r => seq m_reset (uops_act r)
  end.
Definition uop_event (o : uop) : event := match o with UStop => Stop | UReset => Reset end.

Definition enabled (s : st) (e : event) : bool :=
  match e with
  | Start => negb (tub s)
  | AttemptOk _ | AttemptFail _ => (0 <? inflight s)%nat
  | Lost => (0 <? watching s)%nat
  | TimerExpired | Elapse => timer_truthy s
  | Reset | Stop => true
  end.

(* the Deferred / watcher that fires is used up *)
Definition dec_inflight (s : st) : st :=
  mkSt (active s) (stopped s) (tub s) (delay s) (timer s) (pred (inflight s)) (watching s) (leaked s) (info s).
Definition dec_watching (s : st) : st :=
  mkSt (active s) (stopped s) (tub s) (delay s) (timer s) (inflight s) (pred (watching s)) (leaked s) (info s).
Definition halve_timer (s : st) : st :=
  mkSt (active s) (stopped s) (tub s) (delay s)
       (match timer s with Some d => Some (Qred (d * (1 # 2))) | None => None end)
       (inflight s) (watching s) (leaked s) (info s).

Definition step (s : st) (e : event) : st * list out :=
  match e with
  | Start => m_startConnecting s
  | AttemptOk u => m__connected (uops_act u) (dec_inflight s)
  | AttemptFail z => m__failed z (dec_inflight s)
  | Lost => m__disconnected (dec_watching s)
  | TimerExpired => m__timer_expired s
  | Elapse => (halve_timer s, [])
  | Reset => m_reset s
  | Stop => m_stopConnecting s
  end.

Fixpoint run (s : st) (evs : list event) : st * list out :=
  match evs with
  | [] => (s, [])
  | e :: r => let (s1, o1) := step s e in let (s2, o2) := run s1 r in (s2, o1 ++ o2)
  end.

Fixpoint permitted (s : st) (evs : list event) : Prop :=
  match evs with
  | [] => True
  | e :: r => enabled s e = true /\ permitted (fst (step s e)) r
  end.

Fixpoint permittedb (s : st) (evs : list event) : bool :=
  match evs with
  | [] => true
  | e :: r => enabled s e && permittedb (fst (step s e)) r
  end.

(* the three kinds of activity of the property, plus leaked timers *)
Definition timer_count (s : st) : nat := match timer s with Some _ => 1 | None => 0 end.
Definition activities (s : st) : nat := (inflight s + watching s + timer_count s + leaked s)%nat.

(* outputs that must not occur after stopConnecting *)
Definition silent (o : out) : bool :=
  match o with
  | OGetRef | OWatch | OCallback | OSetTimer _ | OResetTimer _ => false
  | OCancelTimer | ORemove => true
  end.

(* upper end of the documented delay range: maxDelay plus jitter for draws of at most Zmax sigmas *)
Definition delay_bound (Zmax : Q) : Q := maxDelay * (1 + jitter * Zmax).
Definition in_range (Zmax d : Q) : Prop := 0 <= d /\ d <= delay_bound Zmax.
Definition z_bounded (Zmax : Q) (e : event) : Prop :=
  match e with AttemptFail z => - Zmax <= z /\ z <= Zmax | _ => True end.
Definition out_in_range (Zmax : Q) (o : out) : Prop :=
  match o with OSetTimer d | OResetTimer d => in_range Zmax d | _ => True end.

(* ------------------------------------------------------------------ for the correspondence check *)
Local Open Scope Z_scope.
Definition out_code (o : out) : Z :=
  match o with OGetRef => 1 | OWatch => 2 | OCallback => 3 | OSetTimer _ => 4 | OCancelTimer => 5
             | OResetTimer _ => 6 | ORemove => 7 end.
Definition info_code (i : istate) : Z :=
  match i with IUnstarted => 0 | IConnecting => 1 | IConnected => 2 | IWaiting => 3 end.
Definition nanos (q : Q) : Z := Qfloor (q * (1000000000 # 1)).
Definition b2z (b : bool) : Z := if b then 1 else 0.
(* (flags, outputs, _delay in ns, timer in ns or -1); negative delays are shifted, never -1 *)
Definition obs (s : st) (o : list out) : Z * list Z * Z * Z :=
  (b2z (active s) + 2 * b2z (stopped s) + 4 * b2z (tub s) + 8 * info_code (info s)
   + 32 * Z.of_nat (inflight s) + 256 * Z.of_nat (watching s) + 2048 * Z.of_nat (leaked s),
   map out_code o, nanos (delay s),
   match timer s with Some d => (if Z.ltb (nanos d) 0 then nanos d - 1 else nanos d) | None => -1 end).

(* draws used by the exhaustive enumeration: the k-th event of a sequence, if a failure, uses zs[k mod 6] *)
Definition z_at (depth : nat) : Q :=
  nth (depth mod 6) [0; 1 # 2; -(1); 2; -(8); 8]%Q 0%Q.
Definition alphabet (depth : nat) : list event :=
  [Start; AttemptOk []; AttemptFail (z_at depth); Lost; TimerExpired; Elapse; Reset; Stop].

(* pre-order enumeration of every permitted sequence of at most n more events *)
Fixpoint dfs (n depth : nat) (s : st) {struct n} : list (Z * list Z * Z * Z) :=
  match n with
  | O => []
  | S n' =>
      flat_map (fun e => if enabled s e
                         then let (s', o) := step s e in obs s' o :: dfs n' (S depth) s'
                         else []) (alphabet depth)
  end.

Fixpoint trace (s : st) (evs : list event) : list (Z * list Z * Z * Z) :=
  match evs with
  | [] => []
  | e :: r => if enabled s e then let (s', o) := step s e in obs s' o :: trace s' r else []
  end.

(* comparison with what the implementation did, inside Coq (printing large lists of numbers is slow):
   an observation is packed as (flags + 4096 * outputs-in-base-8, delay ns, timer ns); the implementation's
   nanoseconds come from doubles, so they may differ by 1 ns + 1e-9 relative *)
Definition pack_obs (x : Z * list Z * Z * Z) : Z * Z * Z :=
  match x with (f, o, d, t) => (f + 4096 * fold_left (fun a c => a * 8 + c) o 0, d, t) end.
Definition close_ns (m p : Z) : bool := Z.abs (m - p) <=? 1 + Z.abs p / 1000000000.
Definition obs_match (m p : Z * Z * Z) : bool :=
  match m, p with (mf, md, mt), (pf, pd, pt) =>
    (mf =? pf) && close_ns md pd && (if pt =? -1 then mt =? -1 else negb (mt =? -1) && close_ns mt pt) end.
Fixpoint first_mismatch (i : Z) (ms ps : list (Z * Z * Z)) {struct ms} : Z * option (Z * Z * Z) :=
  match ms, ps with
  | [], [] => (-1, None)
  | m :: mr, p :: pr => if obs_match m p then first_mismatch (i + 1) mr pr else (i, Some m)
  | m :: _, [] => (i, Some m)
  | [], _ :: _ => (i, None)
  end.

(* histories given as groups of events (what one operation of the harness made the Reconnector do, in the order
   the entry points were actually invoked); one expected observation per group *)
Fixpoint run_enabled (s : st) (evs : list event) : option (st * list out) :=
  match evs with
  | [] => Some (s, [])
  | e :: r => if enabled s e
              then let (s1, o1) := step s e in
                   match run_enabled s1 r with Some (s2, o2) => Some (s2, o1 ++ o2) | None => None end
              else None
  end.
Fixpoint group_mismatch (i : Z) (s : st) (gs : list (list event * (Z * Z * Z))) : Z * option (Z * Z * Z) :=
  match gs with
  | [] => (-1, None)
  | (evs, p) :: r =>
      match run_enabled s evs with
      | None => (i, None)
      | Some (s', o) => if obs_match (pack_obs (obs s' o)) p then group_mismatch (i + 1) s' r
                        else (i, Some (pack_obs (obs s' o)))
      end
  end.

(* the same for a whole tree of histories (prefixes shared): pre-order index of the first node whose observation
   differs, with what the model says there; (number of nodes, None) if all agree *)
Inductive gtree := GNode (evs : list event) (p : Z * Z * Z) (kids : list gtree).
Fixpoint tree_mismatch (t : gtree) (s : st) (i : Z) {struct t} : Z * option (Z * option (Z * Z * Z)) :=
  match t with
  | GNode evs p kids =>
      match run_enabled s evs with
      | None => (i, Some (i, None))
      | Some (s', o) =>
          if obs_match (pack_obs (obs s' o)) p
          then (fix go (ks : list gtree) (i : Z) {struct ks} : Z * option (Z * option (Z * Z * Z)) :=
                  match ks with
                  | [] => (i, None)
                  | k :: r => match tree_mismatch k s' i with
                              | (i', None) => go r i'
                              | bad => bad
                              end
                  end) kids (i + 1)
          else (i, Some (i, Some (pack_obs (obs s' o))))
      end
  end.

(* histories on the real Tub/Broker stack: what the Reconnector did to its environment is not recorded there, so
   only the state part of the observation (flags below 4096, _delay, timer) is compared *)
Definition obs_match_state (m p : Z * Z * Z) : bool :=
  match m, p with (mf, md, mt), (pf, pd, pt) =>
    (mf mod 4096 =? pf mod 4096) && close_ns md pd && (if pt =? -1 then mt =? -1 else negb (mt =? -1) && close_ns mt pt) end.
Fixpoint group_mismatch_state (i : Z) (s : st) (gs : list (list event * (Z * Z * Z))) : Z * option (Z * Z * Z) :=
  match gs with
  | [] => (-1, None)
  | (evs, p) :: r =>
      match run_enabled s evs with
      | None => (i, None)
      | Some (s', o) => if obs_match_state (pack_obs (obs s' o)) p then group_mismatch_state (i + 1) s' r
                        else (i, Some (pack_obs (obs s' o)))
      end
  end.
