(* C05: byte-string primitives used by the TRANSLATED plaintext guards of negotiate.py (gen/IdentityGen.v) and by the
   byte-level receive loop (lib/IdentityBytes.v).  Each is the python `bytes` method named in its comment, for all
   inputs.  Definitions only. *)
From Coq Require Import ZArith List Bool.
Import ListNotations.
Require Import Verif.lib.PyLite.
Local Open Scope Z_scope.

(* big.startswith(small) *)
Fixpoint prefixb (small big : list Z) : bool :=
  match small, big with
  | [], _ => true
  | x :: s', y :: b' => (x =? y) && prefixb s' b'
  | _ :: _, [] => false
  end.

(* small in big *)
Fixpoint bsub (small big : list Z) : bool :=
  prefixb small big || match big with [] => false | _ :: r => bsub small r end.

(* big.split(sep), sep non-empty: cut at every non-overlapping occurrence of sep, left to right; always >= 1 piece *)
Fixpoint bsplit_go (sep s cur : list Z) (skip : nat) : list (list Z) :=
  match s with
  | [] => [rev cur]
  | c :: r =>
      match skip with
      | S k => bsplit_go sep r cur k
      | O => if prefixb sep s then rev cur :: bsplit_go sep r [] (List.length sep - 1)%nat
             else bsplit_go sep r (c :: cur) O
      end
  end.
Definition bsplit (sep s : list Z) : list (list Z) := bsplit_go sep s [] O.

(* bytes.isspace() of one byte: space, \t \n \v \f \r *)
Definition is_ws (c : Z) : bool := (c =? 32) || ((9 <=? c) && (c <=? 13)).

(* big.split(): runs of ASCII whitespace separate, no empty pieces *)
Fixpoint bsplit_ws_go (s cur : list Z) : list (list Z) :=
  match s with
  | [] => match cur with [] => [] | _ => [rev cur] end
  | c :: r => if is_ws c then match cur with [] => bsplit_ws_go r [] | _ => rev cur :: bsplit_ws_go r [] end
              else bsplit_ws_go r (c :: cur)
  end.
Definition bsplit_ws (s : list Z) : list (list Z) := bsplit_ws_go s [].

(* bytes.lower(): ASCII only *)
Definition lower_byte (c : Z) : Z := if (65 <=? c) && (c <=? 90) then c + 32 else c.
Definition blower (s : list Z) : list Z := map lower_byte s.

(* bytes.lstrip(): leading ASCII whitespace removed *)
Fixpoint blstrip (s : list Z) : list Z :=
  match s with c :: r => if is_ws c then blstrip r else s | [] => [] end.

(* bytes.index(b":"): offset of the first colon (ValueError when there is none) *)
Fixpoint index_of (x : Z) (s : list Z) : option nat :=
  match s with [] => None | c :: r => if c =? x then Some O else option_map S (index_of x r) end.

(* Negotiation.parseLines: header.split(CRLF); per line: colon = line.index(":"), key = line[:colon].lower(),
   value = line[colon+1:].lstrip(), block[ensure_str(key)] = ensure_str(value).  `decode` is six.ensure_str on bytes
   (UTF-8, strict): None = UnicodeDecodeError.  Result: the (key, value) pairs in line order (the dict keeps the LAST
   value of a repeated key: see dict_get), or None when any line raised. *)
Section Parse.
Variable decode : list Z -> option (list Z).

Definition parse_line (line : list Z) : option (list Z * list Z) :=
  match index_of 58 line with
  | None => None
  | Some colon =>
      match decode (blower (firstn colon line)), decode (blstrip (skipn (S colon) line)) with
      | Some k, Some v => Some (k, v)
      | _, _ => None
      end
  end.

Fixpoint parse_all (lines : list (list Z)) : option (list (list Z * list Z)) :=
  match lines with
  | [] => Some []
  | l :: r => match parse_line l with
              | None => None
              | Some kv => match parse_all r with None => None | Some d => Some (kv :: d) end
              end
  end.

Definition parse_lines (header : list Z) : option (list (list Z * list Z)) := parse_all (bsplit [13; 10] header).
End Parse.

(* dict lookup after the assignments of parseLines: the last pair with that key *)
Fixpoint dict_get (k : list Z) (d : list (list Z * list Z)) : option (list Z) :=
  match d with
  | [] => None
  | (k', v) :: r => match dict_get k r with Some v' => Some v' | None => if list_eqb k k' then Some v else None end
  end.
Definition dict_has (k : list Z) (d : list (list Z * list Z)) : bool :=
  match dict_get k d with Some _ => true | None => false end.
