(* C05: byte-string primitives used by the TRANSLATED plaintext guards of negotiate.py (gen/IdentityGen.v) and by the
   byte-level receive loop (lib/IdentityBytes.v).  Negotiation.parseLines itself is C13's translation (gen/NegCodecGen.v).  Each is the python `bytes` method named in its comment, for all
   inputs.  Definitions only. *)
From Coq Require Import ZArith List Bool.
Import ListNotations.
Require Import Verif.lib.PyLite.
Local Open Scope Z_scope.

(* big.startswith(small) *)
Fixpoint prefixb (small big : list Z) : bool :=
  match small, big with
  | [], _ => true
  | x :: s', y :: b' => (x =? y) && prefixb s' b'
  | _ :: _, [] => false
  end.

(* small in big *)
Fixpoint bsub (small big : list Z) : bool :=
  prefixb small big || match big with [] => false | _ :: r => bsub small r end.

(* big.split(sep), sep non-empty: cut at every non-overlapping occurrence of sep, left to right; always >= 1 piece *)
Fixpoint bsplit_go (sep s cur : list Z) (skip : nat) : list (list Z) :=
  match s with
  | [] => [rev cur]
  | c :: r =>
      match skip with
      | S k => bsplit_go sep r cur k
      | O => if prefixb sep s then rev cur :: bsplit_go sep r [] (List.length sep - 1)%nat
             else bsplit_go sep r (c :: cur) O
      end
  end.
Definition bsplit (sep s : list Z) : list (list Z) := bsplit_go sep s [] O.

(* bytes.isspace() of one byte: space, \t \n \v \f \r *)
Definition is_ws (c : Z) : bool := (c =? 32) || ((9 <=? c) && (c <=? 13)).

(* big.split(): runs of ASCII whitespace separate, no empty pieces *)
Fixpoint bsplit_ws_go (s cur : list Z) : list (list Z) :=
  match s with
  | [] => match cur with [] => [] | _ => [rev cur] end
  | c :: r => if is_ws c then match cur with [] => bsplit_ws_go r [] | _ => rev cur :: bsplit_ws_go r [] end
              else bsplit_ws_go r (c :: cur)
  end.
Definition bsplit_ws (s : list Z) : list (list Z) := bsplit_ws_go s [].

(* bytes.lower(): ASCII only *)
Definition lower_byte (c : Z) : Z := if (65 <=? c) && (c <=? 90) then c + 32 else c.
Definition blower (s : list Z) : list Z := map lower_byte s.

(* bytes.lstrip(): leading ASCII whitespace removed *)
Fixpoint blstrip (s : list Z) : list Z :=
  match s with c :: r => if is_ws c then blstrip r else s | [] => [] end.
