(* C14: the two legs of Tub.getReference composed -- the two-Tub model (lib/Converge.v: the Broker lookup, virtual time,
   cuts, close notifications) drives the request table (C03, lib/Requests.v) of ONE Broker: x's end of connection c.
     * every lookup of x that the two-Tub model answers with that Broker (a record with f_ok = true appended to t_fired
       while t_broker = Some c) makes the callback's call:  RefLeg.leg_call  (b.getYourReferenceByName);
     * the step in which x's end of c stops being a live Broker (EBrk -> anything else: connectionLost delivered,
       Broker.shutdown by the duplicate-connection rule, the process dies) is Broker.finish(why) -- and nothing else is:
       Broker.finish is called from Broker.connectionLost and Broker.shutdown only;
     * answers, errors, other calls, eventual-sends and turns of the queue arrive on their own (PWire).
   A history of the composed system is a list of `pop`; `broker_requests x c l` is the request table it leaves,
   `pnet l` the state of the two Tubs.  Definitions only; proofs in ConvergeRefProofs.v. *)
From Coq Require Import ZArith List Bool Arith.
Import ListNotations.
Require Verif.lib.Requests Verif.lib.RefLeg.
Require Import Verif.lib.PyLite Verif.gen.ConvergeGen Verif.lib.Converge.

Definition live (x : tubname) (c : nat) (s : state) : bool :=
  match cend x (conns s c) with EBrk => true | _ => false end.

(* the operations of the two-Tub model that are neither a delivery, nor a close notification, nor a restart: lookups,
   dials, CUTS, forced time-outs, retries, the option -- and ANY passage of time *)
Definition not_a_notification (o : op) : bool :=
  match o with Deliver _ _ | CloseSeen _ _ | Restart _ => false | _ => true end.

(* how many lookups of x the step s -> s' answered with the Broker on connection c *)
Definition new_ok (x : tubname) (c : nat) (s s' : state) : nat :=
  let t := tubof x s in
  let t' := tubof x s' in
  if (t_inc t =? t_inc t')%Z && match t_broker t' with Some b => Nat.eqb b c | None => false end
  then List.length (filter f_ok (skipn (List.length (t_fired t)) (t_fired t')))
  else 0.

Inductive pop :=
| PNet (o : op) (why : Requests.reason)   (* a step of the two-Tub model; why = the reason a loss in this step carries *)
| PWire (o : Requests.op).                (* something arrives for / is done by the Broker itself *)

Definition net_events (x : tubname) (c : nat) (s : state) (o : op) (why : Requests.reason) : list Requests.op :=
  let s' := step s o in
  (if live x c s && negb (live x c s') then [Requests.Finish why] else []) ++ repeat RefLeg.leg_call (new_ok x c s s').

(* Broker.finish is reached through the transport only *)
Definition wire_event (o : Requests.op) : list Requests.op :=
  match o with Requests.Finish _ => [] | _ => [o] end.

Fixpoint phist (x : tubname) (c : nat) (s : state) (l : list pop) {struct l} : list Requests.op * state :=
  match l with
  | [] => ([], s)
  | PNet o why :: r => let hs := phist x c (step s o) r in (net_events x c s o why ++ fst hs, snd hs)
  | PWire o :: r => let hs := phist x c s r in (wire_event o ++ fst hs, snd hs)
  end.

Definition broker_requests (x : tubname) (c : nat) (l : list pop) : Requests.st := Requests.run (fst (phist x c init l)).
Definition net_ops (l : list pop) : list op := flat_map (fun p => match p with PNet o _ => [o] | PWire _ => [] end) l.
Definition pnet (l : list pop) : state := run (net_ops l).

(* a composed step that is neither a notification from the network nor anything addressed to the request (rid, h) *)
Definition quiet_pop (rid : Z) (h : nat) (p : pop) : bool :=
  match p with PNet o _ => not_a_notification o | PWire o => RefLeg.inert rid h o end.

(* the reviewer's schedule: the non-master S looks M up and dials; hello to M (accepted: decision sent), hello to S,
   decision to S: both ends are Brokers, S's lookup 0 is answered; then the network silently drops the link *)
Definition silent_ops : list op := [GetRef TS; DialHint TS; Deliver 0 TM; Deliver 0 TS; Deliver 0 TS; Cut 0].
Definition silent_pops (why : Requests.reason) (dts : list Z) : list pop :=
  map (fun o => PNet o why) (silent_ops ++ map Advance dts).
