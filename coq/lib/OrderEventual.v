(* C04 x C17: the eventual queue under the ordering model.  lib/Order.v runs a Turn as "take the batch that is queued now,
   run it front to back, what is enqueued meanwhile waits for the next Turn", with the three facts it needs read from
   eventual.py by translate/g_order.py.  C17 owns the full translated model of eventual.py (lib/Eventual.v over
   gen/EventualGen.v, ~30 facts) and proves exactly that batch discipline for every reachable queue state
   (EventualProofs.ev_fifo / ev_isolation).  Here the two readings of the source are shown to coincide and C17's theorems
   are imported for the queue the Broker uses -- not re-proved. *)
From Coq Require Import ZArith List Bool Lia.
Import ListNotations.
Require Import Verif.gen.EventualGen Verif.lib.Eventual Verif.lib.EventualProofs.
Require Import Verif.gen.OrderGen Verif.lib.Order Verif.lib.OrderProofs.

(* the facts of gen/OrderGen.v are the corresponding facts of C17's configuration *)
Definition push_of (p : endpos) : push_end := match p with Tail => PushBack | Head => PushFront end.
Definition iter_of (o : iterorder) : iter_dir := match o with Forward => IterForward | Backward => IterReverse end.

Theorem two_readings_agree :
  evq_push = push_of (c_pos src_cfg) /\ evq_iter = iter_of (c_order src_cfg) /\
  (evq_isolates_exceptions = true <-> c_catch src_cfg = CatchAll).
Proof. rewrite src_is_good. split; [reflexivity|]. split; [reflexivity|]. split; reflexivity. Qed.

(* one Turn of the ordering model, unfolded *)
Lemma turn_is_batch s :
  Order.turn s = fold_left run_thunk (evq s)
                   (mk (next_id s) (sendq s) (cur s) (wire s) (inq s) (waiting s) [] (trace s) (lost s) (dropped s) (early s) (cut s)).
Proof. unfold Order.turn. destruct evq_is_fifo as [_ ->]. reflexivity. Qed.

(* ... is what the real queue does with its batch, by C17: in every reachable state of the real queue, one _turn runs
   exactly the callables queued when it started, in submission order, and leaves what they enqueue for a later turn; and
   at any moment submitted = run ++ still queued, in order.  `n` doNextCall thunks queued = n entries of the real queue. *)
Theorem turn_batch_is_C17_batch : forall eops st t st' t' (s : state),
  Eventual.run src_cfg q0 eops = (st, t) -> Eventual.turn src_cfg st = (st', t') ->
  List.length (events st) = List.length (evq s) ->
  List.length (rans t') = List.length (evq s) /\ rans t' = map sid (events st) /\
  map sid (events st') = subs t' /\ subs t = rans t ++ map sid (events st).
Proof.
  intros eops st t st' t' s H Ht Hl. destruct (ev_isolation eops st t st' t' H Ht) as [A B].
  split; [rewrite A, map_length; exact Hl|]. split; [exact A|]. split; [exact B|]. apply (ev_fifo eops st t H).
Qed.
