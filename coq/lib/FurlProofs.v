(* FurlProofs.v -- theorems about the FURL / connection-hint model (Furl.v) over the translated
   patterns (gen/FurlGen.v). *)
From Coq Require Import ZArith NArith List String Bool Lia.
Import ListNotations.
Require Import Verif.lib.PyLite Verif.lib.Regex Verif.lib.RegexProofs Verif.lib.FurlPrim Verif.gen.FurlGen Verif.lib.Utf8 Verif.lib.Furl.
Require Import Verif.lib.Connector Verif.lib.ConnectorProofs.
Local Open Scope Z_scope.

(* ================================================================== 1. time *)

Definition hint_regexes : list (pattern * method) :=
  [(OLD_STYLE_HINT_RE, OLD_STYLE_HINT_RE_method); (NEW_STYLE_HINT_RE, NEW_STYLE_HINT_RE_method);
   (TOR_HINT_RE, TOR_HINT_RE_method); (I2P_HINT_RE, I2P_HINT_RE_method)].

Definition bound_or_0 (pm : pattern * method) : N :=
  match linear_bound (fst pm) (snd pm) with Some k => k | None => 0%N end.

(* the constant of the linear bound: the largest of the four constants computed by the analysis *)
Definition hint_K : N := fold_right N.max 0%N (map bound_or_0 hint_regexes).

(* the side condition holds for each translated hint pattern (checked by computation on the
   regenerated patterns: this is what breaks when a nested quantifier is reintroduced) *)
Lemma hint_analysis_ok :
  forallb (fun pm => match linear_bound (fst pm) (snd pm) with Some _ => true | None => false end) hint_regexes = true.
Proof. vm_compute. reflexivity. Qed.

Lemma fold_max_ge (l : list N) x : In x l -> (x <= fold_right N.max 0%N l)%N.
Proof.
  induction l as [|y l IH]; cbn [In fold_right]; intros H; [contradiction|].
  destruct H as [->|H]; [lia|]. specialize (IH H). lia.
Qed.

Theorem hint_linear : forall p meth, In (p, meth) hint_regexes ->
  forall s, (re_steps p meth s <= hint_K * (N.of_nat (List.length s) + 1))%N.
Proof.
  intros p meth Hin s.
  pose proof hint_analysis_ok as Hok. rewrite forallb_forall in Hok. specialize (Hok _ Hin). cbn [fst snd] in Hok.
  destruct (linear_bound p meth) as [k|] eqn:E; [|discriminate].
  pose proof (linear_bound_sound p meth k E s) as H. fold (len s).
  assert (Hk : (k <= hint_K)%N).
  { unfold hint_K. apply fold_max_ge. apply in_map_iff. exists (p, meth). split; [|assumption].
    unfold bound_or_0. cbn [fst snd]. rewrite E. reflexivity. }
  assert (k * (len s + 1) <= hint_K * (len s + 1))%N by (apply N.mul_le_mono_r; assumption).
  lia.
Qed.

(* --- the pattern as it was before commit 9ce04d4: port = (\d+){1,5} *)
Fixpoint unfix (r : re) : re :=
  match r with
  | Grp g (Star cs 1%nat (Some 5%nat)) => Rep (Grp g (Star cs 1%nat None)) 1 5
  | Cat a b => Cat (unfix a) (unfix b)
  | Alt a b => Alt (unfix a) (unfix b)
  | Grp g r => Grp g (unfix r)
  | Rep r lo hi => Rep (unfix r) lo hi
  | r => r
  end.
Definition old_pattern (p : pattern) : pattern :=
  {| p_anch := p_anch p; p_body := unfix (p_body p); p_groups := p_groups p |}.

(* the nested quantifier fails the side condition of the analysis ... *)
Example nested_quantifier_rejected :
  map (fun pm => linear_bound (old_pattern (fst pm)) (snd pm)) hint_regexes = [None; None; None; None].
Proof. vm_compute. reflexivity. Qed.

(* ... and really is super-linear: on "a:" ++ "1"^n ++ "x" for n = 6, 12, 24 the steps grow more than
   16-fold per doubling (~n^5), while the repaired pattern takes a thousand times fewer steps at n = 24 *)
Definition digits_x (n : nat) : list Z := [97; 58] ++ repeat 49 n ++ [120].
Example superlinear_witness :
  match map (fun n => re_steps (old_pattern OLD_STYLE_HINT_RE) MSearch (digits_x n)) [6; 12; 24]%nat with
  | [a; b; c] => (16 * a < b /\ 16 * b < c /\ 1000 * re_steps OLD_STYLE_HINT_RE MSearch (digits_x 24) < c)%N
  | _ => False
  end.
Proof. vm_compute. repeat split; reflexivity. Qed.

(* --- the FURL pattern: every attempt is linear, but .search() retries at every position *)
Definition furl_K : N := match attempt_bound (p_body AUTH_STURDYREF_RE) with Some k => k | None => 0%N end.

Theorem furl_steps_bounded : forall s,
  (re_steps AUTH_STURDYREF_RE AUTH_STURDYREF_RE_method s
   <= (N.of_nat (List.length s) + 1) * (furl_K * (N.of_nat (List.length s) + 1) + 1))%N.
Proof.
  intros s. apply re_steps_bounded. vm_compute. reflexivity.
Qed.

(* known finding oracle/furl-quadratic, in the model: steps quadruple when the input doubles *)
Example furl_quadratic_witness :
  linear_bound AUTH_STURDYREF_RE AUTH_STURDYREF_RE_method = None /\
  let t := map (fun k => re_steps AUTH_STURDYREF_RE AUTH_STURDYREF_RE_method (pb_repeat k)) [20; 40; 80]%nat in
  match t with
  | [a; b; c] => (3 * a < b /\ 3 * b < c /\ furl_K * (N.of_nat (List.length (pb_repeat 80)) + 1) < c)%N
  | _ => False
  end.
Proof. vm_compute. repeat split; reflexivity. Qed.

(* ================================================================== 2. identity *)

Lemma opt_str_eqb_eq a b : opt_str_eqb a b = true <-> a = b.
Proof.
  destruct a as [x|], b as [y|]; cbn [opt_str_eqb]; split; intros H; try discriminate; try reflexivity.
  - apply list_eqb_eq in H. congruence.
  - inversion H; subst. apply list_eqb_eq. reflexivity.
Qed.

Theorem sturdy_eq : forall a b, sref_eqb a b = true <-> (sr_tub a = sr_tub b /\ sr_name a = sr_name b).
Proof.
  intros a b. unfold sref_eqb, sturdyref_distinguishers. cbn [forallb field_eqb].
  rewrite andb_true_r, andb_true_iff, !opt_str_eqb_eq. reflexivity.
Qed.

(* equal references are hashed alike: the hashed tuple is a function of the distinguishers *)
Theorem sturdy_hash : forall a b, sref_eqb a b = true -> sref_key a = sref_key b.
Proof.
  intros a b H. apply sturdy_eq in H as [H1 H2]. unfold sref_key, sturdyref_distinguishers.
  cbn [map field_val]. rewrite H1, H2. reflexivity.
Qed.

Theorem tubref_eq : forall a b, tubref_eqb a b = true <-> sr_tub a = sr_tub b.
Proof.
  intros a b. unfold tubref_eqb, tubref_distinguishers. cbn [forallb field_eqb].
  rewrite andb_true_r, opt_str_eqb_eq. reflexivity.
Qed.

(* ================================================================== 3. decode_furl is total *)

Theorem decode_total : forall s,
  (exists t hs n, decode_furl s = Ok (t, hs, n)) \/ decode_furl s = Exc "BadFURLError" \/ decode_furl s = Exc "ValueError".
Proof.
  intros s. unfold decode_furl.
  destruct (re_apply AUTH_STURDYREF_RE AUTH_STURDYREF_RE_method s) as [c|]; [|right; right; reflexivity].
  destruct (negb (is_base32 (firstn TUBID_CUT (group_or_nil 1 c)))); [right; left; reflexivity|].
  match goal with |- context [existsb str_is_nil ?h] => destruct (existsb str_is_nil h) end.
  - right; left; reflexivity.
  - left. eauto.
Qed.

(* ================================================================== 4. hint classification is total *)

Definition DIG : cset := CS false digit_ranges.
Definition kacc (s0 : list Z) : K := fun s' c' => accept s' ((0%nat, (s0, s')) :: c').

Lemma m_top_unfold r s : m_top r s = m r s [] (kacc s).
Proof. reflexivity. Qed.

Lemma m_cat_success a b s c k res n :
  m (Cat a b) s c k = (Some res, n) ->
  exists s' c' n', m b s' c' k = (Some res, n') /\ frame a c c'.
Proof. cbn [m]. intros H. apply m_success in H. exact H. Qed.

Lemma kacc_inv s0 s c res n : kacc s0 s c = (Some res, n) -> res = (0%nat, (s0, s)) :: c.
Proof. unfold kacc, accept. intros H. inversion H. reflexivity. Qed.

Lemma eol_inv s c k res n : m Eol s c k = (Some res, n) -> exists n', k s c = (Some res, n').
Proof. cbn [m]. destruct (at_eol s); [|discriminate]. apply tick_some. Qed.

Lemma group_hit g v c : group g ((g, v) :: c) = Some (content v).
Proof. unfold group. cbn [cap_get]. rewrite Nat.eqb_refl. reflexivity. Qed.
Lemma group_skip g j v c : g <> j -> group g ((j, v) :: c) = group g c.
Proof. intros H. unfold group. cbn [cap_get]. apply Nat.eqb_neq in H. rewrite H. reflexivity. Qed.

(* a pattern that ends in  (<set>{lo,hi})$  leaves a run of that set, within bounds, in the group *)
Lemma port_tail g D lo hi s2 c2 s0 c n :
  g <> 0%nat ->
  m (Cat (Grp g (Star D lo hi)) Eol) s2 c2 (kacc s0) = (Some c, n) ->
  exists u, group g c = Some u /\ forallb (in_cset D) u = true /\ (lo <= List.length u)%nat /\
            match hi with Some h => (List.length u <= h)%nat | None => True end.
Proof.
  intros Hg H. cbn [m] in H.
  change (m (Grp g (Star D lo hi)) s2 c2 (fun s' c' => m Eol s' c' (kacc s0)) = (Some c, n)) in H.
  apply grp_star_inv in H as (u & s' & -> & Hu & Hlo & Hhi & n' & Hk).
  apply eol_inv in Hk as [n'' Hk]. apply kacc_inv in Hk. subst c.
  exists u. rewrite group_skip by assumption. rewrite group_hit, content_app. auto.
Qed.

(* int() of one to five decimal digits succeeds *)
Lemma digit_val_in_some zs x : in_ranges (map (fun z => (z, z + 9)) zs) x = true -> exists v, digit_val_in zs x = Some v.
Proof.
  induction zs as [|z zs IH]; cbn [map in_ranges existsb digit_val_in]; intros H; [discriminate|].
  unfold in_range in H at 1. cbn [fst snd] in H.
  destruct ((z <=? x) && (x <=? z + 9)); [eauto|]. cbn [orb] in H. apply IH. exact H.
Qed.

Lemma int_acc_total ds : forallb (in_cset DIG) ds = true -> forall acc, exists v, int_acc acc ds = Some v.
Proof.
  induction ds as [|d ds IH]; cbn [forallb int_acc]; intros H acc; [eauto|].
  apply andb_true_iff in H as [Hd Hds].
  unfold DIG, in_cset in Hd. cbn [cs_neg cs_ranges] in Hd. unfold digit_ranges in Hd.
  apply digit_val_in_some in Hd as [v Hv]. unfold digit_val. rewrite Hv. apply IH. exact Hds.
Qed.

Lemma py_int_port ds : forallb (in_cset DIG) ds = true -> (1 <= List.length ds)%nat -> (List.length ds <= 5)%nat ->
  exists v, py_int ds = Ok v.
Proof.
  intros Hd H1 H5. unfold py_int. destruct ds as [|d ds']; [cbn in H1; lia|].
  set (ds := d :: ds') in *.
  assert (E : (0 <? INT_MAX_STR_DIGITS) && (INT_MAX_STR_DIGITS <? Z.of_nat (List.length ds)) = false).
  { unfold INT_MAX_STR_DIGITS. apply andb_false_iff. right. apply Z.ltb_ge. lia. }
  rewrite E. destruct (int_acc_total ds Hd 0) as [v Hv]. rewrite Hv. eauto.
Qed.

Ltac peel H F := apply m_cat_success in H; destruct H as (? & ? & ? & H & F).

Lemma old_port s c : re_apply OLD_STYLE_HINT_RE OLD_STYLE_HINT_RE_method s = Some c ->
  exists v, py_int (group_or_nil 2 c) = Ok v.
Proof.
  unfold re_apply, re_run, OLD_STYLE_HINT_RE_method, OLD_STYLE_HINT_RE. cbn [p_anch p_body].
  rewrite m_top_unfold. destruct (m _ s [] (kacc s)) as [r n] eqn:H. cbn [fst]. intros ->.
  peel H F1. peel H F2.
  apply port_tail in H as (u & Hg & Hu & Hlo & Hhi); [|discriminate].
  unfold group_or_nil. rewrite Hg. apply py_int_port; assumption.
Qed.

Lemma new_port s c : re_apply NEW_STYLE_HINT_RE NEW_STYLE_HINT_RE_method s = Some c ->
  exists v, py_int (group_or_nil 2 c) = Ok v.
Proof.
  unfold re_apply, re_run, NEW_STYLE_HINT_RE_method, NEW_STYLE_HINT_RE. cbn [p_anch p_body].
  rewrite m_top_unfold. destruct (m _ s [] (kacc s)) as [r n] eqn:H. cbn [fst]. intros ->.
  peel H F1. peel H F2. peel H F3. peel H F4. peel H F5. peel H F6.
  apply port_tail in H as (u & Hg & Hu & Hlo & Hhi); [|discriminate].
  unfold group_or_nil. rewrite Hg. apply py_int_port; assumption.
Qed.

Lemma tor_port s c : re_apply TOR_HINT_RE TOR_HINT_RE_method s = Some c ->
  exists v, py_int (group_or_nil 2 c) = Ok v.
Proof.
  unfold re_apply, re_run, TOR_HINT_RE_method, TOR_HINT_RE. cbn [p_anch p_body].
  rewrite m_top_unfold. destruct (m _ s [] (kacc s)) as [r n] eqn:H. cbn [fst]. intros ->.
  peel H F1. peel H F2. peel H F3. peel H F4.
  apply port_tail in H as (u & Hg & Hu & Hlo & Hhi); [|discriminate].
  unfold group_or_nil. rewrite Hg. apply py_int_port; assumption.
Qed.

(* i2p: the port group is optional; when it is set it holds one to five digits *)
Lemma i2p_port s c ds : re_apply I2P_HINT_RE I2P_HINT_RE_method s = Some c -> group 3 c = Some ds ->
  exists v, py_int ds = Ok v.
Proof.
  unfold re_apply, re_run, I2P_HINT_RE_method, I2P_HINT_RE. cbn [p_anch p_body].
  rewrite m_top_unfold. destruct (m _ s [] (kacc s)) as [r n] eqn:H. cbn [fst]. intros -> Hds.
  peel H F1. peel H F2. peel H F3. peel H F4. peel H F5.
  match type of H with m _ ?s5 ?c5 _ = _ =>
    assert (Hc5 : cap_get 3 c5 = None) end.
  { rewrite F5 by (cbn; intuition discriminate). rewrite F4 by (cbn; intuition discriminate).
    rewrite F3 by (cbn; intuition discriminate). rewrite F2 by (cbn; intuition discriminate).
    rewrite F1 by (cbn; intuition discriminate). reflexivity. }
  cbn [m rep] in H.
  apply orelse_some in H as [[n' H]|[n' H]].
  - apply tick_some in H as [n'' H].
    match type of H with (match ?s5 with _ => _ end) = _ => destruct s5 as [|y s5']; [discriminate|] end.
    destruct (in_cset _ y); [|discriminate]. apply tick_some in H as [n3 H].
    apply star_inv in H as (u & s' & -> & Hu & Hlo & Hhi & n4 & Hk).
    destruct (at_eol s'); [|discriminate]. apply tick_some in Hk as [n5 Hk].
    apply kacc_inv in Hk. subst c.
    rewrite group_skip in Hds by discriminate. rewrite group_skip in Hds by discriminate.
    rewrite group_hit, content_app in Hds. inversion Hds; subst ds.
    apply py_int_port; assumption.
  - match type of H with (if at_eol ?s5 then _ else _) = _ => destruct (at_eol s5); [|discriminate] end.
    apply tick_some in H as [n5 Hk]. apply kacc_inv in Hk. subst c.
    rewrite group_skip in Hds by discriminate. unfold group in Hds. rewrite Hc5 in Hds. discriminate.
Qed.

Lemma convert_legacy_total loc : exists h, convert_legacy_hint loc = Ok h.
Proof.
  unfold convert_legacy_hint.
  destruct (re_apply OLD_STYLE_HINT_RE OLD_STYLE_HINT_RE_method loc) as [c|] eqn:E; [|eauto].
  destruct (old_port loc c E) as [v Hv]. rewrite Hv. eauto.
Qed.

Definition endpoint_or_invalid (r : res endpoint) : Prop := (exists e, r = Ok e) \/ r = Exc "InvalidHintError".

(* what a registered handler must satisfy for the classification to end in an endpoint or InvalidHintError:
   foolscap's tcp and tor handlers always do; the i2p handler does unless it was given a default port= and the
   code leaves it in the keyword arguments (I2P_POPS_PORT = false); a third-party plugin must do so itself *)
Definition handler_ok (pops : bool) (kd : hkind) : Prop :=
  match kd with
  | KI2p (Some _) => pops = true
  | KPlugin f => forall h, endpoint_or_invalid (f h)
  | _ => True
  end.

(* every outcome of the i2p handler: an endpoint, InvalidHintError, or -- only with a default port that is not
   popped, on a hint that carries its own non-zero port -- TypeError *)
Lemma i2p_outcomes pops dflt hint :
  endpoint_or_invalid (i2p_hint_to_endpoint pops dflt hint) \/
  (pops = false /\ (exists d, dflt = Some d) /\ i2p_hint_to_endpoint pops dflt hint = Exc "TypeError").
Proof.
  unfold endpoint_or_invalid, i2p_hint_to_endpoint.
  destruct (re_apply I2P_HINT_RE I2P_HINT_RE_method hint) as [c|] eqn:E; [|left; right; reflexivity].
  assert (Hpn : exists pn, match group 3 c with
                           | None | Some [] => Ok None
                           | Some ds => match py_int ds with Exc e => Exc e | Ok port => Ok (Some port) end
                           end = Ok pn).
  { destruct (group 3 c) as [ds|] eqn:G; [|eauto]. destruct ds as [|d ds']; [eauto|].
    destruct (i2p_port hint c _ E G) as [v Hv]. rewrite Hv. eauto. }
  destruct Hpn as [pn ->].
  destruct pops; [left; left; eauto|].
  destruct dflt as [d|]; [|left; left; eauto].
  destruct (match pn with None => true | Some v => v =? 0 end); [left; left; eauto|].
  right. split; [reflexivity|]. split; [eauto|reflexivity].
Qed.

(* the repaired form (733f931): whenever the hint is an I2P hint the handler builds an endpoint, for every default-port
   configuration, and the port it uses is the hint's own non-zero port, else the handler's default (None without one) *)
Theorem i2p_port_choice : forall dflt hint,
  i2p_hint_to_endpoint true dflt hint = Exc "InvalidHintError" \/
  exists host pn, i2p_hint_to_endpoint true dflt hint = Ok (EpI2p host pn) /\ (pn = dflt \/ exists v, pn = Some v /\ v <> 0).
Proof.
  intros dflt hint. unfold i2p_hint_to_endpoint.
  destruct (re_apply I2P_HINT_RE I2P_HINT_RE_method hint) as [c|] eqn:E; [|left; reflexivity]. right.
  assert (Hpn : exists pn, match group 3 c with
                           | None | Some [] => Ok None
                           | Some ds => match py_int ds with Exc e => Exc e | Ok port => Ok (Some port) end
                           end = Ok pn).
  { destruct (group 3 c) as [ds|] eqn:G; [|eauto]. destruct ds as [|d ds']; [eauto|].
    destruct (i2p_port hint c _ E G) as [v Hv]. rewrite Hv. eauto. }
  destruct Hpn as [pn ->].
  destruct pn as [v|]; [|eexists; eexists; split; [reflexivity|left; reflexivity]].
  destruct (Z.eqb_spec v 0) as [->|Hv]; eexists; eexists; (split; [reflexivity|]); [left; reflexivity|].
  right. exists v. split; [reflexivity|exact Hv].
Qed.

Lemma handler_total pops nonpublic kd hint : handler_ok pops kd ->
  endpoint_or_invalid (hint_to_endpoint_gen pops nonpublic kd hint).
Proof.
  intros Hok. destruct kd as [| |dflt|f]; cbn [hint_to_endpoint_gen].
  - unfold endpoint_or_invalid, tcp_hint_to_endpoint.
    destruct (re_apply NEW_STYLE_HINT_RE NEW_STYLE_HINT_RE_method hint) as [c|] eqn:E; [|right; reflexivity].
    destruct (new_port hint c E) as [v Hv]. rewrite Hv. left. eauto.
  - unfold endpoint_or_invalid, tor_hint_to_endpoint.
    destruct (re_apply TOR_HINT_RE TOR_HINT_RE_method hint) as [c|] eqn:E; [|right; reflexivity].
    destruct (tor_port hint c E) as [v Hv]. rewrite Hv.
    destruct (nonpublic (group_or_nil 1 c)); [right; reflexivity | left; eauto].
  - destruct (i2p_outcomes pops dflt hint) as [H|(Hp & [d ->] & _)]; [exact H|].
    cbn [handler_ok] in Hok. congruence.
  - apply Hok.
Qed.

Lemma lookup_handler_in ty hs kd : lookup_handler ty hs = Some kd -> exists n, In (n, kd) hs.
Proof.
  induction hs as [|[n k] hs IH]; cbn [lookup_handler]; intros H; [discriminate|].
  destruct (list_eqb ty n).
  - inversion H; subst. exists n. left. reflexivity.
  - destruct (IH H) as [n' Hn]. exists n'. right. exact Hn.
Qed.

Theorem hint_total_gen : forall pops handlers nonpublic loc,
  Forall (fun h => handler_ok pops (snd h)) handlers ->
  endpoint_or_invalid (get_endpoint_gen pops handlers nonpublic loc).
Proof.
  intros pops handlers nonpublic loc HF. unfold get_endpoint_gen, get_endpoint_shape.
  destruct (convert_legacy_total loc) as [h Hh]. rewrite Hh.
  repeat match goal with |- context [zmem ?x h] => destruct (zmem x h) end; try (right; reflexivity).
  match goal with |- context [lookup_handler ?t handlers] => destruct (lookup_handler t handlers) as [kd|] eqn:L end; [|right; reflexivity].
  apply handler_total. apply lookup_handler_in in L as [n Hn].
  rewrite Forall_forall in HF. apply (HF (n, kd) Hn).
Qed.

Theorem hint_total : forall handlers nonpublic loc,
  Forall (fun h => handler_ok I2P_POPS_PORT (snd h)) handlers ->
  endpoint_or_invalid (get_endpoint handlers nonpublic loc).
Proof. intros. apply hint_total_gen. assumption. Qed.

(* for ALL handler sets (any plugin behaviour, any i2p configuration): the dispatch itself -- legacy conversion, the
   colon test, the lookup -- never raises; an exception other than InvalidHintError is the one the handler
   registered for the hint's type raised on that very hint *)
Theorem hint_exception_origin : forall pops handlers nonpublic loc e,
  get_endpoint_gen pops handlers nonpublic loc = Exc e ->
  e = "InvalidHintError"%string \/
  exists hint kd, convert_legacy_hint loc = Ok hint /\
                  lookup_handler (take_until HINT_TYPE_SEP hint) handlers = Some kd /\
                  hint_to_endpoint_gen pops nonpublic kd hint = Exc e.
Proof.
  intros pops handlers nonpublic loc e. unfold get_endpoint_gen, get_endpoint_shape.
  destruct (convert_legacy_total loc) as [h Hh]. rewrite Hh.
  repeat match goal with |- context [zmem ?x h] => destruct (zmem x h) end; try (intros H; inversion H; auto; fail).
  match goal with |- context [lookup_handler ?t handlers] => destruct (lookup_handler t handlers) as [kd|] eqn:L end;
    [|intros H; inversion H; auto].
  intros H. right. exists h, kd. split; [reflexivity|]. split; [exact L | exact H].
Qed.

(* ... and of foolscap's own handlers only i2p-with-an-unpopped-default-port can do that, with TypeError *)
Theorem builtin_exceptions : forall pops nonpublic kd hint e,
  (match kd with KPlugin _ => False | _ => True end) ->
  hint_to_endpoint_gen pops nonpublic kd hint = Exc e ->
  e = "InvalidHintError"%string \/ (e = "TypeError"%string /\ pops = false /\ exists d, kd = KI2p (Some d)).
Proof.
  intros pops nonpublic kd hint e Hk H.
  destruct kd as [| |dflt|f]; [| | |contradiction].
  - destruct (handler_total pops nonpublic KTcp hint I) as [[ep He]|He]; rewrite He in H; [discriminate|]. inversion H; auto.
  - destruct (handler_total pops nonpublic KTor hint I) as [[ep He]|He]; rewrite He in H; [discriminate|]. inversion H; auto.
  - cbn [hint_to_endpoint_gen] in H.
    destruct (i2p_outcomes pops dflt hint) as [[[ep He]|He]|(Hp & [d ->] & He)]; rewrite He in H; try discriminate;
      inversion H; subst; auto. right. split; [reflexivity|]. split; [reflexivity|]. eauto.
Qed.

(* the form before 733f931 was defective (kept as the model of the regression; corpus/C20/i2p-default-port.json is the
   same witness on the real code): an i2p handler created with a default port answered "i2p:a:80" with TypeError *)
Definition I2P_NAME : str := [105; 50; 112].
Definition i2p_port_witness : str := [105; 50; 112; 58; 97; 58; 56; 48].       (* "i2p:a:80" *)
Example unpopped_default_port_defect :
  get_endpoint_gen false [(I2P_NAME, KI2p (Some 7777))] (fun _ => false) i2p_port_witness = Exc "TypeError" /\
  get_endpoint_gen true [(I2P_NAME, KI2p (Some 7777))] (fun _ => false) i2p_port_witness = Ok (EpI2p [97] (Some 80)) /\
  get_endpoint_gen true [(I2P_NAME, KI2p (Some 7777))] (fun _ => false) [105; 50; 112; 58; 97] = Ok (EpI2p [97] (Some 7777)).
Proof. vm_compute. repeat split; reflexivity. Qed.

(* the translated form is the repaired one: this is the line that breaks if the defect returns *)
Lemma i2p_pops : I2P_POPS_PORT = true.
Proof. reflexivity. Qed.

(* THE FULL STATEMENT for foolscap's own handlers in every configuration; a third-party plugin must itself answer with an
   endpoint or InvalidHintError *)
Definition plugin_ok (kd : hkind) : Prop :=
  match kd with KPlugin f => forall h, endpoint_or_invalid (f h) | _ => True end.

Theorem hint_total_all : forall handlers nonpublic loc,
  Forall (fun h => plugin_ok (snd h)) handlers ->
  endpoint_or_invalid (get_endpoint handlers nonpublic loc).
Proof.
  intros handlers nonpublic loc HF. apply hint_total. eapply Forall_impl; [|exact HF].
  intros [n kd] H. cbn [snd] in *. destruct kd as [| |[d|]|f]; cbn [handler_ok plugin_ok] in *; [exact I | exact I | exact i2p_pops | exact I | exact H].
Qed.

(* non-vacuity of handler_ok: the six handler sets of the correspondence that have no i2p default port *)
Example handler_ok_example :
  Forall (fun h => handler_ok I2P_POPS_PORT (snd h))
         [([116; 99; 112], KTcp); ([116; 111; 114], KTor); (I2P_NAME, KI2p None);
          ([120], KPlugin (fun h => match h with [] => invalid | _ => Ok (EpTcp h 1) end))].
Proof.
  constructor; [exact I|]. constructor; [exact I|]. constructor; [exact I|]. constructor; [|constructor].
  cbn [snd handler_ok]. intros h0. unfold endpoint_or_invalid. destruct h0; [right; reflexivity | left; eauto].
Qed.

(* ports handed to an endpoint constructor are below 100000 *)
Lemma int_acc_bound ds : forall acc v, 0 <= acc -> int_acc acc ds = Some v ->
  0 <= v < (acc + 1) * 10 ^ Z.of_nat (List.length ds).
Proof.
  induction ds as [|d ds IH]; cbn [int_acc List.length]; intros acc v Ha H.
  - inversion H; subst. cbn. lia.
  - destruct (digit_val d) as [dv|] eqn:E; [|discriminate].
    assert (Hdv : 0 <= dv <= 9).
    { unfold digit_val in E. clear -E. induction digit_zeros as [|z zs IHz]; cbn [digit_val_in] in E; [discriminate|].
      destruct ((z <=? d) && (d <=? z + 9)) eqn:B; [|auto]. inversion E; subst. lia. }
    apply IH in H; [|lia]. rewrite Nat2Z.inj_succ, Z.pow_succ_r by lia. nia.
Qed.

(* ================================================================== 5. round trip *)

Definition hint_wf (h : str) : Prop := h <> [] /\ ~ In HINT_SEP h /\ ~ In 47 h.
(* what decode_furl returns: a non-empty base32 tub id of at most TUBID_CUT characters, hints that
   are non-empty and free of ',' and '/', a non-empty name without newline *)
Definition furl_wf (t : str) (hs : list str) (n : str) : Prop :=
  t <> [] /\ (List.length t <= TUBID_CUT)%nat /\ is_base32 t = true /\ Forall hint_wf hs /\ n <> [] /\ ~ In 10 n.

Lemma in_cset_lit x : in_cset (CS false [(x, x)]) x = true.
Proof. unfold in_cset, in_ranges, in_range. cbn. rewrite Z.leb_refl. reflexivity. Qed.

Lemma in_cset_not x y : in_cset (CS true [(x, x)]) y = negb (y =? x).
Proof.
  unfold in_cset, in_ranges, in_range. cbn. rewrite orb_false_r.
  destruct (Z.eqb_spec y x) as [->|Hne].
  - rewrite Z.leb_refl. reflexivity.
  - destruct (Z.leb_spec x y), (Z.leb_spec y x); cbn; try reflexivity; lia.
Qed.

Lemma notin_forallb x h : ~ In x h -> forallb (in_cset (CS true [(x, x)])) h = true.
Proof.
  induction h as [|y h IH]; cbn [forallb In]; intros H; [reflexivity|].
  rewrite in_cset_not. destruct (Z.eqb_spec y x) as [->|Hne]; [tauto|]. cbn. apply IH. tauto.
Qed.

Lemma forallb_notin x h : forallb (in_cset (CS true [(x, x)])) h = true -> ~ In x h.
Proof.
  induction h as [|y h IH]; cbn [forallb In]; intros H; [tauto|].
  apply andb_true_iff in H as [H1 H2]. rewrite in_cset_not in H1.
  destruct (Z.eqb_spec y x); [discriminate|]. intros [E|E]; [congruence|]. apply IH; assumption.
Qed.

Lemma split_on_nosep sep a : ~ In sep a -> split_on sep a = [a].
Proof.
  induction a as [|x a IH]; cbn [split_on In]; intros H; [reflexivity|].
  destruct (Z.eqb_spec x sep); [tauto|]. rewrite IH by tauto. reflexivity.
Qed.

Lemma split_on_app sep a rest : ~ In sep a -> split_on sep (a ++ sep :: rest) = a :: split_on sep rest.
Proof.
  induction a as [|x a IH]; cbn [split_on In app]; intros H.
  - rewrite Z.eqb_refl. reflexivity.
  - destruct (Z.eqb_spec x sep); [tauto|]. rewrite IH by tauto. reflexivity.
Qed.

Lemma split_join sep hs : hs <> [] -> Forall (fun h => ~ In sep h) hs -> split_on sep (join_with sep hs) = hs.
Proof.
  induction hs as [|a hs IH]; intros Hne HF; [congruence|].
  inversion HF as [|? ? Ha HF']; subst. destruct hs as [|b hs'].
  - cbn [join_with]. apply split_on_nosep. assumption.
  - change (join_with sep (a :: b :: hs')) with (a ++ sep :: join_with sep (b :: hs')).
    rewrite split_on_app by assumption. rewrite IH; [reflexivity|discriminate|assumption].
Qed.

Lemma forallb_join (P : Z -> bool) sep hs : P sep = true -> Forall (fun h => forallb P h = true) hs ->
  forallb P (join_with sep hs) = true.
Proof.
  intros Hs. induction hs as [|a hs IH]; intros HF; [reflexivity|].
  inversion HF as [|? ? Ha HF']; subst. destruct hs as [|b hs'].
  - exact Ha.
  - change (join_with sep (a :: b :: hs')) with (a ++ sep :: join_with sep (b :: hs')).
    rewrite forallb_app. cbn [forallb]. rewrite Ha, Hs, (IH HF'). reflexivity.
Qed.

Lemma fst_tick o : fst (tick o) = fst o.
Proof. destruct o; reflexivity. Qed.

Lemma base32_not_at x : base32_char x = true -> in_cset (CS true [(64, 64)]) x = true.
Proof.
  intros H. rewrite in_cset_not. destruct (Z.eqb_spec x 64) as [->|]; [|reflexivity].
  vm_compute in H. discriminate.
Qed.

Lemma content_nil n : content (n, []) = n.
Proof. unfold content. cbn [fst snd List.length]. rewrite Nat.sub_0_r. apply firstn_all. Qed.

(* the pattern finds the encoded FURL at position 0 and splits it at the first '@' and the next '/' *)
Lemma furl_match t g2 n :
  t <> [] -> forallb (in_cset (CS true [(64, 64)])) t = true ->
  forallb (in_cset (CS true [(47, 47)])) g2 = true ->
  n <> [] -> forallb (in_cset (CS true [(10, 10)])) n = true ->
  exists c, re_apply AUTH_STURDYREF_RE AUTH_STURDYREF_RE_method (ENC_PREFIX ++ t ++ ENC_AT ++ g2 ++ ENC_SLASH ++ n) = Some c
            /\ group 1 c = Some t /\ group 2 c = Some g2 /\ group 3 c = Some n.
Proof.
  intros Ht Ht' Hg Hn Hn'.
  unfold re_apply, re_run, AUTH_STURDYREF_RE_method, AUTH_STURDYREF_RE. cbn [p_anch p_body].
  cbn [ENC_PREFIX ENC_AT ENC_SLASH app].
  eexists. split.
  - cbn [search_from]. apply fst_orelse_tick. rewrite m_top_unfold. cbn [m].
    rewrite !in_cset_lit, !fst_tick.
    apply star_greedy; [exact Ht' | reflexivity | destruct t; [congruence | cbn; lia] |].
    cbn [m]. rewrite !in_cset_lit, !fst_tick.
    apply star_greedy; [exact Hg | reflexivity | cbn; lia |].
    cbn [m]. rewrite !in_cset_lit, !fst_tick.
    rewrite <- (app_nil_r n) at 1.
    apply star_greedy; [exact Hn' | exact I | destruct n; [congruence | cbn; lia] |].
    cbn [m at_eol]. rewrite fst_tick. unfold kacc, accept. cbn [fst]. reflexivity.
  - split; [|split].
    + rewrite group_skip by discriminate. rewrite group_skip by discriminate. rewrite group_skip by discriminate.
      rewrite group_hit. rewrite content_app. reflexivity.
    + rewrite group_skip by discriminate. rewrite group_skip by discriminate.
      rewrite group_hit. rewrite content_app. reflexivity.
    + rewrite group_skip by discriminate. rewrite group_hit. rewrite content_nil. reflexivity.
Qed.

Lemma hints_roundtrip hs : Forall hint_wf hs ->
  (let sp := split_on HINT_SEP (join_with ENC_SEP hs) in match sp with [[]] => [] | _ => sp end) = hs
  /\ existsb str_is_nil hs = false.
Proof.
  intros HF. split.
  - destruct hs as [|h hs']; [reflexivity|].
    change ENC_SEP with HINT_SEP. rewrite split_join.
    + inversion HF as [|? ? [Hne _] _]; subst. destruct h; [congruence|]. reflexivity.
    + discriminate.
    + eapply Forall_impl; [|exact HF]. intros a (_ & H & _). exact H.
  - induction HF as [|h hs' [Hne _] _ IH]; [reflexivity|]. cbn [existsb]. destruct h; [congruence|]. exact IH.
Qed.

(* re-encoding what a well-formed triple and decoding it again is the identity *)
Theorem decode_encode_wf : forall t hs n, furl_wf t hs n -> decode_furl (encode_furl t hs n) = Ok (t, hs, n).
Proof.
  intros t hs n (Ht & Hlen & Hb & Hhs & Hn & Hnl).
  assert (Ht' : forallb (in_cset (CS true [(64, 64)])) t = true).
  { unfold is_base32 in Hb. rewrite forallb_forall in *. intros x Hx. apply base32_not_at. apply Hb. assumption. }
  assert (Hg : forallb (in_cset (CS true [(47, 47)])) (join_with ENC_SEP hs) = true).
  { apply forallb_join; [reflexivity|]. eapply Forall_impl; [|exact Hhs]. intros a (_ & _ & H). apply notin_forallb. exact H. }
  destruct (furl_match t (join_with ENC_SEP hs) n Ht Ht' Hg Hn (notin_forallb 10 n Hnl)) as (c & Hc & G1 & G2 & G3).
  unfold decode_furl, encode_furl. rewrite Hc. unfold group_or_nil. rewrite G1, G2, G3.
  rewrite firstn_all2 by assumption. rewrite Hb. cbn [negb].
  destruct (hints_roundtrip hs Hhs) as [E1 E2]. cbn zeta in E1. rewrite E1, E2. reflexivity.
Qed.

(* --- what a successful decode looks like *)
Lemma search_inv r : forall s res n, search_from r s = (Some res, n) ->
  exists pre s1 n', s = pre ++ s1 /\ m_top r s1 = (Some res, n').
Proof.
  induction s as [|x s IH]; intros res n H; cbn [search_from] in H; apply orelse_some in H as [[n' H]|[n' H]].
  - apply tick_some in H as [n'' H]. exists [], [], n''. auto.
  - discriminate.
  - apply tick_some in H as [n'' H]. exists [], (x :: s), n''. auto.
  - apply IH in H as (pre & s1 & n1 & -> & H). exists (x :: pre), s1, n1. auto.
Qed.

Ltac chr_inv H :=
  match type of H with (match ?s with _ => _ end) = _ => destruct s as [|? ?]; [discriminate|] end;
  match type of H with (if ?b then _ else _) = _ => destruct b eqn:?; [|discriminate] end;
  apply tick_some in H; destruct H as [? H].

Lemma furl_match_inv s c : re_apply AUTH_STURDYREF_RE AUTH_STURDYREF_RE_method s = Some c ->
  exists u1 u2 u3, group 1 c = Some u1 /\ group 2 c = Some u2 /\ group 3 c = Some u3 /\
    u1 <> [] /\ ~ In 47 u2 /\ u3 <> [] /\ ~ In 10 u3.
Proof.
  unfold re_apply, re_run, AUTH_STURDYREF_RE_method, AUTH_STURDYREF_RE. cbn [p_anch p_body].
  destruct (search_from _ s) as [r n] eqn:H. cbn [fst]. intros ->.
  apply search_inv in H as (pre & s1 & n1 & -> & H). rewrite m_top_unfold in H. cbn [m] in H.
  chr_inv H. chr_inv H. chr_inv H. chr_inv H. chr_inv H.
  apply star_inv in H as (u1 & s' & -> & Hu1 & Hlo1 & _ & n2 & H). cbn beta in H.
  chr_inv H.
  apply star_inv in H as (u2 & s'' & -> & Hu2 & _ & _ & n3 & H). cbn beta in H.
  chr_inv H.
  apply star_inv in H as (u3 & s3 & -> & Hu3 & Hlo3 & _ & n4 & H). cbn beta in H.
  destruct (at_eol s3); [|discriminate]. apply tick_some in H as [n5 H]. apply kacc_inv in H. subst c.
  exists u1, u2, u3. repeat split.
  - rewrite group_skip by discriminate. rewrite group_skip by discriminate. rewrite group_skip by discriminate.
    rewrite group_hit. rewrite (content_app u1). reflexivity.
  - rewrite group_skip by discriminate. rewrite group_skip by discriminate.
    rewrite group_hit. rewrite (content_app u2). reflexivity.
  - rewrite group_skip by discriminate. rewrite group_hit. rewrite (content_app u3). reflexivity.
  - destruct u1; [cbn in Hlo1; lia | discriminate].
  - apply forallb_notin. exact Hu2.
  - destruct u3; [cbn in Hlo3; lia | discriminate].
  - apply forallb_notin. exact Hu3.
Qed.

Lemma split_on_pieces sep s : Forall (fun h => ~ In sep h /\ forall x, In x h -> In x s) (split_on sep s).
Proof.
  induction s as [|x s IH]; cbn [split_on].
  - constructor; [|constructor]. split; [tauto | intros x []].
  - destruct (Z.eqb_spec x sep) as [->|Hne].
    + constructor; [split; [tauto | intros y []]|].
      eapply Forall_impl; [|exact IH]. intros a [H1 H2]. split; [assumption|]. intros y Hy. right. auto.
    + destruct (split_on sep s) as [|h t] eqn:E.
      * constructor; [|constructor]. split; [intros [A|[]]; congruence | intros y [<-|[]]; left; reflexivity].
      * inversion IH as [|? ? [H1 H2] Ht]; subst. constructor.
        -- split; [intros [A|A]; [congruence|tauto] | intros y [<-|Hy]; [left; reflexivity | right; auto]].
        -- eapply Forall_impl; [|exact Ht]. intros a [A1 A2]. split; [assumption|]. intros y Hy. right. auto.
Qed.

Theorem decode_wf : forall s t hs n, decode_furl s = Ok (t, hs, n) -> furl_wf t hs n.
Proof.
  intros s t hs n H. unfold decode_furl in H.
  destruct (re_apply AUTH_STURDYREF_RE AUTH_STURDYREF_RE_method s) as [c|] eqn:E; [|discriminate].
  destruct (furl_match_inv s c E) as (u1 & u2 & u3 & G1 & G2 & G3 & Hu1 & Hu2 & Hu3 & Hnl).
  unfold group_or_nil in H. rewrite G1, G2, G3 in H.
  destruct (is_base32 (firstn TUBID_CUT u1)) eqn:Hb; cbn [negb] in H; [|discriminate].
  set (sp := split_on HINT_SEP u2) in *.
  set (hs0 := match sp with [[]] => [] | _ => sp end) in *.
  destruct (existsb str_is_nil hs0) eqn:Hex; [discriminate|].
  assert (t = firstn TUBID_CUT u1 /\ hs = hs0 /\ n = u3) as (-> & -> & ->) by (repeat split; congruence). clear H.
  unfold furl_wf. split; [|split; [|split; [|split; [|split]]]]; auto.
  - destruct u1; [congruence|]. unfold TUBID_CUT. cbn. discriminate.
  - apply firstn_le_length.
  - assert (HF : Forall (fun h => ~ In HINT_SEP h /\ forall x, In x h -> In x u2) hs0).
    { pose proof (split_on_pieces HINT_SEP u2) as HP. fold sp in HP. unfold hs0.
      destruct sp as [|[|y h] [|h2 t]]; try exact HP; constructor. }
    rewrite Forall_forall in *. intros h Hh. destruct (HF h Hh) as [H1 H2]. split; [|split].
    + intros ->. assert (existsb str_is_nil hs0 = true) by (apply existsb_exists; exists []; auto). congruence.
    + exact H1.
    + intros H47. apply Hu2. apply H2. exact H47.
Qed.

Theorem decode_encode : forall s t hs n, decode_furl s = Ok (t, hs, n) -> decode_furl (encode_furl t hs n) = Ok (t, hs, n).
Proof. intros s t hs n H. apply decode_encode_wf. eapply decode_wf. exact H. Qed.

(* non-vacuity *)
Example decode_encode_example :
  let f := ENC_PREFIX ++ [97; 98; 50] ++ ENC_AT ++ [104; 58; 49; 44; 105; 58; 50] ++ ENC_SLASH ++ [110] in
  decode_furl f = Ok ([97; 98; 50], [[104; 58; 49]; [105; 58; 50]], [110]) /\
  furl_wf [97; 98; 50] [[104; 58; 49]; [105; 58; 50]] [110].
Proof.
  split; [vm_compute; reflexivity|].
  unfold furl_wf, hint_wf. repeat split; try discriminate; try (cbn; lia);
    try (repeat constructor; try discriminate; cbn; intuition discriminate); cbn; intuition discriminate.
Qed.

Example hint_examples :
  map (fun s => ep_code (get_endpoint [([116; 99; 112], KTcp); ([105; 50; 112], KI2p None)] (fun _ => false) s))
      [[97; 58; 48; 56; 48]; [116; 99; 112; 58; 91; 58; 58; 49; 93; 58; 55]; [105; 50; 112; 58; 97]; [120]; [97; 58; 49; 50; 51; 52; 53; 54]]
  = [[[1]; [97]; [80]]; [[1]; [58; 58; 49]; [7]]; [[3]; [97]; []]; [[0]]; [[0]]].
Proof. vm_compute. reflexivity. Qed.

(* ================================================================== 6. references that arrive as copies *)
(* SturdyRef.setCopyableState takes exactly the translated `sturdyref_copied_fields` from the peer's state; every field
   that identity depends on is among them, so a received reference is compared by the tub id and name it was sent with
   (sturdy_eq quantifies over all records, however built) *)
Lemma copy_carries_identity : forall f, In f sturdyref_distinguishers -> In f sturdyref_copied_fields.
Proof.
  unfold sturdyref_distinguishers, sturdyref_copied_fields. intros f H. cbn [In] in *.
  repeat match goal with H : _ \/ _ |- _ => destruct H as [<-|H] end; tauto.
Qed.

(* ================================================================== 7. exact growth of FURL matching *)
Definition AT_FREE : cset := CS true [(64, 64)].
Definition noat (t : list Z) : Prop := forallb (in_cset AT_FREE) t = true.

Lemma noat_tail x t : noat (x :: t) -> noat t.
Proof. unfold noat. cbn [forallb]. intros H. apply andb_true_iff in H. tauto. Qed.

Lemma noat_pb k : noat (pb_repeat k).
Proof.
  unfold noat, pb_repeat. induction k as [|k IH]; [reflexivity|].
  cbn [repeat List.concat]. rewrite forallb_app, IH. vm_compute. reflexivity.
Qed.

Lemma len_app a b : len (a ++ b) = (len a + len b)%N.
Proof. unfold len. rewrite app_length. lia. Qed.

Lemma len_pb k : len (pb_repeat k) = (len ENC_PREFIX * N.of_nat k)%N.
Proof.
  unfold pb_repeat. induction k as [|k IH]; [cbn; lia|].
  cbn [repeat List.concat]. rewrite len_app, IH. lia.
Qed.

(* a successful attempt needs an '@' in the subject *)
Lemma furl_attempt_at s1 res n : m_top (p_body AUTH_STURDYREF_RE) s1 = (Some res, n) -> In 64 s1.
Proof.
  unfold AUTH_STURDYREF_RE. cbn [p_body]. rewrite m_top_unfold. cbn [m]. intros H.
  chr_inv H. chr_inv H. chr_inv H. chr_inv H. chr_inv H.
  apply star_inv in H as (u1 & s' & -> & Hu1 & Hlo1 & _ & n2 & H). cbn beta in H.
  chr_inv H.
  match goal with E : in_cset (CS false [(64, 64)]) ?z = true |- _ =>
    rewrite in_cset_lit_eqb in E; apply Z.eqb_eq in E; subst z end.
  cbn [In]. do 5 right. apply in_or_app. right. left. reflexivity.
Qed.

Lemma furl_attempt_none t : noat t -> fst (m_top (p_body AUTH_STURDYREF_RE) t) = None.
Proof.
  intros H. destruct (m_top (p_body AUTH_STURDYREF_RE) t) as [[res|] n] eqn:E; [|reflexivity].
  exfalso. apply furl_attempt_at in E. apply (forallb_notin 64 t H). exact E.
Qed.

(* ... and an attempt that starts at a scheme occurrence walks to the end of the '@'-free text behind it *)
Lemma furl_attempt_cost_ge t : noat t -> (len t <= cost (m_top (p_body AUTH_STURDYREF_RE) (ENC_PREFIX ++ t)))%N.
Proof.
  intros H. unfold AUTH_STURDYREF_RE. cbn [p_body ENC_PREFIX app]. rewrite m_top_unfold. cbn [m].
  rewrite !in_cset_lit, !cost_tick.
  match goal with |- context [star ?cs ?lo None t ?c ?k] => pose proof (star_cost_ge cs k t lo c H) end.
  lia.
Qed.

Lemma search_drop r x s : fst (m_top r (x :: s)) = None -> (cost (search_from r s) <= cost (search_from r (x :: s)))%N.
Proof. intros H. rewrite (search_skip r x s H). lia. Qed.

(* THE LOWER BOUND: on "pb://" repeated k times the search takes at least (5/2) k (k-1) steps *)
Theorem furl_search_lower : forall k,
  (5 * N.of_nat k * N.of_nat k <= 2 * re_steps AUTH_STURDYREF_RE AUTH_STURDYREF_RE_method (pb_repeat k) + 5 * N.of_nat k)%N.
Proof.
  intros k.
  change (re_steps AUTH_STURDYREF_RE AUTH_STURDYREF_RE_method (pb_repeat k))
    with (cost (search_from (p_body AUTH_STURDYREF_RE) (pb_repeat k))).
  induction k as [|k IH]; [cbn; lia|].
  pose proof (noat_pb (S k)) as Hn. pose proof (len_pb k) as HL.
  change (pb_repeat (S k)) with (ENC_PREFIX ++ pb_repeat k) in *.
  pose proof (furl_attempt_cost_ge (pb_repeat k) (noat_pb k)) as Hc.
  cbn [ENC_PREFIX app] in *.
  set (r := p_body AUTH_STURDYREF_RE) in *. set (t := pb_repeat k) in *.
  rewrite (search_skip r _ _ (furl_attempt_none _ Hn)).
  apply noat_tail in Hn. pose proof (search_drop r _ _ (furl_attempt_none _ Hn)) as D1.
  apply noat_tail in Hn. pose proof (search_drop r _ _ (furl_attempt_none _ Hn)) as D2.
  apply noat_tail in Hn. pose proof (search_drop r _ _ (furl_attempt_none _ Hn)) as D3.
  apply noat_tail in Hn. pose proof (search_drop r _ _ (furl_attempt_none _ Hn)) as D4.
  assert (E5 : len ENC_PREFIX = 5%N) by reflexivity. cbn [ENC_PREFIX] in E5. try rewrite E5 in HL. change (len ENC_PREFIX) with 5%N in HL.
  rewrite Nat2N.inj_succ.
  repeat match goal with H : context [cost ?x] |- _ => let v := fresh "v" in set (v := cost x) in *; clearbody v end.
  repeat match goal with |- context [cost ?x] => let v := fresh "v" in set (v := cost x) in *; clearbody v end.
  set (K := N.of_nat k) in *. clearbody K. clear -IH HL Hc D1 D2 D3 D4.
  assert (E : (5 * N.succ K * N.succ K = 5 * K * K + 10 * K + 5)%N) by lia.
  rewrite E. lia.
Qed.

(* hence NO linear bound holds, whatever the constant (full-strength statement refuted for all K) *)
Theorem furl_linear_refuted : forall K : N, exists s,
  (K * (N.of_nat (List.length s) + 1) < re_steps AUTH_STURDYREF_RE AUTH_STURDYREF_RE_method s)%N.
Proof.
  intros K. exists (pb_repeat (N.to_nat (2 * K + 4))).
  pose proof (furl_search_lower (N.to_nat (2 * K + 4))) as H.
  pose proof (len_pb (N.to_nat (2 * K + 4))) as HL. unfold len in HL.
  change (N.of_nat (List.length ENC_PREFIX)) with 5%N in HL.
  rewrite HL. rewrite N2Nat.id in *. nia.
Qed.

(* --- the anchored alternative (`^pb://...` or .match()) IS linear, with the same constant *)
Lemma furl_K_ok : attempt_bound (p_body AUTH_STURDYREF_RE) = Some furl_K.
Proof. vm_compute. reflexivity. Qed.

Theorem furl_anchored_linear : forall meth s,
  (re_steps (anchored AUTH_STURDYREF_RE) meth s <= furl_K * (N.of_nat (List.length s) + 1))%N.
Proof.
  intros meth s. apply linear_bound_sound. unfold linear_bound, anchored. cbn [p_anch p_body].
  destruct meth; exact furl_K_ok.
Qed.

Theorem furl_match_linear : forall s,
  (re_steps AUTH_STURDYREF_RE MMatch s <= furl_K * (N.of_nat (List.length s) + 1))%N.
Proof. intros s. apply linear_bound_sound. unfold linear_bound. exact furl_K_ok. Qed.

(* ... but it accepts fewer strings (why the finding is not simply repaired): junk before the scheme *)
Example anchoring_changes_language :
  let s := [120; 120] ++ ENC_PREFIX ++ [97] ++ ENC_AT ++ [104] ++ ENC_SLASH ++ [110] in
  (exists c, re_apply AUTH_STURDYREF_RE AUTH_STURDYREF_RE_method s = Some c) /\
  re_apply (anchored AUTH_STURDYREF_RE) AUTH_STURDYREF_RE_method s = None /\ re_apply AUTH_STURDYREF_RE MMatch s = None.
Proof. vm_compute. split; [eexists; reflexivity | split; reflexivity]. Qed.

(* --- where the quadratic cost comes from: only attempts that start at a scheme occurrence are expensive *)
Lemma furl_attempt_cheap t : prefixb ENC_PREFIX t = false -> (cost (m_top (p_body AUTH_STURDYREF_RE) t) <= 5)%N.
Proof.
  unfold AUTH_STURDYREF_RE. cbn [p_body ENC_PREFIX]. rewrite m_top_unfold. cbn [m]. revert t.
  assert (F : cost fail1 = 1%N) by reflexivity.
  intros t H.
  repeat (destruct t as [|? t]; [rewrite ?cost_tick, ?F; lia|];
          cbn [prefixb ENC_PREFIX] in H; rewrite in_cset_lit_eqb;
          match goal with |- context [if (?x =? ?a) then _ else _] => destruct (x =? a) end;
          cbn [andb] in H; [|rewrite ?cost_tick, ?F; lia]).
  discriminate.
Qed.

Theorem furl_search_occ : forall s,
  (cost (search_from (p_body AUTH_STURDYREF_RE) s)
   <= 6 * (len s + 1) + occ ENC_PREFIX s * (furl_K * (len s + 1)))%N.
Proof.
  pose proof (attempt_bound_sound _ _ furl_K_ok) as HA.
  induction s as [|x s IH].
  - eapply N.le_trans; [apply search_nil_le|]. pose proof (furl_attempt_cheap [] eq_refl). rewrite len_nil. cbn [occ]. lia.
  - eapply N.le_trans; [apply search_step_le|]. cbn [occ]. rewrite len_cons.
    set (L := len s) in *. set (o := occ ENC_PREFIX s) in *.
    assert (Hm : (furl_K * (L + 1) <= furl_K * (L + 1 + 1))%N) by (apply N.mul_le_mono_l; lia).
    assert (Ho : (o * (furl_K * (L + 1)) <= o * (furl_K * (L + 1 + 1)))%N) by (apply N.mul_le_mono_l; exact Hm).
    destruct (prefixb ENC_PREFIX (x :: s)) eqn:E.
    + specialize (HA (x :: s)). rewrite len_cons in HA. fold L in HA.
      replace ((1 + o) * (furl_K * (L + 1 + 1)))%N with (furl_K * (L + 1 + 1) + o * (furl_K * (L + 1 + 1)))%N by ring.
      lia.
    + pose proof (furl_attempt_cheap _ E). replace ((0 + o))%N with o by lia. lia.
Qed.

Theorem furl_steps_by_occurrences : forall s,
  (re_steps AUTH_STURDYREF_RE AUTH_STURDYREF_RE_method s
   <= 6 * (N.of_nat (List.length s) + 1) + occ ENC_PREFIX s * (furl_K * (N.of_nat (List.length s) + 1)))%N.
Proof. exact furl_search_occ. Qed.

(* a FURL in which the scheme occurs at most once -- every FURL a Tub prints -- is matched in linear time *)
Corollary furl_single_scheme_linear : forall s, (occ ENC_PREFIX s <= 1)%N ->
  (re_steps AUTH_STURDYREF_RE AUTH_STURDYREF_RE_method s <= (furl_K + 6) * (N.of_nat (List.length s) + 1))%N.
Proof.
  intros s H. pose proof (furl_steps_by_occurrences s) as B.
  set (X := (furl_K * (N.of_nat (List.length s) + 1))%N) in *.
  assert (occ ENC_PREFIX s * X <= 1 * X)%N by (apply N.mul_le_mono_r; exact H).
  unfold X in *. lia.
Qed.

Example furl_single_scheme_example :
  let s := ENC_PREFIX ++ [97; 98; 50] ++ ENC_AT ++ [104; 58; 49] ++ ENC_SLASH ++ [110] in
  occ ENC_PREFIX s = 1%N /\ occ ENC_PREFIX (pb_repeat 7) = 7%N.
Proof. vm_compute. split; reflexivity. Qed.


(* ================================================================== 8. FURLs given as bytes *)
Lemma utf8_dec_enc1 c r : scalarb c = true -> utf8_dec (enc1 c ++ r) = option_map (cons c) (utf8_dec r).
Proof.
  unfold scalarb. intros H. apply andb_true_iff in H as [H Hs]. apply andb_true_iff in H as [H0 H1].
  apply Z.leb_le in H0. apply Z.ltb_lt in H1. apply negb_true_iff in Hs.
  unfold enc1.
  destruct (Z.ltb_spec c 128) as [A|A].
  { cbn [app utf8_dec]. replace ((0 <=? c) && (c <? 128)) with true; [reflexivity|].
    symmetry. apply andb_true_iff. split; [apply Z.leb_le | apply Z.ltb_lt]; lia. }
  destruct (Z.ltb_spec c 2048) as [B|B].
  { cbn [app utf8_dec].
    assert (Hq : 2 <= c / 64 < 32) by (split; [apply Z.div_le_lower_bound | apply Z.div_lt_upper_bound]; lia).
    pose proof (Z.mod_pos_bound c 64 ltac:(lia)) as Hm. pose proof (Z.div_mod c 64 ltac:(lia)) as Hd.
    replace ((0 <=? 192 + c / 64) && (192 + c / 64 <? 128)) with false
      by (symmetry; apply andb_false_iff; right; apply Z.ltb_ge; lia).
    replace ((194 <=? 192 + c / 64) && (192 + c / 64 <? 224)) with true
      by (symmetry; apply andb_true_iff; split; [apply Z.leb_le | apply Z.ltb_lt]; lia).
    replace (is_cont (128 + c mod 64)) with true
      by (symmetry; unfold is_cont; apply andb_true_iff; split; [apply Z.leb_le | apply Z.ltb_lt]; lia).
    replace ((192 + c / 64 - 192) * 64 + (128 + c mod 64 - 128)) with c by lia. reflexivity. }
  destruct (Z.ltb_spec c 65536) as [C|C].
  { cbn [app utf8_dec].
    assert (Hq : 0 <= c / 4096 < 16) by (split; [apply Z.div_le_lower_bound | apply Z.div_lt_upper_bound]; lia).
    pose proof (Z.mod_pos_bound c 64 ltac:(lia)) as Hm. pose proof (Z.div_mod c 64 ltac:(lia)) as Hd.
    pose proof (Z.mod_pos_bound (c / 64) 64 ltac:(lia)) as Hm2. pose proof (Z.div_mod (c / 64) 64 ltac:(lia)) as Hd2.
    assert (Hdd : c / 64 / 64 = c / 4096) by (rewrite Z.div_div by lia; reflexivity).
    rewrite Hdd in Hd2.
    replace ((0 <=? 224 + c / 4096) && (224 + c / 4096 <? 128)) with false
      by (symmetry; apply andb_false_iff; right; apply Z.ltb_ge; lia).
    replace ((194 <=? 224 + c / 4096) && (224 + c / 4096 <? 224)) with false
      by (symmetry; apply andb_false_iff; right; apply Z.ltb_ge; lia).
    replace ((224 <=? 224 + c / 4096) && (224 + c / 4096 <? 240)) with true
      by (symmetry; apply andb_true_iff; split; [apply Z.leb_le | apply Z.ltb_lt]; lia).
    replace (is_cont (128 + c / 64 mod 64)) with true
      by (symmetry; unfold is_cont; apply andb_true_iff; split; [apply Z.leb_le | apply Z.ltb_lt]; lia).
    replace (is_cont (128 + c mod 64)) with true
      by (symmetry; unfold is_cont; apply andb_true_iff; split; [apply Z.leb_le | apply Z.ltb_lt]; lia).
    assert (S3 : second3 (224 + c / 4096) (128 + c / 64 mod 64) = true).
    { unfold second3. destruct (Z.eqb_spec (224 + c / 4096) 224) as [E|E].
      - apply Z.leb_le. assert (c / 4096 = 0) by lia. lia.
      - destruct (Z.eqb_spec (224 + c / 4096) 237) as [E2|E2]; [|reflexivity].
        apply Z.ltb_lt. assert (c / 4096 = 13) by lia.
        (* c in [0xD000, 0xE000) and not a surrogate: c < 0xD800 *)
        apply andb_false_iff in Hs. destruct Hs as [Hs|Hs]; [apply Z.leb_gt in Hs | apply Z.ltb_ge in Hs]; lia. }
    rewrite S3. cbn [andb].
    replace ((224 + c / 4096 - 224) * 4096 + (128 + c / 64 mod 64 - 128) * 64 + (128 + c mod 64 - 128)) with c by lia.
    reflexivity. }
  { cbn [app utf8_dec].
    assert (Hq : 0 <= c / 262144 < 5) by (split; [apply Z.div_le_lower_bound | apply Z.div_lt_upper_bound]; lia).
    pose proof (Z.mod_pos_bound c 64 ltac:(lia)) as Hm. pose proof (Z.div_mod c 64 ltac:(lia)) as Hd.
    pose proof (Z.mod_pos_bound (c / 64) 64 ltac:(lia)) as Hm2. pose proof (Z.div_mod (c / 64) 64 ltac:(lia)) as Hd2.
    assert (Hdd : c / 64 / 64 = c / 4096) by (rewrite Z.div_div by lia; reflexivity).
    rewrite Hdd in Hd2.
    pose proof (Z.mod_pos_bound (c / 4096) 64 ltac:(lia)) as Hm3. pose proof (Z.div_mod (c / 4096) 64 ltac:(lia)) as Hd3.
    assert (Hdd3 : c / 4096 / 64 = c / 262144) by (rewrite Z.div_div by lia; reflexivity).
    rewrite Hdd3 in Hd3.
    replace ((0 <=? 240 + c / 262144) && (240 + c / 262144 <? 128)) with false
      by (symmetry; apply andb_false_iff; right; apply Z.ltb_ge; lia).
    replace ((194 <=? 240 + c / 262144) && (240 + c / 262144 <? 224)) with false
      by (symmetry; apply andb_false_iff; right; apply Z.ltb_ge; lia).
    replace ((224 <=? 240 + c / 262144) && (240 + c / 262144 <? 240)) with false
      by (symmetry; apply andb_false_iff; right; apply Z.ltb_ge; lia).
    replace ((240 <=? 240 + c / 262144) && (240 + c / 262144 <? 245)) with true
      by (symmetry; apply andb_true_iff; split; [apply Z.leb_le | apply Z.ltb_lt]; lia).
    replace (is_cont (128 + c / 4096 mod 64)) with true
      by (symmetry; unfold is_cont; apply andb_true_iff; split; [apply Z.leb_le | apply Z.ltb_lt]; lia).
    replace (is_cont (128 + c / 64 mod 64)) with true
      by (symmetry; unfold is_cont; apply andb_true_iff; split; [apply Z.leb_le | apply Z.ltb_lt]; lia).
    replace (is_cont (128 + c mod 64)) with true
      by (symmetry; unfold is_cont; apply andb_true_iff; split; [apply Z.leb_le | apply Z.ltb_lt]; lia).
    assert (S4 : second4 (240 + c / 262144) (128 + c / 4096 mod 64) = true).
    { unfold second4. destruct (Z.eqb_spec (240 + c / 262144) 240) as [E|E].
      - apply Z.leb_le. assert (c / 262144 = 0) by lia. lia.
      - destruct (Z.eqb_spec (240 + c / 262144) 244) as [E2|E2]; [|reflexivity].
        apply Z.ltb_lt. assert (c / 262144 = 4) by lia. lia. }
    rewrite S4. cbn [andb].
    replace ((240 + c / 262144 - 240) * 262144 + (128 + c / 4096 mod 64 - 128) * 4096 + (128 + c / 64 mod 64 - 128) * 64 + (128 + c mod 64 - 128)) with c by lia.
    reflexivity. }
Qed.

(* decoding the UTF-8 encoding of a str gives the str back: a bytes FURL is the str FURL *)
Theorem utf8_dec_utf8 : forall s, forallb scalarb s = true -> utf8_dec (utf8 s) = Some s.
Proof.
  induction s as [|c s IH]; cbn [forallb]; intros H; [reflexivity|].
  apply andb_true_iff in H as [Hc Hs]. unfold utf8. cbn [flat_map]. fold (utf8 s).
  rewrite utf8_dec_enc1 by exact Hc. rewrite IH by exact Hs. reflexivity.
Qed.

Theorem decode_bytes_is_decode_str : forall s, forallb scalarb s = true -> decode_furl_bytes (utf8 s) = decode_furl s.
Proof. intros s H. unfold decode_furl_bytes. rewrite utf8_dec_utf8 by exact H. reflexivity. Qed.

Theorem decode_bytes_total : forall b,
  (exists t hs n, decode_furl_bytes b = Ok (t, hs, n)) \/ decode_furl_bytes b = Exc "BadFURLError" \/
  decode_furl_bytes b = Exc "ValueError" \/ decode_furl_bytes b = Exc "UnicodeDecodeError".
Proof.
  intros b. unfold decode_furl_bytes. destruct (utf8_dec b) as [s|]; [|auto].
  destruct (decode_total s) as [H|[H|H]]; auto.
Qed.

(* non-vacuity: a non-ASCII FURL as bytes; ill-formed bytes (overlong, surrogate, truncated, 0xFF) *)
Example decode_bytes_examples :
  decode_furl_bytes (utf8 (ENC_PREFIX ++ [97] ++ ENC_AT ++ [104] ++ ENC_SLASH ++ [233; 8364; 128512]))
    = Ok ([97], [[104]], [233; 8364; 128512]) /\
  map utf8_dec [[192; 175]; [237; 160; 128]; [226; 130]; [255]; [244; 144; 128; 128]; [224; 159; 191]] = [None; None; None; None; None; None].
Proof. vm_compute. split; reflexivity. Qed.

(* ================================================================== 9. ordering of SturdyRefs *)
Lemma list_eqb_false_sym a b : list_eqb a b = false -> list_eqb b a = false.
Proof.
  intros H. destruct (list_eqb b a) eqn:E; [|reflexivity]. apply list_eqb_eq in E. subst.
  rewrite (proj2 (list_eqb_eq a a) eq_refl) in H. discriminate.
Qed.

Lemma str_ltb_irrefl a : str_ltb a a = false.
Proof. induction a as [|x a IH]; [reflexivity|]. cbn [str_ltb]. rewrite Z.ltb_irrefl, Z.eqb_refl. exact IH. Qed.

Lemma str_ltb_trans : forall a b c, str_ltb a b = true -> str_ltb b c = true -> str_ltb a c = true.
Proof.
  induction a as [|x a IH]; intros b c Hab Hbc.
  - destruct b; [discriminate|]. destruct c; [discriminate|reflexivity].
  - destruct b as [|y b]; [discriminate|]. destruct c as [|z c]; [discriminate|].
    cbn [str_ltb] in *.
    destruct (Z.ltb_spec x y), (Z.ltb_spec y z), (Z.ltb_spec x z); try reflexivity; try lia;
      destruct (Z.eqb_spec x y), (Z.eqb_spec y z), (Z.eqb_spec x z); try discriminate; try lia.
    eapply IH; eauto.
Qed.

Lemma str_trichotomy : forall a b, (str_ltb a b = true /\ list_eqb a b = false /\ str_ltb b a = false) \/
                                   (str_ltb a b = false /\ a = b /\ str_ltb b a = false) \/
                                   (str_ltb a b = false /\ list_eqb a b = false /\ str_ltb b a = true).
Proof.
  induction a as [|x a IH]; intros [|y b].
  - right; left. auto.
  - left. auto.
  - right; right. auto.
  - cbn [str_ltb list_eqb]. destruct (Z.ltb_spec x y), (Z.ltb_spec y x); try lia.
    + left. try rewrite (proj2 (Z.eqb_neq x y)) by lia. try rewrite (proj2 (Z.eqb_neq y x)) by lia. auto.
    + right; right. try rewrite (proj2 (Z.eqb_neq x y)) by lia. try rewrite (proj2 (Z.eqb_neq y x)) by lia. auto.
    + assert (x = y) by lia. subst y. rewrite Z.eqb_refl. cbn [andb].
      destruct (IH b) as [(A & B & C)|[(A & B & C)|(A & B & C)]].
      * left. auto.
      * right; left. subst. auto.
      * right; right. auto.
Qed.

(* references that have a tub id and a name (everything built from a FURL): __lt__ never raises and is a strict total
   order that agrees with __eq__: exactly one of a < b, a == b, b < a *)
Definition full (a : sref) : Prop := (exists t, sr_tub a = Some t) /\ (exists n, sr_name a = Some n).

Theorem sturdy_lt_trichotomy : forall a b, full a -> full b ->
  exists x y, sref_ltb a b = Ok x /\ sref_ltb b a = Ok y /\
    ((x = true /\ sref_eqb a b = false /\ y = false) \/ (x = false /\ sref_eqb a b = true /\ y = false) \/
     (x = false /\ sref_eqb a b = false /\ y = true)).
Proof.
  intros a b [[ta Ha] [na Hna]] [[tb Hb] [nb Hnb]].
  unfold sref_ltb, sref_eqb, sturdyref_distinguishers. cbn [key_ltb forallb field_eqb field_val].
  rewrite Ha, Hb, Hna, Hnb. cbn [opt_str_eqb]. rewrite !andb_true_r.
  destruct (str_trichotomy ta tb) as [(A & B & C)|[(A & B & C)|(A & B & C)]].
  - rewrite B. rewrite (list_eqb_false_sym _ _ B). eexists; eexists; split; [reflexivity|split; [reflexivity|]]. left. cbn. auto.
  - subst tb. rewrite (proj2 (list_eqb_eq ta ta) eq_refl). cbn [andb].
    destruct (str_trichotomy na nb) as [(A' & B' & C')|[(A' & B' & C')|(A' & B' & C')]].
    + rewrite B', (list_eqb_false_sym _ _ B'). eexists; eexists; split; [reflexivity|split; [reflexivity|]]. left. auto.
    + subst nb. rewrite (proj2 (list_eqb_eq na na) eq_refl). eexists; eexists; split; [reflexivity|split; [reflexivity|]]. right; left. auto.
    + rewrite B', (list_eqb_false_sym _ _ B'). eexists; eexists; split; [reflexivity|split; [reflexivity|]]. right; right. auto.
  - rewrite B. rewrite (list_eqb_false_sym _ _ B). eexists; eexists; split; [reflexivity|split; [reflexivity|]]. right; right. cbn. auto.
Qed.

(* a reference without a tub id (SturdyRef() with no URL, or a received copy whose state lacks it) cannot be ordered
   against a complete one: Python's tuple comparison reaches `None < str` *)
Example sturdy_lt_incomplete :
  let a := {| sr_tub := None; sr_hints := []; sr_name := None; sr_url := None |} in
  let b := {| sr_tub := Some [97]; sr_hints := []; sr_name := Some [110]; sr_url := None |} in
  sref_ltb a b = Exc "TypeError" /\ sref_ltb a a = Ok false /\ sref_ltb b b = Ok false.
Proof. vm_compute. repeat split; reflexivity. Qed.

(* ================================================================== 10. which error for which input *)
(* decode_furl has TWO error classes (BadFURLError is not a ValueError): ValueError("unknown FURL prefix") exactly for the
   strings in which the pattern finds no FURL at all, BadFURLError exactly for those in which it finds one whose tub id is
   not base32 or one of whose hints is empty *)
Theorem decode_error_classes : forall s,
  (decode_furl s = Exc "ValueError" <-> re_apply AUTH_STURDYREF_RE AUTH_STURDYREF_RE_method s = None) /\
  (decode_furl s = Exc "BadFURLError" <->
   exists c, re_apply AUTH_STURDYREF_RE AUTH_STURDYREF_RE_method s = Some c /\
     (is_base32 (firstn TUBID_CUT (group_or_nil 1 c)) = false \/
      existsb str_is_nil (let hs := split_on HINT_SEP (group_or_nil 2 c) in match hs with [[]] => [] | _ => hs end) = true)).
Proof.
  intros s. unfold decode_furl.
  destruct (re_apply AUTH_STURDYREF_RE AUTH_STURDYREF_RE_method s) as [c|].
  - destruct (is_base32 (firstn TUBID_CUT (group_or_nil 1 c))) eqn:B; cbn [negb].
    + match goal with |- context [existsb str_is_nil ?h] => destruct (existsb str_is_nil h) eqn:X end.
      * split; [split; intros H; discriminate|]. split; [intros _; exists c; auto|reflexivity].
      * split; [split; intros H; discriminate|]. split; [intros H; discriminate|].
        intros (c' & Hc & [H|H]); inversion Hc; subst c'; cbn zeta in *; congruence.
    + split; [split; intros H; discriminate|]. split; [intros _; exists c; auto|reflexivity].
  - split; [split; reflexivity|]. split; [intros H; discriminate|]. intros (c & Hc & _). discriminate.
Qed.

(* "or raises the documented bad-FURL error" read strictly (BadFURLError only) is REFUTED: a string without the
   scheme gets ValueError (the behaviour upstream tests: test_sturdyref asserts ValueError for 'pb://TUBID/name', and
   Tub.getConnectionInfoForFURL catches (ValueError, BadFURLError)) *)
Theorem decode_strict_refuted : exists s, decode_furl s = Exc "ValueError".
Proof. exists [112; 98; 58; 47; 47; 97; 47; 110]. vm_compute. reflexivity. Qed.     (* "pb://a/n" *)

(* ================================================================== 11. the connector theorems over the translated facts *)
Theorem no_stall_translated : forall evs,
  waiters (cstep connector_stored_before_connect CONNECTION_TIMEOUT
             (crun connector_stored_before_connect CONNECTION_TIMEOUT evs) (Advance CONNECTION_TIMEOUT)) = [].
Proof. intros evs. apply (no_stall CONNECTION_TIMEOUT evs). discriminate. Qed.

Theorem attempt_starts_translated : forall evs t,
  let s := crun connector_stored_before_connect CONNECTION_TIMEOUT evs in
  ~ (exists dl, In (t, dl) (live s)) ->
  In (next s) (started (cstep connector_stored_before_connect CONNECTION_TIMEOUT s (GetRef t true))).
Proof. intros evs t s H. apply (attempt_starts CONNECTION_TIMEOUT evs t); [discriminate | exact H]. Qed.
