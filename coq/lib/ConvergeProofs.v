(* C14: lemmas and theorems about gen/ConvergeGen.v (translated decision function) and lib/Converge.v *)
From Coq Require Import ZArith List Bool Arith Lia.
Import ListNotations.
Require Import Verif.lib.PyLite Verif.gen.ConvergeGen Verif.lib.Converge.

(* ------------------------------------------------------------------------------------------ *)
(* 1. the translated compareOfferAndExisting                                                   *)

Local Open Scope Z_scope.

(* same peer incarnation, and the offer does not know the existing connection: it carries "none" or an
   older seqnum of this master incarnation -> rejected (a redundant attempt does not displace) *)
Lemma compare_same_incarnation_older_or_none inc last_ir last_seq e_seq my_ir ho age :
  (last_ir = IR_NONE \/ (last_ir = my_ir /\ last_seq < e_seq)) ->
  compare_offer (Some inc) (Some (last_ir, last_seq)) (Some inc) e_seq my_ir ho age = Ok false.
Proof.
  intros H. unfold compare_offer. cbn [is_some is_some_last negb orb optZ_eqb].
  rewrite Z.eqb_refl. cbn [negb].
  destruct H as [->|[-> Hlt]].
  - rewrite Z.eqb_refl. reflexivity.
  - destruct (Z.eqb_spec my_ir IR_NONE); [reflexivity|]. rewrite Z.eqb_refl. cbn [negb].
    destruct (Z.eqb_spec last_seq e_seq); [lia|].
    destruct (Z.ltb_spec last_seq e_seq); reflexivity.
Qed.

(* an offer from a different incarnation of the peer (it restarted) is accepted *)
Lemma compare_new_incarnation inc last e_ir e_seq my_ir ho age :
  e_ir <> Some inc ->
  compare_offer (Some inc) (Some last) e_ir e_seq my_ir ho age = Ok true.
Proof.
  intros H. unfold compare_offer. cbn [is_some is_some_last negb orb].
  destruct e_ir as [e|]; cbn [optZ_eqb]; [|reflexivity].
  destruct (Z.eqb_spec inc e); [subst; congruence|reflexivity].
Qed.

(* the offer proves the peer knows exactly the existing connection and dialled anyway: accepted *)
Lemma compare_equal_seqnum inc e_seq my_ir ho age :
  my_ir <> IR_NONE ->
  compare_offer (Some inc) (Some (my_ir, e_seq)) (Some inc) e_seq my_ir ho age = Ok true.
Proof.
  intros H. unfold compare_offer. cbn [is_some is_some_last negb orb optZ_eqb]. rewrite Z.eqb_refl. cbn [negb].
  destruct (Z.eqb_spec my_ir IR_NONE); [contradiction|]. rewrite !Z.eqb_refl. reflexivity.
Qed.

(* a seqnum from the future is refused *)
Lemma compare_greater_seqnum inc last_seq e_seq my_ir ho age :
  e_seq < last_seq ->
  compare_offer (Some inc) (Some (my_ir, last_seq)) (Some inc) e_seq my_ir ho age = Ok false.
Proof.
  intros H. unfold compare_offer. cbn [is_some is_some_last negb orb optZ_eqb]. rewrite Z.eqb_refl. cbn [negb].
  destruct (Z.eqb_spec my_ir IR_NONE); [reflexivity|]. rewrite Z.eqb_refl. cbn [negb].
  destruct (Z.eqb_spec last_seq e_seq); [lia|]. destruct (Z.ltb_spec last_seq e_seq); reflexivity.
Qed.

(* pre-0.2.0 peers (no my-incarnation or no last-connection): refused, unless handle-old is configured,
   in which case exactly the age of the existing connection decides *)
Lemma compare_old_peer o_inc o_last e_ir e_seq my_ir age :
  o_inc = None \/ o_last = None ->
  compare_offer o_inc o_last e_ir e_seq my_ir None age = Ok false /\
  forall thr, compare_offer o_inc o_last e_ir e_seq my_ir (Some thr) age = Ok (negb (age <? thr)).
Proof.
  intros H. unfold compare_offer, handle_old_fn.
  assert (E : (negb (is_some o_inc) || negb (is_some_last o_last))%bool = true).
  { destruct H as [->| ->]; cbn; [reflexivity|apply orb_true_r]. }
  rewrite E. cbn [is_some]. split; [reflexivity|]. intros thr. destruct (age <? thr); reflexivity.
Qed.

(* the statement "a redundant attempt of the same incarnation never displaces" is FALSE for the code:
   an offer that remembers a past life of the master is accepted although it knows nothing of the
   existing connection (parallel hints after a master restart). *)
Lemma compare_same_incarnation_past_life_accepted :
  exists inc last_ir last_seq e_seq my_ir,
    last_ir <> my_ir /\ compare_offer (Some inc) (Some (last_ir, last_seq)) (Some inc) e_seq my_ir None 0 = Ok true.
Proof. exists 1, 1, 1, 1, 2. split; [lia|reflexivity]. Qed.

(* complete case analysis of the decision for modern peers (total: never raises) *)
Lemma compare_total inc last_ir last_seq e_ir e_seq my_ir ho age :
  compare_offer (Some inc) (Some (last_ir, last_seq)) e_ir e_seq my_ir ho age =
  Ok (negb (optZ_eqb (Some inc) e_ir) ||
      (negb (last_ir =? IR_NONE) && (negb (last_ir =? my_ir) || (last_seq =? e_seq))))%bool.
Proof.
  unfold compare_offer. cbn [is_some is_some_last negb orb].
  destruct (optZ_eqb (Some inc) e_ir); cbn [negb orb]; [|reflexivity].
  destruct (last_ir =? IR_NONE); cbn [negb andb]; [reflexivity|].
  destruct (last_ir =? my_ir); cbn [negb orb]; [|reflexivity].
  destruct (last_seq =? e_seq); [reflexivity|]. destruct (last_seq <? e_seq); reflexivity.
Qed.

Local Close Scope Z_scope.

(* ------------------------------------------------------------------------------------------ *)
(* 2. per-connection invariant                                                                 *)

Definition goodp (pm ps : Prop) (k : conn) : Prop :=
  (pm <-> c_m k = EBrk) /\
  (ps <-> c_s k = EBrk) /\
  (c_s k = EBrk -> c_m k <> ENeg) /\
  (has_dec (c_qms k) = true -> c_m k <> ENeg) /\
  (c_m k = EBrk -> negotiating (c_s k) = true -> c_cut k = true \/ has_dec (c_qms k) = true) /\
  (closed (c_m k) = true -> c_cut k = true \/ closed (c_s k) = true \/ has_fin (c_qms k) = true) /\
  (closed (c_s k) = true -> c_cut k = true \/ closed (c_m k) = true \/ has_fin (c_qsm k) = true) /\
  (has_fin (c_qms k) = true -> closed (c_m k) = true) /\
  (has_fin (c_qsm k) = true -> closed (c_s k) = true) /\
  c_m k <> EDec.

Lemma hf_app q m : has_fin (q ++ [m]) = (has_fin q || is_fin m)%bool.
Proof. unfold has_fin. rewrite existsb_app. cbn. rewrite orb_false_r. reflexivity. Qed.
Lemma hd_app q m : has_dec (q ++ [m]) = (has_dec q || is_dec m)%bool.
Proof. unfold has_dec. rewrite existsb_app. cbn. rewrite orb_false_r. reflexivity. Qed.
Lemma hf_cons m q : has_fin (m :: q) = (is_fin m || has_fin q)%bool.
Proof. reflexivity. Qed.
Lemma hd_cons m q : has_dec (m :: q) = (is_dec m || has_dec q)%bool.
Proof. reflexivity. Qed.
Lemma hf_tl q : has_fin (tl q) = true -> has_fin q = true.
Proof. destruct q as [|m q]; cbn [tl]; [auto|]. rewrite hf_cons. intros ->. apply orb_true_r. Qed.
Lemma hd_tl q : has_dec (tl q) = true -> has_dec q = true.
Proof. destruct q as [|m q]; cbn [tl]; [auto|]. rewrite hd_cons. intros ->. apply orb_true_r. Qed.

Ltac bools :=
  repeat match goal with
  | H : (_ || _)%bool = true |- _ => apply orb_true_iff in H
  | |- (_ || _)%bool = true => apply orb_true_iff
  end.

Ltac fin := cbn in *; rewrite ?hf_app, ?hd_app, ?orb_true_r, ?orb_false_r in *; cbn in *;
            intuition (try congruence; try discriminate).

Lemma goodp_iff pm ps pm' ps' k : (pm <-> pm') -> (ps <-> ps') -> goodp pm ps k -> goodp pm' ps' k.
Proof. unfold goodp. intuition. Qed.

Lemma goodp_dead : goodp False False dead_conn.
Proof. unfold goodp, dead_conn. fin. Qed.

(* loseConnection on a negotiating end *)
Lemma goodp_lose_neg pm ps x k : negotiating (cend x k) = true -> goodp pm ps k -> goodp pm ps (lose x k).
Proof.
  destruct k as [cl g m s qms qsm cut]. unfold goodp, lose, enq.
  destruct x; cbn [cend c_m c_s]; intros Hn.
  - destruct m; try discriminate Hn; destruct cut; fin.
  - destruct s; try discriminate Hn; destruct cut; fin.
Qed.

Lemma goodp_cancel pm ps x g k : goodp pm ps k -> goodp pm ps (cancel x g k).
Proof.
  intros H. unfold cancel.
  destruct (tub_eqb (c_client k) x && Nat.eqb (c_gen k) g && negotiating (cend x k))%bool eqn:E; [|exact H].
  apply andb_true_iff in E as [_ E]. apply goodp_lose_neg; assumption.
Qed.

(* Broker.shutdown of the live broker *)
Lemma goodp_lose_brk_m pm ps k : c_m k = EBrk -> goodp pm ps k -> goodp False ps (lose TM k).
Proof.
  destruct k as [cl g m s qms qsm cut]. unfold goodp, lose, enq. cbn [cend c_m c_s]. intros ->. destruct cut; fin.
Qed.
Lemma goodp_lose_brk_s pm ps k : c_s k = EBrk -> goodp pm ps k -> goodp pm False (lose TS k).
Proof.
  destruct k as [cl g m s qms qsm cut]. unfold goodp, lose, enq. cbn [cend c_m c_s]. intros ->. destruct cut; fin.
Qed.

(* a block is taken off a queue *)
Lemma goodp_pop_sm pm ps k :
  (exists m q, c_qsm k = m :: q /\ (is_fin m = false \/ closed (c_m k) = true)) -> goodp pm ps k -> goodp pm ps (pop_sm k).
Proof.
  destruct k as [cl g m s qms qsm cut]. unfold goodp, pop_sm. cbn.
  intros (m0 & q & -> & Hm). cbn [tl]. rewrite hf_cons.
  destruct Hm as [-> | Hc]; cbn [orb]; [intuition|].
  intuition.
Qed.

Lemma goodp_pop_ms_closed pm ps k : closed (c_s k) = true -> goodp pm ps k -> goodp pm ps (pop_ms k).
Proof.
  destruct k as [cl g m s qms qsm cut]. unfold goodp, pop_ms. cbn. intros Hc.
  pose proof (hf_tl qms). pose proof (hd_tl qms).
  assert (Hb : s <> EBrk) by (destruct s; discriminate).
  assert (Hg : negotiating s = false) by (destruct s; try discriminate; reflexivity).
  rewrite Hc, Hg. intuition (try congruence; try discriminate).
Qed.

Lemma goodp_pop_ms_idle pm ps k :
  (exists m q, c_qms k = m :: q /\ is_fin m = false) -> negotiating (c_s k) = false -> goodp pm ps k -> goodp pm ps (pop_ms k).
Proof.
  destruct k as [cl g m s qms qsm cut]. unfold goodp, pop_ms. cbn. intros (m0 & q & -> & Hm) Hg. cbn [tl].
  rewrite hf_cons, hd_cons, Hm, Hg. cbn [orb]. pose proof (orb_true_r (is_dec m0)).
  intuition (try congruence; try discriminate).
  destruct (is_dec m0); cbn in *; auto.
Qed.

(* FIN delivered: connectionLost at the receiving end *)
Lemma goodp_lost_fin_m pm ps k q : c_qsm k = Fin :: q -> goodp pm ps k -> goodp False ps (set_end TM ELost (pop_sm k)).
Proof.
  destruct k as [cl g m s qms qsm cut]. unfold goodp, pop_sm, set_end. cbn. intros ->. cbn.
  intuition (try congruence; try discriminate).
Qed.
Lemma goodp_lost_fin_s pm ps k q : c_qms k = Fin :: q -> goodp pm ps k -> goodp pm False (set_end TS ELost (pop_ms k)).
Proof.
  destruct k as [cl g m s qms qsm cut]. unfold goodp, pop_ms, set_end. cbn. intros ->. cbn.
  pose proof (hd_tl (Fin :: q)). cbn [tl] in *.
  intuition (try congruence; try discriminate).
Qed.

(* connectionLost after a local close or a cut *)
Lemma goodp_lost_pending_m pm ps k : close_pending TM k = true -> goodp pm ps k -> goodp False ps (set_end TM ELost k).
Proof.
  destruct k as [cl g m s qms qsm cut]. unfold goodp, close_pending, set_end. cbn.
  destruct m; cbn; intros Hp; try discriminate Hp; subst; intuition (try congruence; try discriminate).
Qed.
Lemma goodp_lost_pending_s pm ps k : close_pending TS k = true -> goodp pm ps k -> goodp pm False (set_end TS ELost k).
Proof.
  destruct k as [cl g m s qms qsm cut]. unfold goodp, close_pending, set_end. cbn.
  destruct s; cbn; intros Hp; try discriminate Hp; subst; intuition (try congruence; try discriminate).
Qed.

(* master accepts / rejects *)
Lemma goodp_accept_m pm ps k a b : c_m k = ENeg -> goodp pm ps k -> goodp True ps (set_end TM EBrk (enq TM (Decision a b) k)).
Proof.
  destruct k as [cl g m s qms qsm cut]. unfold goodp, set_end, enq. cbn. intros ->. destruct cut; fin.
Qed.
Lemma goodp_reject_m pm ps k : c_m k = ENeg -> goodp pm ps k -> goodp pm ps (lose TM (enq TM ErrorBlk k)).
Proof.
  destruct k as [cl g m s qms qsm cut]. unfold goodp, lose, set_end, enq. cbn. intros ->. destruct cut; fin.
Qed.

(* non-master end *)
Lemma goodp_hello_s pm ps k a b q :
  c_qms k = Hello a b :: q -> c_s k = ENeg -> goodp pm ps k -> goodp pm ps (set_end TS EDec (pop_ms k)).
Proof.
  destruct k as [cl g m s qms qsm cut]. unfold goodp, set_end, pop_ms. cbn. intros -> ->. cbn.
  intuition (try congruence; try discriminate).
Qed.
Lemma goodp_dec_s pm ps k a b q :
  c_qms k = Decision a b :: q -> c_s k = EDec -> goodp pm ps k -> goodp pm True (set_end TS EBrk (pop_ms k)).
Proof.
  destruct k as [cl g m s qms qsm cut]. unfold goodp, set_end, pop_ms. cbn. intros -> ->. cbn.
  intuition (try congruence; try discriminate).
Qed.
Lemma goodp_lose_pop_s pm ps k : negotiating (c_s k) = true -> goodp pm ps k -> goodp pm ps (lose TS (pop_ms k)).
Proof.
  destruct k as [cl g m s qms qsm cut]. unfold goodp, lose, set_end, enq, pop_ms. cbn.
  pose proof (hf_tl qms). pose proof (hd_tl qms).
  intros Hn; destruct s; try discriminate Hn; destruct cut; fin.
Qed.
Lemma goodp_lose_pop_m pm ps k :
  (exists m q, c_qsm k = m :: q /\ is_fin m = false) -> c_m k = ENeg -> goodp pm ps k -> goodp pm ps (lose TM (pop_sm k)).
Proof.
  intros (m & q & E & Hm) Hn H. apply goodp_lose_neg.
  - destruct k; cbn in *. rewrite Hn. reflexivity.
  - apply goodp_pop_sm; [|exact H]. exists m, q. auto.
Qed.

Lemma goodp_cut pm ps k : goodp pm ps k -> goodp pm ps (cut_conn k).
Proof. destruct k as [cl g m s qms qsm cut]. unfold goodp, cut_conn. cbn. intuition (try congruence; try discriminate). Qed.
Lemma goodp_kill_m pm ps k : goodp pm ps k -> goodp False ps (kill TM k).
Proof. destruct k as [cl g m s qms qsm cut]. unfold goodp, kill, cut_conn, set_end. cbn. intuition (try congruence; try discriminate). Qed.
Lemma goodp_kill_s pm ps k : goodp pm ps k -> goodp pm False (kill TS k).
Proof. destruct k as [cl g m s qms qsm cut]. unfold goodp, kill, cut_conn, set_end. cbn. intuition (try congruence; try discriminate). Qed.
Lemma goodp_fresh x g a b a' b' : goodp False False (mkconn x g ENeg ENeg [Hello a b] [Hello a' b'] false).
Proof. unfold goodp. cbn. intuition (try congruence; try discriminate). Qed.

(* ------------------------------------------------------------------------------------------ *)
(* 3. the invariant on states                                                                  *)

Definition invb (bm bs : option nat) (f : nat -> conn) : Prop :=
  forall i, goodp (bm = Some i) (bs = Some i) (f i).
Definition bounded (s : state) : Prop :=
  (forall c, t_broker (tm s) = Some c -> c < nconn s) /\ (forall c, t_broker (ts s) = Some c -> c < nconn s).
Definition inv (s : state) : Prop := invb (t_broker (tm s)) (t_broker (ts s)) (conns s) /\ bounded s.

Lemma invb_upd bm bs f c k' : invb bm bs f -> goodp (bm = Some c) (bs = Some c) k' -> invb bm bs (upd f c k').
Proof. intros H Hk i. unfold upd. destruct (Nat.eqb_spec i c); [subst; exact Hk|apply H]. Qed.

Lemma invb_map bm bs f g :
  invb bm bs f -> (forall pm ps k, goodp pm ps k -> goodp pm ps (g k)) -> invb bm bs (fun i => g (f i)).
Proof. intros H Hg i. apply Hg, H. Qed.

Lemma invb_clear_m bs f e k' : invb (Some e) bs f -> goodp False (bs = Some e) k' -> invb None bs (upd f e k').
Proof.
  intros H Hk i. unfold upd. destruct (Nat.eqb_spec i e).
  - subst. eapply goodp_iff; [| |exact Hk]; intuition discriminate.
  - eapply goodp_iff; [| |apply (H i)]; [|reflexivity]. split; [intros E; inversion E; congruence|discriminate].
Qed.
Lemma invb_clear_s bm f e k' : invb bm (Some e) f -> goodp (bm = Some e) False k' -> invb bm None (upd f e k').
Proof.
  intros H Hk i. unfold upd. destruct (Nat.eqb_spec i e).
  - subst. eapply goodp_iff; [| |exact Hk]; intuition discriminate.
  - eapply goodp_iff; [| |apply (H i)]; [reflexivity|]. split; [intros E; inversion E; congruence|discriminate].
Qed.
Lemma invb_set_m bs f c k' : invb None bs f -> goodp True (bs = Some c) k' -> invb (Some c) bs (upd f c k').
Proof.
  intros H Hk i. unfold upd. destruct (Nat.eqb_spec i c).
  - subst. eapply goodp_iff; [| |exact Hk]; intuition.
  - eapply goodp_iff; [| |apply (H i)]; [|reflexivity]. split; [discriminate|intros E; inversion E; congruence].
Qed.
Lemma invb_set_s bm f c k' : invb bm None f -> goodp (bm = Some c) True k' -> invb bm (Some c) (upd f c k').
Proof.
  intros H Hk i. unfold upd. destruct (Nat.eqb_spec i c).
  - subst. eapply goodp_iff; [| |exact Hk]; intuition.
  - eapply goodp_iff; [| |apply (H i)]; [reflexivity|]. split; [discriminate|intros E; inversion E; congruence].
Qed.

Lemma upd_same f c k : upd f c k c = k.
Proof. unfold upd. rewrite Nat.eqb_refl. reflexivity. Qed.
Lemma upd_other f c k i : i <> c -> upd f c k i = f i.
Proof. unfold upd. intros H. destruct (Nat.eqb_spec i c); [contradiction|reflexivity]. Qed.

Lemma init_inv : inv init.
Proof.
  split; [|split; cbn; discriminate]. intros i. cbn. eapply goodp_iff; [| |exact goodp_dead]; intuition discriminate.
Qed.

Lemma inv_same s s' :
  t_broker (tm s') = t_broker (tm s) -> t_broker (ts s') = t_broker (ts s) -> conns s' = conns s -> nconn s' = nconn s ->
  inv s -> inv s'.
Proof. unfold inv, bounded. intros -> -> -> ->. auto. Qed.

Lemma broker_connector_gone t : t_broker (connector_gone t) = t_broker t.
Proof.
  destruct t as [a b c d e f g h i j k r]. unfold connector_gone, connection_failed_forgets_first, errback_all. cbn.
  destruct b; [reflexivity|]. cbn. destruct (r && negb (Nat.eqb i 0))%bool; reflexivity.
Qed.

Lemma set_tub_inv x t s : t_broker t = t_broker (tubof x s) -> inv s -> inv (set_tub x t s).
Proof. intros E. apply inv_same; destruct x; cbn; auto. Qed.

Lemma connector_failed_inv x g s : inv s -> inv (connector_failed x g s).
Proof.
  intros H. unfold connector_failed. destruct (t_connector (tubof x s)); [|exact H].
  destruct (Nat.eqb g n && negb (any_pending x g s))%bool; [|exact H].
  apply set_tub_inv; [apply broker_connector_gone|exact H].
Qed.

Lemma broker_getref_tub t : t_broker (getref_tub t) = t_broker t.
Proof. unfold getref_tub. destruct (t_broker t) eqn:E; [cbn; auto|]. destruct (t_connector t); cbn; auto. Qed.

Lemma getref_inv x s : inv s -> inv (do_getref x s).
Proof. intros H. unfold do_getref. apply set_tub_inv; [apply broker_getref_tub|exact H]. Qed.

Lemma dial_inv x s : inv s -> inv (do_dial x s).
Proof.
  intros [Hb [Hm Hs]]. unfold do_dial. destruct (t_connector (tubof x s)); [|split; [exact Hb|split; assumption]].
  split; cbn [tm ts conns nconn].
  - apply invb_upd; [exact Hb|]. eapply goodp_iff; [| |apply goodp_fresh].
    + split; [tauto|]. intros E. apply Hm in E. lia.
    + split; [tauto|]. intros E. apply Hs in E. lia.
  - split; cbn [tm ts nconn]; intros c E; [apply Hm in E|apply Hs in E]; lia.
Qed.

Lemma cut_inv c s : inv s -> inv (do_cut c s).
Proof.
  intros [Hb Hbd]. split; [|exact Hbd]. cbn [do_cut set_conns tm ts conns].
  apply invb_upd; [exact Hb|]. apply goodp_cut. apply Hb.
Qed.

Lemma restart_inv x s : inv s -> inv (do_restart x s).
Proof.
  intros [Hb [Hm Hs]]. unfold do_restart. destruct x; cbn [set_tub map_conns set_conns tubof tm ts conns nconn].
  - split; [|split; cbn; [discriminate|exact Hs]]. cbn [new_tub t_broker]. intros i.
    eapply goodp_iff; [| |eapply goodp_kill_m; apply (Hb i)]; [|reflexivity]. intuition discriminate.
  - split; [|split; cbn; [exact Hm|discriminate]]. cbn [new_tub t_broker]. intros i.
    eapply goodp_iff; [| |eapply goodp_kill_s; apply (Hb i)]; [reflexivity|]. intuition discriminate.
Qed.

Lemma map_cancel_inv x g s : inv s -> inv (map_conns (cancel x g) s).
Proof.
  intros [Hb Hbd]. split; [|exact Hbd]. cbn [map_conns set_conns tm ts conns].
  apply invb_map; [exact Hb|]. intros pm ps k. apply goodp_cancel.
Qed.

Lemma timeout_inv x s : inv s -> inv (do_timeout x s).
Proof.
  intros H. unfold do_timeout. destruct (t_connector (tubof x s)); [|exact H].
  apply set_tub_inv; [apply broker_connector_gone|]. apply map_cancel_inv, H.
Qed.

(* connectionLost at one end *)
Lemma conn_lost_inv_m c pre s :
  inv s -> cend TM (pre (conns s c)) = c_m (conns s c) ->
  goodp False (t_broker (ts s) = Some c) (set_end TM ELost (pre (conns s c))) ->
  inv (conn_lost TM c pre s).
Proof.
  intros [Hb Hbd] He Hg. unfold conn_lost.
  pose proof (Hb c) as Hc. destruct Hc as [Hc1 _].
  set (s1 := set_conns (upd (conns s) c (set_end TM ELost (pre (conns s c)))) s).
  assert (Hnb : c_m (conns s c) <> EBrk -> inv s1).
  { intros Hne. split; [|exact Hbd]. cbn [s1 set_conns tm ts conns]. apply invb_upd; [exact Hb|].
    eapply goodp_iff; [| |exact Hg]; [|reflexivity]. split; [tauto|]. intros E. apply Hne, Hc1, E. }
  rewrite He. destruct (c_m (conns s c)) eqn:Em;
    try (apply Hnb; discriminate);
    try (destruct (tub_eqb (c_client (pre (conns s c))) TM); [apply connector_failed_inv|]; apply Hnb; discriminate).
  (* EBrk: the live broker is detached *)
  assert (Eb : t_broker (tm s) = Some c) by (apply Hc1; reflexivity).
  cbn [tubof s1 set_conns tm]. rewrite Eb, Nat.eqb_refl.
  destruct Hbd as [Hm Hs]. split; [|split; cbn; [discriminate|exact Hs]].
  cbn [set_tub set_conns tm ts conns set_broker t_broker]. apply invb_clear_m; [rewrite <- Eb; exact Hb|exact Hg].
Qed.

Lemma conn_lost_inv_s c pre s :
  inv s -> cend TS (pre (conns s c)) = c_s (conns s c) ->
  goodp (t_broker (tm s) = Some c) False (set_end TS ELost (pre (conns s c))) ->
  inv (conn_lost TS c pre s).
Proof.
  intros [Hb Hbd] He Hg. unfold conn_lost.
  pose proof (Hb c) as Hc. destruct Hc as [_ [Hc1 _]].
  set (s1 := set_conns (upd (conns s) c (set_end TS ELost (pre (conns s c)))) s).
  assert (Hnb : c_s (conns s c) <> EBrk -> inv s1).
  { intros Hne. split; [|exact Hbd]. cbn [s1 set_conns tm ts conns]. apply invb_upd; [exact Hb|].
    eapply goodp_iff; [| |exact Hg]; [reflexivity|]. split; [tauto|]. intros E. apply Hne, Hc1, E. }
  rewrite He. destruct (c_s (conns s c)) eqn:Em;
    try (apply Hnb; discriminate);
    try (destruct (tub_eqb (c_client (pre (conns s c))) TS); [apply connector_failed_inv|]; apply Hnb; discriminate).
  assert (Eb : t_broker (ts s) = Some c) by (apply Hc1; reflexivity).
  cbn [tubof s1 set_conns ts]. rewrite Eb, Nat.eqb_refl.
  destruct Hbd as [Hm Hs]. split; [|split; cbn; [exact Hm|discriminate]].
  cbn [set_tub set_conns tm ts conns set_broker t_broker]. apply invb_clear_s; [rewrite <- Eb; exact Hb|exact Hg].
Qed.

Lemma closeseen_inv c x s : inv s -> inv (do_closeseen c x s).
Proof.
  intros H. unfold do_closeseen. destruct (close_pending x (conns s c)) eqn:E; [|exact H].
  destruct x.
  - apply conn_lost_inv_m; [exact H|reflexivity|]. eapply goodp_lost_pending_m; [exact E|apply (proj1 H)].
  - apply conn_lost_inv_s; [exact H|reflexivity|]. eapply goodp_lost_pending_s; [exact E|apply (proj1 H)].
Qed.

(* brokerAttached *)
Lemma attach_inv_m c s :
  invb (Some c) (t_broker (ts s)) (conns s) -> c < nconn s -> (forall c', t_broker (ts s) = Some c' -> c' < nconn s) ->
  inv (attach TM c s).
Proof.
  intros Hb Hc Hs. unfold attach.
  assert (G : forall g, invb (Some c) (t_broker (ts s)) (conns (map_conns (cancel TM g) s))).
  { intros g. cbn [map_conns set_conns conns]. apply invb_map; [exact Hb|]. intros pm ps k. apply goodp_cancel. }
  destruct (tub_eqb (c_client (conns s c)) TM).
  - split; [apply G|]. split; cbn; [intros c' E; inversion E; subst; exact Hc|exact Hs].
  - destruct (t_connector (tubof TM s)).
    + split; [apply G|]. split; cbn; [intros c' E; inversion E; subst; exact Hc|exact Hs].
    + split; [exact Hb|]. split; cbn; [intros c' E; inversion E; subst; exact Hc|exact Hs].
Qed.

Lemma attach_inv_s c s :
  invb (t_broker (tm s)) (Some c) (conns s) -> c < nconn s -> (forall c', t_broker (tm s) = Some c' -> c' < nconn s) ->
  inv (attach TS c s).
Proof.
  intros Hb Hc Hs. unfold attach.
  assert (G : forall g, invb (t_broker (tm s)) (Some c) (conns (map_conns (cancel TS g) s))).
  { intros g. cbn [map_conns set_conns conns]. apply invb_map; [exact Hb|]. intros pm ps k. apply goodp_cancel. }
  destruct (tub_eqb (c_client (conns s c)) TS).
  - split; [apply G|]. split; cbn; [exact Hs|intros c' E; inversion E; subst; exact Hc].
  - destruct (t_connector (tubof TS s)).
    + split; [apply G|]. split; cbn; [exact Hs|intros c' E; inversion E; subst; exact Hc].
    + split; [exact Hb|]. split; cbn; [exact Hs|intros c' E; inversion E; subst; exact Hc].
Qed.

(* Broker.shutdown of the existing connection *)
Lemma drop_existing_m s :
  inv s ->
  let s' := drop_existing TM s in
  invb None (t_broker (ts s)) (conns s') /\ t_broker (tm s') = None /\ ts s' = ts s /\ nconn s' = nconn s /\
  t_inc (tm s') = t_inc (tm s) /\
  (forall j, c_m (conns s j) <> EBrk -> conns s' j = conns s j).
Proof.
  intros [Hb Hbd]. unfold drop_existing. cbn [tubof]. destruct (t_broker (tm s)) as [e|] eqn:E.
  - cbn [set_tub set_conns tm ts conns nconn set_broker t_broker t_inc].
    assert (Em : c_m (conns s e) = EBrk) by (apply (Hb e); reflexivity).
    split; [|split; [reflexivity|split; [reflexivity|split; [reflexivity|split; [reflexivity|]]]]].
    + apply invb_clear_m; [exact Hb|]. eapply goodp_lose_brk_m; [exact Em|apply Hb].
    + intros j Hj. apply upd_other. intros ->. contradiction.
  - rewrite E. split; [exact Hb|]. repeat split; auto.
Qed.

Lemma drop_existing_s s :
  inv s ->
  let s' := drop_existing TS s in
  invb (t_broker (tm s)) None (conns s') /\ t_broker (ts s') = None /\ tm s' = tm s /\ nconn s' = nconn s /\
  (forall j, c_s (conns s j) <> EBrk -> conns s' j = conns s j).
Proof.
  intros [Hb Hbd]. unfold drop_existing. cbn [tubof]. destruct (t_broker (ts s)) as [e|] eqn:E.
  - cbn [set_tub set_conns tm ts conns nconn set_broker t_broker].
    assert (Em : c_s (conns s e) = EBrk) by (apply (Hb e); reflexivity).
    split; [|split; [reflexivity|split; [reflexivity|split; [reflexivity|]]]].
    + apply invb_clear_s; [exact Hb|]. eapply goodp_lose_brk_s; [exact Em|apply Hb].
    + intros j Hj. apply upd_other. intros ->. contradiction.
  - rewrite E. split; [exact Hb|]. repeat split; auto.
Qed.

Lemma master_accept_inv c inc s :
  invb None (t_broker (ts s)) (conns s) -> (forall c', t_broker (ts s) = Some c' -> c' < nconn s) -> c < nconn s ->
  c_m (conns s c) = ENeg -> inv (master_accept c inc s).
Proof.
  intros Hb Hs Hc Em. unfold master_accept. apply attach_inv_m; cbn [tm ts conns nconn]; [|exact Hc|exact Hs].
  apply invb_set_m; [exact Hb|]. eapply goodp_accept_m; [exact Em|apply Hb].
Qed.

Lemma pop_sm_inv c s m q :
  inv s -> c_qsm (conns s c) = m :: q -> (is_fin m = false \/ closed (c_m (conns s c)) = true) ->
  inv (set_conns (upd (conns s) c (pop_sm (conns s c))) s).
Proof.
  intros [Hb Hbd] Eq Hm. split; [|exact Hbd]. cbn [set_conns tm ts conns]. apply invb_upd; [exact Hb|].
  apply goodp_pop_sm; [exists m, q; auto|apply Hb].
Qed.

Lemma deliver_m_inv c s : c < nconn s -> inv s -> inv (deliver_m c s).
Proof.
  intros Hc H. unfold deliver_m. destruct (c_qsm (conns s c)) as [|m q] eqn:Eq; [exact H|].
  set (s0 := set_conns (upd (conns s) c (pop_sm (conns s c))) s).
  assert (H0 : is_fin m = false \/ closed (c_m (conns s c)) = true -> inv s0) by (apply pop_sm_inv with (q := q); assumption).
  assert (Hl : is_fin m = false -> c_m (conns s c) = ENeg -> inv (set_conns (upd (conns s) c (lose TM (pop_sm (conns s c)))) s)).
  { intros Hm Em. destruct H as [Hb Hbd]. split; [|exact Hbd]. cbn [set_conns tm ts conns]. apply invb_upd; [exact Hb|].
    apply goodp_lose_pop_m; [exists m, q; auto|exact Em|apply Hb]. }
  destruct m as [inc last|a b| |].
  - (* Hello *)
    specialize (H0 (or_introl eq_refl)).
    destruct (c_m (conns s c)) eqn:Em; try exact H0.
    assert (Em0 : c_m (conns s0 c) = ENeg) by (cbn [s0 set_conns conns]; rewrite upd_same; destruct (conns s c); cbn in *; exact Em).
    destruct H0 as [Hb0 [Hm0 Hs0]].
    destruct (t_broker (tm s0)) as [e|] eqn:Eb.
    + assert (I0 : inv s0) by (split; [rewrite Eb; exact Hb0|split; [rewrite Eb; exact Hm0|exact Hs0]]).
      assert (R : inv (master_reject c s0)).
      { destruct I0 as [Hb1 Hbd1]. split; [|exact Hbd1]. cbn [master_reject set_conns tm ts conns]. apply invb_upd; [exact Hb1|].
        eapply goodp_reject_m; [exact Em0|apply Hb1]. }
      destruct (compare_offer (Some inc) last (t_bir (tm s0)) (t_bseq (tm s0)) (t_inc (tm s0)) None 0) as [[|]|] eqn:Ecmp;
        try exact R.
      pose proof (drop_existing_m s0 I0) as (D1 & D2 & D3 & D4 & D5 & D6). cbv zeta in *.
      apply master_accept_inv; rewrite ?D3, ?D4; auto;
        try (rewrite (D6 c) by (rewrite Em0; discriminate); exact Em0).
    + apply master_accept_inv; auto.
  - destruct (c_m (conns s c)) eqn:Em; try (apply H0; left; reflexivity). apply Hl; reflexivity.
  - destruct (c_m (conns s c)) eqn:Em; try (apply H0; left; reflexivity). apply Hl; reflexivity.
  - (* Fin *)
    assert (Hcl : inv (conn_lost TM c pop_sm s)).
    { apply conn_lost_inv_m; [exact H|destruct (conns s c); reflexivity|]. eapply goodp_lost_fin_m; [exact Eq|apply (proj1 H)]. }
    destruct (c_m (conns s c)) eqn:Em; try exact Hcl. apply H0. right. reflexivity.
Qed.

Lemma upd_c_inv c s k' :
  inv s -> goodp (t_broker (tm s) = Some c) (t_broker (ts s) = Some c) k' -> inv (set_conns (upd (conns s) c k') s).
Proof. intros [Hb Hbd] Hk. split; [|exact Hbd]. cbn [set_conns tm ts conns]. apply invb_upd; assumption. Qed.

Lemma deliver_s_inv c s : c < nconn s -> inv s -> inv (deliver_s c s).
Proof.
  intros Hc H. unfold deliver_s. destruct (c_qms (conns s c)) as [|m q] eqn:Eq; [exact H|].
  pose proof (proj1 H c) as Gc.
  assert (Hidle : is_fin m = false -> negotiating (c_s (conns s c)) = false ->
                  inv (set_conns (upd (conns s) c (pop_ms (conns s c))) s)).
  { intros Hm Hn. apply upd_c_inv; [exact H|]. apply goodp_pop_ms_idle; [exists m, q; auto|exact Hn|exact Gc]. }
  assert (Hl : negotiating (c_s (conns s c)) = true -> inv (set_conns (upd (conns s) c (lose TS (pop_ms (conns s c)))) s)).
  { intros Hn. apply upd_c_inv; [exact H|]. apply goodp_lose_pop_s; [exact Hn|exact Gc]. }
  destruct m as [inc last|inc seq| |].
  - (* Hello *)
    destruct (c_s (conns s c)) eqn:Es; try (apply Hidle; reflexivity); [|apply Hl; reflexivity].
    apply upd_c_inv; [exact H|]. eapply goodp_hello_s; [exact Eq|exact Es|exact Gc].
  - (* Decision *)
    destruct (c_s (conns s c)) eqn:Es; try (apply Hidle; reflexivity); [apply Hl; reflexivity|].
    pose proof (drop_existing_s s H) as (D1 & D2 & D3 & D4 & D5). cbv zeta in *.
    assert (Ec : conns (drop_existing TS s) c = conns s c) by (apply D5; rewrite Es; discriminate).
    apply attach_inv_s; cbn [tm ts conns nconn t_broker]; rewrite ?D3, ?D4; [|exact Hc|apply H].
    apply invb_set_s; [exact D1|]. rewrite Ec. eapply goodp_dec_s; [exact Eq|exact Es|exact Gc].
  - (* ErrorBlk *)
    destruct (c_s (conns s c)) eqn:Es; try (apply Hidle; reflexivity); apply Hl; reflexivity.
  - (* Fin *)
    assert (Hcl : inv (conn_lost TS c pop_ms s)).
    { apply conn_lost_inv_s; [exact H|destruct (conns s c); reflexivity|]. eapply goodp_lost_fin_s; [exact Eq|exact Gc]. }
    destruct (c_s (conns s c)) eqn:Es; try exact Hcl.
    apply upd_c_inv; [exact H|]. apply goodp_pop_ms_closed; [rewrite Es; reflexivity|exact Gc].
Qed.

Theorem step_inv s o : inv s -> inv (step s o).
Proof.
  intros H. destruct o as [x|x|c to|c x|c|x|x|x]; cbn [step]; [| | | | | | |apply set_tub_inv; [reflexivity|exact H]].
  - apply getref_inv, H.
  - apply dial_inv, H.
  - destruct to; destruct (Nat.ltb_spec c (nconn s)); try exact H; [apply deliver_m_inv|apply deliver_s_inv]; assumption.
  - destruct (Nat.ltb_spec c (nconn s)); [apply closeseen_inv|]; exact H.
  - destruct (Nat.ltb_spec c (nconn s)); [apply cut_inv|]; exact H.
  - apply restart_inv, H.
  - apply timeout_inv, H.
Qed.

Lemma fold_inv ops : forall s, inv s -> inv (fold_left step ops s).
Proof. induction ops as [|o r IH]; intros s H; cbn [fold_left]; [exact H|apply IH, step_inv, H]. Qed.

Theorem run_inv ops : inv (run ops).
Proof. apply fold_inv, init_inv. Qed.

(* ------------------------------------------------------------------------------------------ *)
(* 4. agreement at quiescence                                                                  *)

Lemma quiet_agree pm ps k : goodp pm ps k -> quiet_conn k = true -> (pm <-> ps).
Proof.
  destruct k as [cl g m s qms qsm cut]. unfold goodp, quiet_conn, close_pending. cbn.
  destruct qms; [|discriminate]. destruct qsm; [|discriminate]. cbn.
  intros (H1 & H2 & H3 & H4 & H5 & H6 & H7 & _ & _ & H10) Hq. apply andb_true_iff in Hq as [Qm Qs].
  destruct m, s; cbn in *; try discriminate; destruct cut; cbn in *; try discriminate;
    intuition (try congruence; try discriminate).
Qed.

Theorem agree_at_quiescence ops :
  quiescent (run ops) ->
  forall c, t_broker (tm (run ops)) = Some c <-> t_broker (ts (run ops)) = Some c.
Proof.
  intros Hq c. eapply quiet_agree; [apply (proj1 (run_inv ops) c)|apply Hq].
Qed.

(* corollaries: a broker registered in a Tub is the live end of its connection, and is unique *)
Theorem broker_is_live_end ops c :
  (t_broker (tm (run ops)) = Some c <-> c_m (conns (run ops) c) = EBrk) /\
  (t_broker (ts (run ops)) = Some c <-> c_s (conns (run ops) c) = EBrk).
Proof. destruct (proj1 (run_inv ops) c) as (H1 & H2 & _). split; assumption. Qed.

(* the quiescence hypothesis is satisfiable with a shared connection: S dials, everything is delivered *)
Example quiescent_connected :
  let s := run [GetRef TS; DialHint TS; Deliver 0 TM; Deliver 0 TS; Deliver 0 TS] in
  quiet_conn (conns s 0) = true /\ t_broker (tm s) = Some 0 /\ t_broker (ts s) = Some 0.
Proof. vm_compute. auto. Qed.

(* ... and after a cut seen by both ends: neither side has one *)
Example quiescent_after_cut :
  let s := run [GetRef TS; DialHint TS; Deliver 0 TM; Deliver 0 TS; Deliver 0 TS; Cut 0; CloseSeen 0 TM; CloseSeen 0 TS] in
  quiet_conn (conns s 0) = true /\ t_broker (tm s) = None /\ t_broker (ts s) = None.
Proof. vm_compute. auto. Qed.

(* the flap found on the real code, in the model: M restarted, S (remembering M's past life) dials two hints;
   M accepts both offers; S takes the first decision and cancels the second attempt: nobody is connected *)
Example flap_after_master_restart :
  let s := run [GetRef TS; DialHint TS; Deliver 0 TM; Deliver 0 TS; Deliver 0 TS;
                Restart TM; CloseSeen 0 TS;
                GetRef TS; DialHint TS; DialHint TS;
                Deliver 1 TM; Deliver 2 TM;            (* both offers accepted: seqnum 2 *)
                Deliver 1 TS; Deliver 1 TS;            (* S attaches link 1, cancels link 2 *)
                Deliver 1 TS; Deliver 2 TM; CloseSeen 1 TM; CloseSeen 2 TS; Deliver 2 TS; Deliver 2 TS; Deliver 2 TS;
                Deliver 1 TM] in
  t_master (tm s) = 2%Z /\ t_broker (tm s) = None /\ t_broker (ts s) = None /\ t_fired (ts s) = 2 /\
  forallb (fun i => quiet_conn (conns s i)) (seq 0 (nconn s)) = true.
Proof. vm_compute. auto. Qed.

(* ------------------------------------------------------------------------------------------ *)
(* 5. lookups: every waiter is answered when the connector finishes                            *)

Definition wgood (t : tub) : Prop :=
  (t_waiters t <> 0 -> t_connector t <> None) /\
  (t_broker t <> None -> t_waiters t = 0) /\
  t_issued t = t_fired t + t_waiters t.
Definition winv (s : state) : Prop := wgood (tm s) /\ wgood (ts s).

Lemma wgood_getref t : wgood t -> wgood (getref_tub t).
Proof.
  destruct t as [a b c d e f g h w fi is r]. unfold wgood, getref_tub. cbn. intros (H1 & H2 & H3).
  destruct b; cbn; [repeat split; auto; lia|]. destruct g; cbn; repeat split; try congruence; try lia; try discriminate.
Qed.

(* uses the ORDER read from Tub.connectionFailed: the connector is forgotten before the errbacks run, so a lookup
   issued from inside an errback starts a new connector *)
Lemma wgood_gone t : wgood t -> wgood (connector_gone t).
Proof.
  destruct t as [a b c d e f g h w fi is r]. intros H. unfold wgood in H. cbn in H. destruct H as (H1 & H2 & H3).
  unfold connector_gone, connection_failed_forgets_first. cbn.
  destruct b; cbn.
  - assert (w = 0) by (apply H2; discriminate). subst. unfold wgood. cbn. repeat split; auto; lia.
  - unfold errback_all. cbn. destruct (r && negb (Nat.eqb w 0))%bool;
      unfold wgood; cbn; repeat split; try congruence; try discriminate; lia.
Qed.
Lemma wgood_attach t c : wgood t -> wgood (fire (set_broker (Some c) (set_connector None t))).
Proof. destruct t as [a b c0 d e f g h w fi is r]. unfold wgood. cbn. intros (H1 & H2 & H3). repeat split; auto; lia. Qed.
Lemma wgood_nobroker t : wgood t -> wgood (set_broker None t).
Proof. destruct t as [a b c0 d e f g h w fi is r]. unfold wgood. cbn. intros (H1 & H2 & H3). repeat split; auto; congruence. Qed.
Lemma wgood_ext t t' :
  t_broker t' = t_broker t -> t_connector t' = t_connector t -> t_waiters t' = t_waiters t -> t_fired t' = t_fired t ->
  t_issued t' = t_issued t -> wgood t -> wgood t'.
Proof. unfold wgood. intros -> -> -> -> ->. auto. Qed.

Lemma winv_set_tub x t s : winv s -> wgood t -> winv (set_tub x t s).
Proof. intros [Hm Hs] Ht. destruct x; split; cbn; assumption. Qed.
Lemma winv_tubof x s : winv s -> wgood (tubof x s).
Proof. intros [Hm Hs]. destruct x; assumption. Qed.
Lemma winv_conns f s : winv s -> winv (set_conns f s).
Proof. auto. Qed.

Lemma winv_connector_failed x g s : winv s -> winv (connector_failed x g s).
Proof.
  intros H. unfold connector_failed. destruct (t_connector (tubof x s)); [|exact H].
  destruct (Nat.eqb g n && negb (any_pending x g s))%bool; [|exact H].
  apply winv_set_tub; [exact H|apply wgood_gone, winv_tubof, H].
Qed.

Lemma winv_conn_lost x c pre s : winv s -> winv (conn_lost x c pre s).
Proof.
  intros H. unfold conn_lost.
  set (s1 := set_conns (upd (conns s) c (set_end x ELost (pre (conns s c)))) s).
  assert (H1 : winv s1) by exact H.
  destruct (cend x (pre (conns s c))); try exact H1;
    try (destruct (tub_eqb (c_client (pre (conns s c))) x); [apply winv_connector_failed|]; exact H1).
  destruct (t_broker (tubof x s1)); [|exact H1]. destruct (Nat.eqb n c); [|exact H1].
  apply winv_set_tub; [exact H1|apply wgood_nobroker, winv_tubof, H1].
Qed.

Lemma winv_drop x s : winv s -> winv (drop_existing x s).
Proof.
  intros H. unfold drop_existing. destruct (t_broker (tubof x s)); [|exact H].
  apply winv_set_tub; [exact H|apply wgood_nobroker, winv_tubof, H].
Qed.

Lemma winv_attach x c s : winv s -> winv (attach x c s).
Proof.
  intros H. unfold attach.
  match goal with |- winv (set_tub x _ ?s1) => assert (H1 : winv s1) end.
  { destruct (tub_eqb (c_client (conns s c)) x); [exact H|]. destruct (t_connector (tubof x s)); exact H. }
  apply winv_set_tub; [exact H1|apply wgood_attach, winv_tubof, H1].
Qed.

Lemma winv_master_accept c inc s : winv s -> winv (master_accept c inc s).
Proof.
  intros [Hm Hs]. unfold master_accept. apply winv_attach. split; cbn [tm ts]; [|exact Hs].
  eapply wgood_ext; [| | | | |exact Hm]; reflexivity.
Qed.

Lemma winv_deliver_m c s : winv s -> winv (deliver_m c s).
Proof.
  intros H. unfold deliver_m. destruct (c_qsm (conns s c)) as [|m q]; [exact H|].
  destruct m.
  - destruct (c_m (conns s c)); try exact H.
    match goal with |- context [t_broker (tm ?s0)] => assert (H0 : winv s0) by exact H end.
    destruct (t_broker (tm _)).
    + destruct (compare_offer _ _ _ _ _ _ _) as [[|]|]; try exact H0. apply winv_master_accept, winv_drop, H0.
    + apply winv_master_accept, H0.
  - destruct (c_m (conns s c)); exact H.
  - destruct (c_m (conns s c)); exact H.
  - destruct (c_m (conns s c)); try exact H; apply winv_conn_lost, H.
Qed.

Lemma winv_deliver_s c s : winv s -> winv (deliver_s c s).
Proof.
  intros H. unfold deliver_s. destruct (c_qms (conns s c)) as [|m q]; [exact H|].
  destruct m.
  - destruct (c_s (conns s c)); exact H.
  - destruct (c_s (conns s c)); try exact H.
    apply winv_attach. pose proof (winv_drop TS s H) as [Dm Ds]. split; cbn [tm ts]; [exact Dm|].
    eapply wgood_ext; [| | | | |exact Ds]; reflexivity.
  - destruct (c_s (conns s c)); exact H.
  - destruct (c_s (conns s c)); try exact H; apply winv_conn_lost, H.
Qed.

Lemma winv_getref x s : winv s -> winv (do_getref x s).
Proof. intros H. unfold do_getref. apply winv_set_tub; [exact H|apply wgood_getref, winv_tubof, H]. Qed.

Theorem step_winv s o : winv s -> winv (step s o).
Proof.
  intros H. destruct o as [x|x|c to|c x|c|x|x|x]; cbn [step];
    [| | | | | | |apply winv_set_tub; [exact H|]; eapply wgood_ext; [| | | | |exact (winv_tubof x s H)]; reflexivity].
  - apply winv_getref, H.
  - unfold do_dial. destruct (t_connector (tubof x s)); exact H.
  - destruct to; destruct (Nat.ltb c (nconn s)); try exact H; [apply winv_deliver_m|apply winv_deliver_s]; exact H.
  - destruct (Nat.ltb c (nconn s)); [|exact H]. unfold do_closeseen. destruct (close_pending x (conns s c)); [|exact H].
    apply winv_conn_lost, H.
  - destruct (Nat.ltb c (nconn s)); exact H.
  - unfold do_restart. apply winv_set_tub; [exact H|]. unfold wgood, new_tub. cbn. repeat split; congruence.
  - unfold do_timeout. destruct (t_connector (tubof x s)); [|exact H].
    apply winv_set_tub; [exact H|]. apply wgood_gone. exact (winv_tubof x _ H).
Qed.

Theorem run_winv ops : winv (run ops).
Proof.
  unfold run. assert (G : forall l s, winv s -> winv (fold_left step l s)).
  { induction l as [|o r IH]; intros s H; cbn [fold_left]; [exact H|apply IH, step_winv, H]. }
  apply G. split; unfold wgood; cbn; repeat split; congruence.
Qed.

(* when the connector is gone (success, every attempt failed, or time-out) nobody is left waiting *)
Theorem waiters_fire ops x : t_connector (tubof x (run ops)) = None -> t_waiters (tubof x (run ops)) = 0.
Proof.
  intros E. destruct (winv_tubof x _ (run_winv ops)) as (W1 & _).
  destruct (t_waiters (tubof x (run ops))) eqn:Ew; [reflexivity|]. exfalso. apply W1; [discriminate|exact E].
Qed.

Lemma fired_gone t : wgood t -> t_connector t <> None ->
  t_fired (connector_gone t) = t_fired t + t_waiters t.
Proof.
  destruct t as [a b c d e f g h w fi is r]. unfold connector_gone, connection_failed_forgets_first, errback_all, wgood. cbn.
  intros (H1 & H2 & H3) _. destruct b; cbn.
  - assert (w = 0) by (apply H2; discriminate). lia.
  - destruct (r && negb (Nat.eqb w 0))%bool; reflexivity.
Qed.

(* whoever waits has a live connector, i.e. an armed CONNECTION_TIMEOUT timer; when it fires, every lookup that was
   waiting is answered (fired grows by exactly the number of waiters) -- and a lookup issued synchronously from inside
   one of those errbacks (an instant retry) again has a live connector of its own *)
Theorem timeout_answers_all ops x :
  let s := run ops in let s' := step s (Timeout x) in
  (t_waiters (tubof x s) <> 0 -> t_connector (tubof x s) <> None) /\
  t_fired (tubof x s') = t_fired (tubof x s) + t_waiters (tubof x s) /\
  (t_waiters (tubof x s') <> 0 -> t_connector (tubof x s') <> None) /\
  (t_retry (tubof x s) = false -> t_waiters (tubof x s') = 0).
Proof.
  cbv zeta. pose proof (winv_tubof x _ (run_winv ops)) as W.
  pose proof (winv_tubof x _ (step_winv _ (Timeout x) (run_winv ops))) as W'.
  split; [apply W|]. split; [|split; [apply W'|]].
  - cbn [step]. unfold do_timeout. destruct (t_connector (tubof x (run ops))) eqn:Ec.
    + set (s1 := map_conns (cancel x n) (run ops)).
      assert (Et : tubof x (set_tub x (connector_gone (tubof x s1)) s1) = connector_gone (tubof x s1)) by (destruct x; reflexivity).
      rewrite Et. assert (E1 : tubof x s1 = tubof x (run ops)) by (destruct x; reflexivity). rewrite E1.
      apply fired_gone; [exact W|congruence].
    + destruct W as (W1 & _). destruct (t_waiters (tubof x (run ops))); [lia|]. exfalso. apply W1; [discriminate|exact Ec].
  - intros Hr. cbn [step]. unfold do_timeout. destruct (t_connector (tubof x (run ops))) eqn:Ec.
    + set (s1 := map_conns (cancel x n) (run ops)).
      assert (Et : tubof x (set_tub x (connector_gone (tubof x s1)) s1) = connector_gone (tubof x s1)) by (destruct x; reflexivity).
      rewrite Et. assert (E1 : tubof x s1 = tubof x (run ops)) by (destruct x; reflexivity). rewrite E1.
      destruct (tubof x (run ops)) as [a b c d e f g h w fi is r]. cbn in Hr. subst r.
      unfold connector_gone, connection_failed_forgets_first, errback_all. cbn. destruct b; cbn; [|reflexivity].
      apply W. cbn. discriminate.
    + destruct W as (W1 & _). destruct (t_waiters (tubof x (run ops))); [reflexivity|]. exfalso. apply W1; [discriminate|exact Ec].
Qed.

(* the instant retry: a lookup fails at the time-out, its errback looks the Tub up again at once; the new lookup waits
   on a NEW connector and is answered by that connector's own time-out *)
Example retry_from_errback :
  let s := run [GetRef TM; DialHint TM; ArmRetry TM; Timeout TM] in
  t_fired (tm s) = 1 /\ t_waiters (tm s) = 1 /\ t_connector (tm s) = Some 1 /\ t_issued (tm s) = 2 /\
  t_waiters (tm (step s (Timeout TM))) = 0 /\ t_fired (tm (step s (Timeout TM))) = 2.
Proof. vm_compute. auto 10. Qed.

(* ------------------------------------------------------------------------------------------ *)
(* 6. the non-master records the connection it accepts, whoever dialled it                     *)

Lemma slave_attach t c : t_slave (fire (set_broker (Some c) (set_connector None t))) = t_slave t.
Proof. reflexivity. Qed.

(* uses slave_table_recorded_always, read from acceptDecisionVersion1 *)
Lemma slave_records_decision c s i q rest :
  Nat.ltb c (nconn s) = true -> c_qms (conns s c) = Decision i q :: rest -> c_s (conns s c) = EDec ->
  t_slave (ts (step s (Deliver c TS))) = Some (i, q) /\ t_broker (ts (step s (Deliver c TS))) = Some c.
Proof.
  intros Hc Eq Es. cbn [step]. rewrite Hc. unfold deliver_s. rewrite Eq, Es. unfold attach.
  cbn [tubof ts set_tub]. unfold slave_table_recorded_always. cbn [orb].
  match goal with |- context [if ?b then _ else _] => destruct b end;
    try (match goal with |- context [match ?o with Some _ => _ | None => _ end] => destruct o end); cbn; auto.
Qed.

(* no lookup is lost or answered twice (counts): made = answered + still waiting; none waits while connected *)
Theorem lookups_accounted ops x :
  t_issued (tubof x (run ops)) = t_fired (tubof x (run ops)) + t_waiters (tubof x (run ops)) /\
  (t_broker (tubof x (run ops)) <> None -> t_waiters (tubof x (run ops)) = 0).
Proof. destruct (winv_tubof x _ (run_winv ops)) as (_ & W2 & W3). split; assumption. Qed.

Example waiting_then_timeout :
  let s := run [GetRef TM; DialHint TM; DialHint TM; GetRef TM] in
  t_waiters (tm s) = 2 /\ t_waiters (tm (step s (Timeout TM))) = 0 /\ t_fired (tm (step s (Timeout TM))) = 2.
Proof. vm_compute. auto. Qed.
