(* C14: lemmas and theorems about gen/ConvergeGen.v (translated decision function) and lib/Converge.v *)
From Coq Require Import ZArith List Bool Arith Lia Permutation.
Import ListNotations.
Require Import Verif.lib.PyLite Verif.gen.ConvergeGen Verif.lib.Converge.

(* ------------------------------------------------------------------------------------------ *)
(* 1. the translated compareOfferAndExisting                                                   *)

Local Open Scope Z_scope.

(* same peer incarnation, and the offer does not know the existing connection: it carries "none" or an
   older seqnum of this master incarnation -> rejected (a redundant attempt does not displace) *)
Lemma compare_same_incarnation_older_or_none inc last_ir last_seq e_seq my_ir ho age :
  (last_ir = IR_NONE \/ (last_ir = my_ir /\ last_seq < e_seq)) ->
  compare_offer (Some inc) (Some (last_ir, last_seq)) (Some inc) e_seq my_ir ho age = Ok false.
Proof.
  intros H. unfold compare_offer. cbn [is_some is_some_last negb orb optZ_eqb].
  rewrite Z.eqb_refl. cbn [negb].
  destruct H as [->|[-> Hlt]].
  - rewrite Z.eqb_refl. reflexivity.
  - destruct (Z.eqb_spec my_ir IR_NONE); [reflexivity|]. rewrite Z.eqb_refl. cbn [negb].
    destruct (Z.eqb_spec last_seq e_seq); [lia|].
    destruct (Z.ltb_spec last_seq e_seq); reflexivity.
Qed.

(* an offer from a different incarnation of the peer (it restarted) is accepted *)
Lemma compare_new_incarnation inc last e_ir e_seq my_ir ho age :
  e_ir <> Some inc ->
  compare_offer (Some inc) (Some last) e_ir e_seq my_ir ho age = Ok true.
Proof.
  intros H. unfold compare_offer. cbn [is_some is_some_last negb orb].
  destruct e_ir as [e|]; cbn [optZ_eqb]; [|reflexivity].
  destruct (Z.eqb_spec inc e); [subst; congruence|reflexivity].
Qed.

(* the offer proves the peer knows exactly the existing connection and dialled anyway: accepted *)
Lemma compare_equal_seqnum inc e_seq my_ir ho age :
  my_ir <> IR_NONE ->
  compare_offer (Some inc) (Some (my_ir, e_seq)) (Some inc) e_seq my_ir ho age = Ok true.
Proof.
  intros H. unfold compare_offer. cbn [is_some is_some_last negb orb optZ_eqb]. rewrite Z.eqb_refl. cbn [negb].
  destruct (Z.eqb_spec my_ir IR_NONE); [contradiction|]. rewrite !Z.eqb_refl. reflexivity.
Qed.

(* a seqnum from the future is refused *)
Lemma compare_greater_seqnum inc last_seq e_seq my_ir ho age :
  e_seq < last_seq ->
  compare_offer (Some inc) (Some (my_ir, last_seq)) (Some inc) e_seq my_ir ho age = Ok false.
Proof.
  intros H. unfold compare_offer. cbn [is_some is_some_last negb orb optZ_eqb]. rewrite Z.eqb_refl. cbn [negb].
  destruct (Z.eqb_spec my_ir IR_NONE); [reflexivity|]. rewrite Z.eqb_refl. cbn [negb].
  destruct (Z.eqb_spec last_seq e_seq); [lia|]. destruct (Z.ltb_spec last_seq e_seq); reflexivity.
Qed.

(* pre-0.2.0 peers (no my-incarnation or no last-connection): refused, unless handle-old is configured,
   in which case exactly the age of the existing connection decides *)
Lemma compare_old_peer o_inc o_last e_ir e_seq my_ir age :
  o_inc = None \/ o_last = None ->
  compare_offer o_inc o_last e_ir e_seq my_ir None age = Ok false /\
  forall thr, compare_offer o_inc o_last e_ir e_seq my_ir (Some thr) age = Ok (negb (age <? thr)).
Proof.
  intros H. unfold compare_offer, handle_old_fn.
  assert (E : (negb (is_some o_inc) || negb (is_some_last o_last))%bool = true).
  { destruct H as [->| ->]; cbn; [reflexivity|apply orb_true_r]. }
  rewrite E. cbn [is_some]. split; [reflexivity|]. intros thr. destruct (age <? thr); reflexivity.
Qed.

(* the statement "a redundant attempt of the same incarnation never displaces" is FALSE for the code:
   an offer that remembers a past life of the master is accepted although it knows nothing of the
   existing connection (parallel hints after a master restart). *)
Lemma compare_same_incarnation_past_life_accepted :
  exists inc last_ir last_seq e_seq my_ir,
    last_ir <> my_ir /\ compare_offer (Some inc) (Some (last_ir, last_seq)) (Some inc) e_seq my_ir None 0 = Ok true.
Proof. exists 1, 1, 1, 1, 2. split; [lia|reflexivity]. Qed.

(* complete case analysis of the decision for modern peers (total: never raises) *)
Lemma compare_total inc last_ir last_seq e_ir e_seq my_ir ho age :
  compare_offer (Some inc) (Some (last_ir, last_seq)) e_ir e_seq my_ir ho age =
  Ok (negb (optZ_eqb (Some inc) e_ir) ||
      (negb (last_ir =? IR_NONE) && (negb (last_ir =? my_ir) || (last_seq =? e_seq))))%bool.
Proof.
  unfold compare_offer. cbn [is_some is_some_last negb orb].
  destruct (optZ_eqb (Some inc) e_ir); cbn [negb orb]; [|reflexivity].
  destruct (last_ir =? IR_NONE); cbn [negb andb]; [reflexivity|].
  destruct (last_ir =? my_ir); cbn [negb orb]; [|reflexivity].
  destruct (last_seq =? e_seq); [reflexivity|]. destruct (last_seq <? e_seq); reflexivity.
Qed.

Local Close Scope Z_scope.

(* ------------------------------------------------------------------------------------------ *)
(* 2. per-connection invariant                                                                 *)

Definition goodp (pm ps : Prop) (k : conn) : Prop :=
  (pm <-> c_m k = EBrk) /\
  (ps <-> c_s k = EBrk) /\
  (c_s k = EBrk -> c_m k <> ENeg) /\
  (has_dec (c_qms k) = true -> c_m k <> ENeg) /\
  (c_m k = EBrk -> negotiating (c_s k) = true -> c_cut k = true \/ has_dec (c_qms k) = true) /\
  (closed (c_m k) = true -> c_cut k = true \/ closed (c_s k) = true \/ has_fin (c_qms k) = true) /\
  (closed (c_s k) = true -> c_cut k = true \/ closed (c_m k) = true \/ has_fin (c_qsm k) = true) /\
  (has_fin (c_qms k) = true -> closed (c_m k) = true) /\
  (has_fin (c_qsm k) = true -> closed (c_s k) = true) /\
  c_m k <> EDec.

Lemma hf_app q m : has_fin (q ++ [m]) = (has_fin q || is_fin m)%bool.
Proof. unfold has_fin. rewrite existsb_app. cbn. rewrite orb_false_r. reflexivity. Qed.
Lemma hd_app q m : has_dec (q ++ [m]) = (has_dec q || is_dec m)%bool.
Proof. unfold has_dec. rewrite existsb_app. cbn. rewrite orb_false_r. reflexivity. Qed.
Lemma hf_cons m q : has_fin (m :: q) = (is_fin m || has_fin q)%bool.
Proof. reflexivity. Qed.
Lemma hd_cons m q : has_dec (m :: q) = (is_dec m || has_dec q)%bool.
Proof. reflexivity. Qed.
Lemma hf_tl q : has_fin (tl q) = true -> has_fin q = true.
Proof. destruct q as [|m q]; cbn [tl]; [auto|]. rewrite hf_cons. intros ->. apply orb_true_r. Qed.
Lemma hd_tl q : has_dec (tl q) = true -> has_dec q = true.
Proof. destruct q as [|m q]; cbn [tl]; [auto|]. rewrite hd_cons. intros ->. apply orb_true_r. Qed.

Ltac bools :=
  repeat match goal with
  | H : (_ || _)%bool = true |- _ => apply orb_true_iff in H
  | |- (_ || _)%bool = true => apply orb_true_iff
  end.

Ltac fin := cbn in *; rewrite ?hf_app, ?hd_app, ?orb_true_r, ?orb_false_r in *; cbn in *;
            intuition (try congruence; try discriminate).

Lemma goodp_iff pm ps pm' ps' k : (pm <-> pm') -> (ps <-> ps') -> goodp pm ps k -> goodp pm' ps' k.
Proof. unfold goodp. intuition. Qed.

Lemma goodp_dead : goodp False False dead_conn.
Proof. unfold goodp, dead_conn. fin. Qed.

(* loseConnection on a negotiating end *)
Lemma goodp_lose_neg pm ps x k : negotiating (cend x k) = true -> goodp pm ps k -> goodp pm ps (lose x k).
Proof.
  destruct k as [cl g m s qms qsm cut]. unfold goodp, lose, enq.
  destruct x; cbn [cend c_m c_s]; intros Hn.
  - destruct m; try discriminate Hn; destruct cut; fin.
  - destruct s; try discriminate Hn; destruct cut; fin.
Qed.

Lemma goodp_cancel pm ps x g k : goodp pm ps k -> goodp pm ps (cancel x g k).
Proof.
  intros H. unfold cancel.
  destruct (tub_eqb (c_client k) x && Nat.eqb (c_gen k) g && negotiating (cend x k))%bool eqn:E; [|exact H].
  apply andb_true_iff in E as [_ E]. apply goodp_lose_neg; assumption.
Qed.

(* Broker.shutdown of the live broker *)
Lemma goodp_lose_brk_m pm ps k : c_m k = EBrk -> goodp pm ps k -> goodp False ps (lose TM k).
Proof.
  destruct k as [cl g m s qms qsm cut]. unfold goodp, lose, enq. cbn [cend c_m c_s]. intros ->. destruct cut; fin.
Qed.
Lemma goodp_lose_brk_s pm ps k : c_s k = EBrk -> goodp pm ps k -> goodp pm False (lose TS k).
Proof.
  destruct k as [cl g m s qms qsm cut]. unfold goodp, lose, enq. cbn [cend c_m c_s]. intros ->. destruct cut; fin.
Qed.

(* a block is taken off a queue *)
Lemma goodp_pop_sm pm ps k :
  (exists m q, c_qsm k = m :: q /\ (is_fin m = false \/ closed (c_m k) = true)) -> goodp pm ps k -> goodp pm ps (pop_sm k).
Proof.
  destruct k as [cl g m s qms qsm cut]. unfold goodp, pop_sm. cbn.
  intros (m0 & q & -> & Hm). cbn [tl]. rewrite hf_cons.
  destruct Hm as [-> | Hc]; cbn [orb]; [intuition|].
  intuition.
Qed.

Lemma goodp_pop_ms_closed pm ps k : closed (c_s k) = true -> goodp pm ps k -> goodp pm ps (pop_ms k).
Proof.
  destruct k as [cl g m s qms qsm cut]. unfold goodp, pop_ms. cbn. intros Hc.
  pose proof (hf_tl qms). pose proof (hd_tl qms).
  assert (Hb : s <> EBrk) by (destruct s; discriminate).
  assert (Hg : negotiating s = false) by (destruct s; try discriminate; reflexivity).
  rewrite Hc, Hg. intuition (try congruence; try discriminate).
Qed.

Lemma goodp_pop_ms_idle pm ps k :
  (exists m q, c_qms k = m :: q /\ is_fin m = false) -> negotiating (c_s k) = false -> goodp pm ps k -> goodp pm ps (pop_ms k).
Proof.
  destruct k as [cl g m s qms qsm cut]. unfold goodp, pop_ms. cbn. intros (m0 & q & -> & Hm) Hg. cbn [tl].
  rewrite hf_cons, hd_cons, Hm, Hg. cbn [orb]. pose proof (orb_true_r (is_dec m0)).
  intuition (try congruence; try discriminate).
  destruct (is_dec m0); cbn in *; auto.
Qed.

(* FIN delivered: connectionLost at the receiving end *)
Lemma goodp_lost_fin_m pm ps k q : c_qsm k = Fin :: q -> goodp pm ps k -> goodp False ps (set_end TM ELost (pop_sm k)).
Proof.
  destruct k as [cl g m s qms qsm cut]. unfold goodp, pop_sm, set_end. cbn. intros ->. cbn.
  intuition (try congruence; try discriminate).
Qed.
Lemma goodp_lost_fin_s pm ps k q : c_qms k = Fin :: q -> goodp pm ps k -> goodp pm False (set_end TS ELost (pop_ms k)).
Proof.
  destruct k as [cl g m s qms qsm cut]. unfold goodp, pop_ms, set_end. cbn. intros ->. cbn.
  pose proof (hd_tl (Fin :: q)). cbn [tl] in *.
  intuition (try congruence; try discriminate).
Qed.

(* connectionLost after a local close or a cut *)
Lemma goodp_lost_pending_m pm ps k : close_pending TM k = true -> goodp pm ps k -> goodp False ps (set_end TM ELost k).
Proof.
  destruct k as [cl g m s qms qsm cut]. unfold goodp, close_pending, set_end. cbn.
  destruct m; cbn; intros Hp; try discriminate Hp; subst; intuition (try congruence; try discriminate).
Qed.
Lemma goodp_lost_pending_s pm ps k : close_pending TS k = true -> goodp pm ps k -> goodp pm False (set_end TS ELost k).
Proof.
  destruct k as [cl g m s qms qsm cut]. unfold goodp, close_pending, set_end. cbn.
  destruct s; cbn; intros Hp; try discriminate Hp; subst; intuition (try congruence; try discriminate).
Qed.

(* master accepts / rejects *)
Lemma goodp_accept_m pm ps k a b : c_m k = ENeg -> goodp pm ps k -> goodp True ps (set_end TM EBrk (enq TM (Decision a b) k)).
Proof.
  destruct k as [cl g m s qms qsm cut]. unfold goodp, set_end, enq. cbn. intros ->. destruct cut; fin.
Qed.
Lemma goodp_reject_m pm ps k : c_m k = ENeg -> goodp pm ps k -> goodp pm ps (lose TM (enq TM ErrorBlk k)).
Proof.
  destruct k as [cl g m s qms qsm cut]. unfold goodp, lose, set_end, enq. cbn. intros ->. destruct cut; fin.
Qed.

(* non-master end *)
Lemma goodp_hello_s pm ps k a b q :
  c_qms k = Hello a b :: q -> c_s k = ENeg -> goodp pm ps k -> goodp pm ps (set_end TS EDec (pop_ms k)).
Proof.
  destruct k as [cl g m s qms qsm cut]. unfold goodp, set_end, pop_ms. cbn. intros -> ->. cbn.
  intuition (try congruence; try discriminate).
Qed.
Lemma goodp_dec_s pm ps k a b q :
  c_qms k = Decision a b :: q -> c_s k = EDec -> goodp pm ps k -> goodp pm True (set_end TS EBrk (pop_ms k)).
Proof.
  destruct k as [cl g m s qms qsm cut]. unfold goodp, set_end, pop_ms. cbn. intros -> ->. cbn.
  intuition (try congruence; try discriminate).
Qed.
Lemma goodp_lose_pop_s pm ps k : negotiating (c_s k) = true -> goodp pm ps k -> goodp pm ps (lose TS (pop_ms k)).
Proof.
  destruct k as [cl g m s qms qsm cut]. unfold goodp, lose, set_end, enq, pop_ms. cbn.
  pose proof (hf_tl qms). pose proof (hd_tl qms).
  intros Hn; destruct s; try discriminate Hn; destruct cut; fin.
Qed.
Lemma goodp_lose_pop_m pm ps k :
  (exists m q, c_qsm k = m :: q /\ is_fin m = false) -> c_m k = ENeg -> goodp pm ps k -> goodp pm ps (lose TM (pop_sm k)).
Proof.
  intros (m & q & E & Hm) Hn H. apply goodp_lose_neg.
  - destruct k; cbn in *. rewrite Hn. reflexivity.
  - apply goodp_pop_sm; [|exact H]. exists m, q. auto.
Qed.

Lemma goodp_cut pm ps k : goodp pm ps k -> goodp pm ps (cut_conn k).
Proof. destruct k as [cl g m s qms qsm cut]. unfold goodp, cut_conn. cbn. intuition (try congruence; try discriminate). Qed.
Lemma goodp_kill_m pm ps k : goodp pm ps k -> goodp False ps (kill TM k).
Proof. destruct k as [cl g m s qms qsm cut]. unfold goodp, kill, cut_conn, set_end. cbn. intuition (try congruence; try discriminate). Qed.
Lemma goodp_kill_s pm ps k : goodp pm ps k -> goodp pm False (kill TS k).
Proof. destruct k as [cl g m s qms qsm cut]. unfold goodp, kill, cut_conn, set_end. cbn. intuition (try congruence; try discriminate). Qed.
Lemma goodp_fresh x g a b a' b' : goodp False False (mkconn x g ENeg ENeg [Hello a b] [Hello a' b'] false).
Proof. unfold goodp. cbn. intuition (try congruence; try discriminate). Qed.

(* ------------------------------------------------------------------------------------------ *)
(* 3. the invariant on states                                                                  *)

Definition invb (bm bs : option nat) (f : nat -> conn) : Prop :=
  forall i, goodp (bm = Some i) (bs = Some i) (f i).
Definition bounded (s : state) : Prop :=
  (forall c, t_broker (tm s) = Some c -> c < nconn s) /\ (forall c, t_broker (ts s) = Some c -> c < nconn s).
Definition inv (s : state) : Prop := invb (t_broker (tm s)) (t_broker (ts s)) (conns s) /\ bounded s.

Lemma invb_upd bm bs f c k' : invb bm bs f -> goodp (bm = Some c) (bs = Some c) k' -> invb bm bs (upd f c k').
Proof. intros H Hk i. unfold upd. destruct (Nat.eqb_spec i c); [subst; exact Hk|apply H]. Qed.

Lemma invb_map bm bs f g :
  invb bm bs f -> (forall pm ps k, goodp pm ps k -> goodp pm ps (g k)) -> invb bm bs (fun i => g (f i)).
Proof. intros H Hg i. apply Hg, H. Qed.

Lemma invb_clear_m bs f e k' : invb (Some e) bs f -> goodp False (bs = Some e) k' -> invb None bs (upd f e k').
Proof.
  intros H Hk i. unfold upd. destruct (Nat.eqb_spec i e).
  - subst. eapply goodp_iff; [| |exact Hk]; intuition discriminate.
  - eapply goodp_iff; [| |apply (H i)]; [|reflexivity]. split; [intros E; inversion E; congruence|discriminate].
Qed.
Lemma invb_clear_s bm f e k' : invb bm (Some e) f -> goodp (bm = Some e) False k' -> invb bm None (upd f e k').
Proof.
  intros H Hk i. unfold upd. destruct (Nat.eqb_spec i e).
  - subst. eapply goodp_iff; [| |exact Hk]; intuition discriminate.
  - eapply goodp_iff; [| |apply (H i)]; [reflexivity|]. split; [intros E; inversion E; congruence|discriminate].
Qed.
Lemma invb_set_m bs f c k' : invb None bs f -> goodp True (bs = Some c) k' -> invb (Some c) bs (upd f c k').
Proof.
  intros H Hk i. unfold upd. destruct (Nat.eqb_spec i c).
  - subst. eapply goodp_iff; [| |exact Hk]; intuition.
  - eapply goodp_iff; [| |apply (H i)]; [|reflexivity]. split; [discriminate|intros E; inversion E; congruence].
Qed.
Lemma invb_set_s bm f c k' : invb bm None f -> goodp (bm = Some c) True k' -> invb bm (Some c) (upd f c k').
Proof.
  intros H Hk i. unfold upd. destruct (Nat.eqb_spec i c).
  - subst. eapply goodp_iff; [| |exact Hk]; intuition.
  - eapply goodp_iff; [| |apply (H i)]; [reflexivity|]. split; [discriminate|intros E; inversion E; congruence].
Qed.

Lemma upd_same {A} (f : nat -> A) c k : upd f c k c = k.
Proof. unfold upd. rewrite Nat.eqb_refl. reflexivity. Qed.
Lemma upd_other {A} (f : nat -> A) c k i : i <> c -> upd f c k i = f i.
Proof. unfold upd. intros H. destruct (Nat.eqb_spec i c); [contradiction|reflexivity]. Qed.

Lemma init_inv : inv init.
Proof.
  split; [|split; cbn; discriminate]. intros i. cbn. eapply goodp_iff; [| |exact goodp_dead]; intuition discriminate.
Qed.

Lemma inv_same s s' :
  t_broker (tm s') = t_broker (tm s) -> t_broker (ts s') = t_broker (ts s) -> conns s' = conns s -> nconn s' = nconn s ->
  inv s -> inv s'.
Proof. unfold inv, bounded. intros -> -> -> ->. auto. Qed.

Lemma broker_getref_tub n t : t_broker (getref_tub n t) = t_broker t.
Proof. unfold getref_tub. destruct (t_broker t) eqn:E; [cbn; auto|]. destruct (t_connector t); cbn; auto. Qed.

Lemma broker_connector_gone n t : t_broker (connector_gone n t) = t_broker t.
Proof.
  unfold connector_gone, connection_failed_forgets_first, errback_all.
  cbn [set_connector t_broker]. destruct (t_broker t) eqn:E; [cbn [set_connector t_broker]; exact E|].
  match goal with |- context [if ?b then _ else _] => destruct b end;
    [rewrite broker_getref_tub|]; cbn [set_retry fire set_connector t_broker]; exact E.
Qed.

Lemma set_tub_inv x t s : t_broker t = t_broker (tubof x s) -> inv s -> inv (set_tub x t s).
Proof. intros E. apply inv_same; destruct x; cbn; auto. Qed.

Lemma connector_failed_inv x g s : inv s -> inv (connector_failed x g s).
Proof.
  intros H. unfold connector_failed. destruct (t_connector (tubof x s)); [|exact H].
  destruct (Nat.eqb g n && negb (any_pending x g s))%bool; [|exact H].
  apply set_tub_inv; [apply broker_connector_gone|exact H].
Qed.

Lemma getref_inv x s : inv s -> inv (do_getref x s).
Proof. intros H. unfold do_getref. apply set_tub_inv; [apply broker_getref_tub|exact H]. Qed.

Lemma dial_inv x s : inv s -> inv (do_dial x s).
Proof.
  intros [Hb [Hm Hs]]. unfold do_dial. destruct (t_connector (tubof x s)); [|split; [exact Hb|split; assumption]].
  split; cbn [tm ts conns nconn].
  - apply invb_upd; [exact Hb|]. eapply goodp_iff; [| |apply goodp_fresh].
    + split; [tauto|]. intros E. apply Hm in E. lia.
    + split; [tauto|]. intros E. apply Hs in E. lia.
  - split; cbn [tm ts nconn]; intros c E; [apply Hm in E|apply Hs in E]; lia.
Qed.

Lemma cut_inv c s : inv s -> inv (do_cut c s).
Proof.
  intros [Hb Hbd]. split; [|exact Hbd]. cbn [do_cut set_conns tm ts conns].
  apply invb_upd; [exact Hb|]. apply goodp_cut. apply Hb.
Qed.

Lemma restart_inv x s : inv s -> inv (do_restart x s).
Proof.
  intros [Hb [Hm Hs]]. unfold do_restart. destruct x; cbn [set_tub map_conns set_conns tubof tm ts conns nconn].
  - split; [|split; cbn; [discriminate|exact Hs]]. cbn [new_tub t_broker]. intros i.
    eapply goodp_iff; [| |eapply goodp_kill_m; apply (Hb i)]; [|reflexivity]. intuition discriminate.
  - split; [|split; cbn; [exact Hm|discriminate]]. cbn [new_tub t_broker]. intros i.
    eapply goodp_iff; [| |eapply goodp_kill_s; apply (Hb i)]; [reflexivity|]. intuition discriminate.
Qed.

Lemma map_cancel_inv x g s : inv s -> inv (map_conns (cancel x g) s).
Proof.
  intros [Hb Hbd]. split; [|exact Hbd]. cbn [map_conns set_conns tm ts conns].
  apply invb_map; [exact Hb|]. intros pm ps k. apply goodp_cancel.
Qed.

Lemma timeout_inv x s : inv s -> inv (do_timeout x s).
Proof.
  intros H. unfold do_timeout. destruct (t_connector (tubof x s)); [|exact H].
  apply set_tub_inv; [apply broker_connector_gone|]. apply map_cancel_inv, H.
Qed.

(* connectionLost at one end *)
Lemma conn_lost_inv_m c pre s :
  inv s -> cend TM (pre (conns s c)) = c_m (conns s c) ->
  goodp False (t_broker (ts s) = Some c) (set_end TM ELost (pre (conns s c))) ->
  inv (conn_lost TM c pre s).
Proof.
  intros [Hb Hbd] He Hg. unfold conn_lost.
  pose proof (Hb c) as Hc. destruct Hc as [Hc1 _].
  set (s1 := set_conns (upd (conns s) c (set_end TM ELost (pre (conns s c)))) s).
  assert (Hnb : c_m (conns s c) <> EBrk -> inv s1).
  { intros Hne. split; [|exact Hbd]. cbn [s1 set_conns tm ts conns]. apply invb_upd; [exact Hb|].
    eapply goodp_iff; [| |exact Hg]; [|reflexivity]. split; [tauto|]. intros E. apply Hne, Hc1, E. }
  rewrite He. destruct (c_m (conns s c)) eqn:Em;
    try (apply Hnb; discriminate);
    try (destruct (tub_eqb (c_client (pre (conns s c))) TM); [apply connector_failed_inv|]; apply Hnb; discriminate).
  (* EBrk: the live broker is detached *)
  assert (Eb : t_broker (tm s) = Some c) by (apply Hc1; reflexivity).
  cbn [tubof s1 set_conns tm]. rewrite Eb, Nat.eqb_refl.
  destruct Hbd as [Hm Hs]. split; [|split; cbn; [discriminate|exact Hs]].
  cbn [set_tub set_conns tm ts conns set_broker t_broker]. apply invb_clear_m; [rewrite <- Eb; exact Hb|exact Hg].
Qed.

Lemma conn_lost_inv_s c pre s :
  inv s -> cend TS (pre (conns s c)) = c_s (conns s c) ->
  goodp (t_broker (tm s) = Some c) False (set_end TS ELost (pre (conns s c))) ->
  inv (conn_lost TS c pre s).
Proof.
  intros [Hb Hbd] He Hg. unfold conn_lost.
  pose proof (Hb c) as Hc. destruct Hc as [_ [Hc1 _]].
  set (s1 := set_conns (upd (conns s) c (set_end TS ELost (pre (conns s c)))) s).
  assert (Hnb : c_s (conns s c) <> EBrk -> inv s1).
  { intros Hne. split; [|exact Hbd]. cbn [s1 set_conns tm ts conns]. apply invb_upd; [exact Hb|].
    eapply goodp_iff; [| |exact Hg]; [reflexivity|]. split; [tauto|]. intros E. apply Hne, Hc1, E. }
  rewrite He. destruct (c_s (conns s c)) eqn:Em;
    try (apply Hnb; discriminate);
    try (destruct (tub_eqb (c_client (pre (conns s c))) TS); [apply connector_failed_inv|]; apply Hnb; discriminate).
  assert (Eb : t_broker (ts s) = Some c) by (apply Hc1; reflexivity).
  cbn [tubof s1 set_conns ts]. rewrite Eb, Nat.eqb_refl.
  destruct Hbd as [Hm Hs]. split; [|split; cbn; [exact Hm|discriminate]].
  cbn [set_tub set_conns tm ts conns set_broker t_broker]. apply invb_clear_s; [rewrite <- Eb; exact Hb|exact Hg].
Qed.

Lemma closeseen_inv c x s : inv s -> inv (do_closeseen c x s).
Proof.
  intros H. unfold do_closeseen. destruct (close_pending x (conns s c)) eqn:E; [|exact H].
  destruct x.
  - apply conn_lost_inv_m; [exact H|reflexivity|]. eapply goodp_lost_pending_m; [exact E|apply (proj1 H)].
  - apply conn_lost_inv_s; [exact H|reflexivity|]. eapply goodp_lost_pending_s; [exact E|apply (proj1 H)].
Qed.

(* brokerAttached *)
Lemma attach_inv_m c s :
  invb (Some c) (t_broker (ts s)) (conns s) -> c < nconn s -> (forall c', t_broker (ts s) = Some c' -> c' < nconn s) ->
  inv (attach TM c s).
Proof.
  intros Hb Hc Hs. unfold attach.
  assert (G : forall g, invb (Some c) (t_broker (ts s)) (conns (map_conns (cancel TM g) s))).
  { intros g. cbn [map_conns set_conns conns]. apply invb_map; [exact Hb|]. intros pm ps k. apply goodp_cancel. }
  destruct (tub_eqb (c_client (conns s c)) TM).
  - split; [apply G|]. split; cbn; [intros c' E; inversion E; subst; exact Hc|exact Hs].
  - destruct (t_connector (tubof TM s)).
    + split; [apply G|]. split; cbn; [intros c' E; inversion E; subst; exact Hc|exact Hs].
    + split; [exact Hb|]. split; cbn; [intros c' E; inversion E; subst; exact Hc|exact Hs].
Qed.

Lemma attach_inv_s c s :
  invb (t_broker (tm s)) (Some c) (conns s) -> c < nconn s -> (forall c', t_broker (tm s) = Some c' -> c' < nconn s) ->
  inv (attach TS c s).
Proof.
  intros Hb Hc Hs. unfold attach.
  assert (G : forall g, invb (t_broker (tm s)) (Some c) (conns (map_conns (cancel TS g) s))).
  { intros g. cbn [map_conns set_conns conns]. apply invb_map; [exact Hb|]. intros pm ps k. apply goodp_cancel. }
  destruct (tub_eqb (c_client (conns s c)) TS).
  - split; [apply G|]. split; cbn; [exact Hs|intros c' E; inversion E; subst; exact Hc].
  - destruct (t_connector (tubof TS s)).
    + split; [apply G|]. split; cbn; [exact Hs|intros c' E; inversion E; subst; exact Hc].
    + split; [exact Hb|]. split; cbn; [exact Hs|intros c' E; inversion E; subst; exact Hc].
Qed.

(* Broker.shutdown of the existing connection *)
Lemma drop_existing_m s :
  inv s ->
  let s' := drop_existing TM s in
  invb None (t_broker (ts s)) (conns s') /\ t_broker (tm s') = None /\ ts s' = ts s /\ nconn s' = nconn s /\
  t_inc (tm s') = t_inc (tm s) /\
  (forall j, c_m (conns s j) <> EBrk -> conns s' j = conns s j).
Proof.
  intros [Hb Hbd]. unfold drop_existing. cbn [tubof]. destruct (t_broker (tm s)) as [e|] eqn:E.
  - cbn [set_tub set_conns tm ts conns nconn set_broker t_broker t_inc].
    assert (Em : c_m (conns s e) = EBrk) by (apply (Hb e); reflexivity).
    split; [|split; [reflexivity|split; [reflexivity|split; [reflexivity|split; [reflexivity|]]]]].
    + apply invb_clear_m; [exact Hb|]. eapply goodp_lose_brk_m; [exact Em|apply Hb].
    + intros j Hj. apply upd_other. intros ->. contradiction.
  - rewrite E. split; [exact Hb|]. repeat split; auto.
Qed.

Lemma drop_existing_s s :
  inv s ->
  let s' := drop_existing TS s in
  invb (t_broker (tm s)) None (conns s') /\ t_broker (ts s') = None /\ tm s' = tm s /\ nconn s' = nconn s /\
  (forall j, c_s (conns s j) <> EBrk -> conns s' j = conns s j).
Proof.
  intros [Hb Hbd]. unfold drop_existing. cbn [tubof]. destruct (t_broker (ts s)) as [e|] eqn:E.
  - cbn [set_tub set_conns tm ts conns nconn set_broker t_broker].
    assert (Em : c_s (conns s e) = EBrk) by (apply (Hb e); reflexivity).
    split; [|split; [reflexivity|split; [reflexivity|split; [reflexivity|]]]].
    + apply invb_clear_s; [exact Hb|]. eapply goodp_lose_brk_s; [exact Em|apply Hb].
    + intros j Hj. apply upd_other. intros ->. contradiction.
  - rewrite E. split; [exact Hb|]. repeat split; auto.
Qed.

Lemma master_accept_inv c inc s :
  invb None (t_broker (ts s)) (conns s) -> (forall c', t_broker (ts s) = Some c' -> c' < nconn s) -> c < nconn s ->
  c_m (conns s c) = ENeg -> inv (master_accept c inc s).
Proof.
  intros Hb Hs Hc Em. unfold master_accept. apply attach_inv_m; cbn [tm ts conns nconn]; [|exact Hc|exact Hs].
  apply invb_set_m; [exact Hb|]. eapply goodp_accept_m; [exact Em|apply Hb].
Qed.

Lemma pop_sm_inv c s m q :
  inv s -> c_qsm (conns s c) = m :: q -> (is_fin m = false \/ closed (c_m (conns s c)) = true) ->
  inv (set_conns (upd (conns s) c (pop_sm (conns s c))) s).
Proof.
  intros [Hb Hbd] Eq Hm. split; [|exact Hbd]. cbn [set_conns tm ts conns]. apply invb_upd; [exact Hb|].
  apply goodp_pop_sm; [exists m, q; auto|apply Hb].
Qed.

Lemma deliver_m_inv c s : c < nconn s -> inv s -> inv (deliver_m c s).
Proof.
  intros Hc H. unfold deliver_m. destruct (c_qsm (conns s c)) as [|m q] eqn:Eq; [exact H|].
  set (s0 := set_conns (upd (conns s) c (pop_sm (conns s c))) s).
  assert (H0 : is_fin m = false \/ closed (c_m (conns s c)) = true -> inv s0) by (apply pop_sm_inv with (q := q); assumption).
  assert (Hl : is_fin m = false -> c_m (conns s c) = ENeg -> inv (set_conns (upd (conns s) c (lose TM (pop_sm (conns s c)))) s)).
  { intros Hm Em. destruct H as [Hb Hbd]. split; [|exact Hbd]. cbn [set_conns tm ts conns]. apply invb_upd; [exact Hb|].
    apply goodp_lose_pop_m; [exists m, q; auto|exact Em|apply Hb]. }
  destruct m as [inc last|a b| |].
  - (* Hello *)
    specialize (H0 (or_introl eq_refl)).
    destruct (c_m (conns s c)) eqn:Em; try exact H0.
    assert (Em0 : c_m (conns s0 c) = ENeg) by (cbn [s0 set_conns conns]; rewrite upd_same; destruct (conns s c); cbn in *; exact Em).
    destruct H0 as [Hb0 [Hm0 Hs0]].
    destruct (t_broker (tm s0)) as [e|] eqn:Eb.
    + assert (I0 : inv s0) by (split; [rewrite Eb; exact Hb0|split; [rewrite Eb; exact Hm0|exact Hs0]]).
      assert (R : inv (master_reject c s0)).
      { destruct I0 as [Hb1 Hbd1]. split; [|exact Hbd1]. cbn [master_reject set_conns tm ts conns]. apply invb_upd; [exact Hb1|].
        eapply goodp_reject_m; [exact Em0|apply Hb1]. }
      match goal with |- context [compare_offer ?a1 ?a2 ?a3 ?a4 ?a5 ?a6 ?a7] =>
        destruct (compare_offer a1 a2 a3 a4 a5 a6 a7) as [[|]|] eqn:Ecmp end;
        try exact R.
      pose proof (drop_existing_m s0 I0) as (D1 & D2 & D3 & D4 & D5 & D6). cbv zeta in *.
      apply master_accept_inv; rewrite ?D3, ?D4; auto;
        try (rewrite (D6 c) by (rewrite Em0; discriminate); exact Em0).
    + apply master_accept_inv; auto.
  - destruct (c_m (conns s c)) eqn:Em; try (apply H0; left; reflexivity). apply Hl; reflexivity.
  - destruct (c_m (conns s c)) eqn:Em; try (apply H0; left; reflexivity). apply Hl; reflexivity.
  - (* Fin *)
    assert (Hcl : inv (conn_lost TM c pop_sm s)).
    { apply conn_lost_inv_m; [exact H|destruct (conns s c); reflexivity|]. eapply goodp_lost_fin_m; [exact Eq|apply (proj1 H)]. }
    destruct (c_m (conns s c)) eqn:Em; try exact Hcl. apply H0. right. reflexivity.
Qed.

Lemma upd_c_inv c s k' :
  inv s -> goodp (t_broker (tm s) = Some c) (t_broker (ts s) = Some c) k' -> inv (set_conns (upd (conns s) c k') s).
Proof. intros [Hb Hbd] Hk. split; [|exact Hbd]. cbn [set_conns tm ts conns]. apply invb_upd; assumption. Qed.

Lemma deliver_s_inv c s : c < nconn s -> inv s -> inv (deliver_s c s).
Proof.
  intros Hc H. unfold deliver_s. destruct (c_qms (conns s c)) as [|m q] eqn:Eq; [exact H|].
  pose proof (proj1 H c) as Gc.
  assert (Hidle : is_fin m = false -> negotiating (c_s (conns s c)) = false ->
                  inv (set_conns (upd (conns s) c (pop_ms (conns s c))) s)).
  { intros Hm Hn. apply upd_c_inv; [exact H|]. apply goodp_pop_ms_idle; [exists m, q; auto|exact Hn|exact Gc]. }
  assert (Hl : negotiating (c_s (conns s c)) = true -> inv (set_conns (upd (conns s) c (lose TS (pop_ms (conns s c)))) s)).
  { intros Hn. apply upd_c_inv; [exact H|]. apply goodp_lose_pop_s; [exact Hn|exact Gc]. }
  destruct m as [inc last|inc seq| |].
  - (* Hello *)
    destruct (c_s (conns s c)) eqn:Es; try (apply Hidle; reflexivity); [|apply Hl; reflexivity].
    apply upd_c_inv; [exact H|]. eapply goodp_hello_s; [exact Eq|exact Es|exact Gc].
  - (* Decision *)
    destruct (c_s (conns s c)) eqn:Es; try (apply Hidle; reflexivity); [apply Hl; reflexivity|].
    pose proof (drop_existing_s s H) as (D1 & D2 & D3 & D4 & D5). cbv zeta in *.
    assert (Ec : conns (drop_existing TS s) c = conns s c) by (apply D5; rewrite Es; discriminate).
    apply attach_inv_s; cbn [set_tub set_conns set_slave tm ts conns nconn t_broker]; rewrite ?D3, ?D4; [|exact Hc|apply H].
    apply invb_set_s; [exact D1|]. rewrite Ec. eapply goodp_dec_s; [exact Eq|exact Es|exact Gc].
  - (* ErrorBlk *)
    destruct (c_s (conns s c)) eqn:Es; try (apply Hidle; reflexivity); apply Hl; reflexivity.
  - (* Fin *)
    assert (Hcl : inv (conn_lost TS c pop_ms s)).
    { apply conn_lost_inv_s; [exact H|destruct (conns s c); reflexivity|]. eapply goodp_lost_fin_s; [exact Eq|exact Gc]. }
    destruct (c_s (conns s c)) eqn:Es; try exact Hcl.
    apply upd_c_inv; [exact H|]. apply goodp_pop_ms_closed; [rewrite Es; reflexivity|exact Gc].
Qed.

(* time passes: negotiation timers of listening ends and connector timers fire *)
Lemma goodp_srv_expire pm ps n d k : goodp pm ps k -> goodp pm ps (srv_expire n d k).
Proof.
  intros H. unfold srv_expire, srv_armed.
  destruct (negotiating (cend (server_of k) k) && (d <=? n)%Z)%bool eqn:E; [|exact H].
  apply andb_true_iff in E as [E _]. apply goodp_lose_neg; assumption.
Qed.

Lemma advance_inv dt s : inv s -> inv (do_advance dt s).
Proof.
  intros [Hb Hbd]. unfold do_advance.
  set (n := Z.max (now s) (next_time s (now s + Z.max dt 0))).
  set (s2 := set_conns (fun i => srv_expire n (sdl s i) (conns s i)) (set_now n s)).
  assert (H2 : inv s2).
  { split; [|exact Hbd]. cbn [s2 set_conns set_now tm ts conns]. intros i. apply goodp_srv_expire, Hb. }
  assert (H3 : inv (if expired TM s2 then do_timeout TM s2 else s2)).
  { destruct (expired TM s2); [apply timeout_inv|]; exact H2. }
  destruct (expired TS _); [apply timeout_inv|]; exact H3.
Qed.

Theorem step_inv s o : inv s -> inv (step s o).
Proof.
  intros H. destruct o as [x|x|c to|c x|c|x|x|x|dt|o]; cbn [step].
  - apply getref_inv, H.
  - apply dial_inv, H.
  - destruct to; destruct (Nat.ltb_spec c (nconn s)); try exact H; [apply deliver_m_inv|apply deliver_s_inv]; assumption.
  - destruct (Nat.ltb_spec c (nconn s)); [apply closeseen_inv|]; exact H.
  - destruct (Nat.ltb_spec c (nconn s)); [apply cut_inv|]; exact H.
  - apply restart_inv, H.
  - apply timeout_inv, H.
  - apply set_tub_inv; [reflexivity|exact H].
  - apply advance_inv, H.
  - exact H.
Qed.

Lemma fold_inv ops : forall s, inv s -> inv (fold_left step ops s).
Proof. induction ops as [|o r IH]; intros s H; cbn [fold_left]; [exact H|apply IH, step_inv, H]. Qed.

Theorem run_inv ops : inv (run ops).
Proof. apply fold_inv, init_inv. Qed.

(* ------------------------------------------------------------------------------------------ *)
(* 4. agreement at quiescence                                                                  *)

Lemma quiet_agree pm ps k : goodp pm ps k -> quiet_conn k = true -> (pm <-> ps).
Proof.
  destruct k as [cl g m s qms qsm cut]. unfold goodp, quiet_conn, close_pending. cbn.
  destruct qms; [|discriminate]. destruct qsm; [|discriminate]. cbn.
  intros (H1 & H2 & H3 & H4 & H5 & H6 & H7 & _ & _ & H10) Hq. apply andb_true_iff in Hq as [Qm Qs].
  destruct m, s; cbn in *; try discriminate; destruct cut; cbn in *; try discriminate;
    intuition (try congruence; try discriminate).
Qed.

Theorem agree_at_quiescence ops :
  quiescent (run ops) ->
  forall c, t_broker (tm (run ops)) = Some c <-> t_broker (ts (run ops)) = Some c.
Proof.
  intros Hq c. eapply quiet_agree; [apply (proj1 (run_inv ops) c)|apply Hq].
Qed.

(* corollaries: a broker registered in a Tub is the live end of its connection, and is unique *)
Theorem broker_is_live_end ops c :
  (t_broker (tm (run ops)) = Some c <-> c_m (conns (run ops) c) = EBrk) /\
  (t_broker (ts (run ops)) = Some c <-> c_s (conns (run ops) c) = EBrk).
Proof. destruct (proj1 (run_inv ops) c) as (H1 & H2 & _). split; assumption. Qed.

(* the quiescence hypothesis is satisfiable with a shared connection: S dials, everything is delivered *)
Example quiescent_connected :
  let s := run [GetRef TS; DialHint TS; Deliver 0 TM; Deliver 0 TS; Deliver 0 TS] in
  quiet_conn (conns s 0) = true /\ t_broker (tm s) = Some 0 /\ t_broker (ts s) = Some 0.
Proof. vm_compute. auto. Qed.

(* ... and after a cut seen by both ends: neither side has one *)
Example quiescent_after_cut :
  let s := run [GetRef TS; DialHint TS; Deliver 0 TM; Deliver 0 TS; Deliver 0 TS; Cut 0; CloseSeen 0 TM; CloseSeen 0 TS] in
  quiet_conn (conns s 0) = true /\ t_broker (tm s) = None /\ t_broker (ts s) = None.
Proof. vm_compute. auto. Qed.

(* the flap found on the real code, in the model: M restarted, S (remembering M's past life) dials two hints;
   M accepts both offers; S takes the first decision and cancels the second attempt: nobody is connected *)
Example flap_after_master_restart :
  let s := run [GetRef TS; DialHint TS; Deliver 0 TM; Deliver 0 TS; Deliver 0 TS;
                Restart TM; CloseSeen 0 TS;
                GetRef TS; DialHint TS; DialHint TS;
                Deliver 1 TM; Deliver 2 TM;            (* both offers accepted: seqnum 2 *)
                Deliver 1 TS; Deliver 1 TS;            (* S attaches link 1, cancels link 2 *)
                Deliver 1 TS; Deliver 2 TM; CloseSeen 1 TM; CloseSeen 2 TS; Deliver 2 TS; Deliver 2 TS; Deliver 2 TS;
                Deliver 1 TM] in
  t_master (tm s) = 2%Z /\ t_broker (tm s) = None /\ t_broker (ts s) = None /\ List.length (t_fired (ts s)) = 2 /\
  forallb (fun i => quiet_conn (conns s i)) (seq 0 (nconn s)) = true.
Proof. vm_compute. auto. Qed.

(* ------------------------------------------------------------------------------------------ *)
(* 5. lookups: identified waiters, virtual time                                                *)

Lemma T_pos : (0 < CONNECTION_TIMEOUT)%Z.
Proof. unfold CONNECTION_TIMEOUT. lia. Qed.

(* the numbers of all lookups that were answered or are waiting *)
Definition ids (t : tub) : list nat := map f_id (t_fired t) ++ map fst (t_waiters t).
(* between operations an armed timer lies strictly in the future (b = true); inside `Advance`, after the clock
   has moved and before the due timers have fired, it may be due now (b = false) *)
Definition dl_ok (b : bool) (n d : Z) : Prop := if b then (n < d)%Z else (n <= d)%Z.

Definition wgood (b : bool) (n : Z) (t : tub) : Prop :=
  (t_waiters t <> [] -> t_connector t <> None) /\
  (t_broker t <> None -> t_waiters t = []) /\
  Permutation (ids t) (seq 0 (t_issued t)) /\
  (t_connector t <> None -> dl_ok b n (t_deadline t) /\ (t_deadline t <= n + CONNECTION_TIMEOUT)%Z) /\
  (forall w r, In (w, r) (t_waiters t) -> (r <= n)%Z /\ (t_deadline t <= r + CONNECTION_TIMEOUT)%Z) /\
  (forall f, In f (t_fired t) -> (f_reg f <= f_at f)%Z /\ (f_at f <= f_reg f + CONNECTION_TIMEOUT)%Z /\ (f_at f <= n)%Z).
Definition winv (b : bool) (s : state) : Prop := wgood b (now s) (tm s) /\ wgood b (now s) (ts s).

Lemma dl_ok_le b n d : dl_ok b n d -> (n <= d)%Z.
Proof. destruct b; cbn; lia. Qed.
Lemma dl_ok_fresh b n : dl_ok b n (n + CONNECTION_TIMEOUT)%Z.
Proof. pose proof T_pos. destruct b; cbn; lia. Qed.

Lemma perm_mid {A} (l1 l2 : list A) x : Permutation (l1 ++ [x] ++ l2) ((l1 ++ l2) ++ [x]).
Proof. rewrite <- app_assoc. apply Permutation_app_head. apply Permutation_cons_append. Qed.

Lemma wgood_getref b n t : wgood b n t -> wgood b n (getref_tub n t).
Proof.
  intros (H1 & H2 & H3 & H4 & H5 & H6). pose proof T_pos as HT. unfold getref_tub.
  destruct (t_broker t) as [e|] eqn:Eb.
  - unfold wgood, ids. cbn [t_waiters t_connector t_broker t_fired t_issued t_deadline].
    split; [exact H1|]. split; [intros _; apply H2; discriminate|]. split.
    { rewrite map_app, <- app_assoc, seq_S. cbn [plus map f_id].
      eapply Permutation_trans; [apply perm_mid|]. apply Permutation_app_tail. exact H3. }
    split; [exact H4|]. split; [exact H5|].
    intros f Hf. apply in_app_or in Hf as [Hf|[<-|[]]]; [apply H6, Hf|]. cbn. lia.
  - destruct (t_connector t) as [g|] eqn:Ec.
    + unfold wgood, ids. cbn [t_waiters t_connector t_broker t_fired t_issued t_deadline].
      split; [intros _; discriminate|]. split; [intros C; contradiction C; reflexivity|]. split.
      { rewrite map_app, app_assoc, seq_S. cbn [plus map fst]. apply Permutation_app_tail. exact H3. }
      split; [exact H4|]. split; [|exact H6].
      intros w r Hw. apply in_app_or in Hw as [Hw|[E|[]]]; [apply (H5 w r), Hw|]. inversion E; subst.
      destruct H4 as [_ H4]; [discriminate|]. lia.
    + assert (Hw0 : t_waiters t = []).
      { destruct (t_waiters t) eqn:E; [reflexivity|]. exfalso. apply H1; [discriminate|reflexivity]. }
      unfold wgood, ids. cbn [t_waiters t_connector t_broker t_fired t_issued t_deadline]. rewrite Hw0 in *.
      split; [intros _; discriminate|]. split; [intros C; contradiction C; reflexivity|]. split.
      { cbn [app map fst]. rewrite seq_S. cbn [plus]. apply Permutation_app_tail.
        unfold ids in H3. rewrite Hw0 in H3. cbn [map] in H3. rewrite app_nil_r in H3. exact H3. }
      split; [intros _; split; [apply dl_ok_fresh|lia]|]. split; [|exact H6].
      intros w r [E|[]]. inversion E; subst. lia.
Qed.

(* all waiters are answered at time n and the connector is forgotten: holds with either flag afterwards *)
Lemma wgood_fire_all b b' n ok t t' :
  wgood b n t ->
  t_connector t' = None -> t_waiters t' = [] -> t_issued t' = t_issued t ->
  t_fired t' = t_fired t ++ map (fun w => mkfired (fst w) (snd w) n ok) (t_waiters t) ->
  wgood b' n t'.
Proof.
  intros (H1 & H2 & H3 & H4 & H5 & H6) Ec Ew Ei Ef. unfold wgood, ids. rewrite Ec, Ew, Ei, Ef.
  split; [intros C; contradiction C; reflexivity|]. split; [reflexivity|]. split.
  { rewrite map_app, map_map. cbn [f_id map app]. rewrite app_nil_r. exact H3. }
  split; [intros C; contradiction C; reflexivity|]. split; [intros w r []|].
  intros f Hf. apply in_app_or in Hf as [Hf|Hf]; [apply H6, Hf|].
  apply in_map_iff in Hf as ([w r] & <- & Hw). cbn [f_reg f_at fst snd].
  destruct (H5 w r Hw) as [Hr Hd].
  assert (Hc : t_connector t <> None) by (apply H1; intros E; rewrite E in Hw; exact Hw).
  destruct (H4 Hc) as [Hk _]. apply dl_ok_le in Hk. lia.
Qed.

Lemma wgood_flag_none b b' n t : t_connector t = None -> wgood b n t -> wgood b' n t.
Proof.
  intros Ec H. unfold wgood in *. rewrite Ec in *. destruct H as (H1 & H2 & H3 & H4 & H5 & H6).
  split; [exact H1|]. split; [exact H2|]. split; [exact H3|]. split; [intros C; contradiction C; reflexivity|]. split; assumption.
Qed.

Lemma wgood_ext b n t t' :
  t_broker t' = t_broker t -> t_connector t' = t_connector t -> t_deadline t' = t_deadline t ->
  t_waiters t' = t_waiters t -> t_fired t' = t_fired t -> t_issued t' = t_issued t -> wgood b n t -> wgood b n t'.
Proof. unfold wgood, ids. intros -> -> -> -> -> ->. auto. Qed.

(* uses the ORDER read from Tub.connectionFailed: the connector is forgotten before the errbacks run, so a lookup
   issued from inside an errback starts a new connector *)
Lemma wgood_gone b b' n t : wgood b n t -> wgood b' n (connector_gone n t).
Proof.
  intros H. unfold connector_gone, connection_failed_forgets_first. cbn [set_connector t_broker].
  destruct (t_broker t) as [e|] eqn:Eb.
  - apply (wgood_flag_none b); [reflexivity|]. destruct H as (H1 & H2 & H3 & H4 & H5 & H6).
    assert (Hw : t_waiters t = []) by (apply H2; rewrite Eb; discriminate).
    unfold wgood, ids. cbn [set_connector t_waiters t_connector t_broker t_fired t_issued t_deadline].
    split; [rewrite Hw; intros C; contradiction C; reflexivity|]. split; [intros _; exact Hw|]. split; [exact H3|].
    split; [intros C; contradiction C; reflexivity|]. split; assumption.
  - unfold errback_all.
    assert (Hf : forall b2, wgood b2 n (fire n false (set_connector None t))).
    { intros b2. eapply wgood_fire_all; [exact H| | | |]; reflexivity. }
    destruct (t_retry (set_connector None t) && negb (Nat.eqb (List.length (t_waiters (set_connector None t))) 0))%bool.
    + apply wgood_getref. eapply wgood_ext; [| | | | | |apply (Hf b')]; reflexivity.
    + apply Hf.
Qed.

Lemma wgood_attach b b' n c t : wgood b n t -> wgood b' n (fire n true (set_bcreated n (set_broker (Some c) (set_connector None t)))).
Proof. intros H. eapply wgood_fire_all; [exact H| | | |]; reflexivity. Qed.

Lemma wgood_nobroker b n t : wgood b n t -> wgood b n (set_broker None t).
Proof.
  intros (H1 & H2 & H3 & H4 & H5 & H6). unfold wgood, ids. cbn [set_broker t_waiters t_connector t_broker t_fired t_issued t_deadline].
  split; [exact H1|]. split; [intros C; contradiction C; reflexivity|]. repeat (split; [assumption|]). assumption.
Qed.

(* the clock moves from n to n', not beyond an armed deadline *)
Lemma wgood_mono b n n' t : wgood b n t -> (n <= n')%Z -> (t_connector t <> None -> (n' <= t_deadline t)%Z) -> wgood false n' t.
Proof.
  intros (H1 & H2 & H3 & H4 & H5 & H6) Hn Hd. unfold wgood.
  split; [exact H1|]. split; [exact H2|]. split; [exact H3|]. split.
  { intros Hc. destruct (H4 Hc) as [_ Hk]. specialize (Hd Hc). cbn. lia. }
  split; [intros w r Hw; destruct (H5 w r Hw); lia|]. intros f Hf. destruct (H6 f Hf) as (? & ? & ?). lia.
Qed.
Lemma wgood_strict n t : wgood false n t -> (t_connector t <> None -> (n < t_deadline t)%Z) -> wgood true n t.
Proof.
  intros (H1 & H2 & H3 & H4 & H5 & H6) Hd. unfold wgood.
  split; [exact H1|]. split; [exact H2|]. split; [exact H3|]. split; [|split; assumption].
  intros Hc. destruct (H4 Hc) as [_ Hk]. split; [cbn; apply Hd, Hc|exact Hk].
Qed.

Lemma now_set_tub x t s : now (set_tub x t s) = now s.
Proof. destruct x; reflexivity. Qed.
Lemma tubof_set_tub x t s : tubof x (set_tub x t s) = t.
Proof. destruct x; reflexivity. Qed.

Lemma winv_set_tub b x t s : winv b s -> wgood b (now s) t -> winv b (set_tub x t s).
Proof. intros [Hm Hs] Ht. destruct x; split; cbn; assumption. Qed.
Lemma winv_tubof b x s : winv b s -> wgood b (now s) (tubof x s).
Proof. intros [Hm Hs]. destruct x; assumption. Qed.

Lemma winv_connector_failed b x g s : winv b s -> winv b (connector_failed x g s).
Proof.
  intros H. unfold connector_failed. destruct (t_connector (tubof x s)); [|exact H].
  destruct (Nat.eqb g n && negb (any_pending x g s))%bool; [|exact H].
  apply winv_set_tub; [exact H|eapply wgood_gone, winv_tubof, H].
Qed.

Lemma winv_conn_lost b x c pre s : winv b s -> winv b (conn_lost x c pre s).
Proof.
  intros H. unfold conn_lost.
  set (s1 := set_conns (upd (conns s) c (set_end x ELost (pre (conns s c)))) s).
  assert (H1 : winv b s1) by exact H.
  destruct (cend x (pre (conns s c))); try exact H1;
    try (destruct (tub_eqb (c_client (pre (conns s c))) x); [apply winv_connector_failed|]; exact H1).
  destruct (t_broker (tubof x s1)); [|exact H1]. destruct (Nat.eqb n c); [|exact H1].
  apply winv_set_tub; [exact H1|apply wgood_nobroker, (winv_tubof b x s1 H1)].
Qed.

Lemma winv_drop b x s : winv b s -> winv b (drop_existing x s).
Proof.
  intros H. unfold drop_existing. destruct (t_broker (tubof x s)); [|exact H].
  apply winv_set_tub; [exact H|apply wgood_nobroker, (winv_tubof b x s H)].
Qed.

Lemma winv_attach b x c s : winv b s -> winv b (attach x c s).
Proof.
  intros H. unfold attach.
  match goal with |- winv b (set_tub x _ ?s1) => assert (H1 : winv b s1 /\ now s1 = now s) end.
  { destruct (tub_eqb (c_client (conns s c)) x); [split; [exact H|reflexivity]|].
    destruct (t_connector (tubof x s)); split; try exact H; reflexivity. }
  destruct H1 as [H1 En]. apply winv_set_tub; [exact H1|]. rewrite En. eapply wgood_attach. rewrite <- En. apply winv_tubof, H1.
Qed.

Lemma winv_master_accept b c inc s : winv b s -> winv b (master_accept c inc s).
Proof.
  intros [Hm Hs]. unfold master_accept. apply winv_attach. split; cbn [set_tub set_conns tm ts now]; [|exact Hs].
  eapply wgood_ext; [| | | | | |exact Hm]; reflexivity.
Qed.

Lemma winv_deliver_m b c s : winv b s -> winv b (deliver_m c s).
Proof.
  intros H. unfold deliver_m. destruct (c_qsm (conns s c)) as [|m q]; [exact H|].
  destruct m.
  - destruct (c_m (conns s c)); try exact H.
    match goal with |- context [t_broker (tm ?s0)] => assert (H0 : winv b s0) by exact H end.
    destruct (t_broker (tm _)).
    + destruct (compare_offer _ _ _ _ _ _ _) as [[|]|]; try exact H0. apply winv_master_accept, winv_drop, H0.
    + apply winv_master_accept, H0.
  - destruct (c_m (conns s c)); exact H.
  - destruct (c_m (conns s c)); exact H.
  - destruct (c_m (conns s c)); try exact H; apply winv_conn_lost, H.
Qed.

Lemma winv_deliver_s b c s : winv b s -> winv b (deliver_s c s).
Proof.
  intros H. unfold deliver_s. destruct (c_qms (conns s c)) as [|m q]; [exact H|].
  destruct m.
  - destruct (c_s (conns s c)); exact H.
  - destruct (c_s (conns s c)); try exact H.
    apply winv_attach. pose proof (winv_drop b TS s H) as [Dm Ds]. split; cbn [set_tub set_conns tm ts now]; [exact Dm|].
    eapply wgood_ext; [| | | | | |exact Ds]; reflexivity.
  - destruct (c_s (conns s c)); exact H.
  - destruct (c_s (conns s c)); try exact H; apply winv_conn_lost, H.
Qed.

Lemma winv_getref b x s : winv b s -> winv b (do_getref x s).
Proof. intros H. unfold do_getref. apply winv_set_tub; [exact H|apply wgood_getref, winv_tubof, H]. Qed.

(* the connector's timer fires (or is forced): afterwards the flag is whatever is wanted for x; the other Tub is untouched *)
Lemma timeout_self b b' x s : wgood b (now s) (tubof x s) -> wgood b' (now s) (tubof x (do_timeout x s)).
Proof.
  intros H. unfold do_timeout. destruct (t_connector (tubof x s)) eqn:Ec.
  - rewrite tubof_set_tub. assert (E1 : tubof x (map_conns (cancel x n) s) = tubof x s) by (destruct x; reflexivity).
    rewrite E1. cbn [map_conns set_conns now]. eapply wgood_gone, H.
  - eapply wgood_flag_none; [exact Ec|exact H].
Qed.
Lemma timeout_now x s : now (do_timeout x s) = now s.
Proof. unfold do_timeout. destruct (t_connector (tubof x s)); [|reflexivity]. rewrite now_set_tub. reflexivity. Qed.
Lemma timeout_other_m s : tm (do_timeout TS s) = tm s.
Proof. unfold do_timeout. destruct (t_connector (tubof TS s)); reflexivity. Qed.
Lemma timeout_other_s s : ts (do_timeout TM s) = ts s.
Proof. unfold do_timeout. destruct (t_connector (tubof TM s)); reflexivity. Qed.

Lemma winv_timeout b x s : winv b s -> winv b (do_timeout x s).
Proof.
  intros [Hm Hs]. split; rewrite timeout_now; destruct x.
  - apply (timeout_self b b TM s Hm).
  - rewrite timeout_other_m. exact Hm.
  - rewrite timeout_other_s. exact Hs.
  - apply (timeout_self b b TS s Hs).
Qed.

(* a step other than the passage of time keeps the invariant with either flag *)
Lemma step_winv_untimed b s o : (forall dt, o <> Advance dt) -> winv b s -> winv b (step s o).
Proof.
  intros Hna H. destruct o as [x|x|c to|c x|c|x|x|x|dt|o]; cbn [step].
  - apply winv_getref, H.
  - unfold do_dial. destruct (t_connector (tubof x s)); exact H.
  - destruct to; destruct (Nat.ltb c (nconn s)); try exact H; [apply winv_deliver_m|apply winv_deliver_s]; exact H.
  - destruct (Nat.ltb c (nconn s)); [|exact H]. unfold do_closeseen. destruct (close_pending x (conns s c)); [|exact H].
    apply winv_conn_lost, H.
  - destruct (Nat.ltb c (nconn s)); exact H.
  - unfold do_restart. apply winv_set_tub; [exact H|]. unfold wgood, new_tub, ids. cbn.
    split; [intros C; contradiction C; reflexivity|]. split; [reflexivity|]. split; [constructor|].
    split; [intros C; contradiction C; reflexivity|]. split; [intros w r []|intros f []].
  - apply winv_timeout, H.
  - apply winv_set_tub; [exact H|]. eapply wgood_ext; [| | | | | |exact (winv_tubof b x s H)]; reflexivity.
  - exfalso. apply (Hna dt). reflexivity.
  - exact H.
Qed.

Lemma fold_min_le (P : nat -> bool) (f : nat -> Z) l : forall a, (fold_left (fun n i => if P i then Z.min n (f i) else n) l a <= a)%Z.
Proof.
  induction l as [|i l IH]; intros a; cbn [fold_left]; [lia|].
  eapply Z.le_trans; [apply IH|]. destruct (P i); lia.
Qed.

Lemma next_time_le s n0 :
  (next_time s n0 <= n0)%Z /\
  (t_connector (tm s) <> None -> next_time s n0 <= t_deadline (tm s))%Z /\
  (t_connector (ts s) <> None -> next_time s n0 <= t_deadline (ts s))%Z.
Proof.
  unfold next_time.
  match goal with |- context [fold_left ?g ?l ?a] =>
    pose proof (fold_min_le (fun i => srv_armed (conns s i) && (now s <? sdl s i)%Z)%bool (sdl s) l a) as Hf end.
  cbv beta in Hf.
  destruct (t_connector (tm s)), (t_connector (ts s)); repeat split; try (intros C; contradiction C; reflexivity); intros; lia.
Qed.

Lemma winv_advance dt s : winv true s -> winv true (do_advance dt s).
Proof.
  intros [Hm Hs]. unfold do_advance.
  set (n := Z.max (now s) (next_time s (now s + Z.max dt 0))).
  destruct (next_time_le s (now s + Z.max dt 0)) as (_ & Lm & Ls).
  assert (Hn : (now s <= n)%Z) by (unfold n; lia).
  assert (Hdm : t_connector (tm s) <> None -> (n <= t_deadline (tm s))%Z).
  { intros Hc. specialize (Lm Hc). destruct Hm as (_ & _ & _ & H4 & _). destruct (H4 Hc) as [Hk _]. cbn in Hk. unfold n. lia. }
  assert (Hds : t_connector (ts s) <> None -> (n <= t_deadline (ts s))%Z).
  { intros Hc. specialize (Ls Hc). destruct Hs as (_ & _ & _ & H4 & _). destruct (H4 Hc) as [Hk _]. cbn in Hk. unfold n. lia. }
  set (s2 := set_conns (fun i => srv_expire n (sdl s i) (conns s i)) (set_now n s)).
  assert (Gm : wgood false n (tm s2)) by (eapply wgood_mono; [exact Hm|exact Hn|exact Hdm]).
  assert (Gs : wgood false n (ts s2)) by (eapply wgood_mono; [exact Hs|exact Hn|exact Hds]).
  assert (En2 : now s2 = n) by reflexivity.
  (* M's timer *)
  set (s3 := if expired TM s2 then do_timeout TM s2 else s2).
  assert (G3 : wgood true n (tm s3) /\ wgood false n (ts s3) /\ now s3 = n).
  { unfold s3. destruct (expired TM s2) eqn:Ex.
    - rewrite timeout_now, timeout_other_s. split; [|split; [exact Gs|exact En2]].
      rewrite <- En2. apply (timeout_self false true TM s2). rewrite En2. exact Gm.
    - split; [|split; [exact Gs|exact En2]]. apply wgood_strict; [exact Gm|].
      intros Hc. unfold expired in Ex. cbn [tubof] in Ex. destruct (t_connector (tm s2)); [|contradiction Hc; reflexivity].
      rewrite En2 in Ex. apply Z.leb_gt in Ex. exact Ex. }
  destruct G3 as (G3m & G3s & En3).
  destruct (expired TS s3) eqn:Ex.
  - split; rewrite timeout_now, En3.
    + rewrite timeout_other_m. exact G3m.
    + rewrite <- En3. apply (timeout_self false true TS s3). rewrite En3. exact G3s.
  - split; rewrite En3; [exact G3m|]. apply wgood_strict; [exact G3s|].
    intros Hc. unfold expired in Ex. cbn [tubof] in Ex. destruct (t_connector (ts s3)); [|contradiction Hc; reflexivity].
    rewrite En3 in Ex. apply Z.leb_gt in Ex. exact Ex.
Qed.

Theorem step_winv s o : winv true s -> winv true (step s o).
Proof.
  intros H. destruct o as [x|x|c to|c x|c|x|x|x|dt|o]; try (apply step_winv_untimed; [intros dt'; discriminate|exact H]).
  apply winv_advance, H.
Qed.

Theorem run_winv ops : winv true (run ops).
Proof.
  unfold run. assert (G : forall l s, winv true s -> winv true (fold_left step l s)).
  { induction l as [|o r IH]; intros s H; cbn [fold_left]; [exact H|apply IH, step_winv, H]. }
  apply G. split; unfold wgood, ids; cbn;
    (split; [intros C; contradiction C; reflexivity|]; split; [reflexivity|]; split; [constructor|];
     split; [intros C; contradiction C; reflexivity|]; split; [intros w r []|intros f []]).
Qed.

(* ------------------------------------------------------------------------------------------ *)
(* 6. every lookup is answered, once, within CONNECTION_TIMEOUT                                *)

(* when the connector is gone (success, every attempt failed, or time-out) nobody is left waiting *)
Theorem waiters_fire ops x : t_connector (tubof x (run ops)) = None -> t_waiters (tubof x (run ops)) = [].
Proof.
  intros E. destruct (winv_tubof true x _ (run_winv ops)) as (W1 & _).
  destruct (t_waiters (tubof x (run ops))) eqn:Ew; [reflexivity|]. exfalso. apply W1; [discriminate|exact E].
Qed.

(* no lookup is lost or answered twice: the numbers of the answered and the waiting lookups are exactly 0 .. issued-1,
   each once; nobody waits while a connection exists *)
Theorem lookups_accounted ops x :
  let t := tubof x (run ops) in
  NoDup (map f_id (t_fired t) ++ map fst (t_waiters t)) /\
  (forall w, In w (map f_id (t_fired t) ++ map fst (t_waiters t)) <-> w < t_issued t) /\
  (t_broker t <> None -> t_waiters t = []).
Proof.
  cbv zeta. destruct (winv_tubof true x _ (run_winv ops)) as (_ & W2 & W3 & _). fold (ids (tubof x (run ops))).
  split; [|split; [|exact W2]].
  - eapply Permutation_NoDup; [apply Permutation_sym, W3|apply seq_NoDup].
  - intros w. split; intros H.
    + apply (Permutation_in _ W3) in H. apply in_seq in H. lia.
    + apply (Permutation_in _ (Permutation_sym W3)). apply in_seq. lia.
Qed.

(* every answer came within CONNECTION_TIMEOUT of the lookup (and not before it) *)
Theorem fired_within_timeout ops x f :
  In f (t_fired (tubof x (run ops))) ->
  (f_reg f <= f_at f)%Z /\ (f_at f <= f_reg f + CONNECTION_TIMEOUT)%Z /\ (f_at f <= now (run ops))%Z.
Proof. intros H. destruct (winv_tubof true x _ (run_winv ops)) as (_ & _ & _ & _ & _ & W6). apply W6, H. Qed.

(* whoever still waits has a live connector whose armed timer fires within CONNECTION_TIMEOUT of the lookup, and that
   moment has not passed: no lookup is ever waiting at (time of the lookup + CONNECTION_TIMEOUT) *)
Theorem waiting_has_armed_timer ops x w r :
  In (w, r) (t_waiters (tubof x (run ops))) ->
  t_connector (tubof x (run ops)) <> None /\
  (r <= now (run ops))%Z /\ (now (run ops) < t_deadline (tubof x (run ops)))%Z /\
  (t_deadline (tubof x (run ops)) <= r + CONNECTION_TIMEOUT)%Z.
Proof.
  intros H. destruct (winv_tubof true x _ (run_winv ops)) as (W1 & _ & _ & W4 & W5 & _).
  assert (Hc : t_connector (tubof x (run ops)) <> None) by (apply W1; intros E; rewrite E in H; exact H).
  destruct (W4 Hc) as [Hk _]. cbn in Hk. destruct (W5 w r H). auto.
Qed.

(* the two together: a lookup number that has been handed out is answered exactly once within the time-out, or it is
   waiting and its time-out has not been reached *)
Theorem every_lookup_fires_within_timeout ops x w :
  let t := tubof x (run ops) in
  w < t_issued t ->
  (exists f, In f (t_fired t) /\ f_id f = w /\ (f_reg f <= f_at f <= f_reg f + CONNECTION_TIMEOUT)%Z) \/
  (exists r, In (w, r) (t_waiters t) /\ (r <= now (run ops) < r + CONNECTION_TIMEOUT)%Z).
Proof.
  cbv zeta. intros Hw. destruct (lookups_accounted ops x) as (_ & Hin & _). cbv zeta in Hin.
  apply Hin in Hw. apply in_app_or in Hw as [Hw|Hw].
  - left. apply in_map_iff in Hw as (f & Ef & Hf). exists f. split; [exact Hf|]. split; [exact Ef|].
    destruct (fired_within_timeout ops x f Hf) as (? & ? & _). lia.
  - right. apply in_map_iff in Hw as ([w' r] & Ef & Hf). cbn in Ef. subst w'. exists r. split; [exact Hf|].
    destruct (waiting_has_armed_timer ops x w r Hf) as (_ & ? & ? & ?). lia.
Qed.

(* time can always pass (the model never blocks the clock): Advance by dt > 0 moves the clock forward *)
Lemma fold_min_gt (P : nat -> bool) (f : nat -> Z) lo l :
  (forall i, P i = true -> (lo < f i)%Z) -> forall a, (lo < a)%Z -> (lo < fold_left (fun n i => if P i then Z.min n (f i) else n) l a)%Z.
Proof.
  intros HP. induction l as [|i l IH]; intros a Ha; cbn [fold_left]; [exact Ha|].
  apply IH. destruct (P i) eqn:E; [specialize (HP i E); lia|exact Ha].
Qed.

Lemma now_advance dt s : now (do_advance dt s) = Z.max (now s) (next_time s (now s + Z.max dt 0)).
Proof.
  unfold do_advance.
  repeat match goal with |- context [if ?b then _ else _] => destruct b end; rewrite ?timeout_now; reflexivity.
Qed.

Theorem time_passes ops dt : (0 < dt)%Z -> (now (run ops) < now (step (run ops) (Advance dt)))%Z.
Proof.
  intros Hdt. cbn [step]. rewrite now_advance. set (s := run ops).
  destruct (run_winv ops) as [Hm Hs]. fold s in Hm, Hs.
  assert (Lm : t_connector (tm s) <> None -> (now s < t_deadline (tm s))%Z).
  { intros Hc. destruct Hm as (_ & _ & _ & H4 & _). destruct (H4 Hc) as [Hk _]. exact Hk. }
  assert (Ls : t_connector (ts s) <> None -> (now s < t_deadline (ts s))%Z).
  { intros Hc. destruct Hs as (_ & _ & _ & H4 & _). destruct (H4 Hc) as [Hk _]. exact Hk. }
  assert (G : (now s < next_time s (now s + Z.max dt 0))%Z); [|lia].
  unfold next_time. apply (fold_min_gt (fun i => srv_armed (conns s i) && (now s <? sdl s i)%Z)%bool (sdl s)).
  - intros i E. apply andb_true_iff in E as [_ E]. apply Z.ltb_lt in E. exact E.
  - destruct (t_connector (tm s)); [specialize (Lm ltac:(discriminate))|];
      (destruct (t_connector (ts s)); [specialize (Ls ltac:(discriminate))|]); lia.
Qed.

(* the forced firing of the connector's timer answers everybody who was waiting (no retry armed: nobody waits afterwards) *)
Theorem timeout_answers_all ops x :
  let s := run ops in let s' := step s (Timeout x) in
  (t_waiters (tubof x s) <> [] -> t_connector (tubof x s) <> None) /\
  (t_retry (tubof x s) = false -> t_waiters (tubof x s') = []) /\
  (forall w r, In (w, r) (t_waiters (tubof x s)) -> t_broker (tubof x s) = None /\
     In (mkfired w r (now s) false) (t_fired (tubof x s'))).
Proof.
  cbv zeta. pose proof (winv_tubof true x _ (run_winv ops)) as W. destruct W as (W1 & W2 & _).
  split; [exact W1|]. cbn [step]. unfold do_timeout.
  destruct (t_connector (tubof x (run ops))) as [g|] eqn:Ec.
  - set (s1 := map_conns (cancel x g) (run ops)). rewrite tubof_set_tub.
    assert (E1 : tubof x s1 = tubof x (run ops)) by (destruct x; reflexivity). rewrite E1.
    assert (En : now s1 = now (run ops)) by reflexivity. rewrite En.
    unfold connector_gone, connection_failed_forgets_first, errback_all. cbn [set_connector t_broker t_retry t_waiters].
    destruct (t_broker (tubof x (run ops))) eqn:Eb.
    + assert (Hw : t_waiters (tubof x (run ops)) = []) by (apply W2; discriminate). rewrite Hw.
      split; [intros _; cbn; exact Hw|]. intros w r [].
    + split.
      * intros ->. cbn [andb]. reflexivity.
      * intros w r Hw. split; [reflexivity|].
        assert (G : In (mkfired w r (now (run ops)) false) (t_fired (fire (now (run ops)) false (set_connector None (tubof x (run ops)))))).
        { cbn [fire set_connector t_fired t_waiters]. apply in_or_app. right.
          apply in_map_iff. exists (w, r). split; [reflexivity|exact Hw]. }
        match goal with |- context [if ?b then _ else _] => destruct b end; [|exact G].
        unfold getref_tub. cbn [set_retry fire set_connector t_broker t_connector]. rewrite Eb.
        cbn [t_fired]. exact G.
  - split; [|intros w r Hw; exfalso; apply W1; [intros E; rewrite E in Hw; exact Hw|reflexivity]].
    intros _. destruct (t_waiters (tubof x (run ops))) eqn:Ew; [reflexivity|]. exfalso. apply W1; [discriminate|reflexivity].
Qed.

(* a lookup whose connector fails synchronously (Converge.nohints_ops) is a schedule of the model: every theorem about
   `run ops` holds for the harness's schedules with such lookups *)
Lemma hrun_from_run hs : forall ops0, exists ops, fold_left hstep hs (run ops0) = run ops.
Proof.
  induction hs as [|h hs IH]; intros ops0; cbn [fold_left].
  - exists ops0. reflexivity.
  - assert (E : exists ops1, hstep (run ops0) h = run ops1).
    { destruct h as [o|x]; cbn [hstep].
      - exists (ops0 ++ [o]). unfold run. rewrite fold_left_app. reflexivity.
      - exists (ops0 ++ nohints_ops x (run ops0)). symmetry. unfold run at 1. rewrite fold_left_app. reflexivity. }
    destruct E as [ops1 E]. rewrite E. apply IH.
Qed.

Theorem hrun_is_run hs : exists ops, hrun hs = run ops.
Proof. unfold hrun. change init with (run []). apply hrun_from_run. Qed.

(* ... and it is answered at once: the lookup is errbacked at the moment it is made; without an armed retry the Tub is
   left with NO connector and nobody waiting (so the next lookup starts a connector, with a time-out, of its own: getref_tub);
   with one, the retry made from inside the errback waits on a new connector whose timer runs from now.
   Uses the order of effects read from Tub.connectionFailed; the registration of the connector BEFORE connect() is a
   translated shape fact of Tub.getBrokerForTubRef (translate/g_converge.py) *)
Theorem sync_failure_answered_at_once ops x :
  let s := run ops in
  t_broker (tubof x s) = None -> t_connector (tubof x s) = None ->
  let s' := fold_left step (nohints_ops x s) s in
  now s' = now s /\
  In (mkfired (t_issued (tubof x s)) (now s) (now s) false) (t_fired (tubof x s')) /\
  (t_retry (tubof x s) = false -> t_connector (tubof x s') = None /\ t_waiters (tubof x s') = []) /\
  (t_retry (tubof x s) = true ->
     t_waiters (tubof x s') = [(S (t_issued (tubof x s)), now s)] /\ t_connector (tubof x s') <> None /\
     t_deadline (tubof x s') = (now s + CONNECTION_TIMEOUT)%Z /\ t_retry (tubof x s') = false).
Proof.
  cbv zeta. intros Eb Ec.
  pose proof (winv_tubof true x _ (run_winv ops)) as W. destruct W as (W1 & _).
  assert (Ew : t_waiters (tubof x (run ops)) = []).
  { destruct (t_waiters (tubof x (run ops))) eqn:E; [reflexivity|]. exfalso. apply W1; [discriminate|exact Ec]. }
  unfold nohints_ops. rewrite Eb, Ec. cbn [fold_left step]. unfold do_timeout, do_getref.
  rewrite tubof_set_tub.
  assert (Ecn : t_connector (getref_tub (now (run ops)) (tubof x (run ops))) = Some (t_gen (tubof x (run ops)))).
  { unfold getref_tub. rewrite Eb, Ec. reflexivity. }
  rewrite Ecn.
  set (t1 := getref_tub (now (run ops)) (tubof x (run ops))).
  set (s0 := set_tub x t1 (run ops)).
  set (s1 := map_conns (cancel x (t_gen (tubof x (run ops)))) s0).
  assert (E1 : tubof x s1 = t1) by (destruct x; reflexivity).
  assert (En : now s1 = now (run ops)) by (destruct x; reflexivity).
  rewrite tubof_set_tub, E1, En.
  assert (Et : t1 = getref_tub (now (run ops)) (tubof x (run ops))) by reflexivity.
  unfold getref_tub in Et. rewrite Eb, Ec, Ew in Et. cbn [app] in Et.
  split; [destruct x; reflexivity|].
  rewrite Et. unfold connector_gone, connection_failed_forgets_first, errback_all.
  cbn [set_connector t_broker t_retry t_waiters List.length Nat.eqb negb andb fire map fst snd t_fired].
  destruct (t_retry (tubof x (run ops))) eqn:Er; cbn [andb].
  - unfold getref_tub. cbn [set_retry t_broker t_connector t_fired t_waiters t_issued t_deadline t_retry t_gen app].
    split; [apply in_or_app; right; left; reflexivity|].
    split; [discriminate|]. intros _.
    split; [reflexivity|]. split; [discriminate|]. split; reflexivity.
  - cbn [t_fired t_connector t_waiters].
    split; [apply in_or_app; right; left; reflexivity|].
    split; [intros _; split; reflexivity|discriminate].
Qed.

(* with a Broker or a live connector the hints are not looked at: it is an ordinary lookup *)
Lemma nohints_is_plain_lookup x s :
  t_broker (tubof x s) <> None \/ t_connector (tubof x s) <> None -> nohints_ops x s = [GetRef x].
Proof.
  unfold nohints_ops. intros [H|H]; destruct (t_broker (tubof x s)); destruct (t_connector (tubof x s)); try reflexivity;
    exfalso; apply H; reflexivity.
Qed.

(* no hints at all; no hints with a retry armed for the errback (which dials one good hint) *)
Example sync_failure_examples :
  let s := hrun [GetRefNoHints TS] in
  t_fired (ts s) = [mkfired 0 0 0 false] /\ t_connector (ts s) = None /\ t_waiters (ts s) = [] /\
  let s2 := hrun [GetRefNoHints TS; Plain (GetRef TS); Plain (DialHint TS); Plain (Deliver 0 TM); Plain (Deliver 0 TS); Plain (Deliver 0 TS)] in
  t_fired (ts s2) = [mkfired 0 0 0 false; mkfired 1 0 0 true] /\ t_broker (ts s2) = Some 0%nat /\ t_broker (tm s2) = Some 0%nat /\
  let s3 := hrun [Plain (ArmRetry TM); Plain (Advance 7); GetRefNoHints TM; Plain (DialHint TM); GetRefNoHints TM] in
  t_fired (tm s3) = [mkfired 0 7 7 false] /\ t_waiters (tm s3) = [(1%nat, 7%Z); (2%nat, 7%Z)] /\ t_deadline (tm s3) = 127%Z.
Proof. vm_compute. repeat split. Qed.

(* the instant retry: a lookup fails at the time-out, its errback looks the Tub up again at once; the new lookup waits
   on a NEW connector and is answered by that connector's own time-out, CONNECTION_TIMEOUT later *)
Example retry_from_errback :
  let s := run [GetRef TM; DialHint TM; ArmRetry TM; Advance 500] in
  now s = 120%Z /\ t_fired (tm s) = [mkfired 0 0 120 false] /\ t_waiters (tm s) = [(1, 120%Z)] /\ t_connector (tm s) = Some 1 /\
  t_deadline (tm s) = 240%Z /\
  let s' := step s (Advance 500) in now s' = 240%Z /\ t_waiters (tm s') = [] /\
  t_fired (tm s') = [mkfired 0 0 120 false; mkfired 1 120 240 false].
Proof. vm_compute. repeat split. Qed.

(* two lookups at different times share the connector of the first: both are answered when ITS timer fires *)
Example waiting_then_timeout :
  let s := run [GetRef TM; DialHint TM; DialHint TM; Advance 50; GetRef TM; Advance 60] in
  now s = 110%Z /\ t_waiters (tm s) = [(0, 0%Z); (1, 50%Z)] /\
  let s' := step s (Advance 60) in
  now s' = 120%Z /\ t_waiters (tm s') = [] /\ t_fired (tm s') = [mkfired 0 0 120 false; mkfired 1 50 120 false].
Proof. vm_compute. repeat split. Qed.

(* the listening end's own negotiation timer: S's hello never arrives; M (listening) hangs up at SERVER_TIMEOUT *)
Example server_timer_fires :
  let s := run [GetRef TS; Advance 10; DialHint TS; Timeout TS; GetRef TS; Advance 200] in
  now s = 130%Z /\ c_m (conns s 0) = ECloNeg.
Proof. vm_compute. repeat split. Qed.

(* ------------------------------------------------------------------------------------------ *)
(* 7. the non-master records the connection it accepts, whoever dialled it                     *)

(* uses slave_table_recorded_always, read from acceptDecisionVersion1 *)
Lemma slave_records_decision c s i q rest :
  Nat.ltb c (nconn s) = true -> c_qms (conns s c) = Decision i q :: rest -> c_s (conns s c) = EDec ->
  t_slave (ts (step s (Deliver c TS))) = Some (i, q) /\ t_broker (ts (step s (Deliver c TS))) = Some c.
Proof.
  intros Hc Eq Es. cbn [step]. rewrite Hc. unfold deliver_s. rewrite Eq, Es. unfold attach.
  cbn [tubof ts set_tub]. unfold slave_table_recorded_always. cbn [orb].
  match goal with |- context [if ?b then _ else _] => destruct b end;
    try (match goal with |- context [match ?o with Some _ => _ | None => _ end] => destruct o end); cbn; auto.
Qed.

(* ------------------------------------------------------------------------------------------ *)
(* 8. the decision lemmas lifted to the two-Tub model: what the master's Tub does with an offer *)

Lemma deliver_m_offer s c inc last rest e :
  Nat.ltb c (nconn s) = true -> c_qsm (conns s c) = Hello inc last :: rest -> c_m (conns s c) = ENeg ->
  t_broker (tm s) = Some e ->
  step s (Deliver c TM) =
    let s0 := set_conns (upd (conns s) c (pop_sm (conns s c))) s in
    match compare_offer (Some inc) last (t_bir (tm s)) (t_bseq (tm s)) (t_inc (tm s)) (ho s) (now s - t_bcreated (tm s)) with
    | Ok true => master_accept c inc (drop_existing TM s0)
    | _ => master_reject c s0
    end.
Proof.
  intros Hc Eq Em Eb. cbn [step]. rewrite Hc. unfold deliver_m. rewrite Eq, Em.
  cbn [set_conns tm now ho]. rewrite Eb. reflexivity.
Qed.

(* refused: the master's Tub (current connection, tables, waiters) is untouched, every other connection is untouched,
   the offering connection is hung up *)
Lemma offer_refused s c inc last rest e :
  Nat.ltb c (nconn s) = true -> c_qsm (conns s c) = Hello inc last :: rest -> c_m (conns s c) = ENeg ->
  t_broker (tm s) = Some e ->
  compare_offer (Some inc) last (t_bir (tm s)) (t_bseq (tm s)) (t_inc (tm s)) (ho s) (now s - t_bcreated (tm s)) = Ok false ->
  let s' := step s (Deliver c TM) in
  tm s' = tm s /\ ts s' = ts s /\ (forall j, j <> c -> conns s' j = conns s j) /\ c_m (conns s' c) = ECloNeg.
Proof.
  intros Hc Eq Em Eb Ecmp. cbv zeta. rewrite (deliver_m_offer s c inc last rest e Hc Eq Em Eb). cbv zeta. rewrite Ecmp.
  unfold master_reject. cbn [set_conns tm ts conns].
  split; [reflexivity|]. split; [reflexivity|]. split.
  - intros j Hj. rewrite !upd_other by exact Hj. reflexivity.
  - rewrite !upd_same. destruct (conns s c) as [cl g m s_ qms qsm cut]. cbn in Em. subst m.
    unfold lose, enq, pop_sm. cbn. destruct cut; reflexivity.
Qed.

(* accepted: the offering connection becomes the master's current one, with the offer's incarnation and the next seqnum *)
Lemma offer_accepted s c inc last rest e :
  Nat.ltb c (nconn s) = true -> c_qsm (conns s c) = Hello inc last :: rest -> c_m (conns s c) = ENeg ->
  t_broker (tm s) = Some e ->
  compare_offer (Some inc) last (t_bir (tm s)) (t_bseq (tm s)) (t_inc (tm s)) (ho s) (now s - t_bcreated (tm s)) = Ok true ->
  let s' := step s (Deliver c TM) in
  t_broker (tm s') = Some c /\ t_bir (tm s') = Some inc /\ t_bseq (tm s') = (t_master (tm s) + seqnum_step)%Z /\
  t_master (tm s') = (t_master (tm s) + seqnum_step)%Z /\ t_bcreated (tm s') = now s.
Proof.
  intros Hc Eq Em Eb Ecmp. cbv zeta. rewrite (deliver_m_offer s c inc last rest e Hc Eq Em Eb). cbv zeta. rewrite Ecmp.
  unfold master_accept, attach, drop_existing. cbn [tubof set_conns tm]. rewrite Eb.
  repeat match goal with |- context [if ?b then _ else _] => destruct b end;
    try (match goal with |- context [match ?o with Some _ => _ | None => _ end] => destruct o end); cbn; auto.
Qed.

(* "an established healthy connection is not displaced by a redundant attempt from the same peer incarnation", in the
   model: the offer of the incarnation the master is connected to, which remembers nothing or an older connection of
   this master incarnation, leaves the master's Tub exactly as it was *)
Theorem model_redundant_not_displacing s c inc lir lseq rest e :
  Nat.ltb c (nconn s) = true -> c_qsm (conns s c) = Hello inc (Some (lir, lseq)) :: rest -> c_m (conns s c) = ENeg ->
  t_broker (tm s) = Some e -> t_bir (tm s) = Some inc ->
  (lir = IR_NONE \/ (lir = t_inc (tm s) /\ (lseq < t_bseq (tm s))%Z)) ->
  let s' := step s (Deliver c TM) in
  tm s' = tm s /\ ts s' = ts s /\ (forall j, j <> c -> conns s' j = conns s j) /\ c_m (conns s' c) = ECloNeg.
Proof.
  intros Hc Eq Em Eb Eir Hl. apply (offer_refused s c inc (Some (lir, lseq)) rest e Hc Eq Em Eb).
  rewrite Eir. apply compare_same_incarnation_older_or_none. exact Hl.
Qed.

(* "an attempt from a restarted peer does displace the stale one", in the model *)
Theorem model_restart_displaces s c inc last rest e :
  Nat.ltb c (nconn s) = true -> c_qsm (conns s c) = Hello inc (Some last) :: rest -> c_m (conns s c) = ENeg ->
  t_broker (tm s) = Some e -> t_bir (tm s) <> Some inc ->
  let s' := step s (Deliver c TM) in
  t_broker (tm s') = Some c /\ t_bir (tm s') = Some inc /\ t_bseq (tm s') = (t_master (tm s) + seqnum_step)%Z /\
  t_master (tm s') = (t_master (tm s) + seqnum_step)%Z /\ t_bcreated (tm s') = now s.
Proof.
  intros Hc Eq Em Eb Hir. apply (offer_accepted s c inc (Some last) rest e Hc Eq Em Eb).
  apply compare_new_incarnation. exact Hir.
Qed.

(* the hypotheses are satisfiable: S dials twice after being connected (parallel redundant hint: refused);
   S restarts and dials (displaces) *)
Example redundant_offer_reachable :
  let s := run [GetRef TS; DialHint TS; DialHint TS; Deliver 0 TM] in
  c_qsm (conns s 1) = [Hello 1 (Some (IR_NONE, 0%Z))] /\ c_m (conns s 1) = ENeg /\ t_broker (tm s) = Some 0 /\
  t_bir (tm s) = Some 1%Z /\ tm (step s (Deliver 1 TM)) = tm s.
Proof. vm_compute. repeat split. Qed.
Example restarted_offer_reachable :
  let s := run [GetRef TS; DialHint TS; Deliver 0 TM; Deliver 0 TS; Deliver 0 TS; Restart TS; GetRef TS; DialHint TS] in
  c_qsm (conns s 1) = [Hello 2 (Some (IR_NONE, 0%Z))] /\ c_m (conns s 1) = ENeg /\ t_broker (tm s) = Some 0 /\
  t_bir (tm s) = Some 1%Z /\ t_broker (tm (step s (Deliver 1 TM))) = Some 1.
Proof. vm_compute. repeat split. Qed.
