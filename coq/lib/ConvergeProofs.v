(* C14: lemmas and theorems about gen/ConvergeGen.v (translated decision function) and lib/Converge.v *)
From Coq Require Import ZArith List Bool Arith Lia.
Import ListNotations.
Require Import Verif.lib.PyLite Verif.gen.ConvergeGen Verif.lib.Converge.

(* ------------------------------------------------------------------------------------------ *)
(* 1. the translated compareOfferAndExisting                                                   *)

Local Open Scope Z_scope.

(* same peer incarnation, and the offer does not know the existing connection: it carries "none" or an
   older seqnum of this master incarnation -> rejected (a redundant attempt does not displace) *)
Lemma compare_same_incarnation_older_or_none inc last_ir last_seq e_seq my_ir ho age :
  (last_ir = IR_NONE \/ (last_ir = my_ir /\ last_seq < e_seq)) ->
  compare_offer (Some inc) (Some (last_ir, last_seq)) (Some inc) e_seq my_ir ho age = Ok false.
Proof.
  intros H. unfold compare_offer. cbn [is_some is_some_last negb orb optZ_eqb].
  rewrite Z.eqb_refl. cbn [negb].
  destruct H as [->|[-> Hlt]].
  - rewrite Z.eqb_refl. reflexivity.
  - destruct (Z.eqb_spec my_ir IR_NONE); [reflexivity|]. rewrite Z.eqb_refl. cbn [negb].
    destruct (Z.eqb_spec last_seq e_seq); [lia|].
    destruct (Z.ltb_spec last_seq e_seq); reflexivity.
Qed.

(* an offer from a different incarnation of the peer (it restarted) is accepted *)
Lemma compare_new_incarnation inc last e_ir e_seq my_ir ho age :
  e_ir <> Some inc ->
  compare_offer (Some inc) (Some last) e_ir e_seq my_ir ho age = Ok true.
Proof.
  intros H. unfold compare_offer. cbn [is_some is_some_last negb orb].
  destruct e_ir as [e|]; cbn [optZ_eqb]; [|reflexivity].
  destruct (Z.eqb_spec inc e); [subst; congruence|reflexivity].
Qed.

(* the offer proves the peer knows exactly the existing connection and dialled anyway: accepted *)
Lemma compare_equal_seqnum inc e_seq my_ir ho age :
  my_ir <> IR_NONE ->
  compare_offer (Some inc) (Some (my_ir, e_seq)) (Some inc) e_seq my_ir ho age = Ok true.
Proof.
  intros H. unfold compare_offer. cbn [is_some is_some_last negb orb optZ_eqb]. rewrite Z.eqb_refl. cbn [negb].
  destruct (Z.eqb_spec my_ir IR_NONE); [contradiction|]. rewrite !Z.eqb_refl. reflexivity.
Qed.

(* a seqnum from the future is refused *)
Lemma compare_greater_seqnum inc last_seq e_seq my_ir ho age :
  e_seq < last_seq ->
  compare_offer (Some inc) (Some (my_ir, last_seq)) (Some inc) e_seq my_ir ho age = Ok false.
Proof.
  intros H. unfold compare_offer. cbn [is_some is_some_last negb orb optZ_eqb]. rewrite Z.eqb_refl. cbn [negb].
  destruct (Z.eqb_spec my_ir IR_NONE); [reflexivity|]. rewrite Z.eqb_refl. cbn [negb].
  destruct (Z.eqb_spec last_seq e_seq); [lia|]. destruct (Z.ltb_spec last_seq e_seq); reflexivity.
Qed.

(* pre-0.2.0 peers (no my-incarnation or no last-connection): refused, unless handle-old is configured,
   in which case exactly the age of the existing connection decides *)
Lemma compare_old_peer o_inc o_last e_ir e_seq my_ir age :
  o_inc = None \/ o_last = None ->
  compare_offer o_inc o_last e_ir e_seq my_ir None age = Ok false /\
  forall thr, compare_offer o_inc o_last e_ir e_seq my_ir (Some thr) age = Ok (negb (age <? thr)).
Proof.
  intros H. unfold compare_offer, handle_old_fn.
  assert (E : (negb (is_some o_inc) || negb (is_some_last o_last))%bool = true).
  { destruct H as [->| ->]; cbn; [reflexivity|apply orb_true_r]. }
  rewrite E. cbn [is_some]. split; [reflexivity|]. intros thr. destruct (age <? thr); reflexivity.
Qed.

(* the statement "a redundant attempt of the same incarnation never displaces" is FALSE for the code:
   an offer that remembers a past life of the master is accepted although it knows nothing of the
   existing connection (parallel hints after a master restart). *)
Lemma compare_same_incarnation_past_life_accepted :
  exists inc last_ir last_seq e_seq my_ir,
    last_ir <> my_ir /\ compare_offer (Some inc) (Some (last_ir, last_seq)) (Some inc) e_seq my_ir None 0 = Ok true.
Proof. exists 1, 1, 1, 1, 2. split; [lia|reflexivity]. Qed.

(* complete case analysis of the decision for modern peers (total: never raises) *)
Lemma compare_total inc last_ir last_seq e_ir e_seq my_ir ho age :
  compare_offer (Some inc) (Some (last_ir, last_seq)) e_ir e_seq my_ir ho age =
  Ok (negb (optZ_eqb (Some inc) e_ir) ||
      (negb (last_ir =? IR_NONE) && (negb (last_ir =? my_ir) || (last_seq =? e_seq))))%bool.
Proof.
  unfold compare_offer. cbn [is_some is_some_last negb orb].
  destruct (optZ_eqb (Some inc) e_ir); cbn [negb orb]; [|reflexivity].
  destruct (last_ir =? IR_NONE); cbn [negb andb]; [reflexivity|].
  destruct (last_ir =? my_ir); cbn [negb orb]; [|reflexivity].
  destruct (last_seq =? e_seq); [reflexivity|]. destruct (last_seq <? e_seq); reflexivity.
Qed.

Local Close Scope Z_scope.

(* ------------------------------------------------------------------------------------------ *)
(* 2. per-connection invariant                                                                 *)

Definition goodp (pm ps : Prop) (k : conn) : Prop :=
  (pm <-> c_m k = EBrk) /\
  (ps <-> c_s k = EBrk) /\
  (c_s k = EBrk -> c_m k <> ENeg) /\
  (has_dec (c_qms k) = true -> c_m k <> ENeg) /\
  (c_m k = EBrk -> negotiating (c_s k) = true -> c_cut k = true \/ has_dec (c_qms k) = true) /\
  (closed (c_m k) = true -> c_cut k = true \/ closed (c_s k) = true \/ has_fin (c_qms k) = true) /\
  (closed (c_s k) = true -> c_cut k = true \/ closed (c_m k) = true \/ has_fin (c_qsm k) = true) /\
  (has_fin (c_qms k) = true -> closed (c_m k) = true) /\
  (has_fin (c_qsm k) = true -> closed (c_s k) = true).

Lemma hf_app q m : has_fin (q ++ [m]) = (has_fin q || is_fin m)%bool.
Proof. unfold has_fin. rewrite existsb_app. cbn. rewrite orb_false_r. reflexivity. Qed.
Lemma hd_app q m : has_dec (q ++ [m]) = (has_dec q || is_dec m)%bool.
Proof. unfold has_dec. rewrite existsb_app. cbn. rewrite orb_false_r. reflexivity. Qed.
Lemma hf_cons m q : has_fin (m :: q) = (is_fin m || has_fin q)%bool.
Proof. reflexivity. Qed.
Lemma hd_cons m q : has_dec (m :: q) = (is_dec m || has_dec q)%bool.
Proof. reflexivity. Qed.
Lemma hf_tl q : has_fin (tl q) = true -> has_fin q = true.
Proof. destruct q as [|m q]; cbn [tl]; [auto|]. rewrite hf_cons. intros ->. apply orb_true_r. Qed.
Lemma hd_tl q : has_dec (tl q) = true -> has_dec q = true.
Proof. destruct q as [|m q]; cbn [tl]; [auto|]. rewrite hd_cons. intros ->. apply orb_true_r. Qed.

Ltac bools :=
  repeat match goal with
  | H : (_ || _)%bool = true |- _ => apply orb_true_iff in H
  | |- (_ || _)%bool = true => apply orb_true_iff
  end.

Ltac fin := cbn in *; rewrite ?hf_app, ?hd_app, ?orb_true_r, ?orb_false_r in *; cbn in *;
            intuition (try congruence; try discriminate).

Lemma goodp_iff pm ps pm' ps' k : (pm <-> pm') -> (ps <-> ps') -> goodp pm ps k -> goodp pm' ps' k.
Proof. unfold goodp. intuition. Qed.

Lemma goodp_dead : goodp False False dead_conn.
Proof. unfold goodp, dead_conn. fin. Qed.

(* loseConnection on a negotiating end *)
Lemma goodp_lose_neg pm ps x k : negotiating (cend x k) = true -> goodp pm ps k -> goodp pm ps (lose x k).
Proof.
  destruct k as [cl g m s qms qsm cut]. unfold goodp, lose, enq.
  destruct x; cbn [cend c_m c_s]; intros Hn.
  - destruct m; try discriminate Hn; destruct cut; fin.
  - destruct s; try discriminate Hn; destruct cut; fin.
Qed.

Lemma goodp_cancel pm ps x g k : goodp pm ps k -> goodp pm ps (cancel x g k).
Proof.
  intros H. unfold cancel.
  destruct (tub_eqb (c_client k) x && Nat.eqb (c_gen k) g && negotiating (cend x k))%bool eqn:E; [|exact H].
  apply andb_true_iff in E as [_ E]. apply goodp_lose_neg; assumption.
Qed.

(* Broker.shutdown of the live broker *)
Lemma goodp_lose_brk_m pm ps k : c_m k = EBrk -> goodp pm ps k -> goodp False ps (lose TM k).
Proof.
  destruct k as [cl g m s qms qsm cut]. unfold goodp, lose, enq. cbn [cend c_m c_s]. intros ->. destruct cut; fin.
Qed.
Lemma goodp_lose_brk_s pm ps k : c_s k = EBrk -> goodp pm ps k -> goodp pm False (lose TS k).
Proof.
  destruct k as [cl g m s qms qsm cut]. unfold goodp, lose, enq. cbn [cend c_m c_s]. intros ->. destruct cut; fin.
Qed.

(* a block is taken off a queue *)
Lemma goodp_pop_sm pm ps k :
  (exists m q, c_qsm k = m :: q /\ (is_fin m = false \/ closed (c_m k) = true)) -> goodp pm ps k -> goodp pm ps (pop_sm k).
Proof.
  destruct k as [cl g m s qms qsm cut]. unfold goodp, pop_sm. cbn.
  intros (m0 & q & -> & Hm). cbn [tl]. rewrite hf_cons.
  destruct Hm as [-> | Hc]; cbn [orb]; [intuition|].
  intuition.
Qed.

Lemma goodp_pop_ms_closed pm ps k : closed (c_s k) = true -> goodp pm ps k -> goodp pm ps (pop_ms k).
Proof.
  destruct k as [cl g m s qms qsm cut]. unfold goodp, pop_ms. cbn. intros Hc.
  pose proof (hf_tl qms). pose proof (hd_tl qms).
  assert (Hb : s <> EBrk) by (destruct s; discriminate).
  assert (Hg : negotiating s = false) by (destruct s; try discriminate; reflexivity).
  rewrite Hc, Hg. intuition (try congruence; try discriminate).
Qed.

Lemma goodp_pop_ms_idle pm ps k :
  (exists m q, c_qms k = m :: q /\ is_fin m = false) -> negotiating (c_s k) = false -> goodp pm ps k -> goodp pm ps (pop_ms k).
Proof.
  destruct k as [cl g m s qms qsm cut]. unfold goodp, pop_ms. cbn. intros (m0 & q & -> & Hm) Hg. cbn [tl].
  rewrite hf_cons, hd_cons, Hm, Hg. cbn [orb]. pose proof (orb_true_r (is_dec m0)).
  intuition (try congruence; try discriminate).
  destruct (is_dec m0); cbn in *; auto.
Qed.

(* FIN delivered: connectionLost at the receiving end *)
Lemma goodp_lost_fin_m pm ps k q : c_qsm k = Fin :: q -> goodp pm ps k -> goodp False ps (set_end TM ELost (pop_sm k)).
Proof.
  destruct k as [cl g m s qms qsm cut]. unfold goodp, pop_sm, set_end. cbn. intros ->. cbn.
  intuition (try congruence; try discriminate).
Qed.
Lemma goodp_lost_fin_s pm ps k q : c_qms k = Fin :: q -> goodp pm ps k -> goodp pm False (set_end TS ELost (pop_ms k)).
Proof.
  destruct k as [cl g m s qms qsm cut]. unfold goodp, pop_ms, set_end. cbn. intros ->. cbn.
  pose proof (hd_tl (Fin :: q)). cbn [tl] in *.
  intuition (try congruence; try discriminate).
Qed.

(* connectionLost after a local close or a cut *)
Lemma goodp_lost_pending_m pm ps k : close_pending TM k = true -> goodp pm ps k -> goodp False ps (set_end TM ELost k).
Proof.
  destruct k as [cl g m s qms qsm cut]. unfold goodp, close_pending, set_end. cbn.
  destruct m; cbn; intros Hp; try discriminate Hp; subst; intuition (try congruence; try discriminate).
Qed.
Lemma goodp_lost_pending_s pm ps k : close_pending TS k = true -> goodp pm ps k -> goodp pm False (set_end TS ELost k).
Proof.
  destruct k as [cl g m s qms qsm cut]. unfold goodp, close_pending, set_end. cbn.
  destruct s; cbn; intros Hp; try discriminate Hp; subst; intuition (try congruence; try discriminate).
Qed.

(* master accepts / rejects *)
Lemma goodp_accept_m pm ps k a b : c_m k = ENeg -> goodp pm ps k -> goodp True ps (set_end TM EBrk (enq TM (Decision a b) k)).
Proof.
  destruct k as [cl g m s qms qsm cut]. unfold goodp, set_end, enq. cbn. intros ->. destruct cut; fin.
Qed.
Lemma goodp_reject_m pm ps k : c_m k = ENeg -> goodp pm ps k -> goodp pm ps (lose TM (enq TM ErrorBlk k)).
Proof.
  destruct k as [cl g m s qms qsm cut]. unfold goodp, lose, set_end, enq. cbn. intros ->. destruct cut; fin.
Qed.

(* non-master end *)
Lemma goodp_hello_s pm ps k a b q :
  c_qms k = Hello a b :: q -> c_s k = ENeg -> goodp pm ps k -> goodp pm ps (set_end TS EDec (pop_ms k)).
Proof.
  destruct k as [cl g m s qms qsm cut]. unfold goodp, set_end, pop_ms. cbn. intros -> ->. cbn.
  intuition (try congruence; try discriminate).
Qed.
Lemma goodp_dec_s pm ps k a b q :
  c_qms k = Decision a b :: q -> c_s k = EDec -> goodp pm ps k -> goodp pm True (set_end TS EBrk (pop_ms k)).
Proof.
  destruct k as [cl g m s qms qsm cut]. unfold goodp, set_end, pop_ms. cbn. intros -> ->. cbn.
  intuition (try congruence; try discriminate).
Qed.
Lemma goodp_lose_pop_s pm ps k : negotiating (c_s k) = true -> goodp pm ps k -> goodp pm ps (lose TS (pop_ms k)).
Proof.
  destruct k as [cl g m s qms qsm cut]. unfold goodp, lose, set_end, enq, pop_ms. cbn.
  pose proof (hf_tl qms). pose proof (hd_tl qms).
  intros Hn; destruct s; try discriminate Hn; destruct cut; fin.
Qed.
Lemma goodp_lose_pop_m pm ps k :
  (exists m q, c_qsm k = m :: q /\ is_fin m = false) -> c_m k = ENeg -> goodp pm ps k -> goodp pm ps (lose TM (pop_sm k)).
Proof.
  intros (m & q & E & Hm) Hn H. apply goodp_lose_neg.
  - destruct k; cbn in *. rewrite Hn. reflexivity.
  - apply goodp_pop_sm; [|exact H]. exists m, q. auto.
Qed.

Lemma goodp_cut pm ps k : goodp pm ps k -> goodp pm ps (cut_conn k).
Proof. destruct k as [cl g m s qms qsm cut]. unfold goodp, cut_conn. cbn. intuition (try congruence; try discriminate). Qed.
Lemma goodp_kill_m pm ps k : goodp pm ps k -> goodp False ps (kill TM k).
Proof. destruct k as [cl g m s qms qsm cut]. unfold goodp, kill, cut_conn, set_end. cbn. intuition (try congruence; try discriminate). Qed.
Lemma goodp_kill_s pm ps k : goodp pm ps k -> goodp pm False (kill TS k).
Proof. destruct k as [cl g m s qms qsm cut]. unfold goodp, kill, cut_conn, set_end. cbn. intuition (try congruence; try discriminate). Qed.
Lemma goodp_fresh x g a b : goodp False False (mkconn x g ENeg ENeg [a] [b] false).
Proof. unfold goodp. cbn. Abort.
