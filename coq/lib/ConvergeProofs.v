(* C14: lemmas and theorems about gen/ConvergeGen.v (translated decision function) and lib/Converge.v *)
From Coq Require Import ZArith List Bool Arith Lia.
Import ListNotations.
Require Import Verif.lib.PyLite Verif.gen.ConvergeGen Verif.lib.Converge.

(* ------------------------------------------------------------------------------------------ *)
(* 1. the translated compareOfferAndExisting                                                   *)

Local Open Scope Z_scope.

(* same peer incarnation, and the offer does not know the existing connection: it carries "none" or an
   older seqnum of this master incarnation -> rejected (a redundant attempt does not displace) *)
Lemma compare_same_incarnation_older_or_none inc last_ir last_seq e_seq my_ir ho age :
  (last_ir = IR_NONE \/ (last_ir = my_ir /\ last_seq < e_seq)) ->
  compare_offer (Some inc) (Some (last_ir, last_seq)) (Some inc) e_seq my_ir ho age = Ok false.
Proof.
  intros H. unfold compare_offer. cbn [is_some is_some_last negb orb optZ_eqb].
  rewrite Z.eqb_refl. cbn [negb].
  destruct H as [->|[-> Hlt]].
  - rewrite Z.eqb_refl. reflexivity.
  - destruct (Z.eqb_spec my_ir IR_NONE); [reflexivity|]. rewrite Z.eqb_refl. cbn [negb].
    destruct (Z.eqb_spec last_seq e_seq); [lia|].
    destruct (Z.ltb_spec last_seq e_seq); reflexivity.
Qed.

(* an offer from a different incarnation of the peer (it restarted) is accepted *)
Lemma compare_new_incarnation inc last e_ir e_seq my_ir ho age :
  e_ir <> Some inc ->
  compare_offer (Some inc) (Some last) e_ir e_seq my_ir ho age = Ok true.
Proof.
  intros H. unfold compare_offer. cbn [is_some is_some_last negb orb].
  destruct e_ir as [e|]; cbn [optZ_eqb]; [|reflexivity].
  destruct (Z.eqb_spec inc e); [subst; congruence|reflexivity].
Qed.

(* the offer proves the peer knows exactly the existing connection and dialled anyway: accepted *)
Lemma compare_equal_seqnum inc e_seq my_ir ho age :
  my_ir <> IR_NONE ->
  compare_offer (Some inc) (Some (my_ir, e_seq)) (Some inc) e_seq my_ir ho age = Ok true.
Proof.
  intros H. unfold compare_offer. cbn [is_some is_some_last negb orb optZ_eqb]. rewrite Z.eqb_refl. cbn [negb].
  destruct (Z.eqb_spec my_ir IR_NONE); [contradiction|]. rewrite !Z.eqb_refl. reflexivity.
Qed.

(* a seqnum from the future is refused *)
Lemma compare_greater_seqnum inc last_seq e_seq my_ir ho age :
  e_seq < last_seq ->
  compare_offer (Some inc) (Some (my_ir, last_seq)) (Some inc) e_seq my_ir ho age = Ok false.
Proof.
  intros H. unfold compare_offer. cbn [is_some is_some_last negb orb optZ_eqb]. rewrite Z.eqb_refl. cbn [negb].
  destruct (Z.eqb_spec my_ir IR_NONE); [reflexivity|]. rewrite Z.eqb_refl. cbn [negb].
  destruct (Z.eqb_spec last_seq e_seq); [lia|]. destruct (Z.ltb_spec last_seq e_seq); reflexivity.
Qed.

(* pre-0.2.0 peers (no my-incarnation or no last-connection): refused, unless handle-old is configured,
   in which case exactly the age of the existing connection decides *)
Lemma compare_old_peer o_inc o_last e_ir e_seq my_ir age :
  o_inc = None \/ o_last = None ->
  compare_offer o_inc o_last e_ir e_seq my_ir None age = Ok false /\
  forall thr, compare_offer o_inc o_last e_ir e_seq my_ir (Some thr) age = Ok (negb (age <? thr)).
Proof.
  intros H. unfold compare_offer, handle_old_fn.
  assert (E : (negb (is_some o_inc) || negb (is_some_last o_last))%bool = true).
  { destruct H as [->| ->]; cbn; [reflexivity|apply orb_true_r]. }
  rewrite E. cbn [is_some]. split; [reflexivity|]. intros thr. destruct (age <? thr); reflexivity.
Qed.

(* the statement "a redundant attempt of the same incarnation never displaces" is FALSE for the code:
   an offer that remembers a past life of the master is accepted although it knows nothing of the
   existing connection (parallel hints after a master restart). *)
Lemma compare_same_incarnation_past_life_accepted :
  exists inc last_ir last_seq e_seq my_ir,
    last_ir <> my_ir /\ compare_offer (Some inc) (Some (last_ir, last_seq)) (Some inc) e_seq my_ir None 0 = Ok true.
Proof. exists 1, 1, 1, 1, 2. split; [lia|reflexivity]. Qed.

(* complete case analysis of the decision for modern peers (total: never raises) *)
Lemma compare_total inc last_ir last_seq e_ir e_seq my_ir ho age :
  compare_offer (Some inc) (Some (last_ir, last_seq)) e_ir e_seq my_ir ho age =
  Ok (negb (optZ_eqb (Some inc) e_ir) ||
      (negb (last_ir =? IR_NONE) && (negb (last_ir =? my_ir) || (last_seq =? e_seq))))%bool.
Proof.
  unfold compare_offer. cbn [is_some is_some_last negb orb].
  destruct (optZ_eqb (Some inc) e_ir); cbn [negb orb]; [|reflexivity].
  destruct (last_ir =? IR_NONE); cbn [negb andb]; [reflexivity|].
  destruct (last_ir =? my_ir); cbn [negb orb]; [|reflexivity].
  destruct (last_seq =? e_seq); [reflexivity|]. destruct (last_seq <? e_seq); reflexivity.
Qed.

Local Close Scope Z_scope.

(* ------------------------------------------------------------------------------------------ *)
(* 2. per-connection invariant                                                                 *)

Definition goodp (pm ps : Prop) (k : conn) : Prop :=
  (pm <-> c_m k = EBrk) /\
  (ps <-> c_s k = EBrk) /\
  (c_s k = EBrk -> c_m k <> ENeg) /\
  (has_dec (c_qms k) = true -> c_m k <> ENeg) /\
  (c_m k = EBrk -> negotiating (c_s k) = true -> c_cut k = true \/ has_dec (c_qms k) = true) /\
  (closed (c_m k) = true -> c_cut k = true \/ closed (c_s k) = true \/ has_fin (c_qms k) = true) /\
  (closed (c_s k) = true -> c_cut k = true \/ closed (c_m k) = true \/ has_fin (c_qsm k) = true) /\
  (has_fin (c_qms k) = true -> closed (c_m k) = true) /\
  (has_fin (c_qsm k) = true -> closed (c_s k) = true).

Lemma hf_app q m : has_fin (q ++ [m]) = (has_fin q || is_fin m)%bool.
Proof. unfold has_fin. rewrite existsb_app. cbn. rewrite orb_false_r. reflexivity. Qed.
Lemma hd_app q m : has_dec (q ++ [m]) = (has_dec q || is_dec m)%bool.
Proof. unfold has_dec. rewrite existsb_app. cbn. rewrite orb_false_r. reflexivity. Qed.
Lemma hf_cons m q : has_fin (m :: q) = (is_fin m || has_fin q)%bool.
Proof. reflexivity. Qed.
Lemma hd_cons m q : has_dec (m :: q) = (is_dec m || has_dec q)%bool.
Proof. reflexivity. Qed.
Lemma hf_tl q : has_fin (tl q) = true -> has_fin q = true.
Proof. destruct q as [|m q]; cbn [tl]; [auto|]. rewrite hf_cons. intros ->. apply orb_true_r. Qed.
Lemma hd_tl q : has_dec (tl q) = true -> has_dec q = true.
Proof. destruct q as [|m q]; cbn [tl]; [auto|]. rewrite hd_cons. intros ->. apply orb_true_r. Qed.

Ltac bools :=
  repeat match goal with
  | H : (_ || _)%bool = true |- _ => apply orb_true_iff in H
  | |- (_ || _)%bool = true => apply orb_true_iff
  end.

Ltac fin := cbn in *; rewrite ?hf_app, ?hd_app, ?orb_true_r, ?orb_false_r in *; cbn in *;
            intuition (try congruence; try discriminate).

Lemma goodp_iff pm ps pm' ps' k : (pm <-> pm') -> (ps <-> ps') -> goodp pm ps k -> goodp pm' ps' k.
Proof. unfold goodp. intuition. Qed.

Lemma goodp_dead : goodp False False dead_conn.
Proof. unfold goodp, dead_conn. fin. Qed.

(* loseConnection on a negotiating end *)
Lemma goodp_lose_neg pm ps x k : negotiating (cend x k) = true -> goodp pm ps k -> goodp pm ps (lose x k).
Proof.
  destruct k as [cl g m s qms qsm cut]. unfold goodp, lose, enq.
  destruct x; cbn [cend c_m c_s]; intros Hn.
  - destruct m; try discriminate Hn; destruct cut; fin.
  - destruct s; try discriminate Hn; destruct cut; fin.
Qed.

Lemma goodp_cancel pm ps x g k : goodp pm ps k -> goodp pm ps (cancel x g k).
Proof.
  intros H. unfold cancel.
  destruct (tub_eqb (c_client k) x && Nat.eqb (c_gen k) g && negotiating (cend x k))%bool eqn:E; [|exact H].
  apply andb_true_iff in E as [_ E]. apply goodp_lose_neg; assumption.
Qed.

(* Broker.shutdown of the live broker *)
Lemma goodp_lose_brk_m pm ps k : c_m k = EBrk -> goodp pm ps k -> goodp False ps (lose TM k).
Proof.
  destruct k as [cl g m s qms qsm cut]. unfold goodp, lose, enq. cbn [cend c_m c_s]. intros ->. destruct cut; fin.
Qed.
Lemma goodp_lose_brk_s pm ps k : c_s k = EBrk -> goodp pm ps k -> goodp pm False (lose TS k).
Proof.
  destruct k as [cl g m s qms qsm cut]. unfold goodp, lose, enq. cbn [cend c_m c_s]. intros ->. destruct cut; fin.
Qed.

(* a block is taken off a queue *)
Lemma goodp_pop_sm pm ps k :
  (exists m q, c_qsm k = m :: q /\ (is_fin m = false \/ closed (c_m k) = true)) -> goodp pm ps k -> goodp pm ps (pop_sm k).
Proof.
  destruct k as [cl g m s qms qsm cut]. unfold goodp, pop_sm. cbn.
  intros (m0 & q & -> & Hm). cbn [tl]. rewrite hf_cons.
  destruct Hm as [-> | Hc]; cbn [orb]; [intuition|].
  intuition.
Qed.

Lemma goodp_pop_ms_closed pm ps k : closed (c_s k) = true -> goodp pm ps k -> goodp pm ps (pop_ms k).
Proof.
  destruct k as [cl g m s qms qsm cut]. unfold goodp, pop_ms. cbn. intros Hc.
  pose proof (hf_tl qms). pose proof (hd_tl qms).
  assert (Hb : s <> EBrk) by (destruct s; discriminate).
  assert (Hg : negotiating s = false) by (destruct s; try discriminate; reflexivity).
  rewrite Hc, Hg. intuition (try congruence; try discriminate).
Qed.

Lemma goodp_pop_ms_idle pm ps k :
  (exists m q, c_qms k = m :: q /\ is_fin m = false) -> negotiating (c_s k) = false -> goodp pm ps k -> goodp pm ps (pop_ms k).
Proof.
  destruct k as [cl g m s qms qsm cut]. unfold goodp, pop_ms. cbn. intros (m0 & q & -> & Hm) Hg. cbn [tl].
  rewrite hf_cons, hd_cons, Hm, Hg. cbn [orb]. pose proof (orb_true_r (is_dec m0)).
  intuition (try congruence; try discriminate).
  destruct (is_dec m0); cbn in *; auto.
Qed.

(* FIN delivered: connectionLost at the receiving end *)
Lemma goodp_lost_fin_m pm ps k q : c_qsm k = Fin :: q -> goodp pm ps k -> goodp False ps (set_end TM ELost (pop_sm k)).
Proof.
  destruct k as [cl g m s qms qsm cut]. unfold goodp, pop_sm, set_end. cbn. intros ->. cbn.
  intuition (try congruence; try discriminate).
Qed.
Lemma goodp_lost_fin_s pm ps k q : c_qms k = Fin :: q -> goodp pm ps k -> goodp pm False (set_end TS ELost (pop_ms k)).
Proof.
  destruct k as [cl g m s qms qsm cut]. unfold goodp, pop_ms, set_end. cbn. intros ->. cbn.
  pose proof (hd_tl (Fin :: q)). cbn [tl] in *.
  intuition (try congruence; try discriminate).
Qed.

(* connectionLost after a local close or a cut *)
Lemma goodp_lost_pending_m pm ps k : close_pending TM k = true -> goodp pm ps k -> goodp False ps (set_end TM ELost k).
Proof.
  destruct k as [cl g m s qms qsm cut]. unfold goodp, close_pending, set_end. cbn.
  destruct m; cbn; intros Hp; try discriminate Hp; subst; intuition (try congruence; try discriminate).
Qed.
Lemma goodp_lost_pending_s pm ps k : close_pending TS k = true -> goodp pm ps k -> goodp pm False (set_end TS ELost k).
Proof.
  destruct k as [cl g m s qms qsm cut]. unfold goodp, close_pending, set_end. cbn.
  destruct s; cbn; intros Hp; try discriminate Hp; subst; intuition (try congruence; try discriminate).
Qed.

(* master accepts / rejects *)
Lemma goodp_accept_m pm ps k a b : c_m k = ENeg -> goodp pm ps k -> goodp True ps (set_end TM EBrk (enq TM (Decision a b) k)).
Proof.
  destruct k as [cl g m s qms qsm cut]. unfold goodp, set_end, enq. cbn. intros ->. destruct cut; fin.
Qed.
Lemma goodp_reject_m pm ps k : c_m k = ENeg -> goodp pm ps k -> goodp pm ps (lose TM (enq TM ErrorBlk k)).
Proof.
  destruct k as [cl g m s qms qsm cut]. unfold goodp, lose, set_end, enq. cbn. intros ->. destruct cut; fin.
Qed.

(* non-master end *)
Lemma goodp_hello_s pm ps k a b q :
  c_qms k = Hello a b :: q -> c_s k = ENeg -> goodp pm ps k -> goodp pm ps (set_end TS EDec (pop_ms k)).
Proof.
  destruct k as [cl g m s qms qsm cut]. unfold goodp, set_end, pop_ms. cbn. intros -> ->. cbn.
  intuition (try congruence; try discriminate).
Qed.
Lemma goodp_dec_s pm ps k a b q :
  c_qms k = Decision a b :: q -> c_s k = EDec -> goodp pm ps k -> goodp pm True (set_end TS EBrk (pop_ms k)).
Proof.
  destruct k as [cl g m s qms qsm cut]. unfold goodp, set_end, pop_ms. cbn. intros -> ->. cbn.
  intuition (try congruence; try discriminate).
Qed.
Lemma goodp_lose_pop_s pm ps k : negotiating (c_s k) = true -> goodp pm ps k -> goodp pm ps (lose TS (pop_ms k)).
Proof.
  destruct k as [cl g m s qms qsm cut]. unfold goodp, lose, set_end, enq, pop_ms. cbn.
  pose proof (hf_tl qms). pose proof (hd_tl qms).
  intros Hn; destruct s; try discriminate Hn; destruct cut; fin.
Qed.
Lemma goodp_lose_pop_m pm ps k :
  (exists m q, c_qsm k = m :: q /\ is_fin m = false) -> c_m k = ENeg -> goodp pm ps k -> goodp pm ps (lose TM (pop_sm k)).
Proof.
  intros (m & q & E & Hm) Hn H. apply goodp_lose_neg.
  - destruct k; cbn in *. rewrite Hn. reflexivity.
  - apply goodp_pop_sm; [|exact H]. exists m, q. auto.
Qed.

Lemma goodp_cut pm ps k : goodp pm ps k -> goodp pm ps (cut_conn k).
Proof. destruct k as [cl g m s qms qsm cut]. unfold goodp, cut_conn. cbn. intuition (try congruence; try discriminate). Qed.
Lemma goodp_kill_m pm ps k : goodp pm ps k -> goodp False ps (kill TM k).
Proof. destruct k as [cl g m s qms qsm cut]. unfold goodp, kill, cut_conn, set_end. cbn. intuition (try congruence; try discriminate). Qed.
Lemma goodp_kill_s pm ps k : goodp pm ps k -> goodp pm False (kill TS k).
Proof. destruct k as [cl g m s qms qsm cut]. unfold goodp, kill, cut_conn, set_end. cbn. intuition (try congruence; try discriminate). Qed.
Lemma goodp_fresh x g a b a' b' : goodp False False (mkconn x g ENeg ENeg [Hello a b] [Hello a' b'] false).
Proof. unfold goodp. cbn. intuition (try congruence; try discriminate). Qed.

(* ------------------------------------------------------------------------------------------ *)
(* 3. the invariant on states                                                                  *)

Definition invb (bm bs : option nat) (f : nat -> conn) : Prop :=
  forall i, goodp (bm = Some i) (bs = Some i) (f i).
Definition bounded (s : state) : Prop :=
  (forall c, t_broker (tm s) = Some c -> c < nconn s) /\ (forall c, t_broker (ts s) = Some c -> c < nconn s).
Definition inv (s : state) : Prop := invb (t_broker (tm s)) (t_broker (ts s)) (conns s) /\ bounded s.

Lemma invb_upd bm bs f c k' : invb bm bs f -> goodp (bm = Some c) (bs = Some c) k' -> invb bm bs (upd f c k').
Proof. intros H Hk i. unfold upd. destruct (Nat.eqb_spec i c); [subst; exact Hk|apply H]. Qed.

Lemma invb_map bm bs f g :
  invb bm bs f -> (forall pm ps k, goodp pm ps k -> goodp pm ps (g k)) -> invb bm bs (fun i => g (f i)).
Proof. intros H Hg i. apply Hg, H. Qed.

Lemma invb_clear_m bs f e k' : invb (Some e) bs f -> goodp False (bs = Some e) k' -> invb None bs (upd f e k').
Proof.
  intros H Hk i. unfold upd. destruct (Nat.eqb_spec i e).
  - subst. eapply goodp_iff; [| |exact Hk]; intuition discriminate.
  - eapply goodp_iff; [| |apply (H i)]; [|reflexivity]. split; [intros E; inversion E; congruence|discriminate].
Qed.
Lemma invb_clear_s bm f e k' : invb bm (Some e) f -> goodp (bm = Some e) False k' -> invb bm None (upd f e k').
Proof.
  intros H Hk i. unfold upd. destruct (Nat.eqb_spec i e).
  - subst. eapply goodp_iff; [| |exact Hk]; intuition discriminate.
  - eapply goodp_iff; [| |apply (H i)]; [reflexivity|]. split; [intros E; inversion E; congruence|discriminate].
Qed.
Lemma invb_set_m bs f c k' : invb None bs f -> goodp True (bs = Some c) k' -> invb (Some c) bs (upd f c k').
Proof.
  intros H Hk i. unfold upd. destruct (Nat.eqb_spec i c).
  - subst. eapply goodp_iff; [| |exact Hk]; intuition.
  - eapply goodp_iff; [| |apply (H i)]; [|reflexivity]. split; [discriminate|intros E; inversion E; congruence].
Qed.
Lemma invb_set_s bm f c k' : invb bm None f -> goodp (bm = Some c) True k' -> invb bm (Some c) (upd f c k').
Proof.
  intros H Hk i. unfold upd. destruct (Nat.eqb_spec i c).
  - subst. eapply goodp_iff; [| |exact Hk]; intuition.
  - eapply goodp_iff; [| |apply (H i)]; [reflexivity|]. split; [discriminate|intros E; inversion E; congruence].
Qed.

Lemma upd_same f c k : upd f c k c = k.
Proof. unfold upd. rewrite Nat.eqb_refl. reflexivity. Qed.
Lemma upd_other f c k i : i <> c -> upd f c k i = f i.
Proof. unfold upd. intros H. destruct (Nat.eqb_spec i c); [contradiction|reflexivity]. Qed.

Lemma init_inv : inv init.
Proof.
  split; [|split; cbn; discriminate]. intros i. cbn. eapply goodp_iff; [| |exact goodp_dead]; intuition discriminate.
Qed.

Lemma inv_same s s' :
  t_broker (tm s') = t_broker (tm s) -> t_broker (ts s') = t_broker (ts s) -> conns s' = conns s -> nconn s' = nconn s ->
  inv s -> inv s'.
Proof. unfold inv, bounded. intros -> -> -> ->. auto. Qed.

Lemma broker_connector_gone t : t_broker (connector_gone t) = t_broker t.
Proof. destruct t as [a b c d e f g h i j k]. unfold connector_gone. cbn. destruct b; reflexivity. Qed.

Lemma set_tub_inv x t s : t_broker t = t_broker (tubof x s) -> inv s -> inv (set_tub x t s).
Proof. intros E. apply inv_same; destruct x; cbn; auto. Qed.

Lemma connector_failed_inv x g s : inv s -> inv (connector_failed x g s).
Proof.
  intros H. unfold connector_failed. destruct (t_connector (tubof x s)); [|exact H].
  destruct (Nat.eqb g n && negb (any_pending x g s))%bool; [|exact H].
  apply set_tub_inv; [apply broker_connector_gone|exact H].
Qed.

Lemma getref_inv x s : inv s -> inv (do_getref x s).
Proof.
  intros H. unfold do_getref. destruct (t_broker (tubof x s)) eqn:E.
  - apply set_tub_inv; [cbn; auto|exact H].
  - destruct (t_connector (tubof x s)); (apply set_tub_inv; [cbn; auto|exact H]).
Qed.

Lemma dial_inv x s : inv s -> inv (do_dial x s).
Proof.
  intros [Hb [Hm Hs]]. unfold do_dial. destruct (t_connector (tubof x s)); [|split; [exact Hb|split; assumption]].
  split; cbn [tm ts conns nconn].
  - apply invb_upd; [exact Hb|]. eapply goodp_iff; [| |apply goodp_fresh].
    + split; [tauto|]. intros E. apply Hm in E. lia.
    + split; [tauto|]. intros E. apply Hs in E. lia.
  - split; cbn [tm ts nconn]; intros c E; [apply Hm in E|apply Hs in E]; lia.
Qed.

Lemma cut_inv c s : inv s -> inv (do_cut c s).
Proof.
  intros [Hb Hbd]. split; [|exact Hbd]. cbn [do_cut set_conns tm ts conns].
  apply invb_upd; [exact Hb|]. apply goodp_cut. apply Hb.
Qed.

Lemma restart_inv x s : inv s -> inv (do_restart x s).
Proof.
  intros [Hb [Hm Hs]]. unfold do_restart. destruct x; cbn [set_tub map_conns set_conns tubof tm ts conns nconn].
  - split; [|split; cbn; [discriminate|exact Hs]]. cbn [new_tub t_broker]. intros i.
    eapply goodp_iff; [| |eapply goodp_kill_m; apply (Hb i)]; [|reflexivity]. intuition discriminate.
  - split; [|split; cbn; [exact Hm|discriminate]]. cbn [new_tub t_broker]. intros i.
    eapply goodp_iff; [| |eapply goodp_kill_s; apply (Hb i)]; [reflexivity|]. intuition discriminate.
Qed.

Lemma map_cancel_inv x g s : inv s -> inv (map_conns (cancel x g) s).
Proof.
  intros [Hb Hbd]. split; [|exact Hbd]. cbn [map_conns set_conns tm ts conns].
  apply invb_map; [exact Hb|]. intros pm ps k. apply goodp_cancel.
Qed.

Lemma timeout_inv x s : inv s -> inv (do_timeout x s).
Proof.
  intros H. unfold do_timeout. destruct (t_connector (tubof x s)); [|exact H].
  apply set_tub_inv; [apply broker_connector_gone|]. apply map_cancel_inv, H.
Qed.

(* connectionLost at one end *)
Lemma conn_lost_inv_m c pre s :
  inv s -> cend TM (pre (conns s c)) = c_m (conns s c) ->
  goodp False (t_broker (ts s) = Some c) (set_end TM ELost (pre (conns s c))) ->
  inv (conn_lost TM c pre s).
Proof.
  intros [Hb Hbd] He Hg. unfold conn_lost.
  pose proof (Hb c) as Hc. destruct Hc as [Hc1 _].
  set (s1 := set_conns (upd (conns s) c (set_end TM ELost (pre (conns s c)))) s).
  assert (Hnb : c_m (conns s c) <> EBrk -> inv s1).
  { intros Hne. split; [|exact Hbd]. cbn [s1 set_conns tm ts conns]. apply invb_upd; [exact Hb|].
    eapply goodp_iff; [| |exact Hg]; [|reflexivity]. split; [tauto|]. intros E. apply Hne, Hc1, E. }
  rewrite He. destruct (c_m (conns s c)) eqn:Em;
    try (apply Hnb; discriminate);
    try (destruct (tub_eqb (c_client (pre (conns s c))) TM); [apply connector_failed_inv|]; apply Hnb; discriminate).
  (* EBrk: the live broker is detached *)
  assert (Eb : t_broker (tm s) = Some c) by (apply Hc1; reflexivity).
  cbn [tubof s1 set_conns tm]. rewrite Eb, Nat.eqb_refl.
  destruct Hbd as [Hm Hs]. split; [|split; cbn; [discriminate|exact Hs]].
  cbn [set_tub set_conns tm ts conns set_broker t_broker]. apply invb_clear_m; [rewrite <- Eb; exact Hb|exact Hg].
Qed.

Lemma conn_lost_inv_s c pre s :
  inv s -> cend TS (pre (conns s c)) = c_s (conns s c) ->
  goodp (t_broker (tm s) = Some c) False (set_end TS ELost (pre (conns s c))) ->
  inv (conn_lost TS c pre s).
Proof.
  intros [Hb Hbd] He Hg. unfold conn_lost.
  pose proof (Hb c) as Hc. destruct Hc as [_ [Hc1 _]].
  set (s1 := set_conns (upd (conns s) c (set_end TS ELost (pre (conns s c)))) s).
  assert (Hnb : c_s (conns s c) <> EBrk -> inv s1).
  { intros Hne. split; [|exact Hbd]. cbn [s1 set_conns tm ts conns]. apply invb_upd; [exact Hb|].
    eapply goodp_iff; [| |exact Hg]; [reflexivity|]. split; [tauto|]. intros E. apply Hne, Hc1, E. }
  rewrite He. destruct (c_s (conns s c)) eqn:Em;
    try (apply Hnb; discriminate);
    try (destruct (tub_eqb (c_client (pre (conns s c))) TS); [apply connector_failed_inv|]; apply Hnb; discriminate).
  assert (Eb : t_broker (ts s) = Some c) by (apply Hc1; reflexivity).
  cbn [tubof s1 set_conns ts]. rewrite Eb, Nat.eqb_refl.
  destruct Hbd as [Hm Hs]. split; [|split; cbn; [exact Hm|discriminate]].
  cbn [set_tub set_conns tm ts conns set_broker t_broker]. apply invb_clear_s; [rewrite <- Eb; exact Hb|exact Hg].
Qed.

Lemma closeseen_inv c x s : inv s -> inv (do_closeseen c x s).
Proof.
  intros H. unfold do_closeseen. destruct (close_pending x (conns s c)) eqn:E; [|exact H].
  destruct x.
  - apply conn_lost_inv_m; [exact H|reflexivity|]. eapply goodp_lost_pending_m; [exact E|apply (proj1 H)].
  - apply conn_lost_inv_s; [exact H|reflexivity|]. eapply goodp_lost_pending_s; [exact E|apply (proj1 H)].
Qed.

(* brokerAttached *)
Lemma attach_inv_m c s :
  invb (Some c) (t_broker (ts s)) (conns s) -> c < nconn s -> (forall c', t_broker (ts s) = Some c' -> c' < nconn s) ->
  inv (attach TM c s).
Proof.
  intros Hb Hc Hs. unfold attach.
  assert (G : forall g, invb (Some c) (t_broker (ts s)) (conns (map_conns (cancel TM g) s))).
  { intros g. cbn [map_conns set_conns conns]. apply invb_map; [exact Hb|]. intros pm ps k. apply goodp_cancel. }
  destruct (tub_eqb (c_client (conns s c)) TM).
  - split; [apply G|]. split; cbn; [intros c' E; inversion E; subst; exact Hc|exact Hs].
  - destruct (t_connector (tubof TM s)).
    + split; [apply G|]. split; cbn; [intros c' E; inversion E; subst; exact Hc|exact Hs].
    + split; [exact Hb|]. split; cbn; [intros c' E; inversion E; subst; exact Hc|exact Hs].
Qed.

Lemma attach_inv_s c s :
  invb (t_broker (tm s)) (Some c) (conns s) -> c < nconn s -> (forall c', t_broker (tm s) = Some c' -> c' < nconn s) ->
  inv (attach TS c s).
Proof.
  intros Hb Hc Hs. unfold attach.
  assert (G : forall g, invb (t_broker (tm s)) (Some c) (conns (map_conns (cancel TS g) s))).
  { intros g. cbn [map_conns set_conns conns]. apply invb_map; [exact Hb|]. intros pm ps k. apply goodp_cancel. }
  destruct (tub_eqb (c_client (conns s c)) TS).
  - split; [apply G|]. split; cbn; [exact Hs|intros c' E; inversion E; subst; exact Hc].
  - destruct (t_connector (tubof TS s)).
    + split; [apply G|]. split; cbn; [exact Hs|intros c' E; inversion E; subst; exact Hc].
    + split; [exact Hb|]. split; cbn; [exact Hs|intros c' E; inversion E; subst; exact Hc].
Qed.

(* Broker.shutdown of the existing connection *)
Lemma drop_existing_m s :
  inv s ->
  let s' := drop_existing TM s in
  invb None (t_broker (ts s)) (conns s') /\ t_broker (tm s') = None /\ ts s' = ts s /\ nconn s' = nconn s /\
  t_inc (tm s') = t_inc (tm s) /\
  (forall j, c_m (conns s j) <> EBrk -> conns s' j = conns s j).
Proof.
  intros [Hb Hbd]. unfold drop_existing. cbn [tubof]. destruct (t_broker (tm s)) as [e|] eqn:E.
  - cbn [set_tub set_conns tm ts conns nconn set_broker t_broker t_inc].
    assert (Em : c_m (conns s e) = EBrk) by (apply (Hb e); reflexivity).
    split; [|split; [reflexivity|split; [reflexivity|split; [reflexivity|split; [reflexivity|]]]]].
    + apply invb_clear_m; [exact Hb|]. eapply goodp_lose_brk_m; [exact Em|apply Hb].
    + intros j Hj. apply upd_other. intros ->. contradiction.
  - rewrite E. split; [exact Hb|]. repeat split; auto.
Qed.

Lemma drop_existing_s s :
  inv s ->
  let s' := drop_existing TS s in
  invb (t_broker (tm s)) None (conns s') /\ t_broker (ts s') = None /\ tm s' = tm s /\ nconn s' = nconn s /\
  (forall j, c_s (conns s j) <> EBrk -> conns s' j = conns s j).
Proof.
  intros [Hb Hbd]. unfold drop_existing. cbn [tubof]. destruct (t_broker (ts s)) as [e|] eqn:E.
  - cbn [set_tub set_conns tm ts conns nconn set_broker t_broker].
    assert (Em : c_s (conns s e) = EBrk) by (apply (Hb e); reflexivity).
    split; [|split; [reflexivity|split; [reflexivity|split; [reflexivity|]]]].
    + apply invb_clear_s; [exact Hb|]. eapply goodp_lose_brk_s; [exact Em|apply Hb].
    + intros j Hj. apply upd_other. intros ->. contradiction.
  - rewrite E. split; [exact Hb|]. repeat split; auto.
Qed.

Lemma master_accept_inv c inc s :
  invb None (t_broker (ts s)) (conns s) -> (forall c', t_broker (ts s) = Some c' -> c' < nconn s) -> c < nconn s ->
  c_m (conns s c) = ENeg -> inv (master_accept c inc s).
Proof.
  intros Hb Hs Hc Em. unfold master_accept. apply attach_inv_m; cbn [tm ts conns nconn]; [|exact Hc|exact Hs].
  apply invb_set_m; [exact Hb|]. eapply goodp_accept_m; [exact Em|apply Hb].
Qed.

Lemma pop_sm_inv c s m q :
  inv s -> c_qsm (conns s c) = m :: q -> (is_fin m = false \/ closed (c_m (conns s c)) = true) ->
  inv (set_conns (upd (conns s) c (pop_sm (conns s c))) s).
Proof.
  intros [Hb Hbd] Eq Hm. split; [|exact Hbd]. cbn [set_conns tm ts conns]. apply invb_upd; [exact Hb|].
  apply goodp_pop_sm; [exists m, q; auto|apply Hb].
Qed.

Lemma deliver_m_inv c s : c < nconn s -> inv s -> inv (deliver_m c s).
Proof.
  intros Hc H. unfold deliver_m. destruct (c_qsm (conns s c)) as [|m q] eqn:Eq; [exact H|].
  set (s0 := set_conns (upd (conns s) c (pop_sm (conns s c))) s).
  assert (H0 : is_fin m = false \/ closed (c_m (conns s c)) = true -> inv s0) by (apply pop_sm_inv with (q := q); assumption).
  assert (Hl : is_fin m = false -> c_m (conns s c) = ENeg -> inv (set_conns (upd (conns s) c (lose TM (pop_sm (conns s c)))) s)).
  { intros Hm Em. destruct H as [Hb Hbd]. split; [|exact Hbd]. cbn [set_conns tm ts conns]. apply invb_upd; [exact Hb|].
    apply goodp_lose_pop_m; [exists m, q; auto|exact Em|apply Hb]. }
  destruct m as [inc last|a b| |].
  - (* Hello *)
    specialize (H0 (or_introl eq_refl)).
    destruct (c_m (conns s c)) eqn:Em; try exact H0.
    assert (Em0 : c_m (conns s0 c) = ENeg) by (cbn [s0 set_conns conns]; rewrite upd_same; destruct (conns s c); cbn in *; exact Em).
    destruct H0 as [Hb0 [Hm0 Hs0]].
    destruct (t_broker (tm s0)) as [e|] eqn:Eb.
    + assert (I0 : inv s0) by (split; [rewrite Eb; exact Hb0|split; [rewrite Eb; exact Hm0|exact Hs0]]).
      assert (R : inv (master_reject c s0)).
      { destruct I0 as [Hb1 Hbd1]. split; [|exact Hbd1]. cbn [master_reject set_conns tm ts conns]. apply invb_upd; [exact Hb1|].
        eapply goodp_reject_m; [exact Em0|apply Hb1]. }
      destruct (compare_offer (Some inc) last (t_bir (tm s0)) (t_bseq (tm s0)) (t_inc (tm s0)) None 0) as [[|]|] eqn:Ecmp;
        try exact R.
      pose proof (drop_existing_m s0 I0) as (D1 & D2 & D3 & D4 & D5 & D6). cbv zeta in *.
      apply master_accept_inv; rewrite ?D3, ?D4; auto;
        try (rewrite (D6 c) by (rewrite Em0; discriminate); exact Em0).
    + apply master_accept_inv; auto. rewrite <- Eb. exact Hb0.
  - destruct (c_m (conns s c)) eqn:Em; try (apply H0; left; reflexivity). apply Hl; reflexivity.
  - destruct (c_m (conns s c)) eqn:Em; try (apply H0; left; reflexivity). apply Hl; reflexivity.
  - (* Fin *)
    assert (Hcl : inv (conn_lost TM c pop_sm s)).
    { apply conn_lost_inv_m; [exact H|destruct (conns s c); reflexivity|]. eapply goodp_lost_fin_m; [exact Eq|apply (proj1 H)]. }
    destruct (c_m (conns s c)) eqn:Em; try exact Hcl. apply H0. right. reflexivity.
Qed.
