(* C01: the delivery theorems under the exact guard of ObjGuard.v (wf_obj_t / wf_list_t): the guard of earlier rounds
   (Obj.wf_obj_wide) admitted graphs the implementation refuses -- an inline tuple / frozenset that is itself a Deferred
   in a Copyable attribute value / dict key position (g1, g4 below) -- so every theorem that claims delivery is restated
   with the transitive guard.  The guard is contained in the old one, so the statements follow from the old lemmas; what
   is new is the REGION they speak about, and the witnesses that the excluded region is refused by the Deferred-level
   receiver (as by the code) although the pointer machine would take it. *)
From Coq Require Import ZArith List String Bool Lia.
Import ListNotations.
Require Import Verif.lib.PyLite Verif.gen.BananaGen Verif.gen.SlicersGen Verif.lib.Token Verif.lib.TokenProofs
        Verif.lib.Obj Verif.lib.ObjProofs Verif.lib.ObjDefer Verif.lib.ObjDeferProofs Verif.lib.ObjGuard
        Verif.lib.ObjChunks Verif.lib.ObjCanon Verif.lib.SendHeap Verif.lib.SendHeapProofs Verif.lib.SendHeapE2E
        Verif.lib.ObjKeepalive Verif.lib.ObjKeepaliveProofs.
Local Open Scope Z_scope.

Lemma wf_obj_t_wide scoped n t : wf_obj_t scoped n t = true -> wf_obj_wide scoped n t = true.
Proof. unfold wf_obj_t. intros H. apply andb_true_iff in H as [H _]. exact H. Qed.
Lemma wf_obj_t_dsafe scoped n t : wf_obj_t scoped n t = true -> dsafe n t = true.
Proof. unfold wf_obj_t. intros H. apply andb_true_iff in H as [_ H]. exact H. Qed.
Lemma wf_list_t_wide scoped n ts : wf_list_t scoped n ts = true -> exists v, wf_list_wide scoped [] [] n ts = Some v.
Proof. unfold wf_list_t. destruct (wf_list_wide scoped [] [] n ts) as [v|]; [exists v; reflexivity|discriminate]. Qed.

Theorem slice_unslice_t scoped n t : wf_obj_t scoped n t = true ->
  unslice scoped n (slice n t) = Some (heap_of n t, [val_of n t]).
Proof. intros W. apply slice_unslice_wide, (wf_obj_t_wide _ _ _ W). Qed.

Theorem slice_unslice_list_t scoped n ts : wf_list_t scoped n ts = true ->
  unslice scoped n (slice_list n ts) = Some (heap_list n ts, vals_list n ts).
Proof. intros W. destruct (wf_list_t_wide _ _ _ W) as [v V]. exact (slice_unslice_list_wide _ _ _ _ V). Qed.

(* any admissible receiver state: its open immutables are among `imm`, no closed immutable is pending (empty wait table),
   and the walk of t in that context meets no refusal and hands a real object (not a Deferred) to the parent *)
Theorem run_slice_t t n sc vis imm vis' w st : wf_wide sc vis imm n t = Some vis' -> dsim imm [] n t = Some (w, None) ->
  okst sc vis imm n st ->
  run (slice n t) st = Some (adv st [val_of n t] (regs_of n t) (heap_of n t) (opens t)).
Proof. intros W _ O. exact (run_slice_wide _ _ _ _ _ _ _ W O). Qed.

Theorem deferred_sound_t scoped n t r : wf_obj_t scoped n t = true ->
  dunslice scoped n (slice n t) = Some r -> r = (heap_of n t, [val_of n t]).
Proof. intros W. apply deferred_sound, (wf_obj_t_wide _ _ _ W). Qed.

Theorem bytes_roundtrip_t scoped n t bs : wf_obj_t scoped n t = true -> forallb wf_token (slice n t) = true ->
  encode_stream (slice n t) = Ok bs ->
  exists toks, decode bs = (toks, EndClean) /\ unslice scoped n toks = Some (heap_of n t, [val_of n t]).
Proof. intros W. apply bytes_roundtrip_wide, (wf_obj_t_wide _ _ _ W). Qed.

Theorem end_to_end_any_chunking_t scoped n t bs cs :
  wf_obj_t scoped n t = true -> forallb wf_token (slice n t) = true -> encode_stream (slice n t) = Ok bs -> List.concat cs = bs ->
  unslice scoped n (tokens_of_chunks cs) = Some (heap_of n t, [val_of n t]).
Proof. intros W. apply end_to_end_any_chunking, (wf_obj_t_wide _ _ _ W). Qed.

Theorem roundtrip_any_vocab_t scoped n t tbl : wf_obj_t scoped n t = true -> NoDup (map snd tbl) ->
  exists toks, devocab tbl (envocab tbl (slice n t)) = Some toks /\ unslice scoped n toks = Some (heap_of n t, [val_of n t]).
Proof. intros W. apply roundtrip_any_vocab_wide, (wf_obj_t_wide _ _ _ W). Qed.

Theorem heap_end_to_end_t h scoped n q fuel os fuel' toks tbl bs cs :
  canon_of fuel h scoped n q = Some os -> wf_list_t scoped n os = true ->
  send_heap fuel' h scoped n q = Some toks ->
  NoDup (map snd tbl) -> forallb wf_token (envocab tbl toks) = true -> encode_stream (envocab tbl toks) = Ok bs ->
  List.concat cs = bs ->
  exists toks' rh rv, devocab tbl (tokens_of_chunks cs) = Some toks' /\ unslice scoped n toks' = Some (rh, rv) /\
                      iso_to_sender os n rh rv.
Proof. intros C W. destruct (wf_list_t_wide _ _ _ W) as [v V]. exact (heap_end_to_end _ _ _ _ _ _ _ _ _ _ _ _ C V). Qed.

Theorem keepalive_end_to_end_t scoped n t w bs cs :
  wf_obj_t scoped n t = true -> strip_ka w = slice n t -> forallb wf_token w = true -> encode_stream w = Ok bs ->
  List.concat cs = bs ->
  unslice scoped n (tokens_of_chunks cs) = Some (heap_of n t, [val_of n t]).
Proof. intros W. apply keepalive_end_to_end, (wf_obj_t_wide _ _ _ W). Qed.

Theorem keepalive_list_t scoped n ts w : wf_list_t scoped n ts = true -> strip_ka w = slice_list n ts ->
  unslice scoped n w = Some (heap_list n ts, vals_list n ts).
Proof. intros W. destruct (wf_list_t_wide _ _ _ W) as [v V]. exact (keepalive_list _ _ _ _ _ V). Qed.

(* ------------------------------------------------------------------ the region the old guard wrongly admitted *)
(* g1: c = C(); T = (c,); c.x = (T,)                  -- the attribute value is an inline tuple that holds a reference to T
   g4: L = []; A = (L,); B = (A,); c.x = B; L.extend([B, c])  -- the attribute value is a reference to B, CLOSED and still pending
   g_key: c = C(); T = (c,); c.d = {(T,): 1}          -- the same through a dict key
   All three are Python object graphs; the implementation raises (AssertionError copyable.py RemoteCopyUnslicer.receiveChild /
   BananaError 'incomplete object as dictionary key'): known findings incomplete-tuple-into-copyable / -as-dict-key. *)
Definition g1 : obj := OTuple [OCopy nmA [([120], OTuple [ORef 0])]].
Definition g4 : obj := OTuple [OList [OTuple [ORef 0]; OCopy nmA [([120], ORef 2)]]].
Definition g_key : obj := OTuple [OCopy nmA [([100], ODict [(OTuple [ORef 0], OInt 1)])]].

(* the old guard admits them, the pointer machine delivers them, the Deferred-level receiver refuses them like the code;
   the transitive guard excludes them *)
Theorem old_guard_refuted :
  (wf_obj_wide true 0 g1 = true /\ unslice true 0 (slice 0 g1) = Some (heap_of 0 g1, [val_of 0 g1]) /\
   doutcome true 0 (slice 0 g1) = 1 /\ wf_obj_t true 0 g1 = false) /\
  (wf_obj_wide true 0 g4 = true /\ unslice true 0 (slice 0 g4) = Some (heap_of 0 g4, [val_of 0 g4]) /\
   doutcome true 0 (slice 0 g4) = 1 /\ wf_obj_t true 0 g4 = false) /\
  (wf_obj_wide true 0 g_key = true /\ unslice true 0 (slice 0 g_key) = Some (heap_of 0 g_key, [val_of 0 g_key]) /\
   doutcome true 0 (slice 0 g_key) = 1 /\ wf_obj_t true 0 g_key = false).
Proof. vm_compute. repeat split; reflexivity. Qed.

(* the transitive guard also excludes what the old one excluded *)
Theorem direct_hazards_outside : wf_obj_t true 0 witness_copy_attr = false /\ wf_obj_t true 0 witness_dict_key = false.
Proof. vm_compute. split; reflexivity. Qed.

(* the term on which progress failed under the old guard (two tuples directly holding each other) is outside the new guard,
   and so is a tuple that holds itself *)
Theorem wait_cycle_outside : wf_obj_wide true 0 wait_cycle = true /\ wf_obj_t true 0 wait_cycle = false /\
  dunslice true 0 (slice 0 wait_cycle) = None /\
  wf_obj_wide true 0 (OList [OTuple [ORef 1]]) = true /\ wf_obj_t true 0 (OList [OTuple [ORef 1]]) = false /\
  doutcome true 0 (slice 0 (OList [OTuple [ORef 1]])) = 2.
Proof. vm_compute. repeat split; reflexivity. Qed.

(* ------------------------------------------------------------------ inside the guard (non-vacuity): deferred completion, delivered *)
(* abl: L = []; A = (L,); B = (A,); L.append(B).   amkj: K directly holds a reference to J, closed and still pending.
   tdl: two callbacks on one Deferred.   frozen: frozenset inside a cycle through a Copyable -- the Copyable's attribute is a
   LIST that holds the pending frozensets (a list takes placeholders), so the Copyable itself is never handed a Deferred. *)
Definition frozen_late : obj := OTuple [OCopy nmA [([120], OList [OFrozen [ORef 0; OInt 7]; OSet [OInt 1; OFrozen [ORef 0; OInt 7]]])]].
Example ex_inside_guard :
  (wf_obj_t true 0 abl = true /\ dunslice true 0 (slice 0 abl) = Some (heap_of 0 abl, [val_of 0 abl])) /\
  (wf_obj_t true 0 amkj = true /\ dunslice true 0 (slice 0 amkj) = Some (heap_of 0 amkj, [val_of 0 amkj])) /\
  (wf_obj_t true 0 tdl = true /\ dunslice true 0 (slice 0 tdl) = Some (heap_of 0 tdl, [val_of 0 tdl])) /\
  (wf_obj_t true 0 frozen_late = true /\ dunslice true 0 (slice 0 frozen_late) = Some (heap_of 0 frozen_late, [val_of 0 frozen_late])) /\
  wf_list_t false 0 [OCont (CScope [99; 97; 108; 108]) [OInt 1; OList [ORef 1]]; OCont (CScope [99; 97; 108; 108]) [OInt 2; OTuple [OList [ORef 5]]]] = true.
Proof. vm_compute. repeat split; reflexivity. Qed.

(* ------------------------------------------------------------------ bounded-exhaustive agreement of the guard with the Deferred-level receiver *)
(* all terms of a small grammar: containers list / tuple / frozenset / dict {k: v} / Copyable {x: v} with one or two children,
   leaves an int or a reference to any earlier OPEN number, up to a nesting depth.  On every term the old guard admits:
   the new guard holds IFF the Deferred-level receiver delivers (outcome 0), and then it delivers the denoted graph. *)
Definition mk_conts (refs : list obj) (kids : list obj) : list obj :=
  flat_map (fun a => [OList [a]; OTuple [a]; OFrozen [a]; ODict [(OInt 1, a)]; ODict [(a, OInt 1)]; OCopy nmA [([120], a)]]) kids
  ++ flat_map (fun a => flat_map (fun b => [OList [a; b]; OTuple [a; b]]) (OInt 1 :: refs)) kids.
Definition leaves (maxref : Z) : list obj := OInt 1 :: map ORef (map Z.of_nat (seq 0 (Z.to_nat maxref))).
Fixpoint terms_upto (d : nat) (maxref : Z) : list obj :=
  match d with
  | O => leaves maxref
  | S d' => leaves maxref ++ mk_conts (map ORef (map Z.of_nat (seq 0 (Z.to_nat maxref)))) (terms_upto d' maxref)
  end.
Definition agree (t : obj) : bool :=
  if wf_obj_wide true 0 t then
    if wf_obj_t true 0 t
    then match dunslice true 0 (slice 0 t) with
         | Some r => match canon (S (size t)) (fst r) 0 (hd VNone (snd r)) with Some (o, _) => obj_eqb o t | None => false end
         | None => false end
    else negb (doutcome true 0 (slice 0 t) =? 0)
  else true.
Definition small_family : list obj := filter (fun t => match t with OCont _ _ => true | _ => false end) (terms_upto 3 4).
Theorem guard_exact_on_small_terms :
  forallb agree small_family = true /\
  (2000 <= Z.of_nat (List.length (filter (wf_obj_wide true 0) small_family))) /\
  (100 <= Z.of_nat (List.length (filter (fun t => wf_obj_wide true 0 t && negb (wf_obj_t true 0 t)) small_family))).
Proof. vm_compute. repeat split; intros; discriminate. Qed.
