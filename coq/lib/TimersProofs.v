(* C15: proofs about lib/Timers.v (model built on the translated fragments of gen/TimersGen.v) *)
From Coq Require Import ZArith List Bool Lia.
Import ListNotations.
Require Import Verif.lib.PyLite Verif.gen.BananaGen Verif.gen.TimersGen Verif.lib.BytesProofs Verif.lib.Timers.
Local Open Scope Z_scope.

(* ------------------------------------------------------------------------------------------
   1. What the translated fragments compute.  These are the only lemmas that look inside
      gen/TimersGen.v; they stop holding when the source changes a comparison, a delay, drops
      a re-arm or a cancel.                                                                   *)

Lemma eps_ms_nonneg : 0 <= eps_ms.
Proof. unfold eps_ms. lia. Qed.

(* equal up to associativity/commutativity of the delay expression and the direction in which a comparison is written *)
Ltac fx_eq := repeat match goal with
                     | |- (_, _) = (_, _) => apply f_equal2
                     | |- Some _ = Some _ => apply f_equal
                     end; try reflexivity; try lia.

Lemma made_ka_spec t lr k u a tm : connectionMade_ka t lr k u a tm = (Some (t + (k + eps_ms)), t, true, 0, 0).
Proof. unfold connectionMade_ka, connectionMade_ka_g. fx_eq. Qed.

Lemma made_dc_spec t lr k u a tm : connectionMade_dc t lr k u a tm = (Some (t + (k + eps_ms)), t, true, 0, 0).
Proof. unfold connectionMade_dc, connectionMade_dc_g. fx_eq. Qed.

Lemma stamp_spec t lr k u a tm :
  dataReceived_stamp t lr k u a tm = (tm, (if a then lr else if u then t else lr), u, 0, 0).
Proof. unfold dataReceived_stamp, dataReceived_stamp_g. destruct a, u; fx_eq. Qed.

Lemma ka_fired_spec t lr k u a tm :
  keepaliveTimerFired t lr k u a tm = (Some (t + (k + eps_ms)), lr, u, (if k <? t - lr then 1 else 0), 0).
Proof. unfold keepaliveTimerFired, keepaliveTimerFired_g. rewrite ?Z.gtb_ltb. destruct (k <? t - lr); fx_eq. Qed.

Lemma dc_fired_spec t lr d u a tm :
  disconnectTimerFired t lr d u a tm =
  if d <? t - lr then (None, lr, u, 0, 1) else (Some (t + (d + eps_ms)), lr, u, 0, 0).
Proof. unfold disconnectTimerFired, disconnectTimerFired_g. rewrite ?Z.gtb_ltb. destruct (d <? t - lr); fx_eq. Qed.

Lemma lost_ka_spec t lr k u a tm : connectionLost_ka t lr k u a tm = (None, lr, u, 0, 0).
Proof. unfold connectionLost_ka, connectionLost_ka_g. destruct tm; fx_eq. Qed.

Lemma lost_dc_spec t lr k u a tm : connectionLost_dc t lr k u a tm = (None, lr, u, 0, 0).
Proof. unfold connectionLost_dc, connectionLost_dc_g. destruct tm; fx_eq. Qed.

(* ------------------------------------------------------------------------------------------
   2. Field-wise description of one step                                                       *)

Definition ka_after (c : cfg) (s : st) (t : Z) : option Z :=
  match ka s, cK c with
  | Some e, Some k => if e <=? t then Some (t + (k + eps_ms)) else Some e
  | x, _ => x
  end.

Definition pings_new (c : cfg) (s : st) (t : Z) : list Z :=
  match ka s, cK c with
  | Some e, Some k => if e <=? t then (if k <? t - last_rx s then [t] else []) else []
  | _, _ => []
  end.

Definition dc_after (c : cfg) (s : st) (t : Z) : option Z :=
  match dc s, cT c with
  | Some e, Some d => if e <=? t then (if d <? t - last_rx s then None else Some (t + (d + eps_ms))) else Some e
  | x, _ => x
  end.

Definition torn_new (c : cfg) (s : st) (t : Z) : list Z :=
  match dc s, cT c with
  | Some e, Some d => if e <=? t then (if d <? t - last_rx s then [t] else []) else []
  | _, _ => []
  end.

Lemma tick_fields c s t :
  let s' := step c s (Tick t) in
  now s' = t /\ last_rx s' = last_rx s /\ use_ka s' = use_ka s /\ abandoned s' = abandoned s /\
  closed s' = closed s /\ ka s' = ka_after c s t /\ dc s' = dc_after c s t /\
  torn s' = torn_new c s t ++ torn s /\ pings s' = pings_new c s t ++ pings s.
Proof.
  unfold step, fire_dc, fire_ka, ka_after, dc_after, torn_new, pings_new.
  destruct s as [n lr u a k d cl tn pg]; cbn [Timers.ka Timers.dc Timers.last_rx Timers.use_ka Timers.abandoned].
  destruct k as [ek|], (cK c) as [kk|]; try destruct (ek <=? t);
    try rewrite ka_fired_spec; cbn [apply_ka Timers.dc Timers.last_rx Timers.use_ka Timers.abandoned];
    destruct d as [ed|], (cT c) as [dd|]; try destruct (ed <=? t);
    try rewrite dc_fired_spec; try destruct (kk <? t - lr); try destruct (dd <? t - lr);
    cbn; repeat split; reflexivity.
Qed.

Definition stamped (s : st) (t : Z) : Z := if abandoned s then last_rx s else if use_ka s then t else last_rx s.

Lemma rx_fields c s t :
  let s' := step c s (Rx t) in
  now s' = t /\ last_rx s' = stamped s t /\ use_ka s' = use_ka s /\ abandoned s' = abandoned s /\
  closed s' = closed s /\ ka s' = ka s /\ dc s' = dc s /\ torn s' = torn s /\ pings s' = pings s.
Proof.
  unfold step, stamp, stamped. rewrite stamp_spec. destruct s; cbn. repeat split; reflexivity.
Qed.

Lemma rxbad_fields c s t :
  let s' := step c s (RxBad t) in
  now s' = t /\ last_rx s' = stamped s t /\ use_ka s' = use_ka s /\ abandoned s' = true /\
  closed s' = closed s /\ ka s' = ka s /\ dc s' = dc s /\ torn s' = torn s /\ pings s' = pings s.
Proof.
  unfold step, stamp, stamped. rewrite stamp_spec. destruct s; cbn. repeat split; reflexivity.
Qed.

Lemma close_fields c s t :
  let s' := step c s (Close t) in
  now s' = t /\ last_rx s' = last_rx s /\ use_ka s' = use_ka s /\ abandoned s' = abandoned s /\
  closed s' = true /\ ka s' = None /\ dc s' = None /\ torn s' = torn s /\ pings s' = pings s.
Proof.
  unfold step. destruct s as [n lr u a k d cl tn pg]. cbn [Timers.ka Timers.dc Timers.last_rx Timers.use_ka Timers.abandoned].
  rewrite lost_ka_spec. cbn. rewrite lost_dc_spec. cbn. repeat split; reflexivity.
Qed.

Lemma init_fields c t0 :
  let s := init c t0 in
  now s = t0 /\ last_rx s = t0 /\ use_ka s = (match cK c, cT c with None, None => false | _, _ => true end) /\
  abandoned s = false /\ closed s = false /\
  ka s = (match cK c with Some k => Some (t0 + (k + eps_ms)) | None => None end) /\
  dc s = (match cT c with Some d => Some (t0 + (d + eps_ms)) | None => None end) /\ torn s = [] /\ pings s = [].
Proof.
  unfold init. destruct (cK c) as [k|], (cT c) as [d|]; try rewrite made_ka_spec; cbn; try rewrite made_dc_spec; cbn;
    repeat split; reflexivity.
Qed.

Lemma run_cons c s e r : run c s (e :: r) = run c (step c s e) r.
Proof. reflexivity. Qed.

Lemma run_app c s a b : run c s (a ++ b) = run c (run c s a) b.
Proof. unfold run. apply fold_left_app. Qed.

(* ------------------------------------------------------------------------------------------
   3. Invariant of the states reachable from connectionMade                                     *)

Definition inv (c : cfg) (s : st) : Prop :=
  last_rx s <= now s /\
  (forall x, In x (torn s) -> x <= now s) /\
  (closed s = false -> forall k, cK c = Some k -> exists e, ka s = Some e /\ e <= now s + k + eps_ms) /\
  (closed s = false -> forall d, cT c = Some d -> torn s = [] -> exists e, dc s = Some e /\ e <= now s + d + eps_ms) /\
  (cK c = None -> ka s = None) /\ (cT c = None -> dc s = None) /\
  (use_ka s = match cK c, cT c with None, None => false | _, _ => true end).

Lemma inv_init c t0 : inv c (init c t0).
Proof.
  destruct (init_fields c t0) as (Hn & Hl & Hu & Ha & Hc & Hk & Hd & Ht & Hp). unfold inv.
  rewrite Hn, Hl, Hk, Hd, Ht, Hu.
  split; [lia|]. split; [intros x []|].
  split; [intros _ k E; rewrite E; eexists; split; [reflexivity|lia]|].
  split; [intros _ d E _; rewrite E; eexists; split; [reflexivity|lia]|].
  split; [intros E; rewrite E; reflexivity|]. split; [intros E; rewrite E; reflexivity|]. reflexivity.
Qed.

Lemma inv_step c s e : inv c s -> now s <= ev_time e -> inv c (step c s e).
Proof.
  intros (Hl & Ht & Hk & Hd & Hkn & Hdn & Hu) Hm. unfold inv. destruct e as [t|t|t|t]; cbn [ev_time] in Hm.
  - destruct (rx_fields c s t) as (Fn & Fl & Fu & Fa & Fc & Fk & Fd & Ft & Fp).
    rewrite Fn, Fl, Fu, Fc, Fk, Fd, Ft. unfold stamped.
    split; [destruct (abandoned s), (use_ka s); lia|].
    split; [intros x Hx; specialize (Ht x Hx); lia|].
    split; [intros C k E; destruct (Hk C k E) as (e & -> & ?); exists e; split; [reflexivity|lia]|].
    split; [intros C d E N; destruct (Hd C d E N) as (e & -> & ?); exists e; split; [reflexivity|lia]|].
    auto.
  - destruct (rxbad_fields c s t) as (Fn & Fl & Fu & Fa & Fc & Fk & Fd & Ft & Fp).
    rewrite Fn, Fl, Fu, Fc, Fk, Fd, Ft. unfold stamped.
    split; [destruct (abandoned s), (use_ka s); lia|].
    split; [intros x Hx; specialize (Ht x Hx); lia|].
    split; [intros C k E; destruct (Hk C k E) as (e & -> & ?); exists e; split; [reflexivity|lia]|].
    split; [intros C d E N; destruct (Hd C d E N) as (e & -> & ?); exists e; split; [reflexivity|lia]|].
    auto.
  - destruct (tick_fields c s t) as (Fn & Fl & Fu & Fa & Fc & Fk & Fd & Ft & Fp).
    rewrite Fn, Fl, Fu, Fc, Fk, Fd, Ft.
    split; [lia|].
    split.
    { intros x Hx. apply in_app_or in Hx as [Hx|Hx]; [|specialize (Ht x Hx); lia].
      unfold torn_new in Hx. destruct (dc s), (cT c); try destruct (_ <=? t); try destruct (_ <? _);
        cbn in Hx; try contradiction. destruct Hx as [<-|[]]. lia. }
    split.
    { intros C k E. destruct (Hk C k E) as (e & Ee & ?). unfold ka_after. rewrite Ee, E.
      destruct (e <=? t); eexists; (split; [reflexivity|lia]). }
    split.
    { intros C d E N. apply app_eq_nil in N as [N1 N2]. destruct (Hd C d E N2) as (e & Ee & ?).
      unfold dc_after. unfold torn_new in N1. rewrite Ee, E in *.
      destruct (e <=? t); [destruct (d <? t - last_rx s); [discriminate|]|]; eexists; (split; [reflexivity|lia]). }
    split; [intros E; unfold ka_after; rewrite (Hkn E); reflexivity|].
    split; [intros E; unfold dc_after; rewrite (Hdn E); reflexivity|]. exact Hu.
  - destruct (close_fields c s t) as (Fn & Fl & Fu & Fa & Fc & Fk & Fd & Ft & Fp).
    rewrite Fn, Fl, Fu, Fc, Fk, Fd, Ft.
    split; [lia|]. split; [intros x Hx; specialize (Ht x Hx); lia|].
    split; [discriminate|]. split; [discriminate|].
    split; [reflexivity|]. split; [reflexivity|]. exact Hu.
Qed.

Lemma step_now c s e : now (step c s e) = ev_time e.
Proof.
  destruct e as [t|t|t|t]; cbn [ev_time];
    [apply (rx_fields c s t) | apply (rxbad_fields c s t) | apply (tick_fields c s t) | apply (close_fields c s t)].
Qed.

Lemma inv_run c evs : forall s, inv c s -> sorted_from (now s) evs -> inv c (run c s evs).
Proof.
  induction evs as [|e r IH]; intros s I S; [exact I|].
  destruct S as [S1 S2]. rewrite run_cons. apply IH; [apply inv_step; assumption|]. rewrite step_now. exact S2.
Qed.

Lemma run_now_ge c evs : forall s, sorted_from (now s) evs -> now s <= now (run c s evs).
Proof.
  induction evs as [|e r IH]; intros s S; [cbn; lia|]. destruct S as [S1 S2]. rewrite run_cons.
  specialize (IH (step c s e)). rewrite step_now in IH. specialize (IH S2). lia.
Qed.

Definition no_close (evs : list ev) : Prop := Forall (fun e => ~ is_close e) evs.
Definition only_ticks (evs : list ev) : Prop := Forall is_tick evs.

Lemma closed_run c evs : forall s, closed s = false -> no_close evs -> closed (run c s evs) = false.
Proof.
  induction evs as [|e r IH]; intros s C N; [exact C|]. inversion N as [|? ? N1 N2]; subst.
  rewrite run_cons. apply IH; [|exact N2].
  destruct e as [t|t|t|t].
  - destruct (rx_fields c s t) as (_ & _ & _ & _ & -> & _). exact C.
  - destruct (rxbad_fields c s t) as (_ & _ & _ & _ & -> & _). exact C.
  - destruct (tick_fields c s t) as (_ & _ & _ & _ & -> & _). exact C.
  - exfalso. apply N1. exists t. reflexivity.
Qed.

(* ------------------------------------------------------------------------------------------
   4. Idle connection is torn down within 2T + eps (+ reactor lateness d)                       *)

Section IdlePhase.
Variable c : cfg.
Variable d : Z.

(* phase in which nothing arrives: only reactor turns *)
Definition dc_goal (B : Z) (s : st) : Prop :=
  (exists x, In x (torn s) /\ x <= B + d) \/ (exists e, dc s = Some e /\ e <= B).

Lemma idle_dc_phase T t0 post : cT c = Some T -> 0 <= T ->
  forall s, only_ticks post -> punctual c d s post -> last_rx s <= t0 ->
  dc_goal (t0 + 2 * T + eps_ms) s ->
  let s' := run c s post in dc_goal (t0 + 2 * T + eps_ms) s' /\ overdue_ok d s' (now s').
Proof.
  intros ET HT. induction post as [|e r IH]; intros s O P L G.
  - cbn. split; [exact G | exact P].
  - inversion O as [|? ? [t ->] O2]; subst. destruct P as [P1 P2]. cbn [ev_time] in P1.
    rewrite run_cons. apply IH; [exact O2 | exact P2 | | ].
    + destruct (tick_fields c s t) as (_ & -> & _). exact L.
    + destruct (tick_fields c s t) as (_ & _ & _ & _ & _ & _ & Fd & Ft & _).
      unfold dc_goal. rewrite Fd, Ft. destruct G as [(x & Hx & Hb)|(e & Ee & Hb)].
      * left. exists x. split; [apply in_or_app; right; exact Hx | exact Hb].
      * destruct P1 as [_ P1]. specialize (P1 e Ee). unfold dc_after, torn_new. rewrite Ee, ET.
        destruct (e <=? t) eqn:Due.
        -- destruct (Z.ltb_spec T (t - last_rx s)) as [Age|Age].
           ++ left. exists t. split; [left; reflexivity | lia].
           ++ right. eexists. split; [reflexivity|]. lia.
        -- right. exists e. split; [reflexivity | exact Hb].
Qed.

Definition ka_goal (B : Z) (t0 : Z) (old : list Z) (s : st) : Prop :=
  exists new, pings s = new ++ old /\
    ((exists p, In p new /\ t0 <= p <= B + d) \/ (exists e, ka s = Some e /\ e <= B)).

Lemma idle_ka_phase K t0 old post : cK c = Some K -> 0 <= K ->
  forall s, only_ticks post -> punctual c d s post -> sorted_from (now s) post -> t0 <= now s -> last_rx s <= t0 ->
  ka_goal (t0 + 2 * K + eps_ms) t0 old s ->
  let s' := run c s post in ka_goal (t0 + 2 * K + eps_ms) t0 old s' /\ overdue_ok d s' (now s').
Proof.
  intros EK HK. induction post as [|e r IH]; intros s O P S N L G.
  - cbn. split; [exact G | exact P].
  - inversion O as [|? ? [t ->] O2]; subst. destruct P as [P1 P2]. destruct S as [S1 S2]. cbn [ev_time] in *.
    rewrite run_cons. apply IH; [exact O2 | exact P2 | rewrite step_now; exact S2 | rewrite step_now; cbn [ev_time]; lia | | ].
    + destruct (tick_fields c s t) as (_ & -> & _). exact L.
    + destruct (tick_fields c s t) as (_ & _ & _ & _ & _ & Fk & _ & _ & Fp).
      unfold ka_goal. rewrite Fk, Fp. destruct G as (new & En & G). exists (pings_new c s t ++ new).
      split; [rewrite En, app_assoc; reflexivity|].
      destruct G as [(p & Hp & Hb)|(e & Ee & Hb)].
      * left. exists p. split; [apply in_or_app; right; exact Hp | exact Hb].
      * destruct P1 as [P1 _]. specialize (P1 e Ee). unfold ka_after, pings_new. rewrite Ee, EK.
        destruct (e <=? t) eqn:Due.
        -- destruct (Z.ltb_spec K (t - last_rx s)) as [Age|Age].
           ++ left. exists t. split; [left; reflexivity | lia].
           ++ right. eexists. split; [reflexivity|]. lia.
        -- right. exists e. split; [reflexivity | exact Hb].
Qed.

End IdlePhase.

(* C15, sentence 1 (timing part).  `pre` is any history since connectionMade at tc (no connectionLost
   yet); from then on nothing arrives (`post` consists of reactor turns only) and the reactor is never
   more than d late.  Once the clock has passed  now(pre) + 2T + eps + d  the connection has been torn
   down, and that happened no later than this instant. *)
Theorem idle_torn_down c tc T d pre post :
  cT c = Some T -> 0 <= T -> 0 <= d ->
  sorted_from tc pre -> no_close pre ->
  let s := run c (init c tc) pre in
  only_ticks post -> sorted_from (now s) post -> punctual c d s post ->
  let s' := run c s post in
  now s + 2 * T + eps_ms + d < now s' ->
  exists x, In x (torn s') /\ x <= now s + 2 * T + eps_ms + d.
Proof.
  intros ET HT Hd S N s O S2 P s' Late. pose proof eps_ms_nonneg as Heps.
  assert (I : inv c s).
  { apply inv_run; [apply inv_init|]. destruct (init_fields c tc) as (-> & _). exact S. }
  assert (C : closed s = false).
  { apply closed_run; [apply (init_fields c tc)|exact N]. }
  destruct I as (Il & It & _ & Id & _).
  assert (G : dc_goal d (now s + 2 * T + eps_ms) s).
  { destruct (torn s) as [|x l] eqn:Et.
    - right. destruct (Id C T ET eq_refl) as (e & Ee & He). exists e. split; [exact Ee|lia].
    - left. exists x. split; [rewrite Et; left; reflexivity|]. specialize (It x (or_introl eq_refl)). lia. }
  destruct (idle_dc_phase c d T (now s) post ET HT s O P Il G) as [G' F]. fold s' in G', F.
  destruct G' as [(x & Hx & Hb)|(e & Ee & Hb)].
  - exists x. split; [exact Hx|lia].
  - exfalso. destruct F as [_ F]. specialize (F e Ee). lia.
Qed.

(* C15, sentence 3: with keepalive K an idle connection emits a PING during the idle phase, no later
   than now(pre) + 2K + eps + d *)
Theorem ping_within c tc K d pre post :
  cK c = Some K -> 0 <= K -> 0 <= d ->
  sorted_from tc pre -> no_close pre ->
  let s := run c (init c tc) pre in
  only_ticks post -> sorted_from (now s) post -> punctual c d s post ->
  let s' := run c s post in
  now s + 2 * K + eps_ms + d < now s' ->
  exists new p, pings s' = new ++ pings s /\ In p new /\ now s <= p <= now s + 2 * K + eps_ms + d.
Proof.
  intros EK HK Hd S N s O S2 P s' Late. pose proof eps_ms_nonneg as Heps.
  assert (I : inv c s).
  { apply inv_run; [apply inv_init|]. destruct (init_fields c tc) as (-> & _). exact S. }
  assert (C : closed s = false).
  { apply closed_run; [apply (init_fields c tc)|exact N]. }
  destruct I as (Il & _ & Ik & _).
  assert (G : ka_goal d (now s + 2 * K + eps_ms) (now s) (pings s) s).
  { exists []. split; [reflexivity|]. right. destruct (Ik C K EK) as (e & Ee & He). exists e. split; [exact Ee|lia]. }
  destruct (idle_ka_phase c d K (now s) (pings s) post EK HK s O P S2 (Z.le_refl _) Il G) as [G' F].
  fold s' in G', F. destruct G' as (new & En & [(p & Hp & Hb)|(e & Ee & Hb)]).
  - exists new, p. split; [exact En|]. split; [exact Hp|lia].
  - exfalso. destruct F as [F _]. specialize (F e Ee). lia.
Qed.

(* ------------------------------------------------------------------------------------------
   5. The timers act only when the connection has been idle for longer than the timeout        *)

Lemma use_ka_step c s e : use_ka (step c s e) = use_ka s.
Proof.
  destruct e as [t|t|t|t];
    [apply (rx_fields c s t) | apply (rxbad_fields c s t) | apply (tick_fields c s t) | apply (close_fields c s t)].
Qed.

Lemma last_arrival_step c s e r : use_ka s = true ->
  last_arrival (last_rx s) (abandoned s) (e :: r) = last_arrival (last_rx (step c s e)) (abandoned (step c s e)) r.
Proof.
  intros U. destruct e as [t|t|t|t]; cbn [last_arrival].
  - destruct (rx_fields c s t) as (_ & -> & _ & -> & _). unfold stamped. rewrite U. reflexivity.
  - destruct (rxbad_fields c s t) as (_ & -> & _ & -> & _). unfold stamped. rewrite U. reflexivity.
  - destruct (tick_fields c s t) as (_ & -> & _ & -> & _). reflexivity.
  - destruct (close_fields c s t) as (_ & -> & _ & -> & _). reflexivity.
Qed.

(* the model's last_rx is the specification's last_arrival *)
Lemma last_rx_run c evs : forall s, use_ka s = true ->
  last_rx (run c s evs) = last_arrival (last_rx s) (abandoned s) evs.
Proof.
  induction evs as [|e r IH]; intros s U; [reflexivity|].
  rewrite run_cons, IH by (rewrite use_ka_step; exact U). symmetry. apply last_arrival_step. exact U.
Qed.

Lemma torn_origin c T evs : cT c = Some T -> forall s, use_ka s = true ->
  forall x, In x (torn (run c s evs)) ->
  In x (torn s) \/ exists pre post, evs = pre ++ Tick x :: post /\ T < x - last_arrival (last_rx s) (abandoned s) pre.
Proof.
  intros ET. induction evs as [|e r IH]; intros s U x Hx; [left; exact Hx|].
  rewrite run_cons in Hx. apply IH in Hx; [|rewrite use_ka_step; exact U].
  destruct Hx as [Hx|(pre & post & -> & Hgt)].
  - destruct e as [t|t|t|t].
    + destruct (rx_fields c s t) as (_ & _ & _ & _ & _ & _ & _ & Ft & _). rewrite Ft in Hx. left; exact Hx.
    + destruct (rxbad_fields c s t) as (_ & _ & _ & _ & _ & _ & _ & Ft & _). rewrite Ft in Hx. left; exact Hx.
    + destruct (tick_fields c s t) as (_ & _ & _ & _ & _ & _ & _ & Ft & _). rewrite Ft in Hx.
      apply in_app_or in Hx as [Hx|Hx]; [|left; exact Hx]. right.
      unfold torn_new in Hx. rewrite ET in Hx. destruct (dc s) as [e|]; [|contradiction].
      destruct (e <=? t); [|contradiction]. destruct (Z.ltb_spec T (t - last_rx s)) as [Age|Age]; [|contradiction].
      destruct Hx as [<-|[]]. exists [], r. split; [reflexivity|]. cbn [last_arrival]. lia.
    + destruct (close_fields c s t) as (_ & _ & _ & _ & _ & _ & _ & Ft & _). rewrite Ft in Hx. left; exact Hx.
  - right. exists (e :: pre), post. split; [reflexivity|]. rewrite (last_arrival_step c s e pre U). exact Hgt.
Qed.

Lemma pings_origin c K evs : cK c = Some K -> forall s, use_ka s = true ->
  forall x, In x (pings (run c s evs)) ->
  In x (pings s) \/ exists pre post, evs = pre ++ Tick x :: post /\ K < x - last_arrival (last_rx s) (abandoned s) pre.
Proof.
  intros EK. induction evs as [|e r IH]; intros s U x Hx; [left; exact Hx|].
  rewrite run_cons in Hx. apply IH in Hx; [|rewrite use_ka_step; exact U].
  destruct Hx as [Hx|(pre & post & -> & Hgt)].
  - destruct e as [t|t|t|t].
    + destruct (rx_fields c s t) as (_ & _ & _ & _ & _ & _ & _ & _ & Fp). rewrite Fp in Hx. left; exact Hx.
    + destruct (rxbad_fields c s t) as (_ & _ & _ & _ & _ & _ & _ & _ & Fp). rewrite Fp in Hx. left; exact Hx.
    + destruct (tick_fields c s t) as (_ & _ & _ & _ & _ & _ & _ & _ & Fp). rewrite Fp in Hx.
      apply in_app_or in Hx as [Hx|Hx]; [|left; exact Hx]. right.
      unfold pings_new in Hx. rewrite EK in Hx. destruct (ka s) as [e|]; [|contradiction].
      destruct (e <=? t); [|contradiction]. destruct (Z.ltb_spec K (t - last_rx s)) as [Age|Age]; [|contradiction].
      destruct Hx as [<-|[]]. exists [], r. split; [reflexivity|]. cbn [last_arrival]. lia.
    + destruct (close_fields c s t) as (_ & _ & _ & _ & _ & _ & _ & _ & Fp). rewrite Fp in Hx. left; exact Hx.
  - right. exists (e :: pre), post. split; [reflexivity|]. rewrite (last_arrival_step c s e pre U). exact Hgt.
Qed.

Lemma init_use_T c tc T : cT c = Some T -> use_ka (init c tc) = true.
Proof. intros E. destruct (init_fields c tc) as (_ & _ & -> & _). rewrite E. destruct (cK c); reflexivity. Qed.

Lemma init_use_K c tc K : cK c = Some K -> use_ka (init c tc) = true.
Proof. intros E. destruct (init_fields c tc) as (_ & _ & -> & _). rewrite E. reflexivity. Qed.

(* "only when": a teardown by the timer at x happened in a reactor turn at x at which the latest
   arrival was more than T old *)
Theorem torn_only_when_idle c tc T evs x : cT c = Some T ->
  In x (torn (run c (init c tc) evs)) ->
  exists pre post, evs = pre ++ Tick x :: post /\ T < x - last_arrival tc false pre.
Proof.
  intros ET Hx. destruct (torn_origin c T evs ET (init c tc) (init_use_T c tc T ET) x Hx) as [H|H].
  - destruct (init_fields c tc) as (_ & _ & _ & _ & _ & _ & _ & Ft & _). rewrite Ft in H. destruct H.
  - destruct (init_fields c tc) as (_ & Fl & _ & Fa & _). rewrite Fl, Fa in H. exact H.
Qed.

Theorem ping_only_when_idle c tc K evs x : cK c = Some K ->
  In x (pings (run c (init c tc) evs)) ->
  exists pre post, evs = pre ++ Tick x :: post /\ K < x - last_arrival tc false pre.
Proof.
  intros EK Hx. destruct (pings_origin c K evs EK (init c tc) (init_use_K c tc K EK) x Hx) as [H|H].
  - destruct (init_fields c tc) as (_ & _ & _ & _ & _ & _ & _ & _ & Fp). rewrite Fp in H. destruct H.
  - destruct (init_fields c tc) as (_ & Fl & _ & Fa & _). rewrite Fl, Fa in H. exact H.
Qed.

(* C15, sentence 2: if at every reactor turn the latest arrival is at most T old, the timer never
   tears the connection down -- for every history, including late reactor turns and closes *)
Theorem active_kept c tc T evs : cT c = Some T ->
  (forall pre t post, evs = pre ++ Tick t :: post -> t - last_arrival tc false pre <= T) ->
  torn (run c (init c tc) evs) = [].
Proof.
  intros ET H. destruct (torn (run c (init c tc) evs)) as [|x l] eqn:E; [reflexivity|].
  destruct (torn_only_when_idle c tc T evs x ET) as (pre & post & Ee & Hgt); [rewrite E; left; reflexivity|].
  specialize (H pre x post Ee). lia.
Qed.

(* ------------------------------------------------------------------------------------------
   6. connectionLost cancels both timers; nothing is re-armed, no PING, no teardown afterwards   *)

Lemma dead_step c s e : ka s = None -> dc s = None ->
  let s' := step c s e in ka s' = None /\ dc s' = None /\ torn s' = torn s /\ pings s' = pings s.
Proof.
  intros Hk Hd. destruct e as [t|t|t|t].
  - destruct (rx_fields c s t) as (_ & _ & _ & _ & _ & Fk & Fd & Ft & Fp). cbv zeta. rewrite Fk, Fd, Ft, Fp. auto.
  - destruct (rxbad_fields c s t) as (_ & _ & _ & _ & _ & Fk & Fd & Ft & Fp). cbv zeta. rewrite Fk, Fd, Ft, Fp. auto.
  - destruct (tick_fields c s t) as (_ & _ & _ & _ & _ & Fk & Fd & Ft & Fp). cbv zeta. rewrite Fk, Fd, Ft, Fp.
    unfold ka_after, dc_after, torn_new, pings_new. rewrite Hk, Hd. auto.
  - destruct (close_fields c s t) as (_ & _ & _ & _ & _ & Fk & Fd & Ft & Fp). cbv zeta. rewrite Fk, Fd, Ft, Fp. auto.
Qed.

Lemma dead_run c evs : forall s, ka s = None -> dc s = None ->
  let s' := run c s evs in ka s' = None /\ dc s' = None /\ torn s' = torn s /\ pings s' = pings s.
Proof.
  induction evs as [|e r IH]; intros s Hk Hd; [cbn; auto|].
  destruct (dead_step c s e Hk Hd) as (Hk' & Hd' & Ht & Hp). rewrite run_cons.
  destruct (IH (step c s e) Hk' Hd') as (A & B & C & D). cbv zeta. rewrite A, B, C, D. auto.
Qed.

Theorem cancel_on_close c tc pre t post : sorted_from tc pre ->
  let s := run c (init c tc) pre in
  let s' := run c s (Close t :: post) in
  ka s' = None /\ dc s' = None /\ pings s' = pings s /\ torn s' = torn s.
Proof.
  intros S s s'. assert (I : inv c s).
  { apply inv_run; [apply inv_init|]. destruct (init_fields c tc) as (-> & _). exact S. }
  destruct I as (_ & _ & _ & _ & Ikn & Idn & _).
  destruct (close_fields c s t) as (_ & _ & _ & _ & _ & Fk & Fd & Ft & Fp).
  assert (Hk : ka (step c s (Close t)) = None) by exact Fk.
  assert (Hd : dc (step c s (Close t)) = None) by exact Fd.
  destruct (dead_run c post _ Hk Hd) as (A & B & C & D). unfold s'. rewrite run_cons.
  rewrite A, B, C, D, Ft, Fp. auto.
Qed.

(* ------------------------------------------------------------------------------------------
   7. connectionTimedOut is called at most once per connection                                  *)

Definition once_inv (s : st) : Prop := (dc s <> None -> torn s = []) /\ (List.length (torn s) <= 1)%nat.

Lemma once_step c s e : once_inv s -> (cT c = None -> dc s = None) -> once_inv (step c s e).
Proof.
  intros [H1 H2] Hn. unfold once_inv. destruct e as [t|t|t|t].
  - destruct (rx_fields c s t) as (_ & _ & _ & _ & _ & _ & Fd & Ft & _). rewrite Fd, Ft. auto.
  - destruct (rxbad_fields c s t) as (_ & _ & _ & _ & _ & _ & Fd & Ft & _). rewrite Fd, Ft. auto.
  - destruct (tick_fields c s t) as (_ & _ & _ & _ & _ & _ & Fd & Ft & _). rewrite Fd, Ft.
    unfold dc_after, torn_new. destruct (dc s) as [e|] eqn:Ed.
    + rewrite (H1 ltac:(discriminate)). destruct (cT c) as [d|]; [|specialize (Hn eq_refl); discriminate].
      destruct (e <=? t); [destruct (d <? t - last_rx s)|]; cbn; split; auto; intros; try reflexivity; congruence.
    + cbn. split; [congruence|exact H2].
  - destruct (close_fields c s t) as (_ & _ & _ & _ & _ & _ & Fd & Ft & _). rewrite Fd, Ft.
    split; [congruence|exact H2].
Qed.

Theorem teardown_at_most_once c tc evs : sorted_from tc evs ->
  (List.length (torn (run c (init c tc) evs)) <= 1)%nat.
Proof.
  intros S.
  assert (G : forall evs s, inv c s -> sorted_from (now s) evs -> once_inv s -> once_inv (run c s evs)).
  { clear. induction evs as [|e r IH]; intros s I S O; [exact O|]. destruct S as [S1 S2]. rewrite run_cons.
    apply IH; [apply inv_step; assumption | rewrite step_now; exact S2 |].
    apply once_step; [exact O|]. destruct I as (_ & _ & _ & _ & _ & Idn & _). exact Idn. }
  apply G; [apply inv_init | destruct (init_fields c tc) as (-> & _); exact S |].
  destruct (init_fields c tc) as (_ & _ & _ & _ & _ & _ & _ & Ft & _). unfold once_inv. rewrite Ft. cbn. auto.
Qed.

(* ------------------------------------------------------------------------------------------
   8. PING / PONG                                                                               *)

Definition is_pp (t : tok) : bool := (snd t =? tok_PING) || (snd t =? tok_PONG).

(* what reaches the object grammar is the stream with the PING/PONG tokens deleted; the PONG numbers
   written are the numbers of the PINGs, one each, in order *)
Theorem rx_tokens_spec toks :
  rx_tokens toks = (filter (fun t => negb (is_pp t)) toks, map fst (filter (fun t => snd t =? tok_PING) toks)).
Proof.
  induction toks as [|[h ty] r IH]; [reflexivity|].
  cbn [rx_tokens filter map]. rewrite IH. unfold is_pp. cbn [snd fst].
  destruct (ty =? tok_PING) eqn:E1; cbn [orb negb].
  - reflexivity.
  - destruct (ty =? tok_PONG) eqn:E2; cbn [negb]; reflexivity.
Qed.

Lemma tok_ping_pong_distinct : (tok_PONG =? tok_PING) = false /\ (tok_PING =? tok_PING) = true /\ (tok_PONG =? tok_PONG) = true.
Proof. repeat split; reflexivity. Qed.

(* a PING with any number, between any two tokens: the decoded stream is that of the message without it,
   and exactly one PONG with the same number is added, in position *)
Theorem ping_transparent pre post n :
  rx_tokens (pre ++ (n, tok_PING) :: post) =
  (fst (rx_tokens (pre ++ post)), snd (rx_tokens pre) ++ n :: snd (rx_tokens post)).
Proof.
  rewrite !rx_tokens_spec. cbn [fst snd]. rewrite !filter_app. cbn [filter]. unfold is_pp. cbn [snd fst].
  destruct tok_ping_pong_distinct as (_ & -> & _). cbn [orb negb]. rewrite map_app. reflexivity.
Qed.

(* a PONG with any number, between any two tokens, produces nothing and changes nothing *)
Theorem pong_ignored pre post n : rx_tokens (pre ++ (n, tok_PONG) :: post) = rx_tokens (pre ++ post).
Proof.
  rewrite !rx_tokens_spec. rewrite !filter_app. cbn [filter]. unfold is_pp. cbn [snd fst].
  destruct tok_ping_pong_distinct as (-> & _ & ->). rewrite orb_true_r. cbn [negb]. reflexivity.
Qed.

(* ---- bytes: sendPING n / sendPONG n parse back (header scan of handleData) as (n, PING) / (n, PONG) *)

Lemma int2b128_loop_len f : forall n acc out k, int2b128_loop1 f n acc = Ok out ->
  0 <= n < 128 ^ Z.of_nat k -> (List.length out <= List.length acc + k)%nat.
Proof.
  induction f as [|f IH]; intros n acc out k E Hn; [discriminate|].
  rewrite int2b128_loop_unfold in E. destruct (Z.eqb_spec n 0) as [->|Hnz]; cbn [negb] in E.
  - inversion E; subst. lia.
  - destruct k as [|k]; [cbn in Hn; lia|].
    rewrite land127, shiftr7 in E. apply (IH _ _ _ k) in E.
    + rewrite app_length in E. cbn [List.length] in E. lia.
    + rewrite Nat2Z.inj_succ, Z.pow_succ_r in Hn by lia. split; [apply Z.div_pos; lia|].
      apply Z.div_lt_upper_bound; lia.
Qed.

Lemma int2b128_digits n : 0 <= n < 128 ^ 64 ->
  exists ds, int2b128 n [] = Ok ds /\ b1282int ds = Ok n /\ digits_ok 128 ds /\ ds <> [] /\ (List.length ds <= 64)%nat.
Proof.
  intros Hn. destruct (b128_roundtrip n ltac:(lia)) as (ds & E & D & Dg & NE). exists ds.
  repeat split; auto.
  unfold int2b128 in E. destruct (Z.eqb_spec n 0) as [->|Hnz].
  - inversion E; subst. cbn. lia.
  - destruct (Z.gtb_spec n 0); [|discriminate].
    apply (int2b128_loop_len _ _ _ _ 64%nat) in E; [cbn [List.length] in E; lia|]. exact Hn.
Qed.

Lemma scan_digits ds : digits_ok 128 ds -> forall n acc b rest, (List.length ds <= n)%nat -> 128 <= b ->
  scan n acc (ds ++ b :: rest) =
  HTok (hdr_of (rev ds ++ acc)) b rest.
Proof.
  induction 1 as [|d ds Hd _ IH]; intros n acc b rest Hl Hb.
  - cbn [app scan rev]. destruct (Z.leb_spec 128 b); [reflexivity|lia].
  - cbn [app scan]. destruct (Z.leb_spec 128 d); [lia|]. destruct n as [|n]; [cbn in Hl; lia|].
    rewrite IH by (cbn in Hl; lia || exact Hb). cbn [rev]. rewrite <- app_assoc. reflexivity.
Qed.

Lemma tok_ping_ge : 128 <= tok_PING /\ 128 <= tok_PONG.
Proof. unfold tok_PING, tok_PONG. lia. Qed.

Lemma header_limit_val : Z.to_nat header_limit = 64%nat.
Proof. reflexivity. Qed.

Lemma send_scan (send : Z -> list Z -> res (list Z)) tokb n :
  (forall w, send n w = match (if negb (n =? 0) then int2b128 n w else Ok w) with Exc t => Exc t | Ok w => Ok (w ++ [tokb]) end) ->
  128 <= tokb -> 0 <= n < 128 ^ 64 ->
  exists bs, send n [] = Ok bs /\ scan_token bs = HTok n tokb [].
Proof.
  intros Hs Hb Hn. rewrite Hs. destruct (n =? 0) eqn:Ez; cbn [negb].
  - apply Z.eqb_eq in Ez. eexists. split; [reflexivity|]. cbn [app]. unfold scan_token. rewrite header_limit_val. cbn [scan].
    destruct (Z.leb_spec 128 tokb); [|lia]. unfold hdr_of. rewrite Ez. reflexivity.
  - destruct (int2b128_digits n Hn) as (ds & E & D & Dg & NE & L). rewrite E. eexists. split; [reflexivity|].
    unfold scan_token. rewrite header_limit_val. rewrite (scan_digits ds Dg 64%nat [] tokb [] L Hb).
    rewrite app_nil_r. unfold hdr_of. destruct (rev ds) eqn:Er.
    + exfalso. apply NE. apply (f_equal (@rev Z)) in Er. rewrite rev_involutive in Er. exact Er.
    + rewrite <- Er, rev_involutive, D. reflexivity.
Qed.

(* C15, sentence 4: for every ping number that fits the 64-digit header, the bytes of sendPING n are read
   as the token (n, PING); the reply to it is sendPONG n, whose bytes are read as (n, PONG) by the other
   side; and a received PONG is answered with nothing *)
Theorem pong_echo n : 0 <= n < 2 ^ 448 ->
  exists ping pong,
    sendPING n [] = Ok ping /\ scan_token ping = HTok n tok_PING [] /\
    reply_bytes n tok_PING = Ok pong /\ scan_token pong = HTok n tok_PONG [] /\
    reply_bytes n tok_PONG = Ok [].
Proof.
  intros Hn. change (2 ^ 448) with (128 ^ 64) in Hn. destruct tok_ping_ge as [G1 G2].
  destruct (send_scan sendPING tok_PING n (fun w => eq_refl) G1 Hn) as (ping & E1 & S1).
  destruct (send_scan sendPONG tok_PONG n (fun w => eq_refl) G2 Hn) as (pong & E2 & S2).
  exists ping, pong. repeat split; auto.
Qed.

(* numbers that need more than 64 header digits are refused by the receiver (BananaError) *)
Lemma scan_too_long ds : digits_ok 128 ds -> forall n acc rest, (n < List.length ds)%nat -> scan n acc (ds ++ rest) = HBad.
Proof.
  induction 1 as [|d ds Hd _ IH]; intros n acc rest Hl; [cbn in Hl; lia|].
  cbn [app scan]. destruct (Z.leb_spec 128 d); [lia|]. destruct n as [|n]; [reflexivity|]. apply IH. cbn in Hl. lia.
Qed.

Theorem ping_number_too_big n : 2 ^ 448 <= n ->
  exists bs, sendPING n [] = Ok bs /\ scan_token bs = HBad.
Proof.
  intros Hn. change (2 ^ 448) with (128 ^ 64) in Hn.
  destruct (int2b128_spec n [] ltac:(lia)) as (ds & E & V & Dg & NE). cbn [app] in E.
  pose proof (le_val_bound 128 ds ltac:(lia) Dg) as B. rewrite V in B.
  assert (L : (64 < List.length ds)%nat).
  { destruct (Nat.lt_ge_cases 64 (List.length ds)) as [|Hle]; [assumption|exfalso].
    assert (128 ^ Z.of_nat (List.length ds) <= 128 ^ 64) by (apply Z.pow_le_mono_r; lia). lia. }
  unfold sendPING. destruct (Z.eqb_spec n 0) as [Hz|_]; [lia|]. cbn [negb]. rewrite E.
  eexists. split; [reflexivity|]. unfold scan_token. rewrite header_limit_val. apply scan_too_long; assumption.
Qed.

(* ------------------------------------------------------------------------------------------
   9. Non-vacuity: the hypotheses of the theorems are satisfiable by non-trivial histories,
      and the bounds are attained                                                               *)

Definition c23 : cfg := {| cK := Some 2000; cT := Some 3000 |}.

(* arrival at 3000, dc fires at 3100 (age 100), 6200 (age 3200 > 3000): torn at 6200 <= 3000 + 2*3000 + 100 = 9100 *)
Example ex_idle_hyps :
  let pre := [Tick 2100; Rx 3000] in let post := [Tick 3100; Tick 4200; Tick 6200; Tick 6300; Tick 8400; Tick 9200] in
  sorted_from 0 pre /\ no_close pre /\ only_ticks post /\ sorted_from (now (run c23 (init c23 0) pre)) post /\
  punctual c23 0 (run c23 (init c23 0) pre) post /\
  now (run c23 (init c23 0) pre) + 2 * 3000 + eps_ms + 0 < now (run c23 (init c23 0) (pre ++ post)) /\
  torn (run c23 (init c23 0) (pre ++ post)) = [6200] /\ rev (pings (run c23 (init c23 0) (pre ++ post))) = [2100; 6300; 8400].
Proof.
  cbv zeta. split; [cbn; lia|]. split; [repeat constructor; intros [t E]; discriminate|].
  split; [repeat constructor; eexists; reflexivity|].
  split; [vm_compute; intuition discriminate|].
  split; [vm_compute; repeat split; intros e E; inversion E; discriminate|].
  vm_compute. repeat split; reflexivity.
Qed.

(* the bound 2T + eps is attained: last arrival at 100 (= expiry - T), the disconnect timer fires at 3100 with
   age exactly T (not > T), and tears down at 6200 = 100 + 2*3000 + 100 *)
Example ex_bound_tight :
  let c := {| cK := None; cT := Some 3000 |} in
  torn (run c (init c 0) [Rx 100; Tick 3100; Tick 6199]) = [] /\
  torn (run c (init c 0) [Rx 100; Tick 3100; Tick 6200]) = [6200].
Proof. vm_compute. split; reflexivity. Qed.

(* decidable form of the hypothesis of active_kept *)
Fixpoint gaps_ok (T cur : Z) (ab : bool) (evs : list ev) : bool :=
  match evs with
  | [] => true
  | Rx t :: r => gaps_ok T (if ab then cur else t) ab r
  | RxBad t :: r => gaps_ok T (if ab then cur else t) true r
  | Tick t :: r => (t - cur <=? T) && gaps_ok T cur ab r
  | Close _ :: r => gaps_ok T cur ab r
  end.

Lemma gaps_ok_spec T evs : forall cur ab, gaps_ok T cur ab evs = true ->
  forall pre t post, evs = pre ++ Tick t :: post -> t - last_arrival cur ab pre <= T.
Proof.
  induction evs as [|e r IH]; intros cur ab H pre t post E.
  - destruct pre; discriminate.
  - destruct pre as [|e' pre]; cbn [app] in E; inversion E; subst.
    + cbn [gaps_ok last_arrival] in *. apply andb_true_iff in H as [H _]. apply Z.leb_le in H. exact H.
    + destruct e' as [u|u|u|u]; cbn [gaps_ok last_arrival] in *;
        try (apply andb_true_iff in H as [_ H]); eapply IH; eauto.
Qed.

(* an arrival exactly every T keeps the connection for ever (here 4 rounds), whatever the reactor does in between *)
Example ex_active_hyp :
  let c := {| cK := None; cT := Some 3000 |} in
  let evs := [Tick 3000; Rx 3000; Tick 3100; Rx 6000; Tick 6200; Tick 9000; Rx 9000; Tick 9300; Tick 12000] in
  (forall pre t post, evs = pre ++ Tick t :: post -> t - last_arrival 0 false pre <= 3000) /\ torn (run c (init c 0) evs) = [].
Proof. cbv zeta. split; [apply gaps_ok_spec; reflexivity | reflexivity]. Qed.

Example ex_cancel : let s' := run c23 (init c23 0) [Tick 2100; Close 2500; Tick 9000; Rx 9500; Tick 20000] in
  ka s' = None /\ dc s' = None /\ pings s' = [2100] /\ torn s' = [].
Proof. vm_compute. repeat split; reflexivity. Qed.

Example ex_pp : rx_tokens [(0, 128); (5, tok_PING); (7, 129); (9, tok_PONG); (2 ^ 448 - 1, tok_PING); (1, 137)]
  = ([(0, 128); (7, 129); (1, 137)], [5; 2 ^ 448 - 1]).
Proof. vm_compute. reflexivity. Qed.

(* ------------------------------------------------------------------------------------------
   11. Every closing path.  connectionLost cancels both timers from ANY state: a connection whose
       connectionMade never ran (negotiation failed first: the state is `blank`), a connection that
       was already torn down by the timer, a second connectionLost.                                *)

Theorem cancel_from_any_state c s t post :
  let s' := run c s (Close t :: post) in
  ka s' = None /\ dc s' = None /\ pings s' = pings s /\ torn s' = torn s /\ closed s' = true.
Proof.
  destruct (close_fields c s t) as (_ & _ & _ & _ & Fc & Fk & Fd & Ft & Fp).
  destruct (dead_run c post _ Fk Fd) as (A & B & C & D). cbv zeta. rewrite run_cons.
  rewrite A, B, C, D, Ft, Fp. repeat split; auto.
  clear -Fc. revert Fc. generalize (step c s (Close t)). induction post as [|e r IH]; intros s0 H; [exact H|].
  rewrite run_cons. apply IH. destruct e as [u|u|u|u].
  - destruct (rx_fields c s0 u) as (_ & _ & _ & _ & -> & _). exact H.
  - destruct (rxbad_fields c s0 u) as (_ & _ & _ & _ & -> & _). exact H.
  - destruct (tick_fields c s0 u) as (_ & _ & _ & _ & -> & _). exact H.
  - apply (close_fields c s0 u).
Qed.

(* the timer teardown itself: the disconnect timer is gone for good (it is not re-armed) ... *)
Theorem no_disconnect_timer_after_teardown c tc evs : sorted_from tc evs ->
  torn (run c (init c tc) evs) <> [] -> dc (run c (init c tc) evs) = None.
Proof.
  intros S N.
  assert (G : forall evs s, inv c s -> sorted_from (now s) evs -> once_inv s -> once_inv (run c s evs)).
  { clear. induction evs as [|e r IH]; intros s I S O; [exact O|]. destruct S as [S1 S2]. rewrite run_cons.
    apply IH; [apply inv_step; assumption | rewrite step_now; exact S2 |].
    apply once_step; [exact O|]. destruct I as (_ & _ & _ & _ & _ & Idn & _). exact Idn. }
  assert (O : once_inv (run c (init c tc) evs)).
  { apply G; [apply inv_init | destruct (init_fields c tc) as (-> & _); exact S |].
    destruct (init_fields c tc) as (_ & _ & _ & _ & _ & _ & _ & Ft & _). unfold once_inv. rewrite Ft. cbn. auto. }
  destruct O as [O _]. destruct (dc (run c (init c tc) evs)) eqn:E; [|reflexivity].
  exfalso. apply N. apply O. discriminate.
Qed.

(* ... but the keepalive timer is NOT cancelled by the teardown (Broker.shutdown does not touch it): it stays armed and
   keeps writing PINGs to the transport that was told to close, until the transport delivers connectionLost.
   ("All timers are cancelled when the connection closes" holds for connectionLost, not for the timer teardown.) *)
Theorem keepalive_survives_teardown c tc K evs : cK c = Some K -> sorted_from tc evs -> no_close evs ->
  exists e, ka (run c (init c tc) evs) = Some e.
Proof.
  intros EK S N.
  assert (I : inv c (run c (init c tc) evs)).
  { apply inv_run; [apply inv_init|]. destruct (init_fields c tc) as (-> & _). exact S. }
  assert (C : closed (run c (init c tc) evs) = false).
  { apply closed_run; [apply (init_fields c tc)|exact N]. }
  destruct I as (_ & _ & Ik & _). destruct (Ik C K EK) as (e & Ee & _). exists e. exact Ee.
Qed.

Example ex_ping_after_teardown :
  let s := run c23 (init c23 0) [Tick 2100; Tick 3100; Tick 4200; Tick 6200; Tick 6300; Tick 8400] in
  torn s = [3100] /\ dc s = None /\ ka s = Some 10500 /\ pings s = [8400; 6300; 4200; 2100].
Proof. vm_compute. repeat split; reflexivity. Qed.

(* ------------------------------------------------------------------------------------------
   12. The two callbacks of one reactor turn commute: whichever of keepaliveTimerFired /
       disconnectTimerFired the reactor runs first, the state after the turn is the same.          *)

(* the turn written with the other order *)
Definition step_dc_first (c : cfg) (s : st) (e : ev) : st :=
  match e with Tick t => set_now (fire_ka c (fire_dc c s t) t) t | _ => step c s e end.

Lemma tick_fields_dc_first c s t :
  let s' := step_dc_first c s (Tick t) in
  now s' = t /\ last_rx s' = last_rx s /\ use_ka s' = use_ka s /\ abandoned s' = abandoned s /\
  closed s' = closed s /\ ka s' = ka_after c s t /\ dc s' = dc_after c s t /\
  torn s' = torn_new c s t ++ torn s /\ pings s' = pings_new c s t ++ pings s.
Proof.
  unfold step_dc_first, fire_dc, fire_ka, ka_after, dc_after, torn_new, pings_new.
  destruct s as [n lr u a k d cl tn pg]; cbn [Timers.ka Timers.dc Timers.last_rx Timers.use_ka Timers.abandoned].
  destruct d as [ed|], (cT c) as [dd|]; try destruct (ed <=? t);
    try rewrite dc_fired_spec; try destruct (dd <? t - lr); cbn [apply_dc Timers.ka Timers.last_rx Timers.use_ka Timers.abandoned];
    destruct k as [ek|], (cK c) as [kk|]; try destruct (ek <=? t);
    try rewrite ka_fired_spec; try destruct (kk <? t - lr);
    cbn; repeat split; reflexivity.
Qed.

Lemma st_ext (a b : st) :
  now a = now b -> last_rx a = last_rx b -> use_ka a = use_ka b -> abandoned a = abandoned b -> closed a = closed b ->
  ka a = ka b -> dc a = dc b -> torn a = torn b -> pings a = pings b -> a = b.
Proof. destruct a, b; cbn; intros; subst; reflexivity. Qed.

Theorem turn_commutes c s t : step_dc_first c s (Tick t) = step c s (Tick t).
Proof.
  destruct (tick_fields c s t) as (A1 & A2 & A3 & A4 & A5 & A6 & A7 & A8 & A9).
  destruct (tick_fields_dc_first c s t) as (B1 & B2 & B3 & B4 & B5 & B6 & B7 & B8 & B9).
  apply st_ext; congruence.
Qed.

Theorem callback_order_immaterial c evs : forall s, fold_left (step_dc_first c) evs s = run c s evs.
Proof.
  induction evs as [|e r IH]; intros s; [reflexivity|]. cbn [fold_left]. rewrite IH, run_cons. f_equal.
  destruct e; try reflexivity. apply turn_commutes.
Qed.
