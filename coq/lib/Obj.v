(* C01, object layer: object graphs in emission-order canonical form, the sender
   (BaseSlicer.slice / Banana.pushSlicer / popSlicer, ScopedSlicer) as `slice`, the
   receiver (Banana.handleOpen / handleToken / handleClose with the unslicer stack,
   ScopedUnslicer tables, Banana.setObject / getObject) as the stack machine `run`,
   the graph a canonical term denotes (`val_of`, `heap_of`), the read-back `canon`,
   and the vocabulary layer (`envocab` / `devocab`, in-band set-vocab).
   Opentype strings, trackReferences flags and "start registers the object" flags come
   from gen/SlicersGen.v (translated from the source on every run).
   Model only; proofs are in ObjProofs.v. *)
From Coq Require Import ZArith List String Bool Lia.
Import ListNotations.
Require Import Verif.lib.PyLite Verif.gen.BananaGen Verif.gen.SlicersGen Verif.lib.Token.
Local Open Scope Z_scope.

(* ------------------------------------------------------------------ object terms *)

(* containers: every one is OPEN(n) opentype.. children.. CLOSE(n) on the wire.
   CDict: children are key1, value1, key2, value2 ..   CCopy: children are
   OBytes attrname1, value1, ..   CScope: a scoped sequence of call.py
   (call / arguments / answer / error) with its own reference table. *)
Inductive ckind := CList | CTuple | CSet | CFrozen | CDict | CCopy (name : list Z) | CScope (name : list Z).

Inductive obj :=
| OInt (z : Z)                (* int of any magnitude: one INT/NEG/LONGINT/LONGNEG token *)
| OFloat (b8 : list Z)        (* float: its 8 bytes struct.pack("!d") *)
| OBytes (bs : list Z)        (* bytes: one STRING token *)
| OText (u : list Z)          (* str, as its UTF-8 encoding: OPEN unicode STRING CLOSE *)
| OBool (b : bool)
| ONone
| ODecimal (s : list Z)       (* Decimal, as str(d) *)
| ORef (k : Z)                (* back-reference to the container whose OPEN had number k *)
| OCont (c : ckind) (xs : list obj).

Definition OList := OCont CList.
Definition OTuple := OCont CTuple.
Definition OSet := OCont CSet.
Definition OFrozen := OCont CFrozen.
Definition ODict (kvs : list (obj * obj)) := OCont CDict (flat_map (fun kv => [fst kv; snd kv]) kvs).
Definition OCopy (name : list Z) (attrs : list (list Z * obj)) :=
  OCont (CCopy name) (flat_map (fun kv => [OBytes (fst kv); snd kv]) attrs).

Definition opentype_of (c : ckind) : list (list Z) :=
  match c with
  | CList => ot_list | CTuple => ot_tuple | CSet => ot_set | CFrozen => ot_frozen | CDict => ot_dict
  | CCopy name => [ot_copyable_head; name]
  | CScope name => [name]
  end.

(* sender: pushSlicer registers the object under its OPEN number iff slicer.trackReferences *)
Definition tracked (c : ckind) : bool :=
  match c with
  | CList => tr_list | CTuple => tr_tuple | CSet => tr_set | CFrozen => tr_frozen | CDict => tr_dict
  | CCopy _ => tr_copyable | CScope _ => false
  end.

(* receiver: <Unslicer>.start calls protocol.setObject(count, ..) *)
Definition registers (c : ckind) : bool :=
  match c with
  | CList => reg_list | CTuple => reg_tuple | CSet => reg_set | CFrozen => reg_frozen | CDict => reg_dict
  | CCopy _ => reg_copyable | CScope _ => false
  end.

Definition is_scope (c : ckind) : bool := match c with CScope _ => true | _ => false end.

(* number of OPEN tokens an object consumes *)
Fixpoint opens (t : obj) : Z :=
  match t with
  | OInt _ | OFloat _ | OBytes _ => 0
  | OText _ | OBool _ | ONone | ODecimal _ | ORef _ => 1
  | OCont _ xs => 1 + (fix go (l : list obj) : Z := match l with [] => 0 | x :: r => opens x + go r end) xs
  end.
Definition opens_list := fix go (l : list obj) : Z := match l with [] => 0 | x :: r => opens x + go r end.

(* ------------------------------------------------------------------ sender *)

Definition strs (l : list (list Z)) : list token := map TString l.

(* the tokens Banana.produce emits for an object when Banana.openCount = n *)
Fixpoint slice (n : Z) (t : obj) : list token :=
  match t with
  | OInt z => [TInt z]
  | OFloat b => [TFloat b]
  | OBytes bs => [TString bs]
  | OText u => TOpen n :: strs ot_unicode ++ [TString u; TClose n]
  | OBool b => TOpen n :: strs ot_boolean ++ [TInt (if b then bool_true_tok else bool_false_tok); TClose n]
  | ONone => TOpen n :: strs ot_none ++ [TClose n]
  | ODecimal s => TOpen n :: strs ot_decimal ++ [TString s; TClose n]
  | ORef k => TOpen n :: strs ot_reference ++ [TInt k; TClose n]
  | OCont c xs =>
    TOpen n :: strs (opentype_of c)
      ++ (fix go (m : Z) (l : list obj) : list token :=
            match l with [] => [] | x :: r => slice m x ++ go (m + opens x) r end) (n + 1) xs
      ++ [TClose n]
  end.
Definition slice_list := fix go (m : Z) (l : list obj) : list token :=
  match l with [] => [] | x :: r => slice m x ++ go (m + opens x) r end.

(* ------------------------------------------------------------------ receiver *)

Inductive value :=
| VInt (z : Z) | VFloat (b8 : list Z) | VBytes (bs : list Z) | VText (u : list Z) | VBool (b : bool) | VNone
| VDecimal (s : list Z) | VPtr (k : Z).   (* VPtr k: the container created at the OPEN numbered k *)

Record node := { n_kind : ckind; n_items : list value }.
Definition heap := list (Z * node).

Inductive kind := KRoot (scoped : bool) | KC (c : ckind) | KText | KBool | KNone | KDecimal | KRef
  | KVocab.   (* ReplaceVocabUnslicer: top level only (BananaUnslicerRegistry), its result is dropped by the root *)

Record frame := { f_kind : kind; f_open : Z; f_count : Z; f_items : list value (* newest first *); f_refs : list Z }.

Record mstate := {
  s_stack : list frame;                           (* receiveStack, top first; the root unslicer is the last element *)
  s_inopen : option (Z * Z * list (list Z));      (* index phase: OPEN header, object count, index tokens so far *)
  s_counter : Z;                                  (* Banana.objectCounter *)
  s_heap : heap }.                                (* containers completed so far *)

Definition is_scope_frame (f : frame) : bool :=
  match f_kind f with KRoot b => b | KC c => is_scope c | _ => false end.

Fixpoint mem (k : Z) (l : list Z) : bool := match l with [] => false | x :: r => (k =? x) || mem k r end.

(* Banana.setObject: every unslicer on the stack is told; only scoped ones remember *)
Definition reg1 (ids : list Z) (f : frame) : frame :=
  if is_scope_frame f then {| f_kind := f_kind f; f_open := f_open f; f_count := f_count f; f_items := f_items f;
                              f_refs := f_refs f ++ ids |} else f.
Definition reg_many (ids : list Z) (s : list frame) : list frame := map (reg1 ids) s.

(* Banana.getObject: first unslicer (from the top) that knows the number *)
Definition lookup (k : Z) (s : list frame) : bool := existsb (fun f => is_scope_frame f && mem k (f_refs f)) s.
Definition has_scope (s : list frame) : bool := existsb is_scope_frame s.

Fixpoint assoc_ot (idx : list (list Z)) (tbl : list (list (list Z) * Z)) : option Z :=
  match tbl with
  | [] => None
  | (k, v) :: r => if (Nat.eqb (List.length k) (List.length idx)) && forallb (fun p => list_eqb (fst p) (snd p)) (combine k idx)
                   then Some v else assoc_ot idx r
  end.

Definition kind_of_code (c : Z) : option kind :=
  if c =? 1 then Some (KC CList) else if c =? 2 then Some (KC CTuple) else if c =? 3 then Some (KC CSet)
  else if c =? 4 then Some (KC CFrozen) else if c =? 5 then Some (KC CDict) else if c =? 6 then Some KText
  else if c =? 7 then Some KBool else if c =? 8 then Some KNone else if c =? 9 then Some KDecimal
  else if c =? 10 then Some KRef else None.

(* RootUnslicer.open / doOpen on the index tokens received so far:
   None = Violation, Some None = wants more index tokens, Some (Some k) = child unslicer *)
Definition open_kind (top : bool) (idx : list (list Z)) : option (option kind) :=
  match idx with
  | [] => None
  | a :: rest =>
    if top && list_eqb a (hd [] ot_set_vocab) then
      match rest with [] => Some (Some KVocab) | _ => None end
    else if list_eqb a ot_copyable_head then
      match rest with [] => Some None | [name] => Some (Some (KC (CCopy name))) | _ => None end
    else match assoc_ot idx unslicer_table with
         | Some c => match kind_of_code c with Some k => Some (Some k) | None => None end
         | None => match rest with
                   | [] => if existsb (list_eqb a) scoped_opentypes then Some (Some (KC (CScope a))) else None
                   | _ => None
                   end
         end
  end.

Definition kind_registers (k : kind) : bool := match k with KC c => registers c | _ => false end.

Definition is_bytes (v : value) := match v with VBytes _ => true | _ => false end.
Definition is_int (v : value) := match v with VInt _ => true | _ => false end.

(* ReplaceVocabUnslicer.checkToken: valueConstraint = ByteStringConstraint(vocab_word_limit) on the STRING header of a table word
   (translated); a longer word is a Violation: the rest of the set-vocab sequence is discarded and the OLD table stays *)
Definition word_ok (s : list Z) : bool :=
  match vocab_word_limit with Some m => Z.of_nat (List.length s) <=? m | None => true end.

Definition push_item (v : value) (f : frame) : frame :=
  {| f_kind := f_kind f; f_open := f_open f; f_count := f_count f; f_items := v :: f_items f; f_refs := f_refs f |}.

(* <top unslicer>.receiveChild(v) *)
Definition recv (s : list frame) (v : value) : option (list frame) :=
  match s with
  | [] => None
  | f :: r =>
    match f_kind f with
    | KRoot _ | KC _ => Some (push_item v f :: r)
    | KText | KDecimal => match f_items f, v with [], VBytes _ => Some (push_item v f :: r) | _, _ => None end
    | KBool => match f_items f, v with [], VInt _ => Some (push_item v f :: r) | _, _ => None end
    | KNone => None
    | KVocab => match v with
                | VInt _ => Some (push_item v f :: r)
                | VBytes s => if word_ok s then Some (push_item v f :: r) else None     (* Violation: the clean run ends *)
                | _ => None
                end
    | KRef => match f_items f, v with
              | [], VInt k => if lookup k s then Some (push_item (VPtr k) f :: r) else None   (* dangling reference *)
              | _, _ => None
              end
    end
  end.

Fixpoint even_bytes (l : list value) : bool :=    (* attrname, value, attrname, value .. *)
  match l with
  | [] => true
  | a :: _ :: r => is_bytes a && even_bytes r
  | _ => false
  end.
Fixpoint even_len {A} (l : list A) : bool := match l with [] => true | _ :: _ :: r => even_len r | _ => false end.

(* receiveClose: a leaf yields a value, a container yields a node stored under its object count *)
Definition seal (f : frame) : option (value * option node) :=
  let items := rev (f_items f) in
  match f_kind f with
  | KRoot _ => None          (* "top-level should never receive CLOSE tokens" *)
  | KText => match items with [VBytes u] => Some (VText u, None) | _ => None end
  | KDecimal => match items with [VBytes s] => Some (VDecimal s, None) | _ => None end
  | KBool => match items with [VInt z] => Some (VBool (negb (z =? 0)), None) | _ => None end
  | KNone => match items with [] => Some (VNone, None) | _ => None end
  | KRef => match items with [VPtr k] => Some (VPtr k, None) | _ => None end
  | KVocab => None           (* handled in step: nothing is handed to the parent *)
  | KC c =>
    let ok := match c with CDict => even_len items | CCopy _ => even_bytes items | _ => true end in
    if ok then Some (VPtr (f_count f), Some {| n_kind := c; n_items := items |}) else None
  end.

(* Places that cannot take a not-yet-complete object (a Deferred in the implementation): the value of a
   Copyable attribute (RemoteCopyUnslicer.receiveChild asserts) and a dict key (DictUnslicer.receiveKey raises).
   A reference to a tuple / frozenset / Copyable whose unslicer is still on the stack is such an object. *)
Definition is_imm_c (c : ckind) : bool := match c with CTuple | CFrozen | CCopy _ => true | _ => false end.
Definition is_imm (k : kind) : bool := match k with KC c => is_imm_c c | _ => false end.
Definition open_imm (s : list frame) (k : Z) : bool := existsb (fun f => is_imm (f_kind f) && (f_count f =? k)) s.

Fixpoint hazard_pos (c : ckind) (odd : bool) (items : list value) (P : Z -> bool) : bool :=
  match items with
  | [] => false
  | v :: r =>
    (match c, odd, v with
     | CCopy _, true, VPtr k => P k
     | CDict, false, VPtr k => P k
     | _, _, _ => false
     end) || hazard_pos c (negb odd) r P
  end.

Definition frame_hazard (f : frame) (below : list frame) : bool :=
  match f_kind f with KC c => hazard_pos c false (rev (f_items f)) (open_imm (f :: below)) | _ => false end.

Definition step (st : mstate) (t : token) : option mstate :=
  match s_inopen st with
  | Some (hdr, cnt, idx) =>
    match t with
    | TString bs =>
      let idx' := idx ++ [bs] in
      match open_kind (match s_stack st with [_] => true | _ => false end) idx' with
      | None => None
      | Some None => Some {| s_stack := s_stack st; s_inopen := Some (hdr, cnt, idx'); s_counter := s_counter st; s_heap := s_heap st |}
      | Some (Some k) =>
        let child := {| f_kind := k; f_open := hdr; f_count := cnt; f_items := []; f_refs := [] |} in
        let stk := child :: s_stack st in
        Some {| s_stack := if kind_registers k then reg_many [cnt] stk else stk;
                s_inopen := None; s_counter := s_counter st; s_heap := s_heap st |}
      end
    | TPing _ | TPong _ => if keepalive_tokens_ignored then Some st else None     (* keepalive tokens are dealt with in Banana.handleData (`continue`) before handleOpen sees
                                          anything: legal between OPEN and its index tokens too *)
    | _ => None
    end
  | None =>
    match t with
    | TOpen n => Some {| s_stack := s_stack st; s_inopen := Some (n, s_counter st, []); s_counter := s_counter st + 1; s_heap := s_heap st |}
    | TInt z => match recv (s_stack st) (VInt z) with
                | Some s' => Some {| s_stack := s'; s_inopen := None; s_counter := s_counter st; s_heap := s_heap st |} | None => None end
    | TFloat b => match recv (s_stack st) (VFloat b) with
                  | Some s' => Some {| s_stack := s'; s_inopen := None; s_counter := s_counter st; s_heap := s_heap st |} | None => None end
    | TString b => match recv (s_stack st) (VBytes b) with
                   | Some s' => Some {| s_stack := s'; s_inopen := None; s_counter := s_counter st; s_heap := s_heap st |} | None => None end
    | TClose n =>
      match s_stack st with
      | f :: r =>
        if f_open f =? n then
          match f_kind f with
          | KVocab => if even_len (f_items f)
                      then Some {| s_stack := r; s_inopen := None; s_counter := s_counter st; s_heap := s_heap st |} else None
          | _ =>
          match (if frame_hazard f r then None else seal f) with
          | Some (v, nd) =>
            match recv r v with
            | Some r' => Some {| s_stack := r'; s_inopen := None; s_counter := s_counter st;
                                 s_heap := match nd with Some x => s_heap st ++ [(f_count f, x)] | None => s_heap st end |}
            | None => None
            end
          | None => None
          end
          end
        else None     (* lost sync *)
      | [] => None
      end
    | TPing _ | TPong _ => if keepalive_tokens_ignored then Some st else None
    | TVocab _ | TAbort _ | TError _ => None     (* VOCAB is expanded below this layer; ABORT/ERROR end the clean run *)
    end
  end.

Fixpoint run (ts : list token) (st : mstate) : option mstate :=
  match ts with
  | [] => Some st
  | t :: r => match step st t with Some st' => run r st' | None => None end
  end.

Definition root_frame (scoped : bool) : frame := {| f_kind := KRoot scoped; f_open := -1; f_count := -1; f_items := []; f_refs := [] |}.
Definition init (scoped : bool) (n : Z) : mstate :=
  {| s_stack := [root_frame scoped]; s_inopen := None; s_counter := n; s_heap := [] |}.

(* what the root unslicer was handed, oldest first *)
Definition delivered (st : mstate) : list value :=
  match s_stack st with [f] => rev (f_items f) | _ => [] end.

(* the whole receiver: Some (heap, top-level values) when the stream was consumed cleanly *)
Definition unslice (scoped : bool) (n : Z) (ts : list token) : option (heap * list value) :=
  match run ts (init scoped n) with
  | Some st => match s_stack st, s_inopen st with [f], None => Some (s_heap st, rev (f_items f)) | _, _ => None end
  | None => None
  end.

(* ------------------------------------------------------------------ discarding a rejected sequence *)
(* Banana.handleData while discardCount = d > 0 (an unslicer raised a Violation: the rest of its sequence is dropped):
   every OPEN still takes an object number (the counter is advanced before the rejection test) and deepens the
   discard, CLOSE ends one level, every other token is dropped.  Result: discardCount, objectCounter, unread tokens. *)
Fixpoint discard (ts : list token) (d : Z) (cnt : Z) : Z * Z * list token :=
  match ts with
  | [] => (d, cnt, [])
  | t :: r =>
    if d <=? 0 then (d, cnt, ts)
    else match t with
         | TOpen _ => discard r (d + 1) (if open_counts_when_discarded then cnt + 1 else cnt)
         | TClose _ => discard r (d - 1) cnt
         | _ => discard r d cnt
         end
  end.

Fixpoint count_opens (ts : list token) : Z :=
  match ts with [] => 0 | TOpen _ :: r => 1 + count_opens r | _ :: r => count_opens r end.

(* ------------------------------------------------------------------ the graph a canonical term denotes *)

Definition val_of (n : Z) (t : obj) : value :=
  match t with
  | OInt z => VInt z | OFloat b => VFloat b | OBytes b => VBytes b | OText u => VText u
  | OBool b => VBool (negb ((if b then bool_true_tok else bool_false_tok) =? 0))
  | ONone => VNone | ODecimal s => VDecimal s
  | ORef k => VPtr k
  | OCont _ _ => VPtr n
  end.
Definition vals_list := fix go (m : Z) (l : list obj) : list value :=
  match l with [] => [] | x :: r => val_of m x :: go (m + opens x) r end.

(* nodes in completion (CLOSE) order *)
Fixpoint heap_of (n : Z) (t : obj) : heap :=
  match t with
  | OCont c xs =>
    (fix go (m : Z) (l : list obj) : heap := match l with [] => [] | x :: r => heap_of m x ++ go (m + opens x) r end) (n + 1) xs
      ++ [(n, {| n_kind := c; n_items := vals_list (n + 1) xs |})]
  | _ => []
  end.
Definition heap_list := fix go (m : Z) (l : list obj) : heap :=
  match l with [] => [] | x :: r => heap_of m x ++ go (m + opens x) r end.

(* the object counts the receiver registers while the object goes by, in OPEN order *)
Fixpoint regs_of (n : Z) (t : obj) : list Z :=
  match t with
  | OCont c xs =>
    (if registers c then [n] else [])
      ++ (fix go (m : Z) (l : list obj) : list Z := match l with [] => [] | x :: r => regs_of m x ++ go (m + opens x) r end) (n + 1) xs
  | _ => []
  end.
Definition regs_list := fix go (m : Z) (l : list obj) : list Z :=
  match l with [] => [] | x :: r => regs_of m x ++ go (m + opens x) r end.

(* ------------------------------------------------------------------ well-formed canonical terms *)

(* what a sender can produce when Banana.openCount = n, `sc` says whether a ScopedSlicer is on the slicer
   stack and `vis` lists the OPEN numbers its tables answer for.  Result: the visible numbers afterwards.
   - ORef k needs k visible;
   - a tracked container becomes visible (to its own children too) when a scope exists;
   - what is registered inside a nested scope is forgotten when that scope is popped;
   - dict: key/value pairs; copyable: attribute name (bytes) / value pairs; scope names are call.py's. *)
Fixpoint even_attr (l : list obj) : bool :=
  match l with
  | [] => true
  | OBytes _ :: _ :: r => even_attr r
  | _ => false
  end.

Definition shape_ok (c : ckind) (xs : list obj) : bool :=
  match c with
  | CDict => even_len xs
  | CCopy _ => even_attr xs
  | CScope name => existsb (list_eqb name) scoped_opentypes
  | _ => true
  end.

(* `imm`: the OPEN numbers of the tuples / frozensets / Copyables that are still open (ancestors).
   - a Copyable attribute value or a dict key must not be a reference to one of them (the implementation cannot
     take it: known findings, see the C01_refuted theorems);
   - a tuple / frozenset must not directly contain such a reference either: its completion would be deferred, which
     the model does not represent (those graphs are covered by the correspondence and the oracle only). *)
Definition ref_into (imm : list Z) (x : obj) : bool := match x with ORef k => mem k imm | _ => false end.

(* `strict` = true: the guard of the pointer-machine theorems (third clause included); `strict` = false: the third clause
   is dropped -- every graph the sender can emit except the known-defective region (used with the Deferred-level
   machine of ObjDefer.v, which represents deferred completion). *)
Fixpoint wf_gen (strict : bool) (sc : bool) (vis imm : list Z) (n : Z) (t : obj) : option (list Z) :=
  match t with
  | ORef k => if sc && mem k vis then Some vis else None
  | OCont c xs =>
    let imm' := if is_imm_c c then n :: imm else imm in
    if shape_ok c xs
       && negb (hazard_pos c false (vals_list (n + 1) xs) (fun k => mem k imm'))
       && negb (strict && match c with CTuple | CFrozen => existsb (ref_into imm') xs | _ => false end) then
      let sc' := sc || is_scope c in
      let vis1 := if sc' && tracked c then n :: vis else vis in
      match (fix go (v : list Z) (m : Z) (l : list obj) : option (list Z) :=
               match l with
               | [] => Some v
               | x :: r => match wf_gen strict sc' v imm' m x with Some v' => go v' (m + opens x) r | None => None end
               end) vis1 (n + 1) xs with
      | Some v => Some (if is_scope c then vis else v)
      | None => None
      end
    else None
  | _ => Some vis
  end.
Definition wf_list_gen (strict : bool) (sc : bool) (imm : list Z) := fix go (v : list Z) (m : Z) (l : list obj) : option (list Z) :=
  match l with
  | [] => Some v
  | x :: r => match wf_gen strict sc v imm m x with Some v' => go v' (m + opens x) r | None => None end
  end.
Definition wf_at := wf_gen true.
Definition wf_list := wf_list_gen true.
Definition wf_wide := wf_gen false.
Definition wf_list_wide := wf_list_gen false.

(* a term is a complete message for a receiver whose counter is n: top level of a connection
   (no scope: storage's root is scoped, a Broker's is not) *)
Definition wf_obj (scoped_root : bool) (n : Z) (t : obj) : bool :=
  match wf_at scoped_root [] [] n t with Some _ => true | None => false end.
Definition wf_obj_wide (scoped_root : bool) (n : Z) (t : obj) : bool :=
  match wf_wide scoped_root [] [] n t with Some _ => true | None => false end.

(* no references at all: plain trees *)
Fixpoint noref (t : obj) : bool :=
  match t with
  | ORef _ => false
  | OCont c xs => shape_ok c xs && (fix go (l : list obj) : bool := match l with [] => true | x :: r => noref x && go r end) xs
  | _ => true
  end.
Definition noref_list := fix go (l : list obj) : bool := match l with [] => true | x :: r => noref x && go r end.

(* ------------------------------------------------------------------ read-back: heap -> canonical term *)

Fixpoint find (k : Z) (h : heap) : option node :=
  match h with [] => None | (i, nd) :: r => if i =? k then Some nd else find k r end.

(* canon fuel h m v: the term for value v when the next unused OPEN number is m; a pointer below m has been
   emitted already and becomes a reference, the pointer m is a container seen for the first time *)
Fixpoint canon (fuel : nat) (h : heap) (m : Z) (v : value) : option (obj * Z) :=
  match fuel with
  | O => None
  | S fu =>
    match v with
    | VInt z => Some (OInt z, m) | VFloat b => Some (OFloat b, m) | VBytes b => Some (OBytes b, m)
    | VText u => Some (OText u, m + 1) | VBool b => Some (OBool b, m + 1) | VNone => Some (ONone, m + 1)
    | VDecimal s => Some (ODecimal s, m + 1)
    | VPtr k =>
      if k <? m then Some (ORef k, m + 1)
      else if k =? m then
        match find k h with
        | Some nd =>
          match (fix go (m1 : Z) (l : list value) : option (list obj * Z) :=
                   match l with
                   | [] => Some ([], m1)
                   | x :: r => match canon fu h m1 x with
                               | Some (o, m2) => match go m2 r with Some (os, m3) => Some (o :: os, m3) | None => None end
                               | None => None
                               end
                   end) (m + 1) (n_items nd) with
          | Some (os, m') => Some (OCont (n_kind nd) os, m')
          | None => None
          end
        | None => None
        end
      else None
    end
  end.
Definition canon_list (fu : nat) (h : heap) := fix go (m1 : Z) (l : list value) : option (list obj * Z) :=
  match l with
  | [] => Some ([], m1)
  | x :: r => match canon fu h m1 x with
              | Some (o, m2) => match go m2 r with Some (os, m3) => Some (o :: os, m3) | None => None end
              | None => None
              end
  end.

Fixpoint size (t : obj) : nat :=
  match t with
  | OCont _ xs => S ((fix go (l : list obj) : nat := match l with [] => O | x :: r => (size x + go r)%nat end) xs)
  | _ => 1%nat
  end.
Definition size_list := fix go (l : list obj) : nat := match l with [] => O | x :: r => (size x + go r)%nat end.

(* ------------------------------------------------------------------ vocabulary *)

(* outgoingVocabulary: bytes -> index; incomingVocabulary: index -> bytes *)
Definition vtable := list (list Z * Z).

Fixpoint vfind (bs : list Z) (tbl : vtable) : option Z :=
  match tbl with [] => None | (s, i) :: r => if list_eqb s bs then Some i else vfind bs r end.
Fixpoint vfind_inv (i : Z) (tbl : vtable) : option (list Z) :=
  match tbl with [] => None | (s, j) :: r => if j =? i then Some s else vfind_inv i r end.

(* Banana.sendToken, bytes branch: a string that is in the table goes out as VOCAB *)
Definition envocab1 (tbl : vtable) (t : token) : token :=
  match t with TString bs => match vfind bs tbl with Some i => TVocab i | None => t end | _ => t end.
Definition envocab (tbl : vtable) (ts : list token) : list token := map (envocab1 tbl) ts.

(* Banana.handleData, VOCAB branch: the index is replaced by the string before handleToken / handleOpen *)
Definition devocab1 (tbl : vtable) (t : token) : option token :=
  match t with TVocab i => match vfind_inv i tbl with Some s => Some (TString s) | None => None end | _ => Some t end.
Fixpoint devocab (tbl : vtable) (ts : list token) : option (list token) :=
  match ts with
  | [] => Some []
  | t :: r => match devocab1 tbl t, devocab tbl r with Some t', Some r' => Some (t' :: r') | _, _ => None end
  end.

(* in-band table switch.  The sender's queue holds objects' tokens and table replacements
   (Banana.setOutgoingVocabulary); ReplaceVocabSlicer sends OPEN set-vocab (index string)* CLOSE with the
   table set to {} and installs the new table when it is done. *)
Inductive item := ITok (t : token) | ISetVocab (n : Z) (tbl : vtable).

Fixpoint table_tokens (tbl : vtable) : list token :=
  match tbl with [] => [] | (s, i) :: r => TInt i :: TString s :: table_tokens r end.

Definition setvocab_tokens (n : Z) (tbl : vtable) : list token :=
  TOpen n :: strs ot_set_vocab ++ table_tokens tbl ++ [TClose n].

Fixpoint sender_wire (cur : vtable) (items : list item) : list token :=
  match items with
  | [] => []
  | ITok t :: r => envocab1 cur t :: sender_wire cur r
  | ISetVocab n tbl :: r => setvocab_tokens n tbl ++ sender_wire tbl r
  end.

(* receiver: ReplaceVocabUnslicer collects (INT, STRING) pairs until its CLOSE, then replaceIncomingVocabulary.
   Some (Some tbl, rest): the new table;  Some (None, rest): a word longer than the receiver's limit -- Violation, the rest of
   the sequence up to its CLOSE is discarded (no OPEN can follow inside a table), the table is NOT replaced;  None: malformed *)
Fixpoint skip_to_close (ts : list token) : option (list token) :=
  match ts with [] => None | TClose _ :: r => Some r | _ :: r => skip_to_close r end.
Fixpoint parse_table (ts : list token) (acc : vtable) : option (option vtable * list token) :=
  match ts with
  | TInt i :: TString s :: r =>
    if word_ok s then parse_table r (acc ++ [(s, i)])
    else match skip_to_close r with Some r' => Some (None, r') | None => None end
  | TClose _ :: r => Some (Some acc, r)
  | _ => None
  end.

(* the tokens the object layer sees (after VOCAB expansion), with the set-vocab sequences consumed;
   fuel = number of wire tokens *)
Fixpoint receiver_view (fuel : nat) (cur : vtable) (ts : list token) : option (list token) :=
  match fuel with
  | O => match ts with [] => Some [] | _ => None end
  | S fu =>
    match ts with
    | [] => Some []
    | TOpen n :: TString s :: r =>
      if list_eqb s (hd [] ot_set_vocab) then
        match parse_table r [] with
        | Some (Some tbl, r') =>
          match receiver_view fu tbl r' with
          | Some out => Some (setvocab_tokens n tbl ++ out)
          | None => None
          end
        | _ => None       (* malformed, or a Violation: not a clean run (what the code does then: receiver_view_v) *)
        end
      else match receiver_view fu cur (TString s :: r) with Some out => Some (TOpen n :: out) | None => None end
    | t :: r =>
      match devocab1 cur t, receiver_view fu cur r with Some t', Some out => Some (t' :: out) | _, _ => None end
    end
  end.

(* the same receiver, Violations included: a set-vocab sequence with a word over the limit is dropped as a whole (the root
   is handed nothing for it), the table in force stays, and the stream goes on -- every later VOCAB token is expanded with
   the OLD table.  Result: the object tokens seen (set-vocab sequences that were accepted still in place) and the number of
   rejected table replacements.  A rejected sequence is shown to the object layer as an EMPTY set-vocab sequence: it hands the root
   nothing and installs nothing there, but its OPEN took an object number (Banana.handleData counts every OPEN, discarded or
   not: open_counts_when_discarded), so later references stay in step. *)
Fixpoint receiver_view_v (fuel : nat) (cur : vtable) (ts : list token) : option (list token * Z) :=
  match fuel with
  | O => match ts with [] => Some ([], 0) | _ => None end
  | S fu =>
    match ts with
    | [] => Some ([], 0)
    | TOpen n :: TString s :: r =>
      if list_eqb s (hd [] ot_set_vocab) then
        match parse_table r [] with
        | Some (Some tbl, r') =>
          match receiver_view_v fu tbl r' with
          | Some (out, k) => Some (setvocab_tokens n tbl ++ out, k)
          | None => None
          end
        | Some (None, r') =>
          match receiver_view_v fu cur r' with
          | Some (out, k) => Some (setvocab_tokens n [] ++ out, k + 1)   (* the rejected sequence still took its OPEN number *)
          | None => None
          end
        | None => None
        end
      else match receiver_view_v fu cur (TString s :: r) with Some (out, k) => Some (TOpen n :: out, k) | None => None end
    | t :: r =>
      match devocab1 cur t, receiver_view_v fu cur r with Some t', Some (out, k) => Some (t' :: out, k) | _, _ => None end
    end
  end.

(* what the object layer sees: every string in plain form, the set-vocab sequences still in place *)
Fixpoint plain_tokens (items : list item) : list token :=
  match items with [] => [] | ITok t :: r => t :: plain_tokens r | ISetVocab n tbl :: r => setvocab_tokens n tbl ++ plain_tokens r end.

(* ------------------------------------------------------------------ decidable equality on terms (used by the correspondence) *)
Definition ckind_eqb (a b : ckind) : bool :=
  match a, b with
  | CList, CList | CTuple, CTuple | CSet, CSet | CFrozen, CFrozen | CDict, CDict => true
  | CCopy x, CCopy y | CScope x, CScope y => list_eqb x y
  | _, _ => false
  end.
Fixpoint obj_eqb (a b : obj) : bool :=
  match a, b with
  | OInt x, OInt y => x =? y
  | OFloat x, OFloat y | OBytes x, OBytes y | OText x, OText y | ODecimal x, ODecimal y => list_eqb x y
  | OBool x, OBool y => Bool.eqb x y
  | ONone, ONone => true
  | ORef x, ORef y => x =? y
  | OCont c xs, OCont d ys =>
    ckind_eqb c d && (fix go (l : list obj) (m : list obj) : bool :=
                        match l, m with [], [] => true | x :: r, y :: q => obj_eqb x y && go r q | _, _ => false end) xs ys
  | _, _ => false
  end.
Definition objs_eqb := fix go (l : list obj) (m : list obj) : bool :=
  match l, m with [], [] => true | x :: r, y :: q => obj_eqb x y && go r q | _, _ => false end.
