(* C17: the queue model = the TRANSLATED code of foolscap/eventual.py (gen/EventualGen.v: m_append, m__turn, m_flush,
   m_eventually, m_fireEventually, m_flushEventualQueue, generated statement by statement on every run) placed in a
   hand-written ENVIRONMENT:
     - callables are scripts (lib/EventualSpec.v: an identity, the actions performed when run -- eventually(s') /
       flushEventualQueue() with a callback that is again a list of actions -- and how it ends);
     - invoking an entry of the batch performs its actions (which call the translated eventually / flushEventualQueue
       again) and may raise; firing a flush Deferred makes the observation FlushFired and performs its callback;
     - the reactor holds at most one pending call of _turn and runs it on request.
   No proofs here.  lib/EventualProofs.v proves that this machine and the reference machine of lib/EventualSpec.v
   (good_cfg) are the same function of the program. *)
From Coq Require Import ZArith List Bool.
Import ListNotations.
Require Export Verif.lib.EventualBase Verif.lib.EventualSpec.
Require Import Verif.gen.EventualGen.
Local Open Scope Z_scope.

(* ---- names kept for lib/OrderEventual.v (C04), which was written against the former cfg-parameterised model:
   the reference machine with the shape of the current code.  What ties it to the source is no longer a record of shape
   facts but EventualProofs.run_bridge (the translated code IS this machine). *)
Definition src_cfg : evcfg := good_cfg.
Notation run := EventualSpec.run (only parsing).
Notation turn := EventualSpec.turn (only parsing).

Definition qw := world script (list act) unit.
Definition qact := EventualBase.act script (list act) unit.
Definition qenv := env script (list act) unit.

(* the fields the reference machine has *)
Definition to_q (w : qw) : qstate :=
  {| events := w_events w; flushers := w_flushers w; timer := w_timer w; sched := w_sched w; in_turn := w_in_turn w |}.

Definition w0 : qw := mkW [] [] false false false [] [] tt.

Definition run_list_g (f : qw -> act -> qw * list ev) : list act -> qw -> qw * list ev :=
  fix go (l : list act) (w : qw) {struct l} : qw * list ev :=
    match l with
    | [] => (w, [])
    | a :: l' => let '(w1, t1) := f w a in
                 let '(w2, t2) := go l' w1 in (w2, t1 ++ t2)
    end.

Definition raise_evs (i : Z) (k : rkind) : list ev := match k with RNo => [] | _ => [Raised i] end.
Definition raise_flow (i : Z) (k : rkind) : flow := match k with RNo => FNorm | _ => FExc i k end.
Definition escape_evs (f : flow) : list ev := match f with FExc i _ => [Escaped i] | _ => [] end.

(* the environment of a call made from outside _turn: append() / flush() are not expected to take entries from a
   batch or to fire Deferreds (if the translated code does, nothing happens in the model and the correspondence
   shows it); [now] is what invoking the entry inside append() does *)
Definition env_out (now : script -> qact) : qenv := mkEnv (fun _ _ => ret) now (fun _ => ret) (fun _ => O).

(* one action, performed at top level / by the callback of a flush Deferred that _turn fires (ctx = None), or by a
   callable of the batch being run or a callback firing synchronously inside it (ctx = Some rest, rest = the
   callables of the batch not started yet).
   eventually(s): the translated eventually() runs.  Should the translated append() invoke the entry itself, the
   callable runs right there: Ran, its actions (recursively), Raised and -- nothing in append() catches it -- Escaped.
   flushEventualQueue(): the translated function runs with the Deferred (fid, cb) the environment would create;
   when it answers with a fired Deferred the callback added to it runs at once: the observation, then its actions. *)
Fixpoint do_act_g (ctx : option (list script)) (w : qw) (a : act) {struct a} : qw * list ev :=
  match a with
  | AEnq s =>
      match s with
      | Sc i acts k =>
          let now : script -> qact := fun _ w1 =>
            let '(w2, t) := run_list_g (do_act_g (Some (match ctx with Some r => r | None => [] end))) acts w1 in
            (w2, Ran i :: t ++ raise_evs i k, raise_flow i k) in
          let '(w', t, fl) := m_eventually (env_out now) s w in
          (w', Sub i :: t ++ escape_evs fl)
      end
  | AFlush fid cb =>
      let '(w', t, fl) := m_flushEventualQueue (env_out (fun _ => ret)) (fid, cb) w in
      match fl with
      | FRet RFired =>
          let '(w'', t') := run_list_g (do_act_g ctx) cb w' in
          (w'', t ++ FlushReq fid false :: fired_ev ctx (to_q w') fid :: t')
      | _ => (w', t ++ [FlushReq fid true])
      end
  end.

Definition run_acts_g (ctx : option (list script)) (w : qw) (l : list act) : qw * list ev :=
  run_list_g (do_act_g ctx) l w.

(* the call  cb( *args, **kwargs )  on an entry taken from the batch *)
Definition call_g (s : script) (rest : list script) : qact :=
  fun w => let '(w1, t1) := run_acts_g (Some rest) w (sacts s) in
           (w1, Ran (sid s) :: t1 ++ raise_evs (sid s) (sraises s), raise_flow (sid s) (sraises s)).

(* <Deferred of a flush request>.callback(None): the observation, then what the callback does *)
Definition fire_g (o : Z * list act) : qact :=
  fun w => let '(w1, t1) := run_acts_g None w (snd o) in (w1, fired_ev None (to_q w) (fst o) :: t1, FNorm).

Definition env_turn : qenv :=
  mkEnv call_g (fun _ => ret) fire_g (fun w => obs_weight (w_flushers w)).

(* the reactor runs the pending call of _turn, if any: the translated _turn *)
Definition turn_g (w : qw) : qw * list ev :=
  if negb (w_sched w) then (w, []) else
  let wr := mkW (w_events w) (w_flushers w) (w_timer w) false (w_in_turn w) (w_loc w) (w_obs w) (w_user w) in
  let '(w1, t, fl) := m__turn env_turn wr in (w1, t ++ escape_evs fl).

Definition step_g (w : qw) (o : op) : qw * list ev :=
  match o with OAct a => do_act_g None w a | OTurn => turn_g w end.

Fixpoint run_g (w : qw) (ops : list op) : qw * list ev :=
  match ops with
  | [] => (w, [])
  | o :: ops' => let '(w1, t1) := step_g w o in
                 let '(w2, t2) := run_g w1 ops' in (w2, t1 ++ t2)
  end.

(* ---- for the correspondence check (harness/c17.py): the translated code against the real one *)
Definition run_enc (ops : list op) : list Z * list Z :=
  let '(w, t) := run_g w0 ops in (enc_trace t, enc_state (to_q w)).
