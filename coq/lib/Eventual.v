(* C17: executable model of foolscap/eventual.py (_SimpleCallQueue.append/_turn/flush,
   eventually, fireEventually, flushEventualQueue).

   The model is parametrised by a record of SHAPE FACTS; [src_cfg] is the instance read
   from the current source by translate/g_eventual.py (coq/gen/EventualGen.v).  Callables
   are scripts: a callable has an identity, a list of actions it performs when it runs
   (eventually(s') / flushEventualQueue()), and may end by raising.  No proofs here. *)
From Coq Require Import ZArith List Bool.
Import ListNotations.
Require Import Verif.gen.EventualGen.
Local Open Scope Z_scope.

(* how a callable ends: returns, raises an Exception, raises a BaseException that is not an Exception
   (SystemExit, KeyboardInterrupt, GeneratorExit, ...) *)
Inductive rkind := RNo | RExc | RBase.

Inductive script := Sc (id : Z) (acts : list act) (raises : rkind)
with act := AEnq (s : script) | AFlush (fid : Z) (cb : list script).
(* AFlush fid cb: d = flushEventualQueue(); d.addCallback(lambda _: [eventually(s) for s in cb]) *)

Definition sid (s : script) : Z := match s with Sc i _ _ => i end.
Definition sacts (s : script) : list act := match s with Sc _ a _ => a end.
Definition sraises (s : script) : rkind := match s with Sc _ _ r => r end.

Record evcfg := {
  c_pos : endpos;            (* where append() puts the new entry *)
  c_arms : bool;             (* append() schedules _turn when no timer is pending *)
  c_clears : bool;           (* _turn resets self._timer before running the batch *)
  c_order : iterorder;       (* order in which _turn walks the batch *)
  c_catch : catchmode;       (* what the try/except around each call catches *)
  c_fire : firemode;         (* how _turn serves the flush observers after the batch *)
  c_marks : bool;            (* self._in_turn is True while the batch runs *)
  c_guard : flushguard       (* when flush() returns an already-fired Deferred *)
}.

Definition src_cfg : evcfg := {|
  c_pos := ev_append_pos; c_arms := ev_append_arms_timer; c_clears := ev_turn_clears_timer;
  c_order := ev_iter_order; c_catch := ev_catch; c_fire := ev_fire_mode;
  c_marks := ev_turn_marks_batch; c_guard := ev_flush_guard |}.

(* the code as it was before commit "flushEventualQueue waits for the batch that is being run" *)
Definition old_cfg : evcfg := {|
  c_pos := Tail; c_arms := true; c_clears := true; c_order := Forward; c_catch := CatchAll;
  c_fire := FireAllIfEmpty; c_marks := false; c_guard := FlushWhenNoEvents |}.

(* ... and before commit "flush observers are only notified while the eventual queue is still empty" *)
Definition old2_cfg : evcfg := {|
  c_pos := Tail; c_arms := true; c_clears := true; c_order := Forward; c_catch := CatchAll;
  c_fire := FireAllIfEmpty; c_marks := true; c_guard := FlushWhenIdle |}.

(* `except Exception:` instead of the bare `except:` *)
Definition exc_only_cfg : evcfg := {|
  c_pos := Tail; c_arms := true; c_clears := true; c_order := Forward; c_catch := CatchException;
  c_fire := FireWhileEmpty; c_marks := true; c_guard := FlushWhenIdle |}.

Record qstate := {
  events : list script;      (* self._events *)
  flushers : list (Z * list script);   (* self._flushObservers, with what each callback will enqueue *)
  timer : bool;              (* self._timer is set *)
  sched : bool;              (* the reactor holds a pending call of _turn *)
  in_turn : bool             (* self._in_turn *)
}.

Definition q0 : qstate := {| events := []; flushers := []; timer := false; sched := false; in_turn := false |}.

Inductive ev :=
| Sub (id : Z)                                       (* eventually(callable id) was called *)
| Ran (id : Z)                                       (* the queue invoked callable id *)
| Raised (id : Z)                                    (* ... and it raised *)
| Escaped (id : Z)                                   (* the exception left _turn *)
| FlushFired (fid : Z) (pending : nat) (running : bool).
   (* the Deferred of flush request fid fired while `pending` submitted callables had not
      been started, `running` = a callable of a batch was executing *)

Definition is_nil {A} (l : list A) : bool := match l with [] => true | _ => false end.

(* eventually(s) *)
Definition enq1 (c : evcfg) (st : qstate) (s : script) : qstate :=
  let evs := match c_pos c with Tail => events st ++ [s] | Head => s :: events st end in
  let arm := negb (timer st) && c_arms c in
  {| events := evs; flushers := flushers st; timer := timer st || arm; sched := sched st || arm;
     in_turn := in_turn st |}.

Definition set_flushers (st : qstate) (fl : list (Z * list script)) : qstate :=
  {| events := events st; flushers := fl; timer := timer st; sched := sched st; in_turn := in_turn st |}.

(* a flush Deferred fires: the observation is made, then its callback enqueues cb.
   ctx = Some rest: a callable of the batch is running and `rest` have not started *)
Definition notify (c : evcfg) (ctx : option (list script)) (st : qstate) (fid : Z) (cb : list script) : qstate * list ev :=
  (fold_left (enq1 c) cb st,
   FlushFired fid (List.length (match ctx with Some r => r | None => [] end) + List.length (events st))
              (match ctx with Some _ => true | None => false end) :: map (fun s => Sub (sid s)) cb).

(* one action, performed either at top level (ctx = None) or by a callable of the batch
   being run (ctx = Some rest, rest = the callables of the batch not started yet) *)
Definition do_act (c : evcfg) (ctx : option (list script)) (st : qstate) (a : act) : qstate * list ev :=
  match a with
  | AEnq s => (enq1 c st s, [Sub (sid s)])
  | AFlush fid cb =>
      let idle := match c_guard c with
                  | FlushWhenIdle => is_nil (events st) && negb (in_turn st)
                  | FlushWhenNoEvents => is_nil (events st)
                  | FlushNeverSync => false
                  end in
      if idle then notify c ctx st fid cb
      else (set_flushers st (flushers st ++ [(fid, cb)]), [])
  end.

Fixpoint run_acts (c : evcfg) (ctx : option (list script)) (st : qstate) (l : list act) : qstate * list ev :=
  match l with
  | [] => (st, [])
  | a :: l' => let '(st1, t1) := do_act c ctx st a in
               let '(st2, t2) := run_acts c ctx st1 l' in (st2, t1 ++ t2)
  end.

Definition catches (c : evcfg) (k : rkind) : bool :=
  match c_catch c with
  | CatchAll => true
  | CatchException => match k with RBase => false | _ => true end
  | CatchNone => false
  end.

(* `for cb, args, kwargs in events: try: cb(..) except: log.err()`; the bool says whether
   the loop ran to its end (false: an exception left _turn) *)
Fixpoint run_batch (c : evcfg) (st : qstate) (batch : list script) : qstate * list ev * bool :=
  match batch with
  | [] => (st, [], true)
  | s :: rest =>
      let '(st1, t1) := run_acts c (Some rest) st (sacts s) in
      match sraises s with
      | RNo => let '(st2, t2, ok) := run_batch c st1 rest in (st2, Ran (sid s) :: t1 ++ t2, ok)
      | k =>
        if catches c k then
          let '(st2, t2, ok) := run_batch c st1 rest in (st2, Ran (sid s) :: t1 ++ Raised (sid s) :: t2, ok)
        else (st1, Ran (sid s) :: t1 ++ [Raised (sid s); Escaped (sid s)], false)
      end
  end.

(* `while self._flushObservers and not self._events: self._flushObservers.pop(0).callback(None)` *)
Fixpoint fire_while (c : evcfg) (fl : list (Z * list script)) (st : qstate) : qstate * list ev :=
  match fl with
  | [] => (set_flushers st [], [])
  | (f, cb) :: rest =>
      if is_nil (events st)
      then let '(st1, t1) := notify c None st f cb in
           let '(st2, t2) := fire_while c rest st1 in (st2, t1 ++ t2)
      else (set_flushers st fl, [])
  end.

(* `observers, self._flushObservers = self._flushObservers, []; for o in observers: o.callback(None)` *)
Fixpoint fire_all (c : evcfg) (fl : list (Z * list script)) (st : qstate) : qstate * list ev :=
  match fl with
  | [] => (st, [])
  | (f, cb) :: rest =>
      let '(st1, t1) := notify c None st f cb in
      let '(st2, t2) := fire_all c rest st1 in (st2, t1 ++ t2)
  end.

Definition fire (c : evcfg) (st : qstate) : qstate * list ev :=
  match c_fire c with
  | FireWhileEmpty => fire_while c (flushers st) st
  | FireAllIfEmpty => if is_nil (events st) then fire_all c (flushers st) (set_flushers st []) else (st, [])
  | FireAllAlways => fire_all c (flushers st) (set_flushers st [])
  end.

(* the reactor runs the pending call of _turn, if any *)
Definition turn (c : evcfg) (st : qstate) : qstate * list ev :=
  if negb (sched st) then (st, []) else
  let st0 := {| events := []; flushers := flushers st; timer := if c_clears c then false else timer st;
                sched := false; in_turn := c_marks c |} in
  let batch := match c_order c with Forward => events st | Backward => rev (events st) end in
  let '(st1, t1, ok) := run_batch c st0 batch in
  if ok then
    let '(st2, t2) := fire c {| events := events st1; flushers := flushers st1; timer := timer st1; sched := sched st1;
                                in_turn := false |} in
    (st2, t1 ++ t2)
  else (st1, t1).

Inductive op := OAct (a : act) | OTurn.

Definition step (c : evcfg) (st : qstate) (o : op) : qstate * list ev :=
  match o with OAct a => do_act c None st a | OTurn => turn c st end.

Fixpoint run (c : evcfg) (st : qstate) (ops : list op) : qstate * list ev :=
  match ops with
  | [] => (st, [])
  | o :: ops' => let '(st1, t1) := step c st o in
                 let '(st2, t2) := run c st1 ops' in (st2, t1 ++ t2)
  end.

(* projections of a trace *)
Fixpoint subs (t : list ev) : list Z :=
  match t with [] => [] | Sub i :: t' => i :: subs t' | _ :: t' => subs t' end.
Fixpoint rans (t : list ev) : list Z :=
  match t with [] => [] | Ran i :: t' => i :: rans t' | _ :: t' => rans t' end.

Definition flush_ok (e : ev) : Prop :=
  match e with FlushFired _ n r => n = 0%nat /\ r = false | _ => True end.

(* ---- encoding of traces for the correspondence check (harness/c17.py) *)
Definition enc_ev (e : ev) : list Z :=
  match e with
  | Sub i => [1; i] | Ran i => [2; i] | Raised i => [3; i] | Escaped i => [4; i]
  | FlushFired f n r => [5; f; Z.of_nat n; if r then 1 else 0]
  end.
Definition enc_trace (t : list ev) : list Z := flat_map enc_ev t.
Definition enc_state (st : qstate) : list Z :=
  [Z.of_nat (List.length (events st)); Z.of_nat (List.length (flushers st));
   if timer st then 1 else 0; if in_turn st then 1 else 0].
Definition run_enc (ops : list op) : list Z * list Z :=
  let '(st, t) := run src_cfg q0 ops in (enc_trace t, enc_state st).
