(* C14: connection sequence numbers and incarnations, for all schedules of lib/Converge.v -- what the offers in flight
   can say about the master's current connection.  Main result: established_not_displaced. *)
From Coq Require Import ZArith List Bool Arith Lia.
Import ListNotations.
Require Import Verif.lib.PyLite Verif.gen.ConvergeGen Verif.lib.Converge Verif.lib.ConvergeProofs Verif.lib.ConvergeAttempts.
Local Open Scope Z_scope.

(* the non-master's end has not been closed or lost *)
Definition healthy_s (e : est) : bool := match e with ENeg | EDec | EBrk => true | _ => false end.

Definition yinv (s : state) : Prop :=
  (1 <= t_inc (tm s) /\ 0 <= t_master (tm s) /\ t_bseq (tm s) = t_master (tm s)) /\
  (forall c i last, In (Hello i last) (c_qsm (conns s c)) -> i = t_inc (ts s)) /\
  (forall lir lseq, t_slave (ts s) = Some (lir, lseq) -> 1 <= lir <= t_inc (tm s) /\ (lir = t_inc (tm s) -> lseq <= t_master (tm s))) /\
  (forall c i lir lseq, In (Hello i (Some (lir, lseq))) (c_qsm (conns s c)) ->
     (lir = IR_NONE \/ 1 <= lir <= t_inc (tm s)) /\ (lir = t_inc (tm s) -> lseq <= t_master (tm s))) /\
  (forall c2 i q, In (Decision i q) (c_qms (conns s c2)) ->
     i = t_inc (tm s) /\ q <= t_master (tm s) /\ (q = t_master (tm s) -> forall c, t_broker (tm s) = Some c -> c = c2)) /\
  (forall c, t_broker (tm s) = Some c -> healthy_s (c_s (conns s c)) = true ->
     forall c' i lseq, In (Hello i (Some (t_inc (tm s), lseq))) (c_qsm (conns s c')) -> lseq < t_master (tm s)) /\
  (forall c, t_broker (tm s) = Some c -> negotiating (c_s (conns s c)) = true ->
     forall lseq, t_slave (ts s) = Some (t_inc (tm s), lseq) -> lseq < t_master (tm s)) /\
  (forall c, t_broker (tm s) = Some c -> c_s (conns s c) <> ELost -> t_bir (tm s) = Some (t_inc (ts s))).

Definition s_le (e' e : est) : Prop :=
  (healthy_s e' = true -> healthy_s e = true) /\ (negotiating e' = true -> negotiating e = true) /\ (e' <> ELost -> e <> ELost).
Lemma s_le_refl e : s_le e e.
Proof. unfold s_le. auto. Qed.

Definition ycore (t : tub) := (t_inc t, t_master t, t_bseq t, t_bir t, t_slave t).

Definition yframe (s s' : state) : Prop :=
  ycore (tm s') = ycore (tm s) /\ (t_broker (tm s') = None \/ t_broker (tm s') = t_broker (tm s)) /\
  ycore (ts s') = ycore (ts s) /\
  (forall c, s_le (c_s (conns s' c)) (c_s (conns s c)) /\
             (forall i l, In (Hello i l) (c_qsm (conns s' c)) -> In (Hello i l) (c_qsm (conns s c))) /\
             (forall i q, In (Decision i q) (c_qms (conns s' c)) -> In (Decision i q) (c_qms (conns s c)))).

Lemma yframe_refl s : yframe s s.
Proof. unfold yframe. repeat split; auto. Qed.
Lemma yframe_trans s1 s2 s3 : yframe s1 s2 -> yframe s2 s3 -> yframe s1 s3.
Proof.
  intros (A1 & A2 & A3 & A4) (B1 & B2 & B3 & B4). split; [congruence|]. split.
  { destruct B2 as [B2|B2]; [left; exact B2|]. destruct A2 as [A2|A2]; [left|right]; congruence. }
  split; [congruence|]. intros c. destruct (A4 c) as ((Aa & Ab & Ac) & Ah & Ad), (B4 c) as ((Ba & Bb & Bc) & Bh & Bd).
  split; [unfold s_le; auto|]. split; [intros i l H; apply Ah, Bh, H|intros i q H; apply Ad, Bd, H].
Qed.

Lemma yframe_inv s s' : yframe s s' -> yinv s -> yinv s'.
Proof.
  intros (F1 & F2 & F3 & F4) (Y0 & Y2 & Y3a & Y3b & Y3c & Y4 & Y5 & Y6).
  unfold ycore in F1, F3. inversion F1 as [[E1 E2 E3 E4 E5]]. inversion F3 as [[G1 G2 G3 G4 G5]].
  unfold yinv. rewrite E1, E2, E3, E4, G1, G5.
  split; [exact Y0|]. split; [intros c i l H; apply (Y2 c i l), (F4 c), H|]. split; [exact Y3a|].
  split; [intros c i lir lseq H; apply (Y3b c i), (F4 c), H|].
  split.
  { intros c2 i q H. apply (F4 c2) in H. destruct (Y3c c2 i q H) as (A & B & C). split; [exact A|]. split; [exact B|].
    intros Eq c Eb. destruct F2 as [F2|F2]; [congruence|]. apply C; [exact Eq|congruence]. }
  split.
  { intros c Eb Hh c' i lseq H. destruct F2 as [F2|F2]; [congruence|]. rewrite F2 in Eb.
    eapply (Y4 c Eb); [apply (proj1 (F4 c)), Hh|apply (F4 c'), H]. }
  split.
  { intros c Eb Hn lseq. destruct F2 as [F2|F2]; [congruence|]. rewrite F2 in Eb. apply (Y5 c Eb). apply (proj1 (F4 c)), Hn. }
  intros c Eb Hl. destruct F2 as [F2|F2]; [congruence|]. rewrite F2 in Eb. apply (Y6 c Eb). apply (proj1 (F4 c)), Hl.
Qed.

(* ---- connection transformers *)
Definition yf (f : conn -> conn) : Prop :=
  forall k, s_le (c_s (f k)) (c_s k) /\
            (forall i l, In (Hello i l) (c_qsm (f k)) -> In (Hello i l) (c_qsm k)) /\
            (forall i q, In (Decision i q) (c_qms (f k)) -> In (Decision i q) (c_qms k)).
Lemma yf_id : yf (fun k => k).
Proof. intros k. split; [apply s_le_refl|auto]. Qed.
Lemma yf_comp f g : yf f -> yf g -> yf (fun k => f (g k)).
Proof.
  intros Hf Hg k. destruct (Hf (g k)) as ((A1 & A2 & A3) & Ah & Ad), (Hg k) as ((B1 & B2 & B3) & Bh & Bd).
  split; [unfold s_le; auto|]. split; [intros i l H; apply Bh, Ah, H|intros i q H; apply Bd, Ad, H].
Qed.
Lemma in_snoc_other {A} (x m : A) l : x <> m -> In x (l ++ [m]) -> In x l.
Proof. intros Hm H. apply in_app_or in H as [H|[H|[]]]; [exact H|congruence]. Qed.
Lemma yf_enq x m : (forall a b, m <> Hello a b) -> (forall a b, m <> Decision a b) -> yf (enq x m).
Proof.
  intros H1 H2 k. unfold enq. destruct (c_cut k); [apply yf_id|]. destruct x; cbn; (split; [apply s_le_refl|]); split; auto;
    intros a b H; eapply in_snoc_other; try exact H; intros E; [eapply H2|eapply H1]; symmetry; exact E.
Qed.
Lemma yf_set_end_m e : yf (set_end TM e).
Proof. intros k. cbn. split; [apply s_le_refl|auto]. Qed.
Lemma yf_lose x : yf (lose x).
Proof.
  intros k. unfold lose. destruct x; cbn [cend].
  - destruct (c_m k); try apply yf_id;
      apply (yf_comp (enq TM Fin) (set_end TM _)); try (apply yf_enq; intros; discriminate); apply yf_set_end_m.
  - destruct k as [cl g m sd qms qsm cut]. unfold lose, enq. cbn [cend c_s].
    destruct sd; cbn; try (split; [apply s_le_refl|auto]);
      destruct cut; cbn; (split; [unfold s_le; cbn; repeat split; auto; discriminate|]); split; auto;
      intros a b H; apply in_snoc_other in H; auto; discriminate.
Qed.
Lemma yf_cancel x g : yf (cancel x g).
Proof. intros k. unfold cancel. destruct (_ && _ && _)%bool; [apply yf_lose|apply yf_id]. Qed.
Lemma yf_srv_expire n d : yf (srv_expire n d).
Proof. intros k. unfold srv_expire. destruct (_ && _)%bool; [apply yf_lose|apply yf_id]. Qed.
Lemma yf_pop_ms : yf pop_ms.
Proof. intros k. cbn. split; [apply s_le_refl|]. split; [auto|]. intros i q H. destruct (c_qms k); cbn [tl] in H; [exact H|right; exact H]. Qed.
Lemma yf_pop_sm : yf pop_sm.
Proof. intros k. cbn. split; [apply s_le_refl|]. split; [|auto]. intros i q H. destruct (c_qsm k); cbn [tl] in H; [exact H|right; exact H]. Qed.
Lemma yf_cut : yf cut_conn.
Proof. intros k. cbn. split; [apply s_le_refl|]. split; intros ? ? []. Qed.

Lemma yframe_upd c k' s :
  s_le (c_s k') (c_s (conns s c)) ->
  (forall i l, In (Hello i l) (c_qsm k') -> In (Hello i l) (c_qsm (conns s c))) ->
  (forall i q, In (Decision i q) (c_qms k') -> In (Decision i q) (c_qms (conns s c))) ->
  yframe s (set_conns (upd (conns s) c k') s).
Proof.
  intros H1 H2 H3. unfold yframe. cbn [set_conns tm ts conns]. split; [reflexivity|]. split; [right; reflexivity|]. split; [reflexivity|].
  intros i. unfold upd. destruct (Nat.eqb_spec i c); [subst; auto|]. split; [apply s_le_refl|auto].
Qed.
Lemma yframe_upd_yf f c s : yf f -> yframe s (set_conns (upd (conns s) c (f (conns s c))) s).
Proof. intros Hf. destruct (Hf (conns s c)) as (A & B & C). apply yframe_upd; assumption. Qed.
Lemma yframe_map f s : yf f -> yframe s (map_conns f s).
Proof.
  intros Hf. unfold yframe. cbn [map_conns set_conns tm ts conns]. split; [reflexivity|]. split; [right; reflexivity|]. split; [reflexivity|].
  intros i. apply Hf.
Qed.
Lemma yframe_set_tub x t s :
  ycore t = ycore (tubof x s) -> (t_broker t = None \/ t_broker t = t_broker (tubof x s)) -> yframe s (set_tub x t s).
Proof.
  intros Hc Hb. destruct x; unfold yframe; cbn [set_tub tubof tm ts conns] in *.
  - split; [exact Hc|]. split; [exact Hb|]. split; [reflexivity|]. intros c. split; [apply s_le_refl|auto].
  - split; [reflexivity|]. split; [right; reflexivity|]. split; [exact Hc|]. intros c. split; [apply s_le_refl|auto].
Qed.

Lemma ycore_getref n t : ycore (getref_tub n t) = ycore t /\ t_broker (getref_tub n t) = t_broker t.
Proof. split; [|apply broker_getref_tub]. unfold getref_tub, ycore. destruct (t_broker t); [reflexivity|]. destruct (t_connector t); reflexivity. Qed.
Lemma ycore_gone n t : ycore (connector_gone n t) = ycore t /\ t_broker (connector_gone n t) = t_broker t.
Proof.
  split; [|apply broker_connector_gone].
  unfold connector_gone, connection_failed_forgets_first, errback_all. cbn [set_connector t_broker].
  destruct (t_broker t); [reflexivity|].
  match goal with |- context [if ?b then _ else _] => destruct b end; [rewrite (proj1 (ycore_getref _ _))|]; reflexivity.
Qed.

Lemma attach_y x c s :
  let s' := attach x c s in
  (t_inc (tubof x s') = t_inc (tubof x s) /\ t_master (tubof x s') = t_master (tubof x s) /\ t_bseq (tubof x s') = t_bseq (tubof x s) /\
   t_bir (tubof x s') = t_bir (tubof x s) /\ t_slave (tubof x s') = t_slave (tubof x s)) /\ t_broker (tubof x s') = Some c /\
  match x with TM => ts s' = ts s | TS => tm s' = tm s end /\
  (forall j, s_le (c_s (conns s' j)) (c_s (conns s j)) /\
             (forall i l, In (Hello i l) (c_qsm (conns s' j)) -> In (Hello i l) (c_qsm (conns s j))) /\
             (forall i q, In (Decision i q) (c_qms (conns s' j)) -> In (Decision i q) (c_qms (conns s j)))).
Proof.
  cbv zeta. unfold attach.
  assert (G : forall g j, s_le (c_s (conns (map_conns (cancel x g) s) j)) (c_s (conns s j)) /\
             (forall i l, In (Hello i l) (c_qsm (conns (map_conns (cancel x g) s) j)) -> In (Hello i l) (c_qsm (conns s j))) /\
             (forall i q, In (Decision i q) (c_qms (conns (map_conns (cancel x g) s) j)) -> In (Decision i q) (c_qms (conns s j)))).
  { intros g j. cbn [map_conns set_conns conns]. apply yf_cancel. }
  destruct (tub_eqb (c_client (conns s c)) x).
  - rewrite tubof_set_tub. destruct x; cbn; repeat split; auto; apply G.
  - destruct (t_connector (tubof x s)) eqn:Ec.
    + rewrite tubof_set_tub. destruct x; cbn; repeat split; auto; apply G.
    + rewrite tubof_set_tub. destruct x; cbn; repeat split; auto.
Qed.

Lemma step_pos : 0 < seqnum_step.
Proof. unfold seqnum_step. lia. Qed.

(* the master accepts the offer on c; it has no current connection at that moment; the offer's incarnation is S's *)
Lemma yinv_master_accept c inc s :
  yinv s -> inc = t_inc (ts s) -> yinv (master_accept c inc s).
Proof.
  intros (Y0 & Y2 & Y3a & Y3b & Y3c & Y4 & Y5 & Y6) Einc. pose proof step_pos as SP. unfold master_accept.
  match goal with |- yinv (attach TM c ?s2') => set (s2 := s2') end.
  destruct (attach_y TM c s2) as (A1 & A2 & A3 & A4). cbv zeta in *. cbn [tubof] in *.
  set (m' := t_master (tm s) + seqnum_step) in *.
  destruct A1 as (B1 & B2 & B3 & B4 & B5).
  change (t_inc (tm s2)) with (t_inc (tm s)) in B1. change (t_master (tm s2)) with m' in B2. change (t_bseq (tm s2)) with m' in B3.
  change (t_bir (tm s2)) with (Some inc) in B4.
  assert (Ets : ts s2 = ts s) by reflexivity. rewrite Ets in A3.
  assert (Hq : forall j i l, In (Hello i l) (c_qsm (conns s2 j)) -> In (Hello i l) (c_qsm (conns s j))).
  { intros j i l. cbn [s2 set_tub set_conns conns]. unfold upd. destruct (Nat.eqb_spec j c); [subst j|auto].
    intros H. destruct (yf_set_end_m EBrk (enq TM (Decision (t_inc (tm s)) m') (conns s c))) as (_ & P & _). apply P in H.
    unfold enq in H. destruct (c_cut (conns s c)); exact H. }
  assert (Hd : forall j i q, In (Decision i q) (c_qms (conns s2 j)) ->
                 In (Decision i q) (c_qms (conns s j)) \/ (j = c /\ i = t_inc (tm s) /\ q = m')).
  { intros j i q. cbn [s2 set_tub set_conns conns]. unfold upd. destruct (Nat.eqb_spec j c); [subst j|auto].
    intros H. destruct (yf_set_end_m EBrk (enq TM (Decision (t_inc (tm s)) m') (conns s c))) as (_ & _ & P). apply P in H.
    unfold enq in H. destruct (c_cut (conns s c)); [left; exact H|]. cbn [c_qms] in H.
    apply in_app_or in H as [H|[H|[]]]; [left; exact H|right]. inversion H. auto. }
  assert (Hs : forall j, c_s (conns s2 j) = c_s (conns s j)).
  { intros j. cbn [s2 set_tub set_conns conns]. unfold upd. destruct (Nat.eqb_spec j c); [subst j|reflexivity].
    unfold enq. destruct (c_cut (conns s c)); destruct (conns s c); reflexivity. }
  unfold yinv. rewrite B1, B2, B3, B4, A3, A2.
  split; [fold m'; lia|]. split; [intros j i l H; apply (A4 j), Hq in H; apply (Y2 j i l H)|].
  split; [intros lir lseq H; destruct (Y3a lir lseq H) as [H0 H1]; split; [assumption|intros E; fold m'; specialize (H1 E); lia]|].
  split; [intros j i lir lseq H; apply (A4 j), Hq in H; destruct (Y3b j i lir lseq H) as [H0 H1]; split; [exact H0|intros E; specialize (H1 E); lia]|].
  split.
  { intros j i q H. apply (A4 j), Hd in H. destruct H as [H|(-> & -> & ->)].
    - destruct (Y3c j i q H) as (P1 & P2 & _). split; [exact P1|]. split; [lia|]. intros E. lia.
    - split; [reflexivity|]. split; [lia|]. intros _ c0 E0. inversion E0. reflexivity. }
  split; [intros c0 _ _ c' i lseq H; apply (A4 c'), Hq in H; destruct (Y3b c' i _ lseq H) as [_ H1]; specialize (H1 eq_refl); lia|].
  split; [intros c0 _ _ lseq H; destruct (Y3a _ lseq H) as [_ P]; specialize (P eq_refl); lia|].
  intros c0 _ _. rewrite Einc. reflexivity.
Qed.

Lemma yframe_drop x s : yframe s (drop_existing x s).
Proof.
  unfold drop_existing. destruct (t_broker (tubof x s)) as [e|]; [|apply yframe_refl].
  eapply yframe_trans; [apply (yframe_upd_yf (lose x) e s), yf_lose|].
  apply yframe_set_tub; [reflexivity|left; reflexivity].
Qed.

(* the non-master accepts the decision on c *)
Lemma yinv_slave_accept c inc seq rest s :
  yinv s -> c_qms (conns s c) = Decision inc seq :: rest -> c_s (conns s c) = EDec ->
  let s1 := drop_existing TS s in
  let rec_ := if slave_table_recorded_always || tub_eqb (c_client (conns s c)) TS then Some (inc, seq) else t_slave (ts s1) in
  yinv (attach TS c (set_tub TS (set_slave rec_ (ts s1)) (set_conns (upd (conns s1) c (set_end TS EBrk (pop_ms (conns s1 c)))) s1))).
Proof.
  intros HY Eq Es. cbv zeta. set (s1 := drop_existing TS s).
  match goal with |- yinv (attach TS c ?s2') => set (s2 := s2') end.
  destruct (attach_y TS c s2) as (A1 & A2 & A3 & A4). cbv zeta in *. cbn [tubof] in *.
  destruct A1 as (B1 & _ & _ & _ & B5).
  destruct (yframe_drop TS s) as (D1 & D2 & D3 & D4). fold s1 in D1, D2, D3, D4.
  unfold ycore in D1, D3. inversion D1 as [[E1 E2 E3 E4 E5]]. inversion D3 as [[G1 G2 G3 G4 G5]].
  assert (Etm : tm s2 = tm s1) by reflexivity.
  change (t_inc (ts s2)) with (t_inc (ts s1)) in B1.
  assert (Esl : t_slave (ts s2) = Some (inc, seq)) by (cbn [s2 set_tub ts set_slave t_slave]; unfold slave_table_recorded_always; reflexivity).
  rewrite Esl in B5.
  (* per-connection relation between the final state and s *)
  assert (R : forall j,
     (healthy_s (c_s (conns (attach TS c s2) j)) = true -> healthy_s (c_s (conns s j)) = true) /\
     (negotiating (c_s (conns (attach TS c s2) j)) = true -> negotiating (c_s (conns s j)) = true /\ j <> c) /\
     (c_s (conns (attach TS c s2) j) <> ELost -> c_s (conns s j) <> ELost) /\
     (forall i l, In (Hello i l) (c_qsm (conns (attach TS c s2) j)) -> In (Hello i l) (c_qsm (conns s j))) /\
     (forall i q, In (Decision i q) (c_qms (conns (attach TS c s2) j)) -> In (Decision i q) (c_qms (conns s j)))).
  { intros j. destruct (A4 j) as ((P1 & P2 & P3) & Ph & Pd). destruct (D4 j) as ((Q1 & Q2 & Q3) & Qh & Qd).
    cbn [s2 set_tub set_conns conns] in P1, P2, P3, Ph, Pd. unfold upd in *. destruct (Nat.eqb_spec j c) as [Ejc|Hne]; [rewrite Ejc in *; clear Ejc|].
    - rewrite Es. cbn [c_s set_end pop_ms c_qsm c_qms] in *. split; [reflexivity|]. split; [intros H; apply P2 in H; discriminate H|].
      split; [discriminate|]. split; [intros i l H; apply Qh, Ph, H|].
      intros i q H. apply Pd in H. apply Qd. destruct (c_qms (conns s1 c)); cbn [tl] in H; [exact H|right; exact H].
    - split; [auto|]. split; [auto|]. split; [auto|]. split; [intros i l H; apply Qh, Ph, H|intros i q H; apply Qd, Pd, H]. }
  destruct HY as (Y0 & Y2 & Y3a & Y3b & Y3c & Y4 & Y5 & Y6).
  assert (Hdec : In (Decision inc seq) (c_qms (conns s c))) by (rewrite Eq; left; reflexivity).
  destruct (Y3c c inc seq Hdec) as (Ci & Cq & Cb).
  unfold yinv. rewrite A3, Etm, E1, E2, E3, E4, B1, G1, B5.
  assert (Eb : t_broker (tm s1) = t_broker (tm s)) by (unfold s1, drop_existing; cbn [tubof]; destruct (t_broker (ts s)); reflexivity).
  rewrite Eb.
  split; [exact Y0|]. split; [intros j i l H; apply (R j) in H; apply (Y2 j i l H)|].
  split; [intros lir lseq H; inversion H; subst lir lseq; split; [lia|intros _; exact Cq]|].
  split; [intros j i lir lseq H; apply (R j) in H; apply (Y3b j i lir lseq H)|].
  split; [intros j i q H; apply (R j) in H; apply (Y3c j i q H)|].
  split; [intros c0 E0 Hh c' i lseq H; apply (R c') in H; eapply (Y4 c0 E0); [apply (R c0), Hh|exact H]|].
  split.
  { intros c0 E0 Hn lseq H. inversion H; subst lseq. apply (R c0) in Hn as [_ Hne].
    destruct (Z.eq_dec seq (t_master (tm s))) as [E|E]; [|lia]. exfalso. apply Hne. apply (Cb E c0 E0). }
  intros c0 E0 Hl. apply (Y6 c0 E0). apply (R c0), Hl.
Qed.

(* one more hint is dialled *)
Lemma yinv_dial x s : inv s -> xinv s -> yinv s -> yinv (do_dial x s).
Proof.
  intros [HI [Bm Bs]] (X1 & _ & _) HY. unfold do_dial. destruct (t_connector (tubof x s)) as [g|] eqn:Ec; [|exact HY].
  destruct HY as (Y0 & Y2 & Y3a & Y3b & Y3c & Y4 & Y5 & Y6).
  assert (Hold : forall c0, t_broker (tm s) = Some c0 -> upd (conns s) (nconn s)
            (mkconn x g ENeg ENeg [Hello (t_inc (tm s)) None]
               [Hello (t_inc (ts s)) match x with TS => Some match t_slave (ts s) with Some r => r | None => (IR_NONE, 0) end | TM => None end] false) c0
            = conns s c0).
  { intros c0 E0. apply upd_other. apply Bm in E0. lia. }
  unfold yinv. cbn [tm ts conns].
  split; [exact Y0|]. split.
  { intros c i l. unfold upd. destruct (Nat.eqb c (nconn s)); [|apply Y2]. cbn [c_qsm]. intros [H|[]]. inversion H. reflexivity. }
  split; [exact Y3a|]. split.
  { intros c i lir lseq. unfold upd. destruct (Nat.eqb c (nconn s)); [|apply Y3b]. cbn [c_qsm]. intros H. destruct H as [H|[]]. inversion H as [[Hi Hl]].
    destruct x; [discriminate|]. inversion Hl as [Hr]. destruct (t_slave (ts s)) as [[a b]|] eqn:Esl.
    - inversion Hr; subst a b. destruct (Y3a lir lseq eq_refl) as [H0 H1]. split; [right; exact H0|exact H1].
    - inversion Hr as [[Ha Hb]]. split; [left; reflexivity|]. intros E. unfold IR_NONE in E. lia. }
  split.
  { intros c2 i q. unfold upd. destruct (Nat.eqb c2 (nconn s)); [|apply Y3c]. cbn [c_qms]. intros [H|[]]. discriminate H. }
  split.
  { intros c0 E0 Hh c' i lseq. rewrite (Hold c0 E0) in Hh. unfold upd. destruct (Nat.eqb c' (nconn s)); [|apply (Y4 c0 E0 Hh)].
    cbn [c_qsm]. intros [H|[]]. inversion H as [[Hi Hl]]. destruct x; [discriminate|]. inversion Hl as [Hr].
    destruct (t_slave (ts s)) as [[a b]|] eqn:Esl; [|inversion Hr as [[Ha Hb]]; unfold IR_NONE in Ha; lia].
    inversion Hr; subst a b.
    destruct (negotiating (c_s (conns s c0))) eqn:Hn; [apply (Y5 c0 E0 Hn lseq eq_refl)|]. exfalso.
    (* S's end of the master's current connection is a live Broker: then S has no connector and cannot dial *)
    assert (Es : c_s (conns s c0) = EBrk) by (destruct (c_s (conns s c0)); try discriminate; reflexivity).
    destruct (HI c0) as (_ & G2 & _). apply G2 in Es. specialize (X1 TS). cbn [tubof] in *. rewrite Ec in X1.
    rewrite X1 in Es; [discriminate|discriminate]. }
  split.
  { intros c0 E0 Hn. rewrite (Hold c0 E0) in Hn. apply (Y5 c0 E0 Hn). }
  intros c0 E0 Hl. rewrite (Hold c0 E0) in Hl. apply (Y6 c0 E0 Hl).
Qed.

Lemma yframe_connector_failed x g s : yframe s (connector_failed x g s).
Proof.
  unfold connector_failed. destruct (t_connector (tubof x s)); [|apply yframe_refl].
  destruct (_ && _)%bool; [|apply yframe_refl].
  destruct (ycore_gone (now s) (tubof x s)) as [A B]. apply yframe_set_tub; [exact A|right; exact B].
Qed.

Lemma yf_set_end_lost x : yf (set_end x ELost).
Proof.
  intros k. destruct x; [apply yf_set_end_m|]. cbn. split; [|auto]. unfold s_le. cbn.
  split; [discriminate|]. split; [discriminate|]. intros C. contradiction C. reflexivity.
Qed.

Lemma yframe_conn_lost x c pre s : yf pre -> yframe s (conn_lost x c pre s).
Proof.
  intros Hp. unfold conn_lost.
  set (s1 := set_conns (upd (conns s) c (set_end x ELost (pre (conns s c)))) s).
  assert (F1 : yframe s s1).
  { apply (yframe_upd_yf (fun k => set_end x ELost (pre k)) c s), (yf_comp (set_end x ELost) pre); [apply yf_set_end_lost|exact Hp]. }
  destruct (cend x (pre (conns s c))); try exact F1;
    try (destruct (tub_eqb (c_client (pre (conns s c))) x); [eapply yframe_trans; [exact F1|apply yframe_connector_failed]|exact F1]).
  destruct (t_broker (tubof x s1)); [|exact F1]. destruct (Nat.eqb n c); [|exact F1].
  eapply yframe_trans; [exact F1|]. apply yframe_set_tub; [reflexivity|left; reflexivity].
Qed.

Lemma yframe_timeout x s : yframe s (do_timeout x s).
Proof.
  unfold do_timeout. destruct (t_connector (tubof x s)) as [g|]; [|apply yframe_refl].
  eapply yframe_trans; [apply (yframe_map (cancel x g)), yf_cancel|].
  match goal with |- yframe ?s1 _ => destruct (ycore_gone (now s1) (tubof x s1)) as [A B] end.
  apply yframe_set_tub; [exact A|right; exact B].
Qed.

Lemma yframe_advance dt s : yframe s (do_advance dt s).
Proof.
  unfold do_advance. set (n := Z.max _ _).
  set (s2 := set_conns (fun i => srv_expire n (sdl s i) (conns s i)) (set_now n s)).
  assert (F2 : yframe s s2).
  { unfold yframe. cbn [s2 set_conns set_now tm ts conns]. split; [reflexivity|]. split; [right; reflexivity|]. split; [reflexivity|].
    intros c. apply yf_srv_expire. }
  assert (F3 : yframe s (if expired TM s2 then do_timeout TM s2 else s2)).
  { destruct (expired TM s2); [eapply yframe_trans; [exact F2|apply yframe_timeout]|exact F2]. }
  destruct (expired TS _); [eapply yframe_trans; [exact F3|apply yframe_timeout]|exact F3].
Qed.

Lemma yinv_deliver_m c s : yinv s -> yinv (deliver_m c s).
Proof.
  intros H. unfold deliver_m. destruct (c_qsm (conns s c)) as [|m q] eqn:Eq; [exact H|].
  set (s0 := set_conns (upd (conns s) c (pop_sm (conns s c))) s).
  assert (F0 : yframe s s0) by apply (yframe_upd_yf pop_sm c s), yf_pop_sm.
  assert (H0 : yinv s0) by (eapply yframe_inv; [exact F0|exact H]).
  assert (Hl : yinv (set_conns (upd (conns s) c (lose TM (pop_sm (conns s c)))) s)).
  { eapply yframe_inv; [|exact H]. apply (yframe_upd_yf (fun k => lose TM (pop_sm k)) c s), (yf_comp (lose TM) pop_sm); [apply yf_lose|apply yf_pop_sm]. }
  destruct m as [inc last|a b| |].
  - destruct (c_m (conns s c)) eqn:Em; try exact H0.
    assert (Einc : inc = t_inc (ts s)).
    { destruct H as (_ & Y2 & _). apply (Y2 c inc last). rewrite Eq. left. reflexivity. }
    destruct (t_broker (tm s0)).
    + match goal with |- context [compare_offer ?a1 ?a2 ?a3 ?a4 ?a5 ?a6 ?a7] =>
        destruct (compare_offer a1 a2 a3 a4 a5 a6 a7) as [[|]|] end;
        try (eapply yframe_inv; [|exact H0]; unfold master_reject;
             apply (yframe_upd_yf (fun k => lose TM (enq TM ErrorBlk k)) c s0), (yf_comp (lose TM) (enq TM ErrorBlk));
             [apply yf_lose|apply yf_enq; intros; discriminate]).
      apply yinv_master_accept; [eapply yframe_inv; [apply yframe_drop|exact H0]|].
      rewrite Einc. unfold drop_existing. cbn [tubof]. destruct (t_broker (tm s0)); reflexivity.
    + apply yinv_master_accept; [exact H0|exact Einc].
  - destruct (c_m (conns s c)); try exact H0. exact Hl.
  - destruct (c_m (conns s c)); try exact H0. exact Hl.
  - destruct (c_m (conns s c)); try exact H0; (eapply yframe_inv; [apply yframe_conn_lost, yf_pop_sm|exact H]).
Qed.

Lemma yinv_deliver_s c s : yinv s -> yinv (deliver_s c s).
Proof.
  intros H. unfold deliver_s. destruct (c_qms (conns s c)) as [|m q] eqn:Eq; [exact H|].
  assert (H0 : yinv (set_conns (upd (conns s) c (pop_ms (conns s c))) s)).
  { eapply yframe_inv; [apply (yframe_upd_yf pop_ms c s), yf_pop_ms|exact H]. }
  assert (Hl : yinv (set_conns (upd (conns s) c (lose TS (pop_ms (conns s c)))) s)).
  { eapply yframe_inv; [|exact H]. apply (yframe_upd_yf (fun k => lose TS (pop_ms k)) c s), (yf_comp (lose TS) pop_ms); [apply yf_lose|apply yf_pop_ms]. }
  destruct m as [inc last|inc seq| |].
  - destruct (c_s (conns s c)) eqn:Es; try exact H0; [|exact Hl].
    eapply yframe_inv; [|exact H]. destruct (yf_pop_ms (conns s c)) as (_ & Ph & Pd). apply yframe_upd.
    + cbn. rewrite Es. unfold s_le. cbn. repeat split; auto; discriminate.
    + exact Ph.
    + exact Pd.
  - destruct (c_s (conns s c)) eqn:Es; try exact H0; [exact Hl|].
    apply (yinv_slave_accept c inc seq q s H Eq Es).
  - destruct (c_s (conns s c)); try exact H0; exact Hl.
  - destruct (c_s (conns s c)); try exact H0; (eapply yframe_inv; [apply yframe_conn_lost, yf_pop_ms|exact H]).
Qed.

Theorem step_yinv s o : inv s -> xinv s -> yinv s -> yinv (step s o).
Proof.
  intros HI HX H. destruct o as [x|x|c to|c x|c|x|x|x|dt|o]; cbn [step].
  - eapply yframe_inv; [|exact H]. unfold do_getref. destruct (ycore_getref (now s) (tubof x s)) as [A B].
    apply yframe_set_tub; [exact A|right; exact B].
  - apply yinv_dial; assumption.
  - destruct to; destruct (Nat.ltb c (nconn s)); try exact H; [apply yinv_deliver_m|apply yinv_deliver_s]; exact H.
  - destruct (Nat.ltb c (nconn s)); [|exact H]. unfold do_closeseen. destruct (close_pending x (conns s c)); [|exact H].
    eapply yframe_inv; [apply yframe_conn_lost, yf_id|exact H].
  - destruct (Nat.ltb c (nconn s)); [|exact H]. eapply yframe_inv; [apply (yframe_upd_yf cut_conn c s), yf_cut|exact H].
  - (* restart: every queue is emptied; the Tub starts from scratch with the next incarnation *)
    destruct H as (Y0 & Y2 & Y3a & Y3b & Y3c & Y4 & Y5 & Y6). unfold do_restart.
    assert (Eq1 : forall t c, c_qsm (conns (set_tub x t (map_conns (kill x) s)) c) = []) by (intros t c; destruct x; reflexivity).
    assert (Eq2 : forall t c, c_qms (conns (set_tub x t (map_conns (kill x) s)) c) = []) by (intros t c; destruct x; reflexivity).
    unfold yinv.
    split; [destruct x; cbn [set_tub map_conns set_conns tubof tm ts new_tub t_inc t_master t_bseq]; [lia|exact Y0]|].
    split; [intros c i l Hin; rewrite Eq1 in Hin; destruct Hin|].
    split.
    { destruct x; cbn [set_tub map_conns set_conns tubof tm ts new_tub t_inc t_master t_slave]; [|intros ? ? Hd; discriminate Hd].
      intros lir lseq Hs. destruct (Y3a lir lseq Hs). split; lia. }
    split; [intros c i lir lseq Hin; rewrite Eq1 in Hin; destruct Hin|].
    split; [intros c i q Hin; rewrite Eq2 in Hin; destruct Hin|].
    split; [intros c _ _ c' i lseq Hin; rewrite Eq1 in Hin; destruct Hin|].
    split.
    { destruct x; cbn [set_tub map_conns set_conns tm ts new_tub t_broker t_slave]; [intros c Hd; discriminate Hd|].
      intros c _ _ lseq Hd. discriminate Hd. }
    destruct x; cbn [set_tub map_conns set_conns tm ts conns new_tub t_broker]; [intros c Hd; discriminate Hd|].
    intros c _ Hl. exfalso. apply Hl. unfold kill. destruct (conns s c); reflexivity.
  - eapply yframe_inv; [apply yframe_timeout|exact H].
  - eapply yframe_inv; [|exact H]. apply yframe_set_tub; [reflexivity|right; reflexivity].
  - eapply yframe_inv; [apply yframe_advance|exact H].
  - eapply yframe_inv; [|exact H]. unfold yframe. cbn [set_ho tm ts conns]. split; [reflexivity|]. split; [right; reflexivity|]. split; [reflexivity|].
    intros c. split; [apply s_le_refl|auto].
Qed.

Theorem run_yinv ops : yinv (run ops).
Proof.
  unfold run. assert (G : forall l s, inv s -> xinv s -> yinv s -> yinv (fold_left step l s)).
  { induction l as [|o r IH]; intros s HI HX H; cbn [fold_left]; [exact H|].
    apply IH; [apply step_inv, HI|apply step_xinv; assumption|apply step_yinv; assumption]. }
  apply G; [apply init_inv| |].
  - split; [|split]; [intros x; destruct x; cbn; auto|intros x i Hi; cbn in Hi; lia|intros i a b []].
  - unfold yinv. cbn. split; [lia|]. split; [intros ? ? ? []|]. split; [intros ? ? Hd; discriminate Hd|].
    split; [intros ? ? ? ? []|]. split; [intros ? ? ? []|]. split; [intros ? Hd; discriminate Hd|].
    split; intros ? Hd; discriminate Hd.
Qed.

Lemma broker_connector_failed x g s : t_broker (tm (connector_failed x g s)) = t_broker (tm s).
Proof.
  unfold connector_failed. destruct (t_connector (tubof x s)); [|reflexivity]. destruct (_ && _)%bool; [|reflexivity].
  destruct x; cbn [set_tub tm tubof]; [apply broker_connector_gone|reflexivity].
Qed.

Lemma broker_conn_lost_m c' pre s :
  cend TM (pre (conns s c')) <> EBrk -> t_broker (tm (conn_lost TM c' pre s)) = t_broker (tm s).
Proof.
  intros Hne. unfold conn_lost. destruct (cend TM (pre (conns s c'))); try reflexivity; try contradiction;
    destruct (tub_eqb (c_client (pre (conns s c'))) TM); try reflexivity; rewrite broker_connector_failed; reflexivity.
Qed.

(* "an established healthy connection is not displaced by a redundant attempt from the same peer incarnation", for the
   SYSTEM: in every reachable state in which c is the master's current connection and the non-master's end of c is a live
   Broker, no delivery to the master replaces c -- provided no offer in flight names a PAST LIFE of the master (the one
   excluded case: the master restarted and the non-master still remembers the previous incarnation; see
   established_displaced_after_master_restart) *)
Theorem established_not_displaced ops c c' :
  let s := run ops in
  t_broker (tm s) = Some c -> c_s (conns s c) = EBrk ->
  (forall i lir lseq rest, c_qsm (conns s c') = Hello i (Some (lir, lseq)) :: rest -> lir = IR_NONE \/ lir = t_inc (tm s)) ->
  t_broker (tm (step s (Deliver c' TM))) = Some c.
Proof.
  cbv zeta. intros Eb Es Hguard. set (s := run ops) in *.
  pose proof (run_inv ops) as HI. pose proof (run_xinv ops) as HX. pose proof (run_yinv ops) as HY. fold s in HI, HX, HY.
  cbn [step]. destruct (Nat.ltb c' (nconn s)) eqn:Hc; [|exact Eb]. unfold deliver_m.
  destruct (c_qsm (conns s c')) as [|m q] eqn:Eq; [exact Eb|].
  pose proof (proj1 HI c') as Gc'. pose proof (proj1 HI c) as Gc.
  destruct m as [inc last|a b| |].
  - destruct (c_m (conns s c')) eqn:Em; try exact Eb.
    (* an offer is evaluated while c is current *)
    assert (Hstep : step s (Deliver c' TM) = deliver_m c' s) by (cbn [step]; rewrite Hc; reflexivity).
    assert (G : tm (step s (Deliver c' TM)) = tm s); [|unfold deliver_m in Hstep; rewrite Eq, Em in Hstep; rewrite <- Hstep, G; exact Eb].
    apply Nat.ltb_lt in Hc.
    destruct (handle_old_unreachable ops c' inc last q Hc Eq Em) as [Hl _]; [fold s; rewrite Eb; discriminate|].
    destruct last as [[lir lseq]|]; [|contradiction Hl; reflexivity].
    apply Nat.ltb_lt in Hc.
    apply (offer_refused s c' inc (Some (lir, lseq)) q c Hc Eq Em Eb).
    destruct HY as (Y0 & Y2 & _ & _ & _ & Y4 & _ & Y6).
    assert (Ei : t_bir (tm s) = Some inc).
    { rewrite (Y6 c Eb); [|rewrite Es; discriminate]. rewrite (Y2 c' inc (Some (lir, lseq))); [reflexivity|rewrite Eq; left; reflexivity]. }
    rewrite Ei. apply compare_same_incarnation_older_or_none.
    destruct (Hguard inc lir lseq q eq_refl) as [Hn|Hm]; [left; exact Hn|right]. split; [exact Hm|].
    destruct Y0 as (_ & _ & Ebs). rewrite Ebs. subst lir.
    apply (Y4 c Eb ltac:(rewrite Es; reflexivity) c' inc lseq). rewrite Eq. left. reflexivity.
  - destruct (c_m (conns s c')); exact Eb.
  - destruct (c_m (conns s c')); exact Eb.
  - assert (Hne : c_m (conns s c') <> EBrk).
    { intros E. destruct Gc' as (G1 & _). apply G1 in E. rewrite Eb in E. inversion E; subst c'.
      destruct Gc as (_ & _ & _ & _ & _ & _ & _ & _ & G9 & _). rewrite Eq in G9. specialize (G9 eq_refl). rewrite Es in G9. discriminate. }
    destruct (c_m (conns s c')) eqn:Em; try exact Eb;
      (rewrite broker_conn_lost_m; [exact Eb|destruct (conns s c'); cbn in *; rewrite Em; congruence]).
Qed.


(* the guard as a property of the history: the master is in its first incarnation (t_inc counts its restarts) *)
Theorem established_not_displaced_first_life ops c c' :
  let s := run ops in
  t_inc (tm s) = 1 -> t_broker (tm s) = Some c -> c_s (conns s c) = EBrk ->
  t_broker (tm (step s (Deliver c' TM))) = Some c.
Proof.
  cbv zeta. intros E1 Eb Es. apply established_not_displaced; [exact Eb|exact Es|].
  intros i lir lseq rest Eq. destruct (run_yinv ops) as (_ & _ & _ & Y3b & _).
  destruct (Y3b c' i lir lseq) as [[H|H] _]; [rewrite Eq; left; reflexivity|left; exact H|right; lia].
Qed.

(* the guard is exact: an offer that names a past life of the master DOES displace the established connection *)
Theorem past_life_offer_displaces ops c c' i lir lseq rest :
  let s := run ops in
  t_broker (tm s) = Some c -> Nat.ltb c' (nconn s) = true ->
  c_qsm (conns s c') = Hello i (Some (lir, lseq)) :: rest -> c_m (conns s c') = ENeg ->
  lir <> IR_NONE -> lir <> t_inc (tm s) ->
  t_broker (tm (step s (Deliver c' TM))) = Some c' /\ c' <> c.
Proof.
  cbv zeta. intros Eb Hc Eq Em H0 H1. split.
  - apply (offer_accepted (run ops) c' i (Some (lir, lseq)) rest c Hc Eq Em Eb).
    rewrite compare_total. f_equal. apply Z.eqb_neq in H0, H1. rewrite H0, H1. cbn. apply orb_true_r.
  - intros E. subst c'. apply (proj1 (run_inv ops) c) in Eb. congruence.
Qed.

(* ... and that situation is reachable: M restarts, S (remembering M's past life) dials two hints; the first is accepted
   and established at both ends, uncut; the second offer then takes its place *)
Theorem established_displaced_after_master_restart :
  exists ops c c',
    let s := run ops in
    t_broker (tm s) = Some c /\ t_broker (ts s) = Some c /\ c_m (conns s c) = EBrk /\ c_s (conns s c) = EBrk /\
    c_cut (conns s c) = false /\ t_bir (tm s) = Some (t_inc (ts s)) /\
    t_broker (tm (step s (Deliver c' TM))) = Some c' /\ c' <> c.
Proof.
  exists [GetRef TS; DialHint TS; Deliver 0 TM; Deliver 0 TS; Deliver 0 TS; Restart TM; CloseSeen 0 TS;
          GetRef TS; DialHint TS; DialHint TS; Deliver 1 TM; Deliver 1 TS; Deliver 1 TS], 1%nat, 2%nat.
  vm_compute. repeat split; discriminate.
Qed.

(* the hypotheses of established_not_displaced with a redundant offer really in flight *)
Example redundant_offer_in_flight :
  let s := run [GetRef TS; DialHint TS; DialHint TS; Deliver 0 TM; Deliver 0 TS; Deliver 0 TS] in
  t_broker (tm s) = Some 0%nat /\ c_s (conns s 0%nat) = EBrk /\ c_qsm (conns s 1%nat) = [Hello 1 (Some (IR_NONE, 0)); Fin] /\
  c_m (conns s 1%nat) = ENeg /\ t_broker (tm (step s (Deliver 1%nat TM))) = Some 0%nat.
Proof. vm_compute. repeat split. Qed.
