(* Theorems about the Banana receive instance (lib/BananaRecv.v): instantiations of the generic
   results of RecvProofs.v plus properties of the discard / stack bookkeeping. *)
From Coq Require Import ZArith List Bool Lia.
Import ListNotations.
Require Import Verif.lib.PyLite Verif.gen.BananaGen Verif.lib.Token Verif.lib.Recv Verif.lib.RecvProofs Verif.lib.BananaRecv.
Local Open Scope Z_scope.

(* ---- chunk independence for the real handler semantics ---- *)
Theorem banana_chunk_independent c cs cs' : concat cs = concat cs' -> bfeed_all (init c) cs = bfeed_all (init c) cs'.
Proof. apply chunk_independent. Qed.

Theorem banana_feed_is_run c cs : bfeed_all (init c) cs = brun c (concat cs).
Proof. apply feed_all_is_run. Qed.

Theorem banana_abandon_is_final s cs : r_dead s = true -> bfeed_all s cs = (s, []).
Proof. apply dead_is_final. Qed.

(* ---- every way of abandoning the connection tells the peer and closes ---- *)
Definition closes (es : list event) : Prop := In ELose es.

Lemma fatal_closes code : closes (fatal code).
Proof. unfold closes, fatal. cbn. auto. Qed.

(* ---- handleViolation: the stack never becomes empty and the root is never popped ---- *)
Definition root_at_bottom (st : list frame) : Prop := exists pre, st = pre ++ [root_frame] /\ Forall (fun f => f_kind f <> kR) pre.

Lemma hv_loop_length : forall l b z s1 d1 e1, hv_loop l z b = Some (s1, d1, e1) -> (List.length s1 <= List.length l)%nat.
Proof.
  induction l as [|a l IHl]; intros b z s1 d1 e1 E; cbn [hv_loop] in E; [discriminate|].
  destruct (f_kind a =? kR); [inversion E; subst; lia|].
  destruct (f_kind a =? kP); [inversion E; subst; lia|].
  destruct l as [|a' l']; [discriminate|].
  destruct (hv_loop (a' :: l') (if b then z else z + 1) false) as [[[s2 d2] e2]|] eqn:E1; [|discriminate].
  inversion E; subst. apply IHl in E1. cbn [List.length] in *. lia.
Qed.

Lemma hv_loop_root st : root_at_bottom st -> forall d ic,
  exists st' d' es, hv_loop st d ic = Some (st', d', es) /\ root_at_bottom st' /\ d <= d' /\
                    (* exactly the popped frames are counted (the first one not when inClose) *)
                    d' - d = Z.of_nat (List.length st - List.length st') - (if ic then (if (List.length st' <? List.length st)%nat then 1 else 0) else 0).
Proof.
  intros (pre & -> & Hp). induction pre as [|f pre IH]; intros d ic.
  - cbn. exists [root_frame], d, [EViolation]. split; [reflexivity|]. split; [exists []; split; [reflexivity|constructor]|].
    split; [lia|]. cbn. destruct ic; lia.
  - inversion Hp as [|? ? Hf Hp']; subst. specialize (IH Hp'). cbn [app hv_loop].
    destruct (Z.eqb_spec (f_kind f) kR) as [E|_]; [contradiction|].
    destruct (Z.eqb_spec (f_kind f) kP) as [E|_].
    + exists (f :: pre ++ [root_frame]), d, [EAbsorb kP]. split; [reflexivity|].
      split; [exists (f :: pre); split; [reflexivity|exact Hp]|]. split; [lia|].
      rewrite Nat.sub_diag, Nat.ltb_irrefl. destruct ic; cbn; lia.
    + destruct (pre ++ [root_frame]) as [|g rest] eqn:Er; [destruct pre; discriminate|].
      destruct (IH (if ic then d else d + 1) false) as (st' & d' & es & E & R & Hd & Hc).
      rewrite E. exists st', d', (EFinish (f_kind f) :: es). split; [reflexivity|]. split; [exact R|].
      pose proof (hv_loop_length _ _ _ _ _ _ E) as Hlen.
      cbn [List.length] in *. destruct ic.
      * split; [lia|]. destruct (Nat.ltb_spec (List.length st') (S (S (List.length rest)))); [|lia].
        rewrite Nat.sub_succ_l by lia. lia.
      * split; [lia|]. rewrite Nat.sub_succ_l by lia. lia.
Qed.

(* ---- C11: the tasters of size-limited frames accept a body only if it fits ---- *)
Lemma sized_is_body ty : is_sized ty = true -> has_body ty = true.
Proof.
  unfold is_sized, has_body. intros H. apply orb_true_iff in H as [H|H]; [apply orb_true_iff in H as [H|H]|];
    rewrite H; repeat rewrite orb_true_r; reflexivity.
Qed.

Theorem taster_respects_limit mode f ty size :
  check_frame mode f ty size = CkOk -> is_sized ty = true ->
  (f_kind f = kS -> size <= f_param f) /\ (f_kind f = kR -> 3 <= mode -> size <= mode - 3).
Proof.
  unfold check_frame. intros H S. rewrite S in H.
  destruct (f_kind f =? kB) eqn:EB; [discriminate|].
  destruct ((f_kind f =? kI) && negb ((ty =? tok_INT) || (ty =? tok_NEG))) eqn:EI; [discriminate|].
  split.
  - intros K. rewrite K in H. change (kS =? kS) with true in H. cbn [andb] in H.
    destruct (Z.ltb_spec (f_param f) size); [discriminate|lia].
  - intros K M. rewrite K in H.
    change (kR =? kS) with false in H. change (kR =? kN) with false in H. change (kR =? kQ) with false in H.
    change (kR =? kR) with true in H. cbn [andb] in H.
    destruct ((mode =? 1) && negb ((ty =? tok_INT) || (ty =? tok_NEG) || (ty =? tok_OPEN))); [discriminate|].
    destruct ((mode =? 2) && (ty =? tok_FLOAT)); [discriminate|].
    destruct (Z.leb_spec 3 mode); [|lia]. cbn [andb] in H.
    destruct (Z.ltb_spec (mode - 3) size); [discriminate|lia].
Qed.

(* index tokens are limited to INDEX_MAX bytes whatever the schema *)
Theorem index_token_limit ty size : opener_check ty size = CkOk -> ty = tok_STRING -> size <= INDEX_MAX.
Proof.
  unfold opener_check. intros H ->. rewrite Z.eqb_refl in H. destruct (Z.ltb_spec INDEX_MAX size); [discriminate|lia].
Qed.
