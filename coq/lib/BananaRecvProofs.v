(* Theorems about the Banana receive instance (lib/BananaRecv.v): instantiations of the generic
   results of RecvProofs.v plus properties of the discard / stack bookkeeping. *)
From Coq Require Import ZArith List Bool Lia.
Import ListNotations.
Require Import Verif.lib.PyLite Verif.gen.BananaGen Verif.lib.Token Verif.lib.Recv Verif.lib.RecvProofs Verif.lib.BananaRecv.
Local Open Scope Z_scope.

(* ---- chunk independence for the real handler semantics ---- *)
Theorem banana_chunk_independent c cs cs' : concat cs = concat cs' -> bfeed_all (init c) cs = bfeed_all (init c) cs'.
Proof. apply chunk_independent. Qed.

Theorem banana_feed_is_run c cs : bfeed_all (init c) cs = brun c (concat cs).
Proof. apply feed_all_is_run. Qed.

Theorem banana_abandon_is_final s cs : r_dead s = true -> bfeed_all s cs = (s, []).
Proof. apply dead_is_final. Qed.

(* ---- every way of abandoning the connection tells the peer and closes ---- *)
Definition closes (es : list event) : Prop := In ELose es.

Lemma fatal_closes code : closes (fatal code).
Proof. unfold closes, fatal. cbn. auto. Qed.

(* ---- handleViolation: the stack never becomes empty and the root is never popped ---- *)
Definition root_at_bottom (st : list frame) : Prop := exists pre, st = pre ++ [root_frame] /\ Forall (fun f => f_kind f <> kR) pre.

Lemma hv_loop_length : forall l b z s1 d1 e1, hv_loop l z b = Some (s1, d1, e1) -> (List.length s1 <= List.length l)%nat.
Proof.
  induction l as [|a l IHl]; intros b z s1 d1 e1 E; cbn [hv_loop] in E; [discriminate|].
  destruct (f_kind a =? kR); [inversion E; subst; lia|].
  destruct (f_kind a =? kP); [inversion E; subst; lia|].
  destruct l as [|a' l']; [discriminate|].
  destruct (hv_loop (a' :: l') (if b then z else z + 1) false) as [[[s2 d2] e2]|] eqn:E1; [|discriminate].
  inversion E; subst. apply IHl in E1. cbn [List.length] in *. lia.
Qed.

Lemma hv_loop_root st : root_at_bottom st -> forall d ic,
  exists st' d' es, hv_loop st d ic = Some (st', d', es) /\ root_at_bottom st' /\ d <= d' /\
                    (* exactly the popped frames are counted (the first one not when inClose) *)
                    d' - d = Z.of_nat (List.length st - List.length st') - (if ic then (if (List.length st' <? List.length st)%nat then 1 else 0) else 0).
Proof.
  intros (pre & -> & Hp). induction pre as [|f pre IH]; intros d ic.
  - cbn. exists [root_frame], d, [EViolation]. split; [reflexivity|]. split; [exists []; split; [reflexivity|constructor]|].
    split; [lia|]. cbn. destruct ic; lia.
  - inversion Hp as [|? ? Hf Hp']; subst. specialize (IH Hp'). cbn [app hv_loop].
    destruct (Z.eqb_spec (f_kind f) kR) as [E|_]; [contradiction|].
    destruct (Z.eqb_spec (f_kind f) kP) as [E|_].
    + exists (f :: pre ++ [root_frame]), d, [EAbsorb kP]. split; [reflexivity|].
      split; [exists (f :: pre); split; [reflexivity|exact Hp]|]. split; [lia|].
      rewrite Nat.sub_diag, Nat.ltb_irrefl. destruct ic; cbn; lia.
    + destruct (pre ++ [root_frame]) as [|g rest] eqn:Er; [destruct pre; discriminate|].
      destruct (IH (if ic then d else d + 1) false) as (st' & d' & es & E & R & Hd & Hc).
      rewrite E. exists st', d', (EFinish (f_kind f) :: es). split; [reflexivity|]. split; [exact R|].
      pose proof (hv_loop_length _ _ _ _ _ _ E) as Hlen.
      cbn [List.length] in *. destruct ic.
      * split; [lia|]. destruct (Nat.ltb_spec (List.length st') (S (S (List.length rest)))); [|lia].
        rewrite Nat.sub_succ_l by lia. lia.
      * split; [lia|]. rewrite Nat.sub_succ_l by lia. lia.
Qed.

(* ---- C11: the tasters of size-limited frames accept a body only if it fits ---- *)
Lemma sized_is_body ty : is_sized ty = true -> has_body ty = true.
Proof.
  unfold is_sized, has_body. intros H. apply orb_true_iff in H as [H|H]; [apply orb_true_iff in H as [H|H]|];
    rewrite H; repeat rewrite orb_true_r; reflexivity.
Qed.

Theorem taster_respects_limit mode f ty size :
  check_frame mode f ty size = CkOk -> is_sized ty = true ->
  (f_kind f = kS -> size <= f_param f) /\ (f_kind f = kR -> 3 <= mode -> size <= mode - 3).
Proof.
  unfold check_frame. intros H S. rewrite S in H.
  destruct (f_kind f =? kB) eqn:EB; [discriminate|].
  destruct ((f_kind f =? kI) && negb ((ty =? tok_INT) || (ty =? tok_NEG))) eqn:EI; [discriminate|].
  split.
  - intros K. rewrite K in H. change (kS =? kS) with true in H. cbn [andb] in H.
    destruct (Z.ltb_spec (f_param f) size); [discriminate|lia].
  - intros K M. rewrite K in H.
    change (kR =? kS) with false in H. change (kR =? kN) with false in H. change (kR =? kQ) with false in H.
    change (kR =? kR) with true in H. cbn [andb] in H.
    destruct ((mode =? 1) && negb ((ty =? tok_INT) || (ty =? tok_NEG) || (ty =? tok_OPEN))); [discriminate|].
    destruct ((mode =? 2) && (ty =? tok_FLOAT)); [discriminate|].
    destruct (Z.leb_spec 3 mode); [|lia]. cbn [andb] in H.
    destruct (Z.ltb_spec (mode - 3) size); [discriminate|lia].
Qed.

(* index tokens are limited to INDEX_MAX bytes whatever the schema *)
Theorem index_token_limit ty size : opener_check ty size = CkOk -> ty = tok_STRING -> size <= INDEX_MAX.
Proof.
  unfold opener_check. intros H ->. rewrite Z.eqb_refl in H. destruct (Z.ltb_spec INDEX_MAX size); [discriminate|lia].
Qed.

(* ================================================================== *)
(* Depth bookkeeping: discardCount + live unslicers + pending OPEN tracks the nesting depth of
   the token stream exactly, whatever violations occur.  Consequence: at the end of every
   balanced top-level object the receiver is back at top level (resynchronised). *)

Definition wfc (c : bctx) : Prop := 0 <= discard c /\ root_at_bottom (stack c).

Lemma root_nonempty st : root_at_bottom st -> (1 <= List.length st)%nat.
Proof. intros (pre & -> & _). rewrite app_length. cbn. lia. Qed.

Lemma hv_loop_pops top rest d ic st' d' es :
  f_kind top <> kR -> f_kind top <> kP -> hv_loop (top :: rest) d ic = Some (st', d', es) ->
  (List.length st' <= List.length rest)%nat.
Proof.
  intros HR HP E. cbn [hv_loop] in E.
  destruct (Z.eqb_spec (f_kind top) kR); [contradiction|]. destruct (Z.eqb_spec (f_kind top) kP); [contradiction|].
  destruct rest as [|g rest']; [discriminate|].
  destruct (hv_loop (g :: rest') (if ic then d else d + 1) false) as [[[s1 d1] e1]|] eqn:E1; [|discriminate].
  inversion E; subst. apply hv_loop_length in E1. exact E1.
Qed.

Lemma handle_violation_depth c io ic c' es : wfc c -> handle_violation c io ic = Ok' c' es ->
  wfc c' /\ inOpen c' = inOpen c /\ rootmode c' = rootmode c /\ vocab c' = vocab c /\
  open_depth c' = open_depth c + (if io then 1 else 0)
                  - (if ic then (if (List.length (stack c') <? List.length (stack c))%nat then 1 else 0) else 0).
Proof.
  intros (Hd & Hr) E. unfold handle_violation in E.
  destruct (hv_loop_root (stack c) Hr (if io then discard c + 1 else discard c) ic) as (st' & d' & es' & EL & R & Hle & Hc).
  rewrite EL in E. inversion E; subst. unfold wfc, open_depth, with_stack. cbn [discard stack inOpen rootmode vocab].
  split; [split; [destruct io; lia|exact R]|]. split; [reflexivity|]. split; [reflexivity|]. split; [reflexivity|].
  pose proof (root_nonempty _ Hr). pose proof (root_nonempty _ R). pose proof (hv_loop_length _ _ _ _ _ _ EL).
  destruct io, ic; destruct (Nat.ltb_spec (List.length st') (List.length (stack c))); lia.
Qed.

Lemma od_push c d f : open_depth (with_stack c d (f :: stack c)) = d + Z.of_nat (List.length (stack c)) + (if inOpen c then 1 else 0).
Proof. unfold open_depth, with_stack. cbn [discard stack inOpen List.length]. lia. Qed.

Lemma root_push st f : root_at_bottom st -> f_kind f <> kR -> root_at_bottom (f :: st).
Proof. intros (pre & -> & F) H. exists (f :: pre). split; [reflexivity|constructor; assumption]. Qed.

Lemma root_replace_top top rest f : root_at_bottom (top :: rest) -> f_kind top <> kR -> f_kind f <> kR -> root_at_bottom (f :: rest).
Proof.
  intros (pre & E & F) Ht Hf. destruct pre as [|p pre].
  - cbn in E. inversion E; subst. exfalso. apply Ht. reflexivity.
  - cbn in E. inversion E; subst. inversion F; subst. exists (f :: pre). split; [reflexivity|constructor; assumption].
Qed.

Lemma root_pop top rest : root_at_bottom (top :: rest) -> f_kind top <> kR -> root_at_bottom rest.
Proof.
  intros (pre & E & F) Ht. destruct pre as [|p pre].
  - cbn in E. inversion E; subst. exfalso. apply Ht. reflexivity.
  - cbn in E. inversion E; subst. inversion F; subst. exists pre. auto.
Qed.

Lemma root_top_open top rest : root_at_bottom (top :: rest) -> f_open top <> None -> f_kind top <> kR.
Proof.
  intros (pre & E & F) Ho. destruct pre as [|p pre].
  - cbn in E. inversion E; subst. cbn in Ho. congruence.
  - cbn in E. inversion E; subst. inversion F; subst. assumption.
Qed.

Lemma handle_token_depth c v c' es : wfc c -> handle_token c v = Ok' c' es ->
  wfc c' /\ inOpen c' = inOpen c /\ rootmode c' = rootmode c /\ vocab c' = vocab c /\ open_depth c' = open_depth c.
Proof.
  intros W E. unfold handle_token in E. destruct (stack c) as [|top rest] eqn:Es; [discriminate|].
  destruct (f_kind top =? kR) eqn:ER; [inversion E; subst; auto 6|].
  destruct ((f_kind top =? kC) && (Z.of_nat (List.length (f_items top)) =? f_param top)) eqn:EC.
  - destruct (handle_violation c false false) as [c1 es1|] eqn:EV; [|discriminate]. inversion E; subst.
    destruct (handle_violation_depth _ _ _ _ _ W EV) as (W1 & I1 & M1 & V1 & D1). repeat split; try assumption; try apply W1. lia.
  - inversion E; subst. destruct W as (Hd & Hr). rewrite Es in Hr.
    unfold wfc, open_depth, with_stack. cbn [discard stack inOpen rootmode vocab List.length]. rewrite Es. cbn [List.length].
    split; [split; [exact Hd|]|auto].
    apply Z.eqb_neq in ER. apply (root_replace_top top rest); [exact Hr|exact ER|exact ER].
Qed.

Lemma handle_close_depth c n c' es : wfc c -> handle_close c n = Ok' c' es ->
  wfc c' /\ inOpen c' = inOpen c /\ rootmode c' = rootmode c /\ vocab c' = vocab c /\ open_depth c' = open_depth c - 1.
Proof.
  intros W E. unfold handle_close in E. destruct (stack c) as [|top rest] eqn:Es; [discriminate|].
  destruct (f_open top) as [oc|] eqn:Eo; [|discriminate].
  destruct (negb (oc =? n)); [discriminate|].
  assert (HnR : f_kind top <> kR).
  { destruct W as (_ & Hr). rewrite Es in Hr. apply (root_top_open top rest Hr). congruence. }
  assert (Wd := W). destruct Wd as (Hd & Hr). rewrite Es in Hr.
  destruct (Z.eqb_spec (f_kind top) kX) as [EX|NX].
  - destruct (handle_violation c false true) as [c1 es1|] eqn:EV; [|discriminate]. inversion E; subst.
    destruct (handle_violation_depth _ _ _ _ _ W EV) as (W1 & I1 & M1 & V1 & D1).
    unfold handle_violation in EV. rewrite Es in EV.
    destruct (hv_loop (top :: rest) (discard c) true) as [[[s1 d1] e1]|] eqn:EL; [|discriminate]. inversion EV; subst.
    assert (HP : f_kind top <> kP) by (rewrite EX; unfold kX, kP; lia).
    pose proof (hv_loop_pops _ _ _ _ _ _ _ HnR HP EL) as Hp.
    cbn [with_stack stack] in D1. rewrite Es in D1. cbn [List.length] in D1.
    destruct (Nat.ltb_spec (List.length s1) (S (List.length rest))); [|lia].
    repeat split; try assumption; try apply W1. lia.
  - destruct (Z.eqb_spec (f_kind top) kF) as [EF|NF].
    + destruct (handle_violation c false true) as [c1 es1|] eqn:EV; [|discriminate]. inversion E; subst.
      destruct (handle_violation_depth _ _ _ _ _ W EV) as (W1 & I1 & M1 & V1 & D1).
      unfold handle_violation in EV. rewrite Es in EV.
      destruct (hv_loop (top :: rest) (discard c) true) as [[[s1 d1] e1]|] eqn:EL; [|discriminate]. inversion EV; subst.
      assert (HP : f_kind top <> kP) by (rewrite EF; unfold kF, kP; lia).
      pose proof (hv_loop_pops _ _ _ _ _ _ _ HnR HP EL) as Hp.
      cbn [with_stack stack] in D1. rewrite Es in D1. cbn [List.length] in D1.
      destruct (Nat.ltb_spec (List.length s1) (S (List.length rest))); [|lia].
      repeat split; try assumption; try apply W1. lia.
    + destruct (handle_token (with_stack c (discard c) rest) (VList (f_kind top) (rev (f_items top)))) as [c1 es1|] eqn:ET; [|discriminate].
      inversion E; subst.
      assert (W0 : wfc (with_stack c (discard c) rest)).
      { split; [exact Hd|]. cbn [with_stack stack]. apply (root_pop top rest Hr HnR). }
      destruct (handle_token_depth _ _ _ _ W0 ET) as (W1 & I1 & M1 & V1 & D1).
      repeat split; try assumption; try apply W1.
      rewrite D1. unfold open_depth, with_stack. cbn [discard stack inOpen]. rewrite Es. cbn [List.length]. lia.
Qed.

Lemma known_kind_not_root k : known_kind k = true -> k <> kR.
Proof. unfold known_kind, kR, kL, kI, kS, kN, kC, kX, kT, kF, kP, kB, kQ. intros H ->. cbn in H. discriminate. Qed.

Lemma do_open_child_kind top ot k p : do_open top ot = OChild k p -> k <> kR.
Proof.
  unfold do_open. destruct ot as [|head more]; [discriminate|]. destruct head as [|k0 digits]; [discriminate|].
  destruct (k0 =? k2).
  - destruct more; [discriminate|]. destruct (f_kind top =? kI); [discriminate|]. intros E; inversion E; subst. unfold kL, kR; lia.
  - destruct (negb (known_kind k0) || negb (forallb is_digit digits)) eqn:EK; [discriminate|].
    destruct (f_kind top =? kI); [discriminate|]. intros E; inversion E; subst.
    apply orb_false_iff in EK as [EK _]. apply negb_false_iff in EK. apply known_kind_not_root; exact EK.
Qed.

Lemma handle_open_depth c v c' es : wfc c -> inOpen c = true -> handle_open c v = Ok' c' es ->
  wfc c' /\ rootmode c' = rootmode c /\ vocab c' = vocab c /\ open_depth c' = open_depth c.
Proof.
  intros W IO E. unfold handle_open in E. cbv zeta in E. destruct v as [z|b|b|k items]; try discriminate.
  destruct (negb (ascii_only b)); [discriminate|].
  destruct (stack c) as [|top rest] eqn:Es; [discriminate|].
  destruct (do_open top (opentype c ++ [b])) as [| |k p] eqn:ED.
  - inversion E; subst. unfold wfc, open_depth, with_opentype in *. cbn [discard stack inOpen rootmode vocab]. auto.
  - remember (with_inOpen (with_opentype c (opentype c ++ [b])) false) as c1 eqn:Ec1.
    destruct (handle_violation c1 true false) as [c2 es2|] eqn:EV; [|discriminate]. inversion E; subst c' es.
    assert (W1 : wfc c1) by (subst c1; exact W).
    destruct (handle_violation_depth _ _ _ _ _ W1 EV) as (W2 & I2 & M2 & V2 & D2).
    split; [exact W2|]. split; [rewrite M2; subst c1; reflexivity|]. split; [rewrite V2; subst c1; reflexivity|]. rewrite D2.
    subst c1. unfold open_depth, with_inOpen, with_opentype. cbn [discard stack inOpen]. rewrite IO. lia.
  - pose proof (do_open_child_kind _ _ _ _ ED) as HK.
    remember {| f_kind := k; f_param := p; f_open := Some (inbOpen c); f_items := [] |} as child eqn:Ech.
    remember (with_stack (with_inOpen (with_opentype c (opentype c ++ [b])) false) (discard c) (child :: top :: rest)) as c2 eqn:Ec2.
    assert (HKc : f_kind child <> kR) by (subst child; exact HK).
    assert (W2 : wfc c2).
    { destruct W as (Hd & Hr). subst c2. split; [exact Hd|]. unfold with_stack. cbn [stack]. rewrite Es in Hr.
      apply root_push; [exact Hr|exact HKc]. }
    assert (D2 : open_depth c2 = open_depth c /\ rootmode c2 = rootmode c /\ vocab c2 = vocab c).
    { subst c2. unfold open_depth, with_stack, with_inOpen, with_opentype. cbn [discard stack inOpen rootmode vocab List.length].
      rewrite Es, IO. cbn [List.length]. repeat split. lia. }
    destruct D2 as (D2 & M2 & V2).
    destruct (k =? kT).
    + destruct (handle_violation c2 false false) as [c3 es3|] eqn:EV; [|discriminate]. inversion E; subst c' es.
      destruct (handle_violation_depth _ _ _ _ _ W2 EV) as (W3 & I3 & M3 & V3 & D3).
      split; [exact W3|]. split; [congruence|]. split; [congruence|]. rewrite D3, D2. lia.
    + inversion E; subst c' es. split; [exact W2|]. split; [exact M2|]. split; [exact V2|exact D2].
Qed.

Lemma deliver_depth c v c' es : wfc c -> deliver c v = Ok' c' es ->
  wfc c' /\ rootmode c' = rootmode c /\ vocab c' = vocab c /\ open_depth c' = open_depth c.
Proof.
  intros W E. unfold deliver in E. destruct (inOpen c) eqn:IO.
  - apply (handle_open_depth c v c' es W IO E).
  - destruct (handle_token_depth _ _ _ _ W E) as (W1 & _ & M1 & V1 & D1). auto.
Qed.

Lemma begin_body_reject_depth c ty hdr c' es : wfc c -> begin_body c ty hdr = BReject c' es ->
  wfc c' /\ rootmode c' = rootmode c /\ vocab c' = vocab c /\ open_depth c' = open_depth c.
Proof.
  intros W E. unfold begin_body in E. destruct (0 <? discard c); [inversion E; subst; auto|].
  destruct (taste c ty hdr); try discriminate.
  destruct (handle_violation c (inOpen c) false) as [c1 es1|] eqn:EV; [|discriminate]. inversion E; subst.
  destruct (handle_violation_depth _ _ _ _ _ W EV) as (W1 & I1 & M1 & V1 & D1).
  split; [exact W1|]. split; [exact M1|]. split; [exact V1|].
  unfold open_depth, with_inOpen in *. cbn [discard stack inOpen]. rewrite I1 in D1. destruct (inOpen c); lia.
Qed.

Ltac tyc := unfold tok_OPEN, tok_CLOSE, tok_ABORT, tok_INT, tok_NEG, tok_VOCAB, tok_PING, tok_PONG, tok_STRING,
                   tok_LONGINT, tok_LONGNEG, tok_FLOAT, tok_ERROR in *.

Lemma step_nobody_depth c ty hdr c' es : wfc c -> step_nobody_hr c ty hdr = Ok' c' es ->
  wfc c' /\ rootmode c' = rootmode c /\ vocab c' = vocab c /\ open_depth c' = open_depth c + tok_delta ty.
Proof.
  intros W E. unfold step_nobody_hr in E.
  destruct ((ty =? tok_OPEN) && inOpen c) eqn:EOF_; [discriminate|].
  set (c1 := if ty =? tok_OPEN then _ else c) in E.
  assert (W1 : wfc c1) by (unfold c1; destruct (ty =? tok_OPEN); exact W).
  assert (M1 : rootmode c1 = rootmode c /\ vocab c1 = vocab c) by (unfold c1; destruct (ty =? tok_OPEN); auto).
  assert (D1 : open_depth c1 = open_depth c + (if ty =? tok_OPEN then 1 else 0) /\ (ty =? tok_OPEN = true -> inOpen c1 = true)
               /\ (ty =? tok_OPEN = false -> inOpen c1 = inOpen c)).
  { unfold c1. destruct (ty =? tok_OPEN) eqn:EO.
    - cbn [andb] in EOF_. unfold open_depth. cbn [discard stack inOpen]. rewrite EOF_. repeat split; auto; lia.
    - repeat split; auto; try lia; try discriminate. }
  destruct D1 as (D1 & IO1 & IO1').
  (* the taste *)
  match type of E with context [match ?T with Some _ => _ | None => _ end] => destruct T as [[[c2 es2] rej]|] eqn:ET end; [|discriminate].
  assert (T2 : wfc c2 /\ rootmode c2 = rootmode c /\ vocab c2 = vocab c /\ open_depth c2 = open_depth c1 /\
               (rej = false -> c2 = c1) /\ (0 < discard c -> c2 = c1 /\ rej = true) /\
               (rej = true -> discard c <= 0 -> inOpen c2 = false)).
  { destruct M1 as (M1 & V1).
    destruct ((0 <? discard c) || ((ty =? tok_PING) || (ty =? tok_PONG) || (ty =? tok_ABORT) || (ty =? tok_CLOSE))) eqn:EX.
    - inversion ET; subst c2 es2 rej.
      split; [exact W1|]. split; [exact M1|]. split; [exact V1|]. split; [reflexivity|]. split; [reflexivity|].
      split.
      + intros Hd. split; [reflexivity|]. apply Z.ltb_lt. exact Hd.
      + intros Hr Hd. apply Z.ltb_lt in Hr. lia.
    - apply orb_false_iff in EX as [EX1 EX2]. apply Z.ltb_ge in EX1.
      match type of ET with context [match ?K with CkOk => _ | CkViol => _ | CkBanana => _ end] => destruct K end; try discriminate.
      + inversion ET; subst c2 es2 rej.
        split; [exact W1|]. split; [exact M1|]. split; [exact V1|]. split; [reflexivity|]. split; [reflexivity|].
        split; [intros Hd; lia|intros Hr; discriminate].
      + destruct (handle_violation c1 (inOpen c1) false) as [c3 es3|] eqn:EV; [|discriminate]. inversion ET; subst c2 es2 rej.
        destruct (handle_violation_depth _ _ _ _ _ W1 EV) as (W3 & I3 & M3 & V3 & D3).
        split; [exact W3|]. split; [unfold with_inOpen; cbn [rootmode]; congruence|]. split; [unfold with_inOpen; cbn [vocab]; congruence|].
        split; [unfold open_depth, with_inOpen in *; cbn [discard stack inOpen]; rewrite I3 in D3; destruct (inOpen c1); lia|].
        split; [discriminate|]. split; [intros Hd; lia|intros _ _; reflexivity]. }
  destruct T2 as (W2 & M2 & V2 & D2 & Hacc & Hdis & Hrej).
  unfold tok_delta.
  destruct (ty =? tok_OPEN) eqn:EO.
  { (* OPEN *)
    assert (IOc : inOpen c = false) by (cbn [andb] in EOF_; exact EOF_).
    assert (EC : ty =? tok_CLOSE = false) by (apply Z.eqb_eq in EO; subst; reflexivity). 
    destruct rej.
    - match type of E with context [if inOpen ?X then _ else _] => destruct (inOpen X) eqn:IO3 end; inversion E; subst.
      + unfold wfc, open_depth, with_inOpen, with_stack in *. cbn [discard stack inOpen rootmode vocab] in *.
        destruct W2 as (Hd2 & Hr2). split; [split; [lia|exact Hr2]|]. split; [exact M2|]. split; [exact V2|].
        rewrite IO3 in D2. lia.
      + cbn [inOpen] in IO3. destruct (Z.ltb_spec 0 (discard c)) as [Hp|Hn].
        * destruct (Hdis Hp) as [-> _]. rewrite (IO1 eq_refl) in IO3. discriminate.
        * unfold wfc, open_depth in *. cbn [discard stack inOpen rootmode vocab] in *.
          split; [exact W2|]. split; [exact M2|]. split; [exact V2|].
          (* rejected by the taster: the violation handler already counted this OPEN *)
          assert (H1 : inOpen c1 = true) by (apply IO1; reflexivity).
          rewrite D2. exact D1.
    - rewrite (Hacc eq_refl) in *. inversion E; subst.
      unfold wfc, open_depth, with_opentype, with_inOpen in *. cbn [discard stack inOpen rootmode vocab] in *.
      split; [exact W1|]. split; [apply M1|]. split; [apply M1|]. rewrite (IO1 eq_refl) in D1. rewrite IOc in *. lia. }
  rewrite (IO1' eq_refl) in *.
  assert (cont_ok : forall r c3 es3, (match r with Ok' c'0 es' => Ok' c'0 (es2 ++ es') | Fatal' es' => Fatal' (es2 ++ es') end) = Ok' c3 es3 ->
                    exists es4, r = Ok' c3 es4) by (intros r c3 es3 Hr; destruct r; inversion Hr; subst; eauto).
  destruct (ty =? tok_CLOSE) eqn:EC.
  { destruct (inOpen c2 && (discard c2 =? 0)); [discriminate|]. destruct (Z.ltb_spec 0 (discard c2)) as [Hp|Hn].
    - inversion E; subst. unfold wfc, open_depth, with_stack in *. cbn [discard stack inOpen rootmode vocab] in *.
      destruct W2 as (Hd2 & Hr2). split; [split; [lia|exact Hr2]|]. split; [exact M2|]. split; [exact V2|]. lia.
    - apply cont_ok in E as (es4 & E). destruct (handle_close_depth _ _ _ _ W2 E) as (W3 & I3 & M3 & V3 & D3).
      split; [exact W3|]. split; [congruence|]. split; [congruence|]. lia. }
  assert (same : forall c3 es3, Ok' c2 es2 = Ok' c3 es3 -> wfc c3 /\ rootmode c3 = rootmode c /\ vocab c3 = vocab c /\ open_depth c3 = open_depth c + 0).
  { intros c3 es3 H. inversion H; subst. split; [exact W2|]. split; [exact M2|]. split; [exact V2|]. lia. }
  assert (deliv : forall v c3 es3, (match deliver c2 v with Ok' c'0 es' => Ok' c'0 (es2 ++ es') | Fatal' es' => Fatal' (es2 ++ es') end) = Ok' c3 es3 ->
                   wfc c3 /\ rootmode c3 = rootmode c /\ vocab c3 = vocab c /\ open_depth c3 = open_depth c + 0).
  { intros v c3 es3 H. apply cont_ok in H as (es4 & H). destruct (deliver_depth _ _ _ _ W2 H) as (W3 & M3 & V3 & D3).
    split; [exact W3|]. split; [congruence|]. split; [congruence|]. lia. }
  destruct (ty =? tok_ABORT).
  { destruct rej; [apply (same _ _ E)|]. apply cont_ok in E as (es4 & E).
    destruct (handle_violation c2 (inOpen c2) false) as [c3 es3|] eqn:EV; [|discriminate]. inversion E; subst.
    destruct (handle_violation_depth _ _ _ _ _ W2 EV) as (W3 & I3 & M3 & V3 & D3).
    split; [exact W3|]. split; [unfold with_inOpen; cbn [rootmode]; congruence|]. split; [unfold with_inOpen; cbn [vocab]; congruence|].
    unfold open_depth, with_inOpen in *. cbn [discard stack inOpen]. rewrite I3 in D3. destruct (inOpen c2); lia. }
  destruct (ty =? tok_INT). { destruct rej; [apply (same _ _ E)|apply (deliv _ _ _ E)]. }
  destruct (ty =? tok_NEG). { destruct rej; [apply (same _ _ E)|apply (deliv _ _ _ E)]. }
  destruct (ty =? tok_VOCAB).
  { destruct (vocab_get (vocab c2) hdr); [|discriminate]. destruct rej; [apply (same _ _ E)|apply (deliv _ _ _ E)]. }
  destruct (ty =? tok_PING). { inversion E; subst. split; [exact W2|]. split; [exact M2|]. split; [exact V2|]. lia. }
  destruct (ty =? tok_PONG). { apply (same _ _ E). }
  discriminate.
Qed.

Lemma has_body_delta ty : has_body ty = true -> tok_delta ty = 0.
Proof.
  unfold has_body, tok_delta. tyc. intros H.
  destruct (Z.eqb_spec ty 136) as [->|_]; [cbn in H; discriminate|].
  destruct (Z.eqb_spec ty 137) as [->|_]; [cbn in H; discriminate|]. reflexivity.
Qed.

(* every complete token moves the receiver's depth exactly as it moves the stream's nesting depth *)
Theorem tok_apply_depth c ty hdr body c' es : wfc c -> tok_apply c ty hdr body = Ok' c' es ->
  wfc c' /\ rootmode c' = rootmode c /\ vocab c' = vocab c /\ open_depth c' = open_depth c + tok_delta ty.
Proof.
  intros W E. unfold tok_apply in E. destruct (has_body ty) eqn:HB.
  - rewrite (has_body_delta ty HB), Z.add_0_r.
    destruct (begin_body c ty hdr) as [|c1 es1|es1] eqn:EB; [| |discriminate].
    + apply (deliver_depth _ _ _ _ W E).
    + inversion E; subst. apply (begin_body_reject_depth _ _ _ _ _ W EB).
  - apply (step_nobody_depth _ _ _ _ _ W E).
Qed.

Fixpoint delta_sum (ts : list (Z * Z * list Z)) : Z :=
  match ts with [] => 0 | (ty, _, _) :: r => tok_delta ty + delta_sum r end.

Theorem apply_all_depth ts : forall c c' es, wfc c -> apply_all c ts = Ok' c' es ->
  wfc c' /\ rootmode c' = rootmode c /\ vocab c' = vocab c /\ open_depth c' = open_depth c + delta_sum ts.
Proof.
  induction ts as [|[[ty hdr] body] ts IH]; intros c c' es W E; cbn [apply_all delta_sum] in *.
  - inversion E; subst. repeat split; try apply W; lia.
  - destruct (tok_apply c ty hdr body) as [c1 es1|] eqn:E1; [|discriminate].
    destruct (apply_all c1 ts) as [c2 es2|] eqn:E2; [|discriminate]. inversion E; subst.
    destruct (tok_apply_depth _ _ _ _ _ _ W E1) as (W1 & M1 & V1 & D1).
    destruct (IH _ _ _ W1 E2) as (W2 & M2 & V2 & D2).
    split; [exact W2|]. split; [congruence|]. split; [congruence|]. lia.
Qed.

Lemma ctx0_wf m v : wfc (ctx0 m v).
Proof. split; [cbn; lia|]. exists []. split; [reflexivity|constructor]. Qed.

Lemma at_top_depth c : at_top c -> open_depth c = 0.
Proof. intros (D & I & S). unfold open_depth. rewrite D, I, S. reflexivity. Qed.

Lemma depth_zero_top c : wfc c -> open_depth c = 0 -> at_top c.
Proof.
  intros (Hd & Hr) D. unfold open_depth in D. pose proof (root_nonempty _ Hr) as L.
  destruct (inOpen c) eqn:I.
  - lia.
  - assert (discard c = 0) by lia. assert (HL : List.length (stack c) = 1%nat) by lia.
    split; [assumption|]. split; [exact I|].
    destruct Hr as (pre & E & _). rewrite E in HL |- *. rewrite app_length in HL. cbn in HL.
    destruct pre; [reflexivity|cbn in HL; lia].
Qed.

(* RESYNCHRONISATION.  Whatever happens inside a top-level object -- violations at any depth,
   absorbed or propagated, ABORTs, rejected or skipped tokens -- as long as the connection is not
   abandoned, after a token sequence whose OPENs and CLOSEs balance the receiver is back at top
   level: nothing is being discarded, no unslicer is left on the stack, no index phase is pending.
   The following object is therefore decoded exactly as after a violation-free object. *)
Theorem resync c ts c' es : at_top c -> wfc c -> delta_sum ts = 0 -> apply_all c ts = Ok' c' es -> at_top c'.
Proof.
  intros T W B E. destruct (apply_all_depth ts c c' es W E) as (W' & _ & _ & D).
  apply depth_zero_top; [exact W'|]. rewrite D, (at_top_depth c T), B. reflexivity.
Qed.

(* ... and the depth never goes negative: a prefix of tokens cannot close more than was opened
   without the connection being abandoned *)
Theorem depth_nonneg c ts c' es : wfc c -> apply_all c ts = Ok' c' es -> 0 <= open_depth c + delta_sum ts.
Proof.
  intros W E. destruct (apply_all_depth ts c c' es W E) as ((Hd & Hr) & _ & _ & D).
  rewrite <- D. unfold open_depth. pose proof (root_nonempty _ Hr). destruct (inOpen c'); lia.
Qed.

(* PING is transparent and answered by exactly one PONG with the same number, in every context *)
Theorem ping_transparent c n : exists c', tok_apply c tok_PING n [] = Ok' c' [EPong n] \/
                                           (exists es, tok_apply c tok_PING n [] = Fatal' es).
Proof.
  unfold tok_apply. change (has_body tok_PING) with false. cbv iota.
  unfold step_nobody_hr. change (tok_PING =? tok_OPEN) with false. cbn [andb].
  change (tok_PING =? tok_PING) with true. cbn [orb]. rewrite !orb_true_r. cbn [orb].
  change (tok_PING =? tok_CLOSE) with false. change (tok_PING =? tok_ABORT) with false.
  change (tok_PING =? tok_INT) with false. change (tok_PING =? tok_NEG) with false. change (tok_PING =? tok_VOCAB) with false.
  cbv iota. eexists. left. reflexivity.
Qed.

(* ---- byte level and token level agree: once a token is complete in the buffer, the tokenizer
   applies exactly tok_apply to it and continues with the remaining bytes ---- *)
Notation btok_step := (tok_step bctx event begin_body finish_body step_nobody (fatal 0) (fatal 0) (fun _ => [ELose])).

Theorem tok_step_complete c b ds ty rest :
  scan_header 64 [] b = HOk ds ty rest -> ty <> tok_ERROR ->
  (has_body ty = true -> blen ty (le128 ds) <= lenZ rest) ->
  let n := if has_body ty then blen ty (le128 ds) else 0 in
  btok_step c b =
  match tok_apply c ty (le128 ds) (firstn (Z.to_nat n) rest) with
  | Ok' c' es => TCont bctx event c' es (skipn (Z.to_nat n) rest)
  | Fatal' es => TDead bctx event es
  end.
Proof.
  intros S NE HB. unfold Recv.tok_step. rewrite S.
  destruct (Z.eqb_spec ty tok_ERROR); [contradiction|].
  unfold tok_apply. destruct (has_body ty) eqn:Hb.
  - specialize (HB eq_refl). destruct (begin_body c ty (le128 ds)) as [|c1 es1|es1]; [| |reflexivity].
    + destruct (Z.ltb_spec (lenZ rest) (blen ty (le128 ds))); [lia|].
      unfold finish_body, to_generic. destruct (deliver c (body_val ty _)); reflexivity.
    + destruct (Z.ltb_spec (lenZ rest) (blen ty (le128 ds))); [lia|]. reflexivity.
  - cbn [Z.to_nat firstn skipn]. unfold step_nobody, to_generic. destruct (step_nobody_hr c ty (le128 ds)); reflexivity.
Qed.
