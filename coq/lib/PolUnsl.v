(* The policy unslicers of harness/c07_impl.py (one-letter kinds chosen by the opentype; accept / Violation / BananaError at
   every callback) as an unslicer semantics for the generic receive logic lib/Unsl.v.  The same real traces that validate
   lib/BananaRecv.v are replayed against this instance, so every branch of lib/Unsl.v is compared with banana.py.
   Kind 'Y' (absorbs violations AND raises one in receiveClose) exists only here and in the refutation witness. *)
From Coq Require Import ZArith List Bool Lia.
Import ListNotations.
Require Import Verif.lib.PyLite Verif.gen.BananaGen Verif.gen.RecvGen Verif.lib.Token Verif.lib.Recv Verif.lib.BananaRecv Verif.lib.Unsl.
Local Open Scope Z_scope.

Definition kY := 89.

Record pfr := { p_kind : Z; p_param : Z; p_mode : Z; p_items : list uval (* newest first *) }.

Definition proot (mode : Z) : pfr := {| p_kind := kR; p_param := 0; p_mode := mode; p_items := [] |}.

Definition of_ck (c : ck) : oc unit := match c with CkOk => OOk tt | CkViol => OViol | CkBanana => OBanana end.

(* PU.checkToken / PolicyRoot.checkToken: the same decision table as lib/BananaRecv.check_frame *)
Definition pol_check (f : pfr) (ty size : Z) : oc unit :=
  of_ck (check_frame (p_mode f) {| f_kind := p_kind f; f_param := p_param f; f_open := None;
                                  f_items := map (fun _ => VInt 0) (p_items f) |} ty size).

Definition pol_opener (st : list pfr) (ty size : Z) (ot : list (list Z)) : oc unit := of_ck (opener_check ty size).

Definition pol_known (k : Z) : bool := known_kind k || (k =? kY).

Definition pol_do_open (st : list pfr) (ot : list (list Z)) : oc (option pfr) :=
  match st, ot with
  | top :: _, head :: more =>
    match head with
    | [] => OViol
    | k :: digits =>
      let mk (k p : Z) := OOk (Some {| p_kind := k; p_param := p; p_mode := 0; p_items := [] |}) in
      if k =? k2 then (match more with [] => OOk None | _ => if p_kind top =? kI then OViol else mk kL 0 end)
      else if negb (pol_known k) || negb (forallb is_digit digits) then OViol
      else if p_kind top =? kI then OViol
      else mk k (dec_val digits 0)
    end
  | _, _ => OViol
  end.

Definition pol_start (f : pfr) (cnt : Z) : oc pfr := if p_kind f =? kT then OViol else OOk f.

Definition pol_child (f : pfr) (v : uval) : list uevent * oc pfr :=
  if p_kind f =? kR then ([UDeliver v], OOk f)
  else if (p_kind f =? kC) && (Z.of_nat (List.length (p_items f)) =? p_param f) then ([], OViol)
  else ([], OOk {| p_kind := p_kind f; p_param := p_param f; p_mode := p_mode f; p_items := v :: p_items f |}).

Definition pol_close (f : pfr) : oc uval :=
  if (p_kind f =? kX) || (p_kind f =? kY) then OViol else OOk (UNode (p_kind f) [] (rev (p_items f))).

Definition pol_finish (f : pfr) : oc unit := if p_kind f =? kF then OViol else OOk tt.

Definition pol_report (f : pfr) : option (list uevent) :=
  if p_kind f =? kR then Some [UViolation] else if (p_kind f =? kP) || (p_kind f =? kY) then Some [] else None.

Definition pfeed := ufeed pfr pol_check pol_opener pol_do_open pol_start pol_child pol_close pol_finish pol_report.
Definition papply_all := uapply_all pfr pol_check pol_opener pol_do_open pol_start pol_child pol_close pol_finish pol_report.
Definition pctx0 (mode : Z) (voc : list (Z * list Z)) : uctx pfr := uctx0 pfr (proot mode) voc.

Fixpoint ptrace (s : rstate (uctx pfr)) (cs : list (list Z)) : list (list Z) * list (list Z) :=
  match cs with
  | [] => ([], [])
  | c :: r => let '(s1, e1) := pfeed s c in
              let '(es, snaps) := ptrace s1 r in (map uevent_code e1 ++ es, usnapshot pfr s1 :: snaps)
  end.
