(* The standard unslicers (lib/StdUnsl.v) satisfy the hypotheses of the generic theorems of lib/UnslProofs.v, and the
   schema's bound sbound -- computed from the taster tables of the constraint tree -- bounds the bytes held. *)
From Coq Require Import ZArith List Bool Lia.
Import ListNotations.
Require Import Verif.lib.PyLite Verif.gen.BananaGen Verif.gen.RecvGen Verif.lib.Token Verif.lib.Recv Verif.lib.RecvProofs
               Verif.lib.Unsl Verif.lib.UnslProofs Verif.lib.UnslOnce Verif.lib.UnslAbandon Verif.lib.StdUnsl.
Local Open Scope Z_scope.

(* ---- the hypotheses of the generic theorems ---- *)
Lemma std_child_kind f v es f' : std_child f v = (es, OOk f') -> s_ch f' = s_ch f.
Proof.
  unfold std_child. destruct (s_ch f) eqn:K; intros H;
    repeat match type of H with
           | (if ?b then _ else _) = _ => destruct b
           | (match ?x with _ => _ end) = _ => destruct x
           end; inversion H; subst; try reflexivity; try exact K; cbn [push setn s_ch]; try exact K;
    match goal with HK : key_error ?v = OOk _ |- _ => unfold key_error in HK; destruct v as [| | |t0 d0 it0]; try discriminate; destruct t0 as [|[|[|p|]|]|]; try discriminate; destruct (_ =? _)%nat; discriminate end.
Qed.

Lemma std_absorbs_iff f : absorbs sfr std_report f <-> exists c, s_ch f = HRoot c.
Proof.
  unfold absorbs, std_report. destruct (s_ch f) eqn:K; split; intros H;
    try (destruct H as [c0 H]; discriminate); try (exfalso; apply H; reflexivity); try discriminate; eauto.
Qed.

Lemma std_child_keeps_absorbing : forall f v es f', std_child f v = (es, OOk f') -> absorbs sfr std_report f -> absorbs sfr std_report f'.
Proof. intros f v es f' H A. apply std_absorbs_iff in A as [c A]. apply std_absorbs_iff. exists c. rewrite (std_child_kind _ _ _ _ H). exact A. Qed.

Lemma std_closing_violation_propagates : forall f,
  (std_close f = OViol \/ (exists v, std_close f = OOk v /\ std_finish f = OViol)) -> std_report f = None.
Proof.
  intros f [H|(v & _ & H)]; [|discriminate]. exfalso. unfold std_close in H.
  destruct (s_ch f); try discriminate; repeat match type of H with
    | (if ?b then _ else _) = _ => destruct b | (match ?x with _ => _ end) = _ => destruct x end; discriminate.
Qed.

Lemma std_child_events_clean : forall f v, no_escape (fst (std_child f v)).
Proof.
  intros f v. unfold std_child. destruct (s_ch f);
    repeat match goal with
           | |- context [if ?b then _ else _] => destruct b
           | |- context [match ?x with _ => _ end] => destruct x
           end; reflexivity.
Qed.

Lemma std_report_events_clean : forall f es, std_report f = Some es -> no_escape es.
Proof. intros f es. unfold std_report. destruct (s_ch f); intros H; inversion H; reflexivity. Qed.

Lemma std_finish_total : forall f, std_finish f = OOk tt \/ std_finish f = OViol.
Proof. intros; left; reflexivity. Qed.

Lemma sroot_absorbs c : absorbs sfr std_report (sroot c).
Proof. apply std_absorbs_iff. exists c. reflexivity. Qed.

(* ---- bounds ---- *)
Lemma ole_omax a b B : ole (omax a b) B -> ole a B /\ ole b B.
Proof. destruct a, b; cbn; try tauto. lia. Qed.

Lemma ole_omax_list l : forall x B, In x l -> ole (omax_list l) B -> ole x B.
Proof.
  induction l as [|y l IH]; intros x B HI O; [destruct HI|]. cbn [omax_list fold_right] in O. apply ole_omax in O as [O1 O2].
  destruct HI as [<-|HI]; [exact O1|]. apply (IH x B HI O2).
Qed.

Lemma usized_cases ty : usized ty = true -> ty = tok_STRING \/ ty = tok_LONGINT \/ ty = tok_LONGNEG.
Proof.
  unfold usized. intros H. apply orb_true_iff in H as [H|H]; [apply orb_true_iff in H as [H|H]|]; apply Z.eqb_eq in H; auto.
Qed.

Lemma base_taste_bound t ty size B : usized ty = true -> ole (taster_bound t) B -> base_taste t ty size = OOk tt -> size <= B.
Proof.
  intros S O H. unfold taster_bound in O. apply ole_omax in O as [O1 O]. apply ole_omax in O as [O2 O3].
  assert (L : ole (lim_of (t_taster t) ty) B) by (destruct (usized_cases ty S) as [->|[->| ->]]; assumption).
  unfold base_taste in H. unfold lim_of in L. destruct (tassoc ty (t_taster t)) as [[l|]|].
  - destruct (Z.gtb_spec size l); [discriminate|]. cbn in L. lia.
  - contradiction.
  - destruct (negb (known_tok ty)); [discriminate|]. destruct (t_strict t); discriminate.
Qed.

Lemma cbound_taster t B : ole (cbound t) B -> ole (taster_bound t) B /\ tclosed t = true.
Proof. unfold cbound. destruct (tclosed t); [auto|contradiction]. Qed.

Lemma staste_bound_in : forall c inner ty size B, usized ty = true -> ole (sbound_in inner c) B -> staste c ty size = OOk tt -> size <= B.
Proof.
  fix IH 1. intros c inner ty size B S O H. destruct c as [t|t|t mx|t v|t ic mx|t cs|t k v mk|t ic mx|alts]; cbn [staste sbound_in] in *.
  - contradiction.
  - apply cbound_taster in O as [O _]. apply (base_taste_bound _ _ _ _ S O H).
  - apply ole_omax in O as [O _]. apply cbound_taster in O as [O _]. apply (base_taste_bound _ _ _ _ S O H).
  - apply cbound_taster in O as [O _]. apply (base_taste_bound _ _ _ _ S O H).
  - apply ole_omax in O as [O _]. apply cbound_taster in O as [O _]. apply (base_taste_bound _ _ _ _ S O H).
  - apply ole_omax in O as [O _]. apply cbound_taster in O as [O _]. apply (base_taste_bound _ _ _ _ S O H).
  - apply ole_omax in O as [O _]. apply cbound_taster in O as [O _]. apply (base_taste_bound _ _ _ _ S O H).
  - apply ole_omax in O as [O _]. apply cbound_taster in O as [O _]. apply (base_taste_bound _ _ _ _ S O H).
  - destruct inner; [contradiction|].
    destruct (negb (known_tok ty)); [discriminate|].
    destruct (existsb (fun a => oc_ok (staste a ty size)) alts) eqn:E; [|discriminate]. clear H.
    induction alts as [|a alts IHa]; [discriminate|]. cbn [existsb] in E. cbn [map omax_list fold_right] in O.
    apply ole_omax in O as [Oa Or]. apply orb_true_iff in E as [E|E].
    + destruct (staste a ty size) as [[]| | |] eqn:Ea; try discriminate. apply (IH a true ty size B S Oa Ea).
    + apply (IHa Or E).
Qed.

Lemma staste_bound : forall c ty size B, usized ty = true -> ole (sbound c) B -> staste c ty size = OOk tt -> size <= B.
Proof. intros c. apply (staste_bound_in c false). Qed.

Lemma otaste_bound c ty size B : usized ty = true -> ole (obound c) B -> otaste c ty size = OOk tt -> size <= B.
Proof. destruct c; cbn; [apply staste_bound|contradiction]. Qed.

Lemma oitaste_bound c ty size B : usized ty = true -> ole (oibound c) B -> otaste c ty size = OOk tt -> size <= B.
Proof. destruct c; cbn; [apply (staste_bound_in s true)|contradiction]. Qed.

(* the constraint a container applies to its next token is bounded by the container's own bound *)
Definition is_cont (h : sch) : bool :=
  match h with HList _ _ | HTuple _ | HDict _ _ | HSet _ _ | HFset _ _ => true | _ => false end.

Lemma slot_bound f c B : is_cont (s_ch f) = true -> slot f = Some c -> ole (fbound (s_ch f)) B -> ole (oibound c) B.
Proof.
  unfold slot. destruct (s_ch f) as [rc|ic mx|ocs|okv mk|ic mx|ic mx|mx|v| |]; cbn [fbound is_cont]; intros C H O; try discriminate.
  - destruct (full _ _); [discriminate|]. inversion H; subst. exact O.
  - destruct ocs as [cs|]; [|contradiction].
    destruct (nth_error cs (List.length (s_items f))) as [c0|] eqn:N; [|discriminate]. inversion H; subst. cbn [oibound].
    apply (ole_omax_list (map ibound cs)); [apply in_map; apply (nth_error_In _ _ N)|exact O].
  - destruct (full _ _); [discriminate|]. destruct okv as [[k v]|]; [|contradiction]. inversion H; subst. cbn [oibound].
    apply ole_omax in O as [Ok Ov]. destruct (Z.even _); assumption.
  - destruct (full _ _); [discriminate|]. inversion H; subst. exact O.
  - destruct (full _ _); [discriminate|]. inversion H; subst. exact O.
Qed.

Definition SP (B : Z) (f : sfr) : Prop := ole (fbound (s_ch f)) B.

Lemma std_P_check B f ty size : SP B f -> usized ty = true -> std_check f ty size = OOk tt -> size <= B.
Proof.
  unfold SP, std_check. intros O S H.
  destruct (s_ch f) as [rc|ic mx|cs|kv mk|ic mx|ic mx|mx|v| |] eqn:K;
    try (destruct (slot f) as [c|] eqn:SL; [|discriminate]; rewrite <- K in O; apply (oitaste_bound c ty size B S (slot_bound f c B ltac:(rewrite K; reflexivity) SL O) H)).
  - apply (otaste_bound rc ty size B S O H).
  - destruct (usized_cases ty S) as [->|[->| ->]]; try (cbn in H; discriminate).
    change (negb ((tok_STRING =? tok_STRING) || (tok_STRING =? tok_VOCAB))) with false in H. cbv iota in H.
    destruct mx as [[m|]|]; cbn [fbound] in O; try contradiction. unfold ole in O.
    change (tok_STRING =? tok_STRING) with true in H. cbn [andb] in H. destruct (Z.gtb_spec size (6 * m)); [discriminate|]. lia.
  - destruct (usized_cases ty S) as [->|[->| ->]]; cbn in H; discriminate.
  - discriminate.
  - destruct (usized_cases ty S) as [->|[->| ->]]; cbn in H; discriminate.
Qed.

Lemma std_P_child B : forall f v es f', SP B f -> std_child f v = (es, OOk f') -> SP B f'.
Proof. intros f v es f' O H. unfold SP. rewrite (std_child_kind _ _ _ _ H). exact O. Qed.

Lemma std_P_start B : forall ch n ch', SP B ch -> std_start ch n = OOk ch' -> SP B ch'.
Proof. intros ch n ch' O H. inversion H; subst. exact O. Qed.

Lemma mkchild_bound B k c ch inner : 0 <= B -> ole (match c with None => None | Some c0 => sbound_in inner c0 end) B ->
  mkchild k c = OOk (Some ch) -> SP B ch.
Proof.
  intros HB O H. unfold mkchild in H. cbv zeta in H. unfold SP.
  destruct (k =? oc_none); [inversion H; subst; exact HB|].
  destruct (k =? oc_reference); [inversion H; subst; exact HB|].
  destruct c as [c|]; [|contradiction].
  destruct (k =? oc_decimal); [destruct c; discriminate|].
  destruct ((k =? oc_setvocab) || (k =? oc_addvocab)); [destruct c; discriminate|].
  destruct c as [t|t|t mx|t v|t ic mx|t cs|t kk v mk|t ic mx|alts]; cbn [sbound_in] in O; try contradiction;
    repeat match type of H with (if ?b then _ else _) = _ => destruct b end; try discriminate;
    inversion H; subst; cbn [mkf s_ch fbound oibound ibound]; try (apply ole_omax in O as [_ O]; exact O).
  exact HB.
Qed.

Lemma std_P_open B : 0 <= B -> forall st ot ch, Forall (SP B) st -> std_do_open st ot = OOk (Some ch) -> SP B ch.
Proof.
  intros HB st ot ch F H. unfold std_do_open in H. destruct st as [|top rest]; [discriminate|].
  destruct ot as [|name [|? ?]]; try discriminate. inversion F as [|? ? PT _]; subst. unfold SP in PT.
  destruct (s_ch top) as [rc|ic mx|cs|kv mk|ic mx|ic mx|mx|v| |] eqn:K; try discriminate;
    try (destruct (slot top) as [c|] eqn:SL; [|discriminate]; rewrite <- K in PT; pose proof (slot_bound top c B ltac:(rewrite K; reflexivity) SL PT) as OC;
         destruct (negb _); [discriminate|]; destruct (otcode name) as [k|]; [|discriminate];
         destruct (k =? oc_copyable); [discriminate|]; destruct ((k =? oc_setvocab) || (k =? oc_addvocab)); [discriminate|];
         apply (mkchild_bound B k c ch true HB OC H)).
  destruct (negb _); [discriminate|]. destruct (otcode name) as [k|]; [|discriminate].
  destruct (k =? oc_copyable); [discriminate|]. apply (mkchild_bound B k rc ch false HB PT H).
Qed.

(* ---- under a finite bound, OPEN never reaches an unslicer outside the model ---- *)
Lemma tclosed_rejects t k : tclosed t = true -> (k = oc_copyable \/ k = oc_decimal \/ k = oc_setvocab \/ k = oc_addvocab) ->
  match t_opens t with None => true | Some l => (k =? oc_reference) || zmem k l end = false.
Proof.
  unfold tclosed. destruct (t_opens t) as [l|]; [|discriminate]. intros H K. apply negb_true_iff in H.
  apply orb_false_iff in H as [H H4]. apply orb_false_iff in H as [H H3]. apply orb_false_iff in H as [H1 H2].
  destruct K as [->|[->|[->| ->]]]; cbn [Z.eqb oc_copyable oc_decimal oc_setvocab oc_addvocab oc_reference Pos.eqb orb]; assumption.
Qed.

Lemma bounded_rejects_unmodelled c inner B k : ole (sbound_in inner c) B -> (inner = true \/ tinfo_of c <> None) ->
  (k = oc_copyable \/ k = oc_decimal \/ k = oc_setvocab \/ k = oc_addvocab) -> scheck_opentype c (Some k) = false.
Proof.
  intros O IN K. unfold scheck_opentype.
  destruct c as [t|t|t mx|t v|t ic mx|t cs|t kk v mk|t ic mx|alts]; cbn [sbound_in tinfo_of] in *; try contradiction;
    try (apply cbound_taster in O as [_ O]; apply (tclosed_rejects _ _ O K));
    try (apply ole_omax in O as [O _]; apply cbound_taster in O as [_ O]; apply (tclosed_rejects _ _ O K)).
  destruct IN as [->|IN]; [contradiction|exfalso; apply IN; reflexivity].
Qed.

Lemma mkchild_abstains k c : mkchild k c = OExc 98 ->
  (k = oc_decimal /\ match c with None => True | Some (SAny _) => True | _ => False end) \/
  ((k = oc_setvocab \/ k = oc_addvocab) /\ match c with None => True | Some (SAny _) => True | Some (SPrim _) => True | _ => False end).
Proof.
  unfold mkchild. cbv zeta. intros H.
  destruct (k =? oc_none); [discriminate|]. destruct (k =? oc_reference); [discriminate|].
  destruct (Z.eqb_spec k oc_decimal) as [->|].
  { left. split; [reflexivity|]. destruct c as [[]|]; try discriminate; exact I. }
  destruct ((k =? oc_setvocab) || (k =? oc_addvocab)) eqn:EV.
  { right. split; [apply orb_true_iff in EV as [EV|EV]; apply Z.eqb_eq in EV; auto|]. destruct c as [[]|]; try discriminate; exact I. }
  exfalso. destruct c as [[]|]; cbn in H;
    repeat match type of H with (if ?b then _ else _) = _ => destruct b end; discriminate.
Qed.

(* THE GUARD OF THE BOUND IS STATIC: when every unslicer on the stack carries a finite bound (the invariant SP of the buffer-bound
   theorem), an OPEN sequence never makes the model abstain -- it is either refused by the opentype check, or refused by the
   registry, or kills the connection in setConstraint, or creates a modelled unslicer.  In particular OPEN copyable / decimal /
   set-vocab / add-vocab are refused wherever the bound is finite. *)
Theorem std_bounded_open_never_abstains B : forall st name, st <> [] -> Forall (SP B) st -> std_do_open st [name] <> OExc 98.
Proof.
  intros st name NE F H. unfold std_do_open in H. destruct st as [|top rest]; [apply NE; reflexivity|].
  inversion F as [|? ? PT _]; subst. unfold SP in PT.
  destruct (s_ch top) as [rc|ic mx|cs|kv mk|ic mx|ic mx|mx|v| |] eqn:K; try discriminate;
    try (destruct (slot top) as [c|] eqn:SL; [|discriminate]; rewrite <- K in PT; pose proof (slot_bound top c B ltac:(rewrite K; reflexivity) SL PT) as OC;
         destruct c as [c0|]; [|contradiction]; cbn [oibound ibound] in OC;
         destruct (scheck_opentype c0 (otcode name)) eqn:SC; cbn [negb] in H; [|discriminate];
         destruct (otcode name) as [k|]; [|discriminate];
         destruct (Z.eqb_spec k oc_copyable) as [->|];
         [rewrite (bounded_rejects_unmodelled c0 true B oc_copyable OC (or_introl eq_refl) (or_introl eq_refl)) in SC; discriminate|];
         destruct ((k =? oc_setvocab) || (k =? oc_addvocab)); [discriminate|];
         apply mkchild_abstains in H as [(-> & Hc)|([-> | ->] & Hc)];
         [destruct c0; try contradiction; cbn in OC; contradiction
         |rewrite (bounded_rejects_unmodelled c0 true B oc_setvocab OC (or_introl eq_refl)) in SC; [discriminate|auto]
         |rewrite (bounded_rejects_unmodelled c0 true B oc_addvocab OC (or_introl eq_refl)) in SC; [discriminate|auto 6]]).
  (* the root *)
  cbn [fbound] in PT. destruct rc as [c0|]; [|contradiction]. cbn [obound] in PT. unfold sbound in PT.
  destruct (scheck_opentype c0 (otcode name)) eqn:SC; cbn [negb] in H; [|discriminate].
  destruct (otcode name) as [k|]; [|discriminate]. destruct (k =? oc_copyable); [discriminate|].
  apply mkchild_abstains in H as [(-> & Hc)|(KV & Hc)].
  - destruct c0; try contradiction; try (cbn in PT; contradiction).
  - destruct c0 as [t|t| | | | | | |]; try contradiction; try (cbn in PT; contradiction).
    assert (KK : k = oc_copyable \/ k = oc_decimal \/ k = oc_setvocab \/ k = oc_addvocab) by (destruct KV; auto).
    assert (TI : false = true \/ tinfo_of (SPrim t) <> None) by (right; cbn; discriminate).
    rewrite (bounded_rejects_unmodelled (SPrim t) false B k PT TI KK) in SC. discriminate.
Qed.

Lemma std_P_opener mi lg : forall st ty size ot, usized ty = true -> std_opener mi lg st ty size ot = OOk tt -> size <= Z.max mi lg.
Proof.
  intros st ty size ot S H. unfold std_opener in H.
  destruct (ty =? tok_STRING).
  - match type of H with (if size >? ?l then _ else _) = _ => destruct (Z.gtb_spec size l); [discriminate|] end.
    destruct ot as [|c [|? ?]]; try lia. destruct (list_eqb c str_copyable); lia.
  - destruct (usized_cases ty S) as [->|[->| ->]]; cbn in H; discriminate.
Qed.

(* C11 for the STANDARD unslicers under a REAL constraint tree: the schema's bound Bs (computed by sbound from the taster
   tables) bounds what is ever held, for all byte sequences and all chunkings *)
Theorem std_buffer_bounded mi lg c Bs cs : sbound c = Some Bs ->
  lenZ (r_buf (fst (sfeed_all mi lg (init (sctx0 (Some c))) cs))) < 65 + Z.max (Z.max (Z.max Bs (Z.max mi lg)) 8) SIZE_LIMIT.
Proof.
  intros HS.
  set (B0 := Z.max 0 Bs). set (B := Z.max B0 (Z.max mi lg)).
  assert (HB0 : 0 <= B0) by (unfold B0; lia).
  assert (W : forall f ty size, SP B0 f -> usized ty = true -> std_check f ty size = OOk tt -> size <= B).
  { intros f ty size Pf S H. pose proof (std_P_check B0 f ty size Pf S H). unfold B. lia. }
  assert (WO : forall st ty size ot, usized ty = true -> std_opener mi lg st ty size ot = OOk tt -> size <= B).
  { intros st ty size ot S H. pose proof (std_P_opener mi lg st ty size ot S H). unfold B. lia. }
  pose proof (unsl_buffer_bounded_inv sfr std_check (std_opener mi lg) std_do_open std_start std_child std_close std_finish std_report
                (SP B0) B (std_P_open B0 HB0) (std_P_start B0) (std_P_child B0) W WO cs (init (sctx0 (Some c)))) as G.
  unfold sfeed_all. destruct G as (_ & G).
  - split.
    + unfold J, SJ, init, mk, sctx0, uctx0. cbn [r_ctx u_stack]. constructor; [|constructor]. cbn [uf_st]. unfold SP, sroot, mkf. cbn [s_ch fbound obound].
      rewrite HS. cbn. unfold B0. lia.
    + unfold init, mk, lenZ, LIM. cbn [r_buf List.length Z.of_nat]. unfold SIZE_LIMIT. lia.
  - unfold LIM in G. unfold B, B0 in G. lia.
Qed.

(* every unslicer that is ever on the stack carries the bound (the invariant behind std_buffer_bounded) ... *)
Theorem std_reachable_stack_bounded mi lg c Bs cs : sbound c = Some Bs ->
  Forall (fun f => SP (Z.max 0 Bs) (uf_st sfr f)) (u_stack sfr (r_ctx (fst (sfeed_all mi lg (init (sctx0 (Some c))) cs)))).
Proof.
  intros HS.
  set (B0 := Z.max 0 Bs). set (B := Z.max B0 (Z.max mi lg)).
  assert (HB0 : 0 <= B0) by (unfold B0; lia).
  assert (W : forall f ty size, SP B0 f -> usized ty = true -> std_check f ty size = OOk tt -> size <= B).
  { intros f ty size Pf S H. pose proof (std_P_check B0 f ty size Pf S H). unfold B. lia. }
  assert (WO : forall st ty size ot, usized ty = true -> std_opener mi lg st ty size ot = OOk tt -> size <= B).
  { intros st ty size ot S H. pose proof (std_P_opener mi lg st ty size ot S H). unfold B. lia. }
  pose proof (unsl_buffer_bounded_inv sfr std_check (std_opener mi lg) std_do_open std_start std_child std_close std_finish std_report
                (SP B0) B (std_P_open B0 HB0) (std_P_start B0) (std_P_child B0) W WO cs (init (sctx0 (Some c)))) as G.
  unfold sfeed_all. destruct G as (G & _); [|exact G].
  split.
  - unfold J, SJ, init, mk, sctx0, uctx0. cbn [r_ctx u_stack]. constructor; [|constructor]. cbn [uf_st]. unfold SP, sroot, mkf. cbn [s_ch fbound obound].
    rewrite HS. cbn. unfold B0. lia.
  - unfold init, mk, lenZ, LIM. cbn [r_buf List.length Z.of_nat]. unfold SIZE_LIMIT. lia.
Qed.

(* ... so under a finite bound no OPEN sequence, in any reachable state, makes the model abstain *)
Theorem std_bounded_schema_open_never_abstains mi lg c Bs cs name : sbound c = Some Bs ->
  let st := map (uf_st sfr) (u_stack sfr (r_ctx (fst (sfeed_all mi lg (init (sctx0 (Some c))) cs)))) in
  st <> [] -> std_do_open st [name] <> OExc 98.
Proof.
  intros HS st NE. apply (std_bounded_open_never_abstains (Z.max 0 Bs)); [exact NE|].
  unfold st. apply Forall_map. apply (std_reachable_stack_bounded mi lg c Bs cs HS).
Qed.

(* ---- REFUTED: the bound read off the taster tables alone.  c = ListOf(ChoiceOf(ByteStringConstraint(3), UnicodeConstraint(3)))
   with the taster tables / opentypes of the live objects: the taster-only bound is 18 bytes, yet after OPEN list the list's slot is
   the PolyConstraint, whose opentype check admits OPEN copyable: the tokens that follow go to a RemoteCopyUnslicer (outside the
   model: it abstains), whose checkToken bounds no attribute name.  Replayed on the real code: harness/c11.py
   choice_admits_copyable, corpus/C11/choice_admits_copyable.json -- 4 000 005 bytes held.  sbound answers None for it. ---- *)
Definition rf_bytes3 : sctr := SPrim {| t_taster := [(130, Some 3); (135, None)]; t_strict := false; t_opens := Some [] |}.
Definition rf_text3 : sctr := SText {| t_taster := [(136, None)]; t_strict := true; t_opens := Some [oc_unicode] |} (Some 3).
Definition rf_choice : sctr := SChoice [rf_bytes3; rf_text3].
Definition rf_list : sctr := SList {| t_taster := [(136, None)]; t_strict := false; t_opens := Some [oc_list] |} rf_choice None.

Theorem std_taster_only_bound_refuted :
  exists c st, sbound_tasters c = Some 18 /\
    (* the stack after OPEN(0) "list" under root constraint c ... *)
    sapply_all 13 30 (sctx0 (Some c)) [(tok_OPEN, 0, []); (tok_STRING, 4, [108; 105; 115; 116])] =
      UOk sfr {| u_discard := 0; u_inOpen := false; u_opentype := [[108; 105; 115; 116]]; u_stack := st;
                 u_objctr := 1; u_inbObj := 0; u_inbOpen := 0; u_vocab := [] |} [] /\
    (* ... tastes the next OPEN, admits the opentype copyable, and leaves the model *)
    std_check (uf_st sfr (hd {| uf_open := None; uf_st := sroot None |} st)) tok_OPEN 1 = OOk tt /\
    std_do_open (map (uf_st sfr) st) [str_copyable] = OExc 98 /\
    sbound c = None.
Proof.
  exists rf_list. eexists. split; [reflexivity|]. split; [vm_compute; reflexivity|]. split; [reflexivity|]. split; reflexivity.
Qed.

(* ---- the generic theorems, instantiated ---- *)
Definition swfc := uwfc sfr std_report.

Theorem std_resync mi lg c ts c' es : uat_top sfr c -> swfc c -> udelta_sum ts = 0 -> sapply_all mi lg c ts = UOk sfr c' es ->
  uat_top sfr c' /\ swfc c' /\ u_vocab sfr c' = u_vocab sfr c /\ u_objctr sfr c' = u_objctr sfr c + ucount_opens ts.
Proof.
  apply (unsl_resync sfr std_check (std_opener mi lg) std_do_open std_start std_child std_close std_finish std_report
           std_child_keeps_absorbing std_closing_violation_propagates).
Qed.

Theorem std_moved mi lg ts c c' es : swfc c -> sapply_all mi lg c ts = UOk sfr c' es ->
  moved sfr std_report c c' (udelta_sum ts) (ucount_opens ts).
Proof.
  apply (uapply_all_moved sfr std_check (std_opener mi lg) std_do_open std_start std_child std_close std_finish std_report
           std_child_keeps_absorbing std_closing_violation_propagates).
Qed.

Theorem std_no_escape mi lg cs s : no_escape (snd (sfeed_all mi lg s cs)).
Proof.
  apply (unsl_no_escape sfr std_check (std_opener mi lg) std_do_open std_start std_child std_close std_finish std_report
           std_child_events_clean std_report_events_clean).
Qed.

Lemma sctx0_wf c : swfc (sctx0 c).
Proof. apply uctx0_wf. apply sroot_absorbs. Qed.

(* ---- exactly one root event per top-level sequence, for the standard unslicers ---- *)
Definition std_is_root (f : sfr) : bool := match s_ch f with HRoot _ => true | _ => false end.

Lemma std_R1 : forall f, std_is_root f = true -> std_report f = Some [UViolation].
Proof. intros f. unfold std_is_root, std_report. destruct (s_ch f); intros H; try discriminate; reflexivity. Qed.

Lemma std_R2 : forall f es, std_is_root f = false -> std_report f = Some es -> nroot es = 0.
Proof. intros f es. unfold std_is_root, std_report. destruct (s_ch f); intros H1 H2; discriminate. Qed.

Lemma std_R3 : forall f v, std_is_root f = true -> exists f', std_child f v = ([UDeliver v], OOk f') /\ std_is_root f' = true.
Proof. intros f v H. exists f. unfold std_is_root in *. unfold std_child. destruct (s_ch f); try discriminate. auto. Qed.

Lemma std_R4 : forall f v es r, std_is_root f = false -> std_child f v = (es, r) -> nroot es = 0 /\ (forall f', r = OOk f' -> std_is_root f' = false).
Proof.
  intros f v es r H E. split.
  - unfold std_child in E. unfold std_is_root in H. destruct (s_ch f); try discriminate;
      repeat match type of E with
             | (if ?b then _ else _) = _ => destruct b
             | (match ?x with _ => _ end) = _ => destruct x
             end; inversion E; subst; reflexivity.
  - intros f' ->. unfold std_is_root in *. rewrite (std_child_kind _ _ _ _ E). exact H.
Qed.

Lemma mkchild_not_root k c ch : mkchild k c = OOk (Some ch) -> std_is_root ch = false.
Proof.
  unfold mkchild. cbv zeta. intros H.
  repeat match type of H with
         | (if ?b then _ else _) = _ => destruct b
         | (match ?x with _ => _ end) = _ => destruct x
         end; try discriminate; inversion H; subst; reflexivity.
Qed.

Lemma std_R5 : forall st ot ch, std_do_open st ot = OOk (Some ch) -> std_is_root ch = false.
Proof.
  intros st ot ch H. unfold std_do_open in H. destruct st as [|top rest]; [discriminate|]. destruct ot as [|name [|? ?]]; try discriminate.
  destruct (s_ch top); try discriminate;
    repeat match type of H with
           | (if ?b then _ else _) = _ => destruct b
           | (match ?x with _ => _ end) = _ => destruct x eqn:?
           | mkchild _ _ = _ => apply mkchild_not_root in H; exact H
           end; try discriminate.
Qed.

Lemma std_R6 : forall ch n ch', std_is_root ch = false -> std_start ch n = OOk ch' -> std_is_root ch' = false.
Proof. intros ch n ch' H E. inversion E; subst. exact H. Qed.

Definition std_RI := RI sfr std_is_root.

Lemma sctx0_RI c : std_RI (sctx0 c).
Proof.
  split; [cbn; lia|]. split; [|cbn; discriminate]. exists [], {| uf_open := None; uf_st := sroot c |}. cbn. repeat split; auto.
Qed.

(* "A schema violation discards exactly the offending top-level object", standard unslicers under any constraint tree: the tokens
   of one top-level sequence either abandon the connection or yield exactly one root event (delivered XOR reported) *)
Theorem std_exactly_one mi lg c h b body : hd_abort_in_index = true -> uat_top sfr c -> std_RI c -> inside 1 body ->
  hr_count sfr (sapply_all mi lg c ((tok_OPEN, h, b) :: body)) (fun c' es => nroot es = 1 /\ uat_top sfr c' /\ std_RI c').
Proof.
  apply (unsl_exactly_one sfr std_check (std_opener mi lg) std_do_open std_start std_child std_close std_finish std_report std_is_root
           std_R1 std_R2 std_R3 std_R4 std_R5 std_R6 std_child_keeps_absorbing std_closing_violation_propagates).
Qed.

(* a violated top-level object leaves the root unslicer exactly as it was *)
Theorem std_violated_object_keeps_root mi lg c h b body : hd_abort_in_index = true -> uat_top sfr c -> std_RI c -> inside 1 body ->
  hr_count sfr (sapply_all mi lg c ((tok_OPEN, h, b) :: body)) (fun c' es => nviolation es = 1 -> u_stack sfr c' = u_stack sfr c).
Proof.
  apply (unsl_violated_object_keeps_root sfr std_check (std_opener mi lg) std_do_open std_start std_child std_close std_finish std_report std_is_root
           std_R1 std_R2 std_R3 std_R4 std_R5 std_R6 std_child_keeps_absorbing std_closing_violation_propagates).
Qed.

(* the same, read three ways: the model ABSTAINS (it reached an unslicer or a value it does not model: nothing is claimed about the
   real receiver), the connection is ABANDONED, or exactly one root event *)
Theorem std_exactly_one3 mi lg c h b body : hd_abort_in_index = true -> uat_top sfr c -> std_RI c -> inside 1 body ->
  match uview sfr (sapply_all mi lg c ((tok_OPEN, h, b) :: body)) with
  | U3Abstains _ => True
  | U3Abandoned _ es => In UErrorSent es /\ In ULose es
  | U3Ok _ c' es => nroot es = 1 /\ uat_top sfr c' /\ std_RI c' /\ (nviolation es = 1 -> u_stack sfr c' = u_stack sfr c)
  end.
Proof.
  intros FA T R IN. pose proof (std_exactly_one mi lg c h b body FA T R IN) as H.
  pose proof (std_violated_object_keeps_root mi lg c h b body FA T R IN) as K.
  pose proof (unsl_abandoned_is_real sfr std_check (std_opener mi lg) std_do_open std_start std_child std_close std_finish std_report
                c ((tok_OPEN, h, b) :: body)) as A. fold (sapply_all mi lg) in A.
  destruct (sapply_all mi lg c ((tok_OPEN, h, b) :: body)) as [c' es|es]; cbn [uview hr_count] in *; [tauto|].
  destruct (abstained es); [exact I|exact A].
Qed.

Theorem std_resync3 mi lg c ts : uat_top sfr c -> swfc c -> udelta_sum ts = 0 ->
  match uview sfr (sapply_all mi lg c ts) with
  | U3Abstains _ => True
  | U3Abandoned _ es => In UErrorSent es /\ In ULose es
  | U3Ok _ c' es => uat_top sfr c' /\ swfc c' /\ u_vocab sfr c' = u_vocab sfr c /\ u_objctr sfr c' = u_objctr sfr c + ucount_opens ts
  end.
Proof.
  intros T W D.
  pose proof (unsl_abandoned_is_real sfr std_check (std_opener mi lg) std_do_open std_start std_child std_close std_finish std_report c ts) as A.
  fold (sapply_all mi lg) in A.
  destruct (sapply_all mi lg c ts) as [c' es|es] eqn:E; cbn [uview] in *; [|destruct (abstained es); [exact I|exact A]].
  apply (std_resync mi lg c ts c' es T W D E).
Qed.

(* a top-level set-vocab / add-vocab sequence (legitimate in the real protocol: no root event, then VOCAB tokens decode with the new
   table) is NOT claimed to abandon the connection: the model abstains on it *)
Example std_vocab_sequence_abstains :
  uview sfr (sapply_all 13 30 (sctx0 None) [(tok_OPEN, 0, []); (tok_STRING, 9, [115; 101; 116; 45; 118; 111; 99; 97; 98]); (tok_CLOSE, 0, [])])
  = U3Abstains sfr.
Proof. vm_compute. reflexivity. Qed.
