(* C05: the byte-level receive loop (lib/IdentityBytes.v) feeds the table model (lib/Identity.v: step / run) and the key model
   (lib/IdentityKeys.v: kstep / krun).  The three models were proved separately; these lemmas are the joints: a key k that the
   receive loop of one transport hands to Tub.brokerAttached IS a `Negotiated` (resp. `KNegotiated`) event of the table models, with
   claimed id k and the decision taken -- so table_invariant / getref_proven / getReference_key_proven speak about exactly the
   registrations the byte-level theorems allow.  Proofs only. *)
From Coq Require Import ZArith List String Bool Lia.
Import ListNotations.
Require Import Verif.lib.PyLite Verif.gen.NegotiateGen Verif.lib.Negotiate Verif.lib.NegBytes Verif.gen.IdentityGen
               Verif.lib.NegSplit Verif.lib.Identity Verif.lib.IdentityProofs Verif.lib.IdentityBytes Verif.lib.IdentityBytesProofs
               Verif.lib.IdentityKeys Verif.lib.IdentityKeysProofs.
Local Open Scope Z_scope.

Section Compose.
Variable cert : Type.
Variable tubid_of : cert -> list Z.
Variable decode : list Z -> option (list Z).
Variable D : Type.
Variable parse : list Z -> res D.
Variable has_error : D -> bool.
Variable claimed_of : D -> option (list Z).
Variable pre_chk post_chk decision_chk : D -> res unit.
Variable redirect : list Z -> bool.

Notation brecv_all := (brecv_all cert tubid_of decode D parse has_error claimed_of pre_chk post_chk decision_chk redirect).

(* what the byte-level theorems say about a registered key, in the vocabulary of the table models: the hello evaluation of this
   transport accepts the claim k, and the key computed by switchToBanana from it is k *)
Lemma attached_key_is_accepted_hello r my tgt p chunks k :
  In k (b_attached (brecv_all r my tgt p chunks)) ->
  exists m, handle_hello cert tubid_of r my tgt p (Some k) = Accept k m /\ attach_key (is_client r) tgt k = k.
Proof.
  intros Hin.
  pose proof (bytes_attach_proven cert tubid_of decode D parse has_error claimed_of pre_chk post_chk decision_chk redirect
                r my tgt p chunks k Hin) as (crt & Hl & Hk & Hc).
  assert (Hne : b_attached (brecv_all r my tgt p chunks) <> []).
  { intros E. rewrite E in Hin. destruct Hin. }
  pose proof (bytes_no_attach_before_identity cert tubid_of decode D parse has_error claimed_of pre_chk post_chk decision_chk redirect
                r my tgt p chunks Hne) as (hdr & d & t0 & m & _ & _ & _ & Hh).
  pose proof (handle_hello_bound cert tubid_of _ _ _ _ _ _ _ Hh) as (crt' & Hl' & Hk' & Hcl & Htg & Hnn & Hm).
  rewrite Hl in Hl'. inversion Hl'; subst crt'. rewrite Hk in Hk'. subst t0.
  exists m. split; [rewrite <- Hcl; exact Hh|].
  destruct r; cbn [is_client]; [rewrite (Hc eq_refl); apply ak_client|apply ak_server].
Qed.

(* ... hence the registration is this step of the Tub.brokers model of lib/Identity.v (whatever the decision timing and whether an
   older connection was dropped first) *)
Theorem bytes_attach_is_table_step r my tgt p chunks k t dropped arrives :
  In k (b_attached (brecv_all r my tgt p chunks)) ->
  step cert tubid_of my t (Negotiated cert r tgt p (Some k) true dropped) =
    broker_attached cert k {| conn_cert := leaf p; conn_loop := false |} (if dropped then tbl_remove cert k t else t) /\
  (i_am_master my k = true ->
   step cert tubid_of my t (Negotiated cert r tgt p (Some k) arrives dropped) =
    broker_attached cert k {| conn_cert := leaf p; conn_loop := false |} (if dropped then tbl_remove cert k t else t)).
Proof.
  intros Hin. destruct (attached_key_is_accepted_hello r my tgt p chunks k Hin) as (m & Hh & Hk).
  cbn [step]. rewrite Hh, Hk, orb_true_r. split; [reflexivity|].
  intros Hm. apply handle_hello_bound in Hh. destruct Hh as (_ & _ & _ & _ & _ & _ & Hm'). rewrite Hm in Hm'. subst m. reflexivity.
Qed.

(* the entry that step makes for it is a justified one: the table theorems (C05_table_invariant, C05_getReference_proven) apply to it *)
Corollary bytes_attach_entry_justified r my tgt p chunks k :
  In k (b_attached (brecv_all r my tgt p chunks)) ->
  justified cert tubid_of my (k, {| conn_cert := leaf p; conn_loop := false |}).
Proof.
  intros Hin.
  pose proof (bytes_attach_proven cert tubid_of decode D parse has_error claimed_of pre_chk post_chk decision_chk redirect
                r my tgt p chunks k Hin) as (crt & Hl & Hk & _).
  right. cbn [fst snd conn_loop conn_cert]. split; [reflexivity|]. exists crt. auto.
Qed.

(* ... and this step of the TubRef-keyed model of lib/IdentityKeys.v; `target` is the connector's TubRef (any hints), the byte loop
   ran with its tub id *)
Theorem bytes_attach_is_key_step r my (target : sref) p chunks k (t : ktable cert) :
  In k (b_attached (brecv_all r my (tub_of target) p chunks)) ->
  kstep cert tubid_of my t (KNegotiated cert r target p (Some k) true) =
    k_attached cert (if is_client r then target else tubref_of_id k) {| conn_cert := leaf p; conn_loop := false |} t /\
  (r = Client -> sr_tub target = Some k).
Proof.
  intros Hin. destruct (attached_key_is_accepted_hello r my (tub_of target) p chunks k Hin) as (m & Hh & Hk).
  split.
  - cbn [kstep]. rewrite Hh, orb_true_r. reflexivity.
  - intros Hr. subst r. cbn [is_client] in Hk. cbv beta delta [attach_key] iota in Hk.
    apply handle_hello_bound in Hh. destruct Hh as (_ & _ & _ & _ & _ & Hne & _).
    unfold tub_of in Hk. destruct (sr_tub target) as [x|]; [congruence|]. subst k. contradiction Hne. reflexivity.
Qed.

End Compose.

(* non-vacuity: the hypothesis `In k (b_attached (brecv_all ..))` is satisfiable (any parser: here one that accepts every block as a
   hello claiming "bb", at the listener "zz" which decides), and the table step it yields stores the entry *)
Definition exc_tubid (c : Z) : list Z := if c =? 2 then [98; 98] else [].
Definition exc_get : list Z := [71; 69; 84; 32; 47; 105; 100; 47; 122; 122; 32; 72; 84; 84; 80; 47; 49; 46; 49; 13; 10; 85; 112; 103; 114; 97; 100; 101; 58; 32; 84; 76; 83; 47; 49; 46; 48; 13; 10; 13; 10].
Definition exc_recv := brecv_all Z exc_tubid (fun b => Some b) unit (fun _ => Ok tt) (fun _ => false) (fun _ => Some [98; 98])
                                 (fun _ => Ok tt) (fun _ => Ok tt) (fun _ => Ok tt) (fun _ => false).
Example exc_attached :
  In [98; 98] (b_attached (exc_recv Server [122; 122] [] {| leaf := Some 2; extras := [] |} [exc_get ++ [104; 13; 10; 13; 10]])) /\
  step Z exc_tubid [122; 122] [] (Negotiated Z Server [] {| leaf := Some 2; extras := [] |} (Some [98; 98]) true false) =
    [([98; 98], {| conn_cert := Some 2; conn_loop := false |})].
Proof. vm_compute. split; [left; reflexivity|reflexivity]. Qed.
