(* C08 / C09: third-party introductions ("gifts").  Parties: owners o = 0, 1, ... (each its own Tub), the giver B, the
   recipient C.  B holds proxies of owners' objects, received over its connections to the owners; it hands them to C inside
   calls; C resolves each gift by asking the owning Tub for the name in the gift's FURL and acknowledges the gift to B.

   broker.py          makeGift, remote_decgift (arithmetic TRANSLATED: gen/RefsGen.v makeGift_again / makeGift_first /
                      decgift_sub / decgift_done; key of the table: gift_key_kind; does the entry hold the proxy:
                      gift_table_pins_proxy), remote_getReferenceByName, getYourReferenceByName
   referenceable.py   YourReferenceSlicer.slice (gift branch), TheirReferenceUnslicer.receiveClose / ackGift (WHEN the
                      acknowledgement is sent: gift_ack_point; WHETHER: ackGift_sends; its count: ackGift_count),
                      ReferenceableSlicer.slice (the FURL travels with the first my-reference), RemoteReferenceTracker.url
   pb.py              Tub._assignName / getReferenceForName (weak two-way name table), Tub._getReference

   What is abstracted, and by which theorem of the two-party model (lib/Refs.v) it is justified:
   * the connection owner<->B: B's proxy table `bprox` holds, per proxy, the ghost object its (connection, clid) was
     allocated for (C08_clid_names_one_object) -- while a proxy of B is alive the owner's export table pins that object
     (C09_no_early_release); the model is PESSIMISTIC: the owner's object dies the moment B's last proxy for it dies
     (in reality only after the decref has travelled), so every lookup that succeeds here succeeds in reality;
   * the connection owner<->C: an answer `Some (o, x)` stands for a my-reference whose clid was allocated for x
     (C08_send_names_object); it pins x while in flight (C09_no_early_release) and the proxy C builds from it reaches x
     (C08_home_and_calls_reach_original).
   Lookups and answers may be processed in ANY order (index argument): a superset of the real schedules (FIFO per
   connection), which is sound for the safety theorems proved in GiftsProofs.v. *)
From Coq Require Import ZArith List Bool Lia.
Import ListNotations.
Require Import Verif.lib.PyLite Verif.gen.RefsGen.
Local Open Scope Z_scope.

Definition key := (Z * Z)%type.               (* (origin connection = owner, clid): rref.tracker.broker, rref.tracker.clid *)
Definition objid := (Z * Z)%type.             (* (owner, object) *)
Definition url := (Z * Z)%type.               (* (owner Tub, name) *)

Definition key_eqb (a b : key) : bool := (fst a =? fst b) && (snd a =? snd b).

(* a proxy held by B: RemoteReference + its RemoteReferenceTracker *)
(* bp_url: the FURL the proxy's tracker carries -- None when the tracker was created from the SHORT form of a my-reference
   (lib/Refs.v: t_url; RefsProofs.live_proxy_without_url shows that this happens, delivered_proxy_url exactly when) *)
Record bproxy := { bp_key : key; bp_obj : Z; bp_url : option url; bp_app : bool }.

(* Broker.myGifts (of B's Broker towards C): table key -> (rref, giftID, count); myGiftsByGiftID is its inverse index
   (entries are found by ge_id) *)
Record gentry := { ge_key : key; ge_pin : key; ge_id : Z; ge_count : Z }.

Record tref := { tr_id : Z; tr_url : option url; tr_want : objid }.   (* their-reference giftID furl (+ ghost: what B meant);
                                                                         None: the empty FURL YourReferenceSlicer sends for a
                                                                         proxy whose tracker has none *)
Record answer := { an_id : Z; an_got : option objid; an_want : objid }.

Record tstate := {
  names : list (url * Z);          (* the owners' Tub.nameToReference / referenceToName: (owner, name) <-> object *)
  nextname : Z;
  bprox : list bproxy;             (* B's live proxies *)
  gifts : list gentry;
  nextgift : Z;
  ch_bc : list tref;               (* B -> C, FIFO *)
  lookups : list tref;             (* C -> owners: getReferenceByName in flight *)
  answers : list answer;           (* owners -> C: answers in flight *)
  ch_cb : list (Z * Z);            (* C -> B, FIFO: decgift giftID count *)
  cprox : list objid;              (* objects C holds a proxy of *)
  gfail : bool                     (* remote_decgift raised (unknown giftID) *)
}.

Inductive top :=
| TExport (o x c : Z) (withurl : bool)
                                   (* owner o sends object x to B under clid c; withurl: the tracker B creates for it knows the
                                      FURL (the my-reference was a first one) -- the two-party model says which is possible when *)
| TGive (k : key)                  (* B serialises its proxy k towards C: YourReferenceSlicer gift branch -> makeGift *)
| TRecvBC                          (* C: TheirReferenceUnslicer.receiveClose for the next their-reference *)
| TLookup (i : nat)                (* the owner processes the i-th getReferenceByName in flight and answers *)
| TAnswer (i : nat)                (* C processes the i-th answer in flight: _ready / _failed, then ackGift *)
| TRecvCB                          (* B: remote_decgift for the next decgift *)
| TAppDrop (k : key)               (* B's application lets go of proxy k *)
| TCDrop (ox : objid)              (* C lets go of its proxy *)
| TRegister (o x n : Z).           (* owner o's application calls registerReference(x, name=n) *)

Inductive tevent :=
| EvIntro (giftid : Z) (got : option objid) (want : objid)   (* the gift resolved (or failed) at C *)
| EvDecgiftError.

Definition tinit : tstate :=
  {| names := []; nextname := 0; bprox := []; gifts := []; nextgift := first_giftid; ch_bc := []; lookups := [];
     answers := []; ch_cb := []; cprox := []; gfail := false |}.

(* ---- the gift table *)
Definition gift_key (k : key) : key :=
  match gift_key_kind with KeyBrokerClid => k | KeyClid => (0, snd k) end.
Definition find_gift (g : list gentry) (i : key) : option gentry := find (fun e => key_eqb (ge_key e) i) g.
Definition find_gift_id (g : list gentry) (id : Z) : option gentry := find (fun e => ge_id e =? id) g.
Definition del_gift_id (g : list gentry) (id : Z) : list gentry := filter (fun e => negb (ge_id e =? id)) g.
Definition set_gift_count (g : list gentry) (id v : Z) : list gentry :=
  map (fun e => if ge_id e =? id then {| ge_key := ge_key e; ge_pin := ge_pin e; ge_id := ge_id e; ge_count := v |} else e) g.

(* ---- liveness.  A proxy of B is alive while B's application holds it or a gift-table entry holds it (whether the
   entry holds it: read from the source).  An owner's object lives while a proxy of B or of C, or an answer in flight
   to C, designates it (the owners' applications hold nothing: worst case). *)
Definition pinned (g : list gentry) (k : key) : bool :=
  gift_table_pins_proxy && existsb (fun e => key_eqb (ge_pin e) k) g.
Definition bp_alive (g : list gentry) (b : bproxy) : bool := bp_app b || pinned g (bp_key b).
Definition purge (g : list gentry) (bp : list bproxy) : list bproxy := filter (bp_alive g) bp.

Definition objid_eqb (a b : objid) : bool := (fst a =? fst b) && (snd a =? snd b).
Definition obj_alive (s : tstate) (ox : objid) : bool :=
  existsb (fun b => objid_eqb (fst (bp_key b), bp_obj b) ox) (bprox s)
  || existsb (objid_eqb ox) (cprox s)
  || existsb (fun a => match an_got a with Some y => objid_eqb y ox | None => false end) (answers s).

(* ---- the owners' name tables *)
Definition find_name_of (n : list (url * Z)) (o x : Z) : option Z :=
  option_map (fun e => snd (fst e)) (find (fun e => (fst (fst e) =? o) && (snd e =? x)) n).
Definition find_obj_of (n : list (url * Z)) (u : url) : option Z :=
  option_map snd (find (fun e => (fst (fst e) =? fst u) && (snd (fst e) =? snd u)) n).
(* Tub.getReferenceForName: the weak table has the name only while the object lives *)
Definition resolve (s : tstate) (u : url) : option objid :=
  match find_obj_of (names s) u with
  | Some x => if obj_alive s (fst u, x) then Some (fst u, x) else None
  | None => None
  end.

Definition resolve_opt (s : tstate) (u : option url) : option objid :=
  match u with Some u' => resolve s u' | None => None end.

Definition find_bp (bp : list bproxy) (k : key) : option bproxy := find (fun b => key_eqb (bp_key b) k) bp.
Definition known_obj (n : list (url * Z)) (o x : Z) : bool := existsb (fun e => (fst (fst e) =? o) && (snd e =? x)) n.

Fixpoint remove_nth {A} (l : list A) (i : nat) : list A :=
  match l, i with
  | [], _ => []
  | _ :: r, O => r
  | a :: r, S j => a :: remove_nth r j
  end.

Definition upd (s : tstate) nm nn bp g ng bc lk an cb cp gf : tstate :=
  {| names := nm; nextname := nn; bprox := bp; gifts := g; nextgift := ng; ch_bc := bc; lookups := lk; answers := an;
     ch_cb := cb; cprox := cp; gfail := gf |}.

(* ---- an owner sends an object to B.  A living object B already has a proxy of: B's application holds it (again).
   Otherwise (a new object, or a living one B has let go of): a fresh clid on that connection, a new proxy; the FURL it
   carries is the name the owner's Tub assigns (the existing one if the object has one: assign_reuses_name). *)
Definition do_export (s : tstate) (o x c : Z) (withurl : bool) : tstate :=
  match find (fun b => objid_eqb (fst (bp_key b), bp_obj b) (o, x)) (bprox s) with
  | Some _ =>
    upd s (names s) (nextname s)
        (map (fun b => if objid_eqb (fst (bp_key b), bp_obj b) (o, x)
                       then {| bp_key := bp_key b; bp_obj := bp_obj b; bp_url := bp_url b; bp_app := true |} else b) (bprox s))
        (gifts s) (nextgift s) (ch_bc s) (lookups s) (answers s) (ch_cb s) (cprox s) (gfail s)
  | None =>
    if (known_obj (names s) o x && negb (obj_alive s (o, x)))           (* a dead object cannot be sent *)
       || existsb (fun b => key_eqb (bp_key b) (o, c)) (bprox s)          (* clids are not reused while in use *)
    then s
    else if withurl then
      let '(n, nm, nn) :=
        match (if assign_reuses_name then find_name_of (names s) o x else None) with
        | Some n => (n, names s, nextname s)
        | None => (nextname s, ((o, nextname s), x) :: names s, nextname s + 1)
        end in
      upd s nm nn ({| bp_key := (o, c); bp_obj := x; bp_url := Some (o, n); bp_app := true |} :: bprox s)
          (gifts s) (nextgift s) (ch_bc s) (lookups s) (answers s) (ch_cb s) (cprox s) (gfail s)
    else
      (* the short form: no FURL travels, the owner's Tub is not asked for a name *)
      upd s (names s) (nextname s) ({| bp_key := (o, c); bp_obj := x; bp_url := None; bp_app := true |} :: bprox s)
          (gifts s) (nextgift s) (ch_bc s) (lookups s) (answers s) (ch_cb s) (cprox s) (gfail s)
  end.

(* ---- YourReferenceSlicer gift branch: giftID = broker.makeGift(self.obj); their-reference giftID furl *)
Definition do_give (s : tstate) (k : key) : tstate :=
  match find_bp (bprox s) k with
  | None => s                                   (* only a proxy B holds can be serialised *)
  | Some b =>
    let i := gift_key k in
    let '(g, id, ng) :=
      match find_gift (gifts s) i with
      | Some e => (set_gift_count (gifts s) (ge_id e) (makeGift_again (ge_count e)), ge_id e, nextgift s)
      | None => ({| ge_key := i; ge_pin := k; ge_id := nextgift s; ge_count := makeGift_first |} :: gifts s,
                 nextgift s, nextgift s + 1)
      end in
    upd s (names s) (nextname s) (bprox s) g ng
        (ch_bc s ++ [{| tr_id := id; tr_url := bp_url b; tr_want := (fst k, bp_obj b) |}])
        (lookups s) (answers s) (ch_cb s) (cprox s) (gfail s)
  end.

Definition ack_msgs (id : Z) : list (Z * Z) := if ackGift_sends id then [(id, ackGift_count)] else [].

(* ---- TheirReferenceUnslicer.receiveClose: tub.getReference(url).  For the empty FURL getReference fails without asking
   anybody: the failure takes the place of an answer (ackGift is an addBoth: it runs for failures too) *)
Definition do_recv_bc (s : tstate) : tstate :=
  match ch_bc s with
  | [] => s
  | m :: rest =>
    match tr_url m with
    | Some _ =>
      upd s (names s) (nextname s) (bprox s) (gifts s) (nextgift s) rest (lookups s ++ [m]) (answers s)
          (ch_cb s ++ match gift_ack_point with AckAtReceipt => ack_msgs (tr_id m) | AckAfterLookup => [] end)
          (cprox s) (gfail s)
    | None =>
      upd s (names s) (nextname s) (bprox s) (gifts s) (nextgift s) rest (lookups s)
          (answers s ++ [{| an_id := tr_id m; an_got := None; an_want := tr_want m |}])
          (ch_cb s ++ match gift_ack_point with AckAtReceipt => ack_msgs (tr_id m) | AckAfterLookup => [] end)
          (cprox s) (gfail s)
    end
  end.

(* ---- the owner: remote_getReferenceByName -> tub.getReferenceForName(name); the answer is a my-reference *)
Definition do_lookup (s : tstate) (i : nat) : tstate :=
  match nth_error (lookups s) i with
  | None => s
  | Some m =>
    upd s (names s) (nextname s) (bprox s) (gifts s) (nextgift s) (ch_bc s) (remove_nth (lookups s) i)
        (answers s ++ [{| an_id := tr_id m; an_got := resolve_opt s (tr_url m); an_want := tr_want m |}])
        (ch_cb s) (cprox s) (gfail s)
  end.

(* ---- C: the Deferred of getReference fires: ackGift (addBoth: success or failure), then _ready / _failed *)
Definition do_answer (s : tstate) (i : nat) : tstate * list tevent :=
  match nth_error (answers s) i with
  | None => (s, [])
  | Some a =>
    (upd s (names s) (nextname s) (bprox s) (gifts s) (nextgift s) (ch_bc s) (lookups s) (remove_nth (answers s) i)
         (ch_cb s ++ match gift_ack_point with AckAfterLookup => ack_msgs (an_id a) | AckAtReceipt => [] end)
         (match an_got a with
          | Some ox => if existsb (objid_eqb ox) (cprox s) then cprox s else ox :: cprox s
          | None => cprox s end)
         (gfail s),
     [EvIntro (an_id a) (an_got a) (an_want a)])
  end.

(* ---- B: remote_decgift(giftID, count) *)
Definition do_recv_cb (s : tstate) : tstate * list tevent :=
  match ch_cb s with
  | [] => (s, [])
  | (id, n) :: rest =>
    match find_gift_id (gifts s) id with
    | None =>          (* self.myGiftsByGiftID[giftID]: KeyError *)
      (upd s (names s) (nextname s) (bprox s) (gifts s) (nextgift s) (ch_bc s) (lookups s) (answers s) rest (cprox s) true,
       [EvDecgiftError])
    | Some e =>
      let v := decgift_sub (ge_count e) n in
      let g := if decgift_done v then del_gift_id (gifts s) id else set_gift_count (gifts s) id v in
      (upd s (names s) (nextname s) (purge g (bprox s)) g (nextgift s) (ch_bc s) (lookups s) (answers s) rest (cprox s) (gfail s),
       [])
    end
  end.

Definition do_appdrop (s : tstate) (k : key) : tstate :=
  upd s (names s) (nextname s)
      (purge (gifts s) (map (fun b => if key_eqb (bp_key b) k
                                      then {| bp_key := bp_key b; bp_obj := bp_obj b; bp_url := bp_url b; bp_app := false |}
                                      else b) (bprox s)))
      (gifts s) (nextgift s) (ch_bc s) (lookups s) (answers s) (ch_cb s) (cprox s) (gfail s).

Definition do_cdrop (s : tstate) (ox : objid) : tstate :=
  upd s (names s) (nextname s) (bprox s) (gifts s) (nextgift s) (ch_bc s) (lookups s) (answers s) (ch_cb s)
      (filter (fun y => negb (objid_eqb y ox)) (cprox s)) (gfail s).

(* ---- the owner's application registers an object under a name of its choosing (Tub.registerReference ->
   _assignName(ref, preferred_name)).  Application-chosen names are disjoint from the names still to be generated
   (n < nextname).  What happens to an object that already has a name is read from the source (assign_existing): it keeps
   it.  A name that is IN USE for another object is taken over, as in _assignName (`self.nameToReference[name] = ref`, no
   test): `names` lists the entries newest first and a name is resolved by the newest entry (find_obj_of), while the older
   object keeps its entry for the reverse direction (referenceToName[old object] is still that name) -- the older object's
   FURL now leads to the newer object.  Theorems that need names to be unambiguous say so (faithful_op). *)
Definition name_used (nm : list (url * Z)) (o n : Z) : bool := existsb (fun e => (fst (fst e) =? o) && (snd (fst e) =? n)) nm.
Definition do_register (s : tstate) (o x n : Z) : tstate :=
  if negb (n <? nextname s) then s
  else
    match find_name_of (names s) o x with
    | Some old =>
      match assign_existing with
      | KeepName => s
      | Rename =>
        upd s (((o, n), x) :: filter (fun e => negb ((fst (fst e) =? o) && (snd (fst e) =? old))) (names s)) (nextname s) (bprox s)
            (gifts s) (nextgift s) (ch_bc s) (lookups s) (answers s) (ch_cb s) (cprox s) (gfail s)
      end
    | None =>
      upd s (((o, n), x) :: names s) (nextname s) (bprox s) (gifts s) (nextgift s) (ch_bc s) (lookups s) (answers s) (ch_cb s)
          (cprox s) (gfail s)
    end.

Definition tstep (s : tstate) (o : top) : tstate * list tevent :=
  match o with
  | TExport o x c w => (do_export s o x c w, [])
  | TGive k => (do_give s k, [])
  | TRecvBC => (do_recv_bc s, [])
  | TLookup i => (do_lookup s i, [])
  | TAnswer i => do_answer s i
  | TRecvCB => do_recv_cb s
  | TAppDrop k => (do_appdrop s k, [])
  | TCDrop ox => (do_cdrop s ox, [])
  | TRegister o x n => (do_register s o x n, [])
  end.

Fixpoint trun (s : tstate) (ops : list top) : tstate :=
  match ops with [] => s | o :: r => trun (fst (tstep s o)) r end.
Fixpoint trun_events (s : tstate) (ops : list top) : list tevent :=
  match ops with [] => [] | o :: r => snd (tstep s o) ++ trun_events (fst (tstep s o)) r end.

(* ---- counting: how many acknowledgements for gift id are still to come / on their way *)
Fixpoint occ_tr (l : list tref) (id : Z) : Z :=
  match l with [] => 0 | m :: r => (if tr_id m =? id then 1 else 0) + occ_tr r id end.
Fixpoint occ_an (l : list answer) (id : Z) : Z :=
  match l with [] => 0 | a :: r => (if an_id a =? id then 1 else 0) + occ_an r id end.
Fixpoint occ_cb (l : list (Z * Z)) (id : Z) : Z :=
  match l with [] => 0 | (k, n) :: r => (if k =? id then n else 0) + occ_cb r id end.
Definition gcount (g : list gentry) (id : Z) : Z := match find_gift_id g id with Some e => ge_count e | None => 0 end.
Definition outstanding (s : tstate) (id : Z) : Z :=
  occ_tr (ch_bc s) id + occ_tr (lookups s) id + occ_an (answers s) id + occ_cb (ch_cb s) id.

Definition tquiescent (s : tstate) : Prop := ch_bc s = [] /\ lookups s = [] /\ answers s = [] /\ ch_cb s = [].

(* ---- the guard of the C08 theorems about introductions (exact for the first clause: RefsProofs / GiftsProofs give a witness
   for each clause that the statement fails without it):
   * the proxy B gives away has a FURL (its tracker was created from the long form of a my-reference);
   * the owner's application does not register an object under a name that is in use for another object. *)
Definition faithful_op (s : tstate) (o : top) : bool :=
  match o with
  | TGive k => match find_bp (bprox s) k with
               | Some b => match bp_url b with Some _ => true | None => false end
               | None => true
               end
  | TRegister o x n => negb (n <? nextname s) || negb (name_used (names s) o n)
  | _ => true
  end.
Fixpoint faithful_run (s : tstate) (ops : list top) : Prop :=
  match ops with [] => True | o :: r => faithful_op s o = true /\ faithful_run (fst (tstep s o)) r end.
