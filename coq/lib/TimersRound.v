(* C15: the timer model of lib/Timers.v with the time ARITHMETIC of the translated callbacks left open.
   gen/TimersGen.v translates every fragment as  <name>_g add sub eps ...  where `add` / `sub` stand for the `+` / `-` of
   the source on time values (time.time() - self.dataLastReceivedAt, self.<x>Timeout + EPSILON, and the `now + delay`
   of reactor.callLater) and `eps` for EPSILON; the exact model is the instance  Z.add Z.sub eps_ms.  Here the same
   machine is built for ARBITRARY add / sub / eps; TimersRoundProofs.v proves the property for every add / sub that
   are within delta of the exact result -- in particular IEEE-754 doubles (time unit = any power of two small enough
   that all values are integers; delta = half an ulp of the largest time).  Definitions only. *)
From Coq Require Import ZArith List Bool.
Import ListNotations.
Require Import Verif.lib.PyLite Verif.gen.BananaGen Verif.gen.TimersGen Verif.lib.Timers.
Local Open Scope Z_scope.

Section Round.
Variables (add sub : Z -> Z -> Z) (eps : Z).

Definition initR (c : cfg) (t0 : Z) : st :=
  let s := blank t0 in
  let s := match cK c with
           | Some k => apply_ka s t0 (connectionMade_ka_g add sub eps t0 (last_rx s) k (use_ka s) (abandoned s) (ka s))
           | None => s end in
  match cT c with
  | Some d => apply_dc s t0 (connectionMade_dc_g add sub eps t0 (last_rx s) d (use_ka s) (abandoned s) (dc s))
  | None => s end.

Definition stampR (s : st) (t : Z) : st :=
  apply_ka s t (dataReceived_stamp_g add sub eps t (last_rx s) 0 (use_ka s) (abandoned s) (ka s)).

Definition fire_kaR (c : cfg) (s : st) (t : Z) : st :=
  match ka s, cK c with
  | Some e, Some k => if e <=? t then apply_ka s t (keepaliveTimerFired_g add sub eps t (last_rx s) k (use_ka s) (abandoned s) (ka s))
                      else s
  | _, _ => s
  end.

Definition fire_dcR (c : cfg) (s : st) (t : Z) : st :=
  match dc s, cT c with
  | Some e, Some d => if e <=? t then apply_dc s t (disconnectTimerFired_g add sub eps t (last_rx s) d (use_ka s) (abandoned s) (dc s))
                      else s
  | _, _ => s
  end.

Definition stepR (c : cfg) (s : st) (e : ev) : st :=
  match e with
  | Rx t => stampR s t
  | RxBad t => set_abandoned (stampR s t)
  | Tick t => set_now (fire_dcR c (fire_kaR c s t) t) t
  | Close t =>
      let s1 := apply_ka s t (connectionLost_ka_g add sub eps t (last_rx s) (tmo (cK c)) (use_ka s) (abandoned s) (ka s)) in
      let s2 := apply_dc s1 t (connectionLost_dc_g add sub eps t (last_rx s1) (tmo (cT c)) (use_ka s1) (abandoned s1) (dc s1)) in
      set_closed (set_now s2 t)
  end.

Definition runR (c : cfg) (s : st) (evs : list ev) : st := fold_left (stepR c) evs s.

Fixpoint punctualR (c : cfg) (d : Z) (s : st) (evs : list ev) : Prop :=
  match evs with
  | [] => overdue_ok d s (now s)
  | e :: r => overdue_ok d s (ev_time e) /\ punctualR c d (stepR c s e) r
  end.

End Round.

(* a model of round-to-nearest on a grid of spacing 2*h+1 (for the non-vacuity examples): exact result, then snapped *)
Definition snap (h x : Z) : Z := (x + h) / (2 * h + 1) * (2 * h + 1).
Definition add_snap (h a b : Z) : Z := snap h (a + b).
Definition sub_snap (h a b : Z) : Z := snap h (a - b).

(* `op` is within delta of the exact operation *)
Definition within (delta : Z) (op exact : Z -> Z -> Z) : Prop := forall a b, Z.abs (op a b - exact a b) <= delta.
