(* C17: GLOBAL theorems about the Promise model (lib/Promise.v) for all programs:
   - every message sent to a promise is handed to its resolution exactly once and in send order
     (accounting invariant over the whole state: delivered ++ scheduled ++ queued = sent, as lists);
   - every observer registered with when/_then/_except is told exactly once (as multisets);
   - a promise resolved with a promise ends with the outcome of that promise (chains);
   - every chain link points to a CHAINED promise and every CHAINED promise has exactly one link, hence
     _resolve2 is never entered on a promise that is already NEAR/BROKEN, and no crash event occurs. *)
From Coq Require Import ZArith List Bool Lia Arith Permutation.
Import ListNotations.
Require Import Verif.gen.EventualGen Verif.lib.Promise Verif.lib.PromiseProofs.
Local Open Scope Z_scope.

(* ================================================================== messages *)
Lemma sent_to_app q a b : sent_to q (a ++ b) = sent_to q a ++ sent_to q b.
Proof.
  induction a as [|e a IH]; [reflexivity|]. destruct e; cbn [app sent_to]; rewrite ?IH; try reflexivity.
  destruct (Nat.eqb p q); cbn [app]; rewrite ?IH; reflexivity.
Qed.

Lemma queued_for_app q a b : queued_for q (a ++ b) = queued_for q a ++ queued_for q b.
Proof.
  induction a as [|t a IH]; [reflexivity|]. destruct t; cbn [app queued_for]; rewrite ?IH; try reflexivity.
  destruct (Nat.eqb p q); cbn [app]; rewrite ?IH; reflexivity.
Qed.

Lemma queued_for_deliver q p l : queued_for q (map (TDeliver p) l) = if Nat.eqb p q then map mid l else [].
Proof.
  induction l as [|m l IH]; cbn [map queued_for]; [destruct (Nat.eqb p q); reflexivity|].
  rewrite IH. destruct (Nat.eqb p q); reflexivity.
Qed.

Lemma queued_for_callbacks q p o l : queued_for q (map (fun wt => TCallback p wt o) l) = [].
Proof. induction l as [|w l IH]; cbn [map queued_for]; [reflexivity|exact IH]. Qed.

(* what a step adds to the account of every promise: the messages it hands over, plus what is scheduled and queued
   afterwards, are what was scheduled and queued before plus what it accepted -- as LISTS, i.e. in order *)
Definition Delta (s s' : ps) (e : list pev) : Prop :=
  forall p, delivered_to p e ++ queued_for p (queue s') ++ pending_of s' p
          = queued_for p (queue s) ++ pending_of s p ++ sent_to p e.

Lemma delta_refl s : Delta s s [].
Proof. intros p. cbn [delivered_to sent_to app]. rewrite !app_nil_r. reflexivity. Qed.

Lemma delta_trans s s1 s2 e1 e2 : Delta s s1 e1 -> Delta s1 s2 e2 -> Delta s s2 (e1 ++ e2).
Proof.
  intros A B p. rewrite delivered_to_app, sent_to_app, <- app_assoc, (B p).
  rewrite !app_assoc. rewrite <- (app_assoc (delivered_to p e1)). rewrite (A p). rewrite !app_assoc. reflexivity.
Qed.

Lemma delta_quiet s s' e :
  queue s' = queue s -> (forall p, pending_of s' p = pending_of s p) ->
  (forall p, delivered_to p e = []) -> (forall p, sent_to p e = []) -> Delta s s' e.
Proof. intros Q P D S p. rewrite Q, P, D, S, !app_nil_r. reflexivity. Qed.

Lemma pending_of_setp s p pr' q :
  pending_of (setp s p pr') q = if Nat.eqb q p then map mid (ppending pr') else pending_of s q.
Proof. unfold pending_of, setp, upd. cbn [tbl]. destruct (Nat.eqb q p); reflexivity. Qed.

Lemma delta_setp_keep s p pr0 pr' :
  tbl s p = Some pr0 -> ppending pr' = ppending pr0 -> Delta s (setp s p pr') [].
Proof.
  intros H E. apply delta_quiet; try reflexivity. intros q. rewrite pending_of_setp.
  destruct (Nat.eqb_spec q p) as [->|]; [|reflexivity]. unfold pending_of. rewrite H, E. reflexivity.
Qed.

Lemma delta_set_def s m d : Delta s (set_def s m d) [].
Proof. apply delta_quiet; reflexivity. Qed.

Lemma delta_alloc s : Inv s -> Delta s (fst (alloc s)) [].
Proof.
  intros [W _]. apply delta_quiet; try reflexivity. intros q. unfold pending_of, alloc, upd. cbn [fst tbl].
  destruct (Nat.eqb_spec q (next s)) as [->|]; [|reflexivity].
  destruct (tbl s (next s)) as [pr|] eqn:E; [|reflexivity]. destruct (W _ _ E) as [Hl _]. lia.
Qed.

Lemma resolved_nopending pr : WFp pr -> pending_state (pstate pr) = false -> ppending pr = [].
Proof. intros Wp Hs. destruct (wf_resolved _ Wp Hs) as (o & _ & _ & A & _). exact A. Qed.

Lemma delta_send_op s p m b wr s' e :
  Inv s -> send_op good_pcfg s p m b wr = (s', e) -> Delta s s' e.
Proof.
  intros I. pose proof I as [W Q]. unfold send_op. destruct (tbl s p) as [pr|] eqn:Hp.
  2:{ intros H; injection H as <- <-. apply delta_refl. }
  destruct (W _ _ Hp) as [Hl Wp].
  assert (GA : forall s1 r, (if wr then let '(s1, r) := alloc s in (s1, Some r) else (s, None)) = (s1, r) ->
                            Delta s s1 [] /\ tbl s1 p = Some pr).
  { intros s1 r. destruct wr.
    - intros H. injection H as <- <-. split; [apply delta_alloc; exact I|].
      cbn [alloc fst tbl]. rewrite upd_other by lia. exact Hp.
    - intros H. injection H as <- <-. split; [apply delta_refl|exact Hp]. }
  destruct (if wr then let '(s1, r) := alloc s in (s1, Some r) else (s, None)) as [s1 r] eqn:Ea.
  destruct (GA s1 r eq_refl) as [D1 Hp1].
  cbn [good_pcfg pc_queue_on pc_pending_pos put].
  destruct (pending_state (pstate pr)) eqn:Hs.
  - destruct (plive pr); intros H; injection H as <- <-.
    + replace [ESent p m] with ([] ++ [ESent p m]) by reflexivity. eapply delta_trans; [exact D1|].
      intros q. cbn [setp queue delivered_to sent_to app]. rewrite pending_of_setp.
      destruct (Nat.eqb_spec p q) as [<-|Hn].
      * rewrite Nat.eqb_refl. cbn [ppending]. unfold pending_of. rewrite Hp1, map_app. cbn [map mid].
        rewrite !app_assoc. reflexivity.
      * destruct (Nat.eqb_spec q p) as [->|_]; [contradiction|]. rewrite !app_nil_r. reflexivity.
    + replace [ECrash p true] with ([] ++ [ECrash p true]) by reflexivity. eapply delta_trans; [exact D1|].
      apply delta_quiet; reflexivity.
  - pose proof (resolved_nopending _ Wp Hs) as Hnp.
    intros H; injection H as <- <-.
    replace [ESent p m] with ([] ++ [ESent p m]) by reflexivity. eapply delta_trans; [exact D1|].
    intros q. cbn [enq queue delivered_to sent_to app]. rewrite queued_for_app. cbn [queued_for mid].
    assert (Hpq : pending_of (enq s1 [TDeliver p {| mid := m; mbeh := b; mres := r |}]) q = pending_of s1 q) by reflexivity.
    rewrite Hpq.
    destruct (Nat.eqb_spec p q) as [<-|Hn].
    + unfold pending_of. rewrite Hp1, Hnp. cbn [map]. rewrite !app_nil_r. reflexivity.
    + rewrite !app_nil_r. reflexivity.
Qed.

Lemma delta_resolve2 top s p o s' e :
  Inv s -> resolve2 good_pcfg top s p o = (s', e) -> Delta s s' e.
Proof.
  intros I. pose proof I as [W Q]. unfold resolve2. destruct (tbl s p) as [pr|] eqn:Hp.
  2:{ intros H; injection H as <- <-. apply delta_refl. }
  cbn [good_pcfg pc_break_guard pc_sets_near pc_break_assigns pc_drain_order pc_watch_order].
  match goal with |- (if ?c then _ else _) = _ -> _ => destruct c end.
  { intros H; injection H as <- <-. apply delta_quiet; reflexivity. }
  destruct (plive pr) eqn:Hlive; cbn [negb].
  - intros H; injection H as <- <-. intros q. cbn [enq setp queue delivered_to sent_to app].
    unfold drain_tasks. cbn [ord]. rewrite !queued_for_app, queued_for_deliver, queued_for_callbacks.
    assert (Hpq : forall pr', pending_of (enq (setp s p pr') (map (TDeliver p) (ppending pr) ++
                     map (fun wt => TCallback p wt o) (pwatch pr))) q = pending_of (setp s p pr') q) by reflexivity.
    rewrite Hpq, pending_of_setp. cbn [ppending map].
    destruct (Nat.eqb_spec p q) as [<-|Hn].
    + rewrite Nat.eqb_refl. unfold pending_of. rewrite Hp, !app_nil_r. reflexivity.
    + destruct (Nat.eqb_spec q p) as [->|_]; [contradiction|]. rewrite !app_nil_r. reflexivity.
  - destruct (pending_state (pstate pr)) eqn:Hs.
    + destruct (W _ _ Hp) as [_ Wp]. pose proof (wf_unresolved _ Wp Hs) as (_ & U2 & _). congruence.
    + intros H; injection H as <- <-. apply delta_quiet; reflexivity.
Qed.

Lemma delta_chain_to top s p q s' e :
  Inv s -> chain_to good_pcfg top s p q = (s', e) -> Delta s s' e.
Proof.
  intros I. unfold chain_to. destruct (tbl s q) as [qr|] eqn:Hq.
  2:{ intros H; injection H as <- <-. apply delta_refl. }
  cbn [good_pcfg pc_wait_on]. destruct (pending_state (pstate qr)).
  - destruct (plive qr); intros H; injection H as <- <-.
    + eapply delta_setp_keep; [exact Hq|reflexivity].
    + apply delta_quiet; reflexivity.
  - destruct (ptarget qr); [apply delta_resolve2; exact I|].
    intros H; injection H as <- <-. apply delta_quiet; reflexivity.
Qed.

Lemma delta_resolve_call top s p x s' e :
  Inv s -> resolve_call good_pcfg top s p x = (s', e) -> Delta s s' e.
Proof.
  intros I. pose proof I as [W Q]. unfold resolve_call. destruct (tbl s p) as [pr|] eqn:Hp.
  2:{ intros H; injection H as <- <-. apply delta_refl. }
  destruct (W _ _ Hp) as [Hl Wp]. cbn [good_pcfg pc_resolve_guarded andb].
  destruct (is_eventual (pstate pr)) eqn:He; cbn [negb].
  2:{ intros H; injection H as <- <-. apply delta_quiet; reflexivity. }
  destruct x as [v|f|q]; try (apply delta_resolve2; exact I).
  destruct (tbl s q) as [qr|] eqn:Hq.
  2:{ intros H; injection H as <- <-. apply delta_refl. }
  assert (Hps : pending_state (pstate pr) = true) by (destruct (pstate pr); try discriminate; reflexivity).
  pose proof (wf_unresolved _ Wp Hps) as (U1 & U2 & U3).
  match goal with |- (let '(_, _) := chain_to _ _ ?s1 _ _ in _) = _ -> _ => set (s1' := s1) end.
  assert (G1 : Good s s1' []).
  { eapply setp_good; eauto; left; repeat split; assumption. }
  assert (D1 : Delta s s1' []) by (eapply delta_setp_keep; [exact Hp|reflexivity]).
  destruct (chain_to good_pcfg top s1' p q) as [s2 e2] eqn:Ec.
  intros H; injection H as <- <-. apply delta_chain_to in Ec; [|eapply good_inv; exact G1].
  change (EChained p q :: e2) with ([] ++ ([EChained p q] ++ e2)).
  eapply delta_trans; [exact D1|]. eapply delta_trans; [|exact Ec]. apply delta_quiet; reflexivity.
Qed.

Lemma delta_resolver s r x s' e : Inv s -> resolver good_pcfg s r x = (s', e) -> Delta s s' e.
Proof.
  intros I. unfold resolver. destruct r; [apply delta_resolve_call; exact I|].
  intros H; injection H as <- <-. apply delta_refl.
Qed.

Lemma delta_resolver_opt s r x s' e : Inv s -> resolver_opt good_pcfg s r x = (s', e) -> Delta s s' e.
Proof.
  intros I. unfold resolver_opt. destruct x; [apply delta_resolver; exact I|].
  intros H; injection H as <- <-. apply delta_refl.
Qed.

Lemma delta_meth_send s m s0 e0 : Inv s -> meth_send good_pcfg s m = (s0, e0) -> Delta s s0 e0.
Proof.
  intros I. unfold meth_send. destruct (mbeh m); try (intros H; injection H as <- <-; apply delta_refl).
  apply delta_send_op. exact I.
Qed.

Lemma delta_meth_result nx s0 m s1 x : meth_result nx s0 m = (s1, x) -> Delta s0 s1 [].
Proof.
  unfold meth_result. destruct (mbeh m); try (intros H; injection H as <- _; apply delta_refl).
  destruct (dget (defs s0) (mid m)) as [[r|x0|]|]; intros H; injection H as <- _;
    first [apply delta_set_def | apply delta_refl].
Qed.

Lemma delta_when_op s p w s' e : when_op good_pcfg s p w = (s', e) -> Delta s s' e.
Proof.
  unfold when_op. destruct (tbl s p) as [pr|] eqn:Hp.
  2:{ intros H; injection H as <- <-. apply delta_refl. }
  cbn [good_pcfg pc_wait_on]. destruct (pending_state (pstate pr)).
  - destruct (plive pr); intros H; injection H as <- <-.
    + replace [EWhen p w] with ([EWhen p w] ++ []) by reflexivity.
      eapply delta_trans; [apply (delta_quiet s s); reflexivity|]. eapply delta_setp_keep; [exact Hp|reflexivity].
    + apply delta_quiet; reflexivity.
  - destruct (ptarget pr); intros H; injection H as <- <-; apply delta_quiet; reflexivity.
Qed.

(* one task leaves the queue: a delivery task hands ITS message to ITS promise, once *)
Lemma delta_run_one s s' e : Inv s -> run_one good_pcfg s = (s', e) -> Delta s s' e.
Proof.
  intros I. pose proof I as [W Q]. unfold run_one. destruct (queue s) as [|t q'] eqn:Eq.
  { intros H; injection H as <- <-. apply delta_refl. }
  set (s0 := {| tbl := tbl s; next := next s; queue := q'; defs := defs s |}).
  assert (I0 : Inv s0) by (split; [exact W|]; inversion Q; assumption).
  assert (T0 : task_ok s0 t) by (inversion Q; assumption).
  destruct t as [p m|p [w|p'] o]; cbn [run_task].
  - destruct T0 as (pr & o & Hp & R). rewrite Hp. pose proof R as (T & _). rewrite T.
    (* popping the head and reporting the delivery *)
    assert (D0 : Delta s s0 [EDelivered p (mid m) o]).
    { intros q. rewrite Eq. cbn [s0 queue queued_for delivered_to sent_to].
      assert (Hpq : pending_of s0 q = pending_of s q) by reflexivity. rewrite Hpq.
      destruct (Nat.eqb p q); cbn [app]; rewrite !app_nil_r; reflexivity. }
    assert (D0N : Delta s s0 [dev p m o]).
    { unfold dev. destruct (invocable (mbeh m)); [exact D0|].
      intros q. rewrite Eq. cbn [s0 queue queued_for delivered_to sent_to].
      assert (Hpq : pending_of s0 q = pending_of s q) by reflexivity. rewrite Hpq.
      destruct (Nat.eqb p q); cbn [app]; rewrite !app_nil_r; reflexivity. }
    destruct o as [v|f].
    + destruct (meth_send good_pcfg s0 m) as [s1 e1] eqn:E1.
      destruct (meth_result (next s0) s1 m) as [s2 x] eqn:E2.
      destruct (resolver_opt good_pcfg s2 (mres m) x) as [s3 e3] eqn:E3.
      intros H; injection H as <- <-.
      pose proof (meth_send_good _ _ _ _ I0 E1) as G1. apply delta_meth_send in E1; [|exact I0].
      pose proof (meth_result_good _ _ _ _ _ (good_inv _ _ _ G1) E2) as G2. apply delta_meth_result in E2.
      apply delta_resolver_opt in E3; [|eapply good_inv; exact G2].
      change (dev p m (Val v) :: e1 ++ e3) with ([dev p m (Val v)] ++ (e1 ++ ([] ++ e3))).
      eapply delta_trans; [exact D0N|]. eapply delta_trans; [exact E1|]. eapply delta_trans; eassumption.
    + destruct (resolver good_pcfg s0 (mres m) (RFail f)) as [s1 e1] eqn:E1.
      intros H; injection H as <- <-. apply delta_resolver in E1; [|exact I0].
      change (EDelivered p (mid m) (Fail f) :: e1) with ([EDelivered p (mid m) (Fail f)] ++ e1).
      eapply delta_trans; eassumption.
  - intros H; injection H as <- <-.
    replace [EObserved p w o] with ([] ++ [EObserved p w o]) by reflexivity.
    eapply (delta_trans s s0 s0).
    + intros q. rewrite Eq. cbn [s0 queue queued_for delivered_to sent_to app]. rewrite app_nil_r. reflexivity.
    + apply delta_quiet; reflexivity.
  - intros H. apply delta_resolve2 in H; [|exact I0].
    replace e with ([] ++ e) by reflexivity. eapply delta_trans; [|exact H].
    intros q. rewrite Eq. cbn [s0 queue queued_for delivered_to sent_to app]. rewrite app_nil_r. reflexivity.
Qed.

Lemma delta_run_n n : forall s s' e, Inv s -> run_n good_pcfg n s = (s', e) -> Delta s s' e.
Proof.
  induction n as [|n IH]; intros s s' e I; cbn [run_n].
  - intros H; injection H as <- <-. apply delta_refl.
  - destruct (run_one good_pcfg s) as [s1 t1] eqn:E1. destruct (run_n good_pcfg n s1) as [s2 t2] eqn:E2.
    intros H; injection H as <- <-. pose proof (run_one_good _ _ _ I E1) as G1.
    apply delta_run_one in E1; [|exact I]. apply IH in E2; [|eapply good_inv; exact G1]. eapply delta_trans; eassumption.
Qed.

Lemma delta_fire_def s m x s' e : Inv s -> fire_def good_pcfg s m x = (s', e) -> Delta s s' e.
Proof.
  intros I. unfold fire_def.
  match goal with |- (if ?c then _ else _) = _ -> _ => destruct c end.
  { intros H; injection H as <- <-. apply delta_refl. }
  destruct (dget (defs s) m) as [[r|x0|]|].
  - intros H. apply delta_resolver in H; [|eapply good_inv; apply set_def_good; exact I].
    replace e with ([] ++ e) by reflexivity. eapply delta_trans; [apply delta_set_def|exact H].
  - intros H; injection H as <- <-. apply delta_refl.
  - intros H; injection H as <- <-. apply delta_refl.
  - intros H; injection H as <- <-. apply delta_set_def.
Qed.

Lemma delta_pstep s o s' e : Inv s -> pstep good_pcfg s o = (s', e) -> Delta s s' e.
Proof.
  intros I. destruct o as [|p m b|p m b|p w|p x|m x|]; cbn [pstep].
  - intros H; injection H as <- <-. apply delta_alloc; exact I.
  - apply delta_send_op; exact I.
  - apply delta_send_op; exact I.
  - apply delta_when_op.
  - destruct x as [v|f|q]; try (apply delta_resolve_call; exact I).
    destruct (Nat.ltb q (next s)); [apply delta_resolve_call; exact I|].
    intros H; injection H as <- <-. apply delta_refl.
  - apply delta_fire_def; exact I.
  - apply delta_run_n; exact I.
Qed.

Lemma delta_prun ops : forall s s' e, Inv s -> prun good_pcfg s ops = (s', e) -> Delta s s' e.
Proof.
  induction ops as [|o ops IH]; intros s s' e I; cbn [prun].
  - intros H; injection H as <- <-. apply delta_refl.
  - destruct (pstep good_pcfg s o) as [s1 t1] eqn:E1. destruct (prun good_pcfg s1 ops) as [s2 t2] eqn:E2.
    intros H; injection H as <- <-. pose proof (pstep_good _ _ _ _ I E1) as G1.
    apply delta_pstep in E1; [|exact I]. apply IH in E2; [|eapply good_inv; exact G1]. eapply delta_trans; eassumption.
Qed.

(* "A Promise delivers every message sent to it, in send order and exactly once, to its resolution": for every
   program and every promise, the messages accepted for it are -- as a list, so with order and multiplicity -- those
   already handed to its resolution, followed by those scheduled in the eventual-send queue, followed by those still
   held in _pendingMethods *)
Theorem pr_delivery_global : forall ops s t p,
  prun src_pcfg ps0 ops = (s, t) ->
  sent_to p t = delivered_to p t ++ queued_for p (queue s) ++ pending_of s p.
Proof.
  rewrite src_is_good. intros ops s t p H. apply delta_prun in H; [|exact inv_ps0].
  specialize (H p). cbn [ps0 queue queued_for app] in H. unfold pending_of in H at 2. cbn [ps0 tbl app] in H.
  symmetry. exact H.
Qed.

(* ... and once the queue has drained and the promise is resolved, delivered = sent *)
Corollary pr_delivery_complete : forall ops s t p pr,
  prun src_pcfg ps0 ops = (s, t) -> queue s = [] -> tbl s p = Some pr ->
  (pstate pr = SNear \/ pstate pr = SBroken) -> delivered_to p t = sent_to p t.
Proof.
  intros ops s t p pr H Hq Hp Hs. rewrite (pr_delivery_global _ _ _ p H), Hq. cbn [queued_for app].
  rewrite src_is_good in H. apply prun_good in H; [|exact inv_ps0]. destruct H as ([W _] & _ & _).
  destruct (W _ _ Hp) as [_ Wp]. unfold pending_of. rewrite Hp, (resolved_nopending _ Wp).
  - rewrite app_nil_r. reflexivity.
  - destruct Hs as [-> | ->]; reflexivity.
Qed.

(* ================================================================== observers *)
Lemma whens_app q a b : whens q (a ++ b) = whens q a ++ whens q b.
Proof.
  induction a as [|e a IH]; [reflexivity|]. destruct e; cbn [app whens]; rewrite ?IH; try reflexivity.
  destruct (Nat.eqb p q); cbn [app]; rewrite ?IH; reflexivity.
Qed.
Lemma observed_app q a b : observed q (a ++ b) = observed q a ++ observed q b.
Proof.
  induction a as [|e a IH]; [reflexivity|]. destruct e; cbn [app observed]; rewrite ?IH; try reflexivity.
  destruct (Nat.eqb p q); cbn [app]; rewrite ?IH; reflexivity.
Qed.
Lemma cb_for_app q a b : cb_for q (a ++ b) = cb_for q a ++ cb_for q b.
Proof.
  induction a as [|t a IH]; [reflexivity|]. destruct t as [p m|p [w|p'] o]; cbn [app cb_for]; rewrite ?IH; try reflexivity.
  destruct (Nat.eqb p q); cbn [app]; rewrite ?IH; reflexivity.
Qed.
Lemma cb_for_deliver q p l : cb_for q (map (TDeliver p) l) = [].
Proof. induction l as [|m l IH]; cbn [map cb_for]; [reflexivity|exact IH]. Qed.
Lemma cb_for_callbacks q p o l :
  cb_for q (map (fun wt => TCallback p wt o) l) = if Nat.eqb p q then wids l else [].
Proof.
  induction l as [|w l IH]; cbn [map cb_for wids]; [destruct (Nat.eqb p q); reflexivity|].
  destruct w as [w|p']; cbn [cb_for wids]; rewrite IH; destruct (Nat.eqb p q); reflexivity.
Qed.
Lemma wids_app a b : wids (a ++ b) = wids a ++ wids b.
Proof. induction a as [|w a IH]; [reflexivity|]. destruct w; cbn [app wids]; rewrite IH; reflexivity. Qed.

Definition DeltaW (s s' : ps) (e : list pev) : Prop :=
  forall p, Permutation (observed p e ++ cb_for p (queue s') ++ watching s' p)
                        (cb_for p (queue s) ++ watching s p ++ whens p e).

Lemma dw_of_eq s s' e :
  (forall p, observed p e ++ cb_for p (queue s') ++ watching s' p = cb_for p (queue s) ++ watching s p ++ whens p e) ->
  DeltaW s s' e.
Proof. intros H p. rewrite (H p). apply Permutation_refl. Qed.

Lemma dw_refl s : DeltaW s s [].
Proof. apply dw_of_eq. intros p. cbn [observed whens app]. rewrite !app_nil_r. reflexivity. Qed.

Lemma dw_trans s s1 s2 e1 e2 : DeltaW s s1 e1 -> DeltaW s1 s2 e2 -> DeltaW s s2 (e1 ++ e2).
Proof.
  intros A B p. rewrite observed_app, whens_app, <- app_assoc.
  eapply perm_trans; [apply Permutation_app_head; exact (B p)|].
  rewrite !app_assoc. apply Permutation_app_tail. rewrite <- !app_assoc. exact (A p).
Qed.

Lemma dw_quiet s s' e :
  queue s' = queue s -> (forall p, watching s' p = watching s p) ->
  (forall p, observed p e = []) -> (forall p, whens p e = []) -> DeltaW s s' e.
Proof. intros Q P D S. apply dw_of_eq. intros p. rewrite Q, P, D, S, !app_nil_r. reflexivity. Qed.

Lemma watching_setp s p pr' q :
  watching (setp s p pr') q = if Nat.eqb q p then wids (pwatch pr') else watching s q.
Proof. unfold watching, setp, upd. cbn [tbl]. destruct (Nat.eqb q p); reflexivity. Qed.

Lemma dw_setp_keep s p pr0 pr' :
  tbl s p = Some pr0 -> wids (pwatch pr') = wids (pwatch pr0) -> DeltaW s (setp s p pr') [].
Proof.
  intros H E. apply dw_quiet; try reflexivity. intros q. rewrite watching_setp.
  destruct (Nat.eqb_spec q p) as [->|]; [|reflexivity]. unfold watching. rewrite H, E. reflexivity.
Qed.

Lemma dw_set_def s m d : DeltaW s (set_def s m d) [].
Proof. apply dw_quiet; reflexivity. Qed.

Lemma dw_alloc s : Inv s -> DeltaW s (fst (alloc s)) [].
Proof.
  intros [W _]. apply dw_quiet; try reflexivity. intros q. unfold watching, alloc, upd. cbn [fst tbl].
  destruct (Nat.eqb_spec q (next s)) as [->|]; [|reflexivity].
  destruct (tbl s (next s)) as [pr|] eqn:E; [|reflexivity]. destruct (W _ _ E) as [Hl _]. lia.
Qed.

Lemma dw_send_op s p m b wr s' e :
  Inv s -> send_op good_pcfg s p m b wr = (s', e) -> DeltaW s s' e.
Proof.
  intros I. pose proof I as [W Q]. unfold send_op. destruct (tbl s p) as [pr|] eqn:Hp.
  2:{ intros H; injection H as <- <-. apply dw_refl. }
  destruct (W _ _ Hp) as [Hl Wp].
  assert (GA : forall s1 r, (if wr then let '(s1, r) := alloc s in (s1, Some r) else (s, None)) = (s1, r) ->
                            DeltaW s s1 [] /\ tbl s1 p = Some pr).
  { intros s1 r. destruct wr.
    - intros H. injection H as <- <-. split; [apply dw_alloc; exact I|].
      cbn [alloc fst tbl]. rewrite upd_other by lia. exact Hp.
    - intros H. injection H as <- <-. split; [apply dw_refl|exact Hp]. }
  destruct (if wr then let '(s1, r) := alloc s in (s1, Some r) else (s, None)) as [s1 r] eqn:Ea.
  destruct (GA s1 r eq_refl) as [D1 Hp1].
  cbn [good_pcfg pc_queue_on pc_pending_pos put].
  destruct (pending_state (pstate pr)) eqn:Hs.
  - destruct (plive pr); intros H; injection H as <- <-.
    + replace [ESent p m] with ([] ++ ([ESent p m] ++ [])) by reflexivity. eapply dw_trans; [exact D1|].
      eapply dw_trans; [apply (dw_quiet s1 s1); reflexivity|]. eapply dw_setp_keep; [exact Hp1|reflexivity].
    + replace [ECrash p true] with ([] ++ [ECrash p true]) by reflexivity. eapply dw_trans; [exact D1|].
      apply dw_quiet; reflexivity.
  - intros H; injection H as <- <-.
    replace [ESent p m] with ([] ++ [ESent p m]) by reflexivity. eapply dw_trans; [exact D1|].
    apply dw_of_eq. intros q. cbn [enq queue observed whens app]. rewrite cb_for_app. cbn [cb_for].
    assert (Hpq : watching (enq s1 [TDeliver p {| mid := m; mbeh := b; mres := r |}]) q = watching s1 q) by reflexivity.
    rewrite Hpq, !app_nil_r. reflexivity.
Qed.

Lemma dw_resolve2 top s p o s' e :
  Inv s -> resolve2 good_pcfg top s p o = (s', e) -> DeltaW s s' e.
Proof.
  intros I. pose proof I as [W Q]. unfold resolve2. destruct (tbl s p) as [pr|] eqn:Hp.
  2:{ intros H; injection H as <- <-. apply dw_refl. }
  cbn [good_pcfg pc_break_guard pc_sets_near pc_break_assigns pc_drain_order pc_watch_order].
  match goal with |- (if ?c then _ else _) = _ -> _ => destruct c end.
  { intros H; injection H as <- <-. apply dw_quiet; reflexivity. }
  destruct (plive pr) eqn:Hlive; cbn [negb].
  - intros H; injection H as <- <-. apply dw_of_eq. intros q. cbn [enq setp queue observed whens app].
    unfold drain_tasks. cbn [ord]. rewrite !cb_for_app, cb_for_deliver, cb_for_callbacks.
    assert (Hpq : forall pr', watching (enq (setp s p pr') (map (TDeliver p) (ppending pr) ++
                     map (fun wt => TCallback p wt o) (pwatch pr))) q = watching (setp s p pr') q) by reflexivity.
    rewrite Hpq, watching_setp. cbn [pwatch wids app].
    destruct (Nat.eqb_spec p q) as [<-|Hn].
    + rewrite Nat.eqb_refl. unfold watching. rewrite Hp, !app_nil_r. reflexivity.
    + destruct (Nat.eqb_spec q p) as [->|_]; [contradiction|]. rewrite !app_nil_r. reflexivity.
  - destruct (pending_state (pstate pr)) eqn:Hs.
    + destruct (W _ _ Hp) as [_ Wp]. pose proof (wf_unresolved _ Wp Hs) as (_ & U2 & _). congruence.
    + intros H; injection H as <- <-. apply dw_quiet; reflexivity.
Qed.

Lemma dw_chain_to top s p q s' e :
  Inv s -> chain_to good_pcfg top s p q = (s', e) -> DeltaW s s' e.
Proof.
  intros I. unfold chain_to. destruct (tbl s q) as [qr|] eqn:Hq.
  2:{ intros H; injection H as <- <-. apply dw_refl. }
  cbn [good_pcfg pc_wait_on]. destruct (pending_state (pstate qr)).
  - destruct (plive qr); intros H; injection H as <- <-.
    + eapply dw_setp_keep; [exact Hq|]. cbn [pwatch]. rewrite wids_app. cbn [wids]. apply app_nil_r.
    + apply dw_quiet; reflexivity.
  - destruct (ptarget qr); [apply dw_resolve2; exact I|].
    intros H; injection H as <- <-. apply dw_quiet; reflexivity.
Qed.

Lemma dw_resolve_call top s p x s' e :
  Inv s -> resolve_call good_pcfg top s p x = (s', e) -> DeltaW s s' e.
Proof.
  intros I. pose proof I as [W Q]. unfold resolve_call. destruct (tbl s p) as [pr|] eqn:Hp.
  2:{ intros H; injection H as <- <-. apply dw_refl. }
  destruct (W _ _ Hp) as [Hl Wp]. cbn [good_pcfg pc_resolve_guarded andb].
  destruct (is_eventual (pstate pr)) eqn:He; cbn [negb].
  2:{ intros H; injection H as <- <-. apply dw_quiet; reflexivity. }
  destruct x as [v|f|q]; try (apply dw_resolve2; exact I).
  destruct (tbl s q) as [qr|] eqn:Hq.
  2:{ intros H; injection H as <- <-. apply dw_refl. }
  assert (Hps : pending_state (pstate pr) = true) by (destruct (pstate pr); try discriminate; reflexivity).
  pose proof (wf_unresolved _ Wp Hps) as (U1 & U2 & U3).
  match goal with |- (let '(_, _) := chain_to _ _ ?s1 _ _ in _) = _ -> _ => set (s1' := s1) end.
  assert (G1 : Good s s1' []).
  { eapply setp_good; eauto; left; repeat split; assumption. }
  assert (D1 : DeltaW s s1' []) by (eapply dw_setp_keep; [exact Hp|reflexivity]).
  destruct (chain_to good_pcfg top s1' p q) as [s2 e2] eqn:Ec.
  intros H; injection H as <- <-. apply dw_chain_to in Ec; [|eapply good_inv; exact G1].
  change (EChained p q :: e2) with ([] ++ ([EChained p q] ++ e2)).
  eapply dw_trans; [exact D1|]. eapply dw_trans; [|exact Ec]. apply dw_quiet; reflexivity.
Qed.

Lemma dw_resolver s r x s' e : Inv s -> resolver good_pcfg s r x = (s', e) -> DeltaW s s' e.
Proof.
  intros I. unfold resolver. destruct r; [apply dw_resolve_call; exact I|].
  intros H; injection H as <- <-. apply dw_refl.
Qed.

Lemma dw_resolver_opt s r x s' e : Inv s -> resolver_opt good_pcfg s r x = (s', e) -> DeltaW s s' e.
Proof.
  intros I. unfold resolver_opt. destruct x; [apply dw_resolver; exact I|].
  intros H; injection H as <- <-. apply dw_refl.
Qed.

Lemma dw_meth_send s m s0 e0 : Inv s -> meth_send good_pcfg s m = (s0, e0) -> DeltaW s s0 e0.
Proof.
  intros I. unfold meth_send. destruct (mbeh m); try (intros H; injection H as <- <-; apply dw_refl).
  apply dw_send_op. exact I.
Qed.

Lemma dw_meth_result nx s0 m s1 x : meth_result nx s0 m = (s1, x) -> DeltaW s0 s1 [].
Proof.
  unfold meth_result. destruct (mbeh m); try (intros H; injection H as <- _; apply dw_refl).
  destruct (dget (defs s0) (mid m)) as [[r|x0|]|]; intros H; injection H as <- _;
    first [apply dw_set_def | apply dw_refl].
Qed.

(* when() on a resolved promise answers at once -- possibly before observers whose callbacks are still scheduled:
   the only place where the account holds as a multiset and not as a list *)
Lemma dw_when_op s p w s' e : when_op good_pcfg s p w = (s', e) -> DeltaW s s' e.
Proof.
  unfold when_op. destruct (tbl s p) as [pr|] eqn:Hp.
  2:{ intros H; injection H as <- <-. apply dw_refl. }
  cbn [good_pcfg pc_wait_on]. destruct (pending_state (pstate pr)).
  - destruct (plive pr); intros H; injection H as <- <-.
    + apply dw_of_eq. intros q. cbn [setp queue observed whens app]. rewrite watching_setp. cbn [pwatch].
      destruct (Nat.eqb_spec p q) as [<-|Hn].
      * rewrite Nat.eqb_refl. unfold watching. rewrite Hp, wids_app. cbn [wids]. rewrite !app_assoc. reflexivity.
      * destruct (Nat.eqb_spec q p) as [->|_]; [contradiction|]. rewrite !app_nil_r. reflexivity.
    + apply dw_quiet; reflexivity.
  - destruct (ptarget pr); intros H; injection H as <- <-; [|apply dw_quiet; reflexivity].
    intros q. cbn [observed whens]. destruct (Nat.eqb p q); cbn [app].
    + rewrite app_assoc. apply (Permutation_app_comm [w]).
    + rewrite !app_nil_r. apply Permutation_refl.
Qed.

Lemma dw_run_one s s' e : Inv s -> run_one good_pcfg s = (s', e) -> DeltaW s s' e.
Proof.
  intros I. pose proof I as [W Q]. unfold run_one. destruct (queue s) as [|t q'] eqn:Eq.
  { intros H; injection H as <- <-. apply dw_refl. }
  set (s0 := {| tbl := tbl s; next := next s; queue := q'; defs := defs s |}).
  assert (I0 : Inv s0) by (split; [exact W|]; inversion Q; assumption).
  assert (T0 : task_ok s0 t) by (inversion Q; assumption).
  destruct t as [p m|p [w|p'] o]; cbn [run_task].
  - destruct T0 as (pr & o & Hp & R). rewrite Hp. pose proof R as (T & _). rewrite T.
    assert (D0 : DeltaW s s0 [EDelivered p (mid m) o]).
    { apply dw_of_eq. intros q. rewrite Eq. cbn [s0 queue cb_for observed whens app]. rewrite app_nil_r. reflexivity. }
    assert (D0N : DeltaW s s0 [dev p m o]).
    { unfold dev. destruct (invocable (mbeh m)); [exact D0|].
      apply dw_of_eq. intros q. rewrite Eq. cbn [s0 queue cb_for observed whens app]. rewrite app_nil_r. reflexivity. }
    destruct o as [v|f].
    + destruct (meth_send good_pcfg s0 m) as [s1 e1] eqn:E1.
      destruct (meth_result (next s0) s1 m) as [s2 x] eqn:E2.
      destruct (resolver_opt good_pcfg s2 (mres m) x) as [s3 e3] eqn:E3.
      intros H; injection H as <- <-.
      pose proof (meth_send_good _ _ _ _ I0 E1) as G1. apply dw_meth_send in E1; [|exact I0].
      pose proof (meth_result_good _ _ _ _ _ (good_inv _ _ _ G1) E2) as G2. apply dw_meth_result in E2.
      apply dw_resolver_opt in E3; [|eapply good_inv; exact G2].
      change (dev p m (Val v) :: e1 ++ e3) with ([dev p m (Val v)] ++ (e1 ++ ([] ++ e3))).
      eapply dw_trans; [exact D0N|]. eapply dw_trans; [exact E1|]. eapply dw_trans; eassumption.
    + destruct (resolver good_pcfg s0 (mres m) (RFail f)) as [s1 e1] eqn:E1.
      intros H; injection H as <- <-. apply dw_resolver in E1; [|exact I0].
      change (EDelivered p (mid m) (Fail f) :: e1) with ([EDelivered p (mid m) (Fail f)] ++ e1).
      eapply dw_trans; eassumption.
  - intros H; injection H as <- <-. apply dw_of_eq. intros q. rewrite Eq.
    cbn [s0 queue cb_for observed whens]. destruct (Nat.eqb p q); cbn [app]; rewrite !app_nil_r; reflexivity.
  - intros H. apply dw_resolve2 in H; [|exact I0].
    replace e with ([] ++ e) by reflexivity. eapply dw_trans; [|exact H].
    apply dw_of_eq. intros q. rewrite Eq. cbn [s0 queue cb_for observed whens app]. rewrite app_nil_r. reflexivity.
Qed.

Lemma dw_run_n n : forall s s' e, Inv s -> run_n good_pcfg n s = (s', e) -> DeltaW s s' e.
Proof.
  induction n as [|n IH]; intros s s' e I; cbn [run_n].
  - intros H; injection H as <- <-. apply dw_refl.
  - destruct (run_one good_pcfg s) as [s1 t1] eqn:E1. destruct (run_n good_pcfg n s1) as [s2 t2] eqn:E2.
    intros H; injection H as <- <-. pose proof (run_one_good _ _ _ I E1) as G1.
    apply dw_run_one in E1; [|exact I]. apply IH in E2; [|eapply good_inv; exact G1]. eapply dw_trans; eassumption.
Qed.

Lemma dw_fire_def s m x s' e : Inv s -> fire_def good_pcfg s m x = (s', e) -> DeltaW s s' e.
Proof.
  intros I. unfold fire_def.
  match goal with |- (if ?c then _ else _) = _ -> _ => destruct c end.
  { intros H; injection H as <- <-. apply dw_refl. }
  destruct (dget (defs s) m) as [[r|x0|]|].
  - intros H. apply dw_resolver in H; [|eapply good_inv; apply set_def_good; exact I].
    replace e with ([] ++ e) by reflexivity. eapply dw_trans; [apply dw_set_def|exact H].
  - intros H; injection H as <- <-. apply dw_refl.
  - intros H; injection H as <- <-. apply dw_refl.
  - intros H; injection H as <- <-. apply dw_set_def.
Qed.

Lemma dw_pstep s o s' e : Inv s -> pstep good_pcfg s o = (s', e) -> DeltaW s s' e.
Proof.
  intros I. destruct o as [|p m b|p m b|p w|p x|m x|]; cbn [pstep].
  - intros H; injection H as <- <-. apply dw_alloc; exact I.
  - apply dw_send_op; exact I.
  - apply dw_send_op; exact I.
  - apply dw_when_op.
  - destruct x as [v|f|q]; try (apply dw_resolve_call; exact I).
    destruct (Nat.ltb q (next s)); [apply dw_resolve_call; exact I|].
    intros H; injection H as <- <-. apply dw_refl.
  - apply dw_fire_def; exact I.
  - apply dw_run_n; exact I.
Qed.

Lemma dw_prun ops : forall s s' e, Inv s -> prun good_pcfg s ops = (s', e) -> DeltaW s s' e.
Proof.
  induction ops as [|o ops IH]; intros s s' e I; cbn [prun].
  - intros H; injection H as <- <-. apply dw_refl.
  - destruct (pstep good_pcfg s o) as [s1 t1] eqn:E1. destruct (prun good_pcfg s1 ops) as [s2 t2] eqn:E2.
    intros H; injection H as <- <-. pose proof (pstep_good _ _ _ _ I E1) as G1.
    apply dw_pstep in E1; [|exact I]. apply IH in E2; [|eapply good_inv; exact G1]. eapply dw_trans; eassumption.
Qed.

(* "every past and future observer (when/_then/_except) sees that same outcome" -- the counting half: for every
   program and promise, the observers registered are, with multiplicity, those already told, those whose callback
   is scheduled and those still waiting in _watchers: nobody is told twice, nobody is dropped *)
Theorem pr_observers_exactly_once : forall ops s t p,
  prun src_pcfg ps0 ops = (s, t) ->
  Permutation (observed p t ++ cb_for p (queue s) ++ watching s p) (whens p t).
Proof.
  rewrite src_is_good. intros ops s t p H. apply dw_prun in H; [|exact inv_ps0].
  specialize (H p). cbn [ps0 queue cb_for app] in H. unfold watching in H at 2. cbn [ps0 tbl app] in H. exact H.
Qed.

(* ================================================================== chain links *)
Local Open Scope nat_scope.

Lemma cnt_app p a b : cnt p (a ++ b) = cnt p a + cnt p b.
Proof. induction a as [|w a IH]; [reflexivity|]. destruct w; cbn [app cnt]; rewrite IH; lia. Qed.
Lemma cnt_q_app p a b : cnt_q p (a ++ b) = cnt_q p a + cnt_q p b.
Proof.
  induction a as [|t a IH]; [reflexivity|]. destruct t as [p0 m|p0 [w|p'] o]; cbn [app cnt_q]; rewrite IH; lia.
Qed.
Lemma cnt_q_deliver p q l : cnt_q p (map (TDeliver q) l) = 0.
Proof. induction l as [|m l IH]; cbn [map cnt_q]; [reflexivity|exact IH]. Qed.
Lemma cnt_q_callbacks p q o l : cnt_q p (map (fun wt => TCallback q wt o) l) = cnt p l.
Proof. induction l as [|w l IH]; cbn [map cnt_q cnt]; [reflexivity|]. destruct w; cbn [cnt_q cnt]; rewrite IH; reflexivity. Qed.
Lemma cnt_in p l : In (Chain p) l -> 1 <= cnt p l.
Proof.
  induction l as [|w l IH]; [intros []|]. intros [->|H]; cbn [cnt].
  - rewrite Nat.eqb_refl. lia.
  - specialize (IH H). destruct w; lia.
Qed.
Lemma cnt_q_in p q o l : In (TCallback q (Chain p) o) l -> 1 <= cnt_q p l.
Proof.
  induction l as [|t l IH]; [intros []|]. intros [->|H]; cbn [cnt_q].
  - rewrite Nat.eqb_refl. lia.
  - specialize (IH H). destruct t as [p0 m|p0 [w|p'] o0]; lia.
Qed.

Lemma cnt_tbl_upd_out p t q pr' n : n <= q -> cnt_tbl p (upd t q pr') n = cnt_tbl p t n.
Proof.
  induction n as [|n IH]; [reflexivity|]. intros H. cbn [cnt_tbl]. rewrite IH by lia.
  rewrite upd_other by lia. reflexivity.
Qed.
Lemma cnt_tbl_upd p t q pr' n :
  q < n -> cnt_tbl p (upd t q pr') n + cnt p (watch_of (t q)) = cnt_tbl p t n + cnt p (pwatch pr').
Proof.
  induction n as [|n IH]; [lia|]. intros H. cbn [cnt_tbl]. destruct (Nat.eq_dec q n) as [->|Hn].
  - rewrite cnt_tbl_upd_out by lia. rewrite upd_same. cbn [watch_of]. lia.
  - rewrite upd_other by lia. assert (Hq : q < n) by lia. specialize (IH Hq). lia.
Qed.
Lemma cnt_tbl_ge p t q n : q < n -> cnt p (watch_of (t q)) <= cnt_tbl p t n.
Proof.
  induction n as [|n IH]; [lia|]. intros H. cbn [cnt_tbl]. destruct (Nat.eq_dec q n) as [->|Hn]; [lia|].
  assert (Hq : q < n) by lia. specialize (IH Hq). lia.
Qed.

Lemma nlinks_setp p s q pr0 pr' :
  tbl s q = Some pr0 -> q < next s ->
  nlinks p (setp s q pr') + cnt p (pwatch pr0) = nlinks p s + cnt p (pwatch pr').
Proof.
  intros H Hl. unfold nlinks. cbn [setp tbl next queue].
  pose proof (cnt_tbl_upd p (tbl s) q pr' (next s) Hl) as E. rewrite H in E. cbn [watch_of] in E. lia.
Qed.
Lemma nlinks_enq p s ts : nlinks p (enq s ts) = nlinks p s + cnt_q p ts.
Proof. unfold nlinks. cbn [enq tbl next queue]. rewrite cnt_q_app. lia. Qed.
Lemma nlinks_alloc p s : nlinks p (fst (alloc s)) = nlinks p s.
Proof.
  unfold nlinks. cbn [alloc fst tbl next queue cnt_tbl]. rewrite cnt_tbl_upd_out by lia. rewrite upd_same.
  cbn [watch_of fresh pwatch cnt]. lia.
Qed.

Lemma want_links_setp s q pr' p :
  want_links (setp s q pr') p = if Nat.eqb p q then (if is_chained (pstate pr') then 1 else 0) else want_links s p.
Proof. unfold want_links, setp, upd. cbn [tbl]. destruct (Nat.eqb p q); reflexivity. Qed.

Lemma want_links_enq s ts p : want_links (enq s ts) p = want_links s p.
Proof. reflexivity. Qed.

(* every promise has as many links as it must have -- except x, which has none (its link has just been taken) *)
Definition LI (x : option nat) (s : ps) : Prop :=
  forall p, nlinks p s = match x with
                         | Some p0 => if Nat.eqb p0 p then 0 else want_links s p
                         | None => want_links s p
                         end.
Definition NoCrash (e : list pev) : Prop := forall p top, ~ In (ECrash p top) e.

Lemma nocrash_nil : NoCrash [].
Proof. intros p top []. Qed.
Lemma nocrash_app a b : NoCrash a -> NoCrash b -> NoCrash (a ++ b).
Proof. intros A B p top H. apply in_app_or in H as [H|H]; [eapply A|eapply B]; eauto. Qed.
Lemma nocrash_one e : (forall p top, e <> ECrash p top) -> NoCrash [e].
Proof. intros H p top [E|[]]. eapply H; eauto. Qed.

Lemma li_some_none p s : LI (Some p) s -> want_links s p = 0 -> LI None s.
Proof. intros H Hw q. rewrite (H q). destruct (Nat.eqb_spec p q) as [<-|]; [symmetry; exact Hw|reflexivity]. Qed.
Lemma li_none_some p s : LI None s -> want_links s p = 0 -> LI (Some p) s.
Proof. intros H Hw q. rewrite (H q). destruct (Nat.eqb_spec p q) as [<-|]; [exact Hw|reflexivity]. Qed.

Lemma li_same x s s' :
  (forall p, nlinks p s' = nlinks p s) -> (forall p, want_links s' p = want_links s p) -> LI x s -> LI x s'.
Proof. intros A B H p. rewrite A, (H p). destruct x as [p0|]; [destruct (Nat.eqb p0 p)|]; rewrite ?B; reflexivity. Qed.

Lemma li_set_def x s m d : LI x s -> LI x (set_def s m d).
Proof. apply li_same; reflexivity. Qed.

Lemma li_alloc x s : Inv s -> LI x s -> LI x (fst (alloc s)).
Proof.
  intros [W _]. apply li_same; [intros p; apply nlinks_alloc|]. intros p. unfold want_links, alloc, upd. cbn [fst tbl].
  destruct (Nat.eqb_spec p (next s)) as [->|]; [|reflexivity]. cbn [fresh pstate is_chained].
  destruct (tbl s (next s)) as [pr|] eqn:E; [|reflexivity]. destruct (W _ _ E) as [Hl _]. lia.
Qed.

(* a change of promise q that keeps its state and the links in its watcher list *)
Lemma li_setp_keep x s q pr0 pr' :
  tbl s q = Some pr0 -> q < next s -> pstate pr' = pstate pr0 -> (forall p, cnt p (pwatch pr') = cnt p (pwatch pr0)) ->
  LI x s -> LI x (setp s q pr').
Proof.
  intros H Hl Hs Hc. apply li_same.
  - intros p. pose proof (nlinks_setp p s q pr0 pr' H Hl). rewrite Hc in *. lia.
  - intros p. rewrite want_links_setp. destruct (Nat.eqb_spec p q) as [->|]; [|reflexivity].
    unfold want_links. rewrite H, Hs. reflexivity.
Qed.

Lemma li_send_op s p m b wr s' e :
  Inv s -> LI None s -> send_op good_pcfg s p m b wr = (s', e) -> LI None s' /\ NoCrash e.
Proof.
  intros I L. pose proof I as [W Q]. unfold send_op. destruct (tbl s p) as [pr|] eqn:Hp.
  2:{ intros H; injection H as <- <-. split; [exact L|apply nocrash_nil]. }
  destruct (W _ _ Hp) as [Hl Wp].
  assert (GA : forall s1 r, (if wr then let '(s1, r) := alloc s in (s1, Some r) else (s, None)) = (s1, r) ->
                            LI None s1 /\ tbl s1 p = Some pr /\ p < next s1).
  { intros s1 r. destruct wr.
    - intros H. injection H as <- <-. split; [apply li_alloc; assumption|].
      cbn [alloc fst tbl next]. rewrite upd_other by lia. split; [exact Hp|lia].
    - intros H. injection H as <- <-. auto. }
  destruct (if wr then let '(s1, r) := alloc s in (s1, Some r) else (s, None)) as [s1 r] eqn:Ea.
  destruct (GA s1 r eq_refl) as (L1 & Hp1 & Hl1).
  cbn [good_pcfg pc_queue_on pc_pending_pos put].
  destruct (pending_state (pstate pr)) eqn:Hs.
  - pose proof (wf_unresolved _ Wp Hs) as (_ & U2 & _). rewrite U2. intros H; injection H as <- <-.
    split; [|apply nocrash_one; discriminate].
    eapply li_setp_keep; eauto.
  - intros H; injection H as <- <-. split; [|apply nocrash_one; discriminate].
    eapply li_same; [| |exact L1]; [|reflexivity]. intros q. rewrite nlinks_enq. cbn [cnt_q]. lia.
Qed.

Lemma li_when_op s p w s' e :
  Inv s -> LI None s -> when_op good_pcfg s p w = (s', e) -> LI None s' /\ NoCrash e.
Proof.
  intros I L. pose proof I as [W0 Q]. unfold when_op. destruct (tbl s p) as [pr|] eqn:Hp.
  2:{ intros H; injection H as <- <-. split; [exact L|apply nocrash_nil]. }
  destruct (W0 _ _ Hp) as [Hl Wp]. cbn [good_pcfg pc_wait_on].
  destruct (pending_state (pstate pr)) eqn:Hs.
  - pose proof (wf_unresolved _ Wp Hs) as (_ & U2 & _). rewrite U2. intros H; injection H as <- <-.
    split; [|apply nocrash_one; discriminate].
    eapply li_setp_keep; eauto. intros q. cbn [pwatch]. rewrite cnt_app. cbn [cnt]. lia.
  - destruct (wf_resolved _ Wp Hs) as (o & T & _). rewrite T. intros H; injection H as <- <-.
    split; [exact L|]. intros q top [E|[E|[]]]; discriminate.
Qed.

(* _resolve2 entered on a promise that is unresolved and has no link left: afterwards every promise has exactly
   the links it must have, and nothing crashed *)
Lemma li_resolve2 top s p o s' e :
  Inv s -> LI (Some p) s -> (forall pr, tbl s p = Some pr -> pending_state (pstate pr) = true) ->
  resolve2 good_pcfg top s p o = (s', e) -> LI None s' /\ NoCrash e.
Proof.
  intros I L Hpend. pose proof I as [W Q]. unfold resolve2. destruct (tbl s p) as [pr|] eqn:Hp.
  2:{ intros H; injection H as <- <-. split; [|apply nocrash_nil].
      apply (li_some_none p); [exact L|]. unfold want_links. rewrite Hp. reflexivity. }
  destruct (W _ _ Hp) as [Hl Wp]. specialize (Hpend pr eq_refl).
  pose proof (wf_unresolved _ Wp Hpend) as (_ & U2 & _).
  cbn [good_pcfg pc_break_guard pc_sets_near pc_break_assigns pc_drain_order pc_watch_order].
  assert (Hb : (match o with Fail _ => true && is_broken (pstate pr) | Val _ => false end) = false).
  { destruct o; [reflexivity|]. destruct (pstate pr); try discriminate; reflexivity. }
  rewrite Hb, U2. cbn [negb]. intros H; injection H as <- <-. split; [|apply nocrash_nil].
  intros q. rewrite nlinks_enq. unfold drain_tasks. cbn [ord good_pcfg pc_drain_order pc_watch_order].
  rewrite cnt_q_app, cnt_q_deliver, cnt_q_callbacks.
  match goal with |- context [setp s p ?x] => set (pr' := x) end.
  pose proof (nlinks_setp q s p pr pr' Hp Hl) as E. cbn [pr' pwatch cnt] in E.
  rewrite want_links_enq, want_links_setp. pose proof (L q) as Lq. cbn beta iota in Lq.
  destruct (Nat.eqb_spec q p) as [->|Hn].
  - rewrite Nat.eqb_refl in Lq. cbn [pr' pstate]. destruct o; cbn [is_chained]; lia.
  - destruct (Nat.eqb_spec p q) as [->|_]; [contradiction|]. lia.
Qed.

Lemma li_chain_to top s p q pp s' e :
  Inv s -> LI (Some p) s -> tbl s p = Some pp -> pstate pp = SChained -> tbl s q <> None ->
  chain_to good_pcfg top s p q = (s', e) -> LI None s' /\ NoCrash e.
Proof.
  intros I L Hp Hs Hq. pose proof I as [W Q]. unfold chain_to. destruct (tbl s q) as [qr|] eqn:Eq; [|contradiction].
  destruct (W _ _ Eq) as [Hl Wq]. cbn [good_pcfg pc_wait_on].
  destruct (pending_state (pstate qr)) eqn:Hqs.
  - pose proof (wf_unresolved _ Wq Hqs) as (_ & U2 & _). rewrite U2. intros H; injection H as <- <-.
    split; [|apply nocrash_nil]. intros r.
    match goal with |- context [setp s q ?x] => set (qr' := x) end.
    pose proof (nlinks_setp r s q qr qr' Eq Hl) as E. cbn [qr' pwatch] in E. rewrite cnt_app in E. cbn [cnt] in E.
    assert (Hw : want_links (setp s q qr') r = want_links s r).
    { rewrite want_links_setp. destruct (Nat.eqb_spec r q) as [->|]; [|reflexivity].
      unfold want_links. rewrite Eq. reflexivity. }
    rewrite Hw. pose proof (L r) as Lr. cbn beta iota in Lr. destruct (Nat.eqb_spec p r) as [<-|Hn].
    + unfold want_links. rewrite Hp, Hs. cbn [is_chained]. lia.
    + lia.
  - destruct (wf_resolved _ Wq Hqs) as (o & T & _). rewrite T.
    apply li_resolve2; [exact I|exact L|]. intros pr Hpr. rewrite Hp in Hpr. injection Hpr as <-. rewrite Hs. reflexivity.
Qed.

Lemma li_resolve_call top s p x s' e :
  Inv s -> LI None s -> resolve_call good_pcfg top s p x = (s', e) -> LI None s' /\ NoCrash e.
Proof.
  intros I L. pose proof I as [W Q]. unfold resolve_call. destruct (tbl s p) as [pr|] eqn:Hp.
  2:{ intros H; injection H as <- <-. split; [exact L|apply nocrash_nil]. }
  destruct (W _ _ Hp) as [Hl Wp]. cbn [good_pcfg pc_resolve_guarded andb].
  destruct (is_eventual (pstate pr)) eqn:He; cbn [negb].
  2:{ intros H; injection H as <- <-. split; [exact L|apply nocrash_one; discriminate]. }
  assert (Hse : pstate pr = SEventual) by (destruct (pstate pr); try discriminate; reflexivity).
  assert (Hw0 : want_links s p = 0) by (unfold want_links; rewrite Hp, Hse; reflexivity).
  assert (Hpend : forall pr0, tbl s p = Some pr0 -> pending_state (pstate pr0) = true).
  { intros pr0 E. rewrite Hp in E. injection E as <-. rewrite Hse. reflexivity. }
  destruct x as [v|f|q]; try (apply li_resolve2; [exact I|apply li_none_some; assumption|exact Hpend]).
  destruct (tbl s q) as [qr|] eqn:Hq.
  2:{ intros H; injection H as <- <-. split; [exact L|apply nocrash_nil]. }
  pose proof (wf_unresolved _ Wp (Hpend _ Hp)) as (U1 & U2 & U3).
  match goal with |- (let '(_, _) := chain_to _ _ (setp s p ?x) _ _ in _) = _ -> _ => set (pr1 := x) end.
  assert (G1 : Good s (setp s p pr1) []).
  { eapply setp_good; eauto; left; repeat split; assumption. }
  assert (L1 : LI (Some p) (setp s p pr1)).
  { intros r. pose proof (nlinks_setp r s p pr pr1 Hp Hl) as E. cbn [pr1 pwatch] in E.
    rewrite want_links_setp. pose proof (L r) as Lr. cbn beta iota in Lr.
    destruct (Nat.eqb_spec p r) as [<-|Hn]; [lia|]. destruct (Nat.eqb_spec r p) as [->|_]; [contradiction|]. lia. }
  destruct (chain_to good_pcfg top (setp s p pr1) p q) as [s2 e2] eqn:Ec.
  intros H; injection H as <- <-.
  eapply li_chain_to in Ec; [| eapply good_inv; exact G1 | exact L1 | cbn [setp tbl]; apply upd_same | reflexivity |].
  - destruct Ec as [A B]. split; [exact A|]. change (EChained p q :: e2) with ([EChained p q] ++ e2).
    apply nocrash_app; [apply nocrash_one; discriminate|exact B].
  - cbn [setp tbl]. unfold upd. destruct (Nat.eqb q p); [discriminate|]. rewrite Hq. discriminate.
Qed.

Lemma li_resolver s r x s' e : Inv s -> LI None s -> resolver good_pcfg s r x = (s', e) -> LI None s' /\ NoCrash e.
Proof.
  intros I L. unfold resolver. destruct r; [apply li_resolve_call; assumption|].
  intros H; injection H as <- <-. split; [exact L|apply nocrash_nil].
Qed.

Lemma li_resolver_opt s r x s' e : Inv s -> LI None s -> resolver_opt good_pcfg s r x = (s', e) -> LI None s' /\ NoCrash e.
Proof.
  intros I L. unfold resolver_opt. destruct x; [apply li_resolver; assumption|].
  intros H; injection H as <- <-. split; [exact L|apply nocrash_nil].
Qed.

Lemma li_meth_send s m s0 e0 : Inv s -> LI None s -> meth_send good_pcfg s m = (s0, e0) -> LI None s0 /\ NoCrash e0.
Proof.
  intros I L. unfold meth_send.
  destruct (mbeh m); try (intros H; injection H as <- <-; split; [exact L|apply nocrash_nil]).
  apply li_send_op; assumption.
Qed.

Lemma li_meth_result nx s0 m s1 x : LI None s0 -> meth_result nx s0 m = (s1, x) -> LI None s1.
Proof.
  intros L. unfold meth_result. destruct (mbeh m); try (intros H; injection H as <- _; exact L).
  destruct (dget (defs s0) (mid m)) as [[r|x0|]|]; intros H; injection H as <- _;
    first [apply li_set_def; exact L | exact L].
Qed.

Lemma li_run_one s s' e : Inv s -> LI None s -> run_one good_pcfg s = (s', e) -> LI None s' /\ NoCrash e.
Proof.
  intros I L. pose proof I as [W Q]. unfold run_one. destruct (queue s) as [|t q'] eqn:Eq.
  { intros H; injection H as <- <-. split; [exact L|apply nocrash_nil]. }
  set (s0 := {| tbl := tbl s; next := next s; queue := q'; defs := defs s |}).
  assert (I0 : Inv s0) by (split; [exact W|]; inversion Q; assumption).
  assert (T0 : task_ok s0 t) by (inversion Q; assumption).
  assert (Hn : forall p, nlinks p s = cnt_q p [t] + nlinks p s0).
  { intros p. unfold nlinks. rewrite Eq. cbn [s0 tbl next queue]. change (t :: q') with ([t] ++ q'). rewrite cnt_q_app. lia. }
  assert (Hw : forall p, want_links s0 p = want_links s p) by reflexivity.
  destruct t as [p m|p [w|p'] o]; cbn [run_task].
  - assert (L0 : LI None s0).
    { intros r. rewrite Hw, <- (L r), (Hn r). cbn [cnt_q]. lia. }
    destruct T0 as (pr & o & Hp & R). rewrite Hp. pose proof R as (T & _). rewrite T.
    destruct o as [v|f].
    + destruct (meth_send good_pcfg s0 m) as [s1 e1] eqn:E1.
      destruct (meth_result (next s0) s1 m) as [s2 x] eqn:E2.
      destruct (resolver_opt good_pcfg s2 (mres m) x) as [s3 e3] eqn:E3.
      intros H; injection H as <- <-.
      pose proof (meth_send_good _ _ _ _ I0 E1) as G1. apply li_meth_send in E1 as [L1 N1]; [|exact I0|exact L0].
      pose proof (meth_result_good _ _ _ _ _ (good_inv _ _ _ G1) E2) as G2. apply li_meth_result in E2; [|exact L1].
      apply li_resolver_opt in E3 as [L3 N3]; [|eapply good_inv; exact G2|exact E2].
      split; [exact L3|]. change (dev p m (Val v) :: e1 ++ e3) with ([dev p m (Val v)] ++ (e1 ++ e3)).
      apply nocrash_app; [apply nocrash_one; intros q0 top0; apply dev_not_crash|apply nocrash_app; assumption].
    + destruct (resolver good_pcfg s0 (mres m) (RFail f)) as [s1 e1] eqn:E1.
      intros H; injection H as <- <-. apply li_resolver in E1 as [L1 N1]; [|exact I0|exact L0].
      split; [exact L1|]. change (EDelivered p (mid m) (Fail f) :: e1) with ([EDelivered p (mid m) (Fail f)] ++ e1).
      apply nocrash_app; [apply nocrash_one; discriminate|exact N1].
  - intros H; injection H as <- <-. split; [|apply nocrash_one; discriminate].
    intros r. rewrite Hw, <- (L r), (Hn r). cbn [cnt_q]. lia.
  - (* a chain link fires: it was the only link of p', and p' is CHAINED *)
    assert (Hc : want_links s p' = 1).
    { pose proof (L p') as Lp. cbn beta iota in Lp. rewrite (Hn p') in Lp. cbn [cnt_q] in Lp. rewrite Nat.eqb_refl in Lp.
      unfold want_links in *. destruct (tbl s p') as [pr|]; [|lia]. destruct (is_chained (pstate pr)); lia. }
    assert (L0 : LI (Some p') s0).
    { intros r. pose proof (L r) as Lr. cbn beta iota in Lr. rewrite (Hn r) in Lr. cbn [cnt_q] in Lr. rewrite Hw.
      destruct (Nat.eqb_spec p' r) as [E|E]; [rewrite <- E in *|]; lia. }
    apply li_resolve2; [exact I0|exact L0|].
    intros pr Hpr. unfold want_links in Hc. change (tbl s0 p') with (tbl s p') in Hpr. rewrite Hpr in Hc.
    destruct (pstate pr); try discriminate; reflexivity.
Qed.

Lemma li_run_n n : forall s s' e, Inv s -> LI None s -> run_n good_pcfg n s = (s', e) -> LI None s' /\ NoCrash e.
Proof.
  induction n as [|n IH]; intros s s' e I L; cbn [run_n].
  - intros H; injection H as <- <-. split; [exact L|apply nocrash_nil].
  - destruct (run_one good_pcfg s) as [s1 t1] eqn:E1. destruct (run_n good_pcfg n s1) as [s2 t2] eqn:E2.
    intros H; injection H as <- <-. pose proof (run_one_good _ _ _ I E1) as G1.
    apply li_run_one in E1 as [L1 N1]; [|exact I|exact L].
    apply IH in E2 as [L2 N2]; [|eapply good_inv; exact G1|exact L1]. split; [exact L2|apply nocrash_app; assumption].
Qed.

Lemma li_fire_def s m x s' e : Inv s -> LI None s -> fire_def good_pcfg s m x = (s', e) -> LI None s' /\ NoCrash e.
Proof.
  intros I L. unfold fire_def.
  match goal with |- (if ?c then _ else _) = _ -> _ => destruct c end.
  { intros H; injection H as <- <-. split; [exact L|apply nocrash_nil]. }
  destruct (dget (defs s) m) as [[r|x0|]|].
  - apply li_resolver; [eapply good_inv; apply set_def_good; exact I|apply li_set_def; exact L].
  - intros H; injection H as <- <-. split; [exact L|apply nocrash_nil].
  - intros H; injection H as <- <-. split; [exact L|apply nocrash_nil].
  - intros H; injection H as <- <-. split; [apply li_set_def; exact L|apply nocrash_nil].
Qed.

Lemma li_pstep s o s' e : Inv s -> LI None s -> pstep good_pcfg s o = (s', e) -> LI None s' /\ NoCrash e.
Proof.
  intros I L. destruct o as [|p m b|p m b|p w|p x|m x|]; cbn [pstep].
  - intros H; injection H as <- <-. split; [apply li_alloc; assumption|apply nocrash_nil].
  - apply li_send_op; assumption.
  - apply li_send_op; assumption.
  - apply li_when_op; assumption.
  - destruct x as [v|f|q]; try (apply li_resolve_call; assumption).
    destruct (Nat.ltb q (next s)); [apply li_resolve_call; assumption|].
    intros H; injection H as <- <-. split; [exact L|apply nocrash_nil].
  - apply li_fire_def; assumption.
  - apply li_run_n; assumption.
Qed.

Lemma li_prun ops : forall s s' e, Inv s -> LI None s -> prun good_pcfg s ops = (s', e) -> LI None s' /\ NoCrash e.
Proof.
  induction ops as [|o ops IH]; intros s s' e I L; cbn [prun].
  - intros H; injection H as <- <-. split; [exact L|apply nocrash_nil].
  - destruct (pstep good_pcfg s o) as [s1 t1] eqn:E1. destruct (prun good_pcfg s1 ops) as [s2 t2] eqn:E2.
    intros H; injection H as <- <-. pose proof (pstep_good _ _ _ _ I E1) as G1.
    apply li_pstep in E1 as [L1 N1]; [|exact I|exact L].
    apply IH in E2 as [L2 N2]; [|eapply good_inv; exact G1|exact L1]. split; [exact L2|apply nocrash_app; assumption].
Qed.

Lemma li_ps0 : LI None ps0.
Proof. intros p. reflexivity. Qed.

(* "chains of promises resolved to promises": in every reachable state each promise has exactly as many pending
   calls of its _resolve2 (links: in some promise's _watchers, or scheduled in the queue) as it must have --
   one while it is CHAINED, none in any other state *)
Theorem pr_links_exact : forall ops s t p,
  prun src_pcfg ps0 ops = (s, t) -> nlinks p s = want_links s p.
Proof.
  rewrite src_is_good. intros ops s t p H. apply li_prun in H as [L _]; [|exact inv_ps0|exact li_ps0]. exact (L p).
Qed.

(* ... hence _resolve2 is never entered on a promise that is already NEAR or BROKEN (nor EVENTUAL): whenever a link
   is scheduled or registered, its promise is CHAINED, unresolved, and its lists still exist *)
Theorem pr_link_targets_chained : forall ops s t p,
  prun src_pcfg ps0 ops = (s, t) ->
  ((exists q o, In (TCallback q (Chain p) o) (queue s)) \/
   (exists q qr, tbl s q = Some qr /\ In (Chain p) (pwatch qr))) ->
  exists pr, tbl s p = Some pr /\ pstate pr = SChained /\ plive pr = true /\ ptarget pr = None.
Proof.
  intros ops s t p H Hin. pose proof (pr_links_exact _ _ _ p H) as E.
  rewrite src_is_good in H. apply prun_good in H; [|exact inv_ps0]. destruct H as ([W _] & _ & _).
  assert (Hge : 1 <= nlinks p s).
  { unfold nlinks. destruct Hin as [(q & o & Hq)|(q & qr & Hq & Hc)].
    - pose proof (cnt_q_in _ _ _ _ Hq). lia.
    - destruct (W _ _ Hq) as [Hl _]. pose proof (cnt_tbl_ge p (tbl s) q (next s) Hl) as G. rewrite Hq in G.
      cbn [watch_of] in G. pose proof (cnt_in _ _ Hc). lia. }
  rewrite E in Hge. unfold want_links in Hge. destruct (tbl s p) as [pr|] eqn:Hp; [|lia].
  destruct (pstate pr) eqn:Hs; cbn [is_chained] in Hge; try lia.
  destruct (W _ _ Hp) as [_ Wp]. assert (Hps : pending_state (pstate pr) = true) by (rewrite Hs; reflexivity).
  destruct (wf_unresolved _ Wp Hps) as (_ & A & B). exists pr. auto.
Qed.

(* the crash branches of the model (AttributeError on the deleted lists, _resolve2 on a resolved promise, a
   delivery without target) are unreachable: no program produces a crash event *)
Theorem pr_no_crash : forall ops s t p top,
  prun src_pcfg ps0 ops = (s, t) -> ~ In (ECrash p top) t.
Proof.
  rewrite src_is_good. intros ops s t p top H. apply li_prun in H as [_ N]; [|exact inv_ps0|exact li_ps0]. apply N.
Qed.

(* when the link of a CHAINED promise p fires, p takes exactly the outcome of the promise q it was resolved with
   (which is resolved with that outcome), and its queued messages are released towards that outcome *)
Theorem pr_chain_fires_same_outcome : forall ops s t q p o q' s' e,
  prun src_pcfg ps0 ops = (s, t) -> queue s = TCallback q (Chain p) o :: q' -> run_one src_pcfg s = (s', e) ->
  (exists qr, tbl s q = Some qr /\ ptarget qr = Some o /\ pstate qr = match o with Val _ => SNear | Fail _ => SBroken end) /\
  (exists pr, tbl s p = Some pr /\ pstate pr = SChained /\
     exists pr', tbl s' p = Some pr' /\ ptarget pr' = Some o /\
                 pstate pr' = match o with Val _ => SNear | Fail _ => SBroken end /\
                 queue s' = q' ++ map (TDeliver p) (ppending pr) ++ map (fun wt => TCallback p wt o) (pwatch pr)) /\
  e = [].
Proof.
  intros ops s t q p o q' s' e H Hq Hr.
  destruct (pr_link_targets_chained _ _ _ p H) as (pr & Hp & Hs & Hlv & Ht).
  { left. exists q, o. rewrite Hq. left. reflexivity. }
  rewrite src_is_good in *. apply prun_good in H; [|exact inv_ps0]. destruct H as ([W Q] & _ & _).
  rewrite Hq in Q. inversion Q as [|x l T0 _]; subst. destruct T0 as (qr & Hqr & R).
  split; [exists qr; destruct R as (A & _ & _ & _ & B); auto|].
  unfold run_one in Hr. rewrite Hq in Hr. cbn [run_task] in Hr. unfold resolve2 in Hr. cbn [tbl] in Hr.
  rewrite Hp, Hlv, Hs in Hr.
  cbn [good_pcfg pc_break_guard pc_sets_near pc_break_assigns pc_drain_order pc_watch_order is_broken andb negb] in Hr.
  assert (Hb : (match o with Fail _ => false | Val _ => false end) = false) by (destruct o; reflexivity).
  rewrite Hb in Hr. injection Hr as <- <-. split; [|reflexivity].
  exists pr. split; [exact Hp|]. split; [exact Hs|]. eexists. cbn [enq setp tbl queue]. rewrite upd_same.
  split; [reflexivity|]. cbn [ptarget pstate]. split; [reflexivity|]. split; [destruct o; reflexivity|].
  unfold drain_tasks. cbn [ord]. reflexivity.
Qed.

(* non-vacuity: a chain of two hops with sends before, between and after the hops; every message reaches the final
   value in send order, the observers registered on the first promise are told that value, nothing crashes *)
Example pr_global_example :
  let ops := [PNew; PNew; PNew; PSendOnly 0 1 (BRet 0); PWhen 0 100; PResolve 0 (RProm 1); PSendOnly 0 2 (BRet 0);
              PResolve 1 (RProm 2); PSendOnly 0 3 (BRet 0); PResolve 2 (RVal 9); PSendOnly 0 4 (BRet 0);
              PTurn; PTurn; PTurn; PWhen 0 101; PTurn] in
  let '(s, t) := prun src_pcfg ps0 ops in
  (sent_to 0 t, delivered_to 0 t, queued_for 0 (queue s), pending_of s 0, whens 0 t, observed 0 t, nlinks 0 s)
  = ([1; 2; 3; 4]%Z, [1; 2; 3; 4]%Z, [], [], [100; 101]%Z, [100; 101]%Z, 0).
Proof. vm_compute. reflexivity. Qed.

(* ... and in the middle of it: the first promise is CHAINED and has exactly one link *)
Example pr_links_example :
  let ops := [PNew; PNew; PNew; PSendOnly 0 1 (BRet 0); PResolve 0 (RProm 1); PResolve 1 (RProm 2); PResolve 2 (RVal 9)] in
  let s := fst (prun src_pcfg ps0 ops) in
  (nlinks 0 s, nlinks 1 s, nlinks 2 s, want_links s 0, cnt_q 1 (queue s)) = (1, 1, 0, 1, 1).
Proof. vm_compute. reflexivity. Qed.

(* a method that returns a Deferred: the result promise waits until the program fires it -- before the delivery
   (promise 1) or after it (promise 2) -- and is broken when it fires with a Failure (promise 3) *)
Example pr_deferred_example :
  let ops := [PNew; PResolve 0 (RVal 9); PSend 0 1 BRetD; PSend 0 2 BRetD; PSend 0 3 BRetD; PFire 1 (RVal 5);
              PWhen 1 100; PWhen 2 101; PWhen 3 102; PTurn; PFire 2 (RVal 6); PFire 3 (RFail 7); PTurn] in
  observed 1 (snd (prun src_pcfg ps0 ops)) = [100]%Z /\
  map (fun e => match e with EObserved p w o => Some (p, w, o) | _ => None end)
      (filter (fun e => match e with EObserved _ _ _ => true | _ => false end) (snd (prun src_pcfg ps0 ops)))
  = [Some (1, 100%Z, Val 5); Some (2, 101%Z, Val 6); Some (3, 102%Z, Fail 7)].
Proof. vm_compute. split; reflexivity. Qed.

(* ================================================================== OneShotObserverList: exactly once, in order *)
Fixpoint oso_told (out : list oso_out) : list Z :=
  match out with [] => [] | OEventually w _ :: t => w :: oso_told t | _ :: t => oso_told t end.
Fixpoint oso_asked (ops : list oso_op) : list Z :=
  match ops with [] => [] | OWhenFired w :: t => w :: oso_asked t | _ :: t => oso_asked t end.

Lemma oso_told_app a b : oso_told (a ++ b) = oso_told a ++ oso_told b.
Proof. induction a as [|o a IH]; [reflexivity|]. destruct o; cbn [app oso_told]; rewrite IH; reflexivity. Qed.
Lemma oso_told_map r l : oso_told (map (fun w => OEventually w r) l) = l.
Proof. induction l as [|w l IH]; [reflexivity|]. cbn [map oso_told]. rewrite IH. reflexivity. Qed.

Lemma oso_account ops : forall s,
  (o_fired s <> None -> o_watchers s = []) ->
  oso_told (snd (oso_run s ops)) ++ o_watchers (fst (oso_run s ops)) = o_watchers s ++ oso_asked ops.
Proof.
  induction ops as [|o ops IH]; intros s Hs; cbn [oso_run].
  - cbn. rewrite app_nil_r. reflexivity.
  - destruct (oso_step s o) as [s1 t1] eqn:E1. destruct (oso_run s1 ops) as [s2 t2] eqn:E2. cbn [fst snd].
    rewrite oso_told_app. unfold oso_step in E1. destruct o as [w|r]; destruct (o_fired s) as [r0|] eqn:Ef.
    + injection E1 as <- <-. assert (Hw : o_watchers s = []) by (apply Hs; discriminate).
      specialize (IH s (fun _ => Hw)). rewrite E2 in IH. cbn [fst snd] in IH.
      rewrite Hw in *. cbn [oso_told oso_asked app] in *. rewrite IH. reflexivity.
    + injection E1 as <- <-. specialize (IH {| o_fired := None; o_watchers := o_watchers s ++ [w] |}).
      rewrite E2 in IH. cbn [fst snd o_fired o_watchers] in IH. cbn [oso_told oso_asked app].
      rewrite IH by (intros C; contradiction). rewrite <- app_assoc. reflexivity.
    + rewrite oso_asserts in E1. injection E1 as <- <-. assert (Hw : o_watchers s = []) by (apply Hs; discriminate).
      specialize (IH s (fun _ => Hw)). rewrite E2 in IH. cbn [fst snd] in IH.
      cbn [oso_told oso_asked app]. exact IH.
    + injection E1 as <- <-. specialize (IH {| o_fired := Some r; o_watchers := [] |}).
      rewrite E2 in IH. cbn [fst snd o_fired o_watchers] in IH. cbn [oso_asked].
      rewrite oso_told_map, <- app_assoc, IH by reflexivity. reflexivity.
Qed.

(* every subscriber of a one-shot observer list is sent its (one) result exactly once and in subscription order,
   whatever the interleaving of whenFired() and fire(): told ++ still waiting = asked *)
Theorem oso_exactly_once : forall ops,
  oso_told (snd (oso_run oso0 ops)) ++ o_watchers (fst (oso_run oso0 ops)) = oso_asked ops.
Proof. intros ops. rewrite (oso_account ops oso0); [reflexivity|]. intros _. reflexivity. Qed.
