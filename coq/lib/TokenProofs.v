(* Round trip between the sender's token encoding (translated send_int / int2b128) and the
   receiver's scanner of lib/Token.v. *)
From Coq Require Import ZArith List String Bool Lia.
Import ListNotations.
Require Import Verif.lib.PyLite Verif.gen.BananaGen Verif.lib.BytesProofs Verif.lib.Token.
Local Open Scope Z_scope.

Lemma le128_le_val ds : le128 ds = le_val 128 ds.
Proof. induction ds as [|d ds IH]; cbn [le128 le_val]; [reflexivity|rewrite IH; reflexivity]. Qed.

(* ---- header scan ---- *)

Lemma scan_header_digits ds : forall room acc ty rest,
  digits_ok 128 ds -> (List.length ds <= room)%nat -> 128 <= ty ->
  scan_header room acc (ds ++ ty :: rest) = HOk (rev acc ++ ds) ty rest.
Proof.
  induction ds as [|d ds IH]; intros room acc ty rest D L T; cbn [app scan_header].
  - destruct (Z.leb_spec 128 ty); [|lia]. rewrite app_nil_r. reflexivity.
  - inversion D as [|? ? Hd D']; subst. destruct (Z.leb_spec 128 d); [lia|].
    destruct room as [|room]; [cbn in L; lia|].
    rewrite IH; [|assumption|cbn in L; lia|assumption].
    cbn [rev]. rewrite <- app_assoc. reflexivity.
Qed.

Lemma pow128_64 : 128 ^ Z.of_nat 64 = 2 ^ 448.
Proof. reflexivity. Qed.

(* header digits + type byte, then anything: the scanner finds exactly that header *)
Lemma hdr_tok_scan n ty acc rest : hdr_ok n = true -> 128 <= ty ->
  exists ds, hdr_tok n ty acc = Ok (acc ++ ds ++ [ty]) /\
             scan_header 64 [] (ds ++ ty :: rest) = HOk ds ty rest /\ le128 ds = n.
Proof.
  intros H T. unfold hdr_ok in H. apply andb_true_iff in H as [H0 H1].
  apply Z.leb_le in H0. apply Z.ltb_lt in H1.
  destruct (int2b128_spec n acc H0) as (ds & E & V & D & NE).
  exists ds. unfold hdr_tok, bind. rewrite E. split; [rewrite <- app_assoc; reflexivity|]. split.
  - assert (L : (List.length ds <= 64)%nat).
    { apply (int2b128_length n acc ds 64); [rewrite pow128_64; lia | lia | exact E]. }
    rewrite (scan_header_digits ds 64 [] ty rest D L T). reflexivity.
  - rewrite le128_le_val. exact V.
Qed.

Lemma firstn_skipn_app_exact {A} (xs ys : list A) :
  firstn (List.length xs) (xs ++ ys) = xs /\ skipn (List.length xs) (xs ++ ys) = ys.
Proof.
  split.
  - rewrite firstn_app, Nat.sub_diag, firstn_all. cbn. apply app_nil_r.
  - rewrite skipn_app, Nat.sub_diag, skipn_all. reflexivity.
Qed.

Lemma tok_consts_ge_128 :
  128 <= tok_INT /\ 128 <= tok_STRING /\ 128 <= tok_NEG /\ 128 <= tok_FLOAT /\ 128 <= tok_VOCAB /\
  128 <= tok_OPEN /\ 128 <= tok_CLOSE /\ 128 <= tok_ABORT /\ 128 <= tok_LONGINT /\ 128 <= tok_LONGNEG /\
  128 <= tok_ERROR /\ 128 <= tok_PING /\ 128 <= tok_PONG.
Proof. unfold tok_INT, tok_STRING, tok_NEG, tok_FLOAT, tok_VOCAB, tok_OPEN, tok_CLOSE, tok_ABORT, tok_LONGINT,
  tok_LONGNEG, tok_ERROR, tok_PING, tok_PONG. lia. Qed.

(* a token with a header-counted body *)
Lemma scan_hdr_body n ty body rest ds :
  scan_header 64 [] (ds ++ ty :: body ++ rest) = HOk ds ty (body ++ rest) -> le128 ds = n ->
  body_len ty n = Some (Z.of_nat (List.length body)) ->
  scan_token (ds ++ ty :: body ++ rest) = STok {| r_ty := ty; r_hdr := n; r_body := body |} rest.
Proof.
  intros S V B. unfold scan_token. rewrite S, V, B.
  rewrite app_length. destruct (Z.ltb_spec (Z.of_nat (List.length body + List.length rest)) (Z.of_nat (List.length body))); [lia|].
  rewrite Nat2Z.id. destruct (firstn_skipn_app_exact body rest) as [F K]. rewrite F, K. reflexivity.
Qed.

Lemma be256_le_val bs : forall acc, be256 bs acc = acc * 256 ^ Z.of_nat (List.length bs) + le_val 256 (rev bs).
Proof.
  induction bs as [|b bs IH]; intros acc; cbn [be256 List.length rev le_val].
  - rewrite Z.pow_0_r. lia.
  - rewrite IH, le_val_app, rev_length. cbn [le_val]. rewrite Nat2Z.inj_succ, Z.pow_succ_r by lia. ring.
Qed.

Lemma be256_long_to_bytes n s : 0 <= n -> long_to_bytes n = Ok s -> be256 s 0 = n.
Proof.
  intros Hn E. destruct (long_to_bytes_spec n Hn) as (ds & E' & V & _).
  rewrite E in E'. inversion E'; subst s. rewrite be256_le_val, rev_involutive, V. lia.
Qed.

(* byte length of a big integer fits the header *)
Lemma long_len_hdr_ok n s : 0 < n -> Z.log2 n < 2 ^ 443 -> long_to_bytes n = Ok s ->
  hdr_ok (Z.of_nat (List.length s)) = true.
Proof.
  intros Hn HL E. pose proof (long_to_bytes_length n s Hn E) as [Lo _].
  unfold hdr_ok. apply andb_true_iff; split; [apply Z.leb_le; lia|apply Z.ltb_lt].
  set (k := Z.of_nat (List.length s)) in *.
  destruct (Z.le_gt_cases k 1) as [|Hk]; [assert (1 < 2 ^ 448) by (apply Z.pow_gt_1; lia); lia|].
  (* 256^(k-1) <= n  ->  8(k-1) <= log2 n *)
  assert (H8 : 2 ^ (8 * (k - 1)) <= n).
  { replace (2 ^ (8 * (k - 1))) with (256 ^ (k - 1)); [exact Lo|].
    change 256 with (2 ^ 8). rewrite <- Z.pow_mul_r by lia. reflexivity. }
  assert (8 * (k - 1) <= Z.log2 n) by (apply Z.log2_le_pow2; lia).
  assert (2 ^ 443 + 8 < 8 * 2 ^ 448) by (vm_compute; reflexivity).
  lia.
Qed.

Ltac ty_unfold := unfold tok_INT, tok_STRING, tok_NEG, tok_FLOAT, tok_VOCAB, tok_OPEN, tok_CLOSE, tok_ABORT,
  tok_LONGINT, tok_LONGNEG, tok_ERROR, tok_PING, tok_PONG in *.

(* ---- the round trip, token by token ---- *)

Theorem token_roundtrip t acc rest : wf_token t = true ->
  exists bs r, encode_token t acc = Ok (acc ++ bs) /\ scan_token (bs ++ rest) = STok r rest /\ interp r = Some t.
Proof.
  intros W. pose proof tok_consts_ge_128 as C.
  destruct t as [z|b8|bs|n|n|n|n|n|n|bs]; cbn [encode_token wf_token] in *.
  - (* TInt: four ranges of send_int *)
    apply Z.ltb_lt in W. unfold send_int.
    destruct (Z.geb_spec z (2 ^ 31)) as [Hbig|Hsmall].
    + assert (Hp : 0 < z) by (assert (0 < 2 ^ 31) by (vm_compute; reflexivity); lia).
      destruct (longbytes_roundtrip z ltac:(lia)) as (s & E & _ & _). rewrite E.
      rewrite Z.abs_eq in W by lia.
      pose proof (long_len_hdr_ok z s Hp W E) as HO.
      destruct (hdr_tok_scan (Z.of_nat (List.length s)) tok_LONGINT acc (s ++ rest) HO ltac:(ty_unfold; lia))
        as (ds & EH & SH & VH).
      unfold hdr_tok, bind in EH. destruct (int2b128 (Z.of_nat (List.length s)) acc) as [w|] eqn:EI; [|discriminate].
      inversion EH as [EH']. exists (ds ++ [tok_LONGINT] ++ s), {| r_ty := tok_LONGINT; r_hdr := Z.of_nat (List.length s); r_body := s |}.
      split; [|split].
      * change ([133]) with ([tok_LONGINT]). f_equal.
        assert (w = acc ++ ds) by (apply (f_equal (fun l => removelast l)) in EH';
          rewrite !removelast_last in EH' || idtac; rewrite app_assoc in EH'; rewrite !removelast_last in EH'; exact EH').
        subst w. rewrite <- !app_assoc. reflexivity.
      * rewrite <- !app_assoc. cbn [app]. apply scan_hdr_body; [exact SH|exact VH|].
        unfold body_len, body_kind. ty_unfold. cbn. reflexivity.
      * unfold interp. cbn [r_ty r_hdr r_body]. ty_unfold. cbn. f_equal. f_equal. apply be256_long_to_bytes; [lia|exact E].
    + destruct (Z.geb_spec z 0) as [Hnn|Hneg].
      * assert (HO : hdr_ok z = true).
        { unfold hdr_ok. apply andb_true_iff; split; [apply Z.leb_le; lia|apply Z.ltb_lt].
          assert (2 ^ 31 < 2 ^ 448) by (apply Z.pow_lt_mono_r; lia). lia. }
        destruct (hdr_tok_scan z tok_INT acc rest HO ltac:(ty_unfold; lia)) as (ds & EH & SH & VH).
        unfold hdr_tok, bind in EH. destruct (int2b128 z acc) as [w|] eqn:EI; [|discriminate].
        exists (ds ++ [tok_INT]), {| r_ty := tok_INT; r_hdr := z; r_body := [] |}.
        split; [|split].
        -- change [129] with [tok_INT]. rewrite EH. reflexivity.
        -- rewrite <- app_assoc. cbn [app].
           pose proof (scan_hdr_body z tok_INT [] rest ds) as Hs. cbn [app] in Hs. apply Hs; [exact SH|exact VH|].
           unfold body_len, body_kind. ty_unfold. cbn. reflexivity.
        -- unfold interp. cbn [r_ty r_hdr]. ty_unfold. cbn. reflexivity.
      * destruct (Z.gtb_spec (- z) (2 ^ 31)) as [Hbn|Hsn].
        -- assert (Hp : 0 < - z) by lia.
           destruct (longbytes_roundtrip (- z) ltac:(lia)) as (s & E & _ & _). rewrite E.
           rewrite Z.abs_neq in W by lia.
           pose proof (long_len_hdr_ok (- z) s Hp W E) as HO.
           destruct (hdr_tok_scan (Z.of_nat (List.length s)) tok_LONGNEG acc (s ++ rest) HO ltac:(ty_unfold; lia))
             as (ds & EH & SH & VH).
           unfold hdr_tok, bind in EH. destruct (int2b128 (Z.of_nat (List.length s)) acc) as [w|] eqn:EI; [|discriminate].
           inversion EH as [EH']. exists (ds ++ [tok_LONGNEG] ++ s), {| r_ty := tok_LONGNEG; r_hdr := Z.of_nat (List.length s); r_body := s |}.
           split; [|split].
           ++ change ([134]) with ([tok_LONGNEG]). f_equal.
              assert (w = acc ++ ds) by (rewrite app_assoc in EH'; apply app_inj_tail in EH'; tauto).
              subst w. rewrite <- !app_assoc. reflexivity.
           ++ rewrite <- !app_assoc. cbn [app]. apply scan_hdr_body; [exact SH|exact VH|].
              unfold body_len, body_kind. ty_unfold. cbn. reflexivity.
           ++ unfold interp. cbn [r_ty r_hdr r_body]. ty_unfold. cbn. f_equal. f_equal.
              rewrite (be256_long_to_bytes (- z) s ltac:(lia) E). lia.
        -- assert (HO : hdr_ok (- z) = true).
           { unfold hdr_ok. apply andb_true_iff; split; [apply Z.leb_le; lia|apply Z.ltb_lt].
             assert (2 ^ 31 < 2 ^ 448) by (apply Z.pow_lt_mono_r; lia). lia. }
           destruct (hdr_tok_scan (- z) tok_NEG acc rest HO ltac:(ty_unfold; lia)) as (ds & EH & SH & VH).
           unfold hdr_tok, bind in EH. destruct (int2b128 (- z) acc) as [w|] eqn:EI; [|discriminate].
           exists (ds ++ [tok_NEG]), {| r_ty := tok_NEG; r_hdr := - z; r_body := [] |}.
           split; [|split].
           ++ change [131] with [tok_NEG]. rewrite EH. reflexivity.
           ++ rewrite <- app_assoc. cbn [app].
              pose proof (scan_hdr_body (- z) tok_NEG [] rest ds) as Hs. cbn [app] in Hs. apply Hs; [exact SH|exact VH|].
              unfold body_len, body_kind. ty_unfold. cbn. reflexivity.
           ++ unfold interp. cbn [r_ty r_hdr]. ty_unfold. cbn. f_equal. f_equal. lia.
  - (* TFloat *)
    apply andb_true_iff in W as [WL _]. apply Nat.eqb_eq in WL.
    exists ([tok_FLOAT] ++ b8), {| r_ty := tok_FLOAT; r_hdr := 0; r_body := b8 |}.
    split; [reflexivity|split].
    + pose proof (scan_hdr_body 0 tok_FLOAT b8 rest []) as Hs. cbn [app] in *.
      apply Hs; [ty_unfold; reflexivity|reflexivity|].
      unfold body_len, body_kind. ty_unfold. cbn. rewrite WL. reflexivity.
    + unfold interp. cbn [r_ty r_body]. ty_unfold. cbn. reflexivity.
  - (* TString *)
    apply andb_true_iff in W as [HO _].
    destruct (hdr_tok_scan (Z.of_nat (List.length bs)) tok_STRING acc (bs ++ rest) HO ltac:(ty_unfold; lia))
      as (ds & EH & SH & VH).
    exists (ds ++ [tok_STRING] ++ bs), {| r_ty := tok_STRING; r_hdr := Z.of_nat (List.length bs); r_body := bs |}.
    split; [|split].
    + unfold bind. rewrite EH. rewrite <- !app_assoc. reflexivity.
    + rewrite <- !app_assoc. cbn [app]. apply scan_hdr_body; [exact SH|exact VH|].
      unfold body_len, body_kind. ty_unfold. cbn. reflexivity.
    + unfold interp. cbn [r_ty r_hdr r_body]. ty_unfold. cbn. reflexivity.
  - (* TVocab *)
    destruct (hdr_tok_scan n tok_VOCAB acc rest W ltac:(ty_unfold; lia)) as (ds & EH & SH & VH).
    exists (ds ++ [tok_VOCAB]), {| r_ty := tok_VOCAB; r_hdr := n; r_body := [] |}.
    split; [exact EH|split].
    + rewrite <- app_assoc. cbn [app]. pose proof (scan_hdr_body n tok_VOCAB [] rest ds) as Hs. cbn [app] in Hs.
      apply Hs; [exact SH|exact VH|]. unfold body_len, body_kind. ty_unfold. cbn. reflexivity.
    + unfold interp. cbn [r_ty r_hdr]. ty_unfold. cbn. reflexivity.
  - (* TOpen *)
    destruct (hdr_tok_scan n tok_OPEN acc rest W ltac:(ty_unfold; lia)) as (ds & EH & SH & VH).
    exists (ds ++ [tok_OPEN]), {| r_ty := tok_OPEN; r_hdr := n; r_body := [] |}.
    split; [exact EH|split].
    + rewrite <- app_assoc. cbn [app]. pose proof (scan_hdr_body n tok_OPEN [] rest ds) as Hs. cbn [app] in Hs.
      apply Hs; [exact SH|exact VH|]. unfold body_len, body_kind. ty_unfold. cbn. reflexivity.
    + unfold interp. cbn [r_ty r_hdr]. ty_unfold. cbn. reflexivity.
  - (* TClose *)
    destruct (hdr_tok_scan n tok_CLOSE acc rest W ltac:(ty_unfold; lia)) as (ds & EH & SH & VH).
    exists (ds ++ [tok_CLOSE]), {| r_ty := tok_CLOSE; r_hdr := n; r_body := [] |}.
    split; [exact EH|split].
    + rewrite <- app_assoc. cbn [app]. pose proof (scan_hdr_body n tok_CLOSE [] rest ds) as Hs. cbn [app] in Hs.
      apply Hs; [exact SH|exact VH|]. unfold body_len, body_kind. ty_unfold. cbn. reflexivity.
    + unfold interp. cbn [r_ty r_hdr]. ty_unfold. cbn. reflexivity.
  - (* TAbort *)
    destruct (hdr_tok_scan n tok_ABORT acc rest W ltac:(ty_unfold; lia)) as (ds & EH & SH & VH).
    exists (ds ++ [tok_ABORT]), {| r_ty := tok_ABORT; r_hdr := n; r_body := [] |}.
    split; [exact EH|split].
    + rewrite <- app_assoc. cbn [app]. pose proof (scan_hdr_body n tok_ABORT [] rest ds) as Hs. cbn [app] in Hs.
      apply Hs; [exact SH|exact VH|]. unfold body_len, body_kind. ty_unfold. cbn. reflexivity.
    + unfold interp. cbn [r_ty r_hdr]. ty_unfold. cbn. reflexivity.
  - (* TPing: header omitted when 0 *)
    unfold hdr_tok_opt. destruct (Z.eqb_spec n 0) as [->|Hnz].
    + exists [tok_PING], {| r_ty := tok_PING; r_hdr := 0; r_body := [] |}.
      split; [reflexivity|split; [|unfold interp; cbn [r_ty r_hdr]; ty_unfold; cbn; reflexivity]].
      pose proof (scan_hdr_body 0 tok_PING [] rest []) as Hs. cbn [app] in *. apply Hs; [ty_unfold; reflexivity|reflexivity|].
      unfold body_len, body_kind. ty_unfold. cbn. reflexivity.
    + destruct (hdr_tok_scan n tok_PING acc rest W ltac:(ty_unfold; lia)) as (ds & EH & SH & VH).
      exists (ds ++ [tok_PING]), {| r_ty := tok_PING; r_hdr := n; r_body := [] |}.
      split; [exact EH|split].
      * rewrite <- app_assoc. cbn [app]. pose proof (scan_hdr_body n tok_PING [] rest ds) as Hs. cbn [app] in Hs.
        apply Hs; [exact SH|exact VH|]. unfold body_len, body_kind. ty_unfold. cbn. reflexivity.
      * unfold interp. cbn [r_ty r_hdr]. ty_unfold. cbn. reflexivity.
  - (* TPong *)
    unfold hdr_tok_opt. destruct (Z.eqb_spec n 0) as [->|Hnz].
    + exists [tok_PONG], {| r_ty := tok_PONG; r_hdr := 0; r_body := [] |}.
      split; [reflexivity|split; [|unfold interp; cbn [r_ty r_hdr]; ty_unfold; cbn; reflexivity]].
      pose proof (scan_hdr_body 0 tok_PONG [] rest []) as Hs. cbn [app] in *. apply Hs; [ty_unfold; reflexivity|reflexivity|].
      unfold body_len, body_kind. ty_unfold. cbn. reflexivity.
    + destruct (hdr_tok_scan n tok_PONG acc rest W ltac:(ty_unfold; lia)) as (ds & EH & SH & VH).
      exists (ds ++ [tok_PONG]), {| r_ty := tok_PONG; r_hdr := n; r_body := [] |}.
      split; [exact EH|split].
      * rewrite <- app_assoc. cbn [app]. pose proof (scan_hdr_body n tok_PONG [] rest ds) as Hs. cbn [app] in Hs.
        apply Hs; [exact SH|exact VH|]. unfold body_len, body_kind. ty_unfold. cbn. reflexivity.
      * unfold interp. cbn [r_ty r_hdr]. ty_unfold. cbn. reflexivity.
  - (* TError *)
    apply andb_true_iff in W as [HO _].
    destruct (hdr_tok_scan (Z.of_nat (List.length bs)) tok_ERROR acc (bs ++ rest) HO ltac:(ty_unfold; lia))
      as (ds & EH & SH & VH).
    exists (ds ++ [tok_ERROR] ++ bs), {| r_ty := tok_ERROR; r_hdr := Z.of_nat (List.length bs); r_body := bs |}.
    split; [|split].
    + unfold bind. rewrite EH. rewrite <- !app_assoc. reflexivity.
    + rewrite <- !app_assoc. cbn [app]. apply scan_hdr_body; [exact SH|exact VH|].
      unfold body_len, body_kind. ty_unfold. cbn. reflexivity.
    + unfold interp. cbn [r_ty r_hdr r_body]. ty_unfold. cbn. reflexivity.
Qed.

(* ---- whole streams ---- *)

Lemma scan_token_consumes l r rest : scan_token l = STok r rest -> (List.length rest < List.length l)%nat.
Proof.
  unfold scan_token. destruct (scan_header 64 [] l) as [| |ds ty rest0] eqn:S; try discriminate.
  assert (L : (List.length rest0 < List.length l)%nat).
  { clear -S. revert S. generalize (@nil Z) as acc. generalize 64%nat as room.
    induction l as [|b l IH]; intros room acc S; cbn [scan_header] in S; [discriminate|].
    destruct (128 <=? b); [inversion S; subst; cbn; lia|].
    destruct room; [discriminate|]. apply IH in S. cbn [List.length]. lia. }
  destruct (body_len ty (le128 ds)) as [n|]; [|discriminate].
  destruct (Z.of_nat (List.length rest0) <? n); [discriminate|].
  intros E. inversion E; subst. rewrite skipn_length. lia.
Qed.

Theorem stream_roundtrip ts : forall bs, forallb wf_token ts = true -> encode_stream ts = Ok bs ->
  decode bs = (ts, EndClean).
Proof.
  unfold decode.
  assert (G : forall ts bs fuel, forallb wf_token ts = true -> encode_stream ts = Ok bs ->
              (List.length bs < fuel)%nat -> decode_all fuel bs = (ts, EndClean)).
  { clear ts. induction ts as [|t ts IH]; intros bs fuel W E F.
    - cbn in E. inversion E; subst. destruct fuel; [lia|]. reflexivity.
    - cbn [forallb] in W. apply andb_true_iff in W as [Wt Wts].
      cbn [encode_stream] in E. unfold bind in E.
      destruct (encode_token t []) as [b|] eqn:Et; [|discriminate].
      destruct (encode_stream ts) as [bs'|] eqn:Es; [|discriminate]. inversion E; subst bs.
      destruct (token_roundtrip t [] bs' Wt) as (b0 & r & E0 & S & I). cbn [app] in E0.
      rewrite Et in E0. inversion E0; subst b0.
      destruct fuel as [|fuel]; [lia|]. cbn [decode_all].
      pose proof (scan_token_consumes _ _ _ S) as C.
      destruct (b ++ bs') as [|x xs] eqn:Eb; [cbn in C; lia|]. rewrite <- Eb in *.
      rewrite S, I. rewrite (IH bs' fuel Wts eq_refl); [reflexivity|].
      rewrite Eb in F. cbn [List.length] in F. rewrite Eb in C. cbn [List.length] in C. lia. }
  intros bs W E. apply G with (ts := ts); auto.
Qed.
